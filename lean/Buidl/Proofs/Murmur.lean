/-
  Buidl.Proofs.Murmur — helper.murmur3 (Python big ints, masked only at the end; seed any natural
  number) computes MurmurHash3_x86_32 (Buidl.Spec.Filters.murmur3_32, UInt32 arithmetic) for every
  message shorter than 2^32 bytes and every seed; BloomFilter.add positions / monotonicity /
  no false negatives.

  Invariant through every step: `UInt32.ofNat (model value) = spec value` — the low 32 bits of each
  Python step depend only on the low 32 bits of its inputs.
-/
import Buidl.Model.Filters
import Buidl.Spec.Filters
import Buidl.Proofs.Bytes
namespace Buidl.Filters
open Buidl

/-! ### the steps on `UInt32.ofNat` -/

private theorem ofNat_eq_iff (a : Nat) (u : UInt32) : UInt32.ofNat a = u ↔ a % 2 ^ 32 = u.toNat := by
  rw [← UInt32.toNat_inj, UInt32.toNat_ofNat']

/-- `(x << sh) | ((x & 0xFFFFFFFF) >> (32 - sh))` is the 32-bit rotation on the low 32 bits -/
theorem ofNat_pyRot (x sh : Nat) (h0 : 0 < sh) (hsh : sh < 32) :
    UInt32.ofNat (pyRot x sh 4294967295 (32 - sh))
      = Spec.Filters.rotl32 (UInt32.ofNat x) (UInt32.ofNat sh) := by
  rw [ofNat_eq_iff]
  unfold pyRot Spec.Filters.rotl32
  have hm : (4294967295 : Nat) = 2 ^ 32 - 1 := by decide
  have h1 : (UInt32.ofNat sh).toNat % 32 = sh := by
    rw [UInt32.toNat_ofNat']; omega
  have h2 : ((32 : UInt32) - UInt32.ofNat sh).toNat % 32 = (32 - sh) % 32 := by
    rw [UInt32.toNat_sub, UInt32.toNat_ofNat']
    have : (32 : UInt32).toNat = 32 := by decide
    rw [this]
    have : sh % 2 ^ 32 = sh := by omega
    rw [this]
    omega
  rw [UInt32.toNat_or, UInt32.toNat_shiftLeft, UInt32.toNat_shiftRight, h1, h2, UInt32.toNat_ofNat',
    hm, Nat.and_two_pow_sub_one_eq_mod, Nat.or_mod_two_pow]
  congr 1
  · rw [Nat.shiftLeft_eq, Nat.shiftLeft_eq, Nat.mod_mul_mod]
  · have : (32 - sh) % 32 = 32 - sh := by omega
    rw [this]
    apply Nat.mod_eq_of_lt
    rw [Nat.shiftRight_eq_div_pow]
    exact Nat.lt_of_le_of_lt (Nat.div_le_self _ _) (Nat.mod_lt _ (by decide))

theorem ofNat_rot15 (x : Nat) :
    UInt32.ofNat (pyRot x 15 4294967295 17) = Spec.Filters.rotl32 (UInt32.ofNat x) 15 :=
  ofNat_pyRot x 15 (by decide) (by decide)

theorem ofNat_rot13 (x : Nat) :
    UInt32.ofNat (pyRot x 13 4294967295 19) = Spec.Filters.rotl32 (UInt32.ofNat x) 13 :=
  ofNat_pyRot x 13 (by decide) (by decide)

/-- `h ^ ((h & 0xFFFFFFFF) >> s)` -/
theorem ofNat_xorshift (h s : Nat) (hs : s < 32) :
    UInt32.ofNat (h ^^^ ((h &&& 4294967295) >>> s))
      = UInt32.ofNat h ^^^ (UInt32.ofNat h >>> UInt32.ofNat s) := by
  rw [UInt32.ofNat_xor]
  congr 1
  rw [ofNat_eq_iff]
  have hm : (4294967295 : Nat) = 2 ^ 32 - 1 := by decide
  have h1 : (UInt32.ofNat s).toNat % 32 = s := by
    rw [UInt32.toNat_ofNat']; omega
  rw [UInt32.toNat_shiftRight, h1, UInt32.toNat_ofNat', hm, Nat.and_two_pow_sub_one_eq_mod]
  apply Nat.mod_eq_of_lt
  rw [Nat.shiftRight_eq_div_pow]
  exact Nat.lt_of_le_of_lt (Nat.div_le_self _ _) (Nat.mod_lt _ (by decide))

/-- the k1 scramble `k1 *= c1; k1 = rot15; k1 *= c2` -/
theorem ofNat_scramble (k : Nat) :
    UInt32.ofNat (pyRot (k * 3432918353) 15 4294967295 17 * 461845907)
      = Spec.Filters.murmurK (UInt32.ofNat k) := by
  unfold Spec.Filters.murmurK
  rw [UInt32.ofNat_mul, ofNat_rot15, UInt32.ofNat_mul]
  rfl

private def xsh (h s : Nat) : Nat := h ^^^ ((h &&& 4294967295) >>> s)

/-- fmix32 as coded -/
theorem ofNat_fmix (h : Nat) :
    (let h1 := h ^^^ ((h &&& 4294967295) >>> 16)
     let h1 := h1 * 2246822507
     let h1 := h1 ^^^ ((h1 &&& 4294967295) >>> 13)
     let h1 := h1 * 3266489909
     let h1 := h1 ^^^ ((h1 &&& 4294967295) >>> 16)
     h1 &&& 4294967295) = (Spec.Filters.fmix32 (UInt32.ofNat h)).toNat := by
  show xsh (xsh (xsh h 16 * 2246822507) 13 * 3266489909) 16 &&& 4294967295 = _
  have hm : (4294967295 : Nat) = 2 ^ 32 - 1 := by decide
  have hx : ∀ a s, s < 32 → UInt32.ofNat (xsh a s) = UInt32.ofNat a ^^^ (UInt32.ofNat a >>> UInt32.ofNat s) :=
    fun a s hs => ofNat_xorshift a s hs
  rw [hm, Nat.and_two_pow_sub_one_eq_mod, ← UInt32.toNat_ofNat']
  congr 1
  unfold Spec.Filters.fmix32
  rw [hx _ 16 (by decide), UInt32.ofNat_mul, hx _ 13 (by decide), UInt32.ofNat_mul, hx _ 16 (by decide)]
  rfl

/-! ### little-endian words from `|` and `<<` -/

private theorem byte_and (d : UInt8) : d.toNat &&& 255 = d.toNat := by
  have hm : (255 : Nat) = 2 ^ 8 - 1 := by decide
  rw [hm, Nat.and_two_pow_sub_one_eq_mod]
  exact Nat.mod_eq_of_lt d.toNat_lt

private theorem or_shl (a b i : Nat) (ha : a < 2 ^ i) : a ||| (b <<< i) = a + 2 ^ i * b := by
  rw [Nat.or_comm, ← Nat.shiftLeft_add_eq_or_of_lt ha, Nat.shiftLeft_eq]
  rw [Nat.mul_comm, Nat.add_comm]

theorem word4 (d0 d1 d2 d3 : UInt8) :
    (d0.toNat &&& 255) ||| ((d1.toNat &&& 255) <<< 8) ||| ((d2.toNat &&& 255) <<< 16) ||| (d3.toNat <<< 24)
      = leToNat [d0, d1, d2, d3] := by
  have h0 := d0.toNat_lt
  have h1 := d1.toNat_lt
  have h2 := d2.toNat_lt
  simp only [byte_and, leToNat]
  rw [or_shl _ _ 8 (by omega), or_shl _ _ 16 (by omega), or_shl _ _ 24 (by omega)]
  omega

theorem word3 (d0 d1 d2 : UInt8) :
    ((d2.toNat &&& 255) <<< 16) ||| ((d1.toNat &&& 255) <<< 8) ||| (d0.toNat &&& 255)
      = leToNat [d0, d1, d2] := by
  have h0 := d0.toNat_lt
  have h1 := d1.toNat_lt
  simp only [byte_and, leToNat]
  rw [Nat.or_comm, Nat.or_comm (d2.toNat <<< 16), ← Nat.or_assoc, or_shl _ _ 8 (by omega),
    or_shl _ _ 16 (by omega)]
  omega

theorem word2 (d0 d1 : UInt8) :
    (0 ||| ((d1.toNat &&& 255) <<< 8)) ||| (d0.toNat &&& 255) = leToNat [d0, d1] := by
  have h0 := d0.toNat_lt
  simp only [byte_and, leToNat, Nat.zero_or]
  rw [Nat.or_comm, or_shl _ _ 8 (by omega)]
  omega

theorem word1 (d0 : UInt8) : (0 ||| (d0.toNat &&& 255)) = leToNat [d0] := by
  simp only [byte_and, leToNat, Nat.zero_or]
  omega

/-! ### `length & 0xFFFFFFFC`, `length & 3` -/

theorem and_three (n : Nat) : n &&& 3 = n % 4 := by
  have hm : (3 : Nat) = 2 ^ 2 - 1 := by decide
  rw [hm, Nat.and_two_pow_sub_one_eq_mod]

theorem and_fffffffc (n : Nat) (hn : n < 2 ^ 32) : n &&& 4294967292 = 4 * (n / 4) := by
  have hc : (4294967292 : Nat) = (2 ^ 30 - 1) <<< 2 := by decide
  have hr : n % 4 < 2 ^ 2 := by omega
  have hn' : n = (n / 4) <<< 2 ||| n % 4 := by
    rw [← Nat.shiftLeft_add_eq_or_of_lt hr, Nat.shiftLeft_eq]; omega
  have hq : n / 4 % 2 ^ 30 = n / 4 := by omega
  have hz : n % 4 &&& (2 ^ 30 - 1) <<< 2 = 0 := by
    have : n % 4 = 0 ∨ n % 4 = 1 ∨ n % 4 = 2 ∨ n % 4 = 3 := by omega
    rcases this with h | h | h | h <;> rw [h] <;> decide
  conv => lhs; rw [hn', hc]
  rw [Nat.and_or_distrib_right, ← Nat.shiftLeft_and_distrib, Nat.and_two_pow_sub_one_eq_mod, hq, hz,
    Nat.or_zero, Nat.shiftLeft_eq]
  omega

/-! ### the body loop -/

theorem murmurBlocks_spec (n : Nat) : ∀ (rest : Bytes) (h : Nat), 4 * n ≤ rest.length →
    ∃ h', murmurBlocks n rest h = some h' ∧
      Spec.Filters.murmurBody (UInt32.ofNat h') (rest.drop (4 * n))
        = Spec.Filters.murmurBody (UInt32.ofNat h) rest := by
  induction n with
  | zero => intro rest h _; exact ⟨h, rfl, by simp⟩
  | succ n ih =>
    intro rest h hl
    match rest, hl with
    | b0 :: b1 :: b2 :: b3 :: rest', hl =>
      have hl' : 4 * n ≤ rest'.length := by simp only [List.length_cons] at hl; omega
      obtain ⟨h', hm, hb⟩ := ih rest'
        (pyRot (h ^^^ (pyRot (leToNat [b0, b1, b2, b3] * 3432918353) 15 4294967295 17 * 461845907))
          13 4294967295 19 * 5 + 3864292196) hl'
      refine ⟨h', ?_, ?_⟩
      · rw [← hm]
        simp only [murmurBlocks, Gen.murC1, Gen.murC2, Gen.murC5, Gen.murC6, Gen.murC7, Gen.murC8, Gen.murC9,
          Gen.murC10, Gen.murC11, Gen.murC12, Gen.murC13, Gen.murC14, Gen.murC15, Gen.murC16, Gen.murC17,
          Gen.murC18, Gen.murC19, Gen.murC20, Gen.murC21, Gen.murC22]
        simp only [List.getElem?_cons_zero, List.getElem?_cons_succ, Option.bind_eq_bind, Option.bind_some,
          List.drop_succ_cons, List.drop_zero, word4]
      · have hd : (b0 :: b1 :: b2 :: b3 :: rest').drop (4 * (n + 1)) = rest'.drop (4 * n) := by
          rw [show 4 * (n + 1) = 4 * n + 1 + 1 + 1 + 1 by omega]
          simp only [List.drop_succ_cons]
        rw [hd, hb]
        conv => rhs; unfold Spec.Filters.murmurBody
        rw [UInt32.ofNat_add, UInt32.ofNat_mul, ofNat_rot13, UInt32.ofNat_xor, ofNat_scramble]
        rfl
    | [], hl => simp only [List.length_nil] at hl; omega
    | [_], hl => simp only [List.length_cons, List.length_nil] at hl; omega
    | [_, _], hl => simp only [List.length_cons, List.length_nil] at hl; omega
    | [_, _, _], hl => simp only [List.length_cons, List.length_nil] at hl; omega

/-! ### murmur3 -/

theorem murmur3_eq_spec (data : Bytes) (seed : Nat) (hl : data.length < 2 ^ 32) :
    murmur3 data seed = some (Spec.Filters.murmur3_32 data (UInt32.ofNat seed)).toNat := by
  have hre := and_fffffffc data.length hl
  have hval := and_three data.length
  have hnb : (4 * (data.length / 4) - 0 + 4 - 1) / 4 = data.length / 4 := by omega
  obtain ⟨h', hm, hb⟩ := murmurBlocks_spec (data.length / 4) data seed (by omega)
  unfold murmur3 Spec.Filters.murmur3_32
  simp only [Gen.murC1, Gen.murC2, Gen.murC3, Gen.murC4, Gen.murC5, Gen.murC23, Gen.murC24, Gen.murC25,
    Gen.murC26, Gen.murC27, Gen.murC28, Gen.murC29, Gen.murC30, Gen.murC31, Gen.murC32, Gen.murC33,
    Gen.murC34, Gen.murC35, Gen.murC36, Gen.murC37, Gen.murC38, Gen.murC39, Gen.murC40, Gen.murC41,
    Gen.murC42, Gen.murC43, Gen.murC44, Gen.murC45, Gen.murC46, Gen.murC47, Gen.murC48, Gen.murC49]
  rw [hre, hval, hnb, List.drop_zero, hm, ← hb]
  simp only [Option.bind_eq_bind, Option.bind_some, Option.pure_def]
  -- the tail
  have hidx : ∀ k, data[4 * (data.length / 4) + k]? = (data.drop (4 * (data.length / 4)))[k]? := by
    intro k; rw [List.getElem?_drop]
  have hidx0 : data[4 * (data.length / 4)]? = (data.drop (4 * (data.length / 4)))[0]? := by
    rw [List.getElem?_drop]; rfl
  rw [hidx, hidx, hidx0]
  have htl : (data.drop (4 * (data.length / 4))).length = data.length % 4 := by
    rw [List.length_drop]; omega
  generalize data.drop (4 * (data.length / 4)) = tail at htl ⊢
  have hfin : ∀ x : Nat, ∀ u : UInt32, UInt32.ofNat x = u →
      some ((let h1 := x ^^^ data.length
             let h1 := h1 ^^^ ((h1 &&& 4294967295) >>> 16)
             let h1 := h1 * 2246822507
             let h1 := h1 ^^^ ((h1 &&& 4294967295) >>> 13)
             let h1 := h1 * 3266489909
             let h1 := h1 ^^^ ((h1 &&& 4294967295) >>> 16)
             h1 &&& 4294967295))
        = some (Spec.Filters.fmix32 (u ^^^ UInt32.ofNat data.length)).toNat := by
    intro x u hx
    rw [← hx, ← UInt32.ofNat_xor]
    exact congrArg some (ofNat_fmix (x ^^^ data.length))
  match tail, htl with
  | [], htl =>
    simp only [List.length_nil] at htl
    rw [← htl]
    simp only [Nat.reduceEqDiff, if_false, or_self]
    exact hfin h' _ (by unfold Spec.Filters.murmurBody; rfl)
  | [a], htl =>
    simp only [List.length_cons, List.length_nil] at htl
    rw [← htl]
    simp only [Nat.reduceEqDiff, if_false, if_true, or_false, Option.bind_some,
      List.getElem?_cons_zero, Option.map_some]
    refine hfin _ _ ?_
    rw [UInt32.ofNat_xor, word1, ofNat_scramble]
    unfold Spec.Filters.murmurBody Spec.Filters.word32; rfl
  | [a, b], htl =>
    simp only [List.length_cons, List.length_nil] at htl
    rw [← htl]
    simp only [Nat.reduceEqDiff, if_false, if_true, or_false, or_true, Option.bind_some,
      List.getElem?_cons_zero, List.getElem?_cons_succ, Option.map_some]
    refine hfin _ _ ?_
    rw [UInt32.ofNat_xor, word2, ofNat_scramble]
    unfold Spec.Filters.murmurBody Spec.Filters.word32; rfl
  | [a, b, c], htl =>
    simp only [List.length_cons, List.length_nil] at htl
    rw [← htl]
    simp only [Nat.reduceEqDiff, if_true, or_true, Option.bind_some,
      List.getElem?_cons_zero, List.getElem?_cons_succ, Option.map_some]
    refine hfin _ _ ?_
    rw [UInt32.ofNat_xor, word3, ofNat_scramble]
    unfold Spec.Filters.murmurBody Spec.Filters.word32; rfl
  | _ :: _ :: _ :: _ :: _, htl =>
    simp only [List.length_cons] at htl; omega

/-! ### BloomFilter -/

/-- bloom filter: positions are MurmurHash3(item, i*0xFBA4C795 + tweak mod 2^32) mod (8*size) -/
theorem bloom_position_eq_spec (size fc tweak i : Nat) (item : Bytes) (bits : List Bool) (hs : 0 < size)
    (hl : item.length < 2 ^ 32) :
    Bloom.position { size := size, bitField := bits, fc := fc, tweak := tweak } item i
      = some (Spec.Filters.bloomBit size tweak i item) := by
  have hne : ¬ size * 8 = 0 := by omega
  unfold Bloom.position Spec.Filters.bloomBit
  simp only [Gen.bip37Constant, Gen.bloomBitsPerByte]
  rw [murmur3_eq_spec item _ hl]
  simp only [Option.bind_eq_bind, Option.bind_some, hne, if_false, Option.pure_def]

/-- `position` reads only `size` and `tweak` -/
theorem position_congr (bf bf2 : Bloom) (item : Bytes) (i : Nat) (hs : bf2.size = bf.size)
    (ht : bf2.tweak = bf.tweak) : bf2.position item i = bf.position item i := by
  unfold Bloom.position
  rw [hs, ht]

theorem addFrom_spec (item : Bytes) (n : Nat) : ∀ (bf bf' : Bloom) (i : Nat),
    bf.addFrom item n i = some bf' →
    (bf'.bitField.length = bf.bitField.length ∧ bf'.size = bf.size ∧ bf'.fc = bf.fc ∧ bf'.tweak = bf.tweak)
    ∧ (∀ k : Nat, bf.bitField[k]? = some true → bf'.bitField[k]? = some true)
    ∧ (∀ j, i ≤ j → j < i + n → ∃ pos, bf.position item j = some pos ∧ bf'.bitField[pos]? = some true) := by
  induction n with
  | zero =>
    intro bf bf' i h
    simp only [Bloom.addFrom, Option.some.injEq] at h
    subst h
    exact ⟨⟨rfl, rfl, rfl, rfl⟩, fun _ hk => hk, fun j h1 h2 => by omega⟩
  | succ n ih =>
    intro bf bf' i h
    simp only [Bloom.addFrom, Option.bind_eq_bind] at h
    cases hp : bf.position item i with
    | none => rw [hp] at h; simp at h
    | some bit =>
      rw [hp] at h
      simp only [Option.bind_some] at h
      by_cases hb : bit < bf.bitField.length
      · rw [if_pos hb] at h
        obtain ⟨⟨e1, e2, e3, e4⟩, hmono, hset⟩ := ih _ _ _ h
        simp only [List.length_set] at e1
        have hstep : ∀ k : Nat, bf.bitField[k]? = some true → (bf.bitField.set bit true)[k]? = some true := by
          intro k hk
          rw [List.getElem?_set]
          by_cases hbk : bit = k
          · subst hbk; rw [if_pos rfl, if_pos hb]
          · rw [if_neg hbk]; exact hk
        refine ⟨⟨e1, e2, e3, e4⟩, fun k hk => hmono k (hstep k hk), ?_⟩
        intro j h1 h2
        by_cases hj : j = i
        · subst hj
          refine ⟨bit, hp, hmono bit ?_⟩
          rw [List.getElem?_set, if_pos rfl, if_pos hb]
        · obtain ⟨pos, hpos, hbit⟩ := hset j (by omega) (by omega)
          refine ⟨pos, ?_, hbit⟩
          rw [← hpos]
          exact (position_congr _ _ item j rfl rfl).symm
      · rw [if_neg hb] at h; simp at h

/-- bits are only ever set: invariant over one add -/
theorem bloom_add_length (bf bf' : Bloom) (item : Bytes) (h : bf.add item = some bf') :
    bf'.bitField.length = bf.bitField.length ∧ bf'.size = bf.size ∧ bf'.fc = bf.fc ∧ bf'.tweak = bf.tweak :=
  (addFrom_spec item bf.fc bf bf' 0 h).1

theorem bloom_add_mono (bf bf' : Bloom) (item : Bytes) (h : bf.add item = some bf') (k : Nat)
    (hk : bf.bitField[k]? = some true) : bf'.bitField[k]? = some true :=
  (addFrom_spec item bf.fc bf bf' 0 h).2.1 k hk

theorem bloom_add_sets (bf bf' : Bloom) (item : Bytes) (h : bf.add item = some bf') (i : Nat) (hi : i < bf.fc) :
    ∃ pos, bf.position item i = some pos ∧ bf'.bitField[pos]? = some true :=
  (addFrom_spec item bf.fc bf bf' 0 h).2.2 i (Nat.zero_le i) (by omega)

/-- over any add history: parameters fixed, bits only ever set -/
theorem bloom_adds_mono (items : List Bytes) : ∀ (bf bf' : Bloom),
    items.foldlM (fun b it => b.add it) bf = some bf' →
    (bf'.bitField.length = bf.bitField.length ∧ bf'.size = bf.size ∧ bf'.fc = bf.fc ∧ bf'.tweak = bf.tweak)
    ∧ (∀ k : Nat, bf.bitField[k]? = some true → bf'.bitField[k]? = some true) := by
  induction items with
  | nil =>
    intro bf bf' h
    simp only [List.foldlM_nil, Option.pure_def, Option.some.injEq] at h
    subst h
    exact ⟨⟨rfl, rfl, rfl, rfl⟩, fun _ hk => hk⟩
  | cons it rest ih =>
    intro bf bf' h
    simp only [List.foldlM_cons, Option.bind_eq_bind] at h
    cases ha : bf.add it with
    | none => rw [ha] at h; simp at h
    | some bf1 =>
      rw [ha] at h
      simp only [Option.bind_some] at h
      obtain ⟨⟨e1, e2, e3, e4⟩, hm⟩ := ih bf1 bf' h
      obtain ⟨f1, f2, f3, f4⟩ := bloom_add_length bf bf1 it ha
      exact ⟨⟨e1.trans f1, e2.trans f2, e3.trans f3, e4.trans f4⟩,
        fun k hk => hm k (bloom_add_mono bf bf1 it ha k hk)⟩

/-- no false negatives over any add history: after adding `items` in order, every function position of
    every added item is set -/
theorem bloom_no_false_negatives (bf bf' : Bloom) (items : List Bytes)
    (h : items.foldlM (fun b it => b.add it) bf = some bf') (item : Bytes) (hm : item ∈ items) (i : Nat)
    (hi : i < bf.fc) :
    ∃ pos, bf.position item i = some pos ∧ bf'.bitField[pos]? = some true := by
  induction items generalizing bf with
  | nil => cases hm
  | cons it rest ih =>
    simp only [List.foldlM_cons, Option.bind_eq_bind] at h
    cases ha : bf.add it with
    | none => rw [ha] at h; simp at h
    | some bf1 =>
      rw [ha] at h
      simp only [Option.bind_some] at h
      obtain ⟨_, f2, f3, f4⟩ := bloom_add_length bf bf1 it ha
      rcases List.mem_cons.mp hm with heq | hmem
      · subst heq
        obtain ⟨pos, hpos, hbit⟩ := bloom_add_sets bf bf1 item ha i hi
        exact ⟨pos, hpos, (bloom_adds_mono rest bf1 bf' h).2 pos hbit⟩
      · obtain ⟨pos, hpos, hbit⟩ := ih bf1 h hmem (by omega)
        refine ⟨pos, ?_, hbit⟩
        rw [← hpos]
        exact (position_congr bf bf1 item i f2 f4).symm

theorem addFrom_isSome (item : Bytes) (hl : item.length < 2 ^ 32) (n : Nat) : ∀ (bf : Bloom) (i : Nat),
    0 < bf.size → bf.bitField.length = bf.size * 8 → (bf.addFrom item n i).isSome := by
  induction n with
  | zero => intro bf i _ _; simp only [Bloom.addFrom, Option.isSome_some]
  | succ n ih =>
    intro bf i hs hb
    have hp : bf.position item i = some (Spec.Filters.bloomBit bf.size bf.tweak i item) :=
      bloom_position_eq_spec bf.size bf.fc bf.tweak i item bf.bitField hs hl
    have hlt : Spec.Filters.bloomBit bf.size bf.tweak i item < bf.bitField.length := by
      rewrite [hb]; unfold Spec.Filters.bloomBit; exact Nat.mod_lt _ (by omega)
    generalize Spec.Filters.bloomBit bf.size bf.tweak i item = bit at hp hlt
    -- (`rewrite`, not `simp only`: the kernel does not terminate on the `dsimp`-style proof term)
    rewrite [Bloom.addFrom, hp, Option.bind_eq_bind, Option.bind_some, if_pos hlt]
    exact ih _ _ hs (by rewrite [List.length_set]; exact hb)

/-- adding succeeds whenever the filter is well formed -/
theorem bloom_add_isSome (bf : Bloom) (item : Bytes) (hs : 0 < bf.size) (hb : bf.bitField.length = bf.size * 8)
    (hl : item.length < 2 ^ 32) : (bf.add item).isSome :=
  addFrom_isSome item hl bf.fc bf 0 hs hb

end Buidl.Filters
