/-
  Buidl.Proofs.MuSig — helper lemmas for C13 (MuSig aggregation) over Buidl.Model.MuSig, relative to
  `GroupLaw` (Buidl.Proofs.TaprootRel; discharged in Buidl.Proofs.TaprootGroup).

  Scalars are integers; congruences modulo N are carried out in `ZMod N` (`cz`), where `ring` applies.
  `g a = a·G` (the code's `a * G`), `ev a` = the scalar of the even representative of `a·G`.
-/
import Mathlib.Data.ZMod.Basic
import Mathlib.Tactic.Ring
import Mathlib.Tactic.LinearCombination
import Mathlib.Algebra.BigOperators.Group.List.Basic
import Buidl.Proofs.TaprootRel
import Buidl.Model.MuSig

namespace Buidl.MuSig
open Buidl Buidl.EC Buidl.Script Buidl.Taproot

/-! ## scalars modulo N -/

/-- cast to `ZMod N` -/
abbrev cz (a : ℤ) : ZMod N := (a : ZMod N)

theorem emod_eq_iff (a b : ℤ) : a % (N : ℤ) = b % (N : ℤ) ↔ cz a = cz b :=
  (ZMod.intCast_eq_intCast_iff a b N).symm

theorem emod_zero_iff (a : ℤ) : a % (N : ℤ) = 0 ↔ cz a = 0 := by
  have := emod_eq_iff a 0
  simpa using this

theorem cz_emod (a : ℤ) : cz (a % (N : ℤ)) = cz a := ZMod.intCast_mod a N

theorem cz_toNat_emod (a : ℤ) : cz (((a % (N : ℤ)).toNat : ℕ) : ℤ) = cz a := by
  rw [Int.toNat_of_nonneg (Int.emod_nonneg _ (by decide))]
  exact cz_emod a

theorem cz_nat_mod (a : ℕ) : cz ((a % N : ℕ) : ℤ) = cz (a : ℤ) := by
  rw [Int.natCast_mod]; exact cz_emod _

theorem cz_list_sum (l : List ℤ) : cz l.sum = (l.map cz).sum := by
  induction l with
  | nil => simp [cz]
  | cons a t ih => simp only [List.sum_cons, List.map_cons, ← ih, cz]; push_cast; rfl

/-- `a·G` -/
abbrev g (a : ℤ) : Pt := smul a G

theorem g_congr {a b : ℤ} (h : cz a = cz b) : g a = g b := smul_congr G ((emod_eq_iff a b).mpr h)

section
variable (gl : GroupLaw)
include gl

theorem g_inj {a b : ℤ} (h : g a = g b) : cz a = cz b := (emod_eq_iff a b).mp (gl.inj a b h)

theorem g_eq_inf_iff (a : ℤ) : g a = .inf ↔ cz a = 0 := by
  rw [gl.smul_eq_inf_iff, emod_zero_iff]

/-- the scalar of the even representative -/
noncomputable def ev (a : ℤ) : ℤ := if parity (g a) = 1 then -a else a

omit gl in
theorem ev_cases (a : ℤ) : ev a = a ∨ ev a = -a := by unfold ev; split <;> simp

theorem evenPoint_g (a : ℤ) : evenPoint (g a) = g (ev a) := by
  rw [gl.evenPoint_smul]; unfold ev; split <;> rfl

theorem g_ev_ne_inf {a : ℤ} (h : g a ≠ .inf) : g (ev a) ≠ .inf := by
  rw [← evenPoint_g gl]; exact gl.evenPoint_smul_ne_inf a h

theorem parity_g_ev {a : ℤ} (h : g a ≠ .inf) : parity (g (ev a)) = 0 := by
  rw [← evenPoint_g gl]; exact gl.parity_evenPoint_smul a h

theorem xonly_g_ev (a : ℤ) : xonly (g (ev a)) = xonly (g a) := by
  rw [← evenPoint_g gl]; exact gl.xonly_evenPoint_smul a

theorem sadd_g (a b : ℤ) : sadd (g a) (g b) = g (a + b) := gl.add a b
theorem smul_g (a b : ℤ) : smul a (g b) = g (a * b) := gl.mul a b

/-! ## S256Point.combine on multiples of G -/

theorem foldl_sadd_g (a : ℤ) (l : List ℤ) : (l.map g).foldl sadd (g a) = g (a + l.sum) := by
  induction l generalizing a with
  | nil => simp
  | cons b t ih =>
    simp only [List.map_cons, List.foldl_cons, List.sum_cons]
    rw [sadd_g gl, ih]; congr 1; ring

theorem combinePts_g (l : List ℤ) (h : l ≠ []) : combinePts (l.map g) = some (g l.sum) := by
  cases l with
  | nil => exact absurd rfl h
  | cons a t => simp only [List.map_cons, combinePts, List.sum_cons]; rw [foldl_sadd_g gl]

theorem scaleAll_g (cs : List ℕ) (es : List ℤ) :
    scaleAll cs (es.map g) = (List.zipWith (fun (c : ℕ) (e : ℤ) => (c : ℤ) * e) cs es).map g := by
  induction cs generalizing es with
  | nil => simp [scaleAll]
  | cons c cs ih =>
    cases es with
    | nil => simp [scaleAll]
    | cons e es => simp only [List.map_cons, scaleAll, List.zipWith_cons_cons]; rw [smul_g gl, ih]

/-! ## BIP340 verification on `⟨G⟩`: exactly one `s` verifies for given `R`, `e` -/

/-- **uniqueness of s**: for a key `x·G ≠ ∞` and a signature nonce point that is the even representative of
    `r·G ≠ ∞`, `verify_schnorr` answers True exactly when `s ≡ ev r + e · ev x (mod N)` -/
theorem verifySchnorr_iff (H : Hashes) (x r : ℤ) (hx : g x ≠ .inf) (hr : g r ≠ .inf) (msg : Bytes) (s : ℕ) :
    verifySchnorr H (g x) msg (evenPoint (g r)) s =
      some (decide (cz (s : ℤ) = cz (ev r) + cz (challengeOf H (evenPoint (g r)) (evenPoint (g x)) msg : ℤ) * cz (ev x))) := by
  unfold verifySchnorr
  rw [evenPointOf_eq hx, evenPoint_g gl r, evenPoint_g gl x]
  simp only [Option.bind_eq_bind, Option.bind_some]
  set e : ℕ := challengeOf H (g (ev r)) (g (ev x)) msg with he
  have hrne := g_ev_ne_inf gl hr
  cases hR : g (ev r) with
  | inf => exact absurd hR hrne
  | aff rx ry =>
    simp only
    rw [← hR]
    have hres : saddInt (smul (-(e : ℤ)) (g (ev x))) (s : ℤ) = g (-(e : ℤ) * ev x + (s : ℤ)) := by
      unfold saddInt; rw [smul_g gl, sadd_g gl]
    rw [hres]
    have hpar0 := parity_g_ev gl hr
    by_cases hc : cz (s : ℤ) = cz (ev r) + cz (e : ℤ) * cz (ev x)
    · -- the result is the even representative of R
      have : g (-(e : ℤ) * ev x + (s : ℤ)) = g (ev r) := by
        apply g_congr
        simp only [cz] at hc ⊢
        push_cast at hc ⊢
        linear_combination hc
      simp only [hc, decide_true]
      rw [this, hR]
      rw [hR] at hpar0
      simp only [parity] at hpar0
      simp [hpar0]
    · simp only [hc, decide_false]
      cases hw : g (-(e : ℤ) * ev x + (s : ℤ)) with
      | inf => rfl
      | aff wx wy =>
        simp only
        by_cases hodd : wy % 2 = 1
        · simp [hodd]
        · simp only [hodd, if_false, Option.pure_def, Option.some.injEq, beq_eq_false_iff_ne, ne_eq]
          rw [← hw]
          intro hxo
          have hwne : g (-(e : ℤ) * ev x + (s : ℤ)) ≠ .inf := by rw [hw]; simp
          rcases gl.xonly_inj _ _ hwne hrne hxo with h1 | h1
          · apply hc
            have := g_inj gl h1
            simp only [cz] at this ⊢
            push_cast at this ⊢
            linear_combination this
          · have hp := gl.neg_parity (ev r) hrne
            have hw' : smul (-(e : ℤ) * ev x + (s : ℤ)) G = .aff wx wy := hw
            have hpar0' : parity (smul (ev r) G) = 0 := hpar0
            rw [← h1, hw', hpar0'] at hp
            simp only [parity] at hp
            omega

end

/-! ## `sorted` -/

theorem insertBytes_perm (x : Bytes) (l : List Bytes) : (insertBytes x l).Perm (x :: l) := by
  induction l with
  | nil => exact List.Perm.refl _
  | cons y ys ih =>
    unfold insertBytes
    split
    · exact List.Perm.refl _
    · exact (List.Perm.cons y ih).trans (List.Perm.swap x y ys)

theorem sortBytes_perm (l : List Bytes) : (sortBytes l).Perm l := by
  induction l with
  | nil => exact List.Perm.refl _
  | cons x xs ih => exact (insertBytes_perm x _).trans (List.Perm.cons x ih)

/-- `a ≤ b` in Python's bytes order -/
def bytesLe (a b : Bytes) : Prop := bytesLt b a = false

theorem bytesLe_total (a b : Bytes) : bytesLe a b ∨ bytesLe b a := by
  unfold bytesLe
  cases h : bytesLt b a with
  | false => exact Or.inl rfl
  | true => exact Or.inr (bytesLt_asymm b a h)

theorem bytesLt_trans : ∀ (a b c : Bytes), bytesLt a b = true → bytesLt b c = true → bytesLt a c = true
  | [], [], _, h, _ => by simp [bytesLt] at h
  | [], _ :: _, [], _, h => by simp [bytesLt] at h
  | [], _ :: _, _ :: _, _, _ => by simp [bytesLt]
  | _ :: _, [], _, h, _ => by simp [bytesLt] at h
  | _ :: _, _ :: _, [], _, h => by simp [bytesLt] at h
  | x :: xs, y :: ys, z :: zs, h1, h2 => by
    simp only [bytesLt] at h1 h2 ⊢
    by_cases a1 : x.toNat < y.toNat
    · by_cases a2 : y.toNat < z.toNat
      · have : x.toNat < z.toNat := by omega
        simp [this]
      · by_cases a3 : z.toNat < y.toNat
        · simp [a2, a3] at h2
        · have : x.toNat < z.toNat := by omega
          simp [this]
    · by_cases a1' : y.toNat < x.toNat
      · simp [a1, a1'] at h1
      · simp only [a1, a1', if_false] at h1
        by_cases a2 : y.toNat < z.toNat
        · have : x.toNat < z.toNat := by omega
          simp [this]
        · by_cases a3 : z.toNat < y.toNat
          · simp [a2, a3] at h2
          · simp only [a2, a3, if_false] at h2
            have e1 : ¬ x.toNat < z.toNat := by omega
            have e2 : ¬ z.toNat < x.toNat := by omega
            simp only [e1, e2, if_false]
            exact bytesLt_trans xs ys zs h1 h2

theorem bytesLe_trans {a b c : Bytes} (h1 : bytesLe a b) (h2 : bytesLe b c) : bytesLe a c := by
  unfold bytesLe at *
  cases h : bytesLt c a with
  | false => rfl
  | true =>
    -- c < a, ¬ b < a, ¬ c < b: trichotomy
    cases hab : bytesLt a b with
    | true =>
      have := bytesLt_trans c a b h hab
      rw [h2] at this; cases this
    | false =>
      have e : a = b := bytesLt_connex a b hab h1
      subst e; rw [h2] at h; cases h

theorem insertBytes_sorted (x : Bytes) (l : List Bytes) (h : l.Pairwise bytesLe) :
    (insertBytes x l).Pairwise bytesLe := by
  induction l with
  | nil => simp [insertBytes]
  | cons y ys ih =>
    unfold insertBytes
    have hy := List.pairwise_cons.mp h
    split
    · next hlt =>
      refine List.pairwise_cons.mpr ⟨?_, h⟩
      have hxy : bytesLe x y := bytesLt_asymm x y hlt
      intro z hz
      rcases List.mem_cons.mp hz with rfl | hz
      · exact hxy
      · exact bytesLe_trans hxy (hy.1 z hz)
    · next hnlt =>
      have hyx : bytesLe y x := by unfold bytesLe; simpa using hnlt
      refine List.pairwise_cons.mpr ⟨?_, ih hy.2⟩
      intro z hz
      have := (insertBytes_perm x ys).mem_iff.mp hz
      rcases List.mem_cons.mp this with rfl | hz'
      · exact hyx
      · exact hy.1 z hz'

theorem sortBytes_sorted (l : List Bytes) : (sortBytes l).Pairwise bytesLe := by
  induction l with
  | nil => simp [sortBytes]
  | cons x xs ih => exact insertBytes_sorted x _ ih

theorem bytesLe_antisymm {a b : Bytes} (h1 : bytesLe a b) (h2 : bytesLe b a) : a = b :=
  bytesLt_connex a b h2 h1

/-- **`sorted` depends only on the multiset**: permuted inputs sort to the same list -/
theorem sortBytes_eq_of_perm {l₁ l₂ : List Bytes} (h : l₁.Perm l₂) : sortBytes l₁ = sortBytes l₂ := by
  have hp : (sortBytes l₁).Perm (sortBytes l₂) := (sortBytes_perm l₁).trans (h.trans (sortBytes_perm l₂).symm)
  exact List.Perm.eq_of_pairwise (fun a b _ _ h1 h2 => bytesLe_antisymm h1 h2) (sortBytes_sorted l₁) (sortBytes_sorted l₂) hp

/-- MuSigTapScript / MultiSigTapScript see the participant list only through its sorted x-only keys and its
    length: permuting the participants changes nothing -/
theorem musigNew_perm (H : Hashes) {p₁ p₂ : List Pt} (h : p₁.Perm p₂) (lock seq : Option ℕ) :
    musigNew H p₁ lock seq = musigNew H p₂ lock seq := by
  unfold musigNew
  rw [sortBytes_eq_of_perm (h.map xonly), h.length_eq]

theorem multiSigCmds_perm {p₁ p₂ : List Pt} (h : p₁.Perm p₂) (k : ℕ) (lock seq : Option ℕ) :
    multiSigCmds p₁ k lock seq = multiSigCmds p₂ k lock seq := by
  unfold multiSigCmds
  rw [sortBytes_eq_of_perm (h.map xonly), h.length_eq]

/-! ## structure of MuSigTapScript(points) -/

theorem musigNew_some {H : Hashes} {points : List Pt} {lock seq : Option ℕ} {M : MuSig}
    (h : musigNew H points lock seq = some M) :
    ∃ pre x0, timelockCmds lock seq = some pre ∧ points ≠ [] ∧
      M.xonlys = sortBytes (points.map xonly) ∧ parseAll M.xonlys = some M.points ∧
      M.commitment = H.keyAggList M.xonlys.flatten ∧
      M.coefs = M.xonlys.map (coefOf H M.commitment (secondKey x0 M.xonlys)) ∧
      combinePts (scaleAll M.coefs M.points) = some M.point ∧
      M.cmds = pre ++ [.push (xonly M.point), .op Gen.muSigOpChecksig] := by
  unfold musigNew at h
  cases hpre : timelockCmds lock seq with
  | none => simp [hpre] at h
  | some pre =>
    simp only [hpre, Option.bind_eq_bind, Option.bind_some] at h
    by_cases h0 : points.length = 0
    · simp [h0] at h
    · rw [if_neg h0] at h
      cases hpa : parseAll (sortBytes (points.map xonly)) with
      | none => simp [hpa] at h
      | some pts =>
        simp only [hpa, Option.bind_some] at h
        cases hx0 : (sortBytes (points.map xonly))[Gen.muSigFirstIndex]? with
        | none => simp [hx0] at h
        | some x0 =>
          simp only [hx0, Option.bind_some] at h
          cases hc : combinePts (scaleAll (List.map (coefOf H (H.keyAggList (sortBytes (points.map xonly)).flatten)
              (secondKey x0 (sortBytes (points.map xonly)))) (sortBytes (points.map xonly))) pts) with
          | none => simp [hc] at h
          | some pt =>
            simp only [hc, Option.bind_some, Option.pure_def, Option.some.injEq] at h
            subst h
            refine ⟨pre, x0, rfl, ?_, rfl, hpa, rfl, rfl, hc, rfl⟩
            intro e; apply h0; rw [e]; rfl

theorem parseAll_eq (f : Bytes → Pt) : ∀ (xs : List Bytes), (∀ x ∈ xs, parseXonly x = some (f x)) →
    parseAll xs = some (xs.map f)
  | [], _ => rfl
  | x :: xs, h => by
    simp only [parseAll, h x (by simp), parseAll_eq f xs (fun y hy => h y (by simp [hy])),
      Option.bind_eq_bind, Option.bind_some, Option.pure_def, List.map_cons]

/-! ## the coefficient table -/

/-- the coefficient `sign` finds for an x-only key (0 when there is none) -/
def look (xs : List Bytes) (cs : List ℕ) (x : Bytes) : ℕ := (coefLookup xs cs x).getD 0

theorem coefLookup_none_of_not_mem : ∀ (xs : List Bytes) (cs : List ℕ) (x : Bytes), x ∉ xs → coefLookup xs cs x = none
  | [], _, _, _ => by simp [coefLookup]
  | _ :: _, [], _, _ => by simp [coefLookup]
  | y :: ys, c :: cs, x, h => by
    have h1 : y ≠ x := fun e => h (by simp [e])
    have h2 : x ∉ ys := fun e => h (by simp [e])
    simp [coefLookup, coefLookup_none_of_not_mem ys cs x h2, h1]

theorem coefLookup_isSome_of_mem : ∀ (xs : List Bytes) (cs : List ℕ) (x : Bytes), x ∈ xs → cs.length = xs.length →
    ∃ c, coefLookup xs cs x = some c
  | [], _, _, h, _ => by simp at h
  | _ :: _, [], _, _, hl => by simp at hl
  | y :: ys, c :: cs, x, h, hl => by
    simp only [coefLookup]
    by_cases hx : x ∈ ys
    · obtain ⟨c', hc'⟩ := coefLookup_isSome_of_mem ys cs x hx (by simpa using hl)
      exact ⟨c', by simp [hc']⟩
    · have : y = x := by
        rcases List.mem_cons.mp h with e | e
        · exact e.symm
        · exact absurd e hx
      rw [coefLookup_none_of_not_mem ys cs x hx]
      exact ⟨c, by simp [this]⟩

theorem look_cons_self (y : Bytes) (ys : List Bytes) (c : ℕ) (cs : List ℕ) (h : y ∉ ys) :
    look (y :: ys) (c :: cs) y = c := by
  simp [look, coefLookup, coefLookup_none_of_not_mem ys cs y h]

theorem look_cons_of_mem (y : Bytes) (ys : List Bytes) (c : ℕ) (cs : List ℕ) {x : Bytes} (h : x ∈ ys)
    (hl : cs.length = ys.length) : look (y :: ys) (c :: cs) x = look ys cs x := by
  obtain ⟨c', hc'⟩ := coefLookup_isSome_of_mem ys cs x h hl
  simp [look, coefLookup, hc']

/-- positional coefficients against keyed coefficients: for pairwise different keys the aggregate's
    `Σ coefs[i] · F(xonlys[i])` is `Σ look(x) · F(x)` -/
theorem zip_sum_look (F : Bytes → ZMod N) : ∀ (xs : List Bytes) (cs : List ℕ), xs.Nodup → cs.length = xs.length →
    (List.zipWith (fun (c : ℕ) (x : Bytes) => (c : ZMod N) * F x) cs xs).sum =
      (xs.map (fun x => (look xs cs x : ZMod N) * F x)).sum
  | [], _, _, _ => by simp
  | _ :: _, [], _, hl => by simp at hl
  | y :: ys, c :: cs, hnd, hl => by
    have hy : y ∉ ys := (List.nodup_cons.mp hnd).1
    have hl' : cs.length = ys.length := by simpa using hl
    simp only [List.zipWith_cons_cons, List.sum_cons, List.map_cons]
    rw [zip_sum_look F ys cs (List.nodup_cons.mp hnd).2 hl', look_cons_self y ys c cs hy]
    congr 2
    apply List.map_congr_left
    intro x hx
    rw [look_cons_of_mem y ys c cs hx hl']

/-- when the positional coefficients are a function of the key, the table `sign` consults returns that
    function (whichever of several equal keys the dict kept) -/
theorem coefLookup_map (F : Bytes → ℕ) : ∀ (xs : List Bytes) (x : Bytes) (c : ℕ),
    coefLookup xs (xs.map F) x = some c → c = F x
  | [], _, _, h => by simp [coefLookup] at h
  | y :: ys, x, c, h => by
    simp only [List.map_cons, coefLookup] at h
    cases hr : coefLookup ys (ys.map F) x with
    | some v =>
      rw [hr] at h
      simp only [Option.some.injEq] at h
      rw [← h]; exact coefLookup_map F ys x v hr
    | none =>
      rw [hr] at h
      by_cases e : y = x
      · simp only [e, if_true, Option.some.injEq] at h; rw [← h]
      · simp [e] at h

theorem zipWith_map_self (F : Bytes → ℕ) (Φ : Bytes → ZMod N) : ∀ (xs : List Bytes),
    (List.zipWith (fun (c : ℕ) (x : Bytes) => (c : ZMod N) * Φ x) (xs.map F) xs).sum =
      (xs.map (fun x => (F x : ZMod N) * Φ x)).sum
  | [] => by simp
  | x :: xs => by simp only [List.map_cons, List.zipWith_cons_cons, List.sum_cons, zipWith_map_self F Φ xs]

/-- the secret whose x-only key is `x` (first match; 0 when there is none) -/
def secOf (xo : ℕ → Bytes) : List ℕ → Bytes → ℕ
  | [], _ => 0
  | d :: ds, x => if xo d = x then d else secOf xo ds x

theorem secOf_spec (xo : ℕ → Bytes) : ∀ (ds : List ℕ), (ds.map xo).Nodup → ∀ d ∈ ds, secOf xo ds (xo d) = d
  | [], _, _, h => by simp at h
  | d0 :: ds, hnd, d, hd => by
    simp only [List.map_cons, List.nodup_cons] at hnd
    unfold secOf
    by_cases e : xo d0 = xo d
    · rw [if_pos e]
      rcases List.mem_cons.mp hd with rfl | hd'
      · rfl
      · exact absurd (List.mem_map.mpr ⟨d, hd', e.symm⟩) hnd.1
    · rw [if_neg e]
      rcases List.mem_cons.mp hd with rfl | hd'
      · exact absurd rfl e
      · exact secOf_spec xo ds hnd.2 d hd'

theorem secOf_mem (xo : ℕ → Bytes) : ∀ (ds : List ℕ) (x : Bytes), x ∈ ds.map xo → secOf xo ds x ∈ ds ∧ xo (secOf xo ds x) = x
  | [], _, h => by simp at h
  | d0 :: ds, x, h => by
    unfold secOf
    by_cases e : xo d0 = x
    · rw [if_pos e]; exact ⟨by simp, e⟩
    · rw [if_neg e]
      have : x ∈ ds.map xo := by
        rcases (by simpa using h : x = xo d0 ∨ ∃ a ∈ ds, xo a = x) with e' | ⟨a, ha, hax⟩
        · exact absurd e'.symm e
        · exact List.mem_map.mpr ⟨a, ha, hax⟩
      obtain ⟨h1, h2⟩ := secOf_mem xo ds x this
      exact ⟨by simp [h1], h2⟩

/-- x-only key of the secret `d` -/
abbrev xo (d : ℕ) : Bytes := xonly (g (d : ℤ))

section
variable (gl : GroupLaw)
include gl

theorem g_nat_ne_inf {d : ℕ} (h1 : 1 ≤ d) (h2 : d < N) : g (d : ℤ) ≠ .inf := by
  rw [Ne, gl.smul_eq_inf_iff, Int.emod_eq_of_lt (by omega) (by omega)]; omega

/-- **the aggregate key** of participants with secrets `ds` (valid; equal x-only keys allowed):
    `Q = q·G` with `q ≡ Σ_d F(x(d)) · ev(d)`, where `F` — a function of the key — is also what `sign` finds
    in the coefficient table -/
theorem musigNew_point (H : Hashes) (ds : List ℕ) (hd : ∀ d ∈ ds, 1 ≤ d ∧ d < N)
    {lock seq : Option ℕ} {M : MuSig} (hM : musigNew H (ds.map (fun (d : ℕ) => g (d : ℤ))) lock seq = some M) :
    ∃ (q : ℤ) (F : Bytes → ℕ), M.point = g q ∧
      cz q = (ds.map (fun d => (F (xo d) : ZMod N) * cz (ev (d : ℤ)))).sum ∧
      (∀ x c, coefLookup M.xonlys M.coefs x = some c → c = F x) ∧
      M.xonlys.Perm (ds.map xo) := by
  obtain ⟨pre, x0, _, hne, hxs, hpa, _, hcoefs, hcomb, _⟩ := musigNew_some hM
  have hperm : M.xonlys.Perm (ds.map xo) := by
    rw [hxs, List.map_map]; exact sortBytes_perm _
  set F : Bytes → ℕ := coefOf H M.commitment (secondKey x0 M.xonlys) with hF
  -- the parsed points are the even representatives
  have hpts : M.points = (M.xonlys.map (fun x => ev ((secOf xo ds x : ℕ) : ℤ))).map g := by
    rw [List.map_map]
    have := parseAll_eq (fun x => g (ev ((secOf xo ds x : ℕ) : ℤ))) M.xonlys (by
      intro x hx
      obtain ⟨hm, hxo⟩ := secOf_mem xo ds x (hperm.mem_iff.mp hx)
      obtain ⟨h1, h2⟩ := hd _ hm
      rw [← evenPoint_g gl, ← gl.lift_x _ (g_nat_ne_inf gl h1 h2)]
      show parseXonly x = parseXonly (xo (secOf xo ds x))
      rw [hxo])
    rw [hpa] at this
    exact Option.some.inj this
  have hdsne : ds ≠ [] := by intro e; apply hne; rw [e]; rfl
  have hxne : M.xonlys ≠ [] := by
    intro e
    have := hperm.length_eq
    rw [e] at this
    simp only [List.length_nil, List.length_map] at this
    exact hdsne (List.length_eq_zero_iff.mp this.symm)
  rw [hpts, scaleAll_g gl] at hcomb
  rw [combinePts_g gl _ (by
    intro e
    have := congrArg List.length e
    rw [hcoefs] at this
    simp only [List.length_zipWith, List.length_map, List.length_nil] at this
    have : M.xonlys.length = 0 := by omega
    exact hxne (List.length_eq_zero_iff.mp this))] at hcomb
  refine ⟨_, F, (Option.some.inj hcomb).symm, ?_, ?_, hperm⟩
  · -- cast the sum, positions are keys, permute, replace the representative secret
    have h1 : cz (List.zipWith (fun (c : ℕ) (e : ℤ) => (c : ℤ) * e) M.coefs
          (M.xonlys.map (fun x => ev ((secOf xo ds x : ℕ) : ℤ)))).sum =
        (List.zipWith (fun (c : ℕ) (x : Bytes) => (c : ZMod N) * cz (ev ((secOf xo ds x : ℕ) : ℤ))) M.coefs M.xonlys).sum := by
      rw [cz_list_sum, List.map_zipWith, List.zipWith_map_right]
      congr 1
      congr 1
      funext c x
      simp only [cz]
      push_cast
      rfl
    rw [h1, hcoefs, zipWith_map_self F (fun x => cz (ev ((secOf xo ds x : ℕ) : ℤ))) M.xonlys]
    rw [(hperm.map (fun x => (F x : ZMod N) * cz (ev ((secOf xo ds x : ℕ) : ℤ)))).sum_eq, List.map_map]
    congr 1
    apply List.map_congr_left
    intro d hdm
    simp only [Function.comp]
    congr 1
    -- secOf picks a secret with the same x-only key: same even point, same even scalar modulo N
    obtain ⟨hm, hxo⟩ := secOf_mem xo ds (xo d) (List.mem_map.mpr ⟨d, hdm, rfl⟩)
    obtain ⟨a1, a2⟩ := hd _ hm
    obtain ⟨b1, b2⟩ := hd _ hdm
    apply g_inj gl
    rw [← evenPoint_g gl, ← evenPoint_g gl]
    have e1 := gl.lift_x _ (g_nat_ne_inf gl a1 a2)
    have e2 := gl.lift_x _ (g_nat_ne_inf gl b1 b2)
    have hxo' : xonly (smul ((secOf xo ds (xo d) : ℕ) : ℤ) G) = xonly (smul (d : ℤ) G) := hxo
    rw [hxo', e2] at e1
    exact (Option.some.inj e1).symm
  · intro x c hc
    rw [hcoefs] at hc
    exact coefLookup_map F M.xonlys x c hc

end

/-! ## nonces -/

section
variable (gl : GroupLaw)
include gl

theorem nonceSums_g (parts : List (ℕ × ℕ × ℕ)) (hne : parts ≠ []) :
    nonceSums (parts.map (fun p => (generateNonces p.2.1 p.2.2).2)) =
      some (g (parts.map (fun p => (p.2.1 : ℤ))).sum, g (parts.map (fun p => (p.2.2 : ℤ))).sum) := by
  unfold nonceSums
  have h1 : (parts.map (fun p => (generateNonces p.2.1 p.2.2).2)).map (·.1) = (parts.map (fun p => (p.2.1 : ℤ))).map g := by
    simp [List.map_map, generateNonces, Function.comp_def]
  have h2 : (parts.map (fun p => (generateNonces p.2.1 p.2.2).2)).map (·.2) = (parts.map (fun p => (p.2.2 : ℤ))).map g := by
    simp [List.map_map, generateNonces, Function.comp_def]
  rw [h1, h2, combinePts_g gl _ (by simpa using hne), combinePts_g gl _ (by simpa using hne)]
  rfl

theorem computeR_g (H : Hashes) (M : MuSig) (K1 K2 : ℤ) (sigHash : Bytes) {R : Pt}
    (hR : computeR H M (g K1, g K2) sigHash = some R) :
    ∃ h : ℕ, computeCoefficient H M (g K1, g K2) sigHash = some h ∧ R = g (K1 + (h : ℤ) * K2) := by
  unfold computeR at hR
  cases hh : computeCoefficient H M (g K1, g K2) sigHash with
  | none => simp [hh] at hR
  | some h =>
    simp only [hh, Option.bind_eq_bind, Option.bind_some, combinePts, List.foldl_cons, List.foldl_nil,
      Option.some.injEq] at hR
    refine ⟨h, rfl, ?_⟩
    rw [← hR, smul_g gl, sadd_g gl]

/-! ## partial signatures -/

omit gl in
theorem sign_some {H : Hashes} {M : MuSig} {d k : ℕ} {R : Pt} {sigHash root : Bytes} {s : ℕ}
    (h : sign H M d k R sigHash root = some s) :
    ∃ ext c rPar extPar qPar pPar, externalKey H M root = some ext ∧ 1 ≤ d ∧ d < N ∧
      coefLookup M.xonlys M.coefs (xo d) = some c ∧ parityOf R = some rPar ∧ parityOf ext = some extPar ∧
      parityOf M.point = some qPar ∧ parityOf (g (d : ℤ)) = some pPar ∧
      s = (((if rPar = extPar then (k : ℤ) else -(k : ℤ)) +
            ((c * challengeOf H R ext sigHash % N : ℕ) : ℤ) * (if qPar = pPar then (d : ℤ) else -(d : ℤ))) % (N : ℤ)).toNat := by
  unfold sign at h
  cases he : externalKey H M root with
  | none => simp [he] at h
  | some ext =>
    cases hp : privPoint d with
    | none => simp [he, hp] at h
    | some pt =>
      obtain ⟨d1, d2, rfl⟩ := privPoint_some hp
      cases hc : coefLookup M.xonlys M.coefs (xonly (smul (d : ℤ) G)) with
      | none => simp [he, hp, hc] at h
      | some c =>
        cases h1 : parityOf R with
        | none => simp [he, hp, hc, h1] at h
        | some rPar =>
          cases h2 : parityOf ext with
          | none => simp [he, hp, hc, h1, h2] at h
          | some extPar =>
            cases h3 : parityOf M.point with
            | none => simp [he, hp, hc, h1, h2, h3] at h
            | some qPar =>
              cases h4 : parityOf (smul (d : ℤ) G) with
              | none => simp [he, hp, hc, h1, h2, h3, h4] at h
              | some pPar =>
                simp only [he, hp, hc, h1, h2, h3, h4, Option.bind_eq_bind, Option.bind_some, Option.pure_def,
                  Option.some.injEq] at h
                exact ⟨ext, c, rPar, extPar, qPar, pPar, by first | rfl | assumption, d1, d2, by first | rfl | assumption,
                  by first | rfl | assumption, by first | rfl | assumption, by first | rfl | assumption,
                  by first | rfl | assumption, h.symm⟩

omit gl in
theorem parityOf_g_cases {a : ℤ} {p : ℕ} (h : parityOf (g a) = some p) :
    g a ≠ .inf ∧ p = parity (g a) ∧ (p = 0 ∨ p = 1) := by
  obtain ⟨h1, h2⟩ := parityOf_some h
  refine ⟨h1, h2, ?_⟩
  cases hg : g a with
  | inf => exact absurd hg h1
  | aff x y => rw [hg] at h2; simp only [parity] at h2; omega

omit gl in
/-- the parity-dependent negation of the secret: `±d ≡ σ(Q) · ev(d)` with `σ(Q) · q ≡ ev q` -/
theorem secret_sign (q : ℤ) (d : ℕ) {qPar pPar : ℕ} (hq : parityOf (g q) = some qPar)
    (hp : parityOf (g (d : ℤ)) = some pPar) :
    cz (if qPar = pPar then (d : ℤ) else -(d : ℤ)) = (if qPar = 1 then -1 else 1) * cz (ev (d : ℤ)) := by
  obtain ⟨_, hq2, hq3⟩ := parityOf_g_cases hq
  obtain ⟨_, hp2, hp3⟩ := parityOf_g_cases hp
  unfold ev
  rw [← hp2]
  rcases hq3 with rfl | rfl <;> rcases hp3 with rfl | rfl <;> simp [cz]

omit gl in
theorem ev_eq_sign (q : ℤ) {qPar : ℕ} (hq : parityOf (g q) = some qPar) :
    cz (ev q) = (if qPar = 1 then -1 else 1) * cz q := by
  obtain ⟨_, hq2, hq3⟩ := parityOf_g_cases hq
  unfold ev
  rw [← hq2]
  rcases hq3 with rfl | rfl <;> simp [cz]

/-! ## the external key -/

theorem externalKey_g (H : Hashes) (M : MuSig) (q : ℤ) (hQ : M.point = g q) (hq : g q ≠ .inf) (root : Bytes) :
    externalKey H M root = some (g (if root ≠ [] then ev q + (beToNat (tweak H M.point root) : ℤ) else ev q)) := by
  unfold externalKey
  by_cases hr : root ≠ []
  · rw [if_pos hr, if_pos hr, hQ, tweakedKey_eq H hq, evenPoint_g gl, sadd_g gl]
    rfl
  · rw [if_neg hr, if_neg hr, hQ, evenPointOf_eq hq, evenPoint_g gl]

/-! ## get_signature -/

omit gl in
theorem N_lt_256_32 : N < 256 ^ 32 := by decide

/-- the signature bytes `r.xonly() + int_to_big_endian(s, 32)` parse back to (even representative of R, s) -/
theorem sig_roundtrip (r : ℤ) (hr : g r ≠ .inf) (s : ℕ) (hs : s < N) :
    (natToBE s Gen.muSigSWidth).bind (fun sb => parseSig (xonly (g r) ++ sb)) = some (evenPoint (g r), s) := by
  have hlt : s < 256 ^ 32 := Nat.lt_trans hs N_lt_256_32
  simp only [Gen.muSigSWidth, natToBE, hlt, if_true, Option.bind_some]
  unfold parseSig
  have hxl : (xonly (g r)).length = 32 := xonly_length' _
  have hsl : (natToBE' 32 s).length = 32 := by simp [natToBE', natToLE'_length]
  rw [take_append_len _ _ 32 hxl, drop_append_len _ _ 32 hxl]
  have hpp : parsePoint (xonly (g r)) = some (evenPoint (g r)) := by
    unfold parsePoint
    rw [if_pos hxl]
    exact gl.lift_x r hr
  rw [hpp, List.take_of_length_le (by omega), beToNat_natToBE' hlt]
  simp [Nat.not_le.mpr hs]

/-- the tail of get_signature: serialise, re-parse, self-verify -/
theorem getSignature_tail (H : Hashes) (r xe : ℤ) (sigHash : Bytes) (hr : g r ≠ .inf) (hxe : g xe ≠ .inf)
    (sI : ℤ) (hs0 : 0 ≤ sI) (hsN : sI < (N : ℤ)) :
    ((natToBE sI.toNat Gen.muSigSWidth).bind fun sb =>
      (parseSig (xonly (g r) ++ sb)).bind fun sig =>
        (verifySchnorr H (g xe) sigHash sig.1 sig.2).bind fun ok => if (!ok) = true then none else some sig) =
      if cz sI = cz (ev r) + cz (challengeOf H (g r) (g xe) sigHash : ℤ) * cz (ev xe)
      then some (evenPoint (g r), sI.toNat) else none := by
  have hsnat : sI.toNat < N := by omega
  have hcast : ((sI.toNat : ℕ) : ℤ) = sI := Int.toNat_of_nonneg hs0
  have hrt := sig_roundtrip gl r hr sI.toNat hsnat
  rw [← Option.bind_assoc, hrt]
  simp only [Option.bind_some]
  rw [verifySchnorr_iff gl H xe r hxe hr sigHash sI.toNat, hcast]
  have hch : challengeOf H (evenPoint (g r)) (evenPoint (g xe)) sigHash = challengeOf H (g r) (g xe) sigHash := by
    unfold challengeOf
    rw [gl.xonly_evenPoint_smul, gl.xonly_evenPoint_smul]
  rw [hch]
  by_cases hc : cz sI = cz (ev r) + cz (challengeOf H (g r) (g xe) sigHash : ℤ) * cz (ev xe)
  · simp [hc]
  · simp [hc]

/-- **get_signature, closed form**: with `R = r·G` and external key `x_e·G` (neither at infinity) it returns
    `(even R, s)` exactly when the `s` it derives from `s_sum` satisfies the verification equation
    `s ≡ ev r + e · ev x_e`, and raises otherwise -/
theorem getSignature_eq (H : Hashes) (M : MuSig) (r xe : ℤ) (sigHash root : Bytes) (sSum : ℤ)
    (hr : g r ≠ .inf) (hext : externalKey H M root = some (g xe)) (hxe : g xe ≠ .inf) :
    ∃ sI : ℤ, 0 ≤ sI ∧ sI < (N : ℤ) ∧
      cz sI = (if root ≠ [] then
                (if parity (g xe) = 1 then -cz sSum - cz (challengeOf H (g r) (g xe) sigHash : ℤ) * cz (beToNat (tweak H M.point root) : ℤ)
                 else cz sSum + cz (challengeOf H (g r) (g xe) sigHash : ℤ) * cz (beToNat (tweak H M.point root) : ℤ))
               else cz sSum) ∧
      getSignature H M sSum (g r) sigHash root =
        if cz sI = cz (ev r) + cz (challengeOf H (g r) (g xe) sigHash : ℤ) * cz (ev xe)
        then some (evenPoint (g r), sI.toNat) else none := by
  have hNpos : (0 : ℤ) < (N : ℤ) := by decide
  unfold getSignature
  simp only [hext, Option.bind_eq_bind, Option.bind_some, Option.pure_def]
  by_cases hroot : root ≠ []
  · simp only [hroot, if_true, ne_eq, not_false_eq_true]
    rw [parityOf_eq hxe]
    simp only [Option.bind_some]
    by_cases hp : parity (g xe) = 1
    · simp only [hp, if_true]
      refine ⟨_, Int.emod_nonneg _ (by omega), Int.emod_lt_of_pos _ hNpos, ?_,
        getSignature_tail gl H r xe sigHash hr hxe _ (Int.emod_nonneg _ (by omega)) (Int.emod_lt_of_pos _ hNpos)⟩
      rw [cz_emod]; simp only [cz]; push_cast; ring
    · simp only [hp, if_false]
      refine ⟨_, Int.emod_nonneg _ (by omega), Int.emod_lt_of_pos _ hNpos, ?_,
        getSignature_tail gl H r xe sigHash hr hxe _ (Int.emod_nonneg _ (by omega)) (Int.emod_lt_of_pos _ hNpos)⟩
      rw [cz_emod]; simp only [cz]; push_cast; ring
  · simp only [hroot, if_false]
    exact ⟨_, Int.emod_nonneg _ (by omega), Int.emod_lt_of_pos _ hNpos, cz_emod _,
      getSignature_tail gl H r xe sigHash hr hxe _ (Int.emod_nonneg _ (by omega)) (Int.emod_lt_of_pos _ hNpos)⟩

/-! ## the whole session -/

omit gl in
theorem forall₂_sum {α : Type} (Rel : α → ℕ → Prop) (F : α → ZMod N) (hF : ∀ a s, Rel a s → cz (s : ℤ) = F a) :
    ∀ (l : List α) (ss : List ℕ), List.Forall₂ Rel l ss →
      cz (ss.map (fun (s : ℕ) => (s : ℤ))).sum = (l.map F).sum
  | _, _, .nil => by simp [cz]
  | _, _, .cons h t => by
    simp only [List.map_cons, List.sum_cons]
    rw [← forall₂_sum Rel F hF _ _ t, ← hF _ _ h]
    simp only [cz]; push_cast; rfl

omit gl in
theorem sum_split (a b hh : ZMod N) (u v w z : (ℕ × ℕ × ℕ) → ZMod N) (l : List (ℕ × ℕ × ℕ)) :
    (l.map (fun p => a * (u p + hh * v p) + w p * (b * z p))).sum =
      a * ((l.map u).sum + hh * (l.map v).sum) + b * (l.map (fun p => w p * z p)).sum := by
  induction l with
  | nil => simp
  | cons p t ih => simp only [List.map_cons, List.sum_cons]; rw [ih]; ring

omit gl in
theorem computeK_some {H : Hashes} {M : MuSig} {secrets : ℕ × ℕ} {sums : Pt × Pt} {sigHash : Bytes} {h k : ℕ}
    (hh : computeCoefficient H M sums sigHash = some h) (hk : computeK H M secrets sums sigHash = some k) :
    k = (secrets.1 + h * secrets.2) % N := by
  unfold computeK at hk
  simp only [hh, Option.bind_eq_bind, Option.bind_some, Option.pure_def, Option.some.injEq] at hk
  exact hk.symm

/-- **MuSig session**: participants with valid secrets and pairwise different x-only keys, any nonces, any
    message, plain or tweaked.  `get_signature` on a sum `s_sum` returns a signature — which then passes
    `verify_schnorr` for the external key, with the even representative of the aggregate nonce as `R` — if
    `s_sum` is congruent modulo N to the sum of the partial signatures, and raises otherwise. -/
theorem session_signature (H : Hashes) (parts : List (ℕ × ℕ × ℕ)) (sigHash root : Bytes) (lock seq : Option ℕ)
    (hd : ∀ p ∈ parts, 1 ≤ p.1 ∧ p.1 < N) (hne : parts ≠ [])
    {M : MuSig} (hM : musigNew H (parts.map (fun p => g (p.1 : ℤ))) lock seq = some M)
    {sums : Pt × Pt} (hs : nonceSums (parts.map (fun p => (generateNonces p.2.1 p.2.2).2)) = some sums)
    {R : Pt} (hR : computeR H M sums sigHash = some R)
    {ss : List ℕ} (hss : List.Forall₂ (fun (p : ℕ × ℕ × ℕ) (s : ℕ) =>
        ∃ k, computeK H M (p.2.1, p.2.2) sums sigHash = some k ∧ sign H M p.1 k R sigHash root = some s) parts ss) :
    ∃ ext, externalKey H M root = some ext ∧ ext ≠ .inf ∧ R ≠ .inf ∧ M.point ≠ .inf ∧
      (∃ xe r : ℤ, ext = g xe ∧ R = g r) ∧ ∀ sSum : ℤ,
      (cz sSum = cz (ss.map (fun (s : ℕ) => (s : ℤ))).sum →
        ∃ s, getSignature H M sSum R sigHash root = some (evenPoint R, s) ∧ s < N ∧
          verifySchnorr H ext sigHash (evenPoint R) s = some true) ∧
      (cz sSum ≠ cz (ss.map (fun (s : ℕ) => (s : ℤ))).sum → getSignature H M sSum R sigHash root = none) := by
  -- aggregate key
  have hMM : musigNew H ((parts.map (·.1)).map (fun (d : ℕ) => g (d : ℤ))) lock seq = some M := by
    rw [List.map_map]; exact hM
  obtain ⟨q, F, hQ, hqsum, hFlook, _⟩ := musigNew_point gl H (parts.map (·.1))
    (by intro d hdm; obtain ⟨p, hp, rfl⟩ := List.mem_map.mp hdm; exact hd p hp) hMM
  rw [List.map_map] at hqsum
  -- nonces
  rw [nonceSums_g gl parts hne] at hs
  cases hs
  obtain ⟨h, hh, rfl⟩ := computeR_g gl H M _ _ sigHash hR
  set K1 : ℤ := (parts.map (fun p => (p.2.1 : ℤ))).sum with hK1
  set K2 : ℤ := (parts.map (fun p => (p.2.2 : ℤ))).sum with hK2
  set r : ℤ := K1 + (h : ℤ) * K2 with hrdef
  -- the first participant signed: nothing is at infinity
  obtain ⟨p0, rest, rfl⟩ : ∃ p0 rest, parts = p0 :: rest := by
    cases parts with
    | nil => exact absurd rfl hne
    | cons a t => exact ⟨a, t, rfl⟩
  obtain ⟨s0, srest, rfl, ⟨k0, _, hsign0⟩, _⟩ : ∃ s0 srest, ss = s0 :: srest ∧
      (∃ k, computeK H M (p0.2.1, p0.2.2) (g K1, g K2) sigHash = some k ∧ sign H M p0.1 k (g r) sigHash root = some s0) ∧
      List.Forall₂ (fun (p : ℕ × ℕ × ℕ) (s : ℕ) =>
        ∃ k, computeK H M (p.2.1, p.2.2) (g K1, g K2) sigHash = some k ∧ sign H M p.1 k (g r) sigHash root = some s) rest srest := by
    cases hss with
    | cons h1 h2 => exact ⟨_, _, rfl, h1, h2⟩
  obtain ⟨ext, _, rPar, extPar, qPar, _, hext, _, _, _, hrPar, hextPar, hqPar, _, _⟩ := sign_some hsign0
  rw [hQ] at hqPar
  obtain ⟨hq, hq2, hq3⟩ := parityOf_g_cases hqPar
  obtain ⟨hr, hr2, hr3⟩ := parityOf_g_cases hrPar
  have hext' := externalKey_g gl H M q hQ hq root
  rw [hext] at hext'
  set xe : ℤ := (if root ≠ [] then ev q + (beToNat (tweak H M.point root) : ℤ) else ev q) with hxedef
  have hext'' : ext = g xe := Option.some.inj hext'
  subst hext''
  obtain ⟨hxe, hx2, hx3⟩ := parityOf_g_cases hextPar
  refine ⟨g xe, hext, hxe, hr, by rw [hQ]; exact hq, ⟨xe, r, rfl, rfl⟩, ?_⟩
  set chal : ℕ := challengeOf H (g r) (g xe) sigHash with hchal
  -- the sum of the partial signatures
  set σR : ZMod N := if rPar = extPar then 1 else -1 with hσR
  set σQ : ZMod N := if qPar = 1 then -1 else 1 with hσQ
  have hterm : ∀ (p : ℕ × ℕ × ℕ) (s : ℕ),
      (∃ k, computeK H M (p.2.1, p.2.2) (g K1, g K2) sigHash = some k ∧ sign H M p.1 k (g r) sigHash root = some s) →
      cz (s : ℤ) = σR * (cz (p.2.1 : ℤ) + cz (h : ℤ) * cz (p.2.2 : ℤ)) +
        (F (xo p.1) : ZMod N) * (cz (chal : ℤ) * (σQ * cz (ev (p.1 : ℤ)))) := by
    intro p s ⟨k, hk, hsg⟩
    obtain ⟨ext2, c, rPar2, extPar2, qPar2, pPar, he2, _, _, hc, hr2', hx2', hq2', hp2, hsdef⟩ := sign_some hsg
    rw [hext] at he2; cases he2
    rw [hrPar] at hr2'; cases hr2'
    rw [hextPar] at hx2'; cases hx2'
    rw [hQ, hqPar] at hq2'; cases hq2'
    have hkk := computeK_some hh hk
    have hlook : F (xo p.1) = c := (hFlook _ _ hc).symm
    have hsec := secret_sign q p.1 hqPar hp2
    rw [← hchal] at hsdef
    have e1 : ∀ a b c : ℤ, cz (a + b * c) = cz a + cz b * cz c := by
      intro a b c; simp only [cz, Int.cast_add, Int.cast_mul]
    have e2 : cz (if rPar = extPar then (k : ℤ) else -(k : ℤ)) = σR * cz (k : ℤ) := by
      by_cases hrr : rPar = extPar <;> simp [hrr, hσR, cz]
    have e3 : cz (k : ℤ) = cz (p.2.1 : ℤ) + cz (h : ℤ) * cz (p.2.2 : ℤ) := by
      rw [hkk, cz_nat_mod]; simp only [cz]; push_cast; rfl
    have e4 : cz ((c * chal % N : ℕ) : ℤ) = (c : ZMod N) * cz (chal : ℤ) := by
      rw [cz_nat_mod]; simp only [cz]; push_cast; rfl
    rw [hsdef, cz_toNat_emod, e1, e2, e3, e4, hsec, hlook, ← hσQ]
    ring
  have hsum := forall₂_sum _ _ hterm _ _ hss
  rw [sum_split] at hsum
  have hqz : (List.map (fun p : ℕ × ℕ × ℕ => (F (xo p.1) : ZMod N) * (σQ * cz (ev (p.1 : ℤ))))
      (p0 :: rest)).sum = σQ * cz q := by
    rw [hqsum]
    have : ∀ l : List (ℕ × ℕ × ℕ), (l.map (fun p => (F (xo p.1) : ZMod N) * (σQ * cz (ev (p.1 : ℤ))))).sum =
        σQ * (l.map ((fun d => (F (xo d) : ZMod N) * cz (ev (d : ℤ))) ∘ fun x => x.1)).sum := by
      intro l
      induction l with
      | nil => simp
      | cons a t ih => simp only [List.map_cons, List.sum_cons, Function.comp]; rw [ih]; ring
    exact this _
  have hK : (List.map (fun p : ℕ × ℕ × ℕ => cz (p.2.1 : ℤ)) (p0 :: rest)).sum +
      cz (h : ℤ) * (List.map (fun p : ℕ × ℕ × ℕ => cz (p.2.2 : ℤ)) (p0 :: rest)).sum = cz r := by
    have a1 : cz K1 = (List.map (fun p : ℕ × ℕ × ℕ => cz (p.2.1 : ℤ)) (p0 :: rest)).sum := by
      rw [hK1, cz_list_sum, List.map_map]; rfl
    have a2 : cz K2 = (List.map (fun p : ℕ × ℕ × ℕ => cz (p.2.2 : ℤ)) (p0 :: rest)).sum := by
      rw [hK2, cz_list_sum, List.map_map]; rfl
    rw [← a1, ← a2, hrdef]
    simp only [cz]; push_cast; ring
  -- the identity of the partial sums
  have hsumP : cz (List.map (fun (s : ℕ) => (s : ℤ)) (s0 :: srest)).sum = σR * cz r + cz (chal : ℤ) * (σQ * cz q) := by
    rw [hsum, hqz, hK]
  have hevq : cz (ev q) = σQ * cz q := ev_eq_sign q hqPar
  have hevr : cz (ev r) = (if rPar = 1 then -1 else 1) * cz r := ev_eq_sign r hrPar
  intro sSum
  obtain ⟨sI, hs0, hsN, hscz, hget⟩ := getSignature_eq gl H M r xe sigHash root sSum hr hext hxe
  rw [← hchal] at hscz hget
  -- the verification equation is the congruence of the sums
  have hiff : (cz sI = cz (ev r) + cz (chal : ℤ) * cz (ev xe)) ↔
      cz sSum = cz (List.map (fun (s : ℕ) => (s : ℤ)) (s0 :: srest)).sum := by
    rw [hsumP, ← hevq, hscz]
    have hevxe : cz (ev xe) = (if extPar = 1 then -1 else 1) * cz xe := ev_eq_sign xe hextPar
    rw [hevxe, hevr]
    by_cases hroot : root ≠ []
    · have hxez : cz xe = cz (ev q) + cz (beToNat (tweak H M.point root) : ℤ) := by
        rw [hxedef, if_pos hroot]; simp only [cz]; push_cast; rfl
      rw [if_pos hroot, ← hx2, hxez]
      rcases hx3 with rfl | rfl <;> rcases hr3 with rfl | rfl <;> simp [hσR] <;>
        constructor <;> intro hh' <;>
        first | linear_combination hh' | linear_combination (-1 : ZMod N) * hh'
    · have hxez : cz xe = cz (ev q) := by rw [hxedef, if_neg hroot]
      have hx0 : extPar = 0 := by
        rw [hx2, hxedef, if_neg hroot]; exact parity_g_ev gl hq
      rw [if_neg hroot, hxez]
      subst hx0
      rcases hr3 with rfl | rfl <;> simp [hσR]
  constructor
  · intro hcong
    rw [if_pos (hiff.mpr hcong)] at hget
    refine ⟨sI.toNat, hget, by omega, ?_⟩
    rw [verifySchnorr_iff gl H xe r hxe hr sigHash sI.toNat, Int.toNat_of_nonneg hs0]
    have hch : challengeOf H (evenPoint (g r)) (evenPoint (g xe)) sigHash = chal := by
      rw [hchal]; unfold challengeOf
      rw [gl.xonly_evenPoint_smul, gl.xonly_evenPoint_smul]
    rw [hch]
    simp [hiff.mpr hcong]
  · intro hncong
    rw [if_neg (fun hc => hncong (hiff.mp hc))] at hget
    exact hget

end

end Buidl.MuSig
