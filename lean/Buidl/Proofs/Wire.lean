/-
  Helper lemmas for C19 (P2P framing).
-/
import Buidl.Model.Wire
import Buidl.Proofs.Bytes
namespace Buidl.Wire
open Buidl

/-- a command as the envelope can carry it: at most 12 bytes, no NUL at either end
    (`bytes.strip(b"\x00")` removes NULs from both ends) -/
def CmdWF (c : Bytes) : Prop := c.length ≤ 12 ∧ c.head? ≠ some 0 ∧ c.getLast? ≠ some 0

instance (c : Bytes) : Decidable (CmdWF c) := by unfold CmdWF; infer_instance

theorem dropWhile_zero_replicate (k : Nat) (r : Bytes) (hr : r.head? ≠ some 0) :
    (List.replicate k (0 : UInt8) ++ r).dropWhile (· = 0) = r.dropWhile (· = 0) := by
  induction k with
  | zero => simp
  | succ k ih => simp [List.replicate_succ, List.dropWhile_cons, ih]

theorem dropWhile_zero_of_head (r : Bytes) (hr : r.head? ≠ some 0) : r.dropWhile (· = 0) = r := by
  cases r with
  | nil => rfl
  | cons x xs =>
    have : x ≠ 0 := by intro h; apply hr; simp [h]
    simp [List.dropWhile_cons, this]

theorem stripZeros_pad (c : Bytes) (k : Nat) (h1 : c.head? ≠ some 0) (h2 : c.getLast? ≠ some 0) :
    stripZeros (c ++ List.replicate k 0) = c := by
  unfold stripZeros
  cases c with
  | nil =>
    have : (List.replicate k (0 : UInt8)).dropWhile (· = 0) = [] := by
      have := dropWhile_zero_replicate k [] (by simp)
      simpa using this
    simp [this]
  | cons x xs =>
    have hx : x ≠ 0 := by intro h; apply h1; simp [h]
    have e1 : ((x :: xs) ++ List.replicate k 0).dropWhile (· = 0) = (x :: xs) ++ List.replicate k 0 := by
      simp [List.dropWhile_cons, hx]
    rw [e1, List.reverse_append, List.reverse_replicate]
    have hl : (x :: xs).reverse.head? ≠ some 0 := by
      rw [List.head?_reverse]; exact h2
    rw [dropWhile_zero_replicate _ _ hl, dropWhile_zero_of_head _ hl, List.reverse_reverse]

theorem magicOf_length {net : String} {m : Bytes} (h : magicOf net = some m) : m.length = 4 := by
  unfold magicOf at h
  simp only [Gen.magicTable] at h
  simp only [List.find?_cons, List.find?_nil] at h
  repeat' split at h
  all_goals (first | (cases h; rfl) | cases h)

end Buidl.Wire
