/-
  Helper lemmas for C19 (P2P framing).
-/
import Buidl.Model.Wire
import Buidl.Proofs.Bytes
namespace Buidl.Wire
open Buidl

/-- a command as the envelope can carry it: at most 12 bytes, no NUL at either end
    (`bytes.strip(b"\x00")` removes NULs from both ends) -/
def CmdWF (c : Bytes) : Prop := c.length ≤ 12 ∧ c.head? ≠ some 0 ∧ c.getLast? ≠ some 0

instance (c : Bytes) : Decidable (CmdWF c) := by unfold CmdWF; infer_instance

theorem dropWhile_zero_replicate (k : Nat) (r : Bytes) (hr : r.head? ≠ some 0) :
    (List.replicate k (0 : UInt8) ++ r).dropWhile (· = 0) = r.dropWhile (· = 0) := by
  induction k with
  | zero => simp
  | succ k ih => simp [List.replicate_succ, List.dropWhile_cons, ih]

theorem dropWhile_zero_of_head (r : Bytes) (hr : r.head? ≠ some 0) : r.dropWhile (· = 0) = r := by
  cases r with
  | nil => rfl
  | cons x xs =>
    have : x ≠ 0 := by intro h; apply hr; simp [h]
    simp [List.dropWhile_cons, this]

theorem stripZeros_pad (c : Bytes) (k : Nat) (h1 : c.head? ≠ some 0) (h2 : c.getLast? ≠ some 0) :
    stripZeros (c ++ List.replicate k 0) = c := by
  unfold stripZeros
  cases c with
  | nil =>
    have : (List.replicate k (0 : UInt8)).dropWhile (· = 0) = [] := by
      have := dropWhile_zero_replicate k [] (by simp)
      simpa using this
    simp [this]
  | cons x xs =>
    have hx : x ≠ 0 := by intro h; apply h1; simp [h]
    have e1 : ((x :: xs) ++ List.replicate k 0).dropWhile (· = 0) = (x :: xs) ++ List.replicate k 0 := by
      simp [List.dropWhile_cons, hx]
    rw [e1, List.reverse_append, List.reverse_replicate]
    have hl : (x :: xs).reverse.head? ≠ some 0 := by
      rw [List.head?_reverse]; exact h2
    rw [dropWhile_zero_replicate _ _ hl, dropWhile_zero_of_head _ hl, List.reverse_reverse]

theorem magicOf_length {net : String} {m : Bytes} (h : magicOf net = some m) : m.length = 4 := by
  unfold magicOf at h
  simp only [Gen.magicTable] at h
  simp only [List.find?_cons, List.find?_nil] at h
  repeat' split at h
  all_goals (first | (cases h; rfl) | cases h)

end Buidl.Wire

namespace Buidl.Wire
open Buidl

/-- parsing a header consumes exactly 80 bytes -/
theorem Header.parse_append (b r : Bytes) (hb : b.length = 80) :
    Header.parse (b ++ r) = ((Header.parse b).1, r) := by
  have t : ∀ n, n ≤ 80 → (b ++ r).take n = b.take n := by
    intro n hn; rw [List.take_append_of_le_length (by omega)]
  have d : ∀ n, n ≤ 80 → (b ++ r).drop n = b.drop n ++ r := by
    intro n hn; rw [List.drop_append_of_le_length (by omega)]
  simp only [Header.parse, List.drop_drop, List.take_drop]
  simp only [t 4 (by omega), t (4 + 32) (by omega), t (4 + 32 + 32) (by omega), t (4 + 32 + 32 + 4) (by omega),
    t (4 + 32 + 32 + 4 + 4) (by omega), t (4 + 32 + 32 + 4 + 4 + 4) (by omega), d (4 + 32 + 32 + 4 + 4 + 4) (by omega)]
  have : b.drop (4 + 32 + 32 + 4 + 4 + 4) = [] := by
    apply List.drop_eq_nil_of_le; omega
  rw [this]; rfl

theorem readN32_flatten (hs : List Bytes) (rest : Bytes) (h : ∀ x ∈ hs, x.length = 32) :
    readN32 hs.length (hs.flatten ++ rest) = (hs, rest) := by
  induction hs with
  | nil => rfl
  | cons x xs ih =>
    have hx : x.length = 32 := h x (by simp)
    have hxs : ∀ y ∈ xs, y.length = 32 := fun y hy => h y (by simp [hy])
    simp only [List.length_cons, List.flatten_cons, List.append_assoc, readN32,
      take_append_len _ _ 32 hx, drop_append_len _ _ 32 hx, ih hxs]

theorem readN32rev_flatten (hs : List Bytes) (rest : Bytes) (h : ∀ x ∈ hs, x.length = 32) :
    readN32rev hs.length ((hs.map List.reverse).flatten ++ rest) = (hs, rest) := by
  induction hs with
  | nil => rfl
  | cons x xs ih =>
    have hx : x.reverse.length = 32 := by simp [h x (by simp)]
    have hxs : ∀ y ∈ xs, y.length = 32 := fun y hy => h y (by simp [hy])
    simp only [List.length_cons, List.map_cons, List.flatten_cons, List.append_assoc, readN32rev,
      take_append_len _ _ 32 hx, drop_append_len _ _ 32 hx, ih hxs, List.reverse_reverse]

theorem headersParseLoop_encode (raw : List Bytes) (rest : Bytes) (h : ∀ x ∈ raw, x.length = 80) :
    headersParseLoop raw.length ((raw.map (· ++ [0])).flatten ++ rest)
      = some (raw.map (fun b => (Header.parse b).1), rest) := by
  induction raw with
  | nil => rfl
  | cons x xs ih =>
    have hx : x.length = 80 := h x (by simp)
    have hxs : ∀ y ∈ xs, y.length = 80 := fun y hy => h y (by simp [hy])
    simp only [List.length_cons, List.map_cons, List.flatten_cons, List.append_assoc, headersParseLoop,
      Header.parse_append _ _ hx]
    have : readVarint ([0] ++ ((xs.map (· ++ [0])).flatten ++ rest)) = some (0, (xs.map (· ++ [0])).flatten ++ rest) :=
      readVarint_encodeVarint 0 _ [0] (by decide)
    simp only [this, Option.pure_def, Option.bind_eq_bind, Option.bind_some, ne_eq, not_true_eq_false, if_false,
      ih hxs]

end Buidl.Wire

namespace Buidl.Wire
open Buidl

/-- the body GetDataMessage.serialize appends after the count -/
def invBody : List (Nat × Bytes) → Bytes
  | [] => []
  | (t, i) :: r => natToLE' 4 t ++ i.reverse ++ invBody r

theorem getData_foldlM (items : List (Nat × Bytes)) (acc : Bytes) (h : ∀ it ∈ items, it.1 < 2 ^ 32) :
    items.foldlM (fun acc (it : Nat × Bytes) =>
      (natToLE it.1 4).bind fun t => some (acc ++ t ++ it.2.reverse)) acc = some (acc ++ invBody items) := by
  induction items generalizing acc with
  | nil => simp [invBody]
  | cons x xs ih =>
    have hx : x.1 < 256 ^ 4 := by have := h x (by simp); omega
    have hxs : ∀ it ∈ xs, it.1 < 2 ^ 32 := fun it hit => h it (by simp [hit])
    obtain ⟨t, i⟩ := x
    simp only [List.foldlM_cons, natToLE_some hx, Option.bind_eq_bind, Option.bind_some]
    rw [ih _ hxs]
    simp [invBody, List.append_assoc]

theorem getDataSerialize_eq (items : List (Nat × Bytes)) (e : Bytes) (h : ∀ it ∈ items, it.1 < 2 ^ 32)
    (he : getDataSerialize items = some e) :
    ∃ v, encodeVarint items.length = some v ∧ e = v ++ invBody items := by
  simp only [getDataSerialize, Option.pure_def, Option.bind_eq_bind] at he
  cases hv : encodeVarint items.length with
  | none => rw [hv] at he; cases he
  | some v =>
    rw [hv] at he
    simp only [Option.bind_some] at he
    rw [getData_foldlM items [] h] at he
    simp only [Option.bind_some, List.nil_append, Option.some.injEq] at he
    exact ⟨v, rfl, he.symm⟩

end Buidl.Wire
