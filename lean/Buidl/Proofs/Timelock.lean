/-
  Helper lemmas for Props/C07Timelock.lean (buidl/timelock.py as a whole).
-/
import Buidl.Proofs.Interp
import Buidl.Model.Timelock
namespace Buidl.Timelock
open Buidl Buidl.Interp

theorem and_pow_div (x i : Nat) : x &&& 2 ^ i = (x / 2 ^ i % 2) * 2 ^ i := by
  rw [and_bit', Nat.testBit_eq_decide_div_mod_eq]
  have : x / 2 ^ i % 2 = 0 ∨ x / 2 ^ i % 2 = 1 := by omega
  rcases this with h | h <;> simp [h]

theorem and31 (x : Nat) : x &&& 2147483648 = (x / 2147483648 % 2) * 2147483648 := and_pow_div x 31
theorem and22 (x : Nat) : x &&& 4194304 = (x / 4194304 % 2) * 4194304 := and_pow_div x 22

/-! ## constructors -/

theorem rangeRefuses_std (n : Int) :
    rangeRefuses [("Lt", 0), ("Gt", 4294967295)] n = (decide (n < 0) || decide (n > 4294967295)) := by
  simp [rangeRefuses, cmpOpI]

theorem locktimeNew_iff' (n : Int) (v : Nat) :
    locktimeNew n = some v ↔ 0 ≤ n ∧ n ≤ 4294967295 ∧ n = v := by
  unfold locktimeNew
  rw [show Gen.locktimeNewCmps = [("Lt", 0), ("Gt", 4294967295)] from rfl, rangeRefuses_std]
  by_cases h0 : n < 0
  · simp [h0]; omega
  · by_cases h1 : n > 4294967295
    · simp [h0, h1]; omega
    · simp [h0, h1]; omega

theorem sequenceNew_iff' (n : Int) (v : Nat) :
    sequenceNew n = some v ↔ 0 ≤ n ∧ n ≤ 4294967295 ∧ n = v := by
  unfold sequenceNew
  rw [show Gen.sequenceNewCmps = [("Lt", 0), ("Gt", 4294967295)] from rfl, rangeRefuses_std]
  by_cases h0 : n < 0
  · simp [h0]; omega
  · by_cases h1 : n > 4294967295
    · simp [h0, h1]; omega
    · simp [h0, h1]; omega

theorem locktimeNew_nat {n : Nat} (h : n ≤ 4294967295) : locktimeNew (n : Int) = some n :=
  (locktimeNew_iff' n n).2 ⟨by omega, by omega, rfl⟩

theorem sequenceNew_nat {n : Nat} (h : n ≤ 4294967295) : sequenceNew (n : Int) = some n :=
  (sequenceNew_iff' n n).2 ⟨by omega, by omega, rfl⟩

/-! ## codec -/

theorem le4 {n : Nat} (h : n ≤ 4294967295) : n < 256 ^ 4 := by
  have : (256 : Nat) ^ 4 = 4294967296 := by decide
  omega

theorem codec_ps (new : Int → Option Nat) (hnew : ∀ n : Nat, n ≤ 4294967295 → new (n : Int) = some n)
    (n : Nat) (h : n ≤ 4294967295) (rest : Bytes) :
    ∃ b, natToLE n 4 = some b ∧ b.length = 4 ∧
      ((new (leToNat (sread 4 (b ++ rest)).1)).map (fun v => (v, (sread 4 (b ++ rest)).2))) = some (n, rest) := by
  refine ⟨natToLE' 4 n, natToLE_some (le4 h), natToLE'_length 4 n, ?_⟩
  have hl : (natToLE' 4 n).length = 4 := natToLE'_length 4 n
  simp only [sread, take_append_len _ _ 4 hl, drop_append_len _ _ 4 hl,
    leToNat_natToLE'_of_lt (le4 h), hnew n h, Option.map_some]

theorem locktime_parse_serialize' (n : Nat) (h : n ≤ 4294967295) (rest : Bytes) :
    ∃ b, locktimeSerialize n = some b ∧ b.length = 4 ∧ locktimeParse (b ++ rest) = some (n, rest) :=
  codec_ps locktimeNew (fun _ h => locktimeNew_nat h) n h rest

theorem sequence_parse_serialize' (n : Nat) (h : n ≤ 4294967295) (rest : Bytes) :
    ∃ b, sequenceSerialize n = some b ∧ b.length = 4 ∧ sequenceParse (b ++ rest) = some (n, rest) :=
  codec_ps sequenceNew (fun _ h => sequenceNew_nat h) n h rest

theorem codec_sp (new : Int → Option Nat) (hnew : ∀ n : Nat, n ≤ 4294967295 → new (n : Int) = some n)
    (s : Bytes) (h : 4 ≤ s.length) :
    ∃ v, ((new (leToNat (sread 4 s).1)).map (fun v => (v, (sread 4 s).2))) = some (v, s.drop 4) ∧
      v ≤ 4294967295 ∧ natToLE v 4 = some (s.take 4) := by
  have hl : (s.take 4).length = 4 := by simp [List.length_take]; omega
  have hlt : leToNat (s.take 4) < 256 ^ 4 := by have := leToNat_lt (s.take 4); rwa [hl] at this
  have hv : leToNat (s.take 4) ≤ 4294967295 := by
    have : (256 : Nat) ^ 4 = 4294967296 := by decide
    omega
  refine ⟨leToNat (s.take 4), ?_, hv, ?_⟩
  · simp only [sread, hnew _ hv, Option.map_some]
  · rw [natToLE_some hlt]
    have := natToLE'_leToNat (s.take 4)
    rw [hl] at this
    rw [this]

theorem locktime_serialize_parse' (s : Bytes) (h : 4 ≤ s.length) :
    ∃ v, locktimeParse s = some (v, s.drop 4) ∧ v ≤ 4294967295 ∧ locktimeSerialize v = some (s.take 4) :=
  codec_sp locktimeNew (fun _ h => locktimeNew_nat h) s h

theorem sequence_serialize_parse' (s : Bytes) (h : 4 ≤ s.length) :
    ∃ v, sequenceParse s = some (v, s.drop 4) ∧ v ≤ 4294967295 ∧ sequenceSerialize v = some (s.take 4) :=
  codec_sp sequenceNew (fun _ h => sequenceNew_nat h) s h

/-! ## Locktime -/

theorem blockHeight_eq (n : Nat) : blockHeight n = if n < 500000000 then some n else none := by
  simp [blockHeight, cmpAt, cmpOp, Gen.blockHeightCmps]

theorem mtp_eq (n : Nat) : mtp n = if 500000000 ≤ n then some n else none := by
  simp [mtp, cmpAt, cmpOp, Gen.mtpCmps]

theorem locktime_height_xor_mtp' (n : Nat) :
    (blockHeight n = some n ∧ mtp n = none ∧ n < 500000000) ∨
    (blockHeight n = none ∧ mtp n = some n ∧ 500000000 ≤ n) := by
  rw [blockHeight_eq, mtp_eq]
  by_cases h : n < 500000000
  · left; simp [h]
  · right; simp [h]; omega

theorem ltc_eq (a b : Nat) : locktimeComparable a b =
    ((decide (a < 500000000) && decide (b < 500000000)) || (decide (a ≥ 500000000) && decide (b ≥ 500000000))) := rfl

theorem locktime_comparable_iff' (a b : Nat) :
    locktimeComparable a b = true ↔ ((blockHeight a).isSome ↔ (blockHeight b).isSome) := by
  rw [ltc_eq, blockHeight_eq, blockHeight_eq]
  by_cases ha : a < 500000000 <;> by_cases hb : b < 500000000 <;> simp [ha, hb] <;> omega

theorem locktime_comparable_equiv' :
    (∀ a, locktimeComparable a a = true) ∧
    (∀ a b, locktimeComparable a b = true → locktimeComparable b a = true) ∧
    (∀ a b c, locktimeComparable a b = true → locktimeComparable b c = true → locktimeComparable a c = true) := by
  refine ⟨fun a => ?_, fun a b => ?_, fun a b c => ?_⟩
  · rw [ltc_eq]; by_cases ha : a < 500000000 <;> simp [ha] <;> omega
  · rw [ltc_eq, ltc_eq]
    by_cases ha : a < 500000000 <;> by_cases hb : b < 500000000 <;> simp [ha, hb] <;> omega
  · rw [ltc_eq, ltc_eq, ltc_eq]
    by_cases ha : a < 500000000 <;> by_cases hb : b < 500000000 <;> by_cases hc : c < 500000000 <;>
      simp [ha, hb, hc] <;> omega

theorem locktime_lt_spec' (a b : Nat) :
    (locktimeLt a b = none ↔ locktimeComparable a b = false) ∧
    (∀ r, locktimeLt a b = some r → (r = true ↔ a < b)) := by
  unfold locktimeLt
  cases h : locktimeComparable a b <;> simp

/-! ## Sequence -/

theorem isRelative_eq (x : Nat) : isRelative x = decide (x / 2147483648 % 2 = 0) := by
  simp only [isRelative, seqIsRelative, Gen.seqDisableFlag, and31]
  have : x / 2147483648 % 2 = 0 ∨ x / 2147483648 % 2 = 1 := by omega
  rcases this with h | h <;> simp [h]

theorem isRelativeTime_eq (x : Nat) :
    isRelativeTime x = (decide (x / 2147483648 % 2 = 0) && decide (x / 4194304 % 2 = 1)) := by
  have hr := isRelative_eq x
  simp only [isRelative] at hr
  simp only [isRelativeTime, seqIsRelativeTime, hr, Gen.seqTimeFlag, and22]
  have : x / 4194304 % 2 = 0 ∨ x / 4194304 % 2 = 1 := by omega
  rcases this with h | h <;> simp [h]

theorem isRelativeBlock_eq (x : Nat) :
    isRelativeBlock x = (decide (x / 2147483648 % 2 = 0) && decide (x / 4194304 % 2 = 0)) := by
  have hr := isRelative_eq x
  have ht := isRelativeTime_eq x
  simp only [isRelative, isRelativeTime] at hr ht
  simp only [isRelativeBlock, seqIsRelativeBlock, hr, ht]
  have : x / 4194304 % 2 = 0 ∨ x / 4194304 % 2 = 1 := by omega
  rcases this with h | h <;> simp [h]

theorem relativeBlocks_eq (x : Nat) :
    relativeBlocks x = if x / 2147483648 % 2 = 0 ∧ x / 4194304 % 2 = 0 then some (x % 65536) else none := by
  simp only [relativeBlocks, isRelativeBlock_eq, Gen.seqMask, and_mask16]
  by_cases a : x / 2147483648 % 2 = 0 <;> by_cases b : x / 4194304 % 2 = 0 <;> simp [a, b]

theorem relativeTime_eq (x : Nat) :
    relativeTime x = if x / 2147483648 % 2 = 0 ∧ x / 4194304 % 2 = 1 then some (512 * (x % 65536)) else none := by
  simp only [relativeTime, isRelativeTime_eq, Gen.seqMask, and_mask16, Gen.seqTimeShift, Nat.shiftLeft_eq]
  by_cases a : x / 2147483648 % 2 = 0 <;> by_cases b : x / 4194304 % 2 = 1 <;> simp [a, b] <;> omega

theorem sequence_kinds' (x : Nat) :
    (isRelative x = false ∧ relativeBlocks x = none ∧ relativeTime x = none ∧ x / 2147483648 % 2 = 1) ∨
    (isRelativeBlock x = true ∧ isRelativeTime x = false ∧ relativeBlocks x = some (x % 65536) ∧
      relativeTime x = none ∧ x / 2147483648 % 2 = 0 ∧ x / 4194304 % 2 = 0) ∨
    (isRelativeTime x = true ∧ isRelativeBlock x = false ∧ relativeBlocks x = none ∧
      relativeTime x = some (512 * (x % 65536)) ∧ x / 2147483648 % 2 = 0 ∧ x / 4194304 % 2 = 1) := by
  rw [isRelative_eq, isRelativeBlock_eq, isRelativeTime_eq, relativeBlocks_eq, relativeTime_eq]
  have c31 : x / 2147483648 % 2 = 0 ∨ x / 2147483648 % 2 = 1 := by omega
  have c22 : x / 4194304 % 2 = 0 ∨ x / 4194304 % 2 = 1 := by omega
  rcases c31 with a | a <;> rcases c22 with b | b <;> simp [a, b]

theorem isRbfAble_eq (x : Nat) : isRbfAble x = decide (x < 4294967295) := by
  simp [isRbfAble, cmpAt, cmpOp, Gen.rbfCmps]

theorem isMax_eq (x : Nat) : isMax x = decide (x = 4294967295) := by
  simp only [isMax, cmpAt, cmpOp, Gen.isMaxCmps]
  rw [Bool.eq_iff_iff]; simp

theorem rbf_iff_not_max' (x : Nat) (h : x ≤ 4294967295) :
    isRbfAble x = !isMax x ∧ (isMax x = true ↔ x = 4294967295) := by
  rw [isRbfAble_eq, isMax_eq]
  by_cases e : x = 4294967295
  · simp [e]
  · have : x < 4294967295 := by omega
    simp [e, this]

theorem from_relative_blocks_roundtrip' (n : Nat) (h : n < 65536) :
    ∃ v, fromRelativeBlocks n = some v ∧ relativeBlocks v = some n ∧ relativeTime v = none ∧
      isRbfAble v = true ∧ isMax v = false := by
  refine ⟨n, sequenceNew_nat (by omega), ?_, ?_, ?_, ?_⟩
  · rw [relativeBlocks_eq]
    have a : n / 2147483648 % 2 = 0 := by omega
    have b : n / 4194304 % 2 = 0 := by omega
    have c : n % 65536 = n := by omega
    simp [a, b, c]
  · rw [relativeTime_eq]
    have b : n / 4194304 % 2 = 0 := by omega
    simp [b]
  · rw [isRbfAble_eq]; simp; omega
  · rw [isMax_eq]; simp; omega

theorem or22 (q : Nat) (h : q < 4194304) : 4194304 ||| q = 4194304 + q := by
  have := Nat.two_pow_add_eq_or_of_lt (i := 22) (b := q) (by simpa using h) 1
  simpa using this.symm

theorem from_relative_time_roundtrip' (s : Nat) (h : s < 33554432) :
    ∃ v, fromRelativeTime s = some v ∧ relativeTime v = some (512 * (s / 512)) ∧ relativeBlocks v = none ∧
      512 * (s / 512) ≤ s ∧ s < 512 * (s / 512) + 512 ∧ isRbfAble v = true := by
  have hq : s / 512 < 65536 := by omega
  refine ⟨4194304 + s / 512, ?_, ?_, ?_, by omega, by omega, ?_⟩
  · unfold fromRelativeTime
    have : ¬ ((s : Int) < 0) := by omega
    simp only [this, if_false, Int.toNat_natCast, Gen.seqTimeFlag, Gen.seqTimeDiv]
    rw [or22 _ (by omega)]
    exact sequenceNew_nat (by omega)
  · rw [relativeTime_eq]
    have a : (4194304 + s / 512) / 2147483648 % 2 = 0 := by omega
    have b : (4194304 + s / 512) / 4194304 % 2 = 1 := by omega
    have c : (4194304 + s / 512) % 65536 = s / 512 := by omega
    rw [if_pos ⟨a, b⟩, c]
  · rw [relativeBlocks_eq]
    have b : (4194304 + s / 512) / 4194304 % 2 = 1 := by omega
    rw [if_neg]; intro hh; omega
  · rw [isRbfAble_eq]; simp; omega

theorem from_relative_negative' (n : Int) (h : n < 0) :
    fromRelativeBlocks n = none ∧ fromRelativeTime n = none := by
  constructor
  · unfold fromRelativeBlocks
    cases e : sequenceNew n with
    | none => rfl
    | some v => have := (sequenceNew_iff' n v).1 e; omega
  · simp [fromRelativeTime, h]

theorem sc_eq (a b : Nat) : sequenceComparable a b =
    ((isRelativeBlock a && isRelativeBlock b) || (isRelativeTime a && isRelativeTime b)) := rfl

theorem sequence_comparable_iff' (a b : Nat) :
    sequenceComparable a b = true ↔
      ((relativeBlocks a).isSome ∧ (relativeBlocks b).isSome) ∨ ((relativeTime a).isSome ∧ (relativeTime b).isSome) := by
  rw [sc_eq]
  simp only [relativeBlocks, relativeTime]
  cases isRelativeBlock a <;> cases isRelativeBlock b <;> cases isRelativeTime a <;> cases isRelativeTime b <;> simp

theorem sequence_comparable_per' :
    (∀ a b, sequenceComparable a b = true → sequenceComparable b a = true) ∧
    (∀ a b c, sequenceComparable a b = true → sequenceComparable b c = true → sequenceComparable a c = true) ∧
    (∀ a, sequenceComparable a a = isRelative a) := by
  refine ⟨fun a b => ?_, fun a b c => ?_, fun a => ?_⟩
  · rw [sc_eq, sc_eq]
    cases isRelativeBlock a <;> cases isRelativeBlock b <;> cases isRelativeTime a <;> cases isRelativeTime b <;> simp
  · rw [sc_eq, sc_eq, sc_eq, isRelativeBlock_eq, isRelativeBlock_eq, isRelativeBlock_eq,
      isRelativeTime_eq, isRelativeTime_eq, isRelativeTime_eq]
    have : b / 4194304 % 2 = 0 ∨ b / 4194304 % 2 = 1 := by omega
    rcases this with hb | hb <;> simp [hb] <;> grind
  · rw [sc_eq, isRelativeBlock_eq, isRelativeTime_eq, isRelative_eq]
    have : a / 4194304 % 2 = 0 ∨ a / 4194304 % 2 = 1 := by omega
    rcases this with ha | ha <;> simp [ha]

theorem sequence_lt_spec' (a b : Nat) :
    (sequenceLt a b = none ↔ sequenceComparable a b = false) ∧
    (∀ r na nb, sequenceLt a b = some r → relativeBlocks a = some na → relativeBlocks b = some nb →
        (r = true ↔ na < nb)) ∧
    (∀ r ta tb, sequenceLt a b = some r → relativeTime a = some ta → relativeTime b = some tb →
        (r = true ↔ ta < tb)) := by
  refine ⟨?_, ?_, ?_⟩
  · unfold sequenceLt; cases sequenceComparable a b <;> simp
  · intro r na nb hr ha hb
    unfold sequenceLt at hr
    rw [relativeBlocks_eq] at ha hb
    simp only [Gen.seqMask, and_mask16] at hr
    split at hr
    · split at ha <;> split at hb <;> simp_all
      subst hr ha hb; simp <;> omega
    · simp at hr
  · intro r ta tb hr ha hb
    unfold sequenceLt at hr
    rw [relativeTime_eq] at ha hb
    simp only [Gen.seqMask, and_mask16] at hr
    split at hr
    · split at ha <;> split at hb <;> simp_all
      subst hr ha hb; simp <;> omega
    · simp at hr

end Buidl.Timelock
