/-
  Helper lemmas about Buidl.Model.Base58 (positional digits, the two loops, the alphabet).
-/
import Buidl.Model.Base58
import Buidl.Proofs.Bytes
import Mathlib.Data.Nat.Digits.Defs
import Mathlib.Data.Nat.Digits.Lemmas
namespace Buidl.Base58
open Buidl

/-! ### the alphabet table -/

theorem alphabet_length : alphabet.length = 58 := by decide

theorem alphabet_nodup : alphabet.Nodup := by decide

theorem decPad_eq : Gen.b58DecPad.toList = ['1'] := by decide
theorem encPad_eq : Gen.b58EncPad.toList = ['1'] := by decide

/-- the character of digit `d` (`'1'` beyond the table, never used) -/
def b58char (d : Nat) : Char := (alphabet[d]?).getD '1'

theorem b58char_zero : b58char 0 = '1' := by decide

theorem indexOf?_getElem (l : Str) (hn : l.Nodup) (i : Nat) (hi : i < l.length) :
    indexOf? l[i] l = some i := by
  induction l generalizing i with
  | nil => simp at hi
  | cons x xs ih =>
    cases i with
    | zero => simp [indexOf?]
    | succ i =>
      have hne : x ≠ xs[i]'(by simpa using hi) := by
        intro h
        have : x ∈ xs := h ▸ List.getElem_mem _
        exact (List.nodup_cons.mp hn).1 this
      simp only [List.getElem_cons_succ, indexOf?, hne, if_false]
      rw [ih (List.nodup_cons.mp hn).2 i (by simpa using hi)]
      rfl

theorem indexOf?_some {l : Str} {c : Char} {i : Nat} (h : indexOf? c l = some i) :
    ∃ hi : i < l.length, l[i] = c := by
  induction l generalizing i with
  | nil => simp [indexOf?] at h
  | cons x xs ih =>
    unfold indexOf? at h
    split at h
    · next hx => cases h; exact ⟨by simp, by simpa using hx⟩
    · obtain ⟨j, hj, rfl⟩ := Option.map_eq_some_iff.mp h
      obtain ⟨hj', e⟩ := ih hj
      exact ⟨by simp; omega, by simpa using e⟩

theorem indexOf?_b58char {d : Nat} (hd : d < 58) : indexOf? (b58char d) alphabet = some d := by
  have hl : d < alphabet.length := by rw [alphabet_length]; exact hd
  have : b58char d = alphabet[d] := by simp [b58char, hl]
  rw [this]
  exact indexOf?_getElem alphabet alphabet_nodup d hl

theorem b58char_of_indexOf? {c : Char} {i : Nat} (h : indexOf? c alphabet = some i) :
    i < 58 ∧ b58char i = c := by
  obtain ⟨hi, e⟩ := indexOf?_some h
  refine ⟨by rw [alphabet_length] at hi; exact hi, ?_⟩
  simp [b58char, hi, e]

theorem b58char_inj {a b : Nat} (ha : a < 58) (hb : b < 58) (h : b58char a = b58char b) : a = b := by
  have := indexOf?_b58char ha
  rw [h, indexOf?_b58char hb] at this
  exact (Option.some.inj this).symm

theorem lookupAll_eq (ds : List Nat) (h : ∀ d ∈ ds, d < 58) : lookupAll alphabet ds = some (ds.map b58char) := by
  induction ds with
  | nil => rfl
  | cons d ds ih =>
    have hd : d < alphabet.length := by rw [alphabet_length]; exact h d (by simp)
    simp only [lookupAll, ih (fun x hx => h x (by simp [hx])), List.map_cons]
    simp [b58char, hd]

/-! ### the `while num > 0` loops -/

theorem digitsBE_eq (base : Nat) (hb : 2 ≤ base) (fuel num : Nat) (acc : List Nat) (h : num ≤ fuel) :
    digitsBE base fuel num acc = (Nat.digits base num).reverse ++ acc := by
  induction fuel generalizing num acc with
  | zero =>
    have : num = 0 := by omega
    subst this; simp [digitsBE]
  | succ f ih =>
    unfold digitsBE
    by_cases h0 : num > 0
    · have hlt : num / base < num := Nat.div_lt_self h0 (by omega)
      rw [if_pos h0, ih _ _ (by omega), Nat.digits_def' (by omega) h0]
      simp
    · have : num = 0 := by omega
      subst this; simp

theorem bytesBE_eq (fuel num : Nat) (acc : Bytes) (h : num ≤ fuel) :
    bytesBE fuel num acc = ((Nat.digits 256 num).reverse.map UInt8.ofNat) ++ acc := by
  induction fuel generalizing num acc with
  | zero =>
    have : num = 0 := by omega
    subst this; simp [bytesBE]
  | succ f ih =>
    unfold bytesBE
    by_cases h0 : num > 0
    · have hs : num >>> Gen.b58DecByteShift = num / 256 := by
        simp [Gen.b58DecByteShift, Nat.shiftRight_eq_div_pow]
      have hm : num &&& Gen.b58DecByteMask = num % 256 := by
        have := Nat.and_two_pow_sub_one_eq_mod num 8
        simpa [Gen.b58DecByteMask] using this
      have hlt : num / 256 < num := Nat.div_lt_self h0 (by omega)
      rw [if_pos h0, hs, hm, ih _ _ (by omega), Nat.digits_def' (by omega) h0]
      simp
    · have : num = 0 := by omega
      subst this; simp

/-! ### positional value of byte strings -/

theorem leToNat_eq_ofDigits (b : Bytes) : leToNat b = Nat.ofDigits 256 (b.map (·.toNat)) := by
  induction b with
  | nil => rfl
  | cons x xs ih => simp [leToNat, Nat.ofDigits_cons, ih]

theorem beToNat_eq_ofDigits (b : Bytes) : beToNat b = Nat.ofDigits 256 (b.reverse.map (·.toNat)) := by
  rw [← leToNat_eq_ofDigits, ← beToNat_reverse, List.reverse_reverse]

theorem beToNat_replicate_zero (k : Nat) (r : Bytes) : beToNat (List.replicate k 0 ++ r) = beToNat r := by
  induction k with
  | zero => simp
  | succ k ih =>
    simp only [List.replicate_succ, List.cons_append]
    unfold beToNat at *
    simp only [beToNatAux]
    simpa using ih

/-- the base-256 digits of the value of a byte string without leading zero are its bytes -/
theorem digits_beToNat (r : Bytes) (h : ∀ hne : r ≠ [], r.head hne ≠ 0) :
    Nat.digits 256 (beToNat r) = r.reverse.map (·.toNat) := by
  rw [beToNat_eq_ofDigits]
  apply Nat.digits_ofDigits 256 (by omega)
  · intro l hl
    obtain ⟨x, _, rfl⟩ := List.mem_map.mp hl
    exact x.toNat_lt
  · intro hne
    have hr : r ≠ [] := by intro e; subst e; simp at hne
    have : (r.reverse.map (·.toNat)).getLast hne = (r.head hr).toNat := by
      simp [List.getLast_reverse]
    rw [this]
    intro h0
    exact h hr (UInt8.toNat_inj.mp (by simpa using h0))

theorem bytes_of_digits_beToNat (r : Bytes) (h : ∀ hne : r ≠ [], r.head hne ≠ 0) :
    (Nat.digits 256 (beToNat r)).reverse.map UInt8.ofNat = r := by
  rw [digits_beToNat r h]
  simp only [List.map_reverse, List.reverse_reverse, List.map_map]
  conv_rhs => rw [← List.map_id r]
  apply List.map_congr_left
  intro x _
  simp

theorem takeWhile_zero_eq_replicate (b : Bytes) :
    b.takeWhile (fun c => decide (c.toNat = 0)) =
      List.replicate (b.takeWhile (fun c => decide (c.toNat = 0))).length 0 := by
  induction b with
  | nil => rfl
  | cons x xs ih =>
    by_cases hx : x.toNat = 0
    · have : x = 0 := UInt8.toNat_inj.mp (by simpa using hx)
      subst this
      simp only [List.takeWhile_cons, UInt8.toNat_zero, decide_true, if_true, List.length_cons, List.replicate_succ]
      congr 1
    · simp [hx]

/-- split a byte string into its run of leading zeros and the rest -/
theorem split_zeros (b : Bytes) :
    ∃ r : Bytes, b = List.replicate (b.takeWhile (fun c => decide (c.toNat = 0))).length 0 ++ r ∧
      r = b.dropWhile (fun c => decide (c.toNat = 0)) ∧ (∀ hne : r ≠ [], r.head hne ≠ 0) := by
  refine ⟨b.dropWhile (fun c => decide (c.toNat = 0)), ?_, rfl, ?_⟩
  · conv_lhs => rw [← List.takeWhile_append_dropWhile (p := fun c => decide (c.toNat = 0)) (l := b)]
    congr 1
    exact takeWhile_zero_eq_replicate b
  · intro hne h0
    have := List.head_dropWhile_not (fun c : UInt8 => decide (c.toNat = 0)) hne
    rw [h0] at this
    simp at this

/-! ### the decoding loop -/

def accum (num : Nat) (ds : List Nat) : Nat := ds.foldl (fun n d => 58 * n + d) num

theorem accum_eq_ofDigits (ds : List Nat) : accum 0 ds = Nat.ofDigits 58 ds.reverse := by
  have : ∀ (l : List Nat), List.foldr (fun x y => 58 * y + x) 0 l = Nat.ofDigits 58 l := by
    intro l
    induction l with
    | nil => rfl
    | cons x xs ih => simp [Nat.ofDigits_cons, ih]; omega
  unfold accum
  rw [← this, ← List.foldl_reverse, List.reverse_reverse]

theorem decodeLoop_ones (k : Nat) (rest : Str) (z : Nat) :
    decodeLoop (List.replicate k '1' ++ rest) z 0 = decodeLoop rest (z + k) 0 := by
  induction k generalizing z with
  | zero => simp
  | succ k ih =>
    simp only [List.replicate_succ, List.cons_append, decodeLoop, decPad_eq, and_self, if_true]
    rw [ih]; congr 1; omega

theorem decodeLoop_digits (ds : List Nat) (hds : ∀ d ∈ ds, d < 58) (z num : Nat)
    (hz : num ≠ 0 ∨ ∀ hne : ds ≠ [], ds.head hne ≠ 0) :
    decodeLoop (ds.map b58char) z num = some (z, accum num ds) := by
  induction ds generalizing num with
  | nil => simp [decodeLoop, accum]
  | cons d ds ih =>
    have hd : d < 58 := hds d (by simp)
    have hcond : ¬ (num = 0 ∧ [b58char d] = Gen.b58DecPad.toList) := by
      rintro ⟨h0, hc⟩
      rw [decPad_eq] at hc
      have hc' : b58char d = b58char 0 := by rw [b58char_zero]; simpa using hc
      have : d = 0 := b58char_inj hd (by omega) hc'
      rcases hz with h | h
      · exact h h0
      · exact h (by simp) (by simpa using this)
    simp only [List.map_cons, decodeLoop, hcond, if_false, indexOf?_b58char hd]
    have hnz : Gen.b58DecBase * num + d ≠ 0 := by
      simp only [Gen.b58DecBase]
      rcases hz with h | h
      · omega
      · have := h (by simp); simp at this; omega
    rw [ih (fun x hx => hds x (by simp [hx])) _ (Or.inl hnz)]
    simp [accum, Gen.b58DecBase]

/-- `decodeCombined` inverts `encodeBase58` on every non-empty byte string -/
theorem decodeCombined_encodeBase58 (b : Bytes) (s : Str) (h : encodeBase58 b = some s) :
    decodeCombined s = some b := by
  unfold encodeBase58 at h
  split at h
  · cases h
  · obtain ⟨r, hb, _, hr⟩ := split_zeros b
    set k := (b.takeWhile (fun c => decide (c.toNat = 0))).length with hk
    have hnum : beToNat b = beToNat r := by rw [hb, beToNat_replicate_zero]
    simp only [Gen.b58EncBase] at h
    rw [digitsBE_eq 58 (by omega) _ _ _ (Nat.le_refl _)] at h
    have hlt : ∀ d ∈ (Nat.digits 58 (beToNat b)).reverse ++ [], d < 58 := by
      intro d hd
      simp only [List.append_nil, List.mem_reverse] at hd
      exact Nat.digits_lt_base (by omega) hd
    rw [lookupAll_eq _ hlt] at h
    simp only [Option.map_some, Option.some.injEq, List.append_nil] at h
    subst h
    have hpre : (List.replicate k Gen.b58EncPad.toList).flatten = List.replicate k '1' := by
      rw [encPad_eq]; simp
    unfold decodeCombined
    rw [hpre, decodeLoop_ones]
    have hhead : ∀ hne : (Nat.digits 58 (beToNat b)).reverse ≠ [], (Nat.digits 58 (beToNat b)).reverse.head hne ≠ 0 := by
      intro hne
      rw [List.head_reverse]
      have hm : beToNat b ≠ 0 := by
        intro e; rw [e] at hne; simp at hne
      exact Nat.getLast_digit_ne_zero 58 hm
    rw [decodeLoop_digits _ (by simpa using hlt) _ _ (Or.inr hhead), accum_eq_ofDigits, List.reverse_reverse,
      Nat.ofDigits_digits]
    simp only [Option.map_some, Option.some.injEq]
    rw [bytesBE_eq _ _ _ (Nat.le_refl _), hnum, bytes_of_digits_beToNat r hr, List.append_nil, Nat.zero_add]
    exact hb.symm
end Buidl.Base58
