/-
  Buidl.Proofs.TxCodecInst — the transaction model (Buidl.Model.Tx, property C04) satisfies the laws the
  PSBT model (Buidl.Model.PsbtCodec, properties C10 / C11) assumes of its abstract `TxCodec`.

  `TxCodec` itself is a record of functions; its laws appear as fields of the well-formedness
  predicates of Buidl.Proofs.PsbtCodec (`GlobalWF.tx`, `InMapWF.prevTx`, `PsbtMapWF.insSame / outsSame`).
  This file proves those statements for `psbtCodec`, the instance the PSBT drivers use
  (`Buidl.PsbtDrv.txCodec = psbtCodec Hash.hash256 PsbtDrv.finalSer`, by `rfl`).
-/
import Buidl.Proofs.TxParse
import Buidl.Proofs.PsbtCodec
import Buidl.Drv.PsbtCommon
namespace Buidl.Tx
open Buidl Buidl.Script Buidl.Psbt

/-- the `TxCodec` made of Model/Tx.lean's functions (`fin` = `PSBT.final_tx`'s serialiser, which no law
    mentions) -/
def psbtCodec (hash256 : Bytes → Bytes) (fin : Tx → List (Option Script × Option (List Bytes)) → Option Bytes) :
    TxCodec Tx where
  parseLegacy := Tx.parseLegacy
  parse := Tx.parse
  serialize := Tx.serialize
  serializeLegacy := Tx.serializeLegacy
  hash := Tx.hash hash256
  ins t := t.ins.map fun i => { prevTx := i.prevTx, prevIndex := i.prevIndex, scriptSigEmpty := i.scriptSig.cmds.isEmpty }
  outs t := t.outs.map fun o => { amount := o.amount, spk := o.scriptPubkey }
  finalSerialize := fin

/-- it is the codec of the PSBT drivers -/
theorem drv_txCodec_eq : PsbtDrv.txCodec = psbtCodec Hash.hash256 PsbtDrv.finalSer := rfl

variable (hash256 : Bytes → Bytes) (fin : Tx → List (Option Script × Option (List Bytes)) → Option Bytes)

/-- **`GlobalWF.tx`**: the unsigned transaction's legacy serialisation parses, as a legacy transaction and
    followed by anything, to `coreTx t` (witness-stripped, canonical scripts), which serialises to the same
    bytes — for every well-formed transaction (any number of inputs: PSBT calls `parse_legacy` directly) -/
theorem codec_global_tx (t : Tx) (wf : TxWF t) :
    ∃ b, (psbtCodec hash256 fin).serializeLegacy t = some b ∧
      (∀ rest, (psbtCodec hash256 fin).parseLegacy (b ++ rest) = some (coreTx t, rest)) ∧
      (psbtCodec hash256 fin).serializeLegacy (coreTx t) = some b := by
  obtain ⟨n, i, m, o, _, _, _, _, hs⟩ := serializeLegacy_wf wf
  exact ⟨_, hs, fun rest => parseLegacy_serializeLegacy rest wf hs, by
    show (coreTx t).serializeLegacy = _
    rw [serializeLegacy_coreTx wf, hs]⟩

theorem canon_isEmpty (cs : List Cmd) : (canon cs).isEmpty = cs.isEmpty := by
  cases cs <;> rfl

/-- **`PsbtMapWF.insSame`**: the re-parsed transaction has the same outpoints and scriptSig emptiness -/
theorem codec_ins_same (t : Tx) : (psbtCodec hash256 fin).ins (coreTx t) = (psbtCodec hash256 fin).ins t := by
  simp only [psbtCodec, coreTx, List.map_map]
  apply List.map_congr_left
  intro i _
  simp [stripIn, canonIn, canonScript, canon_isEmpty]

/-- **`PsbtMapWF.outsSame`**: … and the same outputs when the output scripts are canonical (no `raw`
    attribute, no empty data element: what a parsed or API-built transaction has) -/
theorem codec_outs_same (t : Tx) (hc : ∀ o ∈ t.outs, canonScript o.scriptPubkey = o.scriptPubkey) :
    (psbtCodec hash256 fin).outs (coreTx t) = (psbtCodec hash256 fin).outs t := by
  simp only [psbtCodec, coreTx, List.map_map]
  apply List.map_congr_left
  intro o ho
  simp [canonOut, hc o ho]

/-- **`InMapWF.prevTx`** (serialise / re-parse law of a previous transaction): a well-formed transaction in
    canonical form serialises, and the bytes followed by anything parse back to exactly it -/
theorem codec_prev_tx (t : Tx) (wf : TxWF t) (hc : canonTx t = t) :
    ∃ b, (psbtCodec hash256 fin).serialize t = some b ∧
      ∀ rest, (psbtCodec hash256 fin).parse (b ++ rest) = some (t, rest) := by
  cases hs : t.segwit with
  | true =>
    obtain ⟨_, _, _, _, _, _, _, _, _, _, he⟩ := serializeSegwit_wf wf
    have h : t.serialize = some _ := (by simp [Tx.serialize, hs] : t.serialize = t.serializeSegwit).trans he
    exact ⟨_, h, fun rest => by have := parse_serialize rest wf h; rwa [hc] at this⟩
  | false =>
    obtain ⟨_, _, _, _, _, _, _, _, he⟩ := serializeLegacy_wf wf
    have h : t.serialize = some _ := (by simp [Tx.serialize, hs] : t.serialize = t.serializeLegacy).trans he
    exact ⟨_, h, fun rest => by have := parse_serialize rest wf h; rwa [hc] at this⟩

/-- the spent output is there -/
theorem codec_outs_getElem (t : Tx) (idx : Nat) (o : TxOut) (h : t.outs[idx]? = some o) :
    ((psbtCodec hash256 fin).outs t)[idx]? = some { amount := o.amount, spk := o.scriptPubkey } := by
  simp [psbtCodec, h]

/-- `C.hash` is the transaction id of C04 (so that C11's "prev_tx hash matches the outpoint" is about the
    witness-stripped double-SHA256) -/
theorem codec_hash (t : Tx) : (psbtCodec hash256 fin).hash t = t.hash hash256 := rfl

/-- assembled: `GlobalWF` for the concrete codec from the C04 well-formedness of the unsigned transaction -/
theorem globalWF_of_txWF (O : Oracles) (n : Net) (p : Psbt Tx) (wf : TxWF p.tx)
    (hdNodup : DNodup p.hdPubs) (hd : ∀ e ∈ p.hdPubs, e.1 = e.2.raw ∧ HdWF O n e.2)
    (extra : ExtraWF unknownGlobalKey p.extra) :
    GlobalWF (psbtCodec hash256 fin) O n p (coreTx p.tx) :=
  ⟨codec_global_tx hash256 fin p.tx wf, hdNodup, hd, extra⟩


/-- **`InMapWF.prevTx` for a transaction that came out of the parser** (the non-witness UTXO of a parsed
    PSBT): whatever bytes it was parsed from, if it is `Reenc` it serialises and re-parses to exactly itself -/
theorem codec_prev_tx_parsed (s r : Bytes) (t : Tx) (h : (psbtCodec hash256 fin).parse s = some (t, r)) (hr : Reenc t) :
    ∃ b, (psbtCodec hash256 fin).serialize t = some b ∧
      ∀ rest, (psbtCodec hash256 fin).parse (b ++ rest) = some (t, rest) :=
  parsedTx_fix t (parse_inv h).1 hr

/-- … and for the unsigned transaction, which PSBT reads with `parse_legacy` -/
theorem codec_global_tx_parsed (s r : Bytes) (t : Tx) (h : (psbtCodec hash256 fin).parseLegacy s = some (t, r))
    (hr : Reenc t) :
    ∃ b, (psbtCodec hash256 fin).serialize t = some b ∧
      ∀ rest, (psbtCodec hash256 fin).parse (b ++ rest) = some (t, rest) :=
  parsedTx_fix t (parseLegacy_inv h).1 hr

end Buidl.Tx
