/-
  Buidl.Proofs.Mnemonic — helper lemmas for C14: `str.split`/`" ".join`, word-table lookup, the
  11-bit digit arithmetic of bytes_to_mnemonic / mnemonic_to_bytes, and the table facts
  (`decide +kernel` over the generated BIP39 list).
-/
import Buidl.Proofs.WordTable
import Buidl.Proofs.PBKDF2
import Buidl.Proofs.Bytes
import Mathlib.Tactic.Ring
import Mathlib.Tactic.NormNum
namespace Buidl.Mnemonic
open Buidl

/-! ## split / join -/

theorem splitAux_word (w : PyStr) (hw : ∀ c ∈ w, isSpace c = false) (rest cur : PyStr) :
    splitAux (w ++ rest) cur = splitAux rest (w.reverse ++ cur) := by
  induction w generalizing cur with
  | nil => simp
  | cons c w ih =>
    have hc : isSpace c = false := hw c (by simp)
    simp only [List.cons_append, splitAux, hc, Bool.false_eq_true, if_false]
    rw [ih (fun d hd => hw d (by simp [hd]))]
    simp

/-- a word that survives `split()` unchanged: non-empty, no whitespace -/
def IsWord (w : PyStr) : Prop := w ≠ [] ∧ ∀ c ∈ w, isSpace c = false

theorem pySplit_pyJoin (ws : List PyStr) (h : ∀ w ∈ ws, IsWord w) : pySplit (pyJoin ws) = ws := by
  unfold pySplit
  induction ws with
  | nil => simp [pyJoin, splitAux]
  | cons w r ih =>
    obtain ⟨hne, hsp⟩ := h w (by simp)
    have hrev : w.reverse.isEmpty = false := by
      cases w with
      | nil => exact absurd rfl hne
      | cons a t => simp
    cases r with
    | nil =>
      have := splitAux_word w hsp [] []
      simp only [List.append_nil] at this
      simp [pyJoin, this, splitAux, hrev]
    | cons w' r' =>
      have := splitAux_word w hsp (32 :: pyJoin (w' :: r')) []
      simp only [List.append_nil] at this
      have h32 : isSpace 32 = true := by decide
      have hj : pyJoin (w :: w' :: r') = w ++ 32 :: pyJoin (w' :: r') := rfl
      rw [hj, this, splitAux, if_pos h32, hrev]
      simp only [Bool.false_eq_true, if_false, List.reverse_reverse]
      rw [ih (fun x hx => h x (by simp [hx]))]

/-! ## WordList.lookup -/

theorem lookupAux_acc (key : PyStr) (ws : List PyStr) :
    ∀ (s a : Nat), ∃ x, lookupAux key ws s (some a) = some x := by
  induction ws with
  | nil => intro s a; exact ⟨a, rfl⟩
  | cons w r ih =>
    intro s a
    rw [lookupAux]
    by_cases hm : matchesKey w key = true
    · rw [if_pos hm]; exact ih _ _
    · rw [if_neg hm]; exact ih _ _

theorem lookupAux_sound (key : PyStr) (ws : List PyStr) :
    ∀ (s : Nat) (acc : Option Nat) (i : Nat), lookupAux key ws s acc = some i →
      acc = some i ∨ ∃ j, j < ws.length ∧ i = s + j ∧ matchesKey (ws.getD j []) key = true := by
  induction ws with
  | nil => intro s acc i h; left; simpa [lookupAux] using h
  | cons w r ih =>
    intro s acc i h
    rw [lookupAux] at h
    rcases ih _ _ _ h with h1 | ⟨j, hj, hi, hm⟩
    · by_cases hm : matchesKey w key = true
      · rw [if_pos hm] at h1
        right; refine ⟨0, by simp, ?_, by simpa using hm⟩
        simp only [Option.some.injEq] at h1; omega
      · rw [if_neg hm] at h1; left; exact h1
    · right; exact ⟨j + 1, by simp [hj], by omega, by simpa using hm⟩

theorem lookupAux_complete (key : PyStr) (ws : List PyStr) :
    ∀ (s : Nat) (acc : Option Nat) (j : Nat), j < ws.length → matchesKey (ws.getD j []) key = true →
      ∃ i, lookupAux key ws s acc = some i := by
  induction ws with
  | nil => intro s acc j hj; simp at hj
  | cons w r ih =>
    intro s acc j hj hm
    rw [lookupAux]
    cases j with
    | zero =>
      have : matchesKey w key = true := by simpa using hm
      rw [if_pos this]; exact lookupAux_acc key r _ _
    | succ j => exact ih _ _ j (by simpa using hj) (by simpa using hm)

/-- unique keys: a key is stored for at most one index -/
def KeysUnique (ws : List PyStr) : Prop :=
  ∀ i j key, i < ws.length → j < ws.length →
    matchesKey (ws.getD i []) key = true → matchesKey (ws.getD j []) key = true → i = j

theorem lookup_some (wl : WordList) (i : Nat) (key : PyStr) (h : wl.lookup key = some i) :
    i < wl.words.length ∧ matchesKey (wl.words.getD i []) key = true := by
  rcases lookupAux_sound key wl.words 0 none i h with h1 | ⟨j, hj, hi, hm⟩
  · cases h1
  · have : i = j := by omega
    subst this; exact ⟨hj, hm⟩

theorem lookup_of_match (wl : WordList) (hu : KeysUnique wl.words) (i : Nat) (key : PyStr)
    (hi : i < wl.words.length) (hm : matchesKey (wl.words.getD i []) key = true) :
    wl.lookup key = some i := by
  obtain ⟨x, hx⟩ := lookupAux_complete key wl.words 0 none i hi hm
  obtain ⟨hxl, hxm⟩ := lookup_some wl x key hx
  rw [WordList.lookup, hx, hu x i key hxl hi hxm hm]

/-- `WordList[key]` is defined exactly for the stored keys (words and four-letter prefixes of longer
    words) and returns the index of the word -/
theorem lookup_iff (wl : WordList) (hu : KeysUnique wl.words) (i : Nat) (key : PyStr) :
    wl.lookup key = some i ↔ i < wl.words.length ∧ matchesKey (wl.words.getD i []) key = true :=
  ⟨lookup_some wl i key, fun ⟨h1, h2⟩ => lookup_of_match wl hu i key h1 h2⟩

theorem lookup_none_iff (wl : WordList) (key : PyStr) :
    wl.lookup key = none ↔ ∀ i, i < wl.words.length → matchesKey (wl.words.getD i []) key = false := by
  constructor
  · intro h i hi
    cases hm : matchesKey (wl.words.getD i []) key with
    | false => rfl
    | true =>
      obtain ⟨x, hx⟩ := lookupAux_complete key wl.words 0 none i hi hm
      rw [WordList.lookup] at h; rw [h] at hx; cases hx
  · intro h
    cases hl : wl.lookup key with
    | none => rfl
    | some i =>
      obtain ⟨h1, h2⟩ := lookup_some wl i key hl
      rw [h i h1] at h2; cases h2

theorem matchesKey_self (w : PyStr) : matchesKey w w = true := by simp [matchesKey]

/-! ## 11-bit digits -/

/-- the `n` low base-2048 digits of `N`, most significant first -/
def digitsBE : Nat → Nat → List Nat
  | 0, _ => []
  | n + 1, N => digitsBE n (N / 2048) ++ [N % 2048]

/-- positional value of base-2048 digits, most significant first -/
def ofDigits (acc : Nat) (ds : List Nat) : Nat := ds.foldl (fun a d => a * 2048 + d) acc

theorem digitsBE_length (n N : Nat) : (digitsBE n N).length = n := by
  induction n generalizing N with
  | zero => rfl
  | succ n ih => simp [digitsBE, ih]

theorem digitsBE_lt (n N : Nat) : ∀ d ∈ digitsBE n N, d < 2048 := by
  induction n generalizing N with
  | zero => simp [digitsBE]
  | succ n ih =>
    intro d hd
    simp only [digitsBE, List.mem_append, List.mem_singleton] at hd
    rcases hd with h | h
    · exact ih _ d h
    · subst h; exact Nat.mod_lt _ (by decide)

/-- the `i`-th digit (from the most significant) is the `i`-th 11-bit group -/
theorem digitsBE_getElem (n N i : Nat) (hi : i < n) :
    (digitsBE n N)[i]? = some (N / 2048 ^ (n - 1 - i) % 2048) := by
  induction n generalizing N i with
  | zero => omega
  | succ n ih =>
    simp only [digitsBE]
    by_cases h : i < n
    · rw [List.getElem?_append_left (by rw [digitsBE_length]; exact h), ih _ _ h]
      have e : n + 1 - 1 - i = (n - 1 - i) + 1 := by omega
      rw [e, Nat.pow_succ', Nat.div_div_eq_div_mul]
    · have e : i = n := by omega
      subst e
      rw [List.getElem?_append_right (by rw [digitsBE_length]), digitsBE_length]
      simp

theorem ofDigits_append (acc : Nat) (a b : List Nat) : ofDigits acc (a ++ b) = ofDigits (ofDigits acc a) b := by
  simp [ofDigits, List.foldl_append]

theorem ofDigits_digitsBE (n acc N : Nat) : ofDigits acc (digitsBE n N) = acc * 2048 ^ n + N % 2048 ^ n := by
  induction n generalizing N with
  | zero => simp [digitsBE, ofDigits, Nat.mod_one]
  | succ n ih =>
    rw [digitsBE, ofDigits_append, ih]
    simp only [ofDigits, List.foldl_cons, List.foldl_nil]
    rw [Nat.pow_succ', Nat.mod_mul]
    ring

theorem and_mask (N k : Nat) : N &&& ((1 <<< k) - 1) = N % 2 ^ k := by
  rw [Nat.one_shiftLeft, Nat.and_two_pow_sub_one_eq_mod]

theorem bitsToWords_eq (wl : WordList) (hl : wl.words.length = 2048) :
    ∀ (n N : Nat) (acc : List PyStr),
      bitsToWords wl n N acc = some ((digitsBE n N).map (fun d => wl.words.getD d []) ++ acc) := by
  intro n
  induction n with
  | zero => intro N acc; simp [bitsToWords, digitsBE]
  | succ n ih =>
    intro N acc
    have hlt : N % 2048 < wl.words.length := by rw [hl]; exact Nat.mod_lt _ (by decide)
    have hw : wl.word (N &&& ((1 <<< Gen.b2mWordBits2) - 1)) = some (wl.words.getD (N % 2048) []) := by
      rw [and_mask]
      show wl.words[N % 2048]? = _
      rw [List.getD_eq_getElem?_getD, List.getElem?_eq_getElem hlt]; rfl
    rw [bitsToWords, hw]
    simp only
    rw [ih, Nat.shiftRight_eq_div_pow]
    have e : (2 : Nat) ^ Gen.b2mWordBits3 = 2048 := by decide
    simp [digitsBE, e]

theorem wordsToBits_eq (wl : WordList) (ws : List PyStr) :
    ∀ acc, wordsToBits wl ws acc = (lookupAll wl ws).map (ofDigits acc) := by
  induction ws with
  | nil => intro acc; simp [wordsToBits, lookupAll, ofDigits]
  | cons w r ih =>
    intro acc
    rw [wordsToBits, lookupAll]
    cases hw : wl.lookup w with
    | none => simp
    | some i =>
      simp only
      rw [ih]
      cases lookupAll wl r with
      | none => simp
      | some is =>
        have e : (2 : Nat) ^ Gen.m2bWordBits = 2048 := by decide
        simp [ofDigits, Nat.shiftLeft_eq, e]

theorem lookupAll_map_words (wl : WordList) (hu : KeysUnique wl.words) (ds : List Nat)
    (hd : ∀ d ∈ ds, d < wl.words.length) :
    lookupAll wl (ds.map fun d => wl.words.getD d []) = some ds := by
  induction ds with
  | nil => rfl
  | cons d r ih =>
    simp only [List.map_cons, lookupAll]
    rw [lookup_of_match wl hu d _ (hd d (by simp)) (matchesKey_self _), ih (fun x hx => hd x (by simp [hx]))]

/-! ## entropy → words → entropy -/

/-- arithmetic side conditions of one BIP39 size: `L` entropy bytes, `cs` checksum bits, `nw` words;
    all read off the extracted constants -/
structure SizeOK (L cs nw : Nat) : Prop where
  hbits : Gen.b2mNumBits.contains (8 * L) = true
  hcs : 8 * L / Gen.b2mCsDiv = cs
  hcs8 : cs ≤ 8
  hnw : (8 * L + cs) / Gen.b2mWordBits = nw
  hsum : 8 * L + cs = 11 * nw
  hcnt : Gen.m2bWordCounts.contains nw = true
  hcs' : nw / Gen.m2bCsDiv = cs
  hnb : (nw * Gen.m2bWordBits2 - cs) / Gen.m2bByteBits = L

theorem sizeOK_16 : SizeOK 16 4 12 := by constructor <;> decide
theorem sizeOK_20 : SizeOK 20 5 15 := by constructor <;> decide
theorem sizeOK_24 : SizeOK 24 6 18 := by constructor <;> decide
theorem sizeOK_28 : SizeOK 28 7 21 := by constructor <;> decide
theorem sizeOK_32 : SizeOK 32 8 24 := by constructor <;> decide

theorem sizeOK_of_length (L : Nat) (h : L = 16 ∨ L = 20 ∨ L = 24 ∨ L = 28 ∨ L = 32) :
    ∃ cs nw, SizeOK L cs nw := by
  rcases h with h | h | h | h | h <;> subst h
  · exact ⟨_, _, sizeOK_16⟩
  · exact ⟨_, _, sizeOK_20⟩
  · exact ⟨_, _, sizeOK_24⟩
  · exact ⟨_, _, sizeOK_28⟩
  · exact ⟨_, _, sizeOK_32⟩

theorem checksum_lt (h0 : UInt8) (cs : Nat) (hcs : cs ≤ 8) : h0.toNat / 2 ^ (8 - cs) < 2 ^ cs := by
  apply Nat.div_lt_of_lt_mul
  have : 2 ^ (8 - cs) * 2 ^ cs = 256 := by rw [← Nat.pow_add, Nat.sub_add_cancel hcs]
  rw [this]; exact h0.toNat_lt

/-- the number whose 11-bit groups are the words: entropy ‖ first `cs` bits of the digest's first byte -/
def allBitsOf (e : Bytes) (h0 : UInt8) (cs : Nat) : Nat := beToNat e * 2 ^ cs + h0.toNat / 2 ^ (8 - cs)

theorem bytesToWords_eq (sha256 : Bytes → Bytes) (wl : WordList) (hl : wl.words.length = 2048)
    (e : Bytes) (cs nw : Nat) (ok : SizeOK e.length cs nw) (h0 : UInt8) (t : Bytes)
    (hs : sha256 e = h0 :: t) :
    bytesToWords sha256 wl e (8 * e.length)
      = some ((digitsBE nw (allBitsOf e h0 cs)).map fun d => wl.words.getD d []) := by
  have hc8 : ¬ cs > Gen.b2mCsFrom := by have := ok.hcs8; show ¬ cs > 8; omega
  unfold bytesToWords
  simp only [ok.hbits, Bool.not_true, Bool.false_eq_true, if_false, hs, ok.hcs, hc8, ok.hnw]
  rw [bitsToWords_eq wl hl]
  simp only [List.append_nil, allBitsOf]
  rw [Nat.shiftRight_eq_div_pow, ← Nat.shiftLeft_add_eq_or_of_lt (checksum_lt h0 cs ok.hcs8),
    Nat.shiftLeft_eq]

theorem ofDigits_lt (ds : List Nat) (hd : ∀ d ∈ ds, d < 2048) : ∀ acc, ofDigits acc ds < (acc + 1) * 2048 ^ ds.length := by
  induction ds with
  | nil => intro acc; simp [ofDigits]
  | cons d r ih =>
    intro acc
    have h1 := ih (fun x hx => hd x (by simp [hx])) (acc * 2048 + d)
    have h2 : d < 2048 := hd d (by simp)
    simp only [ofDigits, List.foldl_cons, List.length_cons] at *
    calc _ < (acc * 2048 + d + 1) * 2048 ^ r.length := h1
      _ ≤ ((acc + 1) * 2048) * 2048 ^ r.length := Nat.mul_le_mul_right _ (by omega)
      _ = (acc + 1) * 2048 ^ (r.length + 1) := by rw [Nat.pow_succ']; ring

theorem pow_split (L cs nw : Nat) (h : 8 * L + cs = 11 * nw) : (2048 : Nat) ^ nw = 256 ^ L * 2 ^ cs := by
  have h1 : (2048 : Nat) = 2 ^ 11 := by norm_num
  have h2 : (256 : Nat) = 2 ^ 8 := by norm_num
  rw [h1, h2, ← Nat.pow_mul, ← Nat.pow_mul, ← Nat.pow_add, h]

theorem natToBE_beToNat (b : Bytes) : natToBE (beToNat b) b.length = some b := by
  have hlt : beToNat b < 256 ^ b.length := by
    have := leToNat_lt b.reverse
    rwa [← beToNat_reverse, List.reverse_reverse, List.length_reverse] at this
  simp only [natToBE, hlt, if_true]
  rw [natToBE'_beToNat]

theorem beToNat_lt (b : Bytes) : beToNat b < 256 ^ b.length := by
  have := leToNat_lt b.reverse
  rwa [← beToNat_reverse, List.reverse_reverse, List.length_reverse] at this

/-- decoding a word list whose indices are `idx` -/
theorem wordsToBytes_of_indices (sha256 : Bytes → Bytes) (wl : WordList) (ws : List PyStr) (idx : List Nat)
    (hidx : lookupAll wl ws = some idx) (L cs : Nat) (ok : SizeOK L cs ws.length) :
    wordsToBytes sha256 wl ws =
      match natToBE (ofDigits 0 idx / 2 ^ cs) L with
      | none => none
      | some s =>
        match sha256 s with
        | [] => none
        | h0 :: _ => if ofDigits 0 idx % 2 ^ cs != h0.toNat / 2 ^ (8 - cs) then none else some s := by
  have hc8 : ¬ cs > Gen.m2bCsFrom := by have := ok.hcs8; show ¬ cs > 8; omega
  unfold wordsToBytes
  simp only [ok.hcnt, Bool.not_true, Bool.false_eq_true, if_false, wordsToBits_eq, hidx, Option.map_some,
    ok.hcs', ok.hnb, and_mask, Nat.shiftRight_eq_div_pow, hc8]
  rfl

theorem lookupAll_length (wl : WordList) : ∀ (ws : List PyStr) (idx : List Nat),
    lookupAll wl ws = some idx → idx.length = ws.length := by
  intro ws
  induction ws with
  | nil => intro idx h; simp [lookupAll] at h; subst h; rfl
  | cons w r ih =>
    intro idx h
    rw [lookupAll] at h
    cases hw : wl.lookup w with
    | none => rw [hw] at h; cases h
    | some i =>
      cases hr : lookupAll wl r with
      | none => rw [hw, hr] at h; cases h
      | some is =>
        rw [hw, hr] at h
        simp only [Option.some.injEq] at h
        subst h; simp [ih is hr]

theorem lookupAll_lt (wl : WordList) : ∀ (ws : List PyStr) (idx : List Nat),
    lookupAll wl ws = some idx → ∀ d ∈ idx, d < wl.words.length := by
  intro ws
  induction ws with
  | nil => intro idx h; simp [lookupAll] at h; subst h; simp
  | cons w r ih =>
    intro idx h
    rw [lookupAll] at h
    cases hw : wl.lookup w with
    | none => rw [hw] at h; cases h
    | some i =>
      cases hr : lookupAll wl r with
      | none => rw [hw, hr] at h; cases h
      | some is =>
        rw [hw, hr] at h
        simp only [Option.some.injEq] at h
        subst h
        intro d hd
        simp only [List.mem_cons] at hd
        rcases hd with hd | hd
        · subst hd; exact (lookup_some wl _ w hw).1
        · exact ih is hr d hd

/-- mnemonic_to_bytes ∘ bytes_to_mnemonic on word lists -/
theorem wordsToBytes_bytesToWords (sha256 : Bytes → Bytes) (wl : WordList) (hl : wl.words.length = 2048)
    (hu : KeysUnique wl.words) (e : Bytes) (cs nw : Nat) (ok : SizeOK e.length cs nw)
    (hne : sha256 e ≠ []) :
    ∃ ws, bytesToWords sha256 wl e (8 * e.length) = some ws ∧ ws.length = nw ∧
      wordsToBytes sha256 wl ws = some e := by
  obtain ⟨h0, t, hs⟩ : ∃ h0 t, sha256 e = h0 :: t := by
    cases h : sha256 e with
    | nil => exact absurd h hne
    | cons a b => exact ⟨a, b, rfl⟩
  refine ⟨_, bytesToWords_eq sha256 wl hl e cs nw ok h0 t hs, by simp [digitsBE_length], ?_⟩
  have hlen : ((digitsBE nw (allBitsOf e h0 cs)).map fun d => wl.words.getD d []).length = nw := by
    simp [digitsBE_length]
  have hidx := lookupAll_map_words wl hu (digitsBE nw (allBitsOf e h0 cs))
    (fun d hd => by rw [hl]; exact digitsBE_lt _ _ d hd)
  rw [wordsToBytes_of_indices sha256 wl _ _ hidx e.length cs (by rw [hlen]; exact ok)]
  have hc := checksum_lt h0 cs ok.hcs8
  have hN : allBitsOf e h0 cs < 2048 ^ nw := by
    rw [pow_split e.length cs nw ok.hsum]
    unfold allBitsOf
    have := beToNat_lt e
    calc _ < beToNat e * 2 ^ cs + 2 ^ cs := by omega
      _ = (beToNat e + 1) * 2 ^ cs := by ring
      _ ≤ 256 ^ e.length * 2 ^ cs := Nat.mul_le_mul_right _ this
  rw [ofDigits_digitsBE, Nat.zero_mul, Nat.zero_add, Nat.mod_eq_of_lt hN]
  have hpos : 0 < 2 ^ cs := Nat.pow_pos (by decide)
  have hdiv : allBitsOf e h0 cs / 2 ^ cs = beToNat e := by
    unfold allBitsOf
    rw [Nat.mul_comm, Nat.mul_add_div hpos, Nat.div_eq_of_lt hc, Nat.add_zero]
  have hmod : allBitsOf e h0 cs % 2 ^ cs = h0.toNat / 2 ^ (8 - cs) := by
    unfold allBitsOf
    rw [Nat.mul_comm, Nat.mul_add_mod, Nat.mod_eq_of_lt hc]
  rw [hdiv, natToBE_beToNat]
  simp only [hs, hmod, bne_self_eq_false, Bool.false_eq_true, if_false]

/-! ## table facts -/

theorem matchesKey_iff (w key : PyStr) : matchesKey w key = true ↔ key ∈ keysOf w := by
  unfold matchesKey keysOf
  generalize cmpOp Gen.wlPrefixOp w.length Gen.wlPrefixOver = b
  cases b
  · simp only [Bool.false_and, Bool.or_false, beq_iff_eq, Bool.false_eq_true, if_false, List.mem_singleton]
    exact eq_comm
  · simp only [Bool.true_and, Bool.or_eq_true, beq_iff_eq, if_true, List.mem_cons, List.not_mem_nil, or_false]
    constructor
    · rintro (h | h)
      · right; exact h.symm
      · left; exact h.symm
    · rintro (h | h)
      · right; exact h.symm
      · left; exact h.symm

theorem increasingFrom_pairwise : ∀ (l : List Nat) (p : Nat), increasingFrom p l = true →
    (∀ x ∈ l, p < x) ∧ l.Pairwise (· < ·) := by
  intro l
  induction l with
  | nil => intro p _; simp
  | cons a r ih =>
    intro p h
    simp only [increasingFrom, Bool.and_eq_true, decide_eq_true_eq] at h
    obtain ⟨h1, h2⟩ := ih a h.2
    refine ⟨?_, List.pairwise_cons.mpr ⟨h1, h2⟩⟩
    intro x hx
    simp only [List.mem_cons] at hx
    rcases hx with hx | hx
    · subst hx; exact h.1
    · exact Nat.lt_trans h.1 (h1 x hx)

theorem increasing_pairwise (l : List Nat) (h : increasing l = true) : l.Pairwise (· < ·) := by
  cases l with
  | nil => simp
  | cons a r =>
    obtain ⟨h1, h2⟩ := increasingFrom_pairwise r a h
    exact List.pairwise_cons.mpr ⟨h1, h2⟩

theorem keysUnique_of_tableOK (ws : List PyStr) (h : tableOK ws = true) : KeysUnique ws := by
  simp only [tableOK, Bool.and_eq_true] at h
  have hp := increasing_pairwise _ h.1
  rw [List.pairwise_map, List.pairwise_flatMap] at hp
  have hpw := hp.2
  rw [List.pairwise_iff_getElem] at hpw
  have key : ∀ i j k, i < j → (hj : j < ws.length) →
      matchesKey (ws.getD i []) k = true → matchesKey (ws.getD j []) k = true → False := by
    intro i j k hij hj hmi hmj
    have hi : i < ws.length := by omega
    have hgi : ws.getD i [] = ws[i] := by
      rw [List.getD_eq_getElem?_getD, List.getElem?_eq_getElem hi]; rfl
    have hgj : ws.getD j [] = ws[j] := by
      rw [List.getD_eq_getElem?_getD, List.getElem?_eq_getElem hj]; rfl
    rw [hgi, matchesKey_iff] at hmi
    rw [hgj, matchesKey_iff] at hmj
    exact Nat.lt_irrefl _ (hpw i j hi hj hij k hmi k hmj)
  intro i j k hi hj hmi hmj
  rcases Nat.lt_trichotomy i j with hlt | heq | hgt
  · exact absurd (key i j k hlt hj hmi hmj) id
  · exact heq
  · exact absurd (key j i k hgt hi hmj hmi) id

theorem mem_keysOf_self (w : PyStr) : w ∈ keysOf w := by
  unfold keysOf
  split <;> simp

/-- the words themselves are strictly increasing under `encKey` (for words of at most eight code points
    below 2^21 this is the lexicographic order of the file) -/
theorem words_increasing_of_tableOK (ws : List PyStr) (h : tableOK ws = true) :
    ws.Pairwise (fun a b => encKey a < encKey b) := by
  simp only [tableOK, Bool.and_eq_true] at h
  have hp := increasing_pairwise _ h.1
  rw [List.pairwise_map, List.pairwise_flatMap] at hp
  exact hp.2.imp (fun hab => hab _ (mem_keysOf_self _) _ (mem_keysOf_self _))

theorem lowerWord_isWord (w : PyStr) (h : lowerWord w = true) :
    IsWord w ∧ asciiLower w = w ∧ ∀ c ∈ w, 97 ≤ c ∧ c ≤ 122 := by
  simp only [lowerWord, Bool.and_eq_true, Bool.not_eq_true', List.all_eq_true, decide_eq_true_eq] at h
  obtain ⟨hne, hall⟩ := h
  refine ⟨⟨?_, ?_⟩, ?_, hall⟩
  · intro hw; subst hw; simp at hne
  · intro c hc
    obtain ⟨h1, h2⟩ := hall c hc
    simp only [isSpace, Bool.or_eq_false_iff, Bool.and_eq_false_iff, decide_eq_false_iff_not, beq_eq_false_iff_ne]
    omega
  · unfold asciiLower
    conv => rhs; rw [← List.map_id w]
    apply List.map_congr_left
    intro c hc
    obtain ⟨h1, h2⟩ := hall c hc
    have : ¬ (65 ≤ c ∧ c ≤ 90) := by omega
    simp [this]

theorem tableOK_words (ws : List PyStr) (h : tableOK ws = true) : ∀ w ∈ ws, lowerWord w = true := by
  simp only [tableOK, Bool.and_eq_true, List.all_eq_true] at h
  exact h.2

/-- `len(word) > 4` with the extracted operator and bound -/
theorem cmpPrefix (n : Nat) : cmpOp Gen.wlPrefixOp n Gen.wlPrefixOver = decide (n > 4) := by
  simp [cmpOp, Gen.wlPrefixOp]

/-- a key is stored for a word iff it is the word itself or, for a word of more than four letters, its first four -/
theorem matchesKey_eq (w key : PyStr) :
    matchesKey w key = true ↔ w = key ∨ (w.length > 4 ∧ w.take 4 = key) := by
  unfold matchesKey
  rw [cmpPrefix]
  simp

/-- facts about a loaded table, from the kernel-checked `checkWL` -/
structure TableOK (n : Nat) (wl : WordList) : Prop where
  hlen : wl.words.length = n
  huniq : KeysUnique wl.words
  hlower : ∀ w ∈ wl.words, lowerWord w = true
  hsorted : wl.words.Pairwise (fun a b => encKey a < encKey b)

theorem tableOK_of_check (n : Nat) (o : Option WordList) (h : checkWL n o = true) :
    ∃ wl, o = some wl ∧ TableOK n wl := by
  cases o with
  | none => simp [checkWL] at h
  | some wl =>
    simp only [checkWL, Bool.and_eq_true, beq_iff_eq] at h
    exact ⟨wl, rfl, h.1, keysUnique_of_tableOK _ h.2, tableOK_words _ h.2, words_increasing_of_tableOK _ h.2⟩

theorem bip39_table : ∃ wl, BIP39? = some wl ∧ TableOK 2048 wl := tableOK_of_check _ _ bip39_check

theorem slip39_table : ∃ wl, Buidl.Shamir.SLIP39? = some wl ∧ TableOK 1024 wl :=
  tableOK_of_check _ _ slip39_check

theorem getD_mem (ws : List PyStr) (d : Nat) (hd : d < ws.length) : ws.getD d [] ∈ ws := by
  rw [List.getD_eq_getElem?_getD, List.getElem?_eq_getElem hd]
  exact List.getElem_mem hd

/-! ## strings: mnemonic_to_bytes (bytes_to_mnemonic e) = e -/

theorem mnemonic_roundtrip (sha256 : Bytes → Bytes) (wl : WordList) (tok : TableOK 2048 wl)
    (e : Bytes) (cs nw : Nat) (ok : SizeOK e.length cs nw) (hne : sha256 e ≠ []) :
    ∃ m, bytesToMnemonic sha256 wl e (8 * e.length) = some m ∧ mnemonicToBytes sha256 wl m = some e := by
  obtain ⟨ws, h1, _, h3⟩ := wordsToBytes_bytesToWords sha256 wl tok.hlen tok.huniq e cs nw ok hne
  refine ⟨pyJoin ws, by simp [bytesToMnemonic, h1], ?_⟩
  unfold mnemonicToBytes
  rw [pySplit_pyJoin ws, h3]
  -- every produced word is a table word
  obtain ⟨h0, t, hs⟩ : ∃ h0 t, sha256 e = h0 :: t := by
    cases h : sha256 e with
    | nil => exact absurd h hne
    | cons a b => exact ⟨a, b, rfl⟩
  rw [bytesToWords_eq sha256 wl tok.hlen e cs nw ok h0 t hs] at h1
  simp only [Option.some.injEq] at h1
  subst h1
  intro w hw
  simp only [List.mem_map] at hw
  obtain ⟨d, hd, rfl⟩ := hw
  have hdl : d < wl.words.length := by rw [tok.hlen]; exact digitsBE_lt _ _ d hd
  exact (lowerWord_isWord _ (tok.hlower _ (getD_mem _ _ hdl))).1

/-! ## acceptance -/

theorem lookupAll_iff (wl : WordList) : ∀ (ws : List PyStr) (idx : List Nat),
    lookupAll wl ws = some idx ↔ List.Forall₂ (fun w i => wl.lookup w = some i) ws idx := by
  intro ws
  induction ws with
  | nil =>
    intro idx
    constructor
    · intro h; simp [lookupAll] at h; subst h; exact List.Forall₂.nil
    · intro h; cases h; rfl
  | cons w r ih =>
    intro idx
    constructor
    · intro h
      rw [lookupAll] at h
      cases hw : wl.lookup w with
      | none => rw [hw] at h; cases h
      | some i =>
        cases hr : lookupAll wl r with
        | none => rw [hw, hr] at h; cases h
        | some is =>
          rw [hw, hr] at h
          simp only [Option.some.injEq] at h
          subst h
          exact List.Forall₂.cons hw ((ih is).mp hr)
    · intro h
      cases h with
      | cons h1 h2 => rw [lookupAll, h1, (ih _).mpr h2]

theorem natToBE_some' {n w : Nat} (h : n < 256 ^ w) : natToBE n w = some (natToBE' w n) := by
  simp [natToBE, h]

/-- mnemonic_to_bytes accepts exactly: valid length, every word a stored key, checksum bits equal -/
theorem wordsToBytes_iff (sha256 : Bytes → Bytes) (hne : ∀ b, sha256 b ≠ []) (wl : WordList)
    (hl : wl.words.length = 2048) (ws : List PyStr) (e : Bytes) :
    wordsToBytes sha256 wl ws = some e ↔
      (ws.length = 12 ∨ ws.length = 15 ∨ ws.length = 18 ∨ ws.length = 21 ∨ ws.length = 24) ∧
      ∃ idx, lookupAll wl ws = some idx ∧
        e = natToBE' ((11 * ws.length - ws.length / 3) / 8) (ofDigits 0 idx / 2 ^ (ws.length / 3)) ∧
        ∃ h0 t, sha256 e = h0 :: t ∧
          ofDigits 0 idx % 2 ^ (ws.length / 3) = h0.toNat / 2 ^ (8 - ws.length / 3) := by
  by_cases hlen : ws.length = 12 ∨ ws.length = 15 ∨ ws.length = 18 ∨ ws.length = 21 ∨ ws.length = 24
  · simp only [hlen, true_and]
    cases hidx : lookupAll wl ws with
    | none =>
      have : wordsToBytes sha256 wl ws = none := by
        unfold wordsToBytes
        simp [wordsToBits_eq, hidx]
      simp [this]
    | some idx =>
      obtain ⟨L, cs, ok, hL, hcs⟩ : ∃ L cs, SizeOK L cs ws.length ∧
          L = (11 * ws.length - ws.length / 3) / 8 ∧ cs = ws.length / 3 := by
        rcases hlen with h | h | h | h | h <;> rw [h]
        · exact ⟨_, _, sizeOK_16, by decide, by decide⟩
        · exact ⟨_, _, sizeOK_20, by decide, by decide⟩
        · exact ⟨_, _, sizeOK_24, by decide, by decide⟩
        · exact ⟨_, _, sizeOK_28, by decide, by decide⟩
        · exact ⟨_, _, sizeOK_32, by decide, by decide⟩
      rw [wordsToBytes_of_indices sha256 wl ws idx hidx L cs ok, ← hL, ← hcs]
      have hdl := lookupAll_lt wl ws idx hidx
      have hil := lookupAll_length wl ws idx hidx
      have hN : ofDigits 0 idx < 2048 ^ ws.length := by
        have := ofDigits_lt idx (fun d hd => by rw [← hl]; exact hdl d hd) 0
        simpa [hil] using this
      have hdiv : ofDigits 0 idx / 2 ^ cs < 256 ^ L := by
        rw [pow_split L cs ws.length ok.hsum] at hN
        exact Nat.div_lt_of_lt_mul (by rw [Nat.mul_comm]; exact hN)
      rw [natToBE_some' hdiv]
      simp only [Option.some.injEq, exists_eq_left']
      cases hs : sha256 (natToBE' L (ofDigits 0 idx / 2 ^ cs)) with
      | nil => exact absurd hs (hne _)
      | cons h0 t =>
        simp only
        constructor
        · intro h
          split at h
          · cases h
          · rename_i hc
            simp only [bne_iff_ne, ne_eq, not_not] at hc
            simp only [Option.some.injEq] at h
            subst h
            exact ⟨rfl, h0, t, hs, hc⟩
        · rintro ⟨rfl, h0', t', hs', hc⟩
          rw [hs] at hs'
          cases hs'
          simp [hc]
  · constructor
    · intro h
      exfalso
      unfold wordsToBytes at h
      have : Gen.m2bWordCounts.contains ws.length = false := by
        simp only [Gen.m2bWordCounts, List.contains_eq_mem, List.mem_cons, List.not_mem_nil, or_false,
          decide_eq_false_iff_not]
        exact hlen
      rw [this] at h
      simp at h
    · intro h; exact absurd h.1 hlen

/-! ## from_mnemonic: normalisation and the seed -/

theorem asciiLower_of_lower (w : PyStr) (h : ∀ c ∈ w, 97 ≤ c ∧ c ≤ 122) : asciiLower w = w := by
  unfold asciiLower
  conv => rhs; rw [← List.map_id w]
  apply List.map_congr_left
  intro c hc
  have := h c hc
  have h' : ¬ (65 ≤ c ∧ c ≤ 90) := by omega
  simp [h']

/-- a stored key consists of lower-case letters -/
theorem key_lower (wl : WordList) {n : Nat} (tok : TableOK n wl) (w : PyStr) (i : Nat)
    (h : wl.lookup w = some i) : ∀ c ∈ w, 97 ≤ c ∧ c ≤ 122 := by
  obtain ⟨hi, hm⟩ := lookup_some wl i w h
  have hlw := (lowerWord_isWord _ (tok.hlower _ (getD_mem _ _ hi))).2.2
  rcases (matchesKey_eq _ _).mp hm with h1 | ⟨_, h2⟩
  · rw [← h1]; exact hlw
  · intro c hc
    rw [← h2] at hc
    exact hlw c (List.mem_of_mem_take hc)

theorem normalize_eq (wl : WordList) {n : Nat} (tok : TableOK n wl) (w : PyStr) (i : Nat)
    (h : wl.lookup w = some i) : wl.normalize w = some (wl.words.getD i []) := by
  unfold WordList.normalize
  rw [asciiLower_of_lower w (key_lower wl tok w i h), h]
  have hi := (lookup_some wl i w h).1
  show wl.words[i]? = _
  rw [List.getD_eq_getElem?_getD, List.getElem?_eq_getElem hi]; rfl

theorem mapM_normalize (wl : WordList) {n : Nat} (tok : TableOK n wl) : ∀ (ws : List PyStr) (idx : List Nat),
    lookupAll wl ws = some idx → mapM? wl.normalize ws = some (idx.map fun i => wl.words.getD i []) := by
  intro ws
  induction ws with
  | nil => intro idx h; simp [lookupAll] at h; subst h; rfl
  | cons w r ih =>
    intro idx h
    rw [lookupAll] at h
    cases hw : wl.lookup w with
    | none => rw [hw] at h; cases h
    | some i =>
      cases hr : lookupAll wl r with
      | none => rw [hw, hr] at h; cases h
      | some is =>
        rw [hw, hr] at h
        simp only [Option.some.injEq] at h
        subst h
        simp [mapM?, normalize_eq wl tok w i hw, ih is hr]

theorem utf8Encode_ascii : ∀ (s : PyStr), (∀ c ∈ s, c < 128) → utf8Encode s = some (s.map UInt8.ofNat) := by
  intro s
  induction s with
  | nil => intro _; rfl
  | cons c r ih =>
    intro h
    have hc : c < 0x80 := h c (by simp)
    rw [utf8Encode, ih (fun x hx => h x (by simp [hx]))]
    simp [hc]

theorem pyJoin_mem : ∀ (ws : List PyStr) (c : Nat), c ∈ pyJoin ws → c = 32 ∨ ∃ w ∈ ws, c ∈ w := by
  intro ws
  induction ws with
  | nil => intro c h; simp [pyJoin] at h
  | cons w r ih =>
    intro c h
    cases r with
    | nil => right; exact ⟨w, by simp, by simpa [pyJoin] using h⟩
    | cons w' r' =>
      have hj : pyJoin (w :: w' :: r') = w ++ 32 :: pyJoin (w' :: r') := rfl
      rw [hj] at h
      simp only [List.mem_append, List.mem_cons] at h
      rcases h with h | h | h
      · right; exact ⟨w, by simp, h⟩
      · left; exact h
      · rcases ih c h with h1 | ⟨x, hx, hc⟩
        · left; exact h1
        · right; exact ⟨x, by simp [List.mem_cons] at hx ⊢; right; exact hx, hc⟩

theorem wordsToBytes_lookupAll (sha256 : Bytes → Bytes) (wl : WordList) (ws : List PyStr) (e : Bytes)
    (h : wordsToBytes sha256 wl ws = some e) : ∃ idx, lookupAll wl ws = some idx := by
  cases hidx : lookupAll wl ws with
  | some idx => exact ⟨idx, rfl⟩
  | none =>
    exfalso
    unfold wordsToBytes at h
    rw [wordsToBits_eq, hidx] at h
    split at h
    · cases h
    · simp at h

/-- the normalised mnemonic: the full words of the indices, single spaces, as ASCII bytes -/
def normalisedBytes (wl : WordList) (idx : List Nat) : Bytes :=
  (pyJoin (idx.map fun i => wl.words.getD i [])).map UInt8.ofNat

/-- `from_mnemonic` hands `from_seed` exactly
    PBKDF2-PRF(password = normalised words, salt = "mnemonic" ‖ passphrase, c = 2048, dkLen = 64) (RFC 2898) -/
theorem mnemonicToSeed_eq (sha256 : Bytes → Bytes) (prf : Bytes → Bytes → Bytes) (hLen : Nat)
    (hh : ∀ k m, (prf k m).length = hLen) (h0 : 0 < hLen) (wl : WordList) {n : Nat} (tok : TableOK n wl)
    (m : PyStr) (pw e : Bytes) (hacc : mnemonicToBytes sha256 wl m = some e) :
    ∃ idx, lookupAll wl (pySplit m) = some idx ∧
      mnemonicToSeed sha256 prf wl m pw
        = Spec.pbkdf2 prf hLen (normalisedBytes wl idx) (Gen.seedSaltPrefix ++ pw) 2048 64 := by
  obtain ⟨idx, hidx⟩ := wordsToBytes_lookupAll sha256 wl _ e hacc
  refine ⟨idx, hidx, ?_⟩
  unfold mnemonicToSeed
  rw [hacc]
  simp only [mapM_normalize wl tok _ idx hidx, hmacSha512Kdf]
  have hascii : ∀ c ∈ pyJoin (idx.map fun i => wl.words.getD i []), c < 128 := by
    intro c hc
    rcases pyJoin_mem _ c hc with h | ⟨w, hw, hcw⟩
    · omega
    · simp only [List.mem_map] at hw
      obtain ⟨i, hi, rfl⟩ := hw
      have hil := lookupAll_lt wl _ idx hidx i hi
      have := (lowerWord_isWord _ (tok.hlower _ (getD_mem _ _ hil))).2.2 c hcw
      omega
  rw [utf8Encode_ascii _ hascii]
  exact pbkdf2Vendored_eq prf hLen hh h0 _ _ Gen.kdfIterations (by decide) Gen.kdfReadLen

theorem mnemonicToSeed_reject (sha256 : Bytes → Bytes) (prf : Bytes → Bytes → Bytes) (wl : WordList)
    (m : PyStr) (pw : Bytes) (h : mnemonicToBytes sha256 wl m = none) :
    mnemonicToSeed sha256 prf wl m pw = none := by
  unfold mnemonicToSeed; rw [h]

/-! ## further facts about the modelled helpers -/

theorem splitAux_isWord : ∀ (s cur : PyStr), (∀ c ∈ cur, isSpace c = false) →
    ∀ w ∈ splitAux s cur, IsWord w := by
  intro s
  induction s with
  | nil =>
    intro cur hc w hw
    simp only [splitAux] at hw
    split at hw
    · simp at hw
    · rename_i hne
      simp only [List.mem_singleton] at hw
      subst hw
      refine ⟨?_, fun c hcm => hc c (List.mem_reverse.mp hcm)⟩
      intro h; apply hne; simpa using h
  | cons c r ih =>
    intro cur hc w hw
    simp only [splitAux] at hw
    by_cases hsp : isSpace c = true
    · rw [if_pos hsp] at hw
      split at hw
      · exact ih [] (by simp) w hw
      · rename_i hne
        simp only [List.mem_cons] at hw
        rcases hw with rfl | hw
        · refine ⟨?_, fun c hcm => hc c (List.mem_reverse.mp hcm)⟩
          intro h; apply hne; simpa using h
        · exact ih [] (by simp) w hw
    · rw [if_neg hsp] at hw
      refine ih (c :: cur) ?_ w hw
      intro d hd
      simp only [List.mem_cons] at hd
      rcases hd with rfl | hd
      · simpa using hsp
      · exact hc d hd

/-- `str.split()` returns non-empty fields free of whitespace -/
theorem pySplit_isWord (s : PyStr) : ∀ w ∈ pySplit s, IsWord w :=
  splitAux_isWord s [] (by simp)

theorem hexOf_length : ∀ (b : Bytes), (hexOf b).length = 2 * b.length := by
  intro b
  induction b with
  | nil => rfl
  | cons x r ih => simp only [hexOf, List.length_cons, ih]; omega

/-- once closed, every read raises and close does nothing -/
theorem run_closed (prf : Bytes → Bytes → Bytes) : ∀ (ops : List PbOp),
    PBKDF2.run prf none ops = ops.map fun op => if op = PbOp.close then PbOut.unit else PbOut.raised := by
  intro ops
  induction ops with
  | nil => rfl
  | cons op r ih => cases op <;> simp [PBKDF2.run, ih]

/-- a history of plain reads on one object is `reads` -/
theorem run_reads (prf : Bytes → Bytes → Bytes) : ∀ (ns : List Nat) (st : PBKDF2) (outs : List Bytes),
    PBKDF2.reads prf st ns = some outs → PBKDF2.run prf (some st) (ns.map PbOp.read) = outs.map PbOut.bytes := by
  intro ns
  induction ns with
  | nil => intro st outs h; simp only [PBKDF2.reads, Option.some.injEq] at h; subst h; rfl
  | cons n r ih =>
    intro st outs h
    rw [PBKDF2.reads] at h
    cases hr : st.read prf n with
    | none => rw [hr] at h; cases h
    | some p =>
      obtain ⟨b, st'⟩ := p
      rw [hr] at h
      simp only at h
      cases hrs : PBKDF2.reads prf st' r with
      | none => rw [hrs] at h; cases h
      | some os =>
        rw [hrs] at h
        simp only [Option.map_some, Option.some.injEq] at h
        subst h
        simp [PBKDF2.run, hr, ih st' os hrs]

end Buidl.Mnemonic
