/-
  Buidl.Proofs.Mnemonic — helper lemmas for C14: `str.split`/`" ".join`, word-table lookup, the
  11-bit digit arithmetic of bytes_to_mnemonic / mnemonic_to_bytes, and the table facts
  (`decide +kernel` over the generated BIP39 list).
-/
import Buidl.Model.Mnemonic
import Buidl.Proofs.Bytes
import Mathlib.Tactic.Ring
import Mathlib.Tactic.NormNum
namespace Buidl.Mnemonic
open Buidl

/-! ## split / join -/

theorem splitAux_word (w : PyStr) (hw : ∀ c ∈ w, isSpace c = false) (rest cur : PyStr) :
    splitAux (w ++ rest) cur = splitAux rest (w.reverse ++ cur) := by
  induction w generalizing cur with
  | nil => simp
  | cons c w ih =>
    have hc : isSpace c = false := hw c (by simp)
    simp only [List.cons_append, splitAux, hc, Bool.false_eq_true, if_false]
    rw [ih (fun d hd => hw d (by simp [hd]))]
    simp

/-- a word that survives `split()` unchanged: non-empty, no whitespace -/
def IsWord (w : PyStr) : Prop := w ≠ [] ∧ ∀ c ∈ w, isSpace c = false

theorem pySplit_pyJoin (ws : List PyStr) (h : ∀ w ∈ ws, IsWord w) : pySplit (pyJoin ws) = ws := by
  unfold pySplit
  induction ws with
  | nil => simp [pyJoin, splitAux]
  | cons w r ih =>
    obtain ⟨hne, hsp⟩ := h w (by simp)
    have hrev : w.reverse.isEmpty = false := by
      cases w with
      | nil => exact absurd rfl hne
      | cons a t => simp
    cases r with
    | nil =>
      have := splitAux_word w hsp [] []
      simp only [List.append_nil] at this
      simp [pyJoin, this, splitAux, hrev]
    | cons w' r' =>
      have := splitAux_word w hsp (32 :: pyJoin (w' :: r')) []
      simp only [List.append_nil] at this
      have h32 : isSpace 32 = true := by decide
      have hj : pyJoin (w :: w' :: r') = w ++ 32 :: pyJoin (w' :: r') := rfl
      rw [hj, this, splitAux, if_pos h32, hrev]
      simp only [Bool.false_eq_true, if_false, List.reverse_reverse]
      rw [ih (fun x hx => h x (by simp [hx]))]

/-! ## WordList.lookup -/

theorem lookupAux_acc (key : PyStr) (ws : List PyStr) :
    ∀ (s a : Nat), ∃ x, lookupAux key ws s (some a) = some x := by
  induction ws with
  | nil => intro s a; exact ⟨a, rfl⟩
  | cons w r ih =>
    intro s a
    rw [lookupAux]
    by_cases hm : matchesKey w key = true
    · rw [if_pos hm]; exact ih _ _
    · rw [if_neg hm]; exact ih _ _

theorem lookupAux_sound (key : PyStr) (ws : List PyStr) :
    ∀ (s : Nat) (acc : Option Nat) (i : Nat), lookupAux key ws s acc = some i →
      acc = some i ∨ ∃ j, j < ws.length ∧ i = s + j ∧ matchesKey (ws.getD j []) key = true := by
  induction ws with
  | nil => intro s acc i h; left; simpa [lookupAux] using h
  | cons w r ih =>
    intro s acc i h
    rw [lookupAux] at h
    rcases ih _ _ _ h with h1 | ⟨j, hj, hi, hm⟩
    · by_cases hm : matchesKey w key = true
      · rw [if_pos hm] at h1
        right; refine ⟨0, by simp, ?_, by simpa using hm⟩
        simp only [Option.some.injEq] at h1; omega
      · rw [if_neg hm] at h1; left; exact h1
    · right; exact ⟨j + 1, by simp [hj], by omega, by simpa using hm⟩

theorem lookupAux_complete (key : PyStr) (ws : List PyStr) :
    ∀ (s : Nat) (acc : Option Nat) (j : Nat), j < ws.length → matchesKey (ws.getD j []) key = true →
      ∃ i, lookupAux key ws s acc = some i := by
  induction ws with
  | nil => intro s acc j hj; simp at hj
  | cons w r ih =>
    intro s acc j hj hm
    rw [lookupAux]
    cases j with
    | zero =>
      have : matchesKey w key = true := by simpa using hm
      rw [if_pos this]; exact lookupAux_acc key r _ _
    | succ j => exact ih _ _ j (by simpa using hj) (by simpa using hm)

/-- unique keys: a key is stored for at most one index -/
def KeysUnique (ws : List PyStr) : Prop :=
  ∀ i j key, i < ws.length → j < ws.length →
    matchesKey (ws.getD i []) key = true → matchesKey (ws.getD j []) key = true → i = j

theorem lookup_some (wl : WordList) (i : Nat) (key : PyStr) (h : wl.lookup key = some i) :
    i < wl.words.length ∧ matchesKey (wl.words.getD i []) key = true := by
  rcases lookupAux_sound key wl.words 0 none i h with h1 | ⟨j, hj, hi, hm⟩
  · cases h1
  · have : i = j := by omega
    subst this; exact ⟨hj, hm⟩

theorem lookup_of_match (wl : WordList) (hu : KeysUnique wl.words) (i : Nat) (key : PyStr)
    (hi : i < wl.words.length) (hm : matchesKey (wl.words.getD i []) key = true) :
    wl.lookup key = some i := by
  obtain ⟨x, hx⟩ := lookupAux_complete key wl.words 0 none i hi hm
  obtain ⟨hxl, hxm⟩ := lookup_some wl x key hx
  rw [WordList.lookup, hx, hu x i key hxl hi hxm hm]

/-- `WordList[key]` is defined exactly for the stored keys (words and four-letter prefixes of longer
    words) and returns the index of the word -/
theorem lookup_iff (wl : WordList) (hu : KeysUnique wl.words) (i : Nat) (key : PyStr) :
    wl.lookup key = some i ↔ i < wl.words.length ∧ matchesKey (wl.words.getD i []) key = true :=
  ⟨lookup_some wl i key, fun ⟨h1, h2⟩ => lookup_of_match wl hu i key h1 h2⟩

theorem lookup_none_iff (wl : WordList) (key : PyStr) :
    wl.lookup key = none ↔ ∀ i, i < wl.words.length → matchesKey (wl.words.getD i []) key = false := by
  constructor
  · intro h i hi
    cases hm : matchesKey (wl.words.getD i []) key with
    | false => rfl
    | true =>
      obtain ⟨x, hx⟩ := lookupAux_complete key wl.words 0 none i hi hm
      rw [WordList.lookup] at h; rw [h] at hx; cases hx
  · intro h
    cases hl : wl.lookup key with
    | none => rfl
    | some i =>
      obtain ⟨h1, h2⟩ := lookup_some wl i key hl
      rw [h i h1] at h2; cases h2

theorem matchesKey_self (w : PyStr) : matchesKey w w = true := by simp [matchesKey]

/-! ## 11-bit digits -/

/-- the `n` low base-2048 digits of `N`, most significant first -/
def digitsBE : Nat → Nat → List Nat
  | 0, _ => []
  | n + 1, N => digitsBE n (N / 2048) ++ [N % 2048]

/-- positional value of base-2048 digits, most significant first -/
def ofDigits (acc : Nat) (ds : List Nat) : Nat := ds.foldl (fun a d => a * 2048 + d) acc

theorem digitsBE_length (n N : Nat) : (digitsBE n N).length = n := by
  induction n generalizing N with
  | zero => rfl
  | succ n ih => simp [digitsBE, ih]

theorem digitsBE_lt (n N : Nat) : ∀ d ∈ digitsBE n N, d < 2048 := by
  induction n generalizing N with
  | zero => simp [digitsBE]
  | succ n ih =>
    intro d hd
    simp only [digitsBE, List.mem_append, List.mem_singleton] at hd
    rcases hd with h | h
    · exact ih _ d h
    · subst h; exact Nat.mod_lt _ (by decide)

/-- the `i`-th digit (from the most significant) is the `i`-th 11-bit group -/
theorem digitsBE_getElem (n N i : Nat) (hi : i < n) :
    (digitsBE n N)[i]? = some (N / 2048 ^ (n - 1 - i) % 2048) := by
  induction n generalizing N i with
  | zero => omega
  | succ n ih =>
    simp only [digitsBE]
    by_cases h : i < n
    · rw [List.getElem?_append_left (by rw [digitsBE_length]; exact h), ih _ _ h]
      have e : n + 1 - 1 - i = (n - 1 - i) + 1 := by omega
      rw [e, Nat.pow_succ', Nat.div_div_eq_div_mul]
    · have e : i = n := by omega
      subst e
      rw [List.getElem?_append_right (by rw [digitsBE_length]; exact Nat.le_refl _), digitsBE_length]
      simp

theorem ofDigits_append (acc : Nat) (a b : List Nat) : ofDigits acc (a ++ b) = ofDigits (ofDigits acc a) b := by
  simp [ofDigits, List.foldl_append]

theorem ofDigits_digitsBE (n acc N : Nat) : ofDigits acc (digitsBE n N) = acc * 2048 ^ n + N % 2048 ^ n := by
  induction n generalizing N with
  | zero => simp [digitsBE, ofDigits, Nat.mod_one]
  | succ n ih =>
    rw [digitsBE, ofDigits_append, ih]
    simp only [ofDigits, List.foldl_cons, List.foldl_nil]
    rw [Nat.pow_succ', Nat.mod_mul]
    ring

theorem and_mask (N k : Nat) : N &&& ((1 <<< k) - 1) = N % 2 ^ k := by
  rw [Nat.one_shiftLeft, Nat.and_two_pow_sub_one_eq_mod]

theorem bitsToWords_eq (wl : WordList) (hl : wl.words.length = 2048) :
    ∀ (n N : Nat) (acc : List PyStr),
      bitsToWords wl n N acc = some ((digitsBE n N).map (fun d => wl.words.getD d []) ++ acc) := by
  intro n
  induction n with
  | zero => intro N acc; simp [bitsToWords, digitsBE]
  | succ n ih =>
    intro N acc
    have hlt : N % 2048 < wl.words.length := by rw [hl]; exact Nat.mod_lt _ (by decide)
    have hw : wl.word (N &&& ((1 <<< Gen.b2mWordBits2) - 1)) = some (wl.words.getD (N % 2048) []) := by
      rw [and_mask]
      show wl.words[N % 2048]? = _
      rw [List.getD_eq_getElem?_getD, List.getElem?_eq_getElem hlt]; rfl
    rw [bitsToWords, hw]
    simp only
    rw [ih, Nat.shiftRight_eq_div_pow]
    have e : (2 : Nat) ^ Gen.b2mWordBits3 = 2048 := by decide
    simp [digitsBE, e]

theorem wordsToBits_eq (wl : WordList) (ws : List PyStr) :
    ∀ acc, wordsToBits wl ws acc = (lookupAll wl ws).map (ofDigits acc) := by
  induction ws with
  | nil => intro acc; simp [wordsToBits, lookupAll, ofDigits]
  | cons w r ih =>
    intro acc
    rw [wordsToBits, lookupAll]
    cases hw : wl.lookup w with
    | none => simp
    | some i =>
      simp only
      rw [ih]
      cases lookupAll wl r with
      | none => simp
      | some is =>
        have e : (2 : Nat) ^ Gen.m2bWordBits = 2048 := by decide
        simp [ofDigits, Nat.shiftLeft_eq, e]

theorem lookupAll_map_words (wl : WordList) (hu : KeysUnique wl.words) (ds : List Nat)
    (hd : ∀ d ∈ ds, d < wl.words.length) :
    lookupAll wl (ds.map fun d => wl.words.getD d []) = some ds := by
  induction ds with
  | nil => rfl
  | cons d r ih =>
    simp only [List.map_cons, lookupAll]
    rw [lookup_of_match wl hu d _ (hd d (by simp)) (matchesKey_self _), ih (fun x hx => hd x (by simp [hx]))]

end Buidl.Mnemonic
