/-
  The amount an input contributes to the summary (`tx_in._value`, model field `PIn.value`) is the
  amount of a UTXO record the parser read: an invariant of PSBTIn.parse's loop, for arbitrary bytes.
  With PSBTIn.validate (F11d: both UTXO kinds must describe the same output) it is the amount of the
  output being spent.
-/
import Buidl.Model.PsbtCodec
namespace Buidl.Psbt
open Buidl

/-- the value is unset as long as no UTXO record was read; otherwise it is the amount of the
    non-witness UTXO's spent output or of the witness UTXO -/
def ValueInv {Tx : Type} (C : TxCodec Tx) (idx : Nat) (p : PIn Tx) : Prop :=
  (p.prevTx = none ∧ p.prevOut = none ∧ p.value = none) ∨
  (∃ t o, p.prevTx = some t ∧ (C.outs t)[idx]? = some o ∧ p.value = some o.amount) ∨
  (∃ o, p.prevOut = some o ∧ p.value = some o.amount)

theorem kvLoop_inv {σ : Type} {step : σ → Bytes → Bytes → Option (σ × Bytes)} (Inv : σ → Prop)
    (hstep : ∀ st key s st' s', Inv st → step st key s = some (st', s') → Inv st') :
    ∀ (fuel : Nat) (s : Bytes) (st st' : σ) (rest : Bytes), Inv st → kvLoop step fuel s st = some (st', rest) → Inv st'
  | 0, _, _, _, _, _, h => by simp [kvLoop] at h
  | fuel + 1, s, st, st', rest, hi, h => by
    simp only [kvLoop, Option.pure_def, Option.bind_eq_bind] at h
    cases hr : readVarstr s with
    | none => simp [hr] at h
    | some kr =>
      obtain ⟨key, s1⟩ := kr
      simp only [hr, Option.bind_some] at h
      by_cases hk : key = []
      · simp only [hk, if_true, Option.some.injEq, Prod.mk.injEq] at h
        rw [← h.1]; exact hi
      · simp only [hk, if_false] at h
        cases hs : step st key s1 with
        | none => simp [hs] at h
        | some r =>
          obtain ⟨st1, s2⟩ := r
          simp only [hs, Option.bind_some] at h
          exact kvLoop_inv Inv hstep fuel s2 st1 st' rest (hstep st key s1 st1 s2 hi hs) h

theorem bind_some' {α β : Type} {x : Option α} {f : α → Option β} {b : β} (h : x.bind f = some b) :
    ∃ a, x = some a ∧ f a = some b := by
  cases x with
  | none => simp at h
  | some a => exact ⟨a, rfl, h⟩

theorem inStep_valueInv {Tx : Type} (C : TxCodec Tx) (O : Oracles) (net : Option Net) (idx : Nat)
    (st : PIn Tx) (key s : Bytes) (st' : PIn Tx) (s' : Bytes) (hi : ValueInv C idx st)
    (h : inStep C O net idx st key s = some (st', s')) : ValueInv C idx st' := by
  have keep : ∀ q : PIn Tx, q.prevTx = st.prevTx → q.prevOut = st.prevOut → q.value = st.value → ValueInv C idx q := by
    intro q h1 h2 h3
    unfold ValueInv at hi ⊢
    rw [h1, h2, h3]; exact hi
  cases key with
  | nil => simp [inStep] at h
  | cons t tl =>
    unfold inStep at h
    conv at h => lhs; zeta
    change (if (!keyLenOK Gen.psbtInKeyLens t.toNat (t :: tl)) = true then none else _) = _ at h
    by_cases c0 : (!keyLenOK Gen.psbtInKeyLens t.toNat (t :: tl)) = true
    · rw [if_pos c0] at h; cases h
    rw [if_neg c0] at h
    by_cases c1 : t.toNat = Gen.psbtInNonWitnessUtxo
    · rw [if_pos c1] at h
      simp only [Option.pure_def, Option.bind_eq_bind] at h
      obtain ⟨_, _, h⟩ := bind_some' h
      obtain ⟨⟨txLen, s1⟩, _, h⟩ := bind_some' h
      obtain ⟨⟨tx, s2⟩, _, h⟩ := bind_some' h
      obtain ⟨b, _, h⟩ := bind_some' h
      obtain ⟨_, _, h⟩ := bind_some' h
      obtain ⟨o, ho, h⟩ := bind_some' h
      simp only [Option.some.injEq, Prod.mk.injEq] at h
      rw [← h.1]
      exact Or.inr (Or.inl ⟨tx, o, rfl, ho, rfl⟩)
    rw [if_neg c1] at h
    by_cases c2 : t.toNat = Gen.psbtInWitnessUtxo
    · rw [if_pos c2] at h
      simp only [Option.pure_def, Option.bind_eq_bind] at h
      obtain ⟨⟨n, s1⟩, _, h⟩ := bind_some' h
      obtain ⟨_, _, h⟩ := bind_some' h
      obtain ⟨⟨o, s2⟩, _, h⟩ := bind_some' h
      obtain ⟨b, _, h⟩ := bind_some' h
      obtain ⟨_, _, h⟩ := bind_some' h
      simp only [Option.some.injEq, Prod.mk.injEq] at h
      rw [← h.1]
      exact Or.inr (Or.inr ⟨o, rfl, rfl⟩)
    rw [if_neg c2] at h
    by_cases c3 : t.toNat = Gen.psbtInPartialSig
    · rw [if_pos c3] at h
      simp only [Option.pure_def, Option.bind_eq_bind] at h
      obtain ⟨_, _, h⟩ := bind_some' h
      obtain ⟨_, _, h⟩ := bind_some' h
      simp only [Option.some.injEq, Prod.mk.injEq] at h
      rw [← h.1]; exact keep _ rfl rfl rfl
    rw [if_neg c3] at h
    by_cases c4 : t.toNat = Gen.psbtInSighashType
    · rw [if_pos c4] at h
      simp only [Option.pure_def, Option.bind_eq_bind] at h
      obtain ⟨_, _, h⟩ := bind_some' h
      obtain ⟨_, _, h⟩ := bind_some' h
      simp only [Option.some.injEq, Prod.mk.injEq] at h
      rw [← h.1]; exact keep _ rfl rfl rfl
    rw [if_neg c4] at h
    by_cases c5 : t.toNat = Gen.psbtInRedeemScript
    · rw [if_pos c5] at h
      simp only [Option.pure_def, Option.bind_eq_bind] at h
      obtain ⟨_, _, h⟩ := bind_some' h
      obtain ⟨_, _, h⟩ := bind_some' h
      simp only [Option.some.injEq, Prod.mk.injEq] at h
      rw [← h.1]; exact keep _ rfl rfl rfl
    rw [if_neg c5] at h
    by_cases c6 : t.toNat = Gen.psbtInWitnessScript
    · rw [if_pos c6] at h
      simp only [Option.pure_def, Option.bind_eq_bind] at h
      obtain ⟨_, _, h⟩ := bind_some' h
      obtain ⟨_, _, h⟩ := bind_some' h
      simp only [Option.some.injEq, Prod.mk.injEq] at h
      rw [← h.1]; exact keep _ rfl rfl rfl
    rw [if_neg c6] at h
    by_cases c7 : t.toNat = Gen.psbtInBip32Derivation
    · rw [if_pos c7] at h
      simp only [Option.pure_def, Option.bind_eq_bind] at h
      obtain ⟨_, _, h⟩ := bind_some' h
      simp only [Option.some.injEq, Prod.mk.injEq] at h
      rw [← h.1]; exact keep _ rfl rfl rfl
    rw [if_neg c7] at h
    by_cases c8 : t.toNat = Gen.psbtInFinalScriptsig
    · rw [if_pos c8] at h
      simp only [Option.pure_def, Option.bind_eq_bind] at h
      obtain ⟨_, _, h⟩ := bind_some' h
      obtain ⟨_, _, h⟩ := bind_some' h
      simp only [Option.some.injEq, Prod.mk.injEq] at h
      rw [← h.1]; exact keep _ rfl rfl rfl
    rw [if_neg c8] at h
    by_cases c9 : t.toNat = Gen.psbtInFinalScriptwitness
    · rw [if_pos c9] at h
      simp only [Option.pure_def, Option.bind_eq_bind] at h
      obtain ⟨_, _, h⟩ := bind_some' h
      obtain ⟨_, _, h⟩ := bind_some' h
      obtain ⟨_, _, h⟩ := bind_some' h
      simp only [Option.some.injEq, Prod.mk.injEq] at h
      rw [← h.1]; exact keep _ rfl rfl rfl
    rw [if_neg c9] at h
    simp only [Option.pure_def, Option.bind_eq_bind] at h
    obtain ⟨_, _, h⟩ := bind_some' h
    obtain ⟨_, _, h⟩ := bind_some' h
    simp only [Option.some.injEq, Prod.mk.injEq] at h
    rw [← h.1]; exact keep _ rfl rfl rfl

/-- **PSBTIn.parse:** whatever bytes are parsed, the recorded value is the amount of a UTXO record read -/
theorem parseInMap_valueInv {Tx : Type} (C : TxCodec Tx) (O : Oracles) (net : Option Net) (idx : Nat) (s : Bytes)
    (p : PIn Tx) (rest : Bytes) (h : parseInMap C O net idx s = some (p, rest)) : ValueInv C idx p :=
  kvLoop_inv (ValueInv C idx) (fun st key s st' s' hi hs => inStep_valueInv C O net idx st key s st' s' hi hs)
    _ _ _ _ _ (Or.inl ⟨rfl, rfl, rfl⟩) h

/-- with PSBTIn.validate (F11d) the value of a parsed input map that has a UTXO record is the amount of
    the output being spent: of the previous transaction's output when the non-witness UTXO is present,
    else of the witness UTXO -/
theorem value_is_spent_output_amount {Tx : Type} (H : Hashes) (C : TxCodec Tx) (txin : TxInV) (p : PIn Tx)
    (hinv : ValueInv C txin.prevIndex p) (hval : validateIn H C txin p = some ()) :
    (∀ t, p.prevTx = some t → ∃ o, (C.outs t)[txin.prevIndex]? = some o ∧ p.value = some o.amount) ∧
    (∀ o, p.prevTx = none → p.prevOut = some o → p.value = some o.amount) := by
  refine ⟨?_, ?_⟩
  · intro t ht
    rcases hinv with ⟨h1, _, _⟩ | ⟨t', o, h1, ho, hv⟩ | ⟨o, hpo, hv⟩
    · rw [ht] at h1; cases h1
    · rw [ht] at h1; cases h1; exact ⟨o, ho, hv⟩
    · -- both kinds: validateIn forces the witness UTXO to equal the previous transaction's output
      unfold validateIn at hval
      simp only [PIn.scriptPubkey, ht, hpo, Option.pure_def, Option.bind_eq_bind] at hval
      cases hu : (C.outs t)[txin.prevIndex]? with
      | none => simp [hu] at hval
      | some u =>
        simp only [hu, Option.bind_some] at hval
        obtain ⟨_, _, hval⟩ := bind_some' hval
        obtain ⟨_, _, hval⟩ := bind_some' hval
        obtain ⟨_, _, hval⟩ := bind_some' hval
        obtain ⟨_, hreq, _⟩ := bind_some' hval
        have : (u.amount == o.amount && u.spk.cmds == o.spk.cmds) = true := by
          unfold req at hreq; split at hreq <;> simp_all
        simp only [Bool.and_eq_true, beq_iff_eq] at this
        exact ⟨u, rfl, by rw [hv, this.1]⟩
  · intro o hpt hpo
    rcases hinv with ⟨_, h2, _⟩ | ⟨t', o', h1, _, _⟩ | ⟨o', hpo', hv⟩
    · rw [hpo] at h2; cases h2
    · rw [hpt] at h1; cases h1
    · rw [hpo] at hpo'; cases hpo'; exact hv

end Buidl.Psbt
