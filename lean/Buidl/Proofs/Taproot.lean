/-
  Buidl.Proofs.Taproot — helper lemmas for C12 (taproot commitment) over Buidl.Model.Taproot.
  Hash functions are arbitrary (`H : Hashes`).  No group facts are used in this file; the group
  facts consumed by C12/C13 are collected in `GroupLaw` (proved in Buidl.Proofs.TaprootGroup from
  Buidl.Proofs.SecpCodec).
-/
import Buidl.Proofs.Bytes
import Buidl.Model.Taproot

namespace Buidl.Taproot
open Buidl Buidl.EC Buidl.Script

/-! ## Python bytes order -/

theorem bytesLt_irrefl (a : Bytes) : bytesLt a a = false := by
  induction a with
  | nil => rfl
  | cons x xs ih => simp [bytesLt, ih]

theorem bytesLt_asymm : ∀ (a b : Bytes), bytesLt a b = true → bytesLt b a = false
  | [], [], h => by simp [bytesLt] at h
  | [], _ :: _, _ => by simp [bytesLt]
  | _ :: _, [], h => by simp [bytesLt] at h
  | x :: xs, y :: ys, h => by
    simp only [bytesLt] at h ⊢
    by_cases h1 : x.toNat < y.toNat
    · have h2 : ¬ y.toNat < x.toNat := by omega
      simp [h2, h1]
    · by_cases h2 : y.toNat < x.toNat
      · simp [h1, h2] at h
      · simp only [h1, h2, if_false] at h ⊢
        exact bytesLt_asymm xs ys h

theorem bytesLt_connex : ∀ (a b : Bytes), bytesLt a b = false → bytesLt b a = false → a = b
  | [], [], _, _ => rfl
  | [], _ :: _, h, _ => by simp [bytesLt] at h
  | _ :: _, [], _, h => by simp [bytesLt] at h
  | x :: xs, y :: ys, h, h' => by
    simp only [bytesLt] at h h'
    by_cases h1 : x.toNat < y.toNat
    · simp [h1] at h
    · by_cases h2 : y.toNat < x.toNat
      · simp [h2] at h'
      · simp only [h1, h2, if_false] at h h'
        have hxy : x = y := UInt8.toNat_inj.mp (by omega)
        rw [hxy, bytesLt_connex xs ys h h']

/-- the pair hashed by TapBranch.hash does not depend on the order of the two children -/
theorem branchPre_comm (a b : Bytes) : branchPre a b = branchPre b a := by
  unfold branchPre
  cases hab : bytesLt a b with
  | true => simp [bytesLt_asymm a b hab]
  | false =>
    cases hba : bytesLt b a with
    | true => simp
    | false => simp [bytesLt_connex a b hab hba]

theorem branchHash_comm (H : Hashes) (a b : Bytes) : branchHash H a b = branchHash H b a := by
  unfold branchHash; rw [branchPre_comm]

theorem branchPre_length (a b : Bytes) : (branchPre a b).length = a.length + b.length := by
  unfold branchPre; split <;> simp [Nat.add_comm]

/-- for children of one common length the hashed pair determines the unordered pair of children -/
theorem branchPre_inj {L : Nat} {a b a' b' : Bytes} (ha : a.length = L) (hb : b.length = L)
    (ha' : a'.length = L) (hb' : b'.length = L) (h : branchPre a b = branchPre a' b') :
    (a = a' ∧ b = b') ∨ (a = b' ∧ b = a') := by
  unfold branchPre at h
  split at h <;> split at h
  · obtain ⟨h1, h2⟩ := List.append_inj h (by omega); exact Or.inl ⟨h1, h2⟩
  · obtain ⟨h1, h2⟩ := List.append_inj h (by omega); exact Or.inr ⟨h1, h2⟩
  · obtain ⟨h1, h2⟩ := List.append_inj h (by omega); exact Or.inr ⟨h2, h1⟩
  · obtain ⟨h1, h2⟩ := List.append_inj h (by omega); exact Or.inl ⟨h2, h1⟩

/-! ## the loop of ControlBlock.merkle_root -/

theorem foldPath_append (H : Hashes) (c : Bytes) (p q : List Bytes) :
    foldPath H c (p ++ q) = foldPath H (foldPath H c p) q := by
  induction p generalizing c with
  | nil => rfl
  | cons h t ih => simp only [List.cons_append, foldPath]; exact ih _

theorem foldPath_snoc (H : Hashes) (c : Bytes) (p : List Bytes) (h : Bytes) :
    foldPath H c (p ++ [h]) = branchHash H (foldPath H c p) h := by
  rw [foldPath_append]; rfl

/-! ## leaves -/

theorem leafIn_iff (x : Leaf) (ls : List Leaf) : leafIn x ls = true ↔ ∃ l ∈ ls, x.eqv l = true := by
  unfold leafIn; simp [List.any_eq_true]

theorem Leaf.eqv_refl (x : Leaf) : x.eqv x = true := by simp [Leaf.eqv]

theorem leafIn_of_mem {x : Leaf} {ls : List Leaf} (h : x ∈ ls) : leafIn x ls = true :=
  (leafIn_iff x ls).mpr ⟨x, h, x.eqv_refl⟩

theorem Leaf.hash_eq (H : Hashes) (l : Leaf) : l.hash H = l.preimage.map H.tapLeaf := by
  unfold Leaf.hash; cases l.preimage <;> rfl

/-- leaves that compare equal under TapLeaf.__eq__ and carry no `raw` override have the same hash -/
theorem Leaf.hash_congr_of_eqv (H : Hashes) {x l : Leaf} (h : x.eqv l = true)
    (hx : x.script.raw = none) (hl : l.script.raw = none) : l.hash H = x.hash H := by
  simp only [Leaf.eqv, Bool.and_eq_true, beq_iff_eq] at h
  obtain ⟨hv, hc⟩ := h
  have : l = x := by
    cases l with | mk ls lv => cases x with | mk xs xv =>
    cases ls with | mk lc lr => cases xs with | mk xc xr =>
    simp_all
  rw [this]

/-! ## every control block built by the library folds back to the root -/

/-- the sibling hashes collected for `x` fold from `x`'s leaf hash to the root -/
theorem pathHashes_fold (H : Hashes) : ∀ (t : Tree) (x : Leaf) (p : List Bytes) (c root : Bytes),
    (∀ l ∈ t.leaves, x.eqv l = true → l.hash H = x.hash H) →
    leafIn x t.leaves = true →
    t.pathHashes H x = some p → x.hash H = some c → t.hash H = some root →
    foldPath H c p = root
  | .leaf l, x, p, c, root, hcoh, hin, hp, hc, hr => by
    simp only [Tree.pathHashes, Option.some.injEq] at hp
    subst hp
    obtain ⟨l', hl', he⟩ := (leafIn_iff _ _).mp hin
    simp only [Tree.leaves, List.mem_singleton] at hl'
    subst hl'
    have := hcoh l' (by simp [Tree.leaves]) he
    simp only [Tree.hash] at hr
    rw [this, hc] at hr
    simpa [foldPath] using hr
  | .branch l r, x, p, c, root, hcoh, hin, hp, hc, hr => by
    simp only [Tree.hash] at hr
    cases hlh : l.hash H with
    | none => simp [hlh] at hr
    | some lh =>
      cases hrh : r.hash H with
      | none => simp [hlh, hrh] at hr
      | some rh =>
        simp only [hlh, hrh, Option.bind_eq_bind, Option.bind_some, Option.pure_def, Option.some.injEq] at hr
        subst hr
        simp only [Tree.pathHashes] at hp
        by_cases h1 : leafIn x l.leaves = true
        · simp only [h1, if_true, hrh] at hp
          cases hpl : l.pathHashes H x with
          | none => simp [hpl] at hp
          | some pl =>
            simp only [hpl, Option.bind_eq_bind, Option.bind_some, Option.pure_def, Option.some.injEq] at hp
            subst hp
            have ih := pathHashes_fold H l x pl c lh
              (fun l' hl' => hcoh l' (by simp [Tree.leaves, hl'])) h1 hpl hc hlh
            rw [foldPath_snoc, ih]
        · have h1' : leafIn x l.leaves = false := by simpa using h1
          by_cases h2 : leafIn x r.leaves = true
          · simp only [h1', h2, if_true, hlh, Bool.false_eq_true, if_false] at hp
            cases hpr : r.pathHashes H x with
            | none => simp [hpr] at hp
            | some pr =>
              simp only [hpr, Option.bind_eq_bind, Option.bind_some, Option.pure_def, Option.some.injEq] at hp
              subst hp
              have ih := pathHashes_fold H r x pr c rh
                (fun l' hl' => hcoh l' (by simp [Tree.leaves, hl'])) h2 hpr hc hrh
              rw [foldPath_snoc, ih, branchHash_comm]
          · have h2' : leafIn x r.leaves = false := by simpa using h2
            simp [h1', h2'] at hp

/-- a member of the tree always gets a path (when the tree hashes at all) -/
theorem pathHashes_isSome (H : Hashes) : ∀ (t : Tree) (x : Leaf) (root : Bytes),
    leafIn x t.leaves = true → t.hash H = some root → ∃ p, t.pathHashes H x = some p
  | .leaf _, _, _, _, _ => ⟨[], rfl⟩
  | .branch l r, x, root, hin, hr => by
    simp only [Tree.hash] at hr
    cases hlh : l.hash H with
    | none => simp [hlh] at hr
    | some lh =>
      cases hrh : r.hash H with
      | none => simp [hlh, hrh] at hr
      | some rh =>
        simp only [Tree.pathHashes]
        by_cases h1 : leafIn x l.leaves = true
        · obtain ⟨pl, hpl⟩ := pathHashes_isSome H l x lh h1 hlh
          exact ⟨pl ++ [rh], by simp [h1, hpl, hrh]⟩
        · have h1' : leafIn x l.leaves = false := by simpa using h1
          have h2 : leafIn x r.leaves = true := by
            obtain ⟨l', hl', he⟩ := (leafIn_iff _ _).mp hin
            simp only [Tree.leaves, List.mem_append] at hl'
            rcases hl' with hl' | hl'
            · exact absurd ((leafIn_iff _ _).mpr ⟨l', hl', he⟩) h1
            · exact (leafIn_iff _ _).mpr ⟨l', hl', he⟩
          obtain ⟨pr, hpr⟩ := pathHashes_isSome H r x rh h2 hrh
          exact ⟨pr ++ [lh], by simp [h1', h2, hpr, hlh]⟩

/-! ## tweaks -/

theorem evenPointOf_eq {X : Pt} (h : X ≠ .inf) : evenPointOf X = some (evenPoint X) := by
  cases X with
  | inf => exact absurd rfl h
  | aff x y => rfl

theorem evenPointOf_inf : evenPointOf .inf = none := rfl

theorem parityOf_eq {X : Pt} (h : X ≠ .inf) : parityOf X = some (parity X) := by
  cases X with
  | inf => exact absurd rfl h
  | aff x y => rfl

theorem parityOf_some {X : Pt} {p : Nat} (h : parityOf X = some p) : X ≠ .inf ∧ p = parity X := by
  cases X with
  | inf => simp [parityOf] at h
  | aff x y => simp only [parityOf, Option.some.injEq] at h; exact ⟨by simp, by simp [parity, h]⟩

/-- S256Point.tweaked_key: `Q = even(P) + int(H_TapTweak(x(P) ‖ root)) · G`; it raises exactly on the
    point at infinity -/
theorem tweakedKey_eq (H : Hashes) {X : Pt} (h : X ≠ .inf) (root : Bytes) :
    tweakedKey H X root = some (sadd (evenPoint X) (smul (beToNat (H.tapTweak (xonly X ++ root)) : Int) G)) := by
  simp [tweakedKey, evenPointOf_eq h, tweak, saddInt]

theorem tweakedKey_inf (H : Hashes) (root : Bytes) : tweakedKey H .inf root = none := by
  simp [tweakedKey, evenPointOf_inf]

theorem tweakedKey_some {H : Hashes} {X Q : Pt} {root : Bytes} (h : tweakedKey H X root = some Q) :
    X ≠ .inf ∧ Q = sadd (evenPoint X) (smul (beToNat (H.tapTweak (xonly X ++ root)) : Int) G) := by
  cases X with
  | inf => simp [tweakedKey_inf] at h
  | aff x y =>
    rw [tweakedKey_eq H (by simp)] at h
    exact ⟨by simp, (Option.some.inj h).symm⟩

/-- the tweaked key depends on the internal key only through its even point and its x-only encoding -/
theorem tweakedKey_congr (H : Hashes) {X Y : Pt} (root : Bytes) (he : evenPointOf X = evenPointOf Y)
    (hx : xonly X = xonly Y) : tweakedKey H X root = tweakedKey H Y root := by
  simp [tweakedKey, tweak, he, hx]

/-! ## ControlBlock codec -/

theorem cbParse_eq (b : Bytes) : ControlBlock.parse b =
    if b.length % 32 ≠ 1 then none
    else if b.length < 33 ∨ b.length > 4129 then none
    else match b with
      | [] => none
      | b0 :: _ =>
        match parseXonly ((b.drop 1).take 32) with
        | none => none
        | some X => some { version := b0.toNat &&& 254, parity := b0.toNat &&& 1, internal := X,
                           hashes := cbChunks b ((b.length - 33) / 32) 0 } := by
  unfold ControlBlock.parse
  simp only [cmpAt, Gen.cbParseCmp, cmpOp, Gen.cbParseMod, Gen.cbVersionMask, Gen.cbParityMask, Gen.cbKeyLo,
    Gen.cbKeyHi, Gen.cbCountSub, Gen.cbCountDiv]
  simp
  rfl

/-- lengths that are not `33 + 32m` with `m ≤ 128` are refused -/
theorem cbParse_length {b : Bytes} {cb : ControlBlock} (h : ControlBlock.parse b = some cb) :
    ∃ m, m ≤ 128 ∧ b.length = 33 + 32 * m := by
  rw [cbParse_eq] at h
  by_cases h1 : b.length % 32 ≠ 1
  · rw [if_pos h1] at h; cases h
  · by_cases h2 : b.length < 33 ∨ b.length > 4129
    · rw [if_neg h1, if_pos h2] at h; cases h
    · exact ⟨(b.length - 33) / 32, by omega, by omega⟩

theorem cbChunks_append : ∀ (hs : List Bytes) (pre : Bytes) (i : Nat),
    (∀ h ∈ hs, h.length = 32) → pre.length = 33 + 32 * i →
    cbChunks (pre ++ hs.flatten) hs.length i = hs
  | [], _, _, _, _ => rfl
  | h :: t, pre, i, hl, hpre => by
    have hh : h.length = 32 := hl h (by simp)
    simp only [List.length_cons, cbChunks, List.flatten_cons, Gen.cbHashStart, Gen.cbHashStride, Gen.cbHashWidth]
    rw [drop_append_len _ _ _ hpre, take_append_len _ _ _ hh]
    have := cbChunks_append t (pre ++ h) (i + 1) (fun x hx => hl x (by simp [hx])) (by simp; omega)
    rw [List.append_assoc] at this
    rw [this]

theorem cbChunks_flatten : ∀ (m i : Nat) (b : Bytes), b.length = 33 + 32 * (i + m) →
    (cbChunks b m i).flatten = b.drop (33 + 32 * i) ∧ (∀ h ∈ cbChunks b m i, h.length = 32) ∧
    (cbChunks b m i).length = m
  | 0, i, b, hb => by
    simp only [cbChunks, List.flatten_nil, List.not_mem_nil, false_imp_iff, implies_true, List.length_nil, and_true]
    rw [List.drop_of_length_le (by omega)]
  | m + 1, i, b, hb => by
    obtain ⟨h1, h2, h3⟩ := cbChunks_flatten m (i + 1) b (by omega)
    simp only [cbChunks, List.flatten_cons, Gen.cbHashStart, Gen.cbHashStride, Gen.cbHashWidth, List.mem_cons,
      List.length_cons]
    refine ⟨?_, ?_, by omega⟩
    · rw [h1]
      have : b.drop (33 + 32 * (i + 1)) = (b.drop (33 + 32 * i)).drop 32 := by
        rw [List.drop_drop]; congr 1
      rw [this, List.take_append_drop]
    · intro h hh
      rcases hh with rfl | hh
      · simp; omega
      · exact h2 h hh

theorem and_masks : ∀ v, v < 256 → ∀ p, p < 2 → v % 2 = 0 → (v + p) &&& 254 = v ∧ (v + p) &&& 1 = p := by
  decide +kernel

/-- ControlBlock.serialize on a well-formed block -/
theorem cbSerialize_eq {cb : ControlBlock} (h : cb.version + cb.parity < 256) :
    cb.serialize = some (UInt8.ofNat (cb.version + cb.parity) :: (xonly cb.internal ++ cb.hashes.flatten)) := by
  have : cb.version + cb.parity ≤ 255 := by omega
  simp [ControlBlock.serialize, intToByte, this]

theorem xonly_length' (Q : Pt) : (xonly Q).length = 32 := by
  cases Q <;> simp [xonly, natToBE', natToLE'_length]

theorem flatten_length_32 : ∀ (hs : List Bytes), (∀ h ∈ hs, h.length = 32) → hs.flatten.length = 32 * hs.length
  | [], _ => rfl
  | h :: t, hl => by
    simp only [List.flatten_cons, List.length_append, List.length_cons]
    rw [flatten_length_32 t (fun x hx => hl x (by simp [hx])), hl h (by simp)]; omega

/-- **round trip**: a block with an even leaf version, a parity bit, 32-byte hashes (at most 128) and
    an internal key whose x-only encoding parses, serialises to `33 + 32m` bytes that parse back to the
    same version, parity and hashes, and to the parsed key -/
theorem cb_parse_serialize {cb : ControlBlock} {X : Pt}
    (hv : cb.version < 256) (hv2 : cb.version % 2 = 0) (hp : cb.parity < 2)
    (hh : ∀ h ∈ cb.hashes, h.length = 32) (hn : cb.hashes.length ≤ 128)
    (hk : parseXonly (xonly cb.internal) = some X) :
    ∃ b, cb.serialize = some b ∧ b.length = 33 + 32 * cb.hashes.length ∧
      ControlBlock.parse b = some { cb with internal := X } := by
  have hvp : cb.version + cb.parity < 256 := by omega
  refine ⟨_, cbSerialize_eq hvp, ?_, ?_⟩
  · simp [xonly_length', flatten_length_32 _ hh]; omega
  · rw [cbParse_eq]
    have hlen : (UInt8.ofNat (cb.version + cb.parity) :: (xonly cb.internal ++ cb.hashes.flatten)).length
        = 33 + 32 * cb.hashes.length := by
      simp [xonly_length', flatten_length_32 _ hh]; omega
    rw [hlen]
    rw [if_neg (by omega), if_neg (by omega)]
    simp only [List.drop_succ_cons, List.drop_zero]
    rw [take_append_len _ _ _ (xonly_length' _), hk]
    simp only
    have hb0 : (UInt8.ofNat (cb.version + cb.parity)).toNat = cb.version + cb.parity := by
      rw [u8_ofNat_toNat]; omega
    obtain ⟨m1, m2⟩ := and_masks cb.version hv cb.parity hp hv2
    rw [hb0, m1, m2]
    have hm : (33 + 32 * cb.hashes.length - 33) / 32 = cb.hashes.length := by omega
    rw [hm]
    have hc := cbChunks_append cb.hashes (UInt8.ofNat (cb.version + cb.parity) :: xonly cb.internal) 0 hh
      (by simp [xonly_length'])
    simp only [List.cons_append] at hc
    rw [hc]

/-- **parse is sound**: an accepted byte string is `b₀ ‖ key ‖ hashes` with the version and parity bits of
    `b₀`, a key that parses to the internal point, and 32-byte hashes -/
theorem cb_parse_sound {b : Bytes} {cb : ControlBlock} (h : ControlBlock.parse b = some cb) :
    ∃ b0 key, b = b0 :: (key ++ cb.hashes.flatten) ∧ key.length = 32 ∧ parseXonly key = some cb.internal ∧
      cb.version = b0.toNat &&& 254 ∧ cb.parity = b0.toNat &&& 1 ∧ (∀ x ∈ cb.hashes, x.length = 32) ∧
      cb.hashes.length ≤ 128 ∧ b.length = 33 + 32 * cb.hashes.length := by
  obtain ⟨m, hm, hlen⟩ := cbParse_length h
  rw [cbParse_eq] at h
  rw [if_neg (by omega), if_neg (by omega)] at h
  cases b with
  | nil => simp at hlen; omega
  | cons b0 rest =>
    simp only [List.drop_succ_cons, List.drop_zero] at h
    cases hk : parseXonly (rest.take 32) with
    | none => simp [hk] at h
    | some X =>
      simp only [hk, Option.some.injEq] at h
      have hmm : ((b0 :: rest).length - 33) / 32 = m := by omega
      rw [hmm] at h
      obtain ⟨f1, f2, f3⟩ := cbChunks_flatten m 0 (b0 :: rest) (by omega)
      subst h
      refine ⟨b0, rest.take 32, ?_, ?_, hk, rfl, rfl, f2,
        (by show (cbChunks (b0 :: rest) m 0).length ≤ 128; omega),
        (by show (b0 :: rest).length = 33 + 32 * (cbChunks (b0 :: rest) m 0).length; omega)⟩
      · simp only [f1, List.cons.injEq, true_and]
        have : (b0 :: rest).drop (33 + 32 * 0) = rest.drop 32 := by simp
        rw [this, List.take_append_drop]
      · simp at hlen; simp; omega

/-! ## the control block built by the library -/

/-- what `control_block` returns for a leaf of the tree: the leaf's version, the parity of the output key,
    the internal key and the sibling path -/
theorem controlBlock_some (H : Hashes) {t : Tree} {P : Pt} {x : Leaf} {cb : ControlBlock}
    (h : t.controlBlock H P (some x) = some cb) :
    leafIn x t.leaves = true ∧ cb.version = x.version ∧ cb.internal = P ∧
    ∃ root Q, t.hash H = some root ∧ tweakedKey H P root = some Q ∧ parityOf Q = some cb.parity ∧
      t.pathHashes H x = some cb.hashes := by
  cases t with
  | leaf l =>
    simp only [Tree.controlBlock] at h
    by_cases he : x.eqv l = true
    · simp only [he, Bool.not_true, Bool.false_eq_true, if_false, Tree.externalPubkey] at h
      cases hr : (Tree.leaf l).hash H with
      | none => simp [hr] at h
      | some root =>
        cases hq : tweakedKey H P root with
        | none => simp [hr, hq] at h
        | some Q =>
          cases hpar : parityOf Q with
          | none => simp [hr, hq, hpar] at h
          | some par =>
            simp only [hr, hq, hpar, Option.bind_eq_bind, Option.bind_some, Option.pure_def, Option.some.injEq] at h
            subst h
            simp only [Leaf.eqv, Bool.and_eq_true, beq_iff_eq] at he
            exact ⟨(leafIn_iff _ _).mpr ⟨l, by simp [Tree.leaves], by simp [Leaf.eqv, he]⟩, he.1.symm, rfl,
              root, Q, rfl, hq, hpar, rfl⟩
    · have : x.eqv l = false := by simpa using he
      simp [this] at h
  | branch l r =>
    simp only [Tree.controlBlock] at h
    by_cases hin : leafIn x (Tree.branch l r).leaves = true
    · simp only [hin, Bool.not_true, Bool.false_eq_true, if_false, Tree.externalPubkey] at h
      cases hr : (Tree.branch l r).hash H with
      | none => simp [hr] at h
      | some root =>
        cases hq : tweakedKey H P root with
        | none => simp [hr, hq] at h
        | some Q =>
          cases hpar : parityOf Q with
          | none => simp [hr, hq, hpar] at h
          | some par =>
            cases hp : (Tree.branch l r).pathHashes H x with
            | none => simp [hr, hq, hpar, hp] at h
            | some p =>
              simp only [hr, hq, hpar, hp, Option.bind_eq_bind, Option.bind_some, Option.pure_def,
                Option.some.injEq] at h
              subst h
              exact ⟨hin, rfl, rfl, root, Q, rfl, hq, hpar, rfl⟩
    · have : leafIn x (Tree.branch l r).leaves = false := by simpa using hin
      simp [this] at h

/-- `control_block` succeeds for every member of a tree whose output key exists -/
theorem controlBlock_isSome (H : Hashes) {t : Tree} {P Q : Pt} {x : Leaf} {root : Bytes}
    (hin : leafIn x t.leaves = true) (hr : t.hash H = some root) (hq : tweakedKey H P root = some Q)
    (hQ : Q ≠ .inf) : ∃ cb, t.controlBlock H P (some x) = some cb := by
  obtain ⟨p, hp⟩ := pathHashes_isSome H t x root hin hr
  cases t with
  | leaf l =>
    obtain ⟨l', hl', he⟩ := (leafIn_iff _ _).mp hin
    simp only [Tree.leaves, List.mem_singleton] at hl'
    subst hl'
    simp [Tree.controlBlock, he, Tree.externalPubkey, hr, hq, parityOf_eq hQ]
  | branch l r =>
    simp [Tree.controlBlock, hin, Tree.externalPubkey, hr, hq, parityOf_eq hQ, hp]

/-! ## binding: accepted openings are genuine, or exhibit a collision -/

/-- two different messages with the same TapLeaf hash -/
def LeafCollision (H : Hashes) : Prop := ∃ m m', m ≠ m' ∧ H.tapLeaf m = H.tapLeaf m'
/-- two different messages with the same TapBranch hash -/
def BranchCollision (H : Hashes) : Prop := ∃ m m', m ≠ m' ∧ H.tapBranch m = H.tapBranch m'
/-- a TapLeaf hash equal to a TapBranch hash (for the real tagged hashes: a SHA-256 collision between
    messages with different 64-byte tag prefixes) -/
def CrossCollision (H : Hashes) : Prop := ∃ m m', H.tapLeaf m = H.tapBranch m'
/-- two different (internal key, merkle root) pairs whose tweaked output keys have the same x-only encoding -/
def TweakCollision (H : Hashes) : Prop :=
  ∃ X r X' r' Q Q', (xonly X, r) ≠ (xonly X', r') ∧ tweakedKey H X r = some Q ∧ tweakedKey H X' r' = some Q' ∧
    xonly Q = xonly Q'

/-- `Opens H t c hs`: `c` is the hash of a leaf occurrence of `t` and `hs` its sibling hashes, leaf to root -/
inductive Opens (H : Hashes) : Tree → Bytes → List Bytes → Prop
  | leaf (l : Leaf) (c : Bytes) : l.hash H = some c → Opens H (.leaf l) c []
  | left (l r : Tree) (c : Bytes) (hs : List Bytes) (rh : Bytes) :
      Opens H l c hs → r.hash H = some rh → Opens H (.branch l r) c (hs ++ [rh])
  | right (l r : Tree) (c : Bytes) (hs : List Bytes) (lh : Bytes) :
      Opens H r c hs → l.hash H = some lh → Opens H (.branch l r) c (hs ++ [lh])

theorem Opens.exists_leaf {H : Hashes} {t : Tree} {c : Bytes} {hs : List Bytes} (h : Opens H t c hs) :
    ∃ l ∈ t.leaves, l.hash H = some c := by
  induction h with
  | leaf l c hl => exact ⟨l, by simp [Tree.leaves], hl⟩
  | left l r c hs rh _ _ ih => obtain ⟨x, hx, hc⟩ := ih; exact ⟨x, by simp [Tree.leaves, hx], hc⟩
  | right l r c hs lh _ _ ih => obtain ⟨x, hx, hc⟩ := ih; exact ⟨x, by simp [Tree.leaves, hx], hc⟩

theorem Opens.fold {H : Hashes} {t : Tree} {c : Bytes} {hs : List Bytes} (h : Opens H t c hs) :
    t.hash H = some (foldPath H c hs) := by
  induction h with
  | leaf l c hl => simpa [Tree.hash, foldPath] using hl
  | left l r c hs rh _ hr ih => simp [Tree.hash, ih, hr, foldPath_snoc]
  | right l r c hs lh _ hl ih => simp [Tree.hash, ih, hl, foldPath_snoc, branchHash_comm]

/-- the path collected by the library for a member is an opening -/
theorem opens_of_pathHashes (H : Hashes) : ∀ (t : Tree) (x : Leaf) (p : List Bytes) (root : Bytes),
    leafIn x t.leaves = true → t.pathHashes H x = some p → t.hash H = some root →
    ∃ l ∈ t.leaves, x.eqv l = true ∧ ∃ c, l.hash H = some c ∧ Opens H t c p
  | .leaf l, x, p, root, hin, hp, hr => by
    simp only [Tree.pathHashes, Option.some.injEq] at hp
    subst hp
    obtain ⟨l', hl', he⟩ := (leafIn_iff _ _).mp hin
    simp only [Tree.leaves, List.mem_singleton] at hl'
    subst hl'
    exact ⟨l', by simp [Tree.leaves], he, root, hr, Opens.leaf _ _ hr⟩
  | .branch l r, x, p, root, hin, hp, hr => by
    simp only [Tree.hash] at hr
    cases hlh : l.hash H with
    | none => simp [hlh] at hr
    | some lh =>
      cases hrh : r.hash H with
      | none => simp [hlh, hrh] at hr
      | some rh =>
        simp only [Tree.pathHashes] at hp
        by_cases h1 : leafIn x l.leaves = true
        · simp only [h1, if_true, hrh] at hp
          cases hpl : l.pathHashes H x with
          | none => simp [hpl] at hp
          | some pl =>
            simp only [hpl, Option.bind_eq_bind, Option.bind_some, Option.pure_def, Option.some.injEq] at hp
            subst hp
            obtain ⟨y, hy, he, c, hc, ho⟩ := opens_of_pathHashes H l x pl lh h1 hpl hlh
            exact ⟨y, by simp [Tree.leaves, hy], he, c, hc, Opens.left _ _ _ _ _ ho hrh⟩
        · have h1' : leafIn x l.leaves = false := by simpa using h1
          by_cases h2 : leafIn x r.leaves = true
          · simp only [h1', h2, if_true, hlh, Bool.false_eq_true, if_false] at hp
            cases hpr : r.pathHashes H x with
            | none => simp [hpr] at hp
            | some pr =>
              simp only [hpr, Option.bind_eq_bind, Option.bind_some, Option.pure_def, Option.some.injEq] at hp
              subst hp
              obtain ⟨y, hy, he, c, hc, ho⟩ := opens_of_pathHashes H r x pr rh h2 hpr hrh
              exact ⟨y, by simp [Tree.leaves, hy], he, c, hc, Opens.right _ _ _ _ _ ho hlh⟩
          · have h2' : leafIn x r.leaves = false := by simpa using h2
            simp [h1', h2'] at hp

theorem foldPath_length (H : Hashes) {L : Nat} (hB : ∀ m, (H.tapBranch m).length = L) :
    ∀ (hs : List Bytes) (c : Bytes), c.length = L → (foldPath H c hs).length = L
  | [], _, hc => hc
  | _ :: t, _, _ => foldPath_length H hB t _ (hB _)

theorem Tree.hash_length (H : Hashes) {L : Nat} (hL : ∀ m, (H.tapLeaf m).length = L)
    (hB : ∀ m, (H.tapBranch m).length = L) : ∀ (t : Tree) (root : Bytes), t.hash H = some root → root.length = L
  | .leaf l, root, h => by
    rw [Tree.hash, Leaf.hash_eq] at h
    cases hp : l.preimage with
    | none => simp [hp] at h
    | some m => simp only [hp, Option.map_some, Option.some.injEq] at h; rw [← h]; exact hL m
  | .branch l r, root, h => by
    simp only [Tree.hash] at h
    cases hlh : l.hash H with
    | none => simp [hlh] at h
    | some lh =>
      cases hrh : r.hash H with
      | none => simp [hlh, hrh] at h
      | some rh =>
        simp only [hlh, hrh, Option.bind_eq_bind, Option.bind_some, Option.pure_def, Option.some.injEq] at h
        rw [← h]; exact hB _

/-- **Merkle binding**: a leaf hash `c = H_TapLeaf(m)` and sibling hashes `hs` (all of the hash length) that
    fold to the root of `t` are a genuine opening of a leaf occurrence of `t` — or two different TapBranch
    preimages collide, or a TapLeaf hash equals a TapBranch hash -/
theorem opens_of_fold (H : Hashes) {L : Nat} (hL : ∀ m, (H.tapLeaf m).length = L)
    (hB : ∀ m, (H.tapBranch m).length = L) :
    ∀ (t : Tree) (root : Bytes), t.hash H = some root →
    ∀ (hs : List Bytes) (m : Bytes), (∀ h ∈ hs, h.length = L) → foldPath H (H.tapLeaf m) hs = root →
    Opens H t (H.tapLeaf m) hs ∨ BranchCollision H ∨ CrossCollision H
  | .leaf l, root, hr, hs, m, hlen, hf => by
    rcases List.eq_nil_or_concat hs with rfl | ⟨hs0, h, rfl⟩
    · simp only [foldPath] at hf
      exact Or.inl (Opens.leaf l _ (by rw [hf]; exact hr))
    · rw [List.concat_eq_append, foldPath_snoc] at hf
      rw [Tree.hash, Leaf.hash_eq] at hr
      cases hp : l.preimage with
      | none => simp [hp] at hr
      | some ml =>
        simp only [hp, Option.map_some, Option.some.injEq] at hr
        exact Or.inr (Or.inr ⟨ml, _, by rw [hr, ← hf]; rfl⟩)
  | .branch l r, root, hr, hs, m, hlen, hf => by
    simp only [Tree.hash] at hr
    cases hlh : l.hash H with
    | none => simp [hlh] at hr
    | some lh =>
      cases hrh : r.hash H with
      | none => simp [hlh, hrh] at hr
      | some rh =>
        simp only [hlh, hrh, Option.bind_eq_bind, Option.bind_some, Option.pure_def, Option.some.injEq] at hr
        rcases List.eq_nil_or_concat hs with rfl | ⟨hs0, h, rfl⟩
        · simp only [foldPath] at hf
          exact Or.inr (Or.inr ⟨m, _, by rw [hf, ← hr]; rfl⟩)
        · rw [List.concat_eq_append] at hf hlen ⊢
          rw [foldPath_snoc] at hf
          have hlen0 : ∀ x ∈ hs0, x.length = L := fun x hx => hlen x (by simp [hx])
          have hh : h.length = L := hlen h (by simp)
          have hc0 : (foldPath H (H.tapLeaf m) hs0).length = L := foldPath_length H hB hs0 _ (hL m)
          have hlhL := Tree.hash_length H hL hB l lh hlh
          have hrhL := Tree.hash_length H hL hB r rh hrh
          by_cases hpre : branchPre (foldPath H (H.tapLeaf m) hs0) h = branchPre lh rh
          · rcases branchPre_inj hc0 hh hlhL hrhL hpre with ⟨e1, e2⟩ | ⟨e1, e2⟩
            · rcases opens_of_fold H hL hB l lh hlh hs0 m hlen0 e1 with ho | hc
              · subst e2; exact Or.inl (Opens.left _ _ _ _ _ ho hrh)
              · exact Or.inr hc
            · rcases opens_of_fold H hL hB r rh hrh hs0 m hlen0 e1 with ho | hc
              · subst e2; exact Or.inl (Opens.right _ _ _ _ _ ho hlh)
              · exact Or.inr hc
          · exact Or.inr (Or.inl ⟨_, _, hpre, by
              have : branchHash H (foldPath H (H.tapLeaf m) hs0) h = branchHash H lh rh := by rw [hf, hr]
              exact this⟩)

/-- with the same sibling hashes, different starting hashes fold to different roots (or TapBranch collides) -/
theorem foldPath_inj_left (H : Hashes) {L : Nat} (hB : ∀ m, (H.tapBranch m).length = L) :
    ∀ (hs : List Bytes) (c c' : Bytes), c.length = L → c'.length = L → (∀ h ∈ hs, h.length = L) →
    foldPath H c hs = foldPath H c' hs → c = c' ∨ BranchCollision H
  | [], _, _, _, _, _, h => Or.inl h
  | x :: t, c, c', hc, hc', hl, h => by
    simp only [foldPath] at h
    rcases foldPath_inj_left H hB t _ _ (hB _) (hB _) (fun y hy => hl y (by simp [hy])) h with he | hcol
    · by_cases hpre : branchPre c x = branchPre c' x
      · have hx : x.length = L := hl x (by simp)
        rcases branchPre_inj hc hx hc' hx hpre with ⟨e, _⟩ | ⟨e1, e2⟩
        · exact Or.inl e
        · exact Or.inl (by rw [e1, e2])
      · exact Or.inr ⟨_, _, hpre, he⟩
    · exact Or.inr hcol

/-- an opening is unique when the leaves of the tree have pairwise different hash preimages (or TapLeaf collides) -/
theorem opens_unique (H : Hashes) : ∀ (t : Tree) (c : Bytes) (hs hs' : List Bytes),
    (t.leaves.map Leaf.preimage).Nodup → Opens H t c hs → Opens H t c hs' → hs = hs' ∨ LeafCollision H := by
  intro t
  induction t with
  | leaf l =>
    intro c hs hs' _ h h'
    cases h; cases h'; exact Or.inl rfl
  | branch l r ihl ihr =>
    intro c hs hs' hnd h h'
    simp only [Tree.leaves, List.map_append] at hnd
    have hndl := (List.nodup_append.mp hnd).1
    have hndr := (List.nodup_append.mp hnd).2.1
    have hdis := (List.nodup_append.mp hnd).2.2
    have cross : ∀ {p q : List Bytes}, Opens H l c p → Opens H r c q → LeafCollision H := by
      intro p q ho ho'
      obtain ⟨x, hx, hxc⟩ := ho.exists_leaf
      obtain ⟨y, hy, hyc⟩ := ho'.exists_leaf
      rw [Leaf.hash_eq] at hxc hyc
      cases hpx : x.preimage with
      | none => simp [hpx] at hxc
      | some mx =>
        cases hpy : y.preimage with
        | none => simp [hpy] at hyc
        | some my =>
          simp only [hpx, hpy, Option.map_some, Option.some.injEq] at hxc hyc
          refine ⟨mx, my, ?_, by rw [hxc, hyc]⟩
          intro hm
          exact hdis _ (List.mem_map.mpr ⟨x, hx, hpx⟩) _ (List.mem_map.mpr ⟨y, hy, hpy⟩) (by rw [hm])
    cases h with
    | left _ _ _ p rh ho hr =>
      cases h' with
      | left _ _ _ p' rh' ho' hr' =>
        rcases ihl c p p' hndl ho ho' with e | hc
        · rw [hr] at hr'; cases hr'; exact Or.inl (by rw [e])
        · exact Or.inr hc
      | right _ _ _ p' lh' ho' hl' => exact Or.inr (cross ho ho')
    | right _ _ _ p lh ho hl =>
      cases h' with
      | left _ _ _ p' rh' ho' hr' => exact Or.inr (cross ho' ho)
      | right _ _ _ p' lh' ho' hl' =>
        rcases ihr c p p' hndr ho ho' with e | hc
        · rw [hl] at hl'; cases hl'; exact Or.inl (by rw [e])
        · exact Or.inr hc

/-! ## acceptance of a (control block, script) pair for an output key -/

/-- the point a 32-byte string parses to has that string as its x-only encoding -/
theorem xonly_of_parseXonly {rb : Bytes} (hl : rb.length = 32) {R : Pt} (h : parseXonly rb = some R) :
    xonly R = rb := by
  have hrt : natToBE' 32 (beToNat rb) = rb := by rw [← hl]; exact natToBE'_beToNat rb
  unfold parseXonly at h
  simp only at h
  split at h
  · next h0 => cases h; simp only [xonly]; rw [← h0]; exact hrt
  · split at h
    · cases h
    · split at h
      · cases h
      · next beta _ =>
        have key : ∀ y, mkPoint (beToNat rb) y = some R → xonly R = rb := by
          intro y hy
          unfold mkPoint at hy
          split at hy
          · cases hy; exact hrt
          · cases hy
        split at h <;> exact key _ h

/-- what an accepted pair consists of -/
theorem cbAccepts_some {H : Hashes} {b : Bytes} {s : Script} {qx : Bytes} (h : cbAccepts H b s qx = true) :
    ∃ cb m q, ControlBlock.parse b = some cb ∧ Leaf.preimage { script := s, version := cb.version } = some m ∧
      tweakedKey H cb.internal (foldPath H (H.tapLeaf m) cb.hashes) = some q ∧
      parityOf q = some cb.parity ∧ xonly q = qx := by
  unfold cbAccepts at h
  cases hp : ControlBlock.parse b with
  | none => simp [hp] at h
  | some cb =>
    simp only [hp] at h
    cases he : cb.externalPubkey H s with
    | none => simp [he] at h
    | some q =>
      simp only [he] at h
      cases hpar : parityOf q with
      | none => simp [hpar] at h
      | some par =>
        simp only [hpar, Bool.and_eq_true, beq_iff_eq] at h
        simp only [ControlBlock.externalPubkey, ControlBlock.merkleRoot, Leaf.hash_eq] at he
        cases hm : Leaf.preimage { script := s, version := cb.version } with
        | none => simp [hm] at he
        | some m =>
          simp only [hm, Option.map_some, Option.bind_eq_bind, Option.bind_some, Option.pure_def] at he
          exact ⟨cb, m, q, rfl, hm, he, by rw [hpar, h.1], h.2⟩

theorem cbAccepts_of {H : Hashes} {b : Bytes} {s : Script} {cb : ControlBlock} {m : Bytes} {q : Pt}
    (hp : ControlBlock.parse b = some cb) (hm : Leaf.preimage { script := s, version := cb.version } = some m)
    (hq : tweakedKey H cb.internal (foldPath H (H.tapLeaf m) cb.hashes) = some q)
    (hpar : parityOf q = some cb.parity) : cbAccepts H b s (xonly q) = true := by
  unfold cbAccepts
  simp [hp, ControlBlock.externalPubkey, ControlBlock.merkleRoot, Leaf.hash_eq, hm, hq, hpar]

/-- **opening soundness**: whatever (control block, script) pair is accepted for the output key of
    (internal key `P`, tree `t`) is a genuine opening of a leaf occurrence of `t` under the same x-only
    internal key — or it exhibits a collision of H_TapBranch, of H_TapLeaf against H_TapBranch, or of the
    tweak map.  Hash lengths: the fixed 32 bytes of the control-block layout. -/
theorem cbAccepts_opens (H : Hashes) (hL : ∀ m, (H.tapLeaf m).length = 32) (hB : ∀ m, (H.tapBranch m).length = 32)
    {t : Tree} {P Q : Pt} {root : Bytes} (hr : t.hash H = some root) (hq : tweakedKey H P root = some Q)
    {b : Bytes} {s : Script} (hacc : cbAccepts H b s (xonly Q) = true) :
    ∃ cb m, ControlBlock.parse b = some cb ∧ Leaf.preimage { script := s, version := cb.version } = some m ∧
      ((xonly cb.internal = xonly P ∧ Opens H t (H.tapLeaf m) cb.hashes) ∨
        BranchCollision H ∨ CrossCollision H ∨ TweakCollision H) := by
  obtain ⟨cb, m, q, hp, hm, hq', _, hx⟩ := cbAccepts_some hacc
  refine ⟨cb, m, hp, hm, ?_⟩
  obtain ⟨_, _, _, _, _, _, _, hlen, _, _⟩ := cb_parse_sound hp
  by_cases he : (xonly cb.internal, foldPath H (H.tapLeaf m) cb.hashes) = (xonly P, root)
  · simp only [Prod.mk.injEq] at he
    rcases opens_of_fold H hL hB t root hr cb.hashes m hlen he.2 with ho | hc | hc
    · exact Or.inl ⟨he.1, ho⟩
    · exact Or.inr (Or.inl hc)
    · exact Or.inr (Or.inr (Or.inl hc))
  · exact Or.inr (Or.inr (Or.inr ⟨_, _, _, _, _, _, he, hq', hq, hx⟩))

/-- **altered leaf script**: the same control block accepted with two scripts whose leaf preimages differ
    exhibits a collision -/
theorem tamper_script (H : Hashes) (hL : ∀ m, (H.tapLeaf m).length = 32) (hB : ∀ m, (H.tapBranch m).length = 32)
    {b : Bytes} {s s' : Script} {qx : Bytes} {cb : ControlBlock} (hp : ControlBlock.parse b = some cb)
    (h : cbAccepts H b s qx = true) (h' : cbAccepts H b s' qx = true)
    (hne : Leaf.preimage { script := s, version := cb.version } ≠ Leaf.preimage { script := s', version := cb.version }) :
    LeafCollision H ∨ BranchCollision H ∨ TweakCollision H := by
  obtain ⟨cb1, m, q, hp1, hm, hq, _, hx⟩ := cbAccepts_some h
  obtain ⟨cb2, m', q', hp2, hm', hq', _, hx'⟩ := cbAccepts_some h'
  rw [hp] at hp1 hp2
  cases hp1; cases hp2
  have hmm : m ≠ m' := by intro e; apply hne; rw [hm, hm', e]
  obtain ⟨_, _, _, _, _, _, _, hlen, _, _⟩ := cb_parse_sound hp
  by_cases hc : H.tapLeaf m = H.tapLeaf m'
  · exact Or.inl ⟨m, m', hmm, hc⟩
  · by_cases hroot : foldPath H (H.tapLeaf m) cb.hashes = foldPath H (H.tapLeaf m') cb.hashes
    · rcases foldPath_inj_left H hB cb.hashes _ _ (hL m) (hL m') hlen hroot with e | hcol
      · exact absurd e hc
      · exact Or.inr (Or.inl hcol)
    · refine Or.inr (Or.inr ⟨cb.internal, _, cb.internal, _, q, q', ?_, hq, hq', by rw [hx, hx']⟩)
      intro e
      exact hroot (Prod.mk.inj e).2

theorem byte_of_masks : ∀ x, x < 256 → (x &&& 254) + (x &&& 1) = x := by decide +kernel

/-- **altered control block, byte level**: let `b` be the serialised control block the library builds for
    leaf `x` of `t`.  If another byte string `b'` is accepted with `x`'s script for the same output key, then
    `b'` agrees with `b` on everything except possibly the parity bit of the first byte — or a collision is
    exhibited.  Hypotheses on the tree: `x` hashes like the leaves that compare equal to it; the leaves have
    pairwise different hash preimages; no other leaf carries `x`'s script bytes under another version. -/
theorem tamper_control_block (H : Hashes) (hL : ∀ m, (H.tapLeaf m).length = 32) (hB : ∀ m, (H.tapBranch m).length = 32)
    {t : Tree} {P : Pt} {x : Leaf} {cb : ControlBlock} {b b' : Bytes}
    (hcb : t.controlBlock H P (some x) = some cb) (hser : cb.serialize = some b)
    (hcoh : ∀ l ∈ t.leaves, x.eqv l = true → l.hash H = x.hash H)
    (hnd : (t.leaves.map Leaf.preimage).Nodup)
    (huniq : ∀ l ∈ t.leaves, Script.serialize l.script = Script.serialize x.script → l.preimage = x.preimage)
    {Q : Pt} {root : Bytes} (hr : t.hash H = some root) (hq : tweakedKey H P root = some Q)
    (hacc : cbAccepts H b' x.script (xonly Q) = true) :
    (∃ (b0 b0' : UInt8) (rest : Bytes) (cb' : ControlBlock) (q' : Pt), b = b0 :: rest ∧ b' = b0' :: rest ∧ b0'.toNat &&& 254 = b0.toNat &&& 254 ∧
        b0.toNat &&& 1 = cb.parity ∧ b0'.toNat &&& 1 = cb'.parity ∧
        parseXonly (xonly P) = some cb'.internal ∧ tweakedKey H cb'.internal root = some q' ∧
        parityOf q' = some cb'.parity) ∨
      LeafCollision H ∨ BranchCollision H ∨ CrossCollision H ∨ TweakCollision H := by
  obtain ⟨hin, hver, hint, root1, Q1, hr1, _, _, hpath⟩ := controlBlock_some H hcb
  rw [hr] at hr1; cases hr1
  obtain ⟨cb', m', hp', hm', hrest⟩ := cbAccepts_opens H hL hB hr hq hacc
  rcases hrest with ⟨hxk, ho'⟩ | hc | hc | hc
  · -- the genuine opening
    obtain ⟨y, hy, hey, c, hyc, ho⟩ := opens_of_pathHashes H t x cb.hashes root hin hpath hr
    have hxc : x.hash H = some c := by rw [← hcoh y hy hey]; exact hyc
    -- the leaf opened by b'
    obtain ⟨l', hl', hl'c⟩ := ho'.exists_leaf
    rw [Leaf.hash_eq] at hl'c hxc
    cases hpl : l'.preimage with
    | none => simp [hpl] at hl'c
    | some ml =>
      cases hpx : x.preimage with
      | none => simp [hpx] at hxc
      | some mx =>
        simp only [hpl, hpx, Option.map_some, Option.some.injEq] at hl'c hxc
        by_cases hmm : ml = m'
        · subst hmm
          -- l' carries x's script bytes, hence has x's preimage
          have hser' : Script.serialize l'.script = Script.serialize x.script := by
            simp only [Leaf.preimage] at hpl hm'
            cases hv1 : intToByte l'.version with
            | none => simp [hv1] at hpl
            | some v1 =>
              cases hs1 : Script.serialize l'.script with
              | none => simp [hv1, hs1] at hpl
              | some s1 =>
                cases hv2 : intToByte cb'.version with
                | none => simp [hv2] at hm'
                | some v2 =>
                  cases hs2 : Script.serialize x.script with
                  | none => simp [hv2, hs2] at hm'
                  | some s2 =>
                    simp only [hv1, hs1, hv2, hs2, Option.bind_eq_bind, Option.bind_some, Option.pure_def,
                      Option.some.injEq] at hpl hm'
                    have l1 : v1.length = 1 := by
                      unfold intToByte at hv1; split at hv1 <;> cases hv1; rfl
                    have l2 : v2.length = 1 := by
                      unfold intToByte at hv2; split at hv2 <;> cases hv2; rfl
                    have := List.append_inj (hpl.trans hm'.symm) (by omega)
                    rw [this.2]
          have hpre : l'.preimage = x.preimage := huniq l' hl' hser'
          rw [hpl, hpx] at hpre
          cases hpre
          -- same leaf hash: unique opening
          rw [← hxc] at ho
          rcases opens_unique H t _ _ _ hnd ho ho' with ehs | hcol
          · -- versions agree
            have hvv : cb'.version = x.version := by
              simp only [Leaf.preimage] at hpx hm'
              cases hv1 : intToByte x.version with
              | none => simp [hv1] at hpx
              | some v1 =>
                cases hv2 : intToByte cb'.version with
                | none => simp [hv2] at hm'
                | some v2 =>
                  cases hs2 : Script.serialize x.script with
                  | none => simp [hv2, hs2] at hm'
                  | some s2 =>
                    simp only [hv1, hv2, hs2, Option.bind_eq_bind, Option.bind_some, Option.pure_def,
                      Option.some.injEq] at hpx hm'
                    have l1 : v1.length = 1 := by
                      unfold intToByte at hv1; split at hv1 <;> cases hv1; rfl
                    have l2 : v2.length = 1 := by
                      unfold intToByte at hv2; split at hv2 <;> cases hv2; rfl
                    have e := (List.append_inj (hpx.trans hm'.symm) (by omega)).1
                    unfold intToByte at hv1 hv2
                    split at hv1
                    · split at hv2
                      · cases hv1; cases hv2
                        simp only [List.cons.injEq, and_true] at e
                        have := congrArg UInt8.toNat e
                        rw [u8_ofNat_toNat, u8_ofNat_toNat] at this
                        omega
                      · cases hv2
                    · cases hv1
            obtain ⟨b0', key', hb', hkl', hkp', hv', hpar', _, _, _⟩ := cb_parse_sound hp'
            have hkey' : key' = xonly P := by rw [← hxk]; exact (xonly_of_parseXonly hkl' hkp').symm
            -- the shape of b
            have hvp : cb.version + cb.parity < 256 := by
              unfold ControlBlock.serialize at hser
              cases hi : intToByte (cb.version + cb.parity) with
              | none => simp [hi] at hser
              | some _ => unfold intToByte at hi; split at hi; · omega
                          · cases hi
            rw [cbSerialize_eq hvp] at hser
            cases hser
            -- cb.parity is a parity bit, cb.version an even byte
            obtain ⟨_, _, _, _, Q2, _, _, hpar2, _⟩ := controlBlock_some H hcb
            have hp2 : cb.parity < 2 := by
              obtain ⟨_, hpq⟩ := parityOf_some hpar2
              cases Q2 with
              | inf => simp [parityOf] at hpar2
              | aff qx qy => simp only [parity] at hpq; omega
            have hv256 : cb.version < 256 := by omega
            have hev : cb.version % 2 = 0 := by
              rw [hver, ← hvv, hv']
              have := byte_of_masks b0'.toNat (UInt8.toNat_lt b0')
              have h1 : b0'.toNat &&& 1 = b0'.toNat % 2 := Nat.and_one_is_mod _
              omega
            have hmask := and_masks cb.version hv256 cb.parity hp2 hev
            -- the key recomputed from b'
            obtain ⟨cb2, m2, q2, hp2', hm2, hq2, hpar2', _⟩ := cbAccepts_some hacc
            rw [hp'] at hp2'; cases hp2'
            rw [hm'] at hm2; cases hm2
            have hroot := ho'.fold
            rw [hr] at hroot; cases hroot
            refine Or.inl ⟨_, b0', xonly P ++ cb.hashes.flatten, cb', q2, by rw [hint], by rw [hb', hkey', ← ehs],
              ?_, ?_, hpar'.symm, by rw [← hkey']; exact hkp', hq2, hpar2'⟩
            · rw [← hv', hvv, ← hver, u8_ofNat_toNat, Nat.mod_eq_of_lt hvp]
              exact hmask.1.symm
            · rw [u8_ofNat_toNat, Nat.mod_eq_of_lt hvp]
              exact hmask.2
          · exact Or.inr (Or.inl hcol)
        · exact Or.inr (Or.inl ⟨ml, m', hmm, hl'c⟩)
  · exact Or.inr (Or.inr (Or.inl hc))
  · exact Or.inr (Or.inr (Or.inr (Or.inl hc)))
  · exact Or.inr (Or.inr (Or.inr (Or.inr hc)))

/-! ## the `_leaves` memo is transparent -/

theorem MTree.erase_fresh : ∀ t : Tree, (MTree.fresh t).erase = t
  | .leaf _ => rfl
  | .branch l r => by simp [MTree.fresh, MTree.erase, MTree.erase_fresh l, MTree.erase_fresh r]

theorem MTree.memoOK_fresh : ∀ t : Tree, (MTree.fresh t).MemoOK
  | .leaf _ => trivial
  | .branch l r => ⟨MTree.memoOK_fresh l, MTree.memoOK_fresh r, fun m h => by cases h⟩

/-- one call of `leaves()` on an object satisfying the invariant: the answer is the leaf list of the tree, the tree
    itself is unchanged, and the invariant is kept -/
theorem MTree.leavesM_spec : ∀ t : MTree, t.MemoOK →
    t.leavesM.1 = t.erase.leaves ∧ t.leavesM.2.erase = t.erase ∧ t.leavesM.2.MemoOK
  | .leaf _, _ => ⟨rfl, rfl, trivial⟩
  | .branch l r (some m), h => ⟨h.2.2 m rfl, rfl, h⟩
  | .branch l r none, h => by
    obtain ⟨a1, a2, a3⟩ := MTree.leavesM_spec l h.1
    obtain ⟨b1, b2, b3⟩ := MTree.leavesM_spec r h.2.1
    refine ⟨?_, ?_, a3, b3, ?_⟩
    · simp only [MTree.leavesM, MTree.erase, Tree.leaves, a1, b1]
    · simp only [MTree.leavesM, MTree.erase, a2, b2]
    · intro m hm
      simp only [MTree.leavesM, Option.some.injEq] at hm
      rw [← hm]
      simp only [MTree.erase, Tree.leaves, a1, b1, a2, b2]

/-- any history of `leaves()` calls on any nodes reached from a fresh object: iterate -/
def MTree.leavesIter : Nat → MTree → List (List Leaf) × MTree
  | 0, t => ([], t)
  | n + 1, t => let a := t.leavesM; let r := MTree.leavesIter n a.2; (a.1 :: r.1, r.2)

theorem MTree.leavesIter_spec : ∀ (n : Nat) (t : MTree), t.MemoOK →
    (MTree.leavesIter n t).1 = List.replicate n t.erase.leaves ∧ (MTree.leavesIter n t).2.erase = t.erase ∧
      (MTree.leavesIter n t).2.MemoOK
  | 0, _, h => ⟨rfl, rfl, h⟩
  | n + 1, t, h => by
    obtain ⟨a1, a2, a3⟩ := MTree.leavesM_spec t h
    obtain ⟨b1, b2, b3⟩ := MTree.leavesIter_spec n t.leavesM.2 a3
    refine ⟨?_, ?_, b3⟩
    · simp only [MTree.leavesIter, b1, a1, a2, List.replicate_succ]
    · simp only [MTree.leavesIter, b2, a2]

end Buidl.Taproot
