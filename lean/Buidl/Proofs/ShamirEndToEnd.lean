/-
  Buidl.Proofs.ShamirEndToEnd — composition: `generate_shares` followed by `recover_mnemonic` on any k or more
  distinct share mnemonics returns the canonical BIP39 mnemonic of the secret.
-/
import Buidl.Proofs.ShamirSplit
import Buidl.Proofs.ShareCodec
import Buidl.Proofs.Shamir
namespace Buidl.Shamir
open Buidl Buidl.Mnemonic

/-! ## generic list plumbing -/

theorem mapM?_forall2 {α β} (f : α → Option β) : ∀ (l : List α) (l' : List β),
    mapM? f l = some l' → List.Forall₂ (fun a b => f a = some b) l l' := by
  intro l
  induction l with
  | nil => intro l' h; simp only [mapM?, Option.some.injEq] at h; rw [← h]; exact List.Forall₂.nil
  | cons a r ih =>
    intro l' h
    rw [mapM?] at h
    cases ha : f a with
    | none => rw [ha] at h; cases h
    | some b =>
      cases hr : mapM? f r with
      | none => rw [ha, hr] at h; cases h
      | some bs =>
        rw [ha, hr] at h
        simp only [Option.some.injEq] at h
        rw [← h]
        exact List.Forall₂.cons ha (ih bs hr)

theorem mapM?_of_forall2 {α β} (f : α → Option β) : ∀ (l : List α) (l' : List β),
    List.Forall₂ (fun a b => f a = some b) l l' → mapM? f l = some l' := by
  intro l l' h
  induction h with
  | nil => rfl
  | cons h1 _ ih => rw [mapM?, h1, ih]

theorem forall2_mem_right {α β} {R : α → β → Prop} {l : List α} {l' : List β} (h : List.Forall₂ R l l') :
    ∀ b ∈ l', ∃ a ∈ l, R a b := by
  induction h with
  | nil => intro b hb; simp at hb
  | cons h1 _ ih =>
    intro b hb
    simp only [List.mem_cons] at hb
    rcases hb with rfl | hb
    · exact ⟨_, by simp, h1⟩
    · obtain ⟨a, ha, hr⟩ := ih b hb
      exact ⟨a, by simp [ha], hr⟩

theorem forall2_mem_left {α β} {R : α → β → Prop} {l : List α} {l' : List β} (h : List.Forall₂ R l l') :
    ∀ a ∈ l, ∃ b ∈ l', R a b := by
  induction h with
  | nil => intro a ha; simp at ha
  | cons h1 _ ih =>
    intro a ha
    simp only [List.mem_cons] at ha
    rcases ha with rfl | ha
    · exact ⟨_, by simp, h1⟩
    · obtain ⟨b, hb, hr⟩ := ih a ha
      exact ⟨b, by simp [hb], hr⟩

theorem forall2_nodup {α β} {R : α → β → Prop} (hinj : ∀ x y z, R x z → R y z → x = y)
    {l : List α} {l' : List β} (h : List.Forall₂ R l l') (hnd : l.Nodup) : l'.Nodup := by
  induction h with
  | nil => exact List.nodup_nil
  | cons h1 h2 ih =>
    rw [List.nodup_cons] at hnd ⊢
    refine ⟨?_, ih hnd.2⟩
    intro hmem
    obtain ⟨y, hy, hr⟩ := forall2_mem_right h2 _ hmem
    have := hinj _ _ _ h1 hr
    rw [this] at hnd
    exact hnd.1 hy

theorem forall2_length {α β} {R : α → β → Prop} {l : List α} {l' : List β} (h : List.Forall₂ R l l') :
    l.length = l'.length := by
  induction h with
  | nil => rfl
  | cons _ _ ih => simp [ih]

theorem allSame_of {α} [DecidableEq α] (f : Share → α) (l : List Share) (hne : l ≠ [])
    (h : ∀ s ∈ l, ∀ t ∈ l, f s = f t) : allSame f l = true := by
  cases l with
  | nil => exact absurd rfl hne
  | cons s0 r =>
    simp only [allSame, List.all_eq_true, decide_eq_true_eq]
    intro t ht
    exact h t (by simp [ht]) s0 (by simp)

theorem distinct_of_nodup {α} [DecidableEq α] : ∀ (l : List α), l.Nodup → distinct l = true := by
  intro l
  induction l with
  | nil => intro _; rfl
  | cons a r ih =>
    intro h
    rw [List.nodup_cons] at h
    simp only [distinct, Bool.and_eq_true, Bool.not_eq_true', List.contains_eq_mem,
      decide_eq_false_iff_not]
    exact ⟨h.1, ih h.2⟩

/-! ## the shares built by generate_shares -/

/-- the Share object `generate_shares` builds from one split entry -/
def mkShare (numBits id e k n : Nat) (p : Nat × Bytes) : Share :=
  ⟨numBits, id, e, p.1, k, n, 0, 1, beToNat p.2, p.2⟩

theorem mkShares_eq (numBits id e k n : Nat) (hk : 1 ≤ k) (hkn : k ≤ n) (hn : n ≤ 16) :
    ∀ (data : ShareData), (∀ p ∈ data, p.1 ≤ 15 ∧ p.2.length = numBits / 8) →
      mkShares numBits id e k n data = some (data.map (mkShare numBits id e k n)) := by
  intro data
  induction data with
  | nil => intro _; rfl
  | cons p r ih =>
    intro h
    obtain ⟨gi, b⟩ := p
    have hp := h (gi, b) (by simp)
    simp only at hp
    have hnew : Share.new numBits id e gi k n 0 1 (beToNat b) = some (mkShare numBits id e k n (gi, b)) := by
      unfold Share.new
      rw [if_neg (by omega), if_neg (by omega), if_neg (by omega), if_neg (by omega), if_neg (by omega)]
      have := natToBE_beToNat b
      rw [hp.2] at this
      rw [this]
      rfl
    rw [mkShares, hnew, ih (fun q hq => h q (by simp [hq]))]
    rfl

theorem mkShare_ok (numBits id e k n : Nat) (hnb : numBits = 128 ∨ numBits = 256) (hid : id < 2 ^ 15)
    (he : e < 32) (hk : 1 ≤ k) (hkn : k ≤ n) (hn : n ≤ 16) (p : Nat × Bytes) (hgi : p.1 ≤ 15)
    (hlen : p.2.length = numBits / 8) : ShareOK (mkShare numBits id e k n p) := by
  have hv : beToNat p.2 < 2 ^ numBits := by
    have := beToNat_lt p.2
    rw [hlen] at this
    have e2 : (256 : Nat) ^ (numBits / 8) = 2 ^ numBits := by
      rcases hnb with h | h <;> rw [h] <;> decide
    rwa [e2] at this
  refine ⟨hid, he, by show p.1 < 16; omega, hk, hkn, hn, by show 0 < 16; decide, by show 1 ≤ 1; decide,
    by show 1 ≤ 16; decide, ?_, ?_, hv, ?_⟩
  · show numBits % 16 = 0; rcases hnb with h | h <;> rw [h]
  · show 128 ≤ numBits; rcases hnb with h | h <;> rw [h] <;> decide
  · show p.2 = natToBE' (numBits / 8) (beToNat p.2)
    rw [← hlen, natToBE'_beToNat]

/-! ## recover: every share is its own 1-of-1 group -/

theorem gather_single (hmac256 : Bytes → Bytes → Bytes) (ss : List Share)
    (hmt : ∀ sh ∈ ss, sh.memberThreshold = 1) (hnd : (ss.map (·.groupIndex)).Nodup) :
    ∀ (is : List Nat), ∃ l, gatherGroups hmac256 ss is = some l ∧
      (∀ p ∈ l, ∃ sh ∈ ss, p = (sh.groupIndex, sh.bytes)) ∧
      (l.map (·.1)).Sublist is ∧
      (∀ sh ∈ ss, sh.groupIndex ∈ is → (sh.groupIndex, sh.bytes) ∈ l) := by
  intro is
  induction is with
  | nil => exact ⟨[], rfl, by simp, List.Sublist.refl _, by simp⟩
  | cons i r ih =>
    obtain ⟨l', h1, h2, h3, h4⟩ := ih
    rw [gatherGroups]
    cases hf : ss.filter (fun s => decide (s.groupIndex = i)) with
    | nil =>
      simp only [List.isEmpty_nil, if_true]
      refine ⟨l', h1, h2, List.Sublist.cons _ h3, ?_⟩
      intro sh hsh hm
      simp only [List.mem_cons] at hm
      rcases hm with hm | hm
      · have : sh ∈ ss.filter (fun s => decide (s.groupIndex = i)) := by
          simp [List.mem_filter, hsh, hm]
        rw [hf] at this; simp at this
      · exact h4 sh hsh hm
    | cons g0 rest =>
      have hg0 : g0 ∈ ss ∧ g0.groupIndex = i := by
        have : g0 ∈ ss.filter (fun s => decide (s.groupIndex = i)) := by rw [hf]; simp
        simpa [List.mem_filter] using this
      have hrest : rest = [] := by
        cases rest with
        | nil => rfl
        | cons g1 rest' =>
          exfalso
          have hsub : ((g0 :: g1 :: rest').map (·.groupIndex)).Sublist (ss.map (·.groupIndex)) := by
            rw [← hf]; exact (List.filter_sublist).map _
          have hnd2 := hnd.sublist hsub
          have hg1 : g1.groupIndex = i := by
            have : g1 ∈ ss.filter (fun s => decide (s.groupIndex = i)) := by rw [hf]; simp
            rw [List.mem_filter] at this
            simpa using this.2
          simp only [List.map_cons, List.nodup_cons, List.mem_cons] at hnd2
          exact hnd2.1 (Or.inl (by rw [hg0.2, hg1]))
      subst hrest
      have hentry : groupEntry hmac256 i [g0] = some (i, g0.bytes) := by
        unfold groupEntry
        simp [allSame, hmt g0 hg0.1]
      simp only [List.isEmpty_cons, Bool.false_eq_true, if_false, hentry, h1]
      refine ⟨(i, g0.bytes) :: l', rfl, ?_, ?_, ?_⟩
      · intro p hp
        simp only [List.mem_cons] at hp
        rcases hp with rfl | hp
        · exact ⟨g0, hg0.1, by rw [hg0.2]⟩
        · exact h2 p hp
      · simp only [List.map_cons]; exact h3.cons_cons _
      · intro sh hsh hm
        simp only [List.mem_cons] at hm
        rcases hm with hm | hm
        · have : sh ∈ ss.filter (fun s => decide (s.groupIndex = i)) := by
            simp [List.mem_filter, hsh, hm]
          rw [hf] at this
          simp only [List.mem_singleton] at this
          rw [this, hg0.2]; simp
        · exact List.mem_cons_of_mem _ (h4 sh hsh hm)

/-! ## generate_shares → recover_mnemonic -/

theorem forall2_of_exists {α β} {R : α → β → Prop} : ∀ (l : List α), (∀ a ∈ l, ∃ b, R a b) →
    ∃ l', List.Forall₂ R l l' := by
  intro l
  induction l with
  | nil => intro _; exact ⟨[], List.Forall₂.nil⟩
  | cons a r ih =>
    intro h
    obtain ⟨b, hb⟩ := h a (by simp)
    obtain ⟨l', hl'⟩ := ih (fun x hx => h x (by simp [hx]))
    exact ⟨b :: l', List.Forall₂.cons hb hl'⟩

/-- what `generate_shares` computes, unpacked -/
theorem generateShares_unpack (sha256 : Bytes → Bytes) (hmac256 : Bytes → Bytes → Bytes)
    (kdf : Bytes → Bytes → Nat → Nat → Bytes) (bip39 slip39 : WordList)
    (mnemonic : PyStr) (k n : Nat) (pass : Bytes) (e id : Nat) (ρ : List Nat) (ms : List PyStr)
    (hgen : generateShares sha256 hmac256 kdf bip39 slip39 mnemonic k n pass e id ρ = .ok ms) :
    ∃ secret enc data rest shares,
      mnemonicToBytes sha256 bip39 mnemonic = some secret ∧
      (secret.length * 8 = 128 ∨ secret.length * 8 = 256) ∧
      encrypt kdf secret id e pass = some enc ∧
      splitSecret hmac256 enc k n ρ = .ok data rest ∧
      mkShares (secret.length * 8) id e k n data = some shares ∧
      mapM? (Share.mnemonic slip39) shares = some ms := by
  unfold generateShares at hgen
  cases hsec : mnemonicToBytes sha256 bip39 mnemonic with
  | none => rw [hsec] at hgen; cases hgen
  | some secret =>
    rw [hsec] at hgen
    simp only at hgen
    by_cases hb : Gen.genSharesBits.contains (secret.length * 8) = true
    · simp only [hb, Bool.not_true, Bool.false_eq_true, if_false] at hgen
      cases henc : encrypt kdf secret id e pass with
      | none => rw [henc] at hgen; cases hgen
      | some enc =>
        rw [henc] at hgen
        simp only at hgen
        cases hsp : splitSecret hmac256 enc k n ρ with
        | reject => rw [hsp] at hgen; cases hgen
        | noRandomness => rw [hsp] at hgen; cases hgen
        | ok data rest =>
          rw [hsp] at hgen
          simp only at hgen
          cases hmk : mkShares (secret.length * 8) id e k n data with
          | none => rw [hmk] at hgen; cases hgen
          | some shares =>
            rw [hmk] at hgen
            simp only at hgen
            cases hms : mapM? (Share.mnemonic slip39) shares with
            | none => rw [hms] at hgen; cases hgen
            | some ms' =>
              rw [hms] at hgen
              simp only [GenResult.ok.injEq] at hgen
              subst hgen
              have hbits : secret.length * 8 = 128 ∨ secret.length * 8 = 256 := by
                simp only [Gen.genSharesBits, List.contains_eq_mem, List.mem_cons, List.not_mem_nil,
                  or_false, decide_eq_true_eq] at hb
                exact hb
              exact ⟨secret, enc, data, rest, shares, rfl, hbits, henc, hsp, hmk, hms⟩
    · have hb' : Gen.genSharesBits.contains (secret.length * 8) = false := by simpa using hb
      rw [hb'] at hgen
      simp at hgen

/-- **generate_shares then recover_mnemonic**: any `k` or more distinct share mnemonics, in any order, with
    the same passphrase, give back the canonical BIP39 mnemonic of the secret -/
theorem generate_recover (sha256 : Bytes → Bytes) (hmac256 : Bytes → Bytes → Bytes)
    (kdf : Bytes → Bytes → Nat → Nat → Bytes) (hh : ∀ k m, 4 ≤ (hmac256 k m).length)
    (hkdf : ∀ p s c n, (kdf p s c n).length = n) (bip39 slip39 : WordList) (tok : TableOK 1024 slip39)
    (mnemonic : PyStr) (k n : Nat) (pass : Bytes) (e id : Nat) (ρ : List Nat) (ms : List PyStr)
    (hid : id < 2 ^ 15) (he : e < 32)
    (hgen : generateShares sha256 hmac256 kdf bip39 slip39 mnemonic k n pass e id ρ = .ok ms)
    (sub : List PyStr) (hsub : ∀ m ∈ sub, m ∈ ms) (hnd : sub.Nodup) (hlen : k ≤ sub.length) :
    ∃ secret, mnemonicToBytes sha256 bip39 mnemonic = some secret ∧
      recoverMnemonic sha256 hmac256 kdf bip39 slip39 sub pass
        = bytesToMnemonic sha256 bip39 secret (secret.length * 8) := by
  obtain ⟨secret, enc, data, rest, shares, hsec, hbits, henc, hsp, hmk, hms⟩ :=
    generateShares_unpack sha256 hmac256 kdf bip39 slip39 mnemonic k n pass e id ρ ms hgen
  refine ⟨secret, hsec, ?_⟩
  obtain ⟨hdec, henclen⟩ := decrypt_encrypt kdf hkdf secret id e pass enc henc
  obtain ⟨hk1, hkn, hn16, _, hdata, hdnd, hkone⟩ := split_data_facts hmac256 hh enc k n ρ data rest hsp
  set numBits := secret.length * 8 with hnb
  have hL8 : numBits / 8 = enc.length := by rw [henclen, hnb]; omega
  -- the Share objects
  have hshares : shares = data.map (mkShare numBits id e k n) := by
    have := mkShares_eq numBits id e k n hk1 hkn hn16 data
      (fun p hp => ⟨by have := (hdata p hp).1; omega, by rw [hL8]; exact (hdata p hp).2⟩)
    rw [hmk] at this
    exact Option.some.inj this
  have hok : ∀ p ∈ data, ShareOK (mkShare numBits id e k n p) := fun p hp =>
    mkShare_ok numBits id e k n hbits hid he hk1 hkn hn16 p (by have := (hdata p hp).1; omega)
      (by rw [hL8]; exact (hdata p hp).2)
  have hF := mapM?_forall2 _ _ _ hms
  -- each chosen mnemonic parses to the share it came from
  have hpar : ∀ m ∈ sub, ∃ sh, Share.parse slip39 m = some sh ∧ sh ∈ shares ∧
      Share.mnemonic slip39 sh = some m := by
    intro m hm
    obtain ⟨sh, hsh, hmn⟩ := forall2_mem_right hF m (hsub m hm)
    have hsh' := hsh
    rw [hshares, List.mem_map] at hsh'
    obtain ⟨p, hp, rfl⟩ := hsh'
    obtain ⟨m', h1, h2⟩ := parse_mnemonic slip39 tok _ (hok p hp)
    rw [hmn] at h1
    cases h1
    exact ⟨_, h2, hsh, hmn⟩
  obtain ⟨l, hl⟩ := forall2_of_exists sub hpar
  have hmap : mapM? (Share.parse slip39) sub = some l :=
    mapM?_of_forall2 _ _ _ (hl.imp fun _ _ h => h.1)
  have hlmem : ∀ sh ∈ l, sh ∈ shares := by
    intro sh hsh
    obtain ⟨m, _, hr⟩ := forall2_mem_right hl sh hsh
    exact hr.2.1
  have hlnd : l.Nodup := by
    refine forall2_nodup ?_ hl hnd
    intro x y z hx hy
    have := hx.2.2.symm.trans hy.2.2
    exact Option.some.inj this
  have hllen : l.length = sub.length := (forall2_length hl).symm
  -- group indices are distinct
  have hginj : ∀ s ∈ shares, ∀ t ∈ shares, s.groupIndex = t.groupIndex → s = t := by
    intro s hs t ht hst
    rw [hshares, List.mem_map] at hs ht
    obtain ⟨p, hp, rfl⟩ := hs
    obtain ⟨q, hq, rfl⟩ := ht
    have : p = q := List.inj_on_of_nodup_map hdnd hp hq hst
    rw [this]
  have hgind : (l.map (·.groupIndex)).Nodup :=
    List.Nodup.map_on (fun s hs t ht hst => hginj s (hlmem s hs) t (hlmem t ht) hst) hlnd
  -- common fields
  have hfield : ∀ sh ∈ l, sh.shareBitLength = numBits ∧ sh.id = id ∧ sh.exponent = e ∧
      sh.groupThreshold = k ∧ sh.groupCount = n ∧ sh.memberIndex = 0 ∧ sh.memberThreshold = 1 ∧
      sh.groupIndex < n ∧ (sh.groupIndex, sh.bytes) ∈ data := by
    intro sh hsh
    have := hlmem sh hsh
    rw [hshares, List.mem_map] at this
    obtain ⟨p, hp, rfl⟩ := this
    exact ⟨rfl, rfl, rfl, rfl, rfl, rfl, rfl, (hdata p hp).1, hp⟩
  cases l with
  | nil => simp at hllen; omega
  | cons s0 r =>
    have hs0 := hfield s0 (by simp)
    -- ShareSet.__init__ accepts
    have hnew : ShareSet.new (s0 :: r) = some (s0 :: r) := by
      unfold ShareSet.new
      simp only
      split
      · have hne : s0 :: r ≠ [] := by simp
        rw [allSame_of (·.id) _ hne (fun s hs t ht => by rw [(hfield s hs).2.1, (hfield t ht).2.1]),
          allSame_of (·.exponent) _ hne (fun s hs t ht => by rw [(hfield s hs).2.2.1, (hfield t ht).2.2.1]),
          allSame_of (·.groupThreshold) _ hne
            (fun s hs t ht => by rw [(hfield s hs).2.2.2.1, (hfield t ht).2.2.2.1]),
          allSame_of (·.groupCount) _ hne
            (fun s hs t ht => by rw [(hfield s hs).2.2.2.2.1, (hfield t ht).2.2.2.2.1]),
          allSame_of (·.shareBitLength) _ hne (fun s hs t ht => by rw [(hfield s hs).1, (hfield t ht).1])]
        have hd : distinct ((s0 :: r).map fun s => (s.groupIndex, s.memberIndex)) = true := by
          apply distinct_of_nodup
          apply List.Nodup.of_map Prod.fst
          rw [List.map_map]
          exact hgind
        rw [hd]
        simp only [Bool.not_true, Bool.false_eq_true, if_false]
        rw [if_neg (by rw [hs0.2.2.2.1, hs0.2.2.2.2.1]; omega)]
      · rfl
    obtain ⟨sd, hg1, hg2, hg3, hg4⟩ := gather_single hmac256 (s0 :: r)
      (fun sh hsh => (hfield sh hsh).2.2.2.2.2.2.1) hgind (List.range s0.groupCount)
    have hsdmem : ∀ p ∈ sd, p ∈ data := by
      intro p hp
      obtain ⟨sh, hsh, rfl⟩ := hg2 p hp
      exact (hfield sh hsh).2.2.2.2.2.2.2.2
    have hsdnd : (sd.map (·.1)).Nodup := List.Nodup.sublist hg3 List.nodup_range
    have hsdlen : (s0 :: r).length ≤ sd.length := by
      have hsubset : ((s0 :: r).map fun sh => (sh.groupIndex, sh.bytes)) ⊆ sd := by
        intro p hp
        simp only [List.mem_map] at hp
        obtain ⟨sh, hsh, rfl⟩ := hp
        refine hg4 sh hsh ?_
        rw [List.mem_range, hs0.2.2.2.2.1]
        exact (hfield sh hsh).2.2.2.2.2.2.2.1
      have hnd2 : ((s0 :: r).map fun sh => (sh.groupIndex, sh.bytes)).Nodup := by
        apply List.Nodup.of_map Prod.fst
        rw [List.map_map]
        exact hgind
      have := (List.subperm_of_subset hnd2 hsubset).length_le
      simpa using this
    have hrec : ShareSet.recover hmac256 kdf (s0 :: r) pass = some secret := by
      unfold ShareSet.recover recoverWith
      simp only
      have hany : (s0 :: r).any (fun s => decide (s.groupIndex ≥ s0.groupCount)) = false := by
        rw [List.any_eq_false]
        intro sh hsh
        have := (hfield sh hsh).2.2.2.2.2.2.2.1
        rw [hs0.2.2.2.2.1]
        simp; omega
      rw [hany]
      simp only [Bool.false_eq_true, if_false, hg1]
      rw [hs0.2.2.2.1, hs0.2.1, hs0.2.2.1]
      by_cases hk : k = 1
      · have hk' : (k == 1) = true := by simp [hk]
        rw [hk']
        simp only [if_true]
        cases sd with
        | nil => simp at hsdlen
        | cons e0 sd' =>
          simp only
          have := hsdmem e0 (by simp)
          rw [hkone hk] at this
          simp only [List.mem_singleton] at this
          rw [this]
          exact hdec
      · have hk' : (k == 1) = false := by simp [hk]
        rw [hk']
        simp only [Bool.false_eq_true, if_false]
        rw [if_neg (by rw [hllen] at hsdlen; omega)]
        rw [recoverSecret_of_split hmac256 hh enc k n ρ data rest (by omega) hsp sd hsdmem hsdnd
          (by rw [hllen] at hsdlen; omega)]
        exact hdec
    unfold recoverMnemonic
    rw [hmap]
    simp only [hnew, hrec, hs0.1]

end Buidl.Shamir
