/-
  Buidl.Proofs.GF256 — the tables computed by `ShareSet._load` define a field with 256 elements:
  addition is XOR, multiplication is `exp[(log a + log b) % 255]`.  The type `GF256` gets a Mathlib `Field`
  instance; `gexp` / `glog` are the discrete exponential / logarithm used by `interpolate`.
-/
import Buidl.Proofs.GF256Table
import Mathlib.Algebra.Field.MinimalAxioms
import Mathlib.Tactic.Ring
namespace Buidl.Shamir
open Buidl

/-! ## unpacking the kernel-checked table facts -/

theorem allBelow_iff (n : Nat) (p : Nat → Bool) : allBelow n p = true ↔ ∀ i, i < n → p i = true := by
  simp [allBelow, List.all_eq_true]

theorem tables_facts :
    tables.exp.length = 255 ∧ tables.log.length = 256 ∧ logN 0 = 0 ∧ expN 0 = 1 ∧
    (∀ i, i < 255 → 0 < expN i ∧ expN i < 256 ∧ logN (expN i) = i ∧ expN ((i + 1) % 255) = gfNext (expN i)) ∧
    (∀ a, a < 256 → a ≠ 0 → logN a < 255 ∧ expN (logN a) = a) := by
  have h := tables_check
  simp only [checkTables, Bool.and_eq_true, beq_iff_eq, allBelow_iff, decide_eq_true_eq,
    Bool.or_eq_true] at h
  obtain ⟨⟨⟨⟨⟨h1, h2⟩, h3⟩, h4⟩, h5⟩, h6⟩ := h
  refine ⟨h1, h2, h3, h4, ?_, ?_⟩
  · intro i hi
    obtain ⟨⟨⟨a, b⟩, c⟩, d⟩ := h5 i hi
    exact ⟨a, b, c, d⟩
  · intro a ha hne
    rcases h6 a ha with h | h
    · exact absurd h hne
    · exact h

theorem exp_length : tables.exp.length = 255 := tables_facts.1
theorem log_length : tables.log.length = 256 := tables_facts.2.1
theorem logN_zero : logN 0 = 0 := tables_facts.2.2.1
theorem expN_zero : expN 0 = 1 := tables_facts.2.2.2.1
theorem expN_pos {i : Nat} (hi : i < 255) : 0 < expN i := (tables_facts.2.2.2.2.1 i hi).1
theorem expN_lt {i : Nat} (hi : i < 255) : expN i < 256 := (tables_facts.2.2.2.2.1 i hi).2.1
theorem logN_expN {i : Nat} (hi : i < 255) : logN (expN i) = i := (tables_facts.2.2.2.2.1 i hi).2.2.1
theorem expN_succ {i : Nat} (hi : i < 255) : expN ((i + 1) % 255) = gfNext (expN i) :=
  (tables_facts.2.2.2.2.1 i hi).2.2.2
theorem logN_lt {a : Nat} (ha : a < 256) (hne : a ≠ 0) : logN a < 255 := (tables_facts.2.2.2.2.2 a ha hne).1
theorem expN_logN {a : Nat} (ha : a < 256) (hne : a ≠ 0) : expN (logN a) = a :=
  (tables_facts.2.2.2.2.2 a ha hne).2

theorem log2?_eq {a : Nat} (ha : a < 256) : log2? a = some (logN a) := by
  unfold log2? logN
  rw [List.getD_eq_getElem?_getD, List.getElem?_eq_getElem (by rw [log_length]; exact ha)]; rfl

theorem exp?_eq {i : Nat} (hi : i < 255) : exp? i = some (expN i) := by
  unfold exp? expN
  rw [List.getD_eq_getElem?_getD, List.getElem?_eq_getElem (by rw [exp_length]; exact hi)]; rfl

theorem gfNext_facts (a : Nat) (ha : a < 256) :
    gfNext a < 256 ∧ gfNext a = (((a <<< 1) ^^^ a) ^^^ (if a.testBit 7 then Gen.gfReduce else 0)) := by
  have h := next_check
  simp only [checkNext, allBelow_iff, Bool.and_eq_true, decide_eq_true_eq, beq_iff_eq] at h
  exact h a ha

/-- multiplication by the generator is XOR-linear on bytes -/
theorem gfNext_xor (a b : Nat) (ha : a < 256) (hb : b < 256) :
    gfNext (a ^^^ b) = gfNext a ^^^ gfNext b := by
  have hab : a ^^^ b < 256 := Nat.xor_lt_two_pow (n := 8) ha hb
  rw [(gfNext_facts _ hab).2, (gfNext_facts _ ha).2, (gfNext_facts _ hb).2, Nat.shiftLeft_xor_distrib,
    Nat.testBit_xor]
  have cancel : ∀ x y r : Nat, (x ^^^ r) ^^^ (y ^^^ r) = (x ^^^ y) ^^^ 0 := by
    intro x y r
    have : (x ^^^ r) ^^^ (y ^^^ r) = (x ^^^ y) ^^^ (r ^^^ r) := by ac_rfl
    rw [this, Nat.xor_self]
  cases a.testBit 7 <;> cases b.testBit 7 <;>
    simp only [Bool.xor_false, Bool.xor_true, Bool.not_true, Bool.not_false, if_true, if_false,
      Bool.false_eq_true]
  · ac_rfl
  · ac_rfl
  · ac_rfl
  · rw [cancel]; ac_rfl

theorem gfNext_zero : gfNext 0 = 0 := by decide

attribute [local irreducible] expN logN

/-! ## multiplication on bytes -/

/-- the product the code computes: `exp[(log2[a] + log2[b]) % 255]`, and 0 if a factor is 0 -/
def gmul (a b : Nat) : Nat := if a = 0 ∨ b = 0 then 0 else expN ((logN a + logN b) % 255)

theorem gmul_lt (a b : Nat) : gmul a b < 256 := by
  unfold gmul
  split
  · decide
  · exact expN_lt (Nat.mod_lt _ (by decide))

theorem gmul_comm (a b : Nat) : gmul a b = gmul b a := by
  simp only [gmul, Nat.add_comm, or_comm]

theorem gmul_zero_left (b : Nat) : gmul 0 b = 0 := by
  unfold gmul; rw [if_pos (Or.inl rfl)]

theorem gmul_zero_right (a : Nat) : gmul a 0 = 0 := by
  unfold gmul; rw [if_pos (Or.inr rfl)]

theorem gmul_ne_zero {a b : Nat} (ha : a ≠ 0) (hb : b ≠ 0) : gmul a b ≠ 0 := by
  unfold gmul
  rw [if_neg (by simp [ha, hb])]
  exact Nat.pos_iff_ne_zero.mp (expN_pos (Nat.mod_lt _ (by decide)))

theorem logN_gmul {a b : Nat} (ha : a ≠ 0) (hb : b ≠ 0) : logN (gmul a b) = (logN a + logN b) % 255 := by
  unfold gmul
  rw [if_neg (by simp [ha, hb])]
  exact logN_expN (Nat.mod_lt _ (by decide))

theorem gmul_assoc (a b c : Nat) (ha : a < 256) (hb : b < 256) (hc : c < 256) :
    gmul (gmul a b) c = gmul a (gmul b c) := by
  by_cases ha0 : a = 0
  · subst ha0; rw [gmul_zero_left, gmul_zero_left, gmul_zero_left]
  by_cases hb0 : b = 0
  · subst hb0; rw [gmul_zero_left, gmul_zero_right, gmul_zero_left]
  by_cases hc0 : c = 0
  · subst hc0; rw [gmul_zero_right, gmul_zero_right, gmul_zero_right]
  have h1 := gmul_ne_zero ha0 hb0
  have h2 := gmul_ne_zero hb0 hc0
  have e1 : gmul (gmul a b) c = expN ((logN (gmul a b) + logN c) % 255) := by
    rw [gmul, if_neg (by simp [h1, hc0])]
  have e2 : gmul a (gmul b c) = expN ((logN a + logN (gmul b c)) % 255) := by
    rw [gmul, if_neg (by simp [ha0, h2])]
  rw [e1, e2, logN_gmul ha0 hb0, logN_gmul hb0 hc0]
  have : ((logN a + logN b) % 255 + logN c) % 255 = (logN a + (logN b + logN c) % 255) % 255 := by omega
  rw [this]

theorem gmul_one (a : Nat) (ha : a < 256) : gmul 1 a = a := by
  by_cases h0 : a = 0
  · subst h0; rw [gmul_zero_right]
  · have l1 : logN 1 = 0 := by
      have := logN_expN (i := 0) (by decide); rwa [expN_zero] at this
    rw [gmul, if_neg (by simp [h0]), l1, Nat.zero_add, Nat.mod_eq_of_lt (logN_lt ha h0), expN_logN ha h0]

/-- iterated generator step -/
def gfPow : Nat → Nat → Nat
  | 0, b => b
  | k + 1, b => gfNext (gfPow k b)

theorem gfPow_lt : ∀ (k b : Nat), b < 256 → gfPow k b < 256 := by
  intro k
  induction k with
  | zero => intro b hb; exact hb
  | succ k ih => intro b hb; exact (gfNext_facts _ (ih b hb)).1

theorem gfPow_xor : ∀ (k a b : Nat), a < 256 → b < 256 → gfPow k (a ^^^ b) = gfPow k a ^^^ gfPow k b := by
  intro k
  induction k with
  | zero => intro a b _ _; rfl
  | succ k ih =>
    intro a b ha hb
    simp only [gfPow]
    rw [ih a b ha hb, gfNext_xor _ _ (gfPow_lt k a ha) (gfPow_lt k b hb)]

theorem gfPow_zero (k : Nat) : gfPow k 0 = 0 := by
  induction k with
  | zero => rfl
  | succ k ih => simp [gfPow, ih, gfNext_zero]

/-- multiplying by `exp[k]` is `k` generator steps -/
theorem gmul_expN (k : Nat) (hk : k < 255) (b : Nat) (hb : b < 256) : gmul (expN k) b = gfPow k b := by
  induction k with
  | zero => rw [expN_zero, gmul_one b hb]; rfl
  | succ k ih =>
    have hk' : k < 255 := by omega
    by_cases hb0 : b = 0
    · subst hb0; rw [gfPow_zero, gmul_zero_right]
    · have hek : expN (k + 1) ≠ 0 := Nat.pos_iff_ne_zero.mp (expN_pos hk)
      have hek' : expN k ≠ 0 := Nat.pos_iff_ne_zero.mp (expN_pos hk')
      rw [gfPow, ← ih hk']
      rw [gmul, if_neg (by simp [hek, hb0]), logN_expN hk]
      rw [gmul, if_neg (by simp [hek', hb0]), logN_expN hk']
      have hm : (k + logN b) % 255 < 255 := Nat.mod_lt _ (by decide)
      rw [← expN_succ hm]
      have : (k + 1 + logN b) % 255 = ((k + logN b) % 255 + 1) % 255 := by omega
      rw [this]

theorem gmul_xor (a b c : Nat) (ha : a < 256) (hb : b < 256) (hc : c < 256) :
    gmul a (b ^^^ c) = gmul a b ^^^ gmul a c := by
  by_cases ha0 : a = 0
  · subst ha0; rw [gmul_zero_left, gmul_zero_left, gmul_zero_left]; rfl
  · have hl := logN_lt ha ha0
    have hbc : b ^^^ c < 256 := Nat.xor_lt_two_pow (n := 8) hb hc
    rw [← expN_logN ha ha0, gmul_expN _ hl _ hbc, gmul_expN _ hl _ hb, gmul_expN _ hl _ hc,
      gfPow_xor _ _ _ hb hc]

/-- the inverse: `exp[(255 - log a) % 255]` -/
def ginv (a : Nat) : Nat := if a = 0 then 0 else expN ((255 - logN a) % 255)

theorem gmul_ginv (a : Nat) (ha : a < 256) (h0 : a ≠ 0) : gmul a (ginv a) = 1 := by
  have hl := logN_lt ha h0
  have hm : (255 - logN a) % 255 < 255 := Nat.mod_lt _ (by decide)
  have hi : ginv a ≠ 0 := by
    rw [ginv, if_neg h0]; exact Nat.pos_iff_ne_zero.mp (expN_pos hm)
  rw [gmul, if_neg (by simp [h0, hi]), ginv, if_neg h0, logN_expN hm]
  have : (logN a + (255 - logN a) % 255) % 255 = 0 := by omega
  rw [this, expN_zero]

/-! ## the field -/

/-- a byte as an element of GF(2^8) -/
@[ext] structure GF256 where
  val : Nat
  lt : val < 256
deriving DecidableEq

namespace GF256

def ofNat (n : Nat) : GF256 := ⟨n % 256, Nat.mod_lt _ (by decide)⟩

instance : Zero GF256 := ⟨⟨0, by decide⟩⟩
instance : One GF256 := ⟨⟨1, by decide⟩⟩
instance : Add GF256 := ⟨fun a b => ⟨a.val ^^^ b.val, Nat.xor_lt_two_pow (n := 8) a.lt b.lt⟩⟩
instance : Neg GF256 := ⟨fun a => a⟩
instance : Mul GF256 := ⟨fun a b => ⟨gmul a.val b.val, gmul_lt _ _⟩⟩
instance : Inv GF256 := ⟨fun a => ⟨ginv a.val, by
  unfold ginv; split
  · decide
  · exact expN_lt (Nat.mod_lt _ (by decide))⟩⟩

@[simp] theorem zero_val : (0 : GF256).val = 0 := rfl
@[simp] theorem one_val : (1 : GF256).val = 1 := rfl
@[simp] theorem add_val (a b : GF256) : (a + b).val = a.val ^^^ b.val := rfl
@[simp] theorem neg_val (a : GF256) : (-a).val = a.val := rfl
@[simp] theorem mul_val (a b : GF256) : (a * b).val = gmul a.val b.val := rfl
@[simp] theorem inv_val (a : GF256) : (a⁻¹).val = ginv a.val := rfl

instance instField : Field GF256 :=
  Field.ofMinimalAxioms GF256
    (fun a b c => by ext; simp [Nat.xor_assoc])
    (fun a => by ext; simp)
    (fun a => by ext; simp)
    (fun a b c => by ext; simp [gmul_assoc _ _ _ a.lt b.lt c.lt])
    (fun a b => by ext; simp [gmul_comm])
    (fun a => by ext; simp [gmul_one _ a.lt])
    (fun a h => by
      ext; simp only [mul_val, inv_val, one_val]
      exact gmul_ginv _ a.lt (fun h0 => h (by ext; simpa using h0)))
    (by ext; simp [ginv])
    (fun a b c => by ext; simp [gmul_xor _ _ _ a.lt b.lt c.lt])
    ⟨0, 1, by intro h; have := congrArg GF256.val h; simp at this⟩

theorem sub_eq_add' (a b : GF256) : a - b = a + b := by
  rw [sub_eq_add_neg]; rfl

theorem val_eq_zero {a : GF256} : a.val = 0 ↔ a = 0 := by
  constructor
  · intro h; ext; simpa using h
  · intro h; rw [h]; rfl

end GF256

end Buidl.Shamir
