/-
  Lemmas about Buidl.Model.PsbtDescribe (PSBT.describe_basic_multisig) used by Props/C11:
    * inversion of `describe` into its stages
    * loop invariants of `describeInputsLoop` / `describeOutputsLoop` (accumulator generalised)
    * what a successful `checkNamedPubs`, `changeOK`, `plainMultisigOf`, `validateOut` say
    * refusals of `validateIn` / `validateOut`
-/
import Buidl.Model.PsbtDescribe
import Buidl.Proofs.PsbtDict
namespace Buidl.Psbt
open Buidl Buidl.Script

/-! ### plumbing -/

@[simp] theorem req_eq_some_iff (b : Bool) (u : Unit) : req b = some u ↔ b = true := by
  cases b <;> simp [req]

@[simp] theorem req_eq_none_iff (b : Bool) : req b = none ↔ b = false := by
  cases b <;> simp [req]

theorem foldl_add_init (l : List Nat) (a : Nat) :
    l.foldl (· + ·) a = a + l.foldl (· + ·) 0 := by
  induction l generalizing a with
  | nil => simp
  | cons x xs ih =>
    simp only [List.foldl_cons]
    rw [ih (a + x), ih (0 + x)]
    omega

/-- the `hdpubkey_map` `describe` works with: the caller's, or the one built from the global xpubs -/
def hmapOf {Tx} (cm : Dict Bytes) (p : Psbt Tx) : Dict Bytes :=
  if cm ≠ [] then cm else mapFromHdPubs p.hdPubs

/-- at most one element of `l` satisfies `q` ⇒ two hits are the same position -/
theorem index_unique_of_filter_le_one {α} (q : α → Bool) :
    ∀ (l : List α), (l.filter q).length ≤ 1 →
      ∀ (i j : Nat) (a b : α), l[i]? = some a → l[j]? = some b → q a = true → q b = true → i = j := by
  intro l
  induction l with
  | nil => intro _ i j a b hi; simp at hi
  | cons x xs ih =>
    intro hl i j a b hi hj ha hb
    by_cases hx : q x = true
    · have hxs : (xs.filter q).length = 0 := by
        simp only [List.filter_cons, hx, if_true, List.length_cons] at hl
        omega
      have hnone : ∀ (k : Nat) (c : α), xs[k]? = some c → q c = true → False := by
        intro k c hk hc
        have hm : c ∈ xs.filter q := List.mem_filter.mpr ⟨List.mem_of_getElem? hk, hc⟩
        have : xs.filter q = [] := List.eq_nil_of_length_eq_zero hxs
        rw [this] at hm
        cases hm
      cases i with
      | zero =>
        cases j with
        | zero => rfl
        | succ j => exact (hnone j b (by simpa using hj) hb).elim
      | succ i => exact (hnone i a (by simpa using hi) ha).elim
    · have hl' : (xs.filter q).length ≤ 1 := by
        simpa only [List.filter_cons, hx, if_false, Bool.false_eq_true] using hl
      cases i with
      | zero =>
        simp only [List.getElem?_cons_zero, Option.some.injEq] at hi
        subst hi; exact absurd ha hx
      | succ i =>
        cases j with
        | zero =>
          simp only [List.getElem?_cons_zero, Option.some.injEq] at hj
          subst hj; exact absurd hb hx
        | succ j =>
          have := ih hl' i j a b (by simpa using hi) (by simpa using hj) ha hb
          omega

/-! ### `checkNamedPubs` -/

theorem checkNamedPubs_some {O : Oracles} {hmap : Dict Bytes} :
    ∀ {d : Dict Bytes} {xfps : List Bytes}, checkNamedPubs O hmap d = some xfps →
      xfps = d.map (fun e => e.2.take Gen.psbtFingerprintWidth) ∧
      ∀ sec rawPath, (sec, rawPath) ∈ d →
        ∃ body, dget hmap (rawPath.take Gen.psbtFingerprintWidth) = some body ∧
          deriveAt O body rawPath = some sec := by
  intro d
  induction d with
  | nil =>
    intro xfps h
    simp only [checkNamedPubs, Option.some.injEq] at h
    subst h
    exact ⟨rfl, fun _ _ hm => by cases hm⟩
  | cons e r ih =>
    obtain ⟨sec0, rp0⟩ := e
    intro xfps h
    rw [checkNamedPubs] at h
    cases hb : dget hmap (rp0.take Gen.psbtFingerprintWidth) with
    | none => simp [hb] at h
    | some body =>
      cases hd : deriveAt O body rp0 with
      | none => simp [hb, hd] at h
      | some got =>
        cases hr : checkNamedPubs O hmap r with
        | none =>
          simp [hb, hr] at h
        | some rest =>
          by_cases hg : got = sec0
          · simp [hb, hd, hr, hg, req] at h
            obtain ⟨hrest, hall⟩ := ih hr
            subst h
            refine ⟨by simp [hrest], ?_⟩
            intro sec rawPath hm
            rcases List.mem_cons.mp hm with hm | hm
            · cases hm
              exact ⟨body, hb, by rw [hd, hg]⟩
            · exact hall sec rawPath hm
          · simp [hb, hd, hr, hg, req] at h

/-! ### the output loop -/

/-- the accumulator after one iteration of `_describe_basic_multisig_outputs` -/
def outNext (o : TxOutV) (p : POut) (acc : OutputsDescribed) : OutputsDescribed :=
  if p.namedPubs ≠ [] then
    { acc with total := acc.total + o.amount, changeSeen := true, changeSats := o.amount,
               descs := acc.descs ++ [{ sats := o.amount, isChange := true }] }
  else
    { acc with total := acc.total + o.amount, spends := acc.spends + 1, spendSats := acc.spendSats + o.amount,
               descs := acc.descs ++ [{ sats := o.amount, isChange := false }] }

theorem outNext_total (o : TxOutV) (p : POut) (acc : OutputsDescribed) :
    (outNext o p acc).total = acc.total + o.amount := by
  unfold outNext; split <;> rfl

theorem outNext_descs (o : TxOutV) (p : POut) (acc : OutputsDescribed) :
    (outNext o p acc).descs = acc.descs ++ [{ sats := o.amount, isChange := decide (p.namedPubs ≠ []) }] := by
  unfold outNext; split <;> simp_all

theorem outsLoop_nil {cfg : DescribeCfg} {H : Hashes} {O : Oracles} {hmap : Dict Bytes} {em en : Int}
    (outs : List TxOutV) (acc : OutputsDescribed) :
    describeOutputsLoop cfg H O hmap em en outs [] acc = some acc := by
  cases outs <;> rfl

theorem outsLoop_cons_some {cfg : DescribeCfg} {H : Hashes} {O : Oracles} {hmap : Dict Bytes} {em en : Int}
    {o : TxOutV} {tr : List TxOutV} {p : POut} {pr : List POut} {acc r : OutputsDescribed}
    (h : describeOutputsLoop cfg H O hmap em en (o :: tr) (p :: pr) acc = some r) :
    validateOut H o.spk p = some () ∧ hasAddress o.spk = true ∧
    (p.namedPubs ≠ [] → changeOK cfg O hmap em en p = some () ∧ acc.changeSeen = false) ∧
    describeOutputsLoop cfg H O hmap em en tr pr (outNext o p acc) = some r := by
  rw [describeOutputsLoop] at h
  cases hv : validateOut H o.spk p with
  | none => simp [hv] at h
  | some u =>
    cases ha : hasAddress o.spk with
    | false => simp [hv, ha, req] at h
    | true =>
      by_cases hn : p.namedPubs = []
      · simp [hv, ha, req, hn] at h
        simp [outNext, hn, h]
      · cases hc : changeOK cfg O hmap em en p with
        | none => simp [hv, ha, req, hn, hc] at h
        | some u' =>
          cases hs : acc.changeSeen with
          | true => simp [hv, ha, req, hn, hc, hs] at h
          | false =>
            simp [hv, ha, req, hn, hc, hs] at h
            simp [outNext, hn, h]

/-- the description of output `o` with map `p` -/
def outDescOf (o : TxOutV) (p : POut) : OutDesc := { sats := o.amount, isChange := decide (p.namedPubs ≠ []) }

theorem outsLoop_spec {cfg : DescribeCfg} {H : Hashes} {O : Oracles} {hmap : Dict Bytes} {em en : Int} :
    ∀ (pouts : List POut) (outs : List TxOutV) (acc r : OutputsDescribed),
      describeOutputsLoop cfg H O hmap em en outs pouts acc = some r →
      pouts.length ≤ outs.length ∧
      r.total = acc.total + ((outs.take pouts.length).map (·.amount)).foldl (· + ·) 0 ∧
      r.descs = acc.descs ++ List.zipWith outDescOf outs pouts ∧
      (∀ (j : Nat) (o : TxOutV) (po : POut), outs[j]? = some o → pouts[j]? = some po →
        validateOut H o.spk po = some () ∧ hasAddress o.spk = true ∧
        (po.namedPubs ≠ [] → changeOK cfg O hmap em en po = some ())) := by
  intro pouts
  induction pouts with
  | nil =>
    intro outs acc r h
    rw [outsLoop_nil] at h
    cases h
    refine ⟨Nat.zero_le _, by simp, by simp, ?_⟩
    intro j o po _ hp
    simp at hp
  | cons p pr ih =>
    intro outs acc r h
    cases outs with
    | nil => simp [describeOutputsLoop] at h
    | cons o tr =>
      obtain ⟨hv, ha, hc, hrest⟩ := outsLoop_cons_some h
      obtain ⟨hlen, htot, hdescs, hidx⟩ := ih tr _ r hrest
      refine ⟨by simpa using hlen, ?_, ?_, ?_⟩
      · rw [htot, outNext_total]
        simp only [List.length_cons, List.take_succ_cons, List.map_cons, List.foldl_cons]
        rw [foldl_add_init _ (0 + o.amount)]
        omega
      · rw [hdescs, outNext_descs]
        simp [outDescOf]
      · intro j o' po' ho hp
        cases j with
        | zero =>
          simp only [List.getElem?_cons_zero, Option.some.injEq] at ho hp
          subst ho; subst hp
          exact ⟨hv, ha, fun hn => (hc hn).1⟩
        | succ j =>
          exact hidx j o' po' (by simpa using ho) (by simpa using hp)

/-- invariant of the output accumulator -/
structure OutInv (a : OutputsDescribed) : Prop where
  part : a.spendSats + a.changeSats = a.total
  zero : a.changeSeen = false → a.changeSats = 0
  chg : (a.descs.filter (·.isChange)).map (·.sats) = if a.changeSeen then [a.changeSats] else []

theorem outInv_init : OutInv {} := ⟨rfl, fun _ => rfl, rfl⟩

theorem outInv_next {o : TxOutV} {p : POut} {acc : OutputsDescribed} (hi : OutInv acc)
    (hc : p.namedPubs ≠ [] → acc.changeSeen = false) : OutInv (outNext o p acc) := by
  obtain ⟨h1, h2, h3⟩ := hi
  by_cases hn : p.namedPubs = []
  · simp only [outNext, hn, ne_eq, not_true_eq_false, if_false]
    refine ⟨by simp only; omega, h2, ?_⟩
    simp only [List.filter_append, List.map_append]
    rw [h3]
    simp
  · have hs := hc hn
    have hz := h2 hs
    simp only [outNext, hn, ne_eq, not_false_eq_true, if_true]
    refine ⟨by simp only; omega, by simp, ?_⟩
    simp only [List.filter_append, List.map_append]
    rw [h3, hs]
    simp

theorem outsLoop_inv {cfg : DescribeCfg} {H : Hashes} {O : Oracles} {hmap : Dict Bytes} {em en : Int} :
    ∀ (pouts : List POut) (outs : List TxOutV) (acc r : OutputsDescribed),
      describeOutputsLoop cfg H O hmap em en outs pouts acc = some r → OutInv acc → OutInv r := by
  intro pouts
  induction pouts with
  | nil =>
    intro outs acc r h hi
    rw [outsLoop_nil] at h
    cases h; exact hi
  | cons p pr ih =>
    intro outs acc r h hi
    cases outs with
    | nil => simp [describeOutputsLoop] at h
    | cons o tr =>
      obtain ⟨_, _, hc, hrest⟩ := outsLoop_cons_some h
      exact ih tr _ r hrest (outInv_next hi fun hn => (hc hn).2)

/-! ### the input loop -/

theorem insLoop_cons_some {Tx} {H : Hashes} {C : TxCodec Tx} {O : Oracles} {hmap : Dict Bytes}
    {txin : TxInV} {tr : List TxInV} {p : PIn Tx} {pr : List (PIn Tx)} {acc r : InputsDescribed}
    (h : describeInputsLoop H C O hmap (txin :: tr) (p :: pr) acc = some r) :
    validateIn H C txin p = some () ∧ (p.witnessScript.isSome && p.redeem.isSome) = false ∧
    ∃ script m n raw xfps sats, scriptQuorum p.witnessScript p.redeem = some (script, m, n) ∧
      hmap.length = p.namedPubs.length ∧ (∀ m0, acc.m = some m0 → m0 = m) ∧
      (∀ n0, acc.n = some n0 → n0 = n) ∧ (acc.n = none → n = (hmap.length : Int)) ∧
      rawOf script = some raw ∧ checkNamedPubs O hmap p.namedPubs = some xfps ∧ p.value = some sats ∧
      describeInputsLoop H C O hmap tr pr
        { m := some m, n := some n, descs := acc.descs ++ [{ m := m, n := n, sats := sats }],
          rootPaths := acc.rootPaths ++ (xfps.zip (p.namedPubs.map (·.2))), total := acc.total + sats } = some r := by
  rw [describeInputsLoop] at h
  cases hv : validateIn H C txin p with
  | none => simp [hv] at h
  | some u =>
    cases hb : (p.witnessScript.isSome && p.redeem.isSome) with
    | true => simp [hv, hb, req] at h
    | false =>
      cases hq : scriptQuorum p.witnessScript p.redeem with
      | none => simp [hv, hb, req, hq] at h
      | some q =>
        obtain ⟨script, m, n⟩ := q
        simp only [hv, hb, req, hq, Option.bind_eq_bind, Option.bind_some, Bool.not_false, if_true] at h
        simp only [Option.bind_eq_some_iff] at h
        obtain ⟨_, h1, _, h2, _, h3, raw, h4, xfps, h5, sats, h6, h7⟩ := h
        have h1' : hmap.length = p.namedPubs.length := by
          by_cases hc : (List.length hmap == List.length p.namedPubs) = true
          · simpa using hc
          · simp [hc] at h1
        have h2' : ∀ m0, acc.m = some m0 → m0 = m := by
          intro m0 hm0
          rw [hm0] at h2
          by_cases hc : (m0 == m) = true
          · simpa using hc
          · simp [hc] at h2
        have h3' : ∀ n0, acc.n = some n0 → n0 = n := by
          intro n0 hn0
          rw [hn0] at h3
          by_cases hc : (n0 == n) = true
          · simpa using hc
          · simp [hc] at h3
        have h3'' : acc.n = none → n = (hmap.length : Int) := by
          intro hn0
          rw [hn0] at h3
          by_cases hc : (n == (hmap.length : Int)) = true
          · simpa using hc
          · simp [hc] at h3
        exact ⟨by cases u; rfl, rfl, script, m, n, raw, xfps, sats, rfl, h1', h2', h3', h3'', h4, h5, h6, h7⟩

theorem insLoop_nil {Tx} {H : Hashes} {C : TxCodec Tx} {O : Oracles} {hmap : Dict Bytes}
    (txins : List TxInV) (acc : InputsDescribed) :
    describeInputsLoop H C O hmap txins ([] : List (PIn Tx)) acc = some acc := by
  cases txins <;> rfl

/-- what one input passed on the way to a successful `describeInputsLoop` -/
structure InStepOK {Tx} (H : Hashes) (C : TxCodec Tx) (O : Oracles) (hmap : Dict Bytes)
    (txin : TxInV) (pin : PIn Tx) (rm rn : Option Int) : Prop where
  valid : validateIn H C txin pin = some ()
  notBoth : (pin.witnessScript.isSome && pin.redeem.isSome) = false
  nNamed : hmap.length = pin.namedPubs.length
  quorum : ∃ script m n raw, scriptQuorum pin.witnessScript pin.redeem = some (script, m, n) ∧
    rm = some m ∧ rn = some n ∧ rawOf script = some raw
  named : ∃ xfps, checkNamedPubs O hmap pin.namedPubs = some xfps
  value : ∃ sats, pin.value = some sats

theorem insLoop_spec {Tx} {H : Hashes} {C : TxCodec Tx} {O : Oracles} {hmap : Dict Bytes} :
    ∀ (pins : List (PIn Tx)) (txins : List TxInV) (acc r : InputsDescribed),
      describeInputsLoop H C O hmap txins pins acc = some r →
      pins.length ≤ txins.length ∧
      (∃ vals, pins.mapM (·.value) = some vals ∧ r.total = acc.total + vals.foldl (· + ·) 0) ∧
      (∀ m0, acc.m = some m0 → r.m = some m0) ∧
      (∀ n0, acc.n = some n0 → r.n = some n0) ∧
      ((∀ n0, acc.n = some n0 → n0 = (hmap.length : Int)) → ∀ n0, r.n = some n0 → n0 = (hmap.length : Int)) ∧
      (∀ (i : Nat) (txin : TxInV) (pin : PIn Tx), txins[i]? = some txin → pins[i]? = some pin →
        InStepOK H C O hmap txin pin r.m r.n) := by
  intro pins
  induction pins with
  | nil =>
    intro txins acc r h
    rw [insLoop_nil] at h
    cases h
    refine ⟨Nat.zero_le _, ⟨[], by simp, by simp⟩, fun _ h => h, fun _ h => h, fun h => h, ?_⟩
    intro i _ _ _ hp
    simp at hp
  | cons p pr ih =>
    intro txins acc r h
    cases txins with
    | nil => simp [describeInputsLoop] at h
    | cons txin tr =>
      obtain ⟨hv, hb, script, m, n, raw, xfps, sats, hq, hlen, hm, hn, hn', hraw, hnamed, hval, hrest⟩ :=
        insLoop_cons_some h
      obtain ⟨hl, ⟨vals, hvals, htot⟩, hrm, hrn, hrn', hidx⟩ := ih tr _ r hrest
      have hrm' : r.m = some m := hrm m rfl
      have hrn'' : r.n = some n := hrn n rfl
      refine ⟨by simpa using hl, ⟨sats :: vals, ?_, ?_⟩, ?_, ?_, ?_, ?_⟩
      · simp [List.mapM_cons, hval, hvals]
      · rw [htot]
        simp only [List.foldl_cons]
        rw [foldl_add_init _ (0 + sats)]
        omega
      · intro m0 h0; rw [hrm', hm m0 h0]
      · intro n0 h0; rw [hrn'', hn n0 h0]
      · intro hacc
        apply hrn'
        intro n0 h0
        simp only [Option.some.injEq] at h0
        subst h0
        cases han : acc.n with
        | none => exact hn' han
        | some a => rw [← hn a han]; exact hacc a han
      · intro i txin' pin' ht hp
        cases i with
        | zero =>
          simp only [List.getElem?_cons_zero, Option.some.injEq] at ht hp
          subst ht; subst hp
          exact ⟨hv, hb, hlen, ⟨script, m, n, raw, hq, hrm', hrn'', hraw⟩, ⟨xfps, hnamed⟩, ⟨sats, hval⟩⟩
        | succ i => exact hidx i txin' pin' (by simpa using ht) (by simpa using hp)

/-! ### `PSBT.validate`: one map per input / output -/

theorem validateOutsLoop_spec {H : Hashes} {O : Oracles} {hd : Dict HdPub} :
    ∀ (outs : List TxOutV) (pouts : List POut), validateOutsLoop H O hd outs pouts = some () →
      outs.length = pouts.length ∧
      ∀ (j : Nat) (o : TxOutV) (po : POut), outs[j]? = some o → pouts[j]? = some po →
        validateOut H o.spk po = some () := by
  intro outs
  induction outs with
  | nil =>
    intro pouts h
    cases pouts with
    | nil => exact ⟨rfl, fun j _ _ ho => by simp at ho⟩
    | cons p pr => simp [validateOutsLoop] at h
  | cons o tr ih =>
    intro pouts h
    cases pouts with
    | nil => simp [validateOutsLoop] at h
    | cons p pr =>
      rw [validateOutsLoop] at h
      simp only [Option.bind_eq_bind, Option.bind_eq_some_iff] at h
      obtain ⟨_, hv, _, _, hrest⟩ := h
      obtain ⟨hl, hidx⟩ := ih pr hrest
      refine ⟨by simp [hl], ?_⟩
      intro j o' po' ho hp
      cases j with
      | zero =>
        simp only [List.getElem?_cons_zero, Option.some.injEq] at ho hp
        subst ho; subst hp; exact hv
      | succ j => exact hidx j o' po' (by simpa using ho) (by simpa using hp)

theorem validateInsLoop_spec {Tx} {H : Hashes} {C : TxCodec Tx} {O : Oracles} {hd : Dict HdPub} :
    ∀ (txins : List TxInV) (pins : List (PIn Tx)) (i0 : Nat), validateInsLoop H C O hd i0 txins pins = some () →
      txins.length = pins.length ∧
      ∀ (i : Nat) (txin : TxInV) (pin : PIn Tx), txins[i]? = some txin → pins[i]? = some pin →
        validateIn H C txin pin = some () := by
  intro txins
  induction txins with
  | nil =>
    intro pins i0 h
    cases pins with
    | nil => exact ⟨rfl, fun j _ _ ho => by simp at ho⟩
    | cons p pr => simp [validateInsLoop] at h
  | cons t tr ih =>
    intro pins i0 h
    cases pins with
    | nil => simp [validateInsLoop] at h
    | cons p pr =>
      rw [validateInsLoop] at h
      simp only [Option.bind_eq_bind, Option.bind_eq_some_iff] at h
      obtain ⟨_, hv, _, _, h⟩ := h
      have hrest : validateInsLoop H C O hd (i0 + 1) tr pr = some () := by
        split at h
        · simp only [Option.bind_eq_some_iff] at h
          obtain ⟨_, _, _, _, _, _, h⟩ := h
          exact h
        · simp only [Option.bind_eq_some_iff] at h
          obtain ⟨_, _, _, _, h⟩ := h
          exact h
      obtain ⟨hl, hidx⟩ := ih pr _ hrest
      refine ⟨by simp [hl], ?_⟩
      intro j o' po' ho hp
      cases j with
      | zero =>
        simp only [List.getElem?_cons_zero, Option.some.injEq] at ho hp
        subst ho; subst hp; exact hv
      | succ j => exact hidx j o' po' (by simpa using ho) (by simpa using hp)


/-! ### `describe` in stages -/

theorem describe_some {Tx} {cfg : DescribeCfg} {H : Hashes} {C : TxCodec Tx} {O : Oracles} {cm : Dict Bytes}
    {p : Psbt Tx} {s : Summary} (h : describe cfg H C O cm p = some s) :
    ∃ fee ins m n outs, p.validate H C O = some () ∧ txFee C p = some fee ∧ (cm ≠ [] ∨ p.hdPubs ≠ []) ∧
      describeInputs H C O (hmapOf cm p) p = some ins ∧ ins.m = some m ∧ ins.n = some n ∧
      describeOutputsLoop cfg H O (hmapOf cm p) m n (C.outs p.tx) p.outs {} = some outs ∧ ins.total ≠ 0 ∧
      s = { fee := fee, totalIn := ins.total, totalOut := outs.total, spend := outs.spendSats,
            change := outs.changeSats, isBatch := outs.spends > 1, m := m, n := n,
            inputs := ins.descs, outputs := outs.descs, rootPaths := ins.rootPaths } := by
  unfold describe at h
  simp only [Option.bind_eq_bind, Option.bind_eq_some_iff] at h
  obtain ⟨u, hv, fee, hfee, h⟩ := h
  by_cases hc : cm = []
  · by_cases hp : p.hdPubs = []
    · simp [hc, hp] at h
    · have hm : hmapOf cm p = mapFromHdPubs p.hdPubs := by simp [hmapOf, hc]
      rw [hm]
      simp only [hc, hp, ne_eq, not_true_eq_false, if_false, Option.bind_some, Option.bind_eq_some_iff] at h
      obtain ⟨ins, hins, m, hm, n, hn, outs, houts, w, hreq, hs⟩ := h
      cases w
      refine ⟨fee, ins, m, n, outs, by cases u; exact hv, hfee, Or.inr hp, hins, hm, hn, houts, ?_, ?_⟩
      · simpa using hreq
      · simpa using hs.symm
  · have hm : hmapOf cm p = cm := by simp [hmapOf, hc]
    rw [hm]
    simp only [hc, ne_eq, not_false_eq_true, if_true, Option.bind_some, Option.bind_eq_some_iff] at h
    obtain ⟨ins, hins, m, hm, n, hn, outs, houts, w, hreq, hs⟩ := h
    cases w
    refine ⟨fee, ins, m, n, outs, by cases u; exact hv, hfee, Or.inl hc, hins, hm, hn, houts, ?_, ?_⟩
    · simpa using hreq
    · simpa using hs.symm


/-! ### the change branch -/

theorem changeOK_some {cfg : DescribeCfg} {O : Oracles} {hmap : Dict Bytes} {em en : Int} {p : POut}
    (h : changeOK cfg O hmap em en p = some ()) :
    ∃ script xfps, scriptQuorum p.witnessScript p.redeem = some (script, em, en) ∧
      (cfg.plainMultisig = true → plainMultisigOf script en p.namedPubs = true) ∧
      en = (p.namedPubs.length : Int) ∧ checkNamedPubs O hmap p.namedPubs = some xfps ∧
      (cfg.distinctXfps = true → (xfps.eraseDups.length : Int) = en) := by
  unfold changeOK at h
  cases hq : scriptQuorum p.witnessScript p.redeem with
  | none => simp [hq] at h
  | some q =>
    obtain ⟨script, m, n⟩ := q
    simp only [hq, Option.bind_eq_bind, Option.bind_some] at h
    cases hpm : cfg.plainMultisig <;> cases hdx : cfg.distinctXfps <;>
      simp only [hpm, hdx, Option.bind_eq_some_iff, req_eq_some_iff, if_true, if_false, Bool.false_eq_true,
        exists_const, beq_iff_eq, Option.pure_def, and_true] at h
    · obtain ⟨rfl, rfl, h3, xfps, h5⟩ := h
      exact ⟨script, xfps, rfl, by simp, h3, h5, by simp⟩
    · obtain ⟨rfl, rfl, h3, xfps, h5, h6⟩ := h
      exact ⟨script, xfps, rfl, by simp, h3, h5, fun _ => h6⟩
    · obtain ⟨rfl, rfl, h2, h3, xfps, h5⟩ := h
      exact ⟨script, xfps, rfl, fun _ => h2, h3, h5, by simp⟩
    · obtain ⟨rfl, rfl, h2, h3, xfps, h5, h6⟩ := h
      exact ⟨script, xfps, rfl, fun _ => h2, h3, h5, fun _ => h6⟩


/-! ### script templates -/

theorem isP2wsh_iff (s : Script) :
    isP2wsh s = true ↔ ∃ h, s.cmds = [.op 0, .push h] ∧ h.length = 32 := by
  unfold isP2wsh
  rcases hs : s.cmds with _ | ⟨a, _ | ⟨b, _ | ⟨c, t⟩⟩⟩
  · simp [pat, Gen.psbtP2wshPattern]
  · simp [pat, Gen.psbtP2wshPattern]
  · cases a <;> cases b <;> simp [pat, Gen.psbtP2wshPattern, cmdIsOp, cmdIsPushLen]
    constructor
    · rintro ⟨rfl, h⟩; exact ⟨_, ⟨rfl, rfl⟩, h⟩
    · rintro ⟨h, ⟨rfl, rfl⟩, hl⟩; exact ⟨rfl, hl⟩
  · simp [pat, Gen.psbtP2wshPattern]

theorem isP2sh_iff (s : Script) :
    isP2sh s = true ↔ ∃ h, s.cmds = [.op 0xA9, .push h, .op 0x87] ∧ h.length = 20 := by
  unfold isP2sh
  rcases hs : s.cmds with _ | ⟨a, _ | ⟨b, _ | ⟨c, _ | ⟨d, t⟩⟩⟩⟩
  · simp [pat, Gen.psbtP2shPattern]
  · simp [pat, Gen.psbtP2shPattern]
  · simp [pat, Gen.psbtP2shPattern]
  · cases a <;> cases b <;> cases c <;> simp [pat, Gen.psbtP2shPattern, cmdIsOp, cmdIsPushLen]
    constructor
    · rintro ⟨⟨rfl, h⟩, rfl⟩; exact ⟨_, ⟨rfl, rfl, rfl⟩, h⟩
    · rintro ⟨h, ⟨rfl, rfl, rfl⟩, hl⟩; exact ⟨⟨rfl, hl⟩, rfl⟩
  · simp [pat, Gen.psbtP2shPattern]

/-! ### `eraseDups` -/

theorem eraseDups_length_le {α} [BEq α] [LawfulBEq α] :
    ∀ (n : Nat) (l : List α), l.length ≤ n → l.eraseDups.length ≤ l.length ∧
      (l.eraseDups.length = l.length → l.Nodup) := by
  intro n
  induction n with
  | zero =>
    intro l hl
    have : l = [] := List.eq_nil_of_length_eq_zero (by omega)
    subst this
    simp
  | succ n ih =>
    intro l hl
    cases l with
    | nil => simp
    | cons a as =>
      rw [List.eraseDups_cons]
      have hf : (as.filter fun b => !b == a).length ≤ as.length := List.length_filter_le _ _
      obtain ⟨h1, h2⟩ := ih (as.filter fun b => !b == a) (by simp only [List.length_cons] at hl; omega)
      refine ⟨by simp only [List.length_cons]; omega, ?_⟩
      intro heq
      simp only [List.length_cons] at heq
      have hfl : (as.filter fun b => !b == a).length = as.length := by omega
      have hall := List.length_filter_eq_length_iff.mp hfl
      have hfe : (as.filter fun b => !b == a) = as := List.filter_eq_self.mpr hall
      rw [hfe] at h2 heq
      refine List.nodup_cons.mpr ⟨?_, h2 (by omega)⟩
      intro hm
      have := hall a hm
      simp at this

theorem nodup_of_eraseDups_length {α} [BEq α] [LawfulBEq α] (l : List α)
    (h : l.eraseDups.length = l.length) : l.Nodup :=
  (eraseDups_length_le l.length l (Nat.le_refl _)).2 h

/-! ### plain multisig scripts -/

theorem all_push {f : Bytes → Bool} :
    ∀ (l : List Cmd), l.all (fun c => match c with | .push k => f k | .op _ => false) = true →
      ∃ ks : List Bytes, l = ks.map Cmd.push ∧ ∀ k ∈ ks, f k = true := by
  intro l
  induction l with
  | nil => intro _; exact ⟨[], rfl, fun _ h => by cases h⟩
  | cons c r ih =>
    intro h
    simp only [List.all_cons, Bool.and_eq_true] at h
    obtain ⟨ks, hks, hall⟩ := ih h.2
    cases c with
    | op n => simp at h
    | push k =>
      refine ⟨k :: ks, by simp [hks], ?_⟩
      intro k' hk'
      rcases List.mem_cons.mp hk' with rfl | hk'
      · exact h.1
      · exact hall k' hk'

theorem checkMultisig_name : ∀ e ∈ Gen.psbtOpCodeNames, e.2 = "OP_CHECKMULTISIG" → e.1 = Gen.psbtCheckMultisig := by
  decide

theorem opNameNumber_80 : opNameNumber (some (.op 80)) = none := by decide

/-- both `get_quorum`s: the script ends with OP_CHECKMULTISIG, has at least two commands, and `m` is read
    off the first one -/
theorem scriptQuorum_some {ws redeem : Option Script} {script : Script} {m n : Int}
    (h : scriptQuorum ws redeem = some (script, m, n)) :
    (ws = some script ∨ (ws = none ∧ redeem = some script)) ∧
    script.cmds.getLast? = some (.op Gen.psbtCheckMultisig) ∧
    ((opCodeToNumber script.cmds[0]? = some m ∧ n = (script.cmds.length : Int) - 3) ∨
     (opNameNumber script.cmds[0]? = some m ∧ 2 ≤ script.cmds.length ∧
       opNameNumber script.cmds[script.cmds.length - 2]? = some n)) := by
  unfold scriptQuorum at h
  cases ws with
  | some w =>
    simp only [Option.map_eq_some_iff] at h
    obtain ⟨q, hq, he⟩ := h
    simp only [Prod.mk.injEq] at he
    obtain ⟨rfl, rfl, rfl⟩ := he
    unfold witnessQuorum at hq
    simp only [Option.bind_eq_bind, Option.bind_eq_some_iff] at hq
    obtain ⟨last, hlast, hq⟩ := hq
    cases last with
    | push b => simp at hq
    | op k =>
      simp only [Option.bind_eq_some_iff, req_eq_some_iff, exists_const] at hq
      obtain ⟨name, hname, hnm, hlen, m, hm, n, hn, hq⟩ := hq
      simp only [Option.pure_def, Option.some.injEq] at hq
      subst hq
      refine ⟨Or.inl rfl, ?_, Or.inr ⟨hm, by simpa using hlen, hn⟩⟩
      simp only [Option.map_eq_some_iff] at hname
      obtain ⟨e, he, hen⟩ := hname
      have hmem := List.mem_of_find?_eq_some he
      have hk := List.find?_some he
      simp only [decide_eq_true_eq] at hk
      have := checkMultisig_name e hmem (by rw [hen]; simpa using hnm)
      rw [hlast, ← hk, this]
  | none =>
    cases redeem with
    | none => simp at h
    | some r =>
      simp only [Option.map_eq_some_iff] at h
      obtain ⟨q, hq, he⟩ := h
      simp only [Prod.mk.injEq] at he
      obtain ⟨rfl, rfl, rfl⟩ := he
      unfold redeemQuorum at hq
      simp only [Option.bind_eq_bind, Option.bind_eq_some_iff, req_eq_some_iff, exists_const] at hq
      obtain ⟨last, hlast, hl, m, hm, hq⟩ := hq
      simp only [Option.pure_def, Option.some.injEq] at hq
      subst hq
      refine ⟨Or.inr ⟨rfl, rfl⟩, ?_, Or.inl ⟨hm, rfl⟩⟩
      rw [hlast]
      simpa using hl


theorem list_shape3 {α} (l : List α) (h : 3 ≤ l.length) :
    ∃ c0 mid x y, l = c0 :: mid ++ [x, y] ∧ mid = (l.drop 1).take (l.length - 3) := by
  cases l with
  | nil => simp at h
  | cons c0 t =>
    simp only [List.length_cons] at h
    have hd : (t.drop (t.length - 2)).length = 2 := by simp; omega
    rcases hD : t.drop (t.length - 2) with _ | ⟨x, _ | ⟨y, _ | ⟨z, r⟩⟩⟩
    · rw [hD] at hd; simp at hd
    · rw [hD] at hd; simp at hd
    · refine ⟨c0, t.take (t.length - 2), x, y, ?_, ?_⟩
      · rw [← hD]; simp
      · simp
    · rw [hD] at hd; simp at hd

/-- F11e (repaired): a script accepted by `get_quorum` and by the plain-multisig test is literally
    `<m> <keys> <OP_n> OP_CHECKMULTISIG`, and its keys are the named pubkeys -/
theorem plainMultisig_shape {ws redeem : Option Script} {script : Script} {m n : Int} {named : Dict Bytes}
    (hq : scriptQuorum ws redeem = some (script, m, n))
    (hp : plainMultisigOf script n named = true) :
    ∃ (c0 : Cmd) (keys : List Bytes), script.cmds = c0 :: keys.map Cmd.push ++ [.op (80 + keys.length), .op Gen.psbtCheckMultisig] ∧
      (keys.length : Int) = n ∧ (∀ k, k ∈ keys ↔ k ∈ dkeys named) ∧
      (opCodeToNumber (some c0) = some m ∨ opNameNumber (some c0) = some m) := by
  obtain ⟨_, hlast, hmn⟩ := scriptQuorum_some hq
  unfold plainMultisigOf at hp
  simp only [Bool.and_eq_true, beq_iff_eq] at hp
  obtain ⟨⟨⟨hk, hop⟩, hall⟩, hnamed⟩ := hp
  have hL : 3 ≤ script.cmds.length := by
    simp only [List.length_take, List.length_drop] at hk
    rcases hmn with ⟨_, hn⟩ | ⟨hm, h2, hn⟩
    · omega
    · by_cases h3 : 3 ≤ script.cmds.length
      · exact h3
      · have hl2 : script.cmds.length = 2 := by omega
        rw [hl2] at hk hop
        have hn0 : n = 0 := by omega
        subst hn0
        simp only [Nat.sub_self] at hop
        cases hc : script.cmds[0]? with
        | none => simp [hc] at hop
        | some c =>
          cases c with
          | push b => simp [hc] at hop
          | op k =>
            simp only [hc] at hop
            have hk80 : k = 80 := by
              have : (k : Int) = 80 + 0 := by simpa using hop
              omega
            subst hk80
            rw [hc, opNameNumber_80] at hm
            cases hm
  obtain ⟨c0, mid, x, y, hl, hmid⟩ := list_shape3 script.cmds hL
  rw [← hmid] at hk hall hnamed
  have hlen : script.cmds.length = mid.length + 3 := by rw [hl]; simp
  have hy : y = .op Gen.psbtCheckMultisig := by
    rw [hl] at hlast
    have : (c0 :: (mid ++ [x, y])).getLast? = some y := by
      rw [show c0 :: (mid ++ [x, y]) = (c0 :: mid ++ [x]) ++ [y] by simp]
      exact List.getLast?_concat ..
    rw [show c0 :: mid ++ [x, y] = c0 :: (mid ++ [x, y]) by simp, this] at hlast
    exact Option.some.inj hlast
  have hx : script.cmds[script.cmds.length - 2]? = some x := by
    rw [hlen, hl]
    have : mid.length + 3 - 2 = mid.length + 1 := by omega
    rw [this]
    simp
  rw [hx] at hop
  obtain ⟨keys, hkeys, hkall⟩ := all_push mid hall
  have hkl : keys.length = mid.length := by rw [hkeys]; simp
  have hxop : x = .op (80 + keys.length) := by
    cases x with
    | push b => simp at hop
    | op k =>
      simp only [beq_iff_eq] at hop
      congr 1
      omega
  refine ⟨c0, keys, ?_, by omega, ?_, ?_⟩
  · rw [hl, hy, hxop, hkeys]
  · intro k
    constructor
    · intro hk'
      exact (mem_dkeys_iff named k).mpr (hkall k hk')
    · intro hk'
      obtain ⟨e, he, rfl⟩ := List.mem_map.mp hk'
      have := List.all_eq_true.mp hnamed e he
      rw [hkeys] at this
      simpa using this
  · have h0 : script.cmds[0]? = some c0 := by rw [hl]; simp
    rw [h0] at hmn
    rcases hmn with ⟨hm, _⟩ | ⟨hm, _, _⟩
    · exact Or.inl hm
    · exact Or.inr hm


/-! ### what `PSBTOut.validate` ties a multisig output script to -/

theorem validateOut_commit {H : Hashes} {spk : Script} {po : POut} {script : Script} {m n : Int}
    (h160 : ∀ b, (H.hash160 b).length = 20)
    (hv : validateOut H spk po = some ())
    (hq : scriptQuorum po.witnessScript po.redeem = some (script, m, n)) :
    ∃ raw, rawOf script = some raw ∧
      ((po.witnessScript = some script ∧ po.redeem = none ∧ spk.cmds = [.op 0, .push (H.sha256 raw)]) ∨
       (po.witnessScript = some script ∧ ∃ r rraw, po.redeem = some r ∧ rawOf r = some rraw ∧
          r.cmds = [.op 0, .push (H.sha256 raw)] ∧ spk.cmds = [.op 0xA9, .push (H.hash160 rraw), .op 0x87]) ∨
       (po.witnessScript = none ∧ po.redeem = some script ∧
          spk.cmds = [.op 0xA9, .push (H.hash160 raw), .op 0x87])) := by
  obtain ⟨hwhich, _, _⟩ := scriptQuorum_some hq
  unfold validateOut at hv
  by_cases h1 : isP2pkh spk = true
  · rcases hwhich with hw | ⟨hw, hr⟩
    · simp [h1, hw, req] at hv
    · simp [h1, hw, hr, req] at hv
  by_cases h2 : isP2wpkh spk = true
  · rcases hwhich with hw | ⟨hw, hr⟩
    · simp [h1, h2, hw, req] at hv
    · simp [h1, h2, hw, hr, req] at hv
  simp only [h1, h2, if_false, Bool.false_eq_true] at hv
  rcases hwhich with hw | ⟨hw, hr⟩
  · simp only [hw] at hv
    cases hr : po.redeem with
    | none =>
      simp only [hr, Bool.and_false, Bool.or_false, Option.bind_eq_bind, Option.bind_eq_some_iff,
        req_eq_some_iff, exists_const] at hv
      obtain ⟨hwsh, s256, hs256, wh, hwh, heq, _⟩ := hv
      obtain ⟨h, hcmds, hlen⟩ := (isP2wsh_iff spk).mp hwsh
      simp only [scriptSha256, Option.map_eq_some_iff] at hwh
      obtain ⟨raw, hraw, rfl⟩ := hwh
      refine ⟨raw, hraw, Or.inl ⟨hw, rfl, ?_⟩⟩
      rw [hcmds] at hs256 ⊢
      simp only [beq_iff_eq] at heq
      subst heq
      simp at hs256
      rw [hs256]
    | some r =>
      simp only [hr, Option.bind_eq_bind, Option.bind_eq_some_iff, req_eq_some_iff, exists_const] at hv
      obtain ⟨hcls, c160, hc160, rh, hrh, hrheq, s256, hs256, wh, hwh, heq, _⟩ := hv
      simp only [scriptSha256, Option.map_eq_some_iff] at hwh
      obtain ⟨raw, hraw, rfl⟩ := hwh
      simp only [scriptHash160, Option.map_eq_some_iff] at hrh
      obtain ⟨rraw, hrraw, rfl⟩ := hrh
      simp only [beq_iff_eq] at heq hrheq
      subst heq; subst hrheq
      refine ⟨raw, hraw, Or.inr (Or.inl ⟨hw, r, rraw, rfl, hrraw, ?_, ?_⟩)⟩
      all_goals
        simp only [Bool.or_eq_true, Bool.and_eq_true] at hcls
        rcases hcls with hwsh | ⟨hsh, hrw⟩
        · exfalso
          obtain ⟨h, hcmds, hlen⟩ := (isP2wsh_iff spk).mp hwsh
          rw [hcmds] at hc160
          simp at hc160
          have := h160 rraw
          rw [← hc160] at this
          omega
      · obtain ⟨h, hcmds, hlen⟩ := (isP2wsh_iff r).mp hrw
        rw [hcmds] at hs256 ⊢
        simp at hs256
        rw [hs256]
      · obtain ⟨h, hcmds, hlen⟩ := (isP2sh_iff spk).mp hsh
        rw [hcmds] at hc160 ⊢
        simp at hc160
        rw [hc160]
  · simp only [hw, hr, Option.bind_eq_bind, Option.bind_eq_some_iff, req_eq_some_iff, exists_const] at hv
    obtain ⟨hsh, rh, hrh, heq, _⟩ := hv
    simp only [scriptHash160, Option.map_eq_some_iff] at hrh
    obtain ⟨raw, hraw, rfl⟩ := hrh
    refine ⟨raw, hraw, Or.inr (Or.inr ⟨hw, hr, ?_⟩)⟩
    obtain ⟨h, hcmds, hlen⟩ := (isP2sh_iff spk).mp hsh
    rw [hcmds] at heq ⊢
    simp at heq
    rw [heq]


/-! ### what a successful `PSBTIn.validate` / `PSBTOut.validate` established -/

theorem eq_none_of_not_some {o : Option Unit} (h : o = some () → False) : o = none := by
  cases o with
  | none => rfl
  | some u => cases u; exact (h rfl).elim

theorem validateIn_prevTx {Tx} {H : Hashes} {C : TxCodec Tx} {txin : TxInV} {p : PIn Tx} {t : Tx}
    (hpt : p.prevTx = some t) (h : validateIn H C txin p = some ()) :
    C.hash t = some txin.prevTx ∧ txin.prevIndex < (C.outs t).length := by
  unfold validateIn at h
  simp only [hpt, Option.bind_eq_bind, Option.bind_eq_some_iff, req_eq_some_iff, exists_const] at h
  obtain ⟨_, _, a, ha, heq, hlt, _⟩ := h
  simp only [beq_iff_eq] at heq
  exact ⟨by rw [ha, heq], by simpa using hlt⟩

theorem validateIn_both_utxos {Tx} {H : Hashes} {C : TxCodec Tx} {txin : TxInV} {p : PIn Tx} {t : Tx} {po : TxOutV}
    (hpt : p.prevTx = some t) (hpo : p.prevOut = some po) (h : validateIn H C txin p = some ()) :
    ∃ utxo, (C.outs t)[txin.prevIndex]? = some utxo ∧ utxo.amount = po.amount ∧ utxo.spk.cmds = po.spk.cmds := by
  unfold validateIn at h
  simp only [hpt, hpo, Option.bind_eq_bind, Option.bind_eq_some_iff, req_eq_some_iff, exists_const] at h
  obtain ⟨_, _, _, _, _, _, _, _, utxo, hu, heq, _⟩ := h
  simp only [Bool.and_eq_true, beq_iff_eq] at heq
  exact ⟨utxo, hu, heq.1, heq.2⟩

/-- the non-witness branch with a RedeemScript -/
theorem validateIn_legacy_redeem {Tx} {H : Hashes} {C : TxCodec Tx} {txin : TxInV} {p : PIn Tx} {r : Script}
    (hpo : p.prevOut = none) (hr : p.redeem = some r) (h : validateIn H C txin p = some ()) :
    ∃ spk, p.scriptPubkey C txin = some (some spk) ∧ isP2sh spk = true ∧ (isP2wsh r || isP2wpkh r) = false ∧
      spk.cmds[1]? = scriptHash160 H r ∧ (scriptHash160 H r).isSome = true ∧
      namedInScript p.namedPubs r = true := by
  unfold validateIn at h
  cases hpt : p.prevTx <;> cases hw : p.witnessScript <;>
    simp only [hpt, hpo, hr, hw, Option.bind_eq_bind, Option.bind_eq_some_iff, req_eq_some_iff, exists_const,
      beq_iff_eq] at h
  all_goals
    obtain ⟨ospk, hs, hrest⟩ := h
    cases ospk with
    | none => exfalso; grind
    | some spk => exact ⟨spk, hs, by grind⟩

/-- the non-witness branch with a WitnessScript (F11g repaired) -/
theorem validateIn_legacy_witness {Tx} {H : Hashes} {C : TxCodec Tx} {txin : TxInV} {p : PIn Tx} {ws : Script}
    (hpo : p.prevOut = none) (hw : p.witnessScript = some ws) (h : validateIn H C txin p = some ()) :
    ∃ spk, p.scriptPubkey C txin = some (some spk) ∧ isP2wsh spk = true ∧
      spk.cmds[1]? = scriptSha256 H ws ∧ (scriptSha256 H ws).isSome = true := by
  unfold validateIn at h
  cases hpt : p.prevTx <;> cases hr : p.redeem <;>
    simp only [hpt, hpo, hr, hw, Option.bind_eq_bind, Option.bind_eq_some_iff, req_eq_some_iff, exists_const,
      Option.pure_def, beq_iff_eq] at h
  all_goals
    obtain ⟨ospk, hs, hrest⟩ := h
    cases ospk with
    | none => exfalso; grind
    | some spk => exact ⟨spk, hs, by grind⟩

/-- the witness branch -/
theorem validateIn_witness {Tx} {H : Hashes} {C : TxCodec Tx} {txin : TxInV} {p : PIn Tx} {po : TxOutV}
    (hpo : p.prevOut = some po) (h : validateIn H C txin p = some ()) :
    ∃ spk, p.scriptPubkey C txin = some (some spk) ∧ (isP2sh spk || isP2wsh spk || isP2wpkh spk) = true ∧
      (∀ r, p.redeem = some r → (isP2sh spk && !isWitnessProgram r) = false ∧ isP2sh spk = true) ∧
      (∀ ws, p.witnessScript = some ws →
        (p.redeem = none → isP2wsh spk = true ∧ po.spk.cmds[1]? = scriptSha256 H ws) ∧
        (∀ r, p.redeem = some r → (isP2wsh spk || isP2wsh r) = true ∧ spk.cmds[1]? = scriptHash160 H r ∧
          (scriptHash160 H r).isSome = true ∧ r.cmds[1]? = scriptSha256 H ws) ∧
        (scriptSha256 H ws).isSome = true ∧ namedInScript p.namedPubs ws = true) := by
  unfold validateIn at h
  cases hpt : p.prevTx <;> cases hr : p.redeem <;> cases hw : p.witnessScript <;>
    simp only [hpt, hpo, hr, hw, Option.bind_eq_bind, Option.bind_eq_some_iff, req_eq_some_iff, exists_const,
      Option.pure_def, beq_iff_eq] at h
  all_goals
    first
    | (obtain ⟨_, hs, spk, rfl, hcls, hrest⟩ := h
       refine ⟨spk, hs, hcls, ?_, ?_⟩ <;> grind)
    | (obtain ⟨_, hs, _, _, _, _, spk, rfl, _, _, _, hcls, hrest⟩ := h
       refine ⟨spk, hs, hcls, ?_, ?_⟩ <;> grind)

theorem validateOut_redeem_only {H : Hashes} {spk : Script} {po : POut} {r : Script}
    (hw : po.witnessScript = none) (hr : po.redeem = some r) (h : validateOut H spk po = some ()) :
    isP2sh spk = true ∧ spk.cmds[1]? = scriptHash160 H r ∧ (scriptHash160 H r).isSome = true := by
  unfold validateOut at h
  by_cases h1 : isP2pkh spk = true
  · simp [h1, hr, req] at h
  by_cases h2 : isP2wpkh spk = true
  · simp [h1, h2, hr, req] at h
  simp only [h1, h2, hw, hr, if_false, Bool.false_eq_true, Option.bind_eq_bind, Option.bind_eq_some_iff,
    req_eq_some_iff, exists_const, beq_iff_eq] at h
  obtain ⟨hsh, rh, hrh, heq, _⟩ := h
  exact ⟨hsh, by rw [heq, hrh], by simp [hrh]⟩

theorem validateOut_witness {H : Hashes} {spk : Script} {po : POut} {ws : Script}
    (hw : po.witnessScript = some ws) (h : validateOut H spk po = some ()) :
    (po.redeem = none → isP2wsh spk = true ∧ spk.cmds[1]? = scriptSha256 H ws) ∧
    (∀ r, po.redeem = some r → (isP2wsh spk || (isP2sh spk && isP2wsh r)) = true ∧
      spk.cmds[1]? = scriptHash160 H r ∧ (scriptHash160 H r).isSome = true ∧ r.cmds[1]? = scriptSha256 H ws) ∧
    (scriptSha256 H ws).isSome = true ∧ namedInScript po.namedPubs ws = true := by
  unfold validateOut at h
  by_cases h1 : isP2pkh spk = true
  · simp [h1, hw, req] at h
  by_cases h2 : isP2wpkh spk = true
  · simp [h1, h2, hw, req] at h
  cases hr : po.redeem <;>
    simp only [h1, h2, hw, hr, if_false, Bool.false_eq_true, Option.bind_eq_bind, Option.bind_eq_some_iff,
      req_eq_some_iff, exists_const, beq_iff_eq] at h <;> grind


/-! ### `describe`: the two loops, with the summary's own fields -/

theorem describe_facts {Tx} {cfg : DescribeCfg} {H : Hashes} {C : TxCodec Tx} {O : Oracles} {cm : Dict Bytes}
    {p : Psbt Tx} {s : Summary} (h : describe cfg H C O cm p = some s) :
    ∃ ins outs, describeInputsLoop H C O (hmapOf cm p) (C.ins p.tx) p.ins {} = some ins ∧
      describeOutputsLoop cfg H O (hmapOf cm p) s.m s.n (C.outs p.tx) p.outs {} = some outs ∧
      ins.m = some s.m ∧ ins.n = some s.n ∧ s.totalIn = ins.total ∧ s.totalOut = outs.total ∧
      s.spend = outs.spendSats ∧ s.change = outs.changeSats ∧ s.outputs = outs.descs ∧ s.inputs = ins.descs ∧
      (C.outs p.tx).length = p.outs.length ∧ (C.ins p.tx).length = p.ins.length ∧
      txFee C p = some s.fee ∧ s.totalIn ≠ 0 ∧ (cm ≠ [] ∨ p.hdPubs ≠ []) ∧ ins.rootPaths ≠ [] := by
  obtain ⟨fee, ins, m, n, outs, hv, hfee, hne, hins, hm, hn, houts, htot, rfl⟩ := describe_some h
  unfold describeInputs at hins
  simp only [Option.bind_eq_bind, Option.bind_eq_some_iff, req_eq_some_iff, exists_const, Option.pure_def,
    Option.some.injEq] at hins
  obtain ⟨r, hloop, hrp, rfl⟩ := hins
  unfold Psbt.validate at hv
  simp only [Option.bind_eq_bind, Option.bind_eq_some_iff] at hv
  obtain ⟨u, hvi, hvo⟩ := hv
  cases u
  exact ⟨r, outs, hloop, houts, hm, hn, rfl, rfl, rfl, rfl, rfl, rfl, (validateOutsLoop_spec _ _ hvo).1,
    (validateInsLoop_spec _ _ _ hvi).1, hfee, htot, hne, by simpa using hrp⟩


theorem describe_output_at {Tx} {cfg : DescribeCfg} {H : Hashes} {C : TxCodec Tx} {O : Oracles} {cm : Dict Bytes}
    {p : Psbt Tx} {s : Summary} (h : describe cfg H C O cm p = some s)
    {j : Nat} {o : TxOutV} {po : POut} (ho : (C.outs p.tx)[j]? = some o) (hp : p.outs[j]? = some po) :
    validateOut H o.spk po = some () ∧ hasAddress o.spk = true ∧ s.outputs[j]? = some (outDescOf o po) ∧
    (po.namedPubs ≠ [] → changeOK cfg O (hmapOf cm p) s.m s.n po = some ()) := by
  obtain ⟨ins, outs, _, houts, _, _, _, _, _, _, hout, _⟩ := describe_facts h
  obtain ⟨_, _, hdescs, hidx⟩ := outsLoop_spec _ _ _ _ houts
  obtain ⟨hv, ha, hc⟩ := hidx j o po ho hp
  refine ⟨hv, ha, ?_, hc⟩
  rw [hout, hdescs]
  simp [List.getElem?_zipWith, ho, hp]

theorem describe_input_at {Tx} {cfg : DescribeCfg} {H : Hashes} {C : TxCodec Tx} {O : Oracles} {cm : Dict Bytes}
    {p : Psbt Tx} {s : Summary} (h : describe cfg H C O cm p = some s)
    {i : Nat} {txin : TxInV} {pin : PIn Tx} (ht : (C.ins p.tx)[i]? = some txin) (hp : p.ins[i]? = some pin) :
    InStepOK H C O (hmapOf cm p) txin pin (some s.m) (some s.n) := by
  obtain ⟨ins, outs, hins, _, hm, hn, _⟩ := describe_facts h
  obtain ⟨_, _, _, _, _, hidx⟩ := insLoop_spec _ _ _ _ hins
  have := hidx i txin pin ht hp
  rw [hm, hn] at this
  exact this

theorem describe_n {Tx} {cfg : DescribeCfg} {H : Hashes} {C : TxCodec Tx} {O : Oracles} {cm : Dict Bytes}
    {p : Psbt Tx} {s : Summary} (h : describe cfg H C O cm p = some s) :
    s.n = ((hmapOf cm p).length : Int) := by
  obtain ⟨ins, outs, hins, _, _, hn, _⟩ := describe_facts h
  obtain ⟨_, _, _, _, hnn, _⟩ := insLoop_spec _ _ _ _ hins
  exact hnn (fun n0 h0 => by simp at h0) s.n hn

theorem describe_outInv {Tx} {cfg : DescribeCfg} {H : Hashes} {C : TxCodec Tx} {O : Oracles} {cm : Dict Bytes}
    {p : Psbt Tx} {s : Summary} (h : describe cfg H C O cm p = some s) :
    ∃ outs, OutInv outs ∧ s.outputs = outs.descs ∧ s.change = outs.changeSats ∧ s.spend = outs.spendSats ∧
      s.totalOut = outs.total := by
  obtain ⟨ins, outs, _, houts, _, _, _, h1, h2, h3, h4, _⟩ := describe_facts h
  exact ⟨outs, outsLoop_inv _ _ _ _ houts outInv_init, h4, h3, h2, h1⟩


/-! ### the spend bookkeeping counts outputs, not payees -/

/-- `spendSats` / `spends` are the sum / the number of ALL descriptions not labelled change -/
structure SpendInv (a : OutputsDescribed) : Prop where
  spd : a.spendSats = ((a.descs.filter (fun d => !d.isChange)).map (·.sats)).sum
  cnt : a.spends = (a.descs.filter (fun d => !d.isChange)).length

theorem spendInv_init : SpendInv {} := ⟨rfl, rfl⟩

theorem spendInv_next {o : TxOutV} {p : POut} {acc : OutputsDescribed} (hi : SpendInv acc) :
    SpendInv (outNext o p acc) := by
  obtain ⟨h1, h2⟩ := hi
  by_cases hn : p.namedPubs = []
  · simp only [outNext, hn, ne_eq, not_true_eq_false, if_false]
    refine ⟨?_, ?_⟩
    · simp only [List.filter_append, List.map_append, List.sum_append]
      rw [h1]; simp
    · simp only [List.filter_append, List.length_append]
      rw [h2]; simp
  · simp only [outNext, hn, ne_eq, not_false_eq_true, if_true]
    refine ⟨?_, ?_⟩
    · simp only [List.filter_append, List.map_append, List.sum_append]
      rw [h1]; simp
    · simp only [List.filter_append, List.length_append]
      rw [h2]; simp

theorem outsLoop_spendInv {cfg : DescribeCfg} {H : Hashes} {O : Oracles} {hmap : Dict Bytes} {em en : Int} :
    ∀ (pouts : List POut) (outs : List TxOutV) (acc r : OutputsDescribed),
      describeOutputsLoop cfg H O hmap em en outs pouts acc = some r → SpendInv acc → SpendInv r := by
  intro pouts
  induction pouts with
  | nil =>
    intro outs acc r h hi
    rw [outsLoop_nil] at h
    cases h; exact hi
  | cons p pr ih =>
    intro outs acc r h hi
    cases outs with
    | nil => simp [describeOutputsLoop] at h
    | cons o tr =>
      obtain ⟨_, _, _, hrest⟩ := outsLoop_cons_some h
      exact ih tr _ r hrest (spendInv_next hi)

theorem describe_spendInv {Tx} {cfg : DescribeCfg} {H : Hashes} {C : TxCodec Tx} {O : Oracles} {cm : Dict Bytes}
    {p : Psbt Tx} {s : Summary} (h : describe cfg H C O cm p = some s) :
    ∃ outs, SpendInv outs ∧ s.outputs = outs.descs ∧ s.spend = outs.spendSats ∧
      s.isBatch = decide (outs.spends > 1) := by
  obtain ⟨fee, ins, m, n, outs, _, _, _, _, _, _, houts, _, rfl⟩ := describe_some h
  exact ⟨outs, outsLoop_spendInv _ _ _ _ houts spendInv_init, rfl, rfl, rfl⟩

/-! ### a toy instance (for the satisfiability examples and defect witnesses of Props/C11) -/
namespace Toy

structure TTx where
  id : Bytes
  ins : List TxInV
  outs : List TxOutV
deriving DecidableEq, Repr

def codec : TxCodec TTx where
  parseLegacy := fun _ => none
  parse := fun _ => none
  serialize := fun _ => none
  serializeLegacy := fun _ => none
  hash := fun t => some t.id
  ins := fun t => t.ins
  outs := fun t => t.outs
  finalSerialize := fun _ _ => none

/-- toy "hashes": zero-padded truncation to 20 / 32 bytes -/
def hashes : Hashes where
  hash160 := fun b => (b ++ List.replicate 20 0).take 20
  sha256 := fun b => (b ++ List.replicate 32 0).take 32

/-- toy derivation: the child key is the xpub body followed by the child numbers -/
def oracles : Oracles where
  secOK := fun _ => true
  sigParseOK := fun _ _ => true
  sigOK := fun _ _ _ _ => true
  verifyOK := fun _ _ _ => true
  derive := fun body idxs => some (body ++ idxs.map UInt8.ofNat)

def fp1 : Bytes := [1, 1, 1, 1]
def fp2 : Bytes := [2, 2, 2, 2]
def body1 : Bytes := [0, 1]
def body2 : Bytes := [0, 2]
/-- the caller's `hdpubkey_map`: two cosigners -/
def cmap : Dict Bytes := [(fp1, body1), (fp2, body2)]

/-- `1 <a> <b> 2 OP_CHECKMULTISIG` -/
def multisig (a b : Bytes) : Script := { cmds := [.op 81, .push a, .push b, .op 82, .op 174] }

def p2wshOf (s : Script) : Script := { cmds := [.op 0, .push (hashes.sha256 ((rawOf s).getD []))] }
def p2shOf (s : Script) : Script := { cmds := [.op 0xA9, .push (hashes.hash160 ((rawOf s).getD [])), .op 0x87] }

/-- named pubs of the wallet's address number `i`: one key per cosigner -/
def named (i : UInt8) : Dict Bytes := [(body1 ++ [i], fp1 ++ [i, 0, 0, 0]), (body2 ++ [i], fp2 ++ [i, 0, 0, 0])]
def walletScript (i : UInt8) : Script := multisig (body1 ++ [i]) (body2 ++ [i])

def txin : TxInV := { prevTx := [9], prevIndex := 0, scriptSigEmpty := true }
def pin : PIn TTx :=
  { prevOut := some { amount := 100, spk := p2wshOf (walletScript 5) }, witnessScript := some (walletScript 5),
    namedPubs := named 5, value := some 100 }
def spendOut : TxOutV := { amount := 30, spk := { cmds := [.op 0, .push (List.replicate 20 7)] } }
def changeOut : TxOutV := { amount := 60, spk := p2wshOf (walletScript 6) }
def changeMap : POut := { witnessScript := some (walletScript 6), namedPubs := named 6 }

def tx : TTx := { id := [7], ins := [txin], outs := [changeOut, spendOut] }
/-- an honest 1-of-2 P2WSH spend with one change output -/
def psbt : Psbt TTx := { tx := tx, ins := [pin], outs := [changeMap, {}] }

end Toy

namespace Toy

/-- the toy PSBT with other input maps / transaction outputs / output maps -/
def psbtWith (ins : List (PIn TTx)) (txouts : List TxOutV) (outs : List POut) : Psbt TTx :=
  { tx := { id := [7], ins := [txin], outs := txouts }, ins := ins, outs := outs }

def p2wshChange (s : Script) (named : Dict Bytes) : TxOutV × POut :=
  ({ amount := 60, spk := p2wshOf s }, { witnessScript := some s, namedPubs := named })

/-- F11b-type: P2SH change metadata of the wallet, scriptPubKey = P2SH of somebody else's script -/
def swappedOut : TxOutV := { amount := 60, spk := p2shOf (multisig [9] [9]) }
def swappedMap : POut := { redeem := some (walletScript 6), namedPubs := named 6 }
def psbtSwapped : Psbt TTx := psbtWith [pin] [swappedOut, spendOut] [swappedMap, {}]

/-- F11c-type: `OP_1 <sha256 of the wallet's WitnessScript>` with the wallet's change metadata -/
def op1Out : TxOutV := { amount := 60, spk := { cmds := [.op 81, .push (hashes.sha256 ((rawOf (walletScript 6)).getD []))] } }
def psbtOp1 : Psbt TTx := psbtWith [pin] [op1Out, spendOut] [changeMap, {}]

/-- an input carrying another WitnessScript than the one its UTXO commits to -/
def pinForeignWs : PIn TTx := { pin with witnessScript := some (walletScript 7) }
def psbtForeignWs : Psbt TTx := psbtWith [pinForeignWs] [changeOut, spendOut] [changeMap, {}]

/-- F11d-type: previous transaction says 100, the witness UTXO 1000 -/
def prevT : TTx := { id := [9], ins := [], outs := [{ amount := 100, spk := p2wshOf (walletScript 5) }] }
def pinBoth : PIn TTx :=
  { pin with prevTx := some prevT, prevOut := some { amount := 1000, spk := p2wshOf (walletScript 5) }, value := some 1000 }
def psbtAmount : Psbt TTx := psbtWith [pinBoth] [changeOut, spendOut] [changeMap, {}]

/-- F11a-type: both change keys derived from cosigner 1 -/
def namedOne : Dict Bytes := [(body1 ++ [6], fp1 ++ [6, 0, 0, 0]), (body1 ++ [7], fp1 ++ [7, 0, 0, 0])]
def oneCosigner : TxOutV × POut := p2wshChange (multisig (body1 ++ [6]) (body1 ++ [7])) namedOne
def psbtOneCosigner : Psbt TTx := psbtWith [pin] [oneCosigner.1, spendOut] [oneCosigner.2, {}]

/-- two outputs with change metadata -/
def change7 : TxOutV × POut := p2wshChange (walletScript 7) (named 7)
def psbtTwoChange : Psbt TTx := psbtWith [pin] [changeOut, change7.1] [changeMap, change7.2]

/-- the change script is 2-of-2, the input 1-of-2 -/
def quorum22 : TxOutV × POut :=
  p2wshChange { cmds := [.op 82, .push (body1 ++ [6]), .push (body2 ++ [6]), .op 82, .op 174] } (named 6)
def psbtQuorum : Psbt TTx := psbtWith [pin] [quorum22.1, spendOut] [quorum22.2, {}]

/-- F11e-type: `1 <k1> <k2> OP_2DROP 1 <a> <b> 2 OP_CHECKMULTISIG` — spendable by `a` or `b` alone -/
def notPlainScript : Script :=
  { cmds := [.op 81, .push (body1 ++ [6]), .push (body2 ++ [6]), .op 109, .op 81, .push [66], .push [77], .op 82, .op 174] }
def notPlain : TxOutV × POut := p2wshChange notPlainScript (named 6)
def psbtNotPlain : Psbt TTx := psbtWith [pin] [notPlain.1, spendOut] [notPlain.2, {}]

/-- wrong path: the key of address 7 declared at path 6 -/
def namedWrong : Dict Bytes := [(body1 ++ [7], fp1 ++ [6, 0, 0, 0]), (body2 ++ [6], fp2 ++ [6, 0, 0, 0])]
def wrongPath : TxOutV × POut := p2wshChange (multisig (body1 ++ [7]) (body2 ++ [6])) namedWrong
def psbtWrongPath : Psbt TTx := psbtWith [pin] [wrongPath.1, spendOut] [wrongPath.2, {}]

/-- F11g-type (first shape): non-witness UTXO paying to a 2-of-2 P2WSH, a 1-of-2 WitnessScript attached -/
def prevT22 : TTx :=
  { id := [9], ins := [],
    outs := [{ amount := 100, spk := p2wshOf { cmds := [.op 82, .push (body1 ++ [5]), .push (body2 ++ [5]), .op 82, .op 174] } }] }
def pinUnchecked : PIn TTx :=
  { prevTx := some prevT22, witnessScript := some (walletScript 5), namedPubs := named 5, value := some 100 }
def psbtUnchecked : Psbt TTx := psbtWith [pinUnchecked] [changeOut, spendOut] [changeMap, {}]

end Toy

/-- a list at most as long as a duplicate-free list it covers is a permutation of it -/
theorem perm_of_nodup_subset_length {α} [DecidableEq α] :
    ∀ (d keys : List α), d.Nodup → (∀ k ∈ d, k ∈ keys) → keys.length ≤ d.length → keys.Perm d := by
  intro d
  induction d with
  | nil =>
    intro keys _ _ hl
    have : keys = [] := List.eq_nil_of_length_eq_zero (by simpa using hl)
    subst this
    exact List.Perm.nil
  | cons a d' ih =>
    intro keys hnd hsub hl
    have ha : a ∈ keys := hsub a (List.mem_cons_self ..)
    obtain ⟨hnotin, hnd'⟩ := List.nodup_cons.mp hnd
    have hsub' : ∀ k ∈ d', k ∈ keys.erase a := by
      intro k hk
      have hne : k ≠ a := fun e => hnotin (e ▸ hk)
      exact (List.mem_erase_of_ne hne).mpr (hsub k (List.mem_cons_of_mem _ hk))
    have hl' : (keys.erase a).length ≤ d'.length := by
      rw [List.length_erase_of_mem ha]
      simp only [List.length_cons] at hl
      omega
    exact (List.perm_cons_erase ha).trans ((ih (keys.erase a) hnd' hsub' hl').cons a)

namespace Toy
/-- F11g-type (second shape): witness UTXO paying to a 2-of-2 P2WSH, a 1-of-2 script attached as
    *RedeemScript* (no WitnessScript) -/
def pinUnchecked2 : PIn TTx :=
  { prevOut := some { amount := 100, spk := p2wshOf { cmds := [.op 82, .push (body1 ++ [5]), .push (body2 ++ [5]), .op 82, .op 174] } },
    redeem := some (walletScript 5), namedPubs := named 5, value := some 100 }
def psbtUnchecked2 : Psbt TTx := psbtWith [pinUnchecked2] [changeOut, spendOut] [changeMap, {}]
end Toy

theorem isP2wpkh_iff (s : Script) :
    isP2wpkh s = true ↔ ∃ h, s.cmds = [.op 0, .push h] ∧ h.length = 20 := by
  unfold isP2wpkh
  rcases hs : s.cmds with _ | ⟨a, _ | ⟨b, _ | ⟨c, t⟩⟩⟩
  · simp [pat, Gen.psbtP2wpkhPattern]
  · simp [pat, Gen.psbtP2wpkhPattern]
  · cases a <;> cases b <;> simp [pat, Gen.psbtP2wpkhPattern, cmdIsOp, cmdIsPushLen]
    constructor
    · rintro ⟨rfl, h⟩; exact ⟨_, ⟨rfl, rfl⟩, h⟩
    · rintro ⟨h, ⟨rfl, rfl⟩, hl⟩; exact ⟨rfl, hl⟩
  · simp [pat, Gen.psbtP2wpkhPattern]

/-- a script ending in an opcode (as every script `get_quorum` accepts does) is not a witness program -/
theorem not_witnessProgram_of_last_op {s : Script} {k : Nat} (h : s.cmds.getLast? = some (.op k)) :
    isWitnessProgram s = false := by
  cases hw : isWitnessProgram s with
  | false => rfl
  | true =>
    exfalso
    unfold isWitnessProgram at hw
    simp only [Bool.or_eq_true] at hw
    rcases hw with hw | hw
    · obtain ⟨b, hc, _⟩ := (isP2wpkh_iff s).mp hw
      rw [hc] at h
      simp at h
    · obtain ⟨b, hc, _⟩ := (isP2wsh_iff s).mp hw
      rw [hc] at h
      simp at h

/-- with a witness UTXO, the scriptPubKey `PSBTIn.script_pubkey()` returns has the witness UTXO's commands
    (it is the witness UTXO's, or — F11d — the matching output of the non-witness UTXO) -/
theorem scriptPubkey_cmds_of_prevOut {Tx} {H : Hashes} {C : TxCodec Tx} {txin : TxInV} {p : PIn Tx}
    {wutxo : TxOutV} {spk : Script}
    (hv : validateIn H C txin p = some ()) (hpo : p.prevOut = some wutxo)
    (hs : p.scriptPubkey C txin = some (some spk)) : spk.cmds = wutxo.spk.cmds := by
  cases hpt : p.prevTx with
  | none =>
    simp only [PIn.scriptPubkey, hpt, hpo, Option.some.injEq] at hs
    rw [← hs]
  | some t =>
    obtain ⟨utxo, hu, _, hc⟩ := validateIn_both_utxos hpt hpo hv
    simp only [PIn.scriptPubkey, hpt, hu, Option.some.injEq] at hs
    rw [← hs, hc]

end Buidl.Psbt
