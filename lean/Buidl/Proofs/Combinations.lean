/-
  Buidl.Proofs.Combinations — the model of `itertools.combinations` (Buidl.MuSig.combinations), the
  halving of TapBranch.combine, and the leaves of the k-of-n tree generators.
-/
import Mathlib.Data.Nat.Choose.Basic
import Mathlib.Data.List.Nodup
import Mathlib.Data.List.Forall2
import Buidl.Model.MuSig

namespace Buidl.MuSig
open Buidl Buidl.EC Buidl.Script Buidl.Taproot

/-! ## itertools.combinations -/

variable {α : Type}

/-- **membership**: the combinations are exactly the sublists (subsequences in list order) of length `k` -/
theorem mem_combinations : ∀ (l : List α) (k : ℕ) (s : List α),
    s ∈ combinations l k ↔ s.Sublist l ∧ s.length = k
  | [], 0, s => by simp [combinations, List.sublist_nil]
  | [], k + 1, s => by
    simp only [combinations, List.not_mem_nil, false_iff, not_and]
    intro h; rw [List.sublist_nil.mp h]; simp
  | x :: xs, 0, s => by
    simp only [combinations, List.mem_singleton, List.length_eq_zero_iff]
    constructor
    · rintro rfl; exact ⟨List.nil_sublist _, rfl⟩
    · exact fun h => h.2
  | x :: xs, k + 1, s => by
    simp only [combinations, List.mem_append, List.mem_map]
    constructor
    · rintro (⟨s', hs', rfl⟩ | h)
      · obtain ⟨h1, h2⟩ := (mem_combinations xs k s').mp hs'
        exact ⟨h1.cons_cons x, by simp [h2]⟩
      · obtain ⟨h1, h2⟩ := (mem_combinations xs (k + 1) s).mp h
        exact ⟨h1.cons x, h2⟩
    · rintro ⟨hsub, hlen⟩
      cases hsub with
      | cons _ h => exact Or.inr ((mem_combinations xs (k + 1) s).mpr ⟨h, hlen⟩)
      | cons_cons _ h =>
        rename_i s'
        exact Or.inl ⟨s', (mem_combinations xs k s').mpr ⟨h, by simpa using hlen⟩, rfl⟩

/-- **no repetition**: over a list without duplicates every combination is produced once -/
theorem combinations_nodup : ∀ (l : List α) (k : ℕ), l.Nodup → (combinations l k).Nodup
  | _, 0, _ => by cases ‹List α› <;> simp [combinations]
  | [], _ + 1, _ => by simp [combinations]
  | x :: xs, k + 1, h => by
    have hx : x ∉ xs := (List.nodup_cons.mp h).1
    have hxs : xs.Nodup := (List.nodup_cons.mp h).2
    simp only [combinations]
    refine List.nodup_append.mpr ⟨?_, combinations_nodup xs (k + 1) hxs, ?_⟩
    · exact (combinations_nodup xs k hxs).map (fun a b hab => (List.cons.inj hab).2)
    · intro a ha b hb hab
      obtain ⟨s', _, rfl⟩ := List.mem_map.mp ha
      have hsub := ((mem_combinations xs (k + 1) b).mp hb).1
      rw [← hab] at hsub
      exact hx (hsub.subset (by simp))

/-- **count**: `C(n, k)` combinations -/
theorem combinations_length : ∀ (l : List α) (k : ℕ), (combinations l k).length = Nat.choose l.length k
  | [], 0 => rfl
  | [], _ + 1 => rfl
  | _ :: _, 0 => by simp [combinations]
  | x :: xs, k + 1 => by
    simp only [combinations, List.length_append, List.length_map, List.length_cons, Nat.choose_succ_succ]
    rw [combinations_length xs k, combinations_length xs (k + 1)]

/-- every combination of a duplicate-free list is duplicate-free and a subset -/
theorem combinations_subset {l : List α} {k : ℕ} {s : List α} (h : s ∈ combinations l k) (hl : l.Nodup) :
    s.Nodup ∧ (∀ a ∈ s, a ∈ l) ∧ s.length = k := by
  obtain ⟨h1, h2⟩ := (mem_combinations l k s).mp h
  exact ⟨h1.nodup hl, fun a ha => h1.subset ha, h2⟩

/-- a sublist of a duplicate-free list is determined by its elements -/
theorem sublist_eq_filter [DecidableEq α] {c l : List α} (h : c.Sublist l) (hl : l.Nodup) :
    c = l.filter (· ∈ c) := by
  induction h with
  | slnil => rfl
  | cons a h ih =>
    rename_i c'' l''
    have hnd := List.nodup_cons.mp hl
    have ha : a ∉ c'' := fun hm => hnd.1 (h.subset hm)
    rw [List.filter_cons_of_neg (by simpa using ha)]
    exact ih hnd.2
  | cons_cons a h ih =>
    rename_i c'' l''
    have hnd := List.nodup_cons.mp hl
    rw [List.filter_cons_of_pos (by simp)]
    congr 1
    have : l''.filter (· ∈ a :: c'') = l''.filter (· ∈ c'') := by
      apply List.filter_congr
      intro b hb
      have hne : b ≠ a := fun e => hnd.1 (e ▸ hb)
      simp [hne]
    rw [this]
    exact ih hnd.2

/-- **each k-subset exactly once**: every `k`-subset of the elements (a duplicate-free list in any order)
    is, up to order, one of the combinations, and only one -/
theorem combinations_cover [DecidableEq α] {l : List α} (hl : l.Nodup) {k : ℕ} {s : List α} (hs : s.Nodup)
    (hsub : ∀ a ∈ s, a ∈ l) (hk : s.length = k) :
    ∃ c ∈ combinations l k, c.Perm s ∧ ∀ c' ∈ combinations l k, c'.Perm s → c' = c := by
  have hp : (l.filter (· ∈ s)).Perm s := by
    rw [List.perm_ext_iff_of_nodup (hl.filter _) hs]
    intro a; simp only [List.mem_filter, decide_eq_true_eq]
    exact ⟨fun h => h.2, fun h => ⟨hsub a h, h⟩⟩
  refine ⟨l.filter (· ∈ s), ?_, hp, ?_⟩
  · rw [mem_combinations]
    exact ⟨List.filter_sublist, by rw [hp.length_eq, hk]⟩
  · intro c' hc' hp'
    have hsub' := ((mem_combinations l k c').mp hc').1
    rw [sublist_eq_filter hsub' hl]
    apply List.filter_congr
    intro b _
    simp [hp'.mem_iff]

/-! ## TapBranch.combine -/

theorem combineAux_leaves : ∀ (fuel : ℕ) (nodes : List Tree), nodes ≠ [] → nodes.length ≤ fuel →
    ∃ t, combineAux fuel nodes = some t ∧ t.leaves = (nodes.map Tree.leaves).flatten
  | 0, nodes, hne, hlen => by
    exfalso; apply hne; exact List.length_eq_zero_iff.mp (by omega)
  | fuel + 1, [], hne, _ => absurd rfl hne
  | fuel + 1, [t], _, _ => ⟨t, rfl, by simp⟩
  | fuel + 1, a :: b :: rest, _, hlen => by
    have hl : (a :: b :: rest).length = rest.length + 2 := by simp
    have hhalf : 1 ≤ (a :: b :: rest).length / 2 := by rw [hl]; omega
    have hhalf2 : (a :: b :: rest).length / 2 < (a :: b :: rest).length := by rw [hl]; omega
    obtain ⟨tl, h1, h1'⟩ := combineAux_leaves fuel ((a :: b :: rest).take ((a :: b :: rest).length / 2))
      (by intro e; have := congrArg List.length e; simp only [List.length_take, List.length_nil] at this; omega)
      (by simp only [List.length_take]; omega)
    obtain ⟨tr, h2, h2'⟩ := combineAux_leaves fuel ((a :: b :: rest).drop ((a :: b :: rest).length / 2))
      (by intro e; have := congrArg List.length e; simp only [List.length_drop, List.length_nil] at this; omega)
      (by simp only [List.length_drop]; omega)
    refine ⟨.branch tl tr, ?_, ?_⟩
    · simp only [combineAux, h1, h2, Option.bind_eq_bind, Option.bind_some, Option.pure_def]
    · simp only [Tree.leaves, h1', h2']
      rw [← List.flatten_append, ← List.map_append, List.take_append_drop]

/-- **TapBranch.combine keeps the leaves, in order** (and answers for every non-empty list) -/
theorem combine_leaves (nodes : List Tree) (hne : nodes ≠ []) :
    ∃ t, combine nodes = some t ∧ t.leaves = (nodes.map Tree.leaves).flatten :=
  combineAux_leaves nodes.length nodes hne (Nat.le_refl _)

theorem combine_nil : combine [] = none := rfl

theorem combine_some {nodes : List Tree} {t : Tree} (h : combine nodes = some t) :
    nodes ≠ [] ∧ t.leaves = (nodes.map Tree.leaves).flatten := by
  have hne : nodes ≠ [] := by rintro rfl; simp [combine_nil] at h
  obtain ⟨t', h1, h2⟩ := combine_leaves nodes hne
  rw [h] at h1; cases h1
  exact ⟨hne, h2⟩

/-! ## the tree generators of TapRootMultiSig -/

theorem mapM'_forall₂ {β γ : Type} (f : β → Option γ) : ∀ (l : List β) (r : List γ), mapM' f l = some r →
    List.Forall₂ (fun a b => f a = some b) l r
  | [], r, h => by simp only [mapM', Option.some.injEq] at h; subst h; exact .nil
  | a :: as, r, h => by
    simp only [mapM'] at h
    cases ha : f a with
    | none => simp [ha] at h
    | some b =>
      cases hr : mapM' f as with
      | none => simp [ha, hr] at h
      | some bs =>
        simp only [ha, hr, Option.bind_eq_bind, Option.bind_some, Option.pure_def, Option.some.injEq] at h
        subst h
        exact .cons ha (mapM'_forall₂ f as bs hr)

theorem forall₂_map_some {β γ δ : Type} (f : β → Option γ) (gm : γ → δ) {l : List β} {r : List δ}
    (h : List.Forall₂ (fun a b => (f a).map gm = some b) l r) :
    ∃ cs : List γ, r = cs.map gm ∧ List.Forall₂ (fun a c => f a = some c) l cs := by
  induction h with
  | nil => exact ⟨[], rfl, .nil⟩
  | cons hab _ ih =>
    obtain ⟨cs, rfl, hcs⟩ := ih
    rename_i a b _ _
    cases hm : f a with
    | none => simp [hm] at hab
    | some c =>
      simp only [hm, Option.map_some, Option.some.injEq] at hab
      exact ⟨c :: cs, by simp [← hab], .cons hm hcs⟩

theorem leaves_of_leafOfCmds (cs : List (List Cmd)) :
    ((cs.map leafOfCmds).map Tree.leaves).flatten = cs.map (fun c => ({ script := { cmds := c } } : Leaf)) := by
  induction cs with
  | nil => rfl
  | cons c t ih => simp only [List.map_cons, List.flatten_cons, ih, leafOfCmds, Tree.leaves, List.singleton_append]

/-- **multi_leaf_tree**: its leaves are, in order, one `MultiSigTapScript(subset, k)` leaf per combination of
    the points — position `i` of the leaves belongs to combination `i` -/
theorem multiLeafTree_leaves {T : TapRootMultiSig} {lock seq : Option ℕ} {t : Tree}
    (h : multiLeafTree T lock seq = some t) :
    ∃ cs : List (List Cmd), List.Forall₂ (fun pk c => multiSigCmds pk T.k lock seq = some c) (combinations T.points T.k) cs ∧
      t.leaves = cs.map (fun c => ({ script := { cmds := c } } : Leaf)) := by
  unfold multiLeafTree at h
  cases hl : multiLeafLeaves T lock seq with
  | none => simp [hl] at h
  | some ls =>
    simp only [hl, Option.bind_eq_bind, Option.bind_some] at h
    obtain ⟨_, hleaves⟩ := combine_some h
    have hf := mapM'_forall₂ _ _ _ hl
    have := forall₂_map_some (fun pk => multiSigCmds pk T.k lock seq) leafOfCmds hf
    obtain ⟨cs, rfl, hcs⟩ := this
    exact ⟨cs, hcs, by rw [hleaves, leaves_of_leafOfCmds]⟩

/-- **musig_tree**: likewise, one `MuSigTapScript(subset)` leaf per combination -/
theorem musigTree_leaves {H : Hashes} {T : TapRootMultiSig} {lock seq : Option ℕ} {t : Tree}
    (h : musigTree H T lock seq = some t) :
    ∃ Ms : List MuSig, List.Forall₂ (fun pk M => musigNew H pk lock seq = some M) (combinations T.points T.k) Ms ∧
      t.leaves = Ms.map (fun M => ({ script := { cmds := M.cmds } } : Leaf)) := by
  unfold musigTree at h
  cases hl : musigLeaves H T lock seq with
  | none => simp [hl] at h
  | some ls =>
    simp only [hl, Option.bind_eq_bind, Option.bind_some] at h
    obtain ⟨_, hleaves⟩ := combine_some h
    have hf := mapM'_forall₂ _ _ _ hl
    have := forall₂_map_some (fun pk => musigNew H pk lock seq) (fun M => leafOfCmds M.cmds) hf
    obtain ⟨Ms, rfl, hMs⟩ := this
    refine ⟨Ms, hMs, ?_⟩
    rw [hleaves]
    have : Ms.map (fun M => leafOfCmds M.cmds) = (Ms.map (·.cmds)).map leafOfCmds := by rw [List.map_map]; rfl
    rw [this, leaves_of_leafOfCmds, List.map_map]; rfl

/-- number of leaves of both generators: `C(n, k)` -/
theorem forall₂_length {β γ : Type} {Rel : β → γ → Prop} {l : List β} {r : List γ} (h : List.Forall₂ Rel l r) :
    r.length = l.length := h.length_eq.symm

/-! ## different subsets give different MultiSigTapScript leaves -/

theorem checksigAdds_inj : ∀ (a b : List Bytes), checksigAdds a = checksigAdds b → a = b
  | [], [], _ => rfl
  | [], _ :: _, h => by simp [checksigAdds] at h
  | _ :: _, [], h => by simp [checksigAdds] at h
  | x :: xs, y :: ys, h => by
    simp only [checksigAdds, List.cons.injEq, Cmd.push.injEq, true_and] at h
    rw [h.1, checksigAdds_inj xs ys h.2]

theorem checksigAdds_length (a : List Bytes) : (checksigAdds a).length = 2 * a.length := by
  induction a with
  | nil => rfl
  | cons x xs ih => simp only [checksigAdds, List.length_cons, ih]; omega

/-- the script determines the sorted x-only key list (for key lists of one length) -/
theorem multiSigCmds_sorted_eq {s₁ s₂ : List Pt} {k : ℕ} {lock seq : Option ℕ} {c : List Cmd}
    (h₁ : multiSigCmds s₁ k lock seq = some c) (h₂ : multiSigCmds s₂ k lock seq = some c)
    (hlen : s₁.length = s₂.length) : sortBytes (s₁.map xonly) = sortBytes (s₂.map xonly) := by
  unfold multiSigCmds at h₁ h₂
  cases hpre : timelockCmds lock seq with
  | none => simp [hpre] at h₁
  | some pre =>
    simp only [hpre, Option.bind_eq_bind, Option.bind_some] at h₁ h₂
    cases hso₁ : sortBytes (s₁.map xonly) with
    | nil => simp [hso₁] at h₁
    | cons x₁ r₁ =>
      cases hso₂ : sortBytes (s₂.map xonly) with
      | nil => simp [hso₂] at h₂
      | cons x₂ r₂ =>
        simp only [hso₁, hso₂] at h₁ h₂
        cases hp₁ : parseAll (x₁ :: r₁) with
        | none => simp [hp₁] at h₁
        | some _ =>
          cases hp₂ : parseAll (x₂ :: r₂) with
          | none => simp [hp₂] at h₂
          | some _ =>
            simp only [hp₁, hp₂, Option.bind_some] at h₁ h₂
            have hr : r₁.length = r₂.length := by
              have e1 := (sortBytes_perm_len (s₁.map xonly))
              have e2 := (sortBytes_perm_len (s₂.map xonly))
              rw [hso₁] at e1; rw [hso₂] at e2
              simp only [List.length_cons, List.length_map] at e1 e2
              omega
            by_cases hm : s₁.length > Gen.multiSigMoreThan
            · have hm₂ : s₂.length > Gen.multiSigMoreThan := by omega
              rw [if_pos hm] at h₁; rw [if_pos hm₂] at h₂
              cases hk : numberToOpCode k with
              | none => simp [hk] at h₁
              | some kop =>
                simp only [hk, Option.bind_some, Option.pure_def, Option.some.injEq] at h₁ h₂
                have := h₁.trans h₂.symm
                simp only [List.append_assoc, List.append_cancel_left_eq, List.cons_append, List.nil_append,
                  List.cons.injEq, Cmd.push.injEq, true_and] at this
                obtain ⟨hx, hrest⟩ := this
                have hcs := List.append_inj hrest (by rw [checksigAdds_length, checksigAdds_length, hr])
                rw [hx, checksigAdds_inj _ _ hcs.1]
            · have hm₂ : ¬ s₂.length > Gen.multiSigMoreThan := by omega
              rw [if_neg hm] at h₁; rw [if_neg hm₂] at h₂
              simp only [Option.pure_def, Option.some.injEq] at h₁ h₂
              have := h₁.trans h₂.symm
              simp only [List.append_cancel_left_eq, List.cons.injEq, Cmd.push.injEq, and_true] at this
              -- a single key each
              have hl₁ : r₁ = [] := by
                have e1 := sortBytes_perm_len (s₁.map xonly)
                rw [hso₁] at e1
                simp only [List.length_cons, List.length_map, Gen.multiSigMoreThan] at e1 hm
                exact List.length_eq_zero_iff.mp (by omega)
              have hl₂ : r₂ = [] := List.length_eq_zero_iff.mp (by rw [← hr, hl₁]; rfl)
              rw [this, hl₁, hl₂]
where
  sortBytes_perm_len (l : List Bytes) : (sortBytes l).length = l.length := by
    induction l with
    | nil => rfl
    | cons x xs ih =>
      simp only [sortBytes, List.length_cons, ← ih]
      generalize sortBytes xs = t
      induction t with
      | nil => rfl
      | cons y ys ih' => simp only [insertBytes]; split <;> simp [ih']

theorem map_eq_of_injOn {β γ : Type} (f : β → γ) : ∀ (s₁ s₂ : List β),
    (∀ a ∈ s₁, ∀ b ∈ s₂, f a = f b → a = b) → s₁.map f = s₂.map f → s₁ = s₂
  | [], [], _, _ => rfl
  | [], _ :: _, _, h => by simp at h
  | _ :: _, [], _, h => by simp at h
  | a :: as, b :: bs, hinj, h => by
    simp only [List.map_cons, List.cons.injEq] at h
    rw [hinj a (by simp) b (by simp) h.1,
      map_eq_of_injOn f as bs (fun x hx y hy => hinj x (by simp [hx]) y (by simp [hy])) h.2]

/-- **different k-subsets own different leaves**: over points with pairwise different x-only keys, two
    combinations with the same MultiSigTapScript commands are the same combination -/
theorem multisig_leaf_inj {pts : List Pt} (hnd : (pts.map xonly).Nodup) {k : ℕ} {lock seq : Option ℕ}
    {s₁ s₂ : List Pt} {c : List Cmd} (hs₁ : s₁ ∈ combinations pts k) (hs₂ : s₂ ∈ combinations pts k)
    (h₁ : multiSigCmds s₁ k lock seq = some c) (h₂ : multiSigCmds s₂ k lock seq = some c) : s₁ = s₂ := by
  obtain ⟨sub₁, len₁⟩ := (mem_combinations pts k s₁).mp hs₁
  obtain ⟨sub₂, len₂⟩ := (mem_combinations pts k s₂).mp hs₂
  have hsorted := multiSigCmds_sorted_eq h₁ h₂ (by rw [len₁, len₂])
  have hperm : (s₁.map xonly).Perm (s₂.map xonly) :=
    (sortBytes_perm' _).symm.trans (hsorted ▸ sortBytes_perm' _)
  have e₁ := sublist_eq_filter (sub₁.map xonly) hnd
  have e₂ := sublist_eq_filter (sub₂.map xonly) hnd
  have hmap : s₁.map xonly = s₂.map xonly := by
    rw [e₁, e₂]
    apply List.filter_congr
    intro b _
    simp [hperm.mem_iff]
  apply map_eq_of_injOn xonly s₁ s₂ _ hmap
  intro a ha b hb hab
  exact List.inj_on_of_nodup_map hnd (sub₁.subset ha) (sub₂.subset hb) hab
where
  insert_perm (x : Bytes) (l : List Bytes) : (insertBytes x l).Perm (x :: l) := by
    induction l with
    | nil => exact List.Perm.refl _
    | cons y ys ih =>
      unfold insertBytes
      split
      · exact List.Perm.refl _
      · exact (List.Perm.cons y ih).trans (List.Perm.swap x y ys)
  sortBytes_perm' (l : List Bytes) : (sortBytes l).Perm l := by
    induction l with
    | nil => exact List.Perm.refl _
    | cons x xs ih => exact (insert_perm x _).trans (List.Perm.cons x ih)

end Buidl.MuSig
