/-
  Buidl.Proofs.Merkle — helper lemmas for C17: Merkle roots (model = level recursion = tree recursion),
  tree sizing, the cursor machine of MerkleTree.populate_tree simulated by the recursive BIP37
  traversal, completeness and soundness of BIP37 proofs, bit-field codec.
-/
import Buidl.Model.Merkle
import Buidl.Spec.Merkle
import Buidl.Proofs.Bytes
namespace Buidl.Merkle
open Buidl Buidl.Spec.Merkle

/-! ## Merkle root: model = ComputeMerkleRoot -/

theorem pairUp_dupLast (H : Bytes → Bytes) : ∀ l : List Bytes, pairUp H (dupLast l) = levelUp H l
  | [] => by simp [dupLast, pairUp, levelUp]
  | [a] => by simp [dupLast, pairUp, levelUp, merkleParent]
  | a :: b :: r => by
    have ih := pairUp_dupLast H r
    have hd : dupLast (a :: b :: r) = a :: b :: dupLast r := by
      unfold dupLast
      by_cases hr : r.length % 2 = 1
      · have h1 : (a :: b :: r).length % 2 = 1 := by simp only [List.length_cons]; omega
        rw [if_pos h1, if_pos hr]
        cases r with
        | nil => simp at hr
        | cons c r' =>
          simp only [List.getLast?_cons_cons]
          cases (c :: r').getLast? <;> simp
      · have h1 : ¬ (a :: b :: r).length % 2 = 1 := by simp only [List.length_cons]; omega
        rw [if_neg h1, if_neg hr]
    rw [hd]
    simp only [pairUp, levelUp, merkleParent, ih]

/-- helper.merkle_parent_level is one level of ComputeMerkleRoot, and leaves the duplicated hash in the caller's list -/
theorem merkleParentLevel_eq (H : Bytes → Bytes) (l : List Bytes) (h : l.length ≠ 1) :
    merkleParentLevel H l = some (levelUp H l, dupLast l) := by
  unfold merkleParentLevel
  rw [if_neg h]
  simp only [pairUp_dupLast]

theorem merkleRootLoop_eq_levelRoot (H : Bytes → Bytes) (l : List Bytes) :
    merkleRootLoop H l = levelRoot H l := by
  induction l using levelRoot.induct H with
  | case1 => rw [merkleRootLoop, levelRoot]; simp
  | case2 a => rw [merkleRootLoop, levelRoot]; simp
  | case3 a b r ih =>
    rw [merkleRootLoop, levelRoot]
    simp only [List.length_cons, gt_iff_lt, show 1 < r.length + 1 + 1 by omega, ↓reduceDIte]
    rw [pairUp_dupLast, ih]

theorem levelUp_dupLast (H : Bytes → Bytes) : ∀ l : List Bytes, levelUp H (dupLast l) = levelUp H l
  | [] => by simp [dupLast]
  | [a] => by simp [dupLast, levelUp]
  | a :: b :: r => by
    have ih := levelUp_dupLast H r
    have hd : dupLast (a :: b :: r) = a :: b :: dupLast r := by
      unfold dupLast
      by_cases hr : r.length % 2 = 1
      · have h1 : (a :: b :: r).length % 2 = 1 := by simp only [List.length_cons]; omega
        rw [if_pos h1, if_pos hr]
        cases r with
        | nil => simp at hr
        | cons c r' =>
          simp only [List.getLast?_cons_cons]
          cases (c :: r').getLast? <;> simp
      · have h1 : ¬ (a :: b :: r).length % 2 = 1 := by simp only [List.length_cons]; omega
        rw [if_neg h1, if_neg hr]
    rw [hd]; simp only [levelUp, ih]

theorem dupLast_length_even (l : List Bytes) (h : l ≠ []) : (dupLast l).length % 2 = 0 := by
  unfold dupLast
  split
  · next h1 =>
    cases hl : l.getLast? with
    | none => simp [List.getLast?_eq_none_iff] at hl; exact absurd hl h
    | some x => simp; omega
  · omega

theorem dupLast_of_even (l : List Bytes) (h : l.length % 2 = 0) : dupLast l = l := by
  unfold dupLast; rw [if_neg (by omega)]

theorem levelRoot_unfold (H : Bytes → Bytes) (l : List Bytes) (h : 1 < l.length) :
    levelRoot H l = levelRoot H (levelUp H l) := by
  match l, h with
  | a :: b :: r, _ => rw [levelRoot]

theorem levelRoot_single (H : Bytes → Bytes) (a : Bytes) : levelRoot H [a] = some a := by rw [levelRoot]

theorem levelRoot_isSome (H : Bytes → Bytes) (l : List Bytes) (h : l ≠ []) : (levelRoot H l).isSome := by
  induction l using levelRoot.induct H with
  | case1 => exact absurd rfl h
  | case2 a => rw [levelRoot]; rfl
  | case3 a b r ih =>
    rw [levelRoot]; apply ih
    simp [levelUp]

/-- helper.merkle_root in terms of ComputeMerkleRoot, with the list as the call leaves it -/
theorem merkleRoot_eq (H : Bytes → Bytes) (l : List Bytes) :
    merkleRoot H l = (levelRoot H l).map (·, if l.length > 1 then dupLast l else l) := by
  unfold merkleRoot; rw [merkleRootLoop_eq_levelRoot]

/-- the list a first call leaves behind gives the same root, and is not changed again -/
theorem merkleRoot_again (H : Bytes → Bytes) (l l' : List Bytes) (r : Bytes)
    (h : merkleRoot H l = some (r, l')) : merkleRoot H l' = some (r, l') := by
  rw [merkleRoot_eq] at h ⊢
  cases hr : levelRoot H l with
  | none => rw [hr] at h; cases h
  | some r0 =>
    rw [hr] at h
    simp only [Option.map_some, Option.some.injEq, Prod.mk.injEq] at h
    obtain ⟨h1, h2⟩ := h
    subst h1
    by_cases hl : l.length > 1
    · rw [if_pos hl] at h2
      have hne : l ≠ [] := by intro h0; rw [h0] at hl; simp at hl
      have hev := dupLast_length_even l hne
      have hroot : levelRoot H l' = some r0 := by
        rw [← h2, levelRoot_unfold H _ (by have := dupLast_length_le l; unfold dupLast; split <;> (try split) <;> simp <;> omega),
          levelUp_dupLast, ← levelRoot_unfold H l hl, hr]
      rw [hroot, ← h2, dupLast_of_even _ hev]
      simp
    · rw [if_neg hl] at h2
      subst h2
      rw [hr, if_neg hl]; rfl

/-! ## level recursion = tree recursion (CalcHash at the top node) -/

theorem levelUp_take (H : Bytes → Bytes) : ∀ (k : Nat) (l : List Bytes), levelUp H (l.take (2 * k)) = (levelUp H l).take k
  | 0, l => by simp [levelUp]
  | k + 1, [] => by simp [levelUp]
  | k + 1, [a] => by
    rw [show 2 * (k + 1) = (2 * k + 1) + 1 by omega]
    simp [levelUp]
  | k + 1, a :: b :: r => by
    rw [show 2 * (k + 1) = (2 * k + 1) + 1 by omega]
    simp only [List.take_succ_cons, levelUp, levelUp_take H k r]

theorem levelUp_drop (H : Bytes → Bytes) : ∀ (k : Nat) (l : List Bytes), levelUp H (l.drop (2 * k)) = (levelUp H l).drop k
  | 0, l => by simp
  | k + 1, [] => by simp [levelUp]
  | k + 1, [a] => by
    rw [show 2 * (k + 1) = (2 * k + 1) + 1 by omega]
    simp [levelUp]
  | k + 1, a :: b :: r => by
    rw [show 2 * (k + 1) = (2 * k + 1) + 1 by omega]
    simp only [List.drop_succ_cons, levelUp, levelUp_drop H k r]

theorem calcHash_succ (H : Bytes → Bytes) (h : Nat) (seg : List Bytes) :
    calcHash H (h + 1) seg = H (calcHash H h (seg.take (2 ^ h)) ++
      (if seg.length > 2 ^ h then calcHash H h (seg.drop (2 ^ h)) else calcHash H h (seg.take (2 ^ h)))) := rfl

theorem calcHash_levelUp (H : Bytes → Bytes) : ∀ (h : Nat) (l : List Bytes), 0 < l.length → l.length ≤ 2 ^ (h + 1) →
    calcHash H (h + 1) l = calcHash H h (levelUp H l)
  | 0, l, h0, h1 => by
    match l, h0, h1 with
    | [a], _, _ => simp [calcHash, levelUp]
    | [a, b], _, _ => simp [calcHash, levelUp]
    | a :: b :: c :: r, _, h1 => simp at h1
  | h + 1, l, h0, h1 => by
    have hp : 0 < 2 ^ h := Nat.two_pow_pos _
    have e1 : 2 ^ (h + 1) = 2 * 2 ^ h := by rw [Nat.pow_succ]; omega
    have e2 : 2 ^ (h + 1 + 1) = 2 * (2 * 2 ^ h) := by rw [Nat.pow_succ, e1]; omega
    rw [calcHash_succ H (h + 1) l, calcHash_succ H h (levelUp H l)]
    have hl : (levelUp H l).length = (l.length + 1) / 2 := levelUp_length H l
    have ihL := calcHash_levelUp H h (l.take (2 ^ (h + 1))) (by simp only [List.length_take]; omega)
      (by simp only [List.length_take]; omega)
    rw [ihL, e1, levelUp_take]
    by_cases hc : l.length > 2 * 2 ^ h
    · have hc' : (levelUp H l).length > 2 ^ h := by rw [hl]; omega
      rw [if_pos hc, if_pos hc']
      have ihR := calcHash_levelUp H h (l.drop (2 ^ (h + 1))) (by simp only [List.length_drop]; omega)
        (by simp only [List.length_drop]; omega)
      rw [e1] at ihR
      rw [ihR, levelUp_drop]
    · have hc' : ¬ (levelUp H l).length > 2 ^ h := by rw [hl]; omega
      rw [if_neg hc, if_neg hc']

/-- the height of the tree over `n` leaves: `n ≤ 2^h`, and `h` is the least such -/
def IsCeilLog2 (n h : Nat) : Prop := n ≤ 2 ^ h ∧ (h = 0 ∨ 2 ^ (h - 1) < n)

theorem IsCeilLog2.unique {n a b : Nat} (ha : IsCeilLog2 n a) (hb : IsCeilLog2 n b) : a = b := by
  rcases Nat.lt_trichotomy a b with h | h | h
  · exfalso
    rcases hb.2 with h0 | h0
    · omega
    · have : 2 ^ a ≤ 2 ^ (b - 1) := Nat.pow_le_pow_right (by omega) (by omega)
      have := ha.1; omega
  · exact h
  · exfalso
    rcases ha.2 with h0 | h0
    · omega
    · have : 2 ^ b ≤ 2 ^ (a - 1) := Nat.pow_le_pow_right (by omega) (by omega)
      have := hb.1; omega

theorem levelRoot_eq_calcHash (H : Bytes → Bytes) : ∀ (h : Nat) (l : List Bytes), 0 < l.length → IsCeilLog2 l.length h →
    levelRoot H l = some (calcHash H h l)
  | 0, l, h0, hc => by
    have : l.length ≤ 1 := by simpa using hc.1
    match l, h0, this with
    | [a], _, _ => rw [levelRoot]; rfl
  | h + 1, l, h0, hc => by
    have hp : 0 < 2 ^ h := Nat.two_pow_pos _
    have e1 : 2 ^ (h + 1) = 2 * 2 ^ h := by rw [Nat.pow_succ]; omega
    have hlo : 2 ^ h < l.length := by
      rcases hc.2 with h1 | h1
      · omega
      · simpa using h1
    have hhi := hc.1
    rw [levelRoot_unfold H l (by omega), calcHash_levelUp H h l h0 hhi]
    have hl : (levelUp H l).length = (l.length + 1) / 2 := levelUp_length H l
    apply levelRoot_eq_calcHash H h (levelUp H l) (by rw [hl]; omega)
    refine ⟨by rw [hl]; omega, ?_⟩
    cases h with
    | zero => left; rfl
    | succ k =>
      right
      have e3 : 2 ^ (k + 1) = 2 * 2 ^ k := by rw [Nat.pow_succ]; omega
      simp only [Nat.add_sub_cancel]
      rw [hl]; omega

theorem ceilLog2Aux_spec (n : Nat) : ∀ (fuel h : Nat), n ≤ 2 ^ (h + fuel) → (h = 0 ∨ 2 ^ (h - 1) < n) →
    IsCeilLog2 n (ceilLog2Aux n fuel h)
  | 0, h, h1, h2 => by simpa [ceilLog2Aux, IsCeilLog2] using ⟨h1, h2⟩
  | f + 1, h, h1, h2 => by
    unfold ceilLog2Aux
    split
    · next hle => exact ⟨hle, h2⟩
    · next hgt =>
      apply ceilLog2Aux_spec n f (h + 1) (by rw [show h + 1 + f = h + (f + 1) by omega]; exact h1)
      right; simp only [Nat.add_sub_cancel]; omega

theorem ceilLog2_spec (n : Nat) : IsCeilLog2 n (ceilLog2 n) := by
  unfold ceilLog2
  apply ceilLog2Aux_spec n n 0
  · simpa using Nat.le_of_lt (Nat.lt_two_pow_self (n := n))
  · left; rfl

/-- ComputeMerkleRoot = CalcHash at the top node -/
theorem levelRoot_eq_treeRoot (H : Bytes → Bytes) (l : List Bytes) (h : l ≠ []) :
    levelRoot H l = some (treeRoot H l) := by
  have h0 : 0 < l.length := List.length_pos_iff.mpr h
  exact levelRoot_eq_calcHash H _ l h0 (ceilLog2_spec l.length)

theorem bitLength_spec : ∀ m : Nat, m < 2 ^ bitLength m ∧ (bitLength m = 0 ∨ 2 ^ (bitLength m - 1) ≤ m)
  | 0 => by rw [bitLength]; simp
  | m + 1 => by
    rw [bitLength]
    have ih := bitLength_spec ((m + 1) / 2)
    have e : 2 ^ (bitLength ((m + 1) / 2) + 1) = 2 * 2 ^ bitLength ((m + 1) / 2) := by rw [Nat.pow_succ]; omega
    refine ⟨by rw [e]; omega, Or.inr ?_⟩
    simp only [Nat.add_sub_cancel]
    rcases ih.2 with h0 | h0
    · rw [h0]; simp
    · have : 2 ^ bitLength ((m + 1) / 2) = 2 * 2 ^ (bitLength ((m + 1) / 2) - 1) := by
        cases hb : bitLength ((m + 1) / 2) with
        | zero =>
          rw [hb] at h0 ih
          simp at ih
          omega
        | succ k => rw [Nat.pow_succ]; simp; omega
      omega
decreasing_by omega

theorem bitLength_pred_isCeilLog2 (n : Nat) (hn : 0 < n) : IsCeilLog2 n (bitLength (n - 1)) := by
  have := bitLength_spec (n - 1)
  refine ⟨by omega, ?_⟩
  rcases this.2 with h | h
  · left; exact h
  · right; omega

/-! ## level sizes -/

theorem lt_levelSize_iff (n D d i : Nat) : i < levelSize n D d ↔ i * 2 ^ (D - d) < n := by
  unfold levelSize
  have hp : 0 < 2 ^ (D - d) := Nat.two_pow_pos _
  generalize 2 ^ (D - d) = p at hp
  rw [Nat.lt_iff_add_one_le, Nat.le_div_iff_mul_le hp]
  constructor
  · intro h; rw [Nat.add_mul] at h; omega
  · intro h; rw [Nat.add_mul]; omega

/-! ## the cursor machine of populate_tree simulated by the recursive traversal -/

/-- node `(d', i')` lies in the subtree of node `(d, i)` -/
def InSub (d i d' i' : Nat) : Prop := d ≤ d' ∧ i' / 2 ^ (d' - d) = i

/-- `g` agrees with `f` outside the subtree of `(d, i)` -/
def Untouched (d i : Nat) (f g : Nat → Nat → Option Bytes) : Prop := ∀ d' i', ¬ InSub d i d' i' → g d' i' = f d' i'

def upd (f : Nat → Nat → Option Bytes) (d i : Nat) (v : Bytes) : Nat → Nat → Option Bytes :=
  fun d' i' => if d' = d ∧ i' = i then some v else f d' i'

theorem InSub.self (d i : Nat) : InSub d i d i := ⟨Nat.le_refl _, by simp⟩

theorem InSub.of_left {d i d' i' : Nat} (h : InSub (d + 1) (2 * i) d' i') : InSub d i d' i' := by
  obtain ⟨h1, h2⟩ := h
  refine ⟨by omega, ?_⟩
  have e : d' - d = (d' - (d + 1)) + 1 := by omega
  rw [e, Nat.pow_succ, ← Nat.div_div_eq_div_mul, h2]; omega

theorem InSub.of_right {d i d' i' : Nat} (h : InSub (d + 1) (2 * i + 1) d' i') : InSub d i d' i' := by
  obtain ⟨h1, h2⟩ := h
  refine ⟨by omega, ?_⟩
  have e : d' - d = (d' - (d + 1)) + 1 := by omega
  rw [e, Nat.pow_succ, ← Nat.div_div_eq_div_mul, h2]; omega

theorem InSub.left_right_disjoint {d i d' i' : Nat} (h : InSub (d + 1) (2 * i) d' i') : ¬ InSub (d + 1) (2 * i + 1) d' i' := by
  intro h'; have := h.2; have := h'.2; omega

theorem not_inSub_child_self (d i j : Nat) : ¬ InSub (d + 1) j d i := by
  intro h; have := h.1; omega

/-- the state of the machine as an explicit record -/
abbrev mk (n D : Nat) (nodes : Nat → Nat → Option Bytes) (d i : Nat) (fb : List Bool) (hs pv : List Bytes) : TreeSt :=
  { total := n, maxD := D, nodes := nodes, depth := d, index := i, flagBits := fb, hashes := hs, proved := pv }

theorem get_eq (n D : Nat) (nodes) (d i fb hs pv) (d' i' : Nat) (hd : d' ≤ D) (hi : i' * 2 ^ (D - d') < n) :
    (mk n D nodes d i fb hs pv).get d' i' = some (nodes d' i') := by
  unfold TreeSt.get
  rw [if_pos ⟨hd, (lt_levelSize_iff n D d' i').mpr hi⟩]

theorem set_eq (n D : Nat) (nodes) (d i fb hs pv) (d' i' : Nat) (v : Bytes) (hd : d' ≤ D) (hi : i' * 2 ^ (D - d') < n) :
    (mk n D nodes d i fb hs pv).set d' i' v = some (mk n D (upd nodes d' i' v) d i fb hs pv) := by
  unfold TreeSt.set
  rw [if_pos ⟨hd, (lt_levelSize_iff n D d' i').mpr hi⟩]; rfl

theorem runLoop_step (H : Bytes → Bytes) (fuel : Nat) (s s' : TreeSt) (hroot : s.get 0 0 = some none)
    (hs : step H s = some s') : runLoop H (fuel + 1) s = runLoop H fuel s' := by
  simp only [runLoop, hroot, hs]

theorem runLoop_step_none (H : Bytes → Bytes) (fuel : Nat) (s : TreeSt) (hroot : s.get 0 0 = some none)
    (hs : step H s = none) : runLoop H (fuel + 1) s = none := by
  simp only [runLoop, hroot, hs]

theorem root_get (n D : Nat) (hn : 0 < n) (nodes) (d i fb hs pv) (hr : nodes 0 0 = none) :
    (mk n D nodes d i fb hs pv).get 0 0 = some none := by
  rw [get_eq n D nodes d i fb hs pv 0 0 (Nat.zero_le _) (by simpa using hn), hr]

/-- leaf: pop a flag bit and a hash -/
theorem step_leaf (H : Bytes → Bytes) (n D : Nat) (nodes) (i : Nat) (b : Bool) (fb : List Bool) (x : Bytes) (hs pv : List Bytes)
    (hi : i < n) :
    step H (mk n D nodes D i (b :: fb) (x :: hs) pv)
      = some (mk n D (upd nodes D i x) (D - 1) (i / 2) fb hs (if b then pv ++ [x.reverse] else pv)) := by
  unfold step
  simp only [if_true]
  have := set_eq n D nodes D i fb hs pv D i x (Nat.le_refl _) (by simpa using hi)
  simp only [mk] at this
  simp only [this, Option.bind_eq_bind, Option.bind_some, Option.pure_def]
  cases b <;> rfl

theorem step_leaf_none (H : Bytes → Bytes) (n D : Nat) (nodes) (i : Nat) (fb : List Bool) (hs pv : List Bytes)
    (h : fb = [] ∨ hs = []) : step H (mk n D nodes D i fb hs pv) = none := by
  unfold step
  simp only [if_true]
  rcases h with h | h
  · subst h; rfl
  · subst h; cases fb <;> rfl

section inner
variable (H : Bytes → Bytes) (n D : Nat) (nodes : Nat → Nat → Option Bytes) (d i : Nat) (fb : List Bool) (hs pv : List Bytes)

theorem child_bound (hd : d < D) (hi : i * 2 ^ (D - d) < n) : (i * 2) * 2 ^ (D - (d + 1)) < n := by
  have e : D - d = (D - (d + 1)) + 1 := by omega
  rw [e, Nat.pow_succ] at hi
  rw [Nat.mul_assoc, Nat.mul_comm 2]; exact hi

theorem rightExists_eq (hd : d < D) :
    (mk n D nodes d i fb hs pv).rightExists = some (decide ((i * 2 + 1) * 2 ^ (D - (d + 1)) < n)) := by
  unfold TreeSt.rightExists
  rw [if_pos (by show d + 1 ≤ D; omega)]
  congr 1
  have := lt_levelSize_iff n D (d + 1) (i * 2 + 1)
  simp only [gt_iff_lt, decide_eq_decide]
  exact this

/-- inner node, left child not yet known, flag 0: the next hash is this node -/
theorem step_inner_skip (hd : d < D) (hi : i * 2 ^ (D - d) < n) (hl : nodes (d + 1) (i * 2) = none) (x : Bytes) :
    step H (mk n D nodes d i (false :: fb) (x :: hs) pv) = some (mk n D (upd nodes d i x) (d - 1) (i / 2) fb hs pv) := by
  unfold step
  have hne : ¬ d = D := by omega
  simp only [mk, hne, if_false]
  have hg := get_eq n D nodes d i (false :: fb) (x :: hs) pv (d + 1) (i * 2) (by omega) (child_bound n D d i hd hi)
  simp only [mk] at hg
  simp only [hg, hl, Option.bind_eq_bind, Option.bind_some]
  have := set_eq n D nodes d i fb hs pv d i x (by omega) hi
  simp only [mk] at this
  simp only [this, Option.bind_some, Option.pure_def]
  rfl

/-- inner node, left child not yet known, flag 1: descend to the left -/
theorem step_inner_descend (hd : d < D) (hi : i * 2 ^ (D - d) < n) (hl : nodes (d + 1) (i * 2) = none) :
    step H (mk n D nodes d i (true :: fb) hs pv) = some (mk n D nodes (d + 1) (i * 2) fb hs pv) := by
  unfold step
  have hne : ¬ d = D := by omega
  simp only [mk, hne, if_false]
  have hg := get_eq n D nodes d i (true :: fb) hs pv (d + 1) (i * 2) (by omega) (child_bound n D d i hd hi)
  simp only [mk] at hg
  simp only [hg, hl, Option.bind_eq_bind, Option.bind_some, Option.pure_def]
  rfl

/-- inner node, left child not yet known: no flag bit, or flag 0 and no hash: IndexError -/
theorem step_inner_none (hd : d < D) (hi : i * 2 ^ (D - d) < n) (hl : nodes (d + 1) (i * 2) = none)
    (h : fb = [] ∨ (fb.head? = some false ∧ hs = [])) :
    step H (mk n D nodes d i fb hs pv) = none := by
  unfold step
  have hne : ¬ d = D := by omega
  simp only [mk, hne, if_false]
  have hg := get_eq n D nodes d i fb hs pv (d + 1) (i * 2) (by omega) (child_bound n D d i hd hi)
  simp only [mk] at hg
  simp only [hg, hl, Option.bind_eq_bind, Option.bind_some]
  rcases h with h | ⟨h1, h2⟩
  · subst h; rfl
  · subst h2
    cases fb with
    | nil => rfl
    | cons b r => simp at h1; subst h1; rfl

/-- inner node, left child known, right child exists and is not yet known: go right -/
theorem step_inner_right (hd : d < D) (hi : i * 2 ^ (D - d) < n) (xl : Bytes) (hl : nodes (d + 1) (i * 2) = some xl)
    (hre : (i * 2 + 1) * 2 ^ (D - (d + 1)) < n) (hr : nodes (d + 1) (i * 2 + 1) = none) :
    step H (mk n D nodes d i fb hs pv) = some (mk n D nodes (d + 1) (i * 2 + 1) fb hs pv) := by
  unfold step
  have hne : ¬ d = D := by omega
  have hg := get_eq n D nodes d i fb hs pv (d + 1) (i * 2) (by omega) (child_bound n D d i hd hi)
  have hg2 := get_eq n D nodes d i fb hs pv (d + 1) (i * 2 + 1) (by omega) hre
  have hrx := rightExists_eq n D nodes d i fb hs pv hd
  simp only [mk] at hg hg2 hrx
  simp only [hne, if_false, hg, hl, Option.bind_eq_bind, Option.bind_some, hrx, hre, decide_true, if_true, hg2, hr,
    Option.pure_def]
  rfl

/-- inner node, both children known: combine -/
theorem step_inner_combine (hd : d < D) (hi : i * 2 ^ (D - d) < n) (xl xr : Bytes) (hl : nodes (d + 1) (i * 2) = some xl)
    (hre : (i * 2 + 1) * 2 ^ (D - (d + 1)) < n) (hr : nodes (d + 1) (i * 2 + 1) = some xr) :
    step H (mk n D nodes d i fb hs pv) = some (mk n D (upd nodes d i (H (xl ++ xr))) (d - 1) (i / 2) fb hs pv) := by
  unfold step
  have hne : ¬ d = D := by omega
  have hg := get_eq n D nodes d i fb hs pv (d + 1) (i * 2) (by omega) (child_bound n D d i hd hi)
  have hg2 := get_eq n D nodes d i fb hs pv (d + 1) (i * 2 + 1) (by omega) hre
  have hrx := rightExists_eq n D nodes d i fb hs pv hd
  have hset := set_eq n D nodes d i fb hs pv d i (H (xl ++ xr)) (by omega) hi
  simp only [mk] at hg hg2 hrx hset
  simp only [mk, hne, if_false, hg, hl, Option.bind_eq_bind, Option.bind_some, hrx, hre, decide_true, if_true, hg2, hr,
    merkleParent, hset, Option.pure_def]
  rfl

/-- inner node, left child known, no right child: combine the left hash with itself -/
theorem step_inner_single (hd : d < D) (hi : i * 2 ^ (D - d) < n) (xl : Bytes) (hl : nodes (d + 1) (i * 2) = some xl)
    (hre : ¬ (i * 2 + 1) * 2 ^ (D - (d + 1)) < n) :
    step H (mk n D nodes d i fb hs pv) = some (mk n D (upd nodes d i (H (xl ++ xl))) (d - 1) (i / 2) fb hs pv) := by
  unfold step
  have hne : ¬ d = D := by omega
  have hg := get_eq n D nodes d i fb hs pv (d + 1) (i * 2) (by omega) (child_bound n D d i hd hi)
  have hrx := rightExists_eq n D nodes d i fb hs pv hd
  have hset := set_eq n D nodes d i fb hs pv d i (H (xl ++ xl)) (by omega) hi
  simp only [mk] at hg hrx hset
  simp only [mk, hne, if_false, hg, hl, Option.bind_eq_bind, Option.bind_some, hrx, hre, decide_false, merkleParent, hset,
    Option.pure_def]
  rfl

end inner

theorem extract_zero_cons (H : Bytes → Bytes) (c : Nat) (b : Bool) (bits : List Bool) (x : Bytes) (hs : List Bytes) :
    extract H 0 c (b :: bits) (x :: hs) = some (x, if b then [x] else [], bits, hs) := by simp [extract]

theorem extract_zero_none (H : Bytes → Bytes) (c : Nat) (bits : List Bool) (hs : List Bytes) (h : bits = [] ∨ hs = []) :
    extract H 0 c bits hs = none := by
  rcases h with h | h
  · subst h; simp [extract]
  · subst h; cases bits <;> simp [extract]

theorem extract_succ_true_none (H : Bytes → Bytes) (h c : Nat) (bits : List Bool) (hs : List Bytes)
    (hL : extract H h (min c (2 ^ h)) bits hs = none) : extract H (h + 1) c (true :: bits) hs = none := by
  rw [extract, hL]

theorem extract_succ_true_single (H : Bytes → Bytes) (h c : Nat) (bits : List Bool) (hs : List Bytes)
    (l : Bytes) (ml : List Bytes) (b1 : List Bool) (h1 : List Bytes)
    (hL : extract H h (min c (2 ^ h)) bits hs = some (l, ml, b1, h1)) (hc : ¬ c > 2 ^ h) :
    extract H (h + 1) c (true :: bits) hs = some (H (l ++ l), ml, b1, h1) := by
  rw [extract, hL]; simp only [hc, if_false]

theorem extract_succ_true_rnone (H : Bytes → Bytes) (h c : Nat) (bits : List Bool) (hs : List Bytes)
    (l : Bytes) (ml : List Bytes) (b1 : List Bool) (h1 : List Bytes)
    (hL : extract H h (min c (2 ^ h)) bits hs = some (l, ml, b1, h1)) (hc : c > 2 ^ h)
    (hR : extract H h (c - 2 ^ h) b1 h1 = none) :
    extract H (h + 1) c (true :: bits) hs = none := by
  rw [extract, hL]; simp only [hc, if_true, hR]

theorem extract_succ_true_rsome (H : Bytes → Bytes) (h c : Nat) (bits : List Bool) (hs : List Bytes)
    (l : Bytes) (ml : List Bytes) (b1 : List Bool) (h1 : List Bytes) (r : Bytes) (mr : List Bytes) (b2 : List Bool) (h2 : List Bytes)
    (hL : extract H h (min c (2 ^ h)) bits hs = some (l, ml, b1, h1)) (hc : c > 2 ^ h)
    (hR : extract H h (c - 2 ^ h) b1 h1 = some (r, mr, b2, h2)) :
    extract H (h + 1) c (true :: bits) hs = some (H (l ++ r), ml ++ mr, b2, h2) := by
  rw [extract, hL]; simp only [hc, if_true, hR]

theorem upd_self (f) (d i : Nat) (v : Bytes) : upd f d i v d i = some v := by simp [upd]

theorem upd_untouched (f) (d i : Nat) (v : Bytes) : Untouched d i f (upd f d i v) := by
  intro d' i' hn
  unfold upd
  rw [if_neg]
  rintro ⟨h1, h2⟩; subst h1; subst h2; exact hn (InSub.self _ _)

set_option maxHeartbeats 800000 in
/-- The loop of populate_tree, started at a node whose subtree is still empty, performs exactly the
    recursive BIP37 traversal of that subtree and returns to the parent (or fails where it fails). -/
theorem sim (H : Bytes → Bytes) (n D : Nat) (hn : 0 < n) :
    ∀ (h d i : Nat) (nodes : Nat → Nat → Option Bytes) (fb : List Bool) (hs pv : List Bytes),
      d + h = D → i * 2 ^ h < n → (∀ d' i', InSub d i d' i' → nodes d' i' = none) → nodes 0 0 = none →
      (∀ x m fb' hs', extract H h (min (n - i * 2 ^ h) (2 ^ h)) fb hs = some (x, m, fb', hs') →
        ∃ k nodes', k + 3 * fb'.length ≤ 3 * fb.length ∧ nodes' d i = some x ∧ Untouched d i nodes nodes' ∧
          ∀ fuel, runLoop H (fuel + k) (mk n D nodes d i fb hs pv)
                = runLoop H fuel (mk n D nodes' (d - 1) (i / 2) fb' hs' (pv ++ m.map List.reverse))) ∧
      (extract H h (min (n - i * 2 ^ h) (2 ^ h)) fb hs = none →
        ∃ k, k ≤ 3 * fb.length + 1 ∧ ∀ fuel, runLoop H (fuel + k) (mk n D nodes d i fb hs pv) = none) := by
  intro h
  induction h with
  | zero =>
    intro d i nodes fb hs pv hd hi hsub hroot
    have hdD : d = D := by omega
    subst hdD
    have hi' : i < n := by simpa using hi
    have hrg := fun fb hs pv => root_get n d hn nodes d i fb hs pv hroot
    constructor
    · intro x m fb' hs' hex
      match fb, hs with
      | b :: fb0, x0 :: hs0 =>
        rw [extract_zero_cons] at hex
        simp only [Option.some.injEq, Prod.mk.injEq] at hex
        obtain ⟨rfl, rfl, rfl, rfl⟩ := hex
        refine ⟨1, upd nodes d i x0, by simp only [List.length_cons]; omega, upd_self _ _ _ _, upd_untouched _ _ _ _, ?_⟩
        intro fuel
        rw [runLoop_step H fuel _ _ (hrg _ _ _) (step_leaf H n d nodes i b fb0 x0 hs0 pv hi')]
        cases b <;> simp
      | [], _ => rw [extract_zero_none H _ _ _ (Or.inl rfl)] at hex; cases hex
      | _ :: _, [] => rw [extract_zero_none H _ _ _ (Or.inr rfl)] at hex; cases hex
    · intro hex
      refine ⟨1, by omega, fun fuel => ?_⟩
      apply runLoop_step_none H fuel _ (hrg _ _ _)
      apply step_leaf_none
      match fb, hs with
      | b :: fb0, x0 :: hs0 => rw [extract_zero_cons] at hex; cases hex
      | [], _ => left; rfl
      | _ :: _, [] => right; rfl
  | succ h ih =>
    intro d i nodes fb hs pv hd hi hsub hroot
    have hdD : d < D := by omega
    have e1 : D - d = h + 1 := by omega
    have e2 : D - (d + 1) = h := by omega
    have hp : 0 < 2 ^ h := Nat.two_pow_pos _
    have ep : 2 ^ (h + 1) = 2 * 2 ^ h := by rw [Nat.pow_succ]; omega
    have hi0 : i * 2 ^ (D - d) < n := by rw [e1]; exact hi
    have hleft : nodes (d + 1) (i * 2) = none :=
      hsub _ _ (InSub.of_left (by rw [Nat.mul_comm]; exact InSub.self _ _))
    have hrg : ∀ nodes' d' i' fb hs pv, nodes' 0 0 = none → (mk n D nodes' d' i' fb hs pv).get 0 0 = some none :=
      fun nodes' d' i' fb hs pv hr => root_get n D hn nodes' d' i' fb hs pv hr
    -- arithmetic on the leaf ranges
    have hq : i * 2 ^ (h + 1) = 2 * (i * 2 ^ h) := by rw [ep]; rw [Nat.mul_left_comm]
    have hql : i * 2 * 2 ^ h = 2 * (i * 2 ^ h) := by rw [Nat.mul_assoc, Nat.mul_left_comm]
    have hqr : (i * 2 + 1) * 2 ^ h = 2 * (i * 2 ^ h) + 2 ^ h := by rw [Nat.add_mul, hql]; omega
    have hil : i * 2 * 2 ^ h < n := by rw [hql]; rw [hq] at hi; exact hi
    have cntL : min (min (n - i * 2 ^ (h + 1)) (2 ^ (h + 1))) (2 ^ h) = min (n - i * 2 * 2 ^ h) (2 ^ h) := by
      rw [hq, hql, ep]; omega
    have cntR : min (n - i * 2 ^ (h + 1)) (2 ^ (h + 1)) > 2 ^ h ↔ (i * 2 + 1) * 2 ^ h < n := by
      rw [hq, hqr, ep]; omega
    have cntR' : (i * 2 + 1) * 2 ^ h < n →
        min (n - i * 2 ^ (h + 1)) (2 ^ (h + 1)) - 2 ^ h = min (n - (i * 2 + 1) * 2 ^ h) (2 ^ h) := by
      rw [hq, hqr, ep]; omega
    match fb with
    | [] =>
      constructor
      · intro x m fb' hs' hex; simp [extract] at hex
      · intro _
        refine ⟨1, by omega, fun fuel => ?_⟩
        exact runLoop_step_none H fuel _ (hrg _ _ _ _ _ _ hroot)
          (step_inner_none H n D nodes d i [] hs pv hdD hi0 hleft (Or.inl rfl))
    | false :: fb0 =>
      match hs with
      | [] =>
        constructor
        · intro x m fb' hs' hex; simp [extract] at hex
        · intro _
          refine ⟨1, by omega, fun fuel => ?_⟩
          exact runLoop_step_none H fuel _ (hrg _ _ _ _ _ _ hroot)
            (step_inner_none H n D nodes d i (false :: fb0) [] pv hdD hi0 hleft (Or.inr ⟨rfl, rfl⟩))
      | x0 :: hs0 =>
        constructor
        · intro x m fb' hs' hex
          simp only [extract, Option.some.injEq, Prod.mk.injEq] at hex
          obtain ⟨rfl, rfl, rfl, rfl⟩ := hex
          refine ⟨1, upd nodes d i x0, by simp only [List.length_cons]; omega, upd_self _ _ _ _, upd_untouched _ _ _ _, ?_⟩
          intro fuel
          rw [runLoop_step H fuel _ _ (hrg _ _ _ _ _ _ hroot) (step_inner_skip H n D nodes d i fb0 hs0 pv hdD hi0 hleft x0)]
          simp
        · intro hex; simp [extract] at hex
    | true :: fb0 =>
      -- descend to the left child
      have hstep1 := step_inner_descend H n D nodes d i fb0 hs pv hdD hi0 hleft
      have hsubL : ∀ d' i', InSub (d + 1) (i * 2) d' i' → nodes d' i' = none :=
        fun d' i' hin => hsub d' i' (InSub.of_left (by rw [Nat.mul_comm] at hin; exact hin))
      obtain ⟨ihLs, ihLn⟩ := ih (d + 1) (i * 2) nodes fb0 hs pv (by omega) hil hsubL hroot
      cases hexL : extract H h (min (n - i * 2 * 2 ^ h) (2 ^ h)) fb0 hs with
      | none =>
        rw [extract_succ_true_none H h _ fb0 hs (by rw [cntL]; exact hexL)]
        constructor
        · intro x m fb' hs' hex; simp at hex
        · intro _
          obtain ⟨kl, hkb, hkl⟩ := ihLn hexL
          refine ⟨kl + 1, by simp only [List.length_cons]; omega, fun fuel => ?_⟩
          rw [show fuel + (kl + 1) = (fuel + kl) + 1 by omega, runLoop_step H _ _ _ (hrg _ _ _ _ _ _ hroot) hstep1]
          exact hkl fuel
      | some resL =>
        obtain ⟨xl, ml, fb1, hs1⟩ := resL
        obtain ⟨kl, nodes1, hbl, hn1, hu1, hrunL⟩ := ihLs xl ml fb1 hs1 hexL
        have hroot1 : nodes1 0 0 = none := by
          rw [hu1 0 0 (by intro hin; have := hin.1; omega)]; exact hroot
        have hd1 : d + 1 - 1 = d := by omega
        have hi1 : i * 2 / 2 = i := by omega
        rw [hd1, hi1] at hrunL
        have hexL' := hexL
        rw [← cntL] at hexL'
        by_cases hre : (i * 2 + 1) * 2 ^ h < n
        · -- the right child exists
          have hre0 : (i * 2 + 1) * 2 ^ (D - (d + 1)) < n := by rw [e2]; exact hre
          have hnotL : ∀ d' i', InSub (d + 1) (i * 2 + 1) d' i' → ¬ InSub (d + 1) (i * 2) d' i' := by
            intro d' i' hin hin'
            rw [Nat.mul_comm] at hin hin'
            exact InSub.left_right_disjoint hin' hin
          have hsubR : ∀ d' i', InSub (d + 1) (i * 2 + 1) d' i' → nodes1 d' i' = none := by
            intro d' i' hin
            rw [hu1 d' i' (hnotL d' i' hin)]
            exact hsub d' i' (InSub.of_right (by rw [Nat.mul_comm] at hin; exact hin))
          have hright1 : nodes1 (d + 1) (i * 2 + 1) = none := hsubR _ _ (InSub.self _ _)
          have hstep2 := step_inner_right H n D nodes1 d i fb1 hs1 (pv ++ ml.map List.reverse) hdD hi0 xl hn1 hre0 hright1
          obtain ⟨ihRs, ihRn⟩ := ih (d + 1) (i * 2 + 1) nodes1 fb1 hs1 (pv ++ ml.map List.reverse) (by omega) hre hsubR hroot1
          cases hexR : extract H h (min (n - (i * 2 + 1) * 2 ^ h) (2 ^ h)) fb1 hs1 with
          | none =>
            rw [extract_succ_true_rnone H h _ fb0 hs xl ml fb1 hs1 hexL' (cntR.mpr hre) (by rw [cntR' hre]; exact hexR)]
            constructor
            · intro x m fb' hs' hex; simp at hex
            · intro _
              obtain ⟨kr, hkb, hkr⟩ := ihRn hexR
              refine ⟨kr + 1 + kl + 1, by simp only [List.length_cons]; omega, fun fuel => ?_⟩
              rw [show fuel + (kr + 1 + kl + 1) = (fuel + kr + 1 + kl) + 1 by omega,
                runLoop_step H _ _ _ (hrg _ _ _ _ _ _ hroot) hstep1, hrunL,
                runLoop_step H _ _ _ (hrg _ _ _ _ _ _ hroot1) hstep2]
              exact hkr fuel
          | some resR =>
            obtain ⟨xr, mr, fb2, hs2⟩ := resR
            obtain ⟨kr, nodes2, hbr, hn2, hu2, hrunR⟩ := ihRs xr mr fb2 hs2 hexR
            have hroot2 : nodes2 0 0 = none := by
              rw [hu2 0 0 (by intro hin; have := hin.1; omega)]; exact hroot1
            have hd2 : d + 1 - 1 = d := by omega
            have hi2 : (i * 2 + 1) / 2 = i := by omega
            rw [hd2, hi2] at hrunR
            have hleft2 : nodes2 (d + 1) (i * 2) = some xl := by
              rw [hu2 _ _ (by intro hin; exact hnotL _ _ hin (InSub.self _ _))]; exact hn1
            have hstep3 := step_inner_combine H n D nodes2 d i fb2 hs2 (pv ++ ml.map List.reverse ++ mr.map List.reverse)
              hdD hi0 xl xr hleft2 hre0 hn2
            rw [extract_succ_true_rsome H h _ fb0 hs xl ml fb1 hs1 xr mr fb2 hs2 hexL' (cntR.mpr hre) (by rw [cntR' hre]; exact hexR)]
            constructor
            · intro x m fb' hs' hex
              simp only [Option.some.injEq, Prod.mk.injEq] at hex
              obtain ⟨rfl, rfl, rfl, rfl⟩ := hex
              refine ⟨1 + kr + 1 + kl + 1, upd nodes2 d i (H (xl ++ xr)), ?_, upd_self _ _ _ _, ?_, ?_⟩
              · simp only [List.length_cons]; omega
              · intro d' i' hnin
                rw [upd_untouched nodes2 d i _ d' i' hnin,
                  hu2 d' i' (fun hin => hnin (InSub.of_right (by rw [Nat.mul_comm] at hin; exact hin))),
                  hu1 d' i' (fun hin => hnin (InSub.of_left (by rw [Nat.mul_comm] at hin; exact hin)))]
              · intro fuel
                rw [show fuel + (1 + kr + 1 + kl + 1) = (fuel + 1 + kr + 1 + kl) + 1 by omega,
                  runLoop_step H _ _ _ (hrg _ _ _ _ _ _ hroot) hstep1, hrunL,
                  runLoop_step H _ _ _ (hrg _ _ _ _ _ _ hroot1) hstep2, hrunR,
                  runLoop_step H _ _ _ (hrg _ _ _ _ _ _ hroot2) hstep3]
                simp [List.append_assoc]
            · intro hex; simp at hex
        · -- no right child
          have hcn : ¬ min (n - i * 2 ^ (h + 1)) (2 ^ (h + 1)) > 2 ^ h := fun hc => hre (cntR.mp hc)
          rw [extract_succ_true_single H h _ fb0 hs xl ml fb1 hs1 hexL' hcn]
          have hre0 : ¬ (i * 2 + 1) * 2 ^ (D - (d + 1)) < n := by rw [e2]; exact hre
          have hstep2 := step_inner_single H n D nodes1 d i fb1 hs1 (pv ++ ml.map List.reverse) hdD hi0 xl hn1 hre0
          constructor
          · intro x m fb' hs' hex
            simp only [Option.some.injEq, Prod.mk.injEq] at hex
            obtain ⟨rfl, rfl, rfl, rfl⟩ := hex
            refine ⟨1 + kl + 1, upd nodes1 d i (H (xl ++ xl)), ?_, upd_self _ _ _ _, ?_, ?_⟩
            · simp only [List.length_cons]; omega
            · intro d' i' hnin
              rw [upd_untouched nodes1 d i _ d' i' hnin,
                hu1 d' i' (fun hin => hnin (InSub.of_left (by rw [Nat.mul_comm] at hin; exact hin)))]
            · intro fuel
              rw [show fuel + (1 + kl + 1) = (fuel + 1 + kl) + 1 by omega,
                runLoop_step H _ _ _ (hrg _ _ _ _ _ _ hroot) hstep1, hrunL,
                runLoop_step H _ _ _ (hrg _ _ _ _ _ _ hroot1) hstep2]
          · intro hex; simp at hex


/-! ## populate_tree = the recursive traversal -/

theorem runLoop_done (H : Bytes → Bytes) (fuel : Nat) (s : TreeSt) (r : Bytes) (h : s.get 0 0 = some (some r)) :
    runLoop H (fuel + 1) s = some (some (r, s)) := by
  simp only [runLoop, h]

/-- MerkleTree(total).populate_tree(flag_bits, hashes) is TraverseAndExtract from the root followed by the two
    leftover checks, whenever the tree depth is `D` with `n ≤ 2^D` -/
theorem populate_eq_extract (H : Bytes → Bytes) (n : Nat) (hn : 0 < n) (hD : n ≤ 2 ^ maxDepth n)
    (fl : List Bool) (hs : List Bytes) :
    populate H n fl hs =
      match extract H (maxDepth n) n fl hs with
      | none => .error
      | some (x, m, fb', hs') =>
        if hs'.length ≠ 0 then .error else if fb'.any id then .error else .done x (m.map List.reverse) := by
  have hsim := sim H n (maxDepth n) hn (maxDepth n) 0 0 (fun _ _ => none) fl hs [] (by omega) (by simpa using hn)
    (fun _ _ _ => rfl) rfl
  have hc : min (n - 0 * 2 ^ maxDepth n) (2 ^ maxDepth n) = n := by simp; omega
  rw [hc] at hsim
  obtain ⟨hS, hN⟩ := hsim
  unfold populate
  cases hex : extract H (maxDepth n) n fl hs with
  | none =>
    obtain ⟨k, hk, hrun⟩ := hN hex
    have := hrun (3 * fl.length + 4 - k)
    rw [show 3 * fl.length + 4 - k + k = 3 * fl.length + 4 by omega] at this
    simp only [mk] at this
    simp only [this]
  | some res =>
    obtain ⟨x, m, fb', hs'⟩ := res
    obtain ⟨k, nodes', hk, hx, _, hrun⟩ := hS x m fb' hs' hex
    have := hrun ((3 * fl.length + 3 - k) + 1)
    rw [show 3 * fl.length + 3 - k + 1 + k = 3 * fl.length + 4 by omega] at this
    have hdone := runLoop_done H (3 * fl.length + 3 - k)
      (mk n (maxDepth n) nodes' (0 - 1) (0 / 2) fb' hs' ([] ++ List.map List.reverse m)) x (by
        rw [get_eq n (maxDepth n) nodes' _ _ fb' hs' _ 0 0 (Nat.zero_le _) (by simpa using hn)]
        simp only [hx])
    rw [hdone] at this
    simp only [mk] at this
    simp only [this, List.nil_append]

/-! ## BIP37 completeness: extract ∘ build -/

def segMatched (seg : List (Bytes × Bool)) : List Bytes := (seg.filter (·.2)).map (·.1)

theorem segMatched_take_drop (seg : List (Bytes × Bool)) (k : Nat) :
    segMatched (seg.take k) ++ segMatched (seg.drop k) = segMatched seg := by
  unfold segMatched
  rw [← List.map_append, ← List.filter_append, List.take_append_drop]

theorem segMatched_nil_of_not_any (seg : List (Bytes × Bool)) (h : seg.any (·.2) = false) : segMatched seg = [] := by
  unfold segMatched
  rw [List.filter_eq_nil_iff.mpr]
  · rfl
  · intro a ha
    have := List.any_eq_false.mp h a ha
    simpa using this

theorem extract_succ_false (H : Bytes → Bytes) (h c : Nat) (bits : List Bool) (x : Bytes) (hs : List Bytes) :
    extract H (h + 1) c (false :: bits) (x :: hs) = some (x, [], bits, hs) := by
  simp [extract]

theorem extract_build (H : Bytes → Bytes) : ∀ (h : Nat) (seg : List (Bytes × Bool)) (rf : List Bool) (rh : List Bytes),
    0 < seg.length → seg.length ≤ 2 ^ h →
    extract H h seg.length ((build H h seg).1 ++ rf) ((build H h seg).2 ++ rh)
      = some (calcHash H h (seg.map (·.1)), segMatched seg, rf, rh)
  | 0, seg, rf, rh, h0, h1 => by
    match seg, h0, h1 with
    | [(x, b)], _, _ =>
      simp only [build, List.any_cons, List.any_nil, Bool.or_false, List.map_cons, List.map_nil, calcHash,
        List.cons_append, List.nil_append, extract_zero_cons, segMatched]
      cases b <;> simp
    | _ :: _ :: _, _, h1 => simp at h1
  | h + 1, seg, rf, rh, h0, h1 => by
    have hp : 0 < 2 ^ h := Nat.two_pow_pos _
    have ep : 2 ^ (h + 1) = 2 * 2 ^ h := by rw [Nat.pow_succ]; omega
    by_cases hany : seg.any (·.2) = true
    · have ihL := extract_build H h (seg.take (2 ^ h))
      have lenL : (seg.take (2 ^ h)).length = min seg.length (2 ^ h) := by
        simp only [List.length_take]; omega
      by_cases hc : seg.length > 2 ^ h
      · have hb : build H (h + 1) seg = (true :: ((build H h (seg.take (2 ^ h))).1 ++ (build H h (seg.drop (2 ^ h))).1),
            (build H h (seg.take (2 ^ h))).2 ++ (build H h (seg.drop (2 ^ h))).2) := by
          rw [build]; simp only [hany, if_true, hc]
        have lenR : (seg.drop (2 ^ h)).length = seg.length - 2 ^ h := by simp
        have ihR := extract_build H h (seg.drop (2 ^ h)) rf rh (by rw [lenR]; omega) (by rw [lenR]; omega)
        have ihL' := ihL ((build H h (seg.drop (2 ^ h))).1 ++ rf) ((build H h (seg.drop (2 ^ h))).2 ++ rh)
          (by rw [lenL]; omega) (by rw [lenL]; omega)
        rw [lenL] at ihL'
        rw [lenR] at ihR
        rw [hb]
        simp only [List.cons_append, List.append_assoc]
        rw [extract_succ_true_rsome H h _ _ _ _ _ _ _ _ _ _ _ ihL' hc ihR]
        rw [calcHash_succ, List.length_map, if_pos hc, List.map_take, List.map_drop, segMatched_take_drop]
      · have hb : build H (h + 1) seg = (true :: (build H h (seg.take (2 ^ h))).1, (build H h (seg.take (2 ^ h))).2) := by
          rw [build]; simp only [hany, if_true, hc, if_false]
        have ihL' := ihL rf rh (by rw [lenL]; omega) (by rw [lenL]; omega)
        rw [lenL] at ihL'
        rw [hb]
        simp only [List.cons_append]
        rw [extract_succ_true_single H h _ _ _ _ _ _ _ ihL' hc]
        rw [calcHash_succ, List.length_map, if_neg hc, List.map_take]
        have : seg.take (2 ^ h) = seg := List.take_of_length_le (by omega)
        rw [this]
    · have hany' : seg.any (·.2) = false := by simpa using hany
      have hb : build H (h + 1) seg = ([false], [calcHash H (h + 1) (seg.map (·.1))]) := by
        rw [build]; simp only [hany', Bool.false_eq_true, if_false]
      rw [hb]
      simp only [List.cons_append, List.nil_append, extract_succ_false, segMatched_nil_of_not_any seg hany']

/-! ## BIP37 soundness with collision extraction -/

theorem CollisionBetween.mono {H : Bytes → Bytes} {A A' B B' : List Bytes} (hA : ∀ a ∈ A, a ∈ A') (hB : ∀ b ∈ B, b ∈ B')
    (h : CollisionBetween H A B) : CollisionBetween H A' B' := by
  obtain ⟨a, ha, b, hb, hne, heq⟩ := h
  exact ⟨a, hA a ha, b, hB b hb, hne, heq⟩

theorem calcPre_succ_pos (H : Bytes → Bytes) (h : Nat) (seg : List Bytes) (hc : seg.length > 2 ^ h) :
    calcPre H (h + 1) seg = (calcHash H h (seg.take (2 ^ h)) ++ calcHash H h (seg.drop (2 ^ h))) ::
      (calcPre H h (seg.take (2 ^ h)) ++ calcPre H h (seg.drop (2 ^ h))) := by
  simp only [calcPre, hc, if_true]

theorem calcPre_succ_neg (H : Bytes → Bytes) (h : Nat) (seg : List Bytes) (hc : ¬ seg.length > 2 ^ h) :
    calcPre H (h + 1) seg = (calcHash H h (seg.take (2 ^ h)) ++ calcHash H h (seg.take (2 ^ h))) ::
      calcPre H h (seg.take (2 ^ h)) := by
  simp only [calcPre, hc, if_false]

theorem extractPre_rsome (H : Bytes → Bytes) (h c : Nat) (bits : List Bool) (hs : List Bytes)
    (l : Bytes) (ml : List Bytes) (b1 : List Bool) (h1 : List Bytes) (r : Bytes) (mr : List Bytes) (b2 : List Bool) (h2 : List Bytes)
    (hL : extract H h (min c (2 ^ h)) bits hs = some (l, ml, b1, h1)) (hc : c > 2 ^ h)
    (hR : extract H h (c - 2 ^ h) b1 h1 = some (r, mr, b2, h2)) :
    extractPre H (h + 1) c (true :: bits) hs
      = (l ++ r) :: (extractPre H h (min c (2 ^ h)) bits hs ++ extractPre H h (c - 2 ^ h) b1 h1) := by
  rw [extractPre, hL]; simp only [hc, if_true, hR]

theorem extractPre_single (H : Bytes → Bytes) (h c : Nat) (bits : List Bool) (hs : List Bytes)
    (l : Bytes) (ml : List Bytes) (b1 : List Bool) (h1 : List Bytes)
    (hL : extract H h (min c (2 ^ h)) bits hs = some (l, ml, b1, h1)) (hc : ¬ c > 2 ^ h) :
    extractPre H (h + 1) c (true :: bits) hs = (l ++ l) :: extractPre H h (min c (2 ^ h)) bits hs := by
  rw [extractPre, hL]; simp only [hc, if_false]

theorem calcHash_length (H : Bytes → Bytes) (hH : ∀ b, (H b).length = 32) :
    ∀ (h : Nat) (seg : List Bytes), 0 < seg.length → (∀ y ∈ seg, y.length = 32) → (calcHash H h seg).length = 32
  | 0, seg, h0, hs => by
    match seg, h0 with
    | a :: r, _ => simp only [calcHash]; exact hs a (by simp)
  | h + 1, seg, _, _ => by rw [calcHash_succ]; exact hH _

theorem extract_length (H : Bytes → Bytes) (hH : ∀ b, (H b).length = 32) :
    ∀ (h c : Nat) (fb : List Bool) (hs : List Bytes) (x : Bytes) (m : List Bytes) (fb' : List Bool) (hs' : List Bytes),
      (∀ y ∈ hs, y.length = 32) → extract H h c fb hs = some (x, m, fb', hs') →
      x.length = 32 ∧ (∀ y ∈ hs', y.length = 32)
  | 0, c, fb, hs, x, m, fb', hs', hl, hex => by
    match fb, hs with
    | b :: fb0, x0 :: hs0 =>
      rw [extract_zero_cons] at hex
      simp only [Option.some.injEq, Prod.mk.injEq] at hex
      obtain ⟨rfl, _, _, rfl⟩ := hex
      exact ⟨hl _ (by simp), fun y hy => hl y (by simp [hy])⟩
    | [], _ => rw [extract_zero_none H _ _ _ (Or.inl rfl)] at hex; cases hex
    | _ :: _, [] => rw [extract_zero_none H _ _ _ (Or.inr rfl)] at hex; cases hex
  | h + 1, c, fb, hs, x, m, fb', hs', hl, hex => by
    match fb, hs with
    | [], _ => simp [extract] at hex
    | false :: _, [] => simp [extract] at hex
    | false :: fb0, x0 :: hs0 =>
      rw [extract_succ_false] at hex
      simp only [Option.some.injEq, Prod.mk.injEq] at hex
      obtain ⟨rfl, _, _, rfl⟩ := hex
      exact ⟨hl _ (by simp), fun y hy => hl y (by simp [hy])⟩
    | true :: fb0, hs =>
      cases hL : extract H h (min c (2 ^ h)) fb0 hs with
      | none => rw [extract_succ_true_none H h c fb0 hs hL] at hex; cases hex
      | some rL =>
        obtain ⟨xl, ml, fb1, hs1⟩ := rL
        have ihL := extract_length H hH h _ fb0 hs xl ml fb1 hs1 hl hL
        by_cases hc : c > 2 ^ h
        · cases hR : extract H h (c - 2 ^ h) fb1 hs1 with
          | none => rw [extract_succ_true_rnone H h c fb0 hs _ _ _ _ hL hc hR] at hex; cases hex
          | some rR =>
            obtain ⟨xr, mr, fb2, hs2⟩ := rR
            have ihR := extract_length H hH h _ fb1 hs1 xr mr fb2 hs2 ihL.2 hR
            rw [extract_succ_true_rsome H h c fb0 hs _ _ _ _ _ _ _ _ hL hc hR] at hex
            simp only [Option.some.injEq, Prod.mk.injEq] at hex
            obtain ⟨rfl, _, _, rfl⟩ := hex
            exact ⟨hH _, ihR.2⟩
        · rw [extract_succ_true_single H h c fb0 hs _ _ _ _ hL hc] at hex
          simp only [Option.some.injEq, Prod.mk.injEq] at hex
          obtain ⟨rfl, _, _, rfl⟩ := hex
          exact ⟨hH _, ihL.2⟩

theorem extract_sound (H : Bytes → Bytes) (hH : ∀ b, (H b).length = 32) :
    ∀ (h : Nat) (seg : List Bytes) (fb : List Bool) (hs : List Bytes) (x : Bytes) (m : List Bytes) (fb' : List Bool) (hs' : List Bytes),
      0 < seg.length → seg.length ≤ 2 ^ h → (∀ y ∈ seg, y.length = 32) → (∀ y ∈ hs, y.length = 32) →
      extract H h seg.length fb hs = some (x, m, fb', hs') → x = calcHash H h seg →
      (∀ t ∈ m, t ∈ seg) ∨ CollisionBetween H (extractPre H h seg.length fb hs) (calcPre H h seg)
  | 0, seg, fb, hs, x, m, fb', hs', h0, h1, hseg, hl, hex, hx => by
    left
    match seg, h0, h1 with
    | [a], _, _ =>
      match fb, hs with
      | b :: fb0, x0 :: hs0 =>
        rw [extract_zero_cons] at hex
        simp only [Option.some.injEq, Prod.mk.injEq] at hex
        obtain ⟨rfl, rfl, _, _⟩ := hex
        simp only [calcHash] at hx
        subst hx
        intro t ht
        cases b <;> simp_all
      | [], _ => rw [extract_zero_none H _ _ _ (Or.inl rfl)] at hex; cases hex
      | _ :: _, [] => rw [extract_zero_none H _ _ _ (Or.inr rfl)] at hex; cases hex
    | _ :: _ :: _, _, h1 => simp at h1
  | h + 1, seg, fb, hs, x, m, fb', hs', h0, h1, hseg, hl, hex, hx => by
    have hp : 0 < 2 ^ h := Nat.two_pow_pos _
    have ep : 2 ^ (h + 1) = 2 * 2 ^ h := by rw [Nat.pow_succ]; omega
    match fb, hs with
    | [], _ => simp [extract] at hex
    | false :: _, [] => simp [extract] at hex
    | false :: fb0, x0 :: hs0 =>
      rw [extract_succ_false] at hex
      simp only [Option.some.injEq, Prod.mk.injEq] at hex
      obtain ⟨_, rfl, _, _⟩ := hex
      left; intro t ht; cases ht
    | true :: fb0, hs =>
      have lenL : (seg.take (2 ^ h)).length = min seg.length (2 ^ h) := by
        simp only [List.length_take]; omega
      have hsegL : ∀ y ∈ seg.take (2 ^ h), y.length = 32 := fun y hy => hseg y (List.mem_of_mem_take hy)
      have hsegR : ∀ y ∈ seg.drop (2 ^ h), y.length = 32 := fun y hy => hseg y (List.mem_of_mem_drop hy)
      cases hL : extract H h (min seg.length (2 ^ h)) fb0 hs with
      | none => rw [extract_succ_true_none H h _ fb0 hs hL] at hex; cases hex
      | some rL =>
        obtain ⟨xl, ml, fb1, hs1⟩ := rL
        have lenxl := extract_length H hH h _ fb0 hs xl ml fb1 hs1 hl hL
        have lencl := calcHash_length H hH h (seg.take (2 ^ h)) (by rw [lenL]; omega) hsegL
        have hL' := hL
        rw [← lenL] at hL'
        have ihL := extract_sound H hH h (seg.take (2 ^ h)) fb0 hs xl ml fb1 hs1 (by rw [lenL]; omega) (by rw [lenL]; omega)
          hsegL hl hL'
        rw [lenL] at ihL
        by_cases hc : seg.length > 2 ^ h
        · have lenR : (seg.drop (2 ^ h)).length = seg.length - 2 ^ h := by simp
          cases hR : extract H h (seg.length - 2 ^ h) fb1 hs1 with
          | none => rw [extract_succ_true_rnone H h _ fb0 hs _ _ _ _ hL hc hR] at hex; cases hex
          | some rR =>
            obtain ⟨xr, mr, fb2, hs2⟩ := rR
            rw [extract_succ_true_rsome H h _ fb0 hs _ _ _ _ _ _ _ _ hL hc hR] at hex
            simp only [Option.some.injEq, Prod.mk.injEq] at hex
            obtain ⟨rfl, rfl, _, _⟩ := hex
            rw [calcHash_succ, if_pos hc] at hx
            rw [extractPre_rsome H h _ fb0 hs _ _ _ _ _ _ _ _ hL hc hR, calcPre_succ_pos H h seg hc]
            by_cases heq : xl ++ xr = calcHash H h (seg.take (2 ^ h)) ++ calcHash H h (seg.drop (2 ^ h))
            · have hinj := List.append_inj heq (by rw [lenxl.1, lencl])
              have hR' := hR
              rw [← lenR] at hR'
              have ihR := extract_sound H hH h (seg.drop (2 ^ h)) fb1 hs1 xr mr fb2 hs2 (by rw [lenR]; omega) (by rw [lenR]; omega)
                hsegR lenxl.2 hR' hinj.2
              rw [lenR] at ihR
              rcases ihL hinj.1 with hl1 | hcol
              · rcases ihR with hr1 | hcol
                · left
                  intro t ht
                  rcases List.mem_append.mp ht with ht | ht
                  · exact List.mem_of_mem_take (hl1 t ht)
                  · exact List.mem_of_mem_drop (hr1 t ht)
                · right
                  exact CollisionBetween.mono (fun a ha => List.mem_cons_of_mem _ (List.mem_append_right _ ha))
                    (fun b hb => List.mem_cons_of_mem _ (List.mem_append_right _ hb)) hcol
              · right
                exact CollisionBetween.mono (fun a ha => List.mem_cons_of_mem _ (List.mem_append_left _ ha))
                  (fun b hb => List.mem_cons_of_mem _ (List.mem_append_left _ hb)) hcol
            · right; exact ⟨_, List.mem_cons_self, _, List.mem_cons_self, heq, hx⟩
        · rw [extract_succ_true_single H h _ fb0 hs _ _ _ _ hL hc] at hex
          simp only [Option.some.injEq, Prod.mk.injEq] at hex
          obtain ⟨rfl, rfl, _, _⟩ := hex
          rw [calcHash_succ, if_neg hc] at hx
          rw [extractPre_single H h _ fb0 hs _ _ _ _ hL hc, calcPre_succ_neg H h seg hc]
          by_cases heq : xl ++ xl = calcHash H h (seg.take (2 ^ h)) ++ calcHash H h (seg.take (2 ^ h))
          · have hinj := List.append_inj heq (by rw [lenxl.1, lencl])
            rcases ihL hinj.1 with hl1 | hcol
            · left; intro t ht; exact List.mem_of_mem_take (hl1 t ht)
            · right
              exact CollisionBetween.mono (fun a ha => List.mem_cons_of_mem _ ha) (fun b hb => List.mem_cons_of_mem _ hb) hcol
          · right; exact ⟨_, List.mem_cons_self, _, List.mem_cons_self, heq, hx⟩

/-! ## flag bytes <-> flag bits -/

theorem byteBitsLE_bitsLEToNat : ∀ c : List Bool, byteBitsLE c.length (bitsLEToNat c) = c
  | [] => rfl
  | b :: r => by
    simp only [List.length_cons, byteBitsLE, bitsLEToNat]
    have ih := byteBitsLE_bitsLEToNat r
    cases b
    · simp only [Bool.false_eq_true, if_false, Nat.zero_add, Nat.mul_mod_right, Nat.zero_ne_one, decide_false,
        Nat.mul_div_cancel_left _ (show 0 < 2 by omega), ih]
    · have h1 : (1 + 2 * bitsLEToNat r) % 2 = 1 := by omega
      have h2 : (1 + 2 * bitsLEToNat r) / 2 = bitsLEToNat r := by omega
      simp only [if_true, h1, h2, decide_true, ih]

theorem bitsLEToNat_lt : ∀ c : List Bool, bitsLEToNat c < 2 ^ c.length
  | [] => by simp [bitsLEToNat]
  | b :: r => by
    have := bitsLEToNat_lt r
    simp only [bitsLEToNat, List.length_cons, Nat.pow_succ]
    cases b <;> simp <;> omega

theorem chunk8_flatMap : ∀ (k : Nat) (bits : List Bool), bits.length = 8 * k →
    (chunk8 k bits).flatMap (fun c => byteBitsLE 8 (UInt8.ofNat (bitsLEToNat c)).toNat) = bits
  | 0, bits, h => by
    have : bits = [] := List.eq_nil_of_length_eq_zero (by omega)
    subst this; rfl
  | k + 1, bits, h => by
    simp only [chunk8, List.flatMap_cons]
    have hl : (bits.take 8).length = 8 := by simp only [List.length_take]; omega
    have hlt := bitsLEToNat_lt (bits.take 8)
    rw [hl] at hlt
    have hv : (UInt8.ofNat (bitsLEToNat (bits.take 8))).toNat = bitsLEToNat (bits.take 8) := by
      rw [u8_ofNat_toNat]; omega
    have h8 := byteBitsLE_bitsLEToNat (bits.take 8)
    rw [hl] at h8
    rw [hv, h8, chunk8_flatMap k (bits.drop 8) (by simp only [List.length_drop]; omega), List.take_append_drop]

/-- bytes_to_bit_field inverts bit_field_to_bytes -/
theorem bytesToBitField_bitFieldToBytes (bits : List Bool) (bs : Bytes) (h : bitFieldToBytes bits = some bs) :
    bytesToBitField bs = bits := by
  unfold bitFieldToBytes at h
  split at h
  · cases h
  · next hm =>
    simp only [ne_eq, Decidable.not_not] at hm
    cases h
    unfold bytesToBitField
    rw [List.flatMap_map]
    exact chunk8_flatMap _ bits (by omega)

theorem padBits_length (bits : List Bool) : (padBits bits).length % 8 = 0 := by
  unfold padBits; simp only [List.length_append, List.length_replicate]; omega

theorem bitFieldToBytes_padBits_isSome (bits : List Bool) : ∃ bs, bitFieldToBytes (padBits bits) = some bs := by
  unfold bitFieldToBytes
  rw [if_neg (by simp [padBits_length])]
  exact ⟨_, rfl⟩

/-! ## top level: populate_tree / is_valid against the specification -/

theorem populate_zero (H : Bytes → Bytes) (fl : List Bool) (hs : List Bytes) : populate H 0 fl hs = .error := by
  unfold populate
  have : ∀ D, ¬ 0 < levelSize 0 D 0 := by
    intro D
    unfold levelSize
    have hp : 0 < 2 ^ (D - 0) := Nat.two_pow_pos _
    rw [Nat.zero_add, Nat.div_eq_of_lt (by omega)]; omega
  simp only [runLoop, TreeSt.get, this, and_false, if_false]

/-- populate_tree is BIP37's "parsing a partial merkle tree object" (for every count, every flag list, every
    hash list), provided the depth the code computes is ⌈log₂ total⌉ -/
theorem populate_eq_extractProof (H : Bytes → Bytes) (n : Nat) (hD : 0 < n → IsCeilLog2 n (maxDepth n))
    (fl : List Bool) (hs : List Bytes) :
    populate H n fl hs =
      match extractProof H n fl hs with
      | none => .error
      | some (r, m) => .done r (m.map List.reverse) := by
  by_cases hn : n = 0
  · subst hn; rw [populate_zero]; simp [extractProof]
  · have hn' : 0 < n := by omega
    have hd := hD hn'
    have hce : ceilLog2 n = maxDepth n := (ceilLog2_spec n).unique hd
    rw [populate_eq_extract H n hn' hd.1]
    unfold extractProof
    rw [if_neg hn, hce]
    cases hex : extract H (maxDepth n) n fl hs with
    | none => rfl
    | some res =>
      obtain ⟨x, m, fb', hs'⟩ := res
      cases hs' with
      | nil =>
        simp only [List.length_nil, ne_eq, not_true_eq_false, if_false]
        cases hany : fb'.any id <;> simp
      | cons a r => simp

theorem any_replicate_false (k : Nat) : (List.replicate k false).any id = false := by
  induction k with
  | zero => rfl
  | succ k ih => simp [List.replicate_succ, ih]

theorem segMatched_zip (ids : List Bytes) (matched : List Bool) : segMatched (ids.zip matched) = matchedIds ids matched := rfl

/-- completeness at the level of populate_tree (leaves in internal byte order) -/
theorem populate_buildProof (H : Bytes → Bytes) (ids : List Bytes) (matched : List Bool) (hne : ids ≠ [])
    (hm : matched.length = ids.length) (hD : IsCeilLog2 ids.length (maxDepth ids.length)) :
    populate H (buildProof H ids matched).1 (buildProof H ids matched).2.2 (buildProof H ids matched).2.1
      = .done (treeRoot H ids) ((matchedIds ids matched).map List.reverse) := by
  have h0 : 0 < ids.length := List.length_pos_iff.mpr hne
  have hce : ceilLog2 ids.length = maxDepth ids.length := (ceilLog2_spec _).unique hD
  have hzl : (ids.zip matched).length = ids.length := by simp [hm]
  have hzm : (ids.zip matched).map (·.1) = ids := by
    rw [List.map_fst_zip]; omega
  simp only [buildProof]
  rw [populate_eq_extract H ids.length h0 hD.1, ← hce]
  unfold padBits
  have hb := extract_build H (ceilLog2 ids.length) (ids.zip matched)
    (List.replicate ((8 - (build H (ceilLog2 ids.length) (ids.zip matched)).1.length % 8) % 8) false) []
    (by rw [hzl]; exact h0) (by rw [hzl, hce]; exact hD.1)
  rw [hzl, List.append_nil, hzm] at hb
  rw [hb]
  simp only [List.length_nil, ne_eq, not_true_eq_false, if_false, any_replicate_false, Bool.false_eq_true, segMatched_zip]
  rfl

theorem matchedIds_map_reverse (ids : List Bytes) (matched : List Bool) :
    (matchedIds (ids.map List.reverse) matched).map List.reverse = matchedIds ids matched := by
  unfold matchedIds
  induction ids generalizing matched with
  | nil => simp
  | cons a r ih =>
    cases matched with
    | nil => simp
    | cons b bs =>
      simp only [List.map_cons, List.zip_cons_cons, List.filter_cons]
      cases b
      · simpa using ih bs
      · simp only [if_true, List.map_cons, List.reverse_reverse, List.cons.injEq, true_and]
        simpa using ih bs

/-- completeness at the level of MerkleBlock.is_valid / proved_txs (ids, hashes and root in object byte order) -/
theorem isValid_buildProof (H : Bytes → Bytes) (txids : List Bytes) (matched : List Bool) (hne : txids ≠ [])
    (hm : matched.length = txids.length) (hD : IsCeilLog2 txids.length (maxDepth txids.length)) :
    ∃ flags, bitFieldToBytes (buildProof H (txids.map List.reverse) matched).2.2 = some flags ∧
      isValid H (treeRoot H (txids.map List.reverse)).reverse (buildProof H (txids.map List.reverse) matched).1
        ((buildProof H (txids.map List.reverse) matched).2.1.map List.reverse) flags
        = .ok (some (true, matchedIds txids matched)) := by
  have hb : (buildProof H (txids.map List.reverse) matched).2.2
      = padBits (build H (ceilLog2 (txids.map List.reverse).length) ((txids.map List.reverse).zip matched)).1 := rfl
  obtain ⟨flags, hfl⟩ := bitFieldToBytes_padBits_isSome (build H (ceilLog2 (txids.map List.reverse).length) ((txids.map List.reverse).zip matched)).1
  refine ⟨flags, by rw [hb]; exact hfl, ?_⟩
  unfold isValid
  have hbits := bytesToBitField_bitFieldToBytes _ _ hfl
  rw [hbits, ← hb]
  have hrev : ((buildProof H (txids.map List.reverse) matched).2.1.map List.reverse).map List.reverse
      = (buildProof H (txids.map List.reverse) matched).2.1 := by
    generalize (buildProof H (txids.map List.reverse) matched).2.1 = l
    induction l with
    | nil => rfl
    | cons a r ih => simp only [List.map_cons, List.reverse_reverse, ih]
  rw [hrev]
  have hne' : txids.map List.reverse ≠ [] := by simpa using hne
  have hlen : (txids.map List.reverse).length = txids.length := by simp
  have := populate_buildProof H (txids.map List.reverse) matched hne' (by rw [hlen]; exact hm) (by rw [hlen]; exact hD)
  rw [this]
  simp only [matchedIds_map_reverse, decide_true]

/-- soundness at the level of populate_tree with the true transaction count -/
theorem populate_sound (H : Bytes → Bytes) (hH : ∀ b, (H b).length = 32) (ids : List Bytes) (hne : ids ≠ [])
    (hD : IsCeilLog2 ids.length (maxDepth ids.length))
    (hids : ∀ y ∈ ids, y.length = 32) (fl : List Bool) (hs : List Bytes) (hhs : ∀ y ∈ hs, y.length = 32)
    (r : Bytes) (proved : List Bytes) (h : populate H ids.length fl hs = .done r proved) (hr : r = treeRoot H ids) :
    (∀ t ∈ proved, t.reverse ∈ ids) ∨
      CollisionBetween H (extractPre H (maxDepth ids.length) ids.length fl hs) (calcPre H (maxDepth ids.length) ids) := by
  have h0 : 0 < ids.length := List.length_pos_iff.mpr hne
  have hce : ceilLog2 ids.length = maxDepth ids.length := (ceilLog2_spec _).unique hD
  rw [populate_eq_extract H ids.length h0 hD.1] at h
  cases hex : extract H (maxDepth ids.length) ids.length fl hs with
  | none => rw [hex] at h; cases h
  | some res =>
    obtain ⟨x, m, fb', hs'⟩ := res
    rw [hex] at h
    simp only at h
    split at h
    · cases h
    · split at h
      · cases h
      · simp only [PopOut.done.injEq] at h
        obtain ⟨rfl, rfl⟩ := h
        have := extract_sound H hH (maxDepth ids.length) ids fl hs x m fb' hs' h0 hD.1 hids hhs hex
          (by rw [hr, treeRoot, hce])
        rcases this with hm | hc
        · left
          intro t ht
          obtain ⟨u, hu, rfl⟩ := List.mem_map.mp ht
          simpa using hm u hu
        · right; exact hc

/-- F17b: a forged transaction count.  For a block of four transactions a, b, c, d the proof
    (total = 2, flags 1 1 1, hashes H(a‖b), H(c‖d)) validates against the block's Merkle root and "proves" the two
    inner nodes — for every hash function. -/
theorem forged_total (H : Bytes → Bytes) (a b c d : Bytes) (hD : maxDepth 2 = 1) :
    populate H 2 [true, true, true] [H (a ++ b), H (c ++ d)]
      = .done (calcHash H 2 [a, b, c, d]) [(H (a ++ b)).reverse, (H (c ++ d)).reverse] := by
  rw [populate_eq_extract H 2 (by omega) (by rw [hD]; decide), hD]
  simp [extract, calcHash]

/-! ## altering a hash: the computed root determines the consumed hashes, or a collision is exhibited -/

theorem extract_root_determines (H : Bytes → Bytes) (hH : ∀ b, (H b).length = 32) :
    ∀ (h c : Nat) (fb : List Bool) (hs1 hs2 : List Bytes) (x : Bytes) (m1 m2 : List Bytes) (fb1 fb2 : List Bool) (r1 r2 : List Bytes),
      (∀ y ∈ hs1, y.length = 32) → (∀ y ∈ hs2, y.length = 32) →
      extract H h c fb hs1 = some (x, m1, fb1, r1) → extract H h c fb hs2 = some (x, m2, fb2, r2) →
      (∃ p, hs1 = p ++ r1 ∧ hs2 = p ++ r2 ∧ fb1 = fb2 ∧ m1 = m2) ∨
        CollisionBetween H (extractPre H h c fb hs1) (extractPre H h c fb hs2)
  | 0, c, fb, hs1, hs2, x, m1, m2, fb1, fb2, r1, r2, hl1, hl2, he1, he2 => by
    left
    match fb, hs1, hs2 with
    | b :: fb0, x1 :: t1, x2 :: t2 =>
      rw [extract_zero_cons] at he1 he2
      simp only [Option.some.injEq, Prod.mk.injEq] at he1 he2
      obtain ⟨rfl, rfl, rfl, rfl⟩ := he1
      obtain ⟨rfl, rfl, rfl, rfl⟩ := he2
      exact ⟨[_], rfl, rfl, rfl, rfl⟩
    | [], _, _ => rw [extract_zero_none H _ _ _ (Or.inl rfl)] at he1; cases he1
    | _ :: _, [], _ => rw [extract_zero_none H _ _ _ (Or.inr rfl)] at he1; cases he1
    | _ :: _, _ :: _, [] => rw [extract_zero_none H _ _ _ (Or.inr rfl)] at he2; cases he2
  | h + 1, c, fb, hs1, hs2, x, m1, m2, fb1, fb2, r1, r2, hl1, hl2, he1, he2 => by
    match fb with
    | [] => simp [extract] at he1
    | false :: fb0 =>
      match hs1, hs2 with
      | [], _ => simp [extract] at he1
      | _ :: _, [] => simp [extract] at he2
      | x1 :: t1, x2 :: t2 =>
        rw [extract_succ_false] at he1 he2
        simp only [Option.some.injEq, Prod.mk.injEq] at he1 he2
        obtain ⟨rfl, rfl, rfl, rfl⟩ := he1
        obtain ⟨rfl, rfl, rfl, rfl⟩ := he2
        left; exact ⟨[_], rfl, rfl, rfl, rfl⟩
    | true :: fb0 =>
      cases hL1 : extract H h (min c (2 ^ h)) fb0 hs1 with
      | none => rw [extract_succ_true_none H h c fb0 hs1 hL1] at he1; cases he1
      | some rL1 =>
        cases hL2 : extract H h (min c (2 ^ h)) fb0 hs2 with
        | none => rw [extract_succ_true_none H h c fb0 hs2 hL2] at he2; cases he2
        | some rL2 =>
          obtain ⟨xl1, ml1, f1, s1⟩ := rL1
          obtain ⟨xl2, ml2, f2, s2⟩ := rL2
          have len1 := extract_length H hH h _ fb0 hs1 xl1 ml1 f1 s1 hl1 hL1
          have len2 := extract_length H hH h _ fb0 hs2 xl2 ml2 f2 s2 hl2 hL2
          by_cases hc : c > 2 ^ h
          · cases hR1 : extract H h (c - 2 ^ h) f1 s1 with
            | none => rw [extract_succ_true_rnone H h c fb0 hs1 _ _ _ _ hL1 hc hR1] at he1; cases he1
            | some rR1 =>
              cases hR2 : extract H h (c - 2 ^ h) f2 s2 with
              | none => rw [extract_succ_true_rnone H h c fb0 hs2 _ _ _ _ hL2 hc hR2] at he2; cases he2
              | some rR2 =>
                obtain ⟨xr1, mr1, g1, u1⟩ := rR1
                obtain ⟨xr2, mr2, g2, u2⟩ := rR2
                rw [extract_succ_true_rsome H h c fb0 hs1 _ _ _ _ _ _ _ _ hL1 hc hR1] at he1
                rw [extract_succ_true_rsome H h c fb0 hs2 _ _ _ _ _ _ _ _ hL2 hc hR2] at he2
                simp only [Option.some.injEq, Prod.mk.injEq] at he1 he2
                obtain ⟨hx1, rfl, rfl, rfl⟩ := he1
                obtain ⟨hx2, rfl, rfl, rfl⟩ := he2
                rw [extractPre_rsome H h c fb0 hs1 _ _ _ _ _ _ _ _ hL1 hc hR1, extractPre_rsome H h c fb0 hs2 _ _ _ _ _ _ _ _ hL2 hc hR2]
                have lenr1 := extract_length H hH h _ f1 s1 xr1 mr1 _ _ len1.2 hR1
                have lenr2 := extract_length H hH h _ f2 s2 xr2 mr2 _ _ len2.2 hR2
                by_cases heq : xl1 ++ xr1 = xl2 ++ xr2
                · have hinj := List.append_inj heq (by rw [len1.1, len2.1])
                  obtain ⟨rfl, rfl⟩ := hinj
                  rcases extract_root_determines H hH h _ fb0 hs1 hs2 xl1 ml1 ml2 f1 f2 s1 s2 hl1 hl2 hL1 hL2 with
                    ⟨p, hp1, hp2, rfl, rfl⟩ | hcol
                  · rcases extract_root_determines H hH h _ f1 s1 s2 xr1 mr1 mr2 _ _ _ _ len1.2 len2.2 hR1 hR2 with
                      ⟨q, hq1, hq2, rfl, rfl⟩ | hcol
                    · left
                      exact ⟨p ++ q, by rw [hp1, hq1, List.append_assoc], by rw [hp2, hq2, List.append_assoc], rfl, rfl⟩
                    · right
                      exact CollisionBetween.mono (fun a ha => List.mem_cons_of_mem _ (List.mem_append_right _ ha))
                        (fun b hb => List.mem_cons_of_mem _ (List.mem_append_right _ hb)) hcol
                  · right
                    exact CollisionBetween.mono (fun a ha => List.mem_cons_of_mem _ (List.mem_append_left _ ha))
                      (fun b hb => List.mem_cons_of_mem _ (List.mem_append_left _ hb)) hcol
                · right; exact ⟨_, List.mem_cons_self, _, List.mem_cons_self, heq, by rw [hx1, hx2]⟩
          · rw [extract_succ_true_single H h c fb0 hs1 _ _ _ _ hL1 hc] at he1
            rw [extract_succ_true_single H h c fb0 hs2 _ _ _ _ hL2 hc] at he2
            simp only [Option.some.injEq, Prod.mk.injEq] at he1 he2
            obtain ⟨hx1, rfl, rfl, rfl⟩ := he1
            obtain ⟨hx2, rfl, rfl, rfl⟩ := he2
            rw [extractPre_single H h c fb0 hs1 _ _ _ _ hL1 hc, extractPre_single H h c fb0 hs2 _ _ _ _ hL2 hc]
            by_cases heq : xl1 ++ xl1 = xl2 ++ xl2
            · have hinj := List.append_inj heq (by rw [len1.1, len2.1])
              obtain ⟨rfl, _⟩ := hinj
              rcases extract_root_determines H hH h _ fb0 hs1 hs2 xl1 ml1 ml2 _ _ _ _ hl1 hl2 hL1 hL2 with
                ⟨p, hp1, hp2, rfl, rfl⟩ | hcol
              · left; exact ⟨p, hp1, hp2, rfl, rfl⟩
              · right
                exact CollisionBetween.mono (fun a ha => List.mem_cons_of_mem _ ha) (fun b hb => List.mem_cons_of_mem _ hb) hcol
            · right; exact ⟨_, List.mem_cons_self, _, List.mem_cons_self, heq, by rw [hx1, hx2]⟩

/-- two proofs with the same count and flags that both validate to the same root carry the same hashes, or a
    collision is exhibited: altering a hash makes validation fail -/
theorem populate_hashes_determined (H : Bytes → Bytes) (hH : ∀ b, (H b).length = 32) (n : Nat) (hn : 0 < n)
    (hD : IsCeilLog2 n (maxDepth n)) (fl : List Bool) (hs1 hs2 : List Bytes)
    (hl1 : ∀ y ∈ hs1, y.length = 32) (hl2 : ∀ y ∈ hs2, y.length = 32) (r : Bytes) (p1 p2 : List Bytes)
    (h1 : populate H n fl hs1 = .done r p1) (h2 : populate H n fl hs2 = .done r p2) :
    hs1 = hs2 ∨ CollisionBetween H (extractPre H (maxDepth n) n fl hs1) (extractPre H (maxDepth n) n fl hs2) := by
  rw [populate_eq_extract H n hn hD.1] at h1 h2
  cases he1 : extract H (maxDepth n) n fl hs1 with
  | none => rw [he1] at h1; cases h1
  | some res1 =>
    cases he2 : extract H (maxDepth n) n fl hs2 with
    | none => rw [he2] at h2; cases h2
    | some res2 =>
      obtain ⟨x1, m1, f1, s1⟩ := res1
      obtain ⟨x2, m2, f2, s2⟩ := res2
      rw [he1] at h1; rw [he2] at h2
      simp only at h1 h2
      split at h1
      · cases h1
      · next hz1 =>
        split at h1
        · cases h1
        · split at h2
          · cases h2
          · next hz2 =>
            split at h2
            · cases h2
            · simp only [PopOut.done.injEq] at h1 h2
              obtain ⟨rfl, _⟩ := h1
              obtain ⟨rfl, _⟩ := h2
              have e1 : s1 = [] := List.eq_nil_of_length_eq_zero (by simpa using hz1)
              have e2 : s2 = [] := List.eq_nil_of_length_eq_zero (by simpa using hz2)
              subst e1; subst e2
              rcases extract_root_determines H hH _ _ fl hs1 hs2 _ m1 m2 f1 f2 [] [] hl1 hl2 he1 he2 with ⟨p, hp1, hp2, _, _⟩ | hc
              · left; rw [hp1, hp2]
              · right; exact hc

/-! ## one MerkleTree object used more than once -/

theorem runLoopSt_eq (H : Bytes → Bytes) : ∀ (f : Nat) (s : TreeSt),
    (runLoopSt H f s).2 = (runLoop H f s).map (fun o => o.map (·.1)) ∧
    (∀ r s', runLoop H f s = some (some (r, s')) → (runLoopSt H f s).1 = s')
  | 0, s => by simp [runLoopSt, runLoop]
  | f + 1, s => by
    simp only [runLoopSt, runLoop]
    cases hg : s.get 0 0 with
    | none => simp
    | some o =>
      cases o with
      | some r => simp
      | none =>
        simp only
        cases hs : step H s with
        | none => simp
        | some s' => exact runLoopSt_eq H f s'

theorem runLoop_mono (H : Bytes → Bytes) (j : Nat) : ∀ (f : Nat) (s : TreeSt),
    (∀ x, runLoop H f s = some (some x) → runLoop H (f + j) s = some (some x)) ∧
    (runLoop H f s = none → runLoop H (f + j) s = none)
  | 0, s => by simp [runLoop]
  | f + 1, s => by
    rw [show f + 1 + j = (f + j) + 1 by omega]
    simp only [runLoop]
    cases hg : s.get 0 0 with
    | none => simp
    | some o =>
      cases o with
      | some r => simp
      | none =>
        simp only
        cases hs : step H s with
        | none => simp
        | some s' => exact runLoop_mono H j f s'

theorem runLoopSt_more_fuel (H : Bytes → Bytes) (s0 : TreeSt) (F j : Nat) (hne : runLoop H F s0 ≠ some none) :
    (runLoopSt H (F + j) s0).2 = (runLoop H F s0).map (fun o => o.map (·.1)) ∧
    (∀ r s', runLoop H F s0 = some (some (r, s')) → (runLoopSt H (F + j) s0).1 = s') := by
  have hm := runLoop_mono H j F s0
  have he := runLoopSt_eq H (F + j) s0
  cases hr : runLoop H F s0 with
  | none => rw [hm.2 hr] at he; exact ⟨by simp [he.1], fun r s' h => by cases h⟩
  | some o =>
    cases o with
    | none => exact absurd hr hne
    | some x =>
      have h2 := hm.1 x hr
      rw [h2] at he
      refine ⟨by simp [he.1], fun r s' h => ?_⟩
      simp only [Option.some.injEq] at h
      subst h
      exact he.2 r s' rfl

/-- on a fresh tree `populateOn` is `populate` -/
theorem populateOn_newTree (H : Bytes → Bytes) (n : Nat) (fl : List Bool) (hs : List Bytes)
    (hfuel : populate H n fl hs ≠ .outOfFuel) :
    (populateOn H (newTree n) fl hs).2 = populate H n fl hs := by
  unfold populateOn populate at *
  simp only [newTree] at *
  have hne : runLoop H (3 * fl.length + 4) (mk n (maxDepth n) (fun _ _ => none) 0 0 fl hs []) ≠ some none := by
    intro h; simp only [mk] at h; rw [h] at hfuel; exact hfuel rfl
  have hl := runLoopSt_more_fuel H (mk n (maxDepth n) (fun _ _ => none) 0 0 fl hs []) (3 * fl.length + 4) (3 * maxDepth n) hne
  simp only [mk] at hl
  cases hr : runLoop H (3 * fl.length + 4)
      { total := n, maxD := maxDepth n, nodes := fun _ _ => none, depth := 0, index := 0, flagBits := fl, hashes := hs, proved := [] } with
  | none => rw [hr] at hl; simp only [hl.1, Option.map_none]
  | some o =>
    cases o with
    | none => exact absurd hr hne
    | some x =>
      obtain ⟨r, s'⟩ := x
      rw [hr] at hl
      have h3 := hl.2 r s' rfl
      simp only [hl.1, h3, Option.map_some]
      split <;> (try split) <;> rfl

/-- calling populate_tree again on a tree whose root is known runs no iteration: it raises unless no hash and
    no set flag bit is supplied, and the tree (including `proved_txs`) is unchanged -/
theorem populateOn_finished (H : Bytes → Bytes) (t : TreeSt) (r : Bytes) (fl : List Bool) (hs : List Bytes)
    (hroot : t.get 0 0 = some (some r)) :
    populateOn H t fl hs = ({ t with flagBits := fl, hashes := hs },
      if hs.length ≠ 0 then .error else if fl.any id then .error else .done r t.proved) := by
  unfold populateOn
  have hg : ({ t with flagBits := fl, hashes := hs } : TreeSt).get 0 0 = some (some r) := hroot
  rw [show 3 * fl.length + 4 + 3 * t.maxD = (3 * fl.length + 3 + 3 * t.maxD) + 1 by omega]
  simp only [runLoopSt, hg]
  split <;> (try split) <;> rfl

/-! ## every 80-byte header: parse then serialise / hash (same statement as C19's header_parse_serialize) -/

/-- parsing any 80 bytes and re-serialising reproduces them -/
theorem header_parse_serialize80 (s : Bytes) (hs : 80 ≤ s.length) :
    (Wire.Header.parse s).1.serialize = some (s.take 80) := by
  simp only [Wire.Header.parse, Wire.Header.serialize]
  have b1 : leToNat (s.take 4) < 256 ^ 4 := by
    have := leToNat_lt (s.take 4); simp only [List.length_take] at this
    rwa [Nat.min_eq_left (by omega)] at this
  have b2 : leToNat ((s.drop 4 |>.drop 32 |>.drop 32).take 4) < 256 ^ 4 := by
    have := leToNat_lt ((s.drop 4 |>.drop 32 |>.drop 32).take 4)
    simp only [List.length_take, List.length_drop] at this
    rwa [Nat.min_eq_left (by omega)] at this
  rw [natToLE_some b1, natToLE_some b2]
  simp only [Option.pure_def, Option.bind_eq_bind, Option.bind_some, List.reverse_reverse, Option.some.injEq]
  have e1 : natToLE' 4 (leToNat (s.take 4)) = s.take 4 := by
    have := natToLE'_leToNat (s.take 4); simp only [List.length_take] at this
    rwa [Nat.min_eq_left (by omega)] at this
  have e2 : natToLE' 4 (leToNat ((s.drop 4 |>.drop 32 |>.drop 32).take 4)) = (s.drop 4 |>.drop 32 |>.drop 32).take 4 := by
    have := natToLE'_leToNat ((s.drop 4 |>.drop 32 |>.drop 32).take 4)
    simp only [List.length_take, List.length_drop] at this
    rwa [Nat.min_eq_left (by omega)] at this
  rw [e1, e2]
  have t : s.take 80 = s.take 4 ++ (s.drop 4).take 32 ++ ((s.drop 4).drop 32).take 32
      ++ (((s.drop 4).drop 32).drop 32).take 4 ++ ((((s.drop 4).drop 32).drop 32).drop 4).take 4
      ++ (((((s.drop 4).drop 32).drop 32).drop 4).drop 4).take 4 := by
    rw [show (80 : Nat) = 4 + (32 + (32 + (4 + (4 + 4)))) from rfl]
    simp only [List.take_add, List.append_assoc]
  rw [t]

