/-
  Buidl.Proofs.Merkle — helper lemmas for C17: Merkle roots (model = level recursion = tree recursion),
  tree sizing, the cursor machine of MerkleTree.populate_tree simulated by the recursive BIP37
  traversal, completeness and soundness of BIP37 proofs, bit-field codec.
-/
import Buidl.Model.Merkle
import Buidl.Spec.Merkle
import Buidl.Proofs.Bytes
namespace Buidl.Merkle
open Buidl Buidl.Spec.Merkle

/-! ## Merkle root: model = ComputeMerkleRoot -/

theorem pairUp_dupLast (H : Bytes → Bytes) : ∀ l : List Bytes, pairUp H (dupLast l) = levelUp H l
  | [] => by simp [dupLast, pairUp, levelUp]
  | [a] => by simp [dupLast, pairUp, levelUp, merkleParent]
  | a :: b :: r => by
    have ih := pairUp_dupLast H r
    have hd : dupLast (a :: b :: r) = a :: b :: dupLast r := by
      unfold dupLast
      by_cases hr : r.length % 2 = 1
      · have h1 : (a :: b :: r).length % 2 = 1 := by simp only [List.length_cons]; omega
        rw [if_pos h1, if_pos hr]
        cases r with
        | nil => simp at hr
        | cons c r' => simp [List.getLast?_cons_cons]
      · have h1 : ¬ (a :: b :: r).length % 2 = 1 := by simp only [List.length_cons]; omega
        rw [if_neg h1, if_neg hr]
    rw [hd]
    simp only [pairUp, levelUp, merkleParent, ih]

theorem merkleRootLoop_eq_levelRoot (H : Bytes → Bytes) (l : List Bytes) :
    merkleRootLoop H l = levelRoot H l := by
  induction l using levelRoot.induct H with
  | case1 => rw [merkleRootLoop, levelRoot]; simp
  | case2 a => rw [merkleRootLoop, levelRoot]; simp
  | case3 a b r ih =>
    rw [merkleRootLoop, levelRoot]
    simp only [List.length_cons, gt_iff_lt, show 1 < r.length + 1 + 1 by omega, ↓reduceDIte]
    rw [pairUp_dupLast, ih]
