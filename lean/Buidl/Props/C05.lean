/-
  C05 — signature hashes equal the Satoshi / BIP143 / BIP341 digests for every standard hash type,
  and depend only on the current fields of the object.
  Property theorems only (helper lemmas: Buidl.Proofs.Sighash).  Library model: Buidl.Model.Tx
  (the code with the fixes F05a–F05f: `Cfg.repaired`); specification: Buidl.Spec.Sighash (Bitcoin
  Core's legacy `SignatureHash`, BIP143, BIP341/342, written over raw bytes, independently of the
  model).  `sha256`, `hash256` (in `H : Hashes`) and the taproot key check `xonlyOK` are arbitrary
  functions.  `Rep t st`: `st` is the raw-bytes form of the library transaction `t`, every field
  within its wire width; `RepSpent`: the preset spent outputs.

  Domain notes.  Script codes must be canonically encoded (the library parses and re-serialises
  redeem / witness scripts; `script_code_canonical` discharges this from the C04 round trip; tap scripts
  are hashed as the raw witness bytes) and,
  for the legacy algorithm, free of OP_CODESEPARATOR (`hsep`; Core strips it, the library does not —
  no standard script contains one).  BIP342's `codesep_pos` is fixed to 0xffffffff in the library.
  An empty last witness element of a stack of two or more makes `has_annex` raise (`hlast`).
-/
import Buidl.Proofs.Sighash
namespace Buidl.Props.C05
open Buidl Buidl.Script Buidl.Tx

/-! ## legacy (Satoshi / Bitcoin Core `SignatureHash`, SigVersion::BASE) -/

/-- For every transaction, input index and each of the seven hash types the serialisation the
    library hashes is Core's — including input/output pruning for ANYONECANPAY / NONE / SINGLE, the
    zeroed sequences and both cases that return the constant 1. -/
theorem legacy_eq_spec (t : Tx) (st : Spec.Sighash.Tx) (i ht : Nat) (redeem : Option Script) (codeS : Script)
    (codeRaw : Bytes) (rep : Rep t st) (hht : ht ∈ Spec.Sighash.stdHashTypes)
    (hcode : ∀ txin, t.ins[i]? = some txin → legacyCode redeem txin = some codeS)
    (hraw : rawSerialize codeS = some codeRaw) (hlen : codeRaw.length < 2 ^ 64)
    (hsep : Spec.Sighash.stripCodeSep codeRaw.length codeRaw = codeRaw) :
    sigHashLegacyPre t i redeem ht = some (legacyOfSpec (Spec.Sighash.legacy st i codeRaw ht)) :=
  legacy_pre_spec t st i ht redeem codeS codeRaw rep hht hcode hraw hlen hsep

/-- … hence the digest (an integer, big-endian reading of the 32 bytes) is Core's digest -/
theorem legacy_digest_eq_spec (hash256 : Bytes → Bytes) (t : Tx) (st : Spec.Sighash.Tx) (i ht : Nat)
    (redeem : Option Script) (codeS : Script) (codeRaw : Bytes) (rep : Rep t st)
    (hht : ht ∈ Spec.Sighash.stdHashTypes)
    (hcode : ∀ txin, t.ins[i]? = some txin → legacyCode redeem txin = some codeS)
    (hraw : rawSerialize codeS = some codeRaw) (hlen : codeRaw.length < 2 ^ 64)
    (hsep : Spec.Sighash.stripCodeSep codeRaw.length codeRaw = codeRaw) :
    sigHashLegacy hash256 t i redeem ht = some (beToNat ((Spec.Sighash.legacy st i codeRaw ht).digest hash256)) := by
  unfold sigHashLegacy
  rw [legacy_pre_spec t st i ht redeem codeS codeRaw rep hht hcode hraw hlen hsep]
  cases Spec.Sighash.legacy st i codeRaw ht with
  | one => simp only [Option.map_some, legacyOfSpec, LegacyPre.digest, Spec.Sighash.LegacyResult.digest]; decide
  | preimage b => rfl

/-- the two historical cases: an index past the inputs, and SINGLE without a matching output, give the
    constant `1` (as the number 2^248 in the library's big-endian reading) whatever the arguments -/
theorem legacy_one_cases (hash256 : Bytes → Bytes) (t : Tx) (i ht : Nat) (redeem : Option Script)
    (h : i ≥ t.ins.length ∨ (base ht = Gen.sighashSingle ∧ i ≥ t.outs.length)) :
    sigHashLegacy hash256 t i redeem ht = some (2 ^ 248) := by
  unfold sigHashLegacy sigHashLegacyPre
  by_cases c1 : i ≥ t.ins.length
  · rw [if_pos c1]; rfl
  · rw [if_neg c1]
    rcases h with h | h
    · exact absurd h c1
    · rw [if_pos h]; rfl

/-! ## BIP143 -/

/-- For every transaction, input, script code, amount and each of the seven hash types the preimage is
    BIP143's ten items (zero hashes for ANYONECANPAY / NONE / SINGLE as specified, the hash of the
    matching output for SINGLE, zero when there is none); the object is left as it was. -/
theorem bip143_eq_spec (H : Hashes) (t : Tx) (st : Spec.Sighash.Tx) (i ht amount : Nat) (txin : TxIn)
    (redeem ws : Option Script) (code : Script) (codeRaw : Bytes)
    (rep : Rep t st) (hht : ht ∈ Spec.Sighash.stdHashTypes)
    (hin : t.ins[i]? = some txin) (hcode : scriptCode143 txin redeem ws = some code)
    (hraw : rawSerialize code = some codeRaw) (hlen : codeRaw.length < 2 ^ 64)
    (hval : txin.value = some amount) (hamt : amount < 2 ^ 64) :
    sigHashBip143Pre Cfg.repaired H { tx := t } i redeem ws ht =
      (Spec.Sighash.bip143 H.hash256 st i codeRaw amount ht).map fun p => (p, { tx := t }) :=
  bip143_pre_spec H t st i ht amount txin redeem ws code codeRaw rep hht hin hcode hraw hlen hval hamt

theorem bip143_digest_eq_spec (H : Hashes) (t : Tx) (st : Spec.Sighash.Tx) (i ht amount : Nat) (txin : TxIn)
    (redeem ws : Option Script) (code : Script) (codeRaw : Bytes)
    (rep : Rep t st) (hht : ht ∈ Spec.Sighash.stdHashTypes)
    (hin : t.ins[i]? = some txin) (hcode : scriptCode143 txin redeem ws = some code)
    (hraw : rawSerialize code = some codeRaw) (hlen : codeRaw.length < 2 ^ 64)
    (hval : txin.value = some amount) (hamt : amount < 2 ^ 64) :
    (sigHashBip143 Cfg.repaired H { tx := t } i redeem ws ht).map (·.1) =
      (Spec.Sighash.bip143 H.hash256 st i codeRaw amount ht).map fun p => beToNat (H.hash256 p) := by
  unfold sigHashBip143
  rw [bip143_pre_spec H t st i ht amount txin redeem ws code codeRaw rep hht hin hcode hraw hlen hval hamt]
  cases Spec.Sighash.bip143 H.hash256 st i codeRaw amount ht <;> rfl

/-! ## BIP341 / BIP342 -/

/-- For every transaction, spent outputs, input, each of the seven hash types, key path (`ext = none`)
    and script path (`ext = some …`), with and without annex: the message is `0x00 ‖ SigMsg(hash_type,
    ext_flag) [‖ tapleaf_hash ‖ 0x00 ‖ 0xffffffff]`; SINGLE without a matching output fails on both
    sides. -/
theorem bip341_eq_spec (H : Hashes) (xonlyOK : Bytes → Bool) (t : Tx) (st : Spec.Sighash.Tx)
    (spent : List Spec.Sighash.TxOut) (i ht extFlag : Nat) (txin : TxIn) (annex : Option Bytes) (ext : Option Spec.Sighash.Ext)
    (rep : Rep t st) (hsp : All₂ RepSpent t.ins spent) (hht : ht ∈ Spec.Sighash.stdHashTypes)
    (hin : t.ins[i]? = some txin) (hi : i < 2 ^ 32)
    (hann : modelAnnex Cfg.repaired txin.witness = some annex) (hannlen : ∀ x, annex = some x → x.length < 2 ^ 64)
    (hext : modelExt Cfg.repaired H xonlyOK txin.witness extFlag = some ext) :
    sigHashBip341Pre Cfg.repaired H xonlyOK { tx := t } i extFlag ht =
      (Spec.Sighash.taprootMsg H.sha256 st spent i ht annex ext).map fun p => (p, { tx := t }) :=
  bip341_pre_spec H xonlyOK t st spent i ht extFlag txin annex ext rep hsp hht hin hi hann hannlen hext

theorem bip341_digest_eq_spec (H : Hashes) (xonlyOK : Bytes → Bool) (t : Tx) (st : Spec.Sighash.Tx)
    (spent : List Spec.Sighash.TxOut) (i ht extFlag : Nat) (txin : TxIn) (annex : Option Bytes) (ext : Option Spec.Sighash.Ext)
    (rep : Rep t st) (hsp : All₂ RepSpent t.ins spent) (hht : ht ∈ Spec.Sighash.stdHashTypes)
    (hin : t.ins[i]? = some txin) (hi : i < 2 ^ 32)
    (hann : modelAnnex Cfg.repaired txin.witness = some annex) (hannlen : ∀ x, annex = some x → x.length < 2 ^ 64)
    (hext : modelExt Cfg.repaired H xonlyOK txin.witness extFlag = some ext) :
    (sigHashBip341 Cfg.repaired H xonlyOK { tx := t } i extFlag ht).map (·.1) =
      Spec.Sighash.taprootDigest H.sha256 st spent i ht annex ext := by
  unfold sigHashBip341 Spec.Sighash.taprootDigest
  rw [bip341_pre_spec H xonlyOK t st spent i ht extFlag txin annex ext rep hsp hht hin hi hann hannlen hext,
    tapSighashTag_eq]
  cases Spec.Sighash.taprootMsg H.sha256 st spent i ht annex ext <;> rfl

/-- the annex fed into the message is BIP341's annex: the last of at least two witness elements,
    starting with 0x50 (F05f) -/
theorem annex_eq_spec (w : Witness) (hlast : w.items.length < 2 ∨ w.items.getLast? ≠ some []) :
    modelAnnex Cfg.repaired w = some (Spec.Sighash.annexOf w.items) :=
  modelAnnex_spec w hlast

/-- key path versus script path: the annex is not counted as a script-path element (F05e) -/
theorem extflag_eq_spec (w : Witness) (hlast : w.items.length < 2 ∨ w.items.getLast? ≠ some []) :
    extFlagOf Cfg.repaired w = some (Spec.Sighash.extFlagOf w.items) :=
  extFlagOf_spec w hlast

/-- the tap leaf hash of the BIP342 extension is `hash_TapLeaf(v ‖ compact_size(s) ‖ s)` for the script
    element (its bytes exactly as they are in the witness, canonical or not) and the control-block element
    of the CURRENT witness stack: it is recomputed from the fields by every query -/
theorem tapleaf_eq_spec (sha : Bytes → Bytes) (xonlyOK : Bytes → Bool) (w : Witness) (a : Bool) (v0 : UInt8)
    (cbt raw : Bytes)
    (ha : w.hasAnnex Cfg.repaired = some a) (hcb : fromEnd w.items (if a then 2 else 1) = some (v0 :: cbt))
    (hlen1 : (cbt.length + 1) % 32 = 1) (hlen2 : 33 ≤ cbt.length + 1) (hlen3 : cbt.length + 1 ≤ 4129)
    (hkey : xonlyOK (cbt.take 32) = true)
    (hraw : fromEnd w.items (if a then 3 else 2) = some raw) (hrl : raw.length < 2 ^ 63) :
    tapLeafHash Cfg.repaired sha xonlyOK w = some (Spec.Sighash.tapleafHash sha (v0.toNat &&& 0xFE) raw) :=
  tapLeafHash_spec sha xonlyOK w a v0 cbt raw ha hcb hlen1 hlen2 hlen3 hkey hraw hrl

/-- canonically encoded scripts (the image of `raw_serialize` on well-formed commands, C04) re-serialise
    to themselves: the hypothesis under which parsed redeem / witness scripts are the BIP143 script code -/
theorem script_code_canonical (cs : List Cmd) (raw : Bytes) (wf : ∀ c ∈ cs, CmdWF c) (h : serCmds cs = some raw)
    (hl : raw.length < 2 ^ 63) :
    Script.serialize (parseRaw raw) = some (Spec.Sighash.serScript raw) :=
  reserialize_canonical cs raw wf h hl

/-! ## dispatch (`Tx.sig_hash`): which algorithm, which script code, which ext_flag -/

theorem route_p2pkh (txin : TxIn) (spk : Script) (h : Bytes) (hspk : txin.scriptPubkey = some spk)
    (hc : spk.cmds = [.op 0x76, .op 0xA9, .push h, .op 0x88, .op 0xAC]) :
    route Cfg.repaired txin = some (.legacy none) ∧ legacyCode none txin = some spk :=
  Buidl.Tx.route_p2pkh txin spk h hspk hc

theorem route_p2sh_legacy (txin : TxIn) (spk : Script) (h raw : Bytes) (hspk : txin.scriptPubkey = some spk)
    (hc : spk.cmds = [.op 0xA9, .push h, .op 0x87]) (hl : h.length = 20)
    (hs : txin.scriptSig.cmds.getLast? = some (.push raw)) (hr : raw.length < 2 ^ 63)
    (hn1 : isP2wpkh (parseRaw raw) = false) (hn2 : isP2wsh (parseRaw raw) = false) :
    route Cfg.repaired txin = some (.legacy (some (parseRaw raw))) ∧
    legacyCode (some (parseRaw raw)) txin = some (parseRaw raw) :=
  Buidl.Tx.route_p2sh_legacy txin spk h raw hspk hc hl hs hr hn1 hn2

theorem route_p2wpkh (txin : TxIn) (spk : Script) (h : Bytes) (hspk : txin.scriptPubkey = some spk)
    (hc : spk.cmds = [.op 0, .push h]) (hl : h.length = 20) :
    route Cfg.repaired txin = some (.bip143 none none) ∧ scriptCode143 txin none none = some (p2pkhScript h) :=
  Buidl.Tx.route_p2wpkh txin spk h hspk hc hl

theorem route_p2wsh (txin : TxIn) (spk : Script) (h raw : Bytes) (hspk : txin.scriptPubkey = some spk)
    (hc : spk.cmds = [.op 0, .push h]) (hl : h.length = 32)
    (hw : txin.witness.items.getLast? = some raw) (hr : raw.length < 2 ^ 63) :
    route Cfg.repaired txin = some (.bip143 none (some (parseRaw raw))) ∧
    scriptCode143 txin none (some (parseRaw raw)) = some (parseRaw raw) :=
  Buidl.Tx.route_p2wsh txin spk h raw hspk hc hl hw hr

theorem route_p2sh_p2wpkh (txin : TxIn) (spk : Script) (h raw h' : Bytes) (hspk : txin.scriptPubkey = some spk)
    (hc : spk.cmds = [.op 0xA9, .push h, .op 0x87]) (hl : h.length = 20)
    (hs : txin.scriptSig.cmds.getLast? = some (.push raw)) (hr : raw.length < 2 ^ 63)
    (hrc : (parseRaw raw).cmds = [.op 0, .push h']) (hl' : h'.length = 20) :
    route Cfg.repaired txin = some (.bip143 (some (parseRaw raw)) none) ∧
    scriptCode143 txin (some (parseRaw raw)) none = some (p2pkhScript h') :=
  Buidl.Tx.route_p2sh_p2wpkh txin spk h raw h' hspk hc hl hs hr hrc hl'

theorem route_p2sh_p2wsh (txin : TxIn) (spk : Script) (h raw h' wraw : Bytes) (hspk : txin.scriptPubkey = some spk)
    (hc : spk.cmds = [.op 0xA9, .push h, .op 0x87]) (hl : h.length = 20)
    (hs : txin.scriptSig.cmds.getLast? = some (.push raw)) (hr : raw.length < 2 ^ 63)
    (hrc : (parseRaw raw).cmds = [.op 0, .push h']) (hl' : h'.length = 32)
    (hw : txin.witness.items.getLast? = some wraw) (hwr : wraw.length < 2 ^ 63) :
    route Cfg.repaired txin = some (.bip143 (some (parseRaw raw)) (some (parseRaw wraw))) ∧
    scriptCode143 txin (some (parseRaw raw)) (some (parseRaw wraw)) = some (parseRaw wraw) :=
  Buidl.Tx.route_p2sh_p2wsh txin spk h raw h' wraw hspk hc hl hs hr hrc hl' hw hwr

/-- P2TR: BIP341, with the ext_flag the specification derives from the witness stack -/
theorem route_p2tr (txin : TxIn) (spk : Script) (h : Bytes) (hspk : txin.scriptPubkey = some spk)
    (hc : spk.cmds = [.op 0x51, .push h]) (hl : h.length = 32)
    (hlast : txin.witness.items.length < 2 ∨ txin.witness.items.getLast? ≠ some []) :
    route Cfg.repaired txin = some (.bip341 (Spec.Sighash.extFlagOf txin.witness.items)) :=
  Buidl.Tx.route_p2tr txin spk h hspk hc hl hlast

/-- the specification's rule on the four native templates, as bytes: the same algorithms -/
theorem spec_dispatch_native (h20 h32 : Bytes) (hl20 : h20.length = 20) (hl32 : h32.length = 32) (w : List Bytes) :
    Spec.Sighash.dispatch ([0x76, 0xa9, 0x14] ++ h20 ++ [0x88, 0xac]) none w
      = some (.legacy ([0x76, 0xa9, 0x14] ++ h20 ++ [0x88, 0xac])) ∧
    Spec.Sighash.dispatch ([0x00, 0x14] ++ h20) none w = some (.bip143 (Spec.Sighash.p2pkhCode h20)) ∧
    Spec.Sighash.dispatch ([0x00, 0x20] ++ h32) none w = (w.getLast?).map .bip143 ∧
    Spec.Sighash.dispatch ([0x51, 0x20] ++ h32) none w =
      some (.bip341 (Spec.Sighash.extFlagOf w) (Spec.Sighash.annexOf w)) :=
  ⟨dispatch_p2pkh h20 hl20 w, dispatch_p2wpkh h20 hl20 w, dispatch_p2wsh h32 hl32 w, dispatch_p2tr h32 hl32 w⟩

/-! ## history independence -/

/-- a query of the repaired code reads only the current fields and leaves the object as it was -/
theorem query_pure (H : Hashes) (xonlyOK : Bytes → Bool) (q : Query) (o : TxObj) :
    runQuery Cfg.repaired H xonlyOK o q =
      (runQuery Cfg.repaired H xonlyOK { tx := o.tx } q).map fun r => (r.1, o) :=
  runQuery_framed H xonlyOK q o

/-- For every list of operations — digest queries of any algorithm, input and hash type, interleaved with
    arbitrary edits of the fields — run on one object in any state, every query returns what a fresh
    object holding the fields *as they are at that moment* returns (and that is the specification's
    digest by the theorems above): no earlier query or edit influences a later answer. -/
theorem history_independent (H : Hashes) (xonlyOK : Bytes → Bool) (ops : List Op) (o : TxObj) :
    run Cfg.repaired H xonlyOK o ops = expectedAnswers H xonlyOK o.tx ops :=
  run_repaired H xonlyOK ops o

/-- the same, spelled out for in-place edits of one input's witness stack (tap script, control block,
    annex added or removed, items inserted): everything a digest derives from the witness — annex, ext_flag,
    the BIP342 leaf hash — is a function of the current fields, so query, edit the witness items of input
    `j` in any way `g`, query again answers exactly what a fresh object with the edited witness answers -/
theorem requery_after_witness_edit (H : Hashes) (xonlyOK : Bytes → Bool) (o : TxObj) (q q' : Query) (j : Nat)
    (g : List Bytes → List Bytes) :
    run Cfg.repaired H xonlyOK o [.query q, .edit (editWitness j g), .query q'] =
      [freshAnswer H xonlyOK o.tx q, freshAnswer H xonlyOK (editWitness j g o.tx) q'] :=
  run_repaired H xonlyOK _ o

/-- F05d (fixed): with the memoisation of the unrepaired code (`Cfg.asWas`) the property fails — query,
    remove the outputs, query again: the second answer still commits to the removed output -/
theorem F05d_witness :
    ∃ (H : Hashes) (x : Bytes → Bool) (t : Tx) (ops : List Op),
      run Cfg.asWas H x { tx := t } ops ≠ expectedAnswers H x t ops := by
  refine ⟨⟨id, id⟩, fun _ => true,
    ⟨2, [⟨List.replicate 32 1, 0, ⟨[], none⟩, 0xFFFFFFFF, ⟨[]⟩, some 1000, some ⟨[.op 0, .push (List.replicate 20 7)], none⟩⟩],
      [⟨900, ⟨[.op 0x51], none⟩⟩], 0, true⟩,
    [.query (.bip143 0 none none 1), .edit (fun t => { t with outs := [] }), .query (.bip143 0 none none 1)], ?_⟩
  decide +kernel

/-! ## the hypotheses are satisfiable -/

example : (3 : Nat) ∈ Spec.Sighash.stdHashTypes ∧ (0x83 : Nat) ∈ Spec.Sighash.stdHashTypes := by decide

example : Rep ⟨2, [⟨List.replicate 32 1, 0, ⟨[], none⟩, 0xFFFFFFFE, ⟨[]⟩, some 1000, none⟩], [⟨900, ⟨[.op 0x51], none⟩⟩], 0, true⟩
    ⟨2, [⟨⟨List.replicate 32 1, 0⟩, [], 0xFFFFFFFE⟩], [⟨900, [0x51]⟩], 0⟩ := by
  refine ⟨rfl, rfl, by decide, by decide, by decide, by decide, ?_, ?_⟩
  · exact .cons ⟨by decide, rfl, rfl, by decide, by decide⟩ .nil
  · exact .cons ⟨rfl, by decide, by decide, by decide⟩ .nil

example : Spec.Sighash.stripCodeSep 25 (Spec.Sighash.p2pkhCode (List.replicate 20 9)) = Spec.Sighash.p2pkhCode (List.replicate 20 9) := by
  decide


/-! ## beyond the property's quantifier: all 256 hash-type bytes, OP_CODESEPARATOR

    Recorded observations, not findings (the property quantifies over the seven standard hash types and
    standard script codes).  O05h: the library decodes the base type with `& 3`, Core with `& 0x1f`.
    O05i: BIP341 fails for a hash type outside the seven, the library computes a digest.
    O05j: Core's `SerializeScriptCode` drops OP_CODESEPARATOR opcodes, the library has no code-separator
    handling at all (opcode 171 is only a name in `OP_CODE_NAMES`; there is no FindAndDelete either). -/

/-- on which of the 256 hash-type bytes the library's decoding (`& 0x80`, `& 3`) is Core's (`& 0x80`, `& 0x1f`):
    exactly the 160 bytes with `ht & 3 < 2` or `ht & 0x1f < 4` -/
theorem hashtype_decoding_agrees_iff : ∀ ht, ht < 256 → (HtOK ht ↔ (ht % 4 < 2 ∨ ht % 32 < 4)) :=
  htOK_byte_iff

/-- legacy: the library's serialisation is Core's for EVERY hash-type byte on which the decodings agree
    (0x00…0x05, 0x08, 0x09, …, 0x80…0x85, … — not only the seven standard ones) -/
theorem legacy_eq_spec_all_bytes (t : Tx) (st : Spec.Sighash.Tx) (i ht : Nat) (redeem : Option Script) (codeS : Script)
    (codeRaw : Bytes) (rep : Rep t st) (hb : ht < 256) (hag : ht % 4 < 2 ∨ ht % 32 < 4)
    (hcode : ∀ txin, t.ins[i]? = some txin → legacyCode redeem txin = some codeS)
    (hraw : rawSerialize codeS = some codeRaw) (hlen : codeRaw.length < 2 ^ 64)
    (hsep : Spec.Sighash.stripCodeSep codeRaw.length codeRaw = codeRaw) :
    sigHashLegacyPre t i redeem ht = some (legacyOfSpec (Spec.Sighash.legacy st i codeRaw ht)) :=
  legacy_pre_spec_gen t st i ht redeem codeS codeRaw rep (htOK_byte ht hb hag) hcode hraw hlen hsep

/-- BIP143: likewise -/
theorem bip143_eq_spec_all_bytes (H : Hashes) (t : Tx) (st : Spec.Sighash.Tx) (i ht amount : Nat) (txin : TxIn)
    (redeem ws : Option Script) (code : Script) (codeRaw : Bytes)
    (rep : Rep t st) (hb : ht < 256) (hag : ht % 4 < 2 ∨ ht % 32 < 4)
    (hin : t.ins[i]? = some txin) (hcode : scriptCode143 txin redeem ws = some code)
    (hraw : rawSerialize code = some codeRaw) (hlen : codeRaw.length < 2 ^ 64)
    (hval : txin.value = some amount) (hamt : amount < 2 ^ 64) :
    sigHashBip143Pre Cfg.repaired H { tx := t } i redeem ws ht =
      (Spec.Sighash.bip143 H.hash256 st i codeRaw amount ht).map fun p => (p, { tx := t }) :=
  bip143_pre_spec_gen H t st i ht amount txin redeem ws code codeRaw rep (htOK_byte ht hb hag) hin hcode hraw hlen hval hamt

/-- O05h witness: on the other 96 bytes they differ — hash type 0x06 (`& 3` = NONE, `& 0x1f` = 6 = like ALL) on a
    1-input 1-output transaction: legacy and BIP143 preimages are not Core's -/
theorem O05h_nonstandard_hashtype_witness :
    ∃ (t : Tx) (st : Spec.Sighash.Tx) (code : Script) (codeRaw : Bytes), Rep t st ∧ rawSerialize code = some codeRaw ∧
      sigHashLegacyPre t 0 (some code) 6 ≠ some (legacyOfSpec (Spec.Sighash.legacy st 0 codeRaw 6)) ∧
      (sigHashBip143Pre Cfg.repaired ⟨id, id⟩ { tx := t } 0 none (some code) 6).map (·.1) ≠
        Spec.Sighash.bip143 id st 0 codeRaw 1000 6 := by
  refine ⟨⟨2, [⟨List.replicate 32 1, 0, ⟨[], none⟩, 0xFFFFFFFE, ⟨[]⟩, some 1000, none⟩], [⟨900, ⟨[.op 0x51], none⟩⟩], 0, true⟩,
    ⟨2, [⟨⟨List.replicate 32 1, 0⟩, [], 0xFFFFFFFE⟩], [⟨900, [0x51]⟩], 0⟩, ⟨[.op 0x51], none⟩, [0x51], ?_, rfl, ?_, ?_⟩
  · refine ⟨rfl, rfl, by decide, by decide, by decide, by decide, ?_, ?_⟩
    · exact .cons ⟨by decide, rfl, rfl, by decide, by decide⟩ .nil
    · exact .cons ⟨rfl, by decide, by decide, by decide⟩ .nil
  · decide +kernel
  · decide +kernel

/-- O05i witness: BIP341 fails for hash type 0x04; the library returns a message -/
theorem O05i_taproot_invalid_hashtype_witness :
    ∃ (t : Tx) (st : Spec.Sighash.Tx) (spent : List Spec.Sighash.TxOut),
      Spec.Sighash.taprootMsg id st spent 0 4 none none = none ∧
      (sigHashBip341Pre Cfg.repaired ⟨id, id⟩ (fun _ => true) { tx := t } 0 0 4).isSome = true := by
  refine ⟨⟨2, [⟨List.replicate 32 1, 0, ⟨[], none⟩, 0xFFFFFFFE, ⟨[[7]]⟩, some 1000, some ⟨[.op 0x51, .push (List.replicate 32 3)], none⟩⟩],
      [⟨900, ⟨[.op 0x51], none⟩⟩], 0, true⟩,
    ⟨2, [⟨⟨List.replicate 32 1, 0⟩, [], 0xFFFFFFFE⟩], [⟨900, [0x51]⟩], 0⟩, [⟨1000, 0x51 :: 0x20 :: List.replicate 32 3⟩], ?_, ?_⟩
  · decide +kernel
  · decide +kernel

/-- a canonically encoded script code without the opcode OP_CODESEPARATOR satisfies the hypothesis `hsep` of
    `legacy_eq_spec`: Core's stripping leaves it unchanged (every standard script code is of this kind) -/
theorem no_codeseparator_no_stripping (cs : List Cmd) (b : Bytes) (wf : ∀ c ∈ cs, CmdWF c) (h : serCmds cs = some b)
    (hno : Cmd.op 0xab ∉ cs) : Spec.Sighash.stripCodeSep b.length b = b :=
  no_codesep_strip cs b wf h hno

/-- O05j witness: for the script code `OP_CODESEPARATOR OP_1` the library hashes the opcode, Core does not -/
theorem O05j_codeseparator_witness :
    ∃ (t : Tx) (st : Spec.Sighash.Tx) (code : Script) (codeRaw : Bytes), Rep t st ∧ rawSerialize code = some codeRaw ∧
      Spec.Sighash.stripCodeSep codeRaw.length codeRaw ≠ codeRaw ∧
      sigHashLegacyPre t 0 (some code) 1 ≠ some (legacyOfSpec (Spec.Sighash.legacy st 0 codeRaw 1)) := by
  refine ⟨⟨2, [⟨List.replicate 32 1, 0, ⟨[], none⟩, 0xFFFFFFFE, ⟨[]⟩, some 1000, none⟩], [⟨900, ⟨[.op 0x51], none⟩⟩], 0, true⟩,
    ⟨2, [⟨⟨List.replicate 32 1, 0⟩, [], 0xFFFFFFFE⟩], [⟨900, [0x51]⟩], 0⟩, ⟨[.op 0xab, .op 0x51], none⟩, [0xab, 0x51], ?_, rfl, ?_, ?_⟩
  · refine ⟨rfl, rfl, by decide, by decide, by decide, by decide, ?_, ?_⟩
    · exact .cons ⟨by decide, rfl, rfl, by decide, by decide⟩ .nil
    · exact .cons ⟨rfl, by decide, by decide, by decide⟩ .nil
  · decide
  · decide +kernel


/-! ## consumers of the digest: which digest a signature is matched against -/

/-- **`Tx.finalize_p2tr_multisig` matches every signature against the digest of that signature's OWN hash type.**
    For one public key of the tap script and any list of signature elements: the element the loop places is the
    first one (in list order) that verifies for the key against `sig_hash(input_index, ht)` with `ht` read from
    THAT element (64 bytes: SIGHASH_DEFAULT, 65 bytes: its last byte) — and by `bip341_digest_eq_spec` that is the
    BIP341 digest for `ht`; every element before it is empty or fails against the digest of its own hash type; when
    nothing is placed, every element is empty or fails against its own digest.  The object's fields are unchanged
    by the search.  So co-signers may use different hash types in any order. -/
theorem finalize_p2tr_multisig_uses_each_sig_hashtype (H : Hashes) (x : Bytes → Bool)
    (verify : Bytes → Bytes → Bytes → Option Bool) (i : Nat) (point : Bytes) (o : TxObj) (sigs : List Bytes)
    (pick : Option Bytes) (o' : TxObj)
    (h : pickSig Cfg.repaired H x verify i point o sigs = some (pick, o')) :
    o' = o ∧
    match pick with
    | some s => ∃ pre post ht body msg, sigs = pre ++ s :: post ∧ schnorrSigKind s = .sig ht body ∧
        digestFor H x o i ht = some (.bytes msg) ∧ verify point msg body = some true ∧
        ∀ s' ∈ pre, NoMatch H x verify o i point s'
    | none => ∀ s' ∈ sigs, NoMatch H x verify o i point s' :=
  pickSig_spec H x verify i point o sigs pick o' h

/-- how a Schnorr signature element names its hash type -/
theorem schnorr_sig_hashtype (sig : Bytes) :
    (sig.length = 0 → schnorrSigKind sig = .skip) ∧
    (sig.length = 64 → schnorrSigKind sig = .sig 0 sig) ∧
    (sig.length = 65 → ∃ b, sig.getLast? = some b ∧ schnorrSigKind sig = .sig b.toNat sig.dropLast) ∧
    (sig.length ≠ 0 → sig.length ≠ 64 → sig.length ≠ 65 → schnorrSigKind sig = .bad) := by
  refine ⟨fun h => by simp [schnorrSigKind, h], fun h => by simp [schnorrSigKind, h, Gen.sighashDefault], ?_, ?_⟩
  · intro h
    have hne : sig ≠ [] := by intro e; rw [e] at h; simp at h
    obtain ⟨b, hb⟩ : ∃ b, sig.getLast? = some b := by
      cases hl : sig.getLast? with
      | none => exact absurd (List.getLast?_eq_none_iff.mp hl) hne
      | some b => exact ⟨b, rfl⟩
    exact ⟨b, hb, by simp [schnorrSigKind, h, hb]⟩
  · intro h0 h1 h2; simp [schnorrSigKind, h0, h1, h2]

end Buidl.Props.C05
