/-
  C10Tx — the transaction codec of C04 (Buidl.Model.Tx) satisfies the laws that the PSBT theorems (C10, C11)
  assume of their abstract `TxCodec`.  Property theorems only (helper lemmas: Buidl.Proofs.TxCodecInst,
  Buidl.Proofs.Tx, Buidl.Proofs.TxParse).

  `TxCodec` is a record of functions; its laws are fields of the PSBT well-formedness predicates
  (`GlobalWF.tx`, `InMapWF.prevTx`, `PsbtMapWF.insSame`, `PsbtMapWF.outsSame`).  The theorems below are those
  fields, for `psbtCodec` — definitionally the codec of the PSBT drivers (`drv_codec`) — with hypotheses
  that are decidable properties of the transactions themselves (C04's `TxWF`, `canonTx t = t`, `Reenc t`).
-/
import Buidl.Proofs.TxCodecInst
namespace Buidl.Props.C10Tx
open Buidl Buidl.Script Buidl.Psbt Buidl.Tx

/-- the instance proved about is the one the PSBT drivers run -/
theorem drv_codec : PsbtDrv.txCodec = psbtCodec Hash.hash256 PsbtDrv.finalSer := drv_txCodec_eq

variable (hash256 : Bytes → Bytes) (fin : Tx → List (Option Script × Option (List Bytes)) → Option Bytes)

/-- `GlobalWF.tx` holds for every well-formed unsigned transaction, with `t' = coreTx t` -/
theorem global_tx_law (t : Tx) (wf : TxWF t) :
    ∃ b, (psbtCodec hash256 fin).serializeLegacy t = some b ∧
      (∀ rest, (psbtCodec hash256 fin).parseLegacy (b ++ rest) = some (coreTx t, rest)) ∧
      (psbtCodec hash256 fin).serializeLegacy (coreTx t) = some b :=
  codec_global_tx hash256 fin t wf

/-- `PsbtMapWF.insSame` -/
theorem ins_same_law (t : Tx) : (psbtCodec hash256 fin).ins (coreTx t) = (psbtCodec hash256 fin).ins t :=
  codec_ins_same hash256 fin t

/-- `PsbtMapWF.outsSame`, for canonical output scripts -/
theorem outs_same_law (t : Tx) (hc : ∀ o ∈ t.outs, canonScript o.scriptPubkey = o.scriptPubkey) :
    (psbtCodec hash256 fin).outs (coreTx t) = (psbtCodec hash256 fin).outs t :=
  codec_outs_same hash256 fin t hc

/-- `InMapWF.prevTx` (first two conjuncts) for a well-formed transaction in canonical form -/
theorem prev_tx_law (t : Tx) (wf : TxWF t) (hc : canonTx t = t) :
    ∃ b, (psbtCodec hash256 fin).serialize t = some b ∧
      ∀ rest, (psbtCodec hash256 fin).parse (b ++ rest) = some (t, rest) :=
  codec_prev_tx hash256 fin t wf hc

/-- `InMapWF.prevTx` for whatever the codec's own parser returned, from any bytes, when it is `Reenc` -/
theorem prev_tx_law_parsed (s r : Bytes) (t : Tx) (h : (psbtCodec hash256 fin).parse s = some (t, r)) (hr : Reenc t) :
    ∃ b, (psbtCodec hash256 fin).serialize t = some b ∧
      ∀ rest, (psbtCodec hash256 fin).parse (b ++ rest) = some (t, rest) :=
  codec_prev_tx_parsed hash256 fin s r t h hr

/-- the whole `InMapWF.prevTx` field for an input whose non-witness UTXO is well-formed and canonical and has
    the spent output -/
theorem in_map_prev_tx_field (p : PIn Tx) (idx : Nat)
    (h : ∀ t, p.prevTx = some t → TxWF t ∧ canonTx t = t ∧ idx < t.outs.length) :
    ∀ t, p.prevTx = some t → ∃ b o, (psbtCodec hash256 fin).serialize t = some b ∧
      (∀ rest, (psbtCodec hash256 fin).parse (b ++ rest) = some (t, rest)) ∧
      ((psbtCodec hash256 fin).outs t)[idx]? = some o := by
  intro t ht
  obtain ⟨wf, hc, hi⟩ := h t ht
  obtain ⟨b, h1, h2⟩ := codec_prev_tx hash256 fin t wf hc
  exact ⟨b, { amount := (t.outs[idx]).amount, spk := (t.outs[idx]).scriptPubkey }, h1, h2,
    codec_outs_getElem hash256 fin t idx t.outs[idx] (List.getElem?_eq_getElem hi)⟩

/-- `GlobalWF` assembled for the concrete codec: its transaction-codec field needs nothing but `TxWF` -/
theorem global_wf (O : Oracles) (n : Net) (p : Psbt Tx) (wf : TxWF p.tx)
    (hdNodup : DNodup p.hdPubs) (hd : ∀ e ∈ p.hdPubs, e.1 = e.2.raw ∧ HdWF O n e.2)
    (extra : ExtraWF unknownGlobalKey p.extra) :
    GlobalWF (psbtCodec hash256 fin) O n p (coreTx p.tx) :=
  globalWF_of_txWF hash256 fin O n p wf hdNodup hd extra

/-- C10's global-map round trip, instantiated: for a PSBT whose unsigned transaction is well-formed (C04),
    reading the global pairs of its serialisation yields the re-parsed transaction `coreTx p.tx`, the xpubs and
    the unknowns in sorted order — no hypothesis about the codec is left -/
theorem global_map_roundtrip_tx (O : Oracles) (n : Net) (p : Psbt Tx) (wf : TxWF p.tx)
    (hdNodup : DNodup p.hdPubs) (hd : ∀ e ∈ p.hdPubs, e.1 = e.2.raw ∧ HdWF O n e.2)
    (extra : ExtraWF unknownGlobalKey p.extra) {es : List (Bytes × Bytes)}
    (he : p.globalEntries (psbtCodec hash256 fin) = some es) :
    Steps (globalStep (psbtCodec hash256 fin) O) { network := some n } es
      { tx := some (coreTx p.tx), hdPubs := sortedItems p.hdPubs, extra := sortedItems p.extra, network := some n } :=
  global_entries_steps (psbtCodec hash256 fin) O n p (coreTx p.tx)
    (globalWF_of_txWF hash256 fin O n p wf hdNodup hd extra) he

/-- C11's "the non-witness UTXO hashes to the outpoint" speaks of C04's transaction id -/
theorem hash_is_txid (t : Tx) : (psbtCodec hash256 fin).hash t = t.hash hash256 := rfl

end Buidl.Props.C10Tx
