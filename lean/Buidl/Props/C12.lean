/-
  C12 — taproot output keys commit to the script tree; control blocks.
  Property theorems only (helper lemmas: Buidl.Proofs.Taproot, TaprootRel, TaprootGroup).
  Model: Buidl.Model.Taproot (buidl/taproot.py, pecc.py, witness.py; constants from Buidl.Gen.Taproot,
  re-extracted from /repo on every run).  The tagged hashes `H : Hashes` are arbitrary functions; no
  injectivity is ever assumed — the tamper theorems exhibit collisions instead.  Theorems about private
  keys use the secp256k1 group facts of C03 through `groupLaw` (the `…_relGroup` lemmas they instantiate
  are in Buidl.Proofs.TaprootRel).
-/
import Buidl.Proofs.TaprootGroup
namespace Buidl.Props.C12
open Buidl Buidl.EC Buidl.Script Buidl.Taproot

/-! ## the output key -/

/-- `S256Point.tweaked_key`: `Q = even(P) + int(H_TapTweak(x(P) ‖ root)) · G` for every point `P ≠ ∞`
    (`even(P)` is the code's `even_point`, `· G` and `+` the code's `__rmul__` / `__add__`) -/
theorem tweaked_key_formula (H : Hashes) (P : Pt) (hP : P ≠ .inf) (root : Bytes) :
    tweakedKey H P root = some (sadd (evenPoint P) (smul (beToNat (H.tapTweak (xonly P ++ root)) : Int) G)) :=
  tweakedKey_eq H hP root

/-- on the point at infinity it raises -/
theorem tweaked_key_infinity (H : Hashes) (root : Bytes) : tweakedKey H .inf root = none :=
  tweakedKey_inf H root

/-- `TapLeaf.external_pubkey` / `TapBranch.external_pubkey`: the tweak commits to the tree's root hash -/
theorem external_pubkey_formula (H : Hashes) (t : Tree) (P Q : Pt) (h : t.externalPubkey H P = some Q) :
    ∃ root, t.hash H = some root ∧ P ≠ .inf ∧
      Q = sadd (evenPoint P) (smul (beToNat (H.tapTweak (xonly P ++ root)) : Int) G) := by
  unfold Tree.externalPubkey at h
  cases hr : t.hash H with
  | none => simp [hr] at h
  | some root =>
    simp only [hr, Option.bind_eq_bind, Option.bind_some] at h
    obtain ⟨h1, h2⟩ := tweakedKey_some h
    exact ⟨root, rfl, h1, h2⟩

/-- the even representative used by the tweak has even y and the same x (keys `a·G`) -/
theorem even_point_even (a : Int) (h : smul a G ≠ .inf) :
    parity (evenPoint (smul a G)) = 0 ∧ xonly (evenPoint (smul a G)) = xonly (smul a G) :=
  ⟨groupLaw.parity_evenPoint_smul a h, groupLaw.xonly_evenPoint_smul a⟩

/-! ## private keys -/

/-- `PrivateKey.even_secret` is the discrete logarithm of `point.even_point()` and stays in `[1, N-1]` -/
theorem even_secret_point {d e : Nat} {pt : Pt} (hp : privPoint d = some pt) (he : evenSecret d pt = some e) :
    smul (e : Int) G = evenPoint pt ∧ parity (evenPoint pt) = 0 ∧ 1 ≤ e ∧ e < N :=
  evenSecret_point_relGroup groupLaw hp he

/-- **`PrivateKey.tweaked_key(root).point = point.tweaked_key(root)`**: the tweaked private key is the
    discrete logarithm of the tweaked public key, for every secret, root and hash function -/
theorem priv_tweaked_key_point (H : Hashes) {d d' : Nat} {pt' : Pt} {root : Bytes}
    (h : privTweakedKey H d root = some (d', pt')) :
    ∃ pt, privPoint d = some pt ∧ tweakedKey H pt root = some pt' ∧ pt' = smul (d' : Int) G ∧ 1 ≤ d' ∧ d' < N :=
  privTweakedKey_point_relGroup groupLaw H h

/-- … and it raises on a valid secret exactly when the tweaked public key is the point at infinity
    (`H_TapTweak ≡ −even_secret (mod N)`, a negligible event) -/
theorem priv_tweaked_key_none_iff (H : Hashes) {d : Nat} {pt : Pt} {root : Bytes} (hp : privPoint d = some pt) :
    privTweakedKey H d root = none ↔ tweakedKey H pt root = some .inf :=
  privTweakedKey_none_iff_relGroup groupLaw H hp

/-! ## sibling order -/

/-- `TapBranch(l, r).hash() = TapBranch(r, l).hash()` at the level of the two child hashes -/
theorem branch_hash_comm (H : Hashes) (a b : Bytes) : branchHash H a b = branchHash H b a :=
  branchHash_comm H a b

/-- … and for trees (including the case where a child fails to hash) -/
theorem tree_hash_swap (H : Hashes) (l r : Tree) : (Tree.branch l r).hash H = (Tree.branch r l).hash H := by
  simp only [Tree.hash]
  cases l.hash H <;> cases r.hash H <;> simp [branchHash_comm]

/-! ## control blocks built by the library -/

/-- leaves built from commands (no `raw` override) hash alike when TapLeaf.__eq__ says they are equal -/
theorem coherent_of_no_raw (H : Hashes) (t : Tree) (x : Leaf) (hx : x.script.raw = none)
    (ht : ∀ l ∈ t.leaves, l.script.raw = none) :
    ∀ l ∈ t.leaves, x.eqv l = true → l.hash H = x.hash H :=
  fun l hl he => Leaf.hash_congr_of_eqv H he hx (ht l hl)

/-- `control_block` answers for every leaf of a tree whose output key exists -/
theorem control_block_exists (H : Hashes) {t : Tree} {P Q : Pt} {x : Leaf} {root : Bytes}
    (hx : x ∈ t.leaves) (hr : t.hash H = some root) (hq : tweakedKey H P root = some Q) (hQ : Q ≠ .inf) :
    ∃ cb, t.controlBlock H P (some x) = some cb :=
  controlBlock_isSome H (leafIn_of_mem hx) hr hq hQ

/-- **for every tree and every leaf**: folding the control block's hashes from the leaf hash gives the
    root (`ControlBlock.merkle_root(leaf.tap_script) = tree.hash()`) -/
theorem control_block_merkle_root (H : Hashes) {t : Tree} {P : Pt} {x : Leaf} {cb : ControlBlock}
    (hcoh : ∀ l ∈ t.leaves, x.eqv l = true → l.hash H = x.hash H)
    (h : t.controlBlock H P (some x) = some cb) :
    ∃ root, t.hash H = some root ∧ cb.merkleRoot H x.script = some root := by
  obtain ⟨hin, hver, _, root, Q, hr, _, _, hpath⟩ := controlBlock_some H h
  refine ⟨root, hr, ?_⟩
  obtain ⟨y, hy, hey, c, hyc, _⟩ := opens_of_pathHashes H t x cb.hashes root hin hpath hr
  have hxc : x.hash H = some c := by rw [← hcoh y hy hey]; exact hyc
  have hfold := pathHashes_fold H t x cb.hashes c root hcoh hin hpath hxc hr
  unfold ControlBlock.merkleRoot
  rw [hver]
  show (do let cur ← Leaf.hash H x; pure (foldPath H cur cb.hashes)) = some root
  rw [hxc]; simp [hfold]

/-- … hence `ControlBlock.external_pubkey` reproduces the output key, and the parity recorded in the block
    is the parity of that key: the block is accepted for the output it was built for -/
theorem control_block_external_pubkey (H : Hashes) {t : Tree} {P : Pt} {x : Leaf} {cb : ControlBlock}
    (hcoh : ∀ l ∈ t.leaves, x.eqv l = true → l.hash H = x.hash H)
    (h : t.controlBlock H P (some x) = some cb) :
    ∃ Q, t.externalPubkey H P = some Q ∧ cb.externalPubkey H x.script = some Q ∧ parityOf Q = some cb.parity ∧
      cb.version = x.version ∧ cb.internal = P := by
  obtain ⟨root, hr, hm⟩ := control_block_merkle_root H hcoh h
  obtain ⟨_, hver, hint, root', Q, hr', hq, hpar, _⟩ := controlBlock_some H h
  rw [hr] at hr'; cases hr'
  refine ⟨Q, by simp [Tree.externalPubkey, hr, hq], ?_, hpar, hver, hint⟩
  simp [ControlBlock.externalPubkey, hm, hint, hq]

/-! ## object state: the `_leaves` memo -/

/-- **the only cache of taproot.py is transparent.**  `TapBranch.leaves()` memoises its answer on the node.  On
    an object satisfying the invariant "every stored list is the node's leaf list" — in particular on a freshly
    built tree — every call returns the leaf list of the (unchanged) tree and keeps the invariant; so every method
    that consults `leaves()` (`path_hashes`, `control_block`) answers as the memo-free model does, in any order
    and any number of times.  Nothing else is kept on a tree: `external_pubkey` and `control_block` are functions
    of their arguments (the object-reuse histories of the harness test exactly that). -/
theorem leaves_memo_transparent (t : MTree) (h : t.MemoOK) :
    t.leavesM.1 = t.erase.leaves ∧ t.leavesM.2.erase = t.erase ∧ t.leavesM.2.MemoOK :=
  MTree.leavesM_spec t h

/-- a fresh object satisfies the invariant, and any number of calls in a row return the same list -/
theorem leaves_memo_history (t : Tree) (n : Nat) :
    (MTree.fresh t).MemoOK ∧ (MTree.leavesIter n (MTree.fresh t)).1 = List.replicate n t.leaves := by
  refine ⟨MTree.memoOK_fresh t, ?_⟩
  have := (MTree.leavesIter_spec n (MTree.fresh t) (MTree.memoOK_fresh t)).1
  rwa [MTree.erase_fresh] at this

/-! ## control block codec -/

/-- **parse ∘ serialize**: an even leaf version below 256, a parity bit, at most 128 hashes of 32 bytes
    and an internal key whose x-only bytes parse: the block serialises to `33 + 32m` bytes and parses back
    to the same version, parity and hashes, with the parsed (even-y) key -/
theorem cb_roundtrip {cb : ControlBlock} {X : Pt}
    (hv : cb.version < 256) (hv2 : cb.version % 2 = 0) (hp : cb.parity < 2)
    (hh : ∀ h ∈ cb.hashes, h.length = 32) (hn : cb.hashes.length ≤ 128)
    (hk : parseXonly (xonly cb.internal) = some X) :
    ∃ b, cb.serialize = some b ∧ b.length = 33 + 32 * cb.hashes.length ∧
      ControlBlock.parse b = some { cb with internal := X } :=
  cb_parse_serialize hv hv2 hp hh hn hk

/-- for internal keys `a·G` the parsed key is the even representative, which yields the same output key;
    the round trip is then the identity as far as `ControlBlock.__eq__` and `external_pubkey` can tell -/
theorem cb_roundtrip_key (H : Hashes) {cb : ControlBlock} (a : Int) (hint : cb.internal = smul a G) (ha : smul a G ≠ .inf)
    (hv : cb.version < 256) (hv2 : cb.version % 2 = 0) (hp : cb.parity < 2)
    (hh : ∀ h ∈ cb.hashes, h.length = 32) (hn : cb.hashes.length ≤ 128) :
    ∃ b cb', cb.serialize = some b ∧ ControlBlock.parse b = some cb' ∧ cb'.serialize = some b ∧
      cb'.version = cb.version ∧ cb'.parity = cb.parity ∧ cb'.hashes = cb.hashes ∧
      ∀ s, cb'.externalPubkey H s = cb.externalPubkey H s := by
  have hk : parseXonly (xonly cb.internal) = some (evenPoint (smul a G)) := by rw [hint]; exact groupLaw.lift_x a ha
  obtain ⟨b, hs, _, hpb⟩ := cb_parse_serialize hv hv2 hp hh hn hk
  refine ⟨b, _, hs, hpb, ?_, rfl, rfl, rfl, ?_⟩
  · have hvp : cb.version + cb.parity < 256 := by omega
    rw [cbSerialize_eq hvp] at hs
    rw [cbSerialize_eq (cb := { cb with internal := evenPoint (smul a G) }) hvp, ← hs]
    show some (_ :: (xonly (evenPoint (smul a G)) ++ _)) = some (_ :: (xonly cb.internal ++ _))
    rw [groupLaw.xonly_evenPoint_smul, hint]
  · intro s
    unfold ControlBlock.externalPubkey ControlBlock.merkleRoot
    show (do let root ← (do let cur ← Leaf.hash H { script := s, version := cb.version }; pure (foldPath H cur cb.hashes))
             tweakedKey H (evenPoint (smul a G)) root) = _
    have hc : ∀ root, tweakedKey H (evenPoint (smul a G)) root = tweakedKey H cb.internal root := by
      intro root
      apply tweakedKey_congr
      · rw [hint]; exact evenPointOf_parse_relGroup groupLaw ha (groupLaw.lift_x a ha)
      · rw [hint]; exact groupLaw.xonly_evenPoint_smul a
    cases Leaf.hash H { script := s, version := cb.version } <;> simp [hc]

/-- **serialize ∘ parse**: whatever parses re-serialises to the same bytes -/
theorem cb_serialize_parse {b : Bytes} {cb : ControlBlock} (h : ControlBlock.parse b = some cb) :
    cb.serialize = some b := by
  obtain ⟨b0, key, hb, hkl, hkp, hv, hp, _, _, _⟩ := cb_parse_sound h
  have hsum : cb.version + cb.parity = b0.toNat := by
    rw [hv, hp]; exact byte_of_masks _ (UInt8.toNat_lt b0)
  rw [cbSerialize_eq (by rw [hsum]; exact UInt8.toNat_lt b0), hsum, hb, xonly_of_parseXonly hkl hkp]
  simp

/-- **lengths**: only `33 + 32m` bytes with `0 ≤ m ≤ 128` are ever accepted -/
theorem cb_parse_length {b : Bytes} (h : ¬ ∃ m, m ≤ 128 ∧ b.length = 33 + 32 * m) : ControlBlock.parse b = none := by
  cases hp : ControlBlock.parse b with
  | none => rfl
  | some cb => exact absurd (cbParse_length hp) h

/-- the fields of a parsed block are exactly the bytes: version and parity bits of the first byte, the
    x-only key, 32-byte hashes -/
theorem cb_parse_fields {b : Bytes} {cb : ControlBlock} (h : ControlBlock.parse b = some cb) :
    ∃ b0 key, b = b0 :: (key ++ cb.hashes.flatten) ∧ key.length = 32 ∧ parseXonly key = some cb.internal ∧
      cb.version = b0.toNat &&& 254 ∧ cb.parity = b0.toNat &&& 1 ∧ (∀ x ∈ cb.hashes, x.length = 32) ∧
      cb.hashes.length ≤ 128 ∧ b.length = 33 + 32 * cb.hashes.length :=
  cb_parse_sound h

/-! ## tampering: collision extraction -/

/-- **opening soundness.**  Let `Q` be the output key of internal key `P` and tree `t`.  Whatever
    (control block bytes, script) pair passes the script-path commitment test for `x(Q)` is a genuine
    opening of a leaf occurrence of `t` — the script (with the block's leaf version) hashes to that leaf's
    hash, the block's hashes are that occurrence's sibling path, its key has `P`'s x — or else the
    conclusion exhibits two different H_TapBranch preimages with equal hash, an H_TapLeaf hash equal to an
    H_TapBranch hash, or two different (x-only key, root) pairs whose tweaked keys have the same x. -/
theorem opening_sound (H : Hashes) (hL : ∀ m, (H.tapLeaf m).length = 32) (hB : ∀ m, (H.tapBranch m).length = 32)
    {t : Tree} {P Q : Pt} {root : Bytes} (hr : t.hash H = some root) (hq : tweakedKey H P root = some Q)
    {b : Bytes} {s : Script} (hacc : cbAccepts H b s (xonly Q) = true) :
    ∃ cb m, ControlBlock.parse b = some cb ∧ Leaf.preimage { script := s, version := cb.version } = some m ∧
      ((xonly cb.internal = xonly P ∧ Opens H t (H.tapLeaf m) cb.hashes) ∨
        BranchCollision H ∨ CrossCollision H ∨ TweakCollision H) :=
  cbAccepts_opens H hL hB hr hq hacc

/-- … and the opened leaf is one of the tree's leaves with the same hash preimage (version byte ‖ serialised
    script), or H_TapLeaf collides -/
theorem opening_is_leaf (H : Hashes) {t : Tree} {m : Bytes} {hs : List Bytes} (ho : Opens H t (H.tapLeaf m) hs) :
    (∃ l ∈ t.leaves, l.preimage = some m) ∨ LeafCollision H := by
  obtain ⟨l, hl, hc⟩ := ho.exists_leaf
  rw [Leaf.hash_eq] at hc
  cases hp : l.preimage with
  | none => simp [hp] at hc
  | some ml =>
    simp only [hp, Option.map_some, Option.some.injEq] at hc
    by_cases e : ml = m
    · exact Or.inl ⟨l, hl, by rw [hp, e]⟩
    · exact Or.inr ⟨ml, m, e, hc⟩

/-- **altered leaf script**: if one control block is accepted for the same output key with two scripts
    whose serialisations differ (in any byte), a collision is exhibited -/
theorem tamper_script_collision (H : Hashes) (hL : ∀ m, (H.tapLeaf m).length = 32) (hB : ∀ m, (H.tapBranch m).length = 32)
    {b : Bytes} {s s' : Script} {qx : Bytes} {cb : ControlBlock} (hp : ControlBlock.parse b = some cb)
    (h : cbAccepts H b s qx = true) (h' : cbAccepts H b s' qx = true)
    (hne : Leaf.preimage { script := s, version := cb.version } ≠ Leaf.preimage { script := s', version := cb.version }) :
    LeafCollision H ∨ BranchCollision H ∨ TweakCollision H :=
  tamper_script H hL hB hp h h' hne

/-- **altered control block**: let `b` be the serialised control block the library builds for leaf `x` of
    `t` under the internal key `P = a·G`.  If any other byte string `b' ≠ b` is accepted with `x`'s script for
    the same output key, a collision is exhibited.  (Tree hypotheses: leaves equal to `x` under
    TapLeaf.__eq__ hash like `x`; the leaves have pairwise different hash preimages; no other leaf carries
    `x`'s script bytes under another leaf version — otherwise that leaf's own control block is a second,
    legitimate, accepted block.) -/
theorem tamper_control_block_collision (H : Hashes)
    (hL : ∀ m, (H.tapLeaf m).length = 32) (hB : ∀ m, (H.tapBranch m).length = 32)
    {t : Tree} (a : Int) (ha : smul a G ≠ .inf) {x : Leaf} {cb : ControlBlock} {b b' : Bytes}
    (hcb : t.controlBlock H (smul a G) (some x) = some cb) (hser : cb.serialize = some b)
    (hcoh : ∀ l ∈ t.leaves, x.eqv l = true → l.hash H = x.hash H)
    (hnd : (t.leaves.map Leaf.preimage).Nodup)
    (huniq : ∀ l ∈ t.leaves, Script.serialize l.script = Script.serialize x.script → l.preimage = x.preimage)
    {Q : Pt} {root : Bytes} (hr : t.hash H = some root) (hq : tweakedKey H (smul a G) root = some Q)
    (hacc : cbAccepts H b' x.script (xonly Q) = true) :
    b' = b ∨ LeafCollision H ∨ BranchCollision H ∨ CrossCollision H ∨ TweakCollision H := by
  rcases tamper_control_block H hL hB hcb hser hcoh hnd huniq hr hq hacc with
    ⟨b0, b0', rest, cb', q', hb, hb', hmask, hpar, hpar', hkey, hq', hqpar'⟩ | hc
  · left
    -- the key recomputed from b' is Q itself
    have he := evenPointOf_parse_relGroup groupLaw ha hkey
    have hx : xonly cb'.internal = xonly (smul a G) := by
      rw [groupLaw.lift_x a ha] at hkey
      rw [← Option.some.inj hkey]; exact groupLaw.xonly_evenPoint_smul a
    rw [tweakedKey_congr H root he hx, hq] at hq'
    cases hq'
    -- hence the parity bits agree
    obtain ⟨_, _, _, root2, Q2, hr2, hq2, hpar2, _⟩ := controlBlock_some H hcb
    rw [hr] at hr2; cases hr2
    rw [hq] at hq2; cases hq2
    rw [hpar2] at hqpar'
    have hpp : cb'.parity = cb.parity := (Option.some.inj hqpar').symm
    have e0 : b0'.toNat = b0.toNat := by
      have h1 := byte_of_masks b0.toNat (UInt8.toNat_lt b0)
      have h2 := byte_of_masks b0'.toNat (UInt8.toNat_lt b0')
      omega
    rw [hb, hb', UInt8.toNat_inj.mp e0]
  · exact Or.inr hc

/-! ## non-vacuity -/

/-- hash functions with 32-byte outputs exist (the real ones are such) -/
example : ∃ H : Hashes, (∀ m, (H.tapLeaf m).length = 32) ∧ (∀ m, (H.tapBranch m).length = 32) :=
  ⟨⟨fun _ => List.replicate 32 0, fun _ => List.replicate 32 1, id, id, id, id, id⟩, fun _ => by simp, fun _ => by simp⟩

/-- a 33-byte string with an all-zero key parses (to the point at infinity as internal key) -/
example : ControlBlock.parse (0xC1 :: List.replicate 32 0)
    = some { version := 0xC0, parity := 1, internal := .inf, hashes := [] } := by decide

/-- 32 and 34 bytes are refused -/
example : ControlBlock.parse (List.replicate 32 0) = none ∧ ControlBlock.parse (List.replicate 34 0) = none := by
  decide

/-- a two-leaf tree over a toy hash: the tree hypotheses of the tamper theorem are satisfiable -/
example : let l1 : Leaf := { script := { cmds := [.op 81] } }
          let l2 : Leaf := { script := { cmds := [.op 82] } }
          let t := Tree.branch (.leaf l1) (.leaf l2)
          (t.leaves.map Leaf.preimage).Nodup ∧
          (∀ l ∈ t.leaves, Script.serialize l.script = Script.serialize l1.script → l.preimage = l1.preimage) := by
  decide

end Buidl.Props.C12
