/-
  C07 (tapscript dispatch table) — TAPROOT_OP_CODE_FUNCTIONS of buidl/op.py against BIP342, transcribed in
  Buidl.Spec.Tapscript.  Property theorems only (helper lemmas and the validity oracle `validOf`:
  Buidl.Proofs.InterpTap; the legacy conformance lemmas: Buidl.Proofs.Interp / Buidl.Props.C07).

  The table (Buidl.Gen.Op.taprootOpCodeFunctions, re-extracted from /repo on every run) differs from the legacy
  table in four ways, each with its theorem below:
  * OP_SUCCESSx — the `op_success` entries are exactly BIP342's list (`success_codes_are_bip342`); as coded they
    are no-ops (`op_success_is_nop`), where BIP342 lets the mere presence of one validate the script
    (`op_success_not_unconditional`: a one-sided deviation, false refusals only);
  * CHECKSIG / CHECKSIGVERIFY / CHECKSIGADD — conform to the "rules for signature opcodes" on 32-byte keys with
    an empty or a valid signature (`sigops_conform`); they deviate on an invalid non-empty signature
    (`invalid_signature_continues`: continues where the script must fail — more lenient than consensus), on
    unknown public key types and on counters longer than 4 bytes (`unknown_key_and_long_counter`);
  * CHECKMULTISIG(VERIFY) — disabled; never continue, but by raising TypeError (`checkmultisig_disabled`);
  * everything else — the same function as in the legacy table (`shared_codes`), hence `op_conforms_partial`
    carries over (`op_conforms_partial_tap`).
  Also: MINIMALIF is not enforced (`minimalif_not_enforced`); OP_CODESEPARATOR has no entry (`absent_codes`).
-/
import Buidl.Proofs.InterpTap

namespace Buidl.Props.C07Tap
open Buidl Buidl.Script Buidl.Interp Buidl.Spec

/-! ## the table -/

/-- **OP_SUCCESSx: the table's `op_success` entries are exactly BIP342's list** (80, 98, 126-129, 131-134,
    137-138, 141-142, 149-153, 187-254), over all 256 opcode numbers -/
theorem success_codes_are_bip342 (c : Nat) (hc : c < 256) :
    Tapscript.isOpSuccess c = true ↔ lookup (table true) c = some "op_success" := by
  have := tap_table_success c hc
  simp only [beq_iff_eq] at this
  rw [this]; simp

/-- every legacy opcode other than 172..175 has the same function in the tapscript table: nothing else changed -/
theorem shared_codes (c : Nat) (hc : c < 256) (h4 : c ≠ 172 ∧ c ≠ 173 ∧ c ≠ 174 ∧ c ≠ 175)
    (hl : lookup (table false) c ≠ none) : lookup (table true) c = lookup (table false) c := by
  have := tap_table_shared c hc
  obtain ⟨h1, h2, h3, h5⟩ := h4
  simp only [Bool.or_eq_true, beq_iff_eq, h1, h2, h3, h5, false_or, Option.isNone_iff_eq_none] at this
  rcases this with h | h
  · exact absurd h hl
  · exact h

/-- the changed entries: CHECKSIG / CHECKSIGVERIFY are the Schnorr versions, CHECKSIGADD (186) is new (not in
    the legacy table), CHECKMULTISIG(VERIFY) point to op_return -/
theorem changed_codes : resolve true 172 = some .checksigSchnorr ∧ resolve true 173 = some .checksigverifySchnorr ∧
    resolve true 186 = some .checksigaddSchnorr ∧ resolve true 174 = some .return_ ∧
    resolve true 175 = some .return_ ∧ resolve false 186 = none := tap_table_sig

/-- the opcode numbers without an entry (KeyError when executed): push opcodes 1..78, 101..104 (ELSE / ENDIF are
    consumed by op_if), OP_CODESEPARATOR (171 — still a valid opcode under BIP342) and 255 -/
theorem absent_codes (c : Nat) (hc : c < 256) :
    lookup (table true) c = none ↔ ((1 ≤ c ∧ c ≤ 78) ∨ (101 ≤ c ∧ c ≤ 104) ∨ c = 171 ∨ c = 255) := by
  have := tap_table_absent c hc
  simp only [beq_iff_eq] at this
  rw [← Option.isNone_iff_eq_none, this]
  simp [Bool.or_eq_true, Bool.and_eq_true, decide_eq_true_eq, or_assoc]

/-! ## unchanged opcodes -/

/-- **`op_conforms_partial` under the tapscript table**: the 73 flow-free opcodes of C07's subset, dispatched
    through TAPROOT_OP_CODE_FUNCTIONS, map every stack to what BIP342 specifies (= the legacy opcode), under the
    same side conditions as in the legacy case -/
theorem op_conforms_partial_tap (env : Env) (hlt : env.locktime ≤ 4294967295) (st : St) (htap : st.tap = true)
    (c : Nat) (fn : OpFn) (hp : (c, fn) ∈ opPairs)
    (hve : c = 178 → op_checksequenceverify Cfg.repaired env st.stack ≠ .err .valueError)
    (h : Consensus.execOp (ctxOf env) c st.stack st.alt ≠ .oversize) :
    stepSpec (stepOp Cfg.repaired env st c) = Tapscript.execOp (ctxOf env) (validOf env) c st.stack st.alt := by
  obtain ⟨_, hconv, _⟩ := table_pairs (c, fn) hp
  have hr := tap_table_pairs (c, fn) hp
  rw [← htap] at hr
  have hspec : Tapscript.execOp (ctxOf env) (validOf env) c st.stack st.alt
      = Consensus.execOp (ctxOf env) c st.stack st.alt := by
    have : ∀ p ∈ opPairs, Tapscript.isOpSuccess p.1 = false ∧ Tapscript.isDisabled p.1 = false ∧
        p.1 ≠ 172 ∧ p.1 ≠ 173 ∧ p.1 ≠ 186 := by decide
    obtain ⟨h1, h2, h3, h4, h5⟩ := this (c, fn) hp
    simp only at h1 h2 h3 h4 h5
    simp [Tapscript.execOp, h1, h2, h3, h4, h5]
  rw [hspec, stepOp_plain Cfg.repaired env st c fn hr hconv (table_pairs_plain (c, fn) hp),
    ← fn_conforms env c fn hp st.stack st.alt hlt hve h]
  cases applyStackFn Cfg.repaired env fn st.stack <;> rfl

/-! ## the signature opcodes -/

/-- **OP_CHECKSIG, OP_CHECKSIGVERIFY, OP_CHECKSIGADD conform to BIP342's rules for signature opcodes** on
    every stack whose top elements are `SigConforming`: a 32-byte public key and a signature that is empty
    (key parses) or passes the Schnorr check; for CHECKSIGADD a counter of at most 4 bytes.  Stacks that are
    too short fail on both sides.  (`validOf env` is the validity oracle of the spec: the check of the code.) -/
theorem sigops_conform (env : Env) (st : St) (htap : st.tap = true) :
    ((∀ pk sig r, st.stack = pk :: sig :: r → SigConforming env pk sig) →
      stepSpec (stepOp Cfg.repaired env st 172) = Tapscript.execOp (ctxOf env) (validOf env) 172 st.stack st.alt ∧
      stepSpec (stepOp Cfg.repaired env st 173) = Tapscript.execOp (ctxOf env) (validOf env) 173 st.stack st.alt) ∧
    ((∀ pk nb sig r, st.stack = pk :: nb :: sig :: r → nb.length ≤ 4 ∧ SigConforming env pk sig) →
      stepSpec (stepOp Cfg.repaired env st 186) = Tapscript.execOp (ctxOf env) (validOf env) 186 st.stack st.alt) := by
  obtain ⟨h172, h173, h186, _⟩ := tap_table_sig
  rw [← htap] at h172 h173 h186
  refine ⟨fun h => ⟨?_, ?_⟩, fun h => ?_⟩
  · rw [stepOp_plain Cfg.repaired env st 172 _ h172 (by decide) (by decide)]
    have e : Tapscript.execOp (ctxOf env) (validOf env) 172 st.stack st.alt
        = (Tapscript.execSigOp (validOf env) 172 st.stack).map (·, st.alt) := by
      simp [Tapscript.execOp, Tapscript.isOpSuccess, Tapscript.isDisabled]
    rw [e, ← checksig_tap_fn_conforms env st.stack st.alt h]
    simp only [applyStackFn]
    cases op_checksig_schnorr env st.stack <;> rfl
  · rw [stepOp_plain Cfg.repaired env st 173 _ h173 (by decide) (by decide)]
    have e : Tapscript.execOp (ctxOf env) (validOf env) 173 st.stack st.alt
        = (Tapscript.execSigOp (validOf env) 173 st.stack).map (·, st.alt) := by
      simp [Tapscript.execOp, Tapscript.isOpSuccess, Tapscript.isDisabled]
    rw [e, ← checksigverify_tap_fn_conforms env st.stack st.alt h]
    simp only [applyStackFn]
    cases op_checksigverify_schnorr env st.stack <;> rfl
  · rw [stepOp_plain Cfg.repaired env st 186 _ h186 (by decide) (by decide)]
    have e : Tapscript.execOp (ctxOf env) (validOf env) 186 st.stack st.alt
        = (Tapscript.execSigOp (validOf env) 186 st.stack).map (·, st.alt) := by
      simp [Tapscript.execOp, Tapscript.isOpSuccess, Tapscript.isDisabled]
    rw [e, ← checksigadd_tap_fn_conforms env st.stack st.alt h]
    simp only [applyStackFn]
    cases op_checksigadd_schnorr env st.stack <;> rfl

/-- **where they do not conform, 1: an invalid non-empty signature does not fail the script.**  BIP342:
    "Validation failure in this case immediately terminates script execution with failure."  The code pushes
    false (CHECKSIG) or the unchanged counter (CHECKSIGADD) and continues — for every 32-byte key and every
    signature that parses but does not verify.  (Authorisation is unaffected — C06's tapleaf theorems count
    valid signatures only — but `<sig> <key> CHECKSIG NOT`, or a k-of-n CHECKSIGADD witness with a wrong
    signature where an empty one belongs, is accepted here and rejected by the network.) -/
theorem invalid_signature_continues (env : Env) (pk sig nb : Bytes) (s : Stack) (h32 : pk.length = 32)
    (h4 : nb.length ≤ 4) (hbad : schnorrCheck env pk sig = .ok (some false)) :
    op_checksig_schnorr env (pk :: sig :: s) = .ok ([] :: s) ∧
    Tapscript.execSigOp (validOf env) 172 (pk :: sig :: s) = .fail ∧
    op_checksigadd_schnorr env (pk :: nb :: sig :: s) = .ok (encodeNum (decodeNum nb) :: s) ∧
    Tapscript.execSigOp (validOf env) 186 (pk :: nb :: sig :: s) = .fail := by
  have hne : sig ≠ [] := by
    intro e; subst e
    unfold schnorrCheck optErr at hbad
    cases hx : env.xonlyErr pk <;> simp [hx] at hbad
  have hout : Tapscript.sigOutcome (validOf env) pk sig = .fail := by
    simp [Tapscript.sigOutcome, h32, hne, validOf, hbad]
  have hn4 : ¬ nb.length > 4 := by omega
  refine ⟨?_, ?_, ?_, ?_⟩
  · simp [op_checksig_schnorr, hbad, Res.bind, boolNum]; rfl
  · simp [Tapscript.execSigOp, hout]
  · simp [op_checksigadd_schnorr, hbad, Res.bind]
  · simp [Tapscript.execSigOp, hout, hn4]

/-- **where they do not conform, 2: unknown public key types and oversized counters.**  A key that is neither
    empty nor 32 bytes is an "unknown public key type" under BIP342 — any non-empty signature counts as valid;
    the code calls `parse_xonly` on it, which raises (here: whenever `xonlyErr` reports an error), so the
    script is refused: stricter than consensus.  A CHECKSIGADD counter longer than 4 bytes must fail the script;
    `decode_num` has no size limit and the code continues: more lenient than consensus. -/
theorem unknown_key_and_long_counter (env : Env) (pk sig nb : Bytes) (s : Stack) :
    (pk.length ≠ 0 → pk.length ≠ 32 → sig ≠ [] → ∀ e, env.xonlyErr pk = some e →
      op_checksig_schnorr env (pk :: sig :: s) = .err e ∧
      Tapscript.execSigOp (validOf env) 172 (pk :: sig :: s) = .ok ([1] :: s)) ∧
    (4 < nb.length → SigConforming env pk sig →
      (∃ r, op_checksigadd_schnorr env (pk :: nb :: sig :: s) = .ok r) ∧
      Tapscript.execSigOp (validOf env) 186 (pk :: nb :: sig :: s) = .fail) := by
  constructor
  · intro h0 h32 hne e he
    refine ⟨by simp [op_checksig_schnorr, schnorrCheck, optErr, he, Res.bind], ?_⟩
    simp [Tapscript.execSigOp, Tapscript.sigOutcome, h0, h32, hne]
  · intro h4 hc
    refine ⟨?_, by simp [Tapscript.execSigOp, h4]⟩
    rcases sigOutcome_conforming hc with ⟨_, h1, _⟩ | ⟨h1, _⟩ <;>
      simp [op_checksigadd_schnorr, h1, Res.bind]

/-! ## the disabled opcodes -/

/-- **OP_CHECKMULTISIG / OP_CHECKMULTISIGVERIFY in a tapscript never continue** — as BIP342 demands ("behave in
    the same way as OP_RETURN") — but not by returning False: the table maps them to `op_return(stack)`, which
    `Script.evaluate` calls with three arguments like every opcode in (172..175, 177, 178, 186): TypeError on
    every stack (note N07g) -/
theorem checkmultisig_disabled (cfg : Cfg) (env : Env) (st : St) (htap : st.tap = true) :
    stepOp cfg env st 174 = .error (.err .typeError) ∧ stepOp cfg env st 175 = .error (.err .typeError) ∧
    stepSpec (stepOp cfg env st 174) = Tapscript.execOp (ctxOf env) (validOf env) 174 st.stack st.alt ∧
    stepSpec (stepOp cfg env st 175) = Tapscript.execOp (ctxOf env) (validOf env) 175 st.stack st.alt := by
  have h174 : lookup (table true) 174 = some "op_return" := by decide +kernel
  have h175 : lookup (table true) 175 = some "op_return" := by decide +kernel
  have e174 : stepOp cfg env st 174 = .error (.err .typeError) := by
    unfold stepOp; rw [htap, h174]; rfl
  have e175 : stepOp cfg env st 175 = .error (.err .typeError) := by
    unfold stepOp; rw [htap, h175]; rfl
  refine ⟨e174, e175, ?_, ?_⟩
  · rw [e174]; rfl
  · rw [e175]; rfl

/-! ## OP_SUCCESSx as coded -/

/-- **as coded, every OP_SUCCESSx is a no-op**: `op_success(stack)` returns True and the loop goes on with the
    next command, stack and alt-stack untouched -/
theorem op_success_is_nop (cfg : Cfg) (env : Env) (st : St) (htap : st.tap = true) (c : Nat)
    (hs : Tapscript.isOpSuccess c = true) : stepOp cfg env st c = .ok st := by
  have hc : c < 256 := by
    simp only [Tapscript.isOpSuccess, Bool.or_eq_true, Bool.and_eq_true, beq_iff_eq, decide_eq_true_eq] at hs
    omega
  have hr : resolve st.tap c = some .success := by
    have := tap_resolve_success c hc
    rw [htap]
    simpa [hs] using this
  have hconv : OpFn.success.conv = convOf c := by
    have : ∀ c, c < 256 → (!Tapscript.isOpSuccess c || decide (OpFn.success.conv = convOf c)) = true := by
      decide +kernel
    simpa [hs] using this c hc
  rw [stepOp_plain cfg env st c .success hr hconv (by decide)]
  rfl

/-- **BIP342 says more: validation succeeds as soon as such an opcode is *present*.**  The code is stricter:
    it goes on executing, so `OP_SUCCESS80 OP_0` — valid under BIP342 — is refused, and an OP_SUCCESSx in an
    unexecuted branch has no effect at all (it is skipped with the branch).  Since the spec accepts every script
    with an OP_SUCCESSx, the deviation is one-sided: a false refusal, never a false acceptance. -/
theorem op_success_not_unconditional (env : Env) :
    Tapscript.hasOpSuccess [.op 80, .op 0] = true ∧
    run Cfg.repaired env 5 ⟨[.op 80, .op 0], [], [], none, true⟩ = .reject ∧
    Tapscript.hasOpSuccess [.op 0, .op 99, .op 80, .op 104, .op 0] = true ∧
    run Cfg.repaired env 9 ⟨[.op 0, .op 99, .op 80, .op 104, .op 0], [], [], none, true⟩ = .reject := by
  refine ⟨by decide, ?_, by decide, ?_⟩ <;> rfl

/-! ## MINIMALIF -/

/-- **MINIMALIF is not enforced**: BIP342 makes it a consensus rule of tapscript that the argument of OP_IF /
    OP_NOTIF is exactly the empty vector or `[1]`; op_if takes any element whose `decode_num` is non-zero as true
    (more lenient than consensus; the scripts the library itself builds have no conditionals) -/
theorem minimalif_not_enforced (env : Env) :
    Tapscript.minimalIfArg [2] = false ∧
    run Cfg.repaired env 9 ⟨[.push [2], .op 99, .op 81, .op 104], [], [], none, true⟩ = .accept := by
  refine ⟨by decide, ?_⟩
  rfl

end Buidl.Props.C07Tap
