/-
  C07 (extension) — buidl/timelock.py as a whole (anchors timelock.py:14 Locktime, :55 Sequence).

  `Props/C07.lean` proves that OP_CHECKLOCKTIMEVERIFY / OP_CHECKSEQUENCEVERIFY equal consensus'
  CheckLockTime / CheckSequence; those theorems go through `Locktime()/Sequence()` construction,
  `is_comparable` and `__lt__`.  This file covers the rest of the two classes — the wire codec,
  the accessors and the named constructors that the tree constructors of C13 and the signing
  helpers use to *build* the values the interpreter later compares — and states, for every 32-bit
  value, that the object-level comparison means what BIP68 / BIP65 say it means.

  Only theorems and non-vacuity examples; helper lemmas are in Proofs/Timelock.lean.
-/
import Buidl.Proofs.Timelock
namespace Buidl.Props.C07Timelock
open Buidl Buidl.Timelock

/-! ## the operators and literals read from the source are the ones the proofs are about -/

/-- every comparison operator, threshold, divisor, shift and width of timelock.py that the model
    takes from `Buidl.Gen` has the value BIP65 / BIP68 / the wire format prescribe.  A point edit
    of any of them regenerates `Gen/Timelock.lean` and this theorem stops checking. -/
theorem timelock_source_constants :
    Gen.locktimeNewCmps = [("Lt", 0), ("Gt", 4294967295)] ∧
    Gen.sequenceNewCmps = [("Lt", 0), ("Gt", 4294967295)] ∧
    Gen.blockHeightCmps = [("Lt", 500000000)] ∧ Gen.mtpCmps = [("GtE", 500000000)] ∧
    Gen.locktimeComparableCmps =
      [("Lt", Gen.blockLimit), ("Lt", Gen.blockLimit), ("GtE", Gen.blockLimit), ("GtE", Gen.blockLimit)] ∧
    Gen.rbfCmps = [("Lt", 4294967295)] ∧ Gen.isMaxCmps = [("Eq", 4294967295)] ∧
    Gen.isRelativeCmps = [("Eq", 0)] ∧
    Gen.seqTimeDiv = 2 ^ Gen.seqTimeShift ∧ Gen.seqTimeShift = 9 ∧
    Gen.locktimeParseWidth = 4 ∧ Gen.sequenceParseWidth = 4 ∧
    Gen.locktimeSerializeWidth = 4 ∧ Gen.sequenceSerializeWidth = 4 := by
  decide

/-! ## constructors -/

/-- `Locktime(n)` succeeds exactly for 0 ≤ n ≤ 2^32 - 1 and then is `n` -/
theorem locktimeNew_iff (n : Int) (v : Nat) :
    locktimeNew n = some v ↔ 0 ≤ n ∧ n ≤ 4294967295 ∧ n = v := locktimeNew_iff' n v

/-- `Sequence(n)` succeeds exactly for 0 ≤ n ≤ 2^32 - 1 and then is `n` -/
theorem sequenceNew_iff (n : Int) (v : Nat) :
    sequenceNew n = some v ↔ 0 ≤ n ∧ n ≤ 4294967295 ∧ n = v := sequenceNew_iff' n v

/-! ## wire codec: exact inverses on every 32-bit value and on every stream -/

/-- serialising any constructed Locktime gives 4 bytes that parse back to it, leaving the rest of
    the stream untouched -/
theorem locktime_parse_serialize (n : Nat) (h : n ≤ 4294967295) (rest : Bytes) :
    ∃ b, locktimeSerialize n = some b ∧ b.length = 4 ∧ locktimeParse (b ++ rest) = some (n, rest) :=
  locktime_parse_serialize' n h rest

/-- parsing consumes exactly 4 bytes of any stream that has them, never refuses, and
    re-serialising the result reproduces those bytes -/
theorem locktime_serialize_parse (s : Bytes) (h : 4 ≤ s.length) :
    ∃ v, locktimeParse s = some (v, s.drop 4) ∧ v ≤ 4294967295 ∧ locktimeSerialize v = some (s.take 4) :=
  locktime_serialize_parse' s h

theorem sequence_parse_serialize (n : Nat) (h : n ≤ 4294967295) (rest : Bytes) :
    ∃ b, sequenceSerialize n = some b ∧ b.length = 4 ∧ sequenceParse (b ++ rest) = some (n, rest) :=
  sequence_parse_serialize' n h rest

theorem sequence_serialize_parse (s : Bytes) (h : 4 ≤ s.length) :
    ∃ v, sequenceParse s = some (v, s.drop 4) ∧ v ≤ 4294967295 ∧ sequenceSerialize v = some (s.take 4) :=
  sequence_serialize_parse' s h

/-! ## Locktime: height / time classification and comparison (BIP65) -/

/-- every locktime is a block height or a median-time-past, never both, never neither; the
    accessor returns the value itself; the threshold is consensus' LOCKTIME_THRESHOLD -/
theorem locktime_height_xor_mtp (n : Nat) :
    (blockHeight n = some n ∧ mtp n = none ∧ n < 500000000) ∨
    (blockHeight n = none ∧ mtp n = some n ∧ 500000000 ≤ n) := locktime_height_xor_mtp' n

/-- two locktimes are comparable exactly when they are of the same kind -/
theorem locktime_comparable_iff (a b : Nat) :
    locktimeComparable a b = true ↔ ((blockHeight a).isSome ↔ (blockHeight b).isSome) :=
  locktime_comparable_iff' a b

/-- comparability is an equivalence relation, so "comparable" partitions the locktimes -/
theorem locktime_comparable_equiv :
    (∀ a, locktimeComparable a a = true) ∧
    (∀ a b, locktimeComparable a b = true → locktimeComparable b a = true) ∧
    (∀ a b c, locktimeComparable a b = true → locktimeComparable b c = true → locktimeComparable a c = true) :=
  locktime_comparable_equiv'

/-- `a < b` on Locktime objects raises exactly for a height against a time and otherwise is the
    comparison of the values, hence of the heights / times they denote -/
theorem locktime_lt_spec (a b : Nat) :
    (locktimeLt a b = none ↔ locktimeComparable a b = false) ∧
    (∀ r, locktimeLt a b = some r → (r = true ↔ a < b)) := locktime_lt_spec' a b

/-! ## Sequence: BIP68 decoding -/

/-- every 32-bit sequence is exactly one of: relative lock disabled (bit 31), a block count, a
    time span; `relative_blocks` / `relative_time` are defined in exactly the matching case and
    decode the low 16 bits as BIP68 prescribes (blocks; units of 512 seconds) -/
theorem sequence_kinds (x : Nat) :
    (isRelative x = false ∧ relativeBlocks x = none ∧ relativeTime x = none ∧ x / 2147483648 % 2 = 1) ∨
    (isRelativeBlock x = true ∧ isRelativeTime x = false ∧ relativeBlocks x = some (x % 65536) ∧
      relativeTime x = none ∧ x / 2147483648 % 2 = 0 ∧ x / 4194304 % 2 = 0) ∨
    (isRelativeTime x = true ∧ isRelativeBlock x = false ∧ relativeBlocks x = none ∧
      relativeTime x = some (512 * (x % 65536)) ∧ x / 2147483648 % 2 = 0 ∧ x / 4194304 % 2 = 1) :=
  sequence_kinds' x

/-- `Sequence.from_relative_blocks(n)` for every BIP68 block count (n < 2^16) is a sequence whose
    `relative_blocks()` is `n`, is not a time lock, is replaceable and not final -/
theorem from_relative_blocks_roundtrip (n : Nat) (h : n < 65536) :
    ∃ v, fromRelativeBlocks n = some v ∧ relativeBlocks v = some n ∧ relativeTime v = none ∧
      isRbfAble v = true ∧ isMax v = false := from_relative_blocks_roundtrip' n h

/-- `Sequence.from_relative_time(s)` for every BIP68 time span (0 ≤ s < 2^25 seconds) is a
    sequence whose `relative_time()` is `s` rounded down to the 512-second granularity -/
theorem from_relative_time_roundtrip (s : Nat) (h : s < 33554432) :
    ∃ v, fromRelativeTime s = some v ∧ relativeTime v = some (512 * (s / 512)) ∧ relativeBlocks v = none ∧
      512 * (s / 512) ≤ s ∧ s < 512 * (s / 512) + 512 ∧ isRbfAble v = true := from_relative_time_roundtrip' s h

/-- negative arguments are refused by both named constructors (Python's `flag | negative` is
    negative) -/
theorem from_relative_negative (n : Int) (h : n < 0) :
    fromRelativeBlocks n = none ∧ fromRelativeTime n = none := from_relative_negative' n h

/-- O07g (observation, outside the statement): the named constructors do not range-check
    their argument against BIP68's 16 bits, so 65536 blocks silently become a zero-block lock
    and 2^25 seconds a zero-second lock. -/
theorem O07g_witness :
    (∃ v, fromRelativeBlocks 65536 = some v ∧ relativeBlocks v = some 0) ∧
    (∃ v, fromRelativeTime 33554432 = some v ∧ relativeTime v = some 0) := by
  decide

/-- `is_rbf_able` is the negation of `is_max` on every constructed sequence, and `is_max` is
    `0xffffffff` -/
theorem rbf_iff_not_max (x : Nat) (h : x ≤ 4294967295) :
    isRbfAble x = !isMax x ∧ (isMax x = true ↔ x = 4294967295) := rbf_iff_not_max' x h

/-- comparability of sequences is "same kind of relative lock" (a partial equivalence: a
    sequence with the disable flag is comparable to nothing, not even itself) -/
theorem sequence_comparable_iff (a b : Nat) :
    sequenceComparable a b = true ↔
      ((relativeBlocks a).isSome ∧ (relativeBlocks b).isSome) ∨ ((relativeTime a).isSome ∧ (relativeTime b).isSome) :=
  sequence_comparable_iff' a b

theorem sequence_comparable_per :
    (∀ a b, sequenceComparable a b = true → sequenceComparable b a = true) ∧
    (∀ a b c, sequenceComparable a b = true → sequenceComparable b c = true → sequenceComparable a c = true) ∧
    (∀ a, sequenceComparable a a = isRelative a) := sequence_comparable_per'

/-- `a < b` on Sequence objects raises exactly when the kinds differ (or a disable flag is set)
    and otherwise compares what the two sequences *mean*: block counts with block counts,
    seconds with seconds — the unmasked upper bits never influence the answer -/
theorem sequence_lt_spec (a b : Nat) :
    (sequenceLt a b = none ↔ sequenceComparable a b = false) ∧
    (∀ r na nb, sequenceLt a b = some r → relativeBlocks a = some na → relativeBlocks b = some nb →
        (r = true ↔ na < nb)) ∧
    (∀ r ta tb, sequenceLt a b = some r → relativeTime a = some ta → relativeTime b = some tb →
        (r = true ↔ ta < tb)) := sequence_lt_spec' a b

/-! ## non-vacuity -/

example : locktimeNew 499999999 = some 499999999 ∧ blockHeight 499999999 = some 499999999 := by decide
example : locktimeLt 499999999 500000000 = none ∧ locktimeLt 1 2 = some true := by decide
example : fromRelativeTime 1024 = some 4194306 ∧ relativeTime 4194306 = some 1024 := by decide
example : sequenceLt 4194306 5 = none ∧ sequenceLt 4194306 4194307 = some true ∧
    sequenceLt (65536 + 7) 9 = some true := by decide
example : locktimeParse [1, 0, 0, 0, 9] = some (1, [9]) := by decide

end Buidl.Props.C07Timelock
