/-
  C13 (composition) — "in every generated k-of-n tree each k-subset owns exactly one leaf, and a spend of that
  leaf signed by that subset verifies."  Property theorems only; definitions and helper lemmas are in
  Buidl.Proofs.ComposeTap.

  Three models meet here: the k-of-n trees of TapRootMultiSig (Buidl.Model.MuSig, C13), the control blocks and
  the output key of the taproot builder (Buidl.Model.Taproot, C12) and the script interpreter with
  Tx.verify_input (Buidl.Model.Interp, C06/C07).  The interpreter's two taproot oracles (`cbErr`: does
  ControlBlock.parse raise; `tapCommit`: control_block.external_pubkey(tap_script) as x-only key and parity
  match) are instantiated with the taproot model — `TapOracles H env`; `tapEnv H base` and
  `realEnv (tapEnv H base) zOf msgOf c` (Buidl.Proofs.Compose: real signature oracles as well) satisfy it —
  and `tapCommitReal_iff_cbAccepts` identifies the instantiated oracle with the builder's commitment test.

  Glue hypotheses, stated in every theorem: no timelock prefix (`lock = seq = none`); the tagged hashes are
  32 bytes long; the internal key is `a·G ≠ ∞`; the control block is the one `control_block` returns for the leaf
  and has at most 128 sibling hashes (BIP341's depth limit = the length limit of ControlBlock.parse;
  `control_block_depth_bound` derives it from C(n, k) ≤ 2^128); the x-only keys of the points are pairwise different.
  `Cfg.repaired` is the code after the C06/C07 patches (= /repo today).
-/
import Buidl.Proofs.ComposeTap

namespace Buidl.Props.C13Compose
open Buidl Buidl.EC Buidl.Script Buidl.MuSig Buidl.Interp Buidl.Compose Buidl.ComposeTap
open Buidl.Taproot (Hashes Leaf Tree ControlBlock cbAccepts)

/-! ## every k-subset owns exactly one leaf of the multi-leaf tree -/

/-- **each k-subset owns exactly one leaf.**  `T.points` with pairwise different x-only keys, `S` any
    duplicate-free `k`-element sub-list of it, in any order: `MultiSigTapScript(S, k)` exists, the leaf
    carrying its commands is a leaf of `multi_leaf_tree`, it occurs there exactly once, and the
    combinations that produce this script are the rearrangements of `S` (one of them, by
    `C13.combinations_bijection`).  All leaves of the tree are built from commands (no `raw` override). -/
theorem subset_owns_one_leaf {T : TapRootMultiSig} {lock seq : Option Nat} {t : Tree}
    (ht : multiLeafTree T lock seq = some t) (hnd : (T.points.map xonly).Nodup)
    {S : List Pt} (hS : S.Nodup) (hsub : ∀ p ∈ S, p ∈ T.points) (hlen : S.length = T.k) :
    ∃ c, multiSigCmds S T.k lock seq = some c ∧ ({ script := { cmds := c } } : Leaf) ∈ t.leaves ∧
      t.leaves.count { script := { cmds := c } } = 1 ∧
      (∀ S' ∈ combinations T.points T.k, multiSigCmds S' T.k lock seq = some c → S'.Perm S) ∧
      ∀ l ∈ t.leaves, l.script.raw = none := by
  obtain ⟨cs, hfa, hleaves, _⟩ := Props.C13.multi_leaf_tree_leaves ht
  have hpn : T.points.Nodup := List.Nodup.of_map _ hnd
  obtain ⟨c0, hc0, hperm, _⟩ := Props.C13.combinations_bijection hpn hS hsub hlen
  obtain ⟨c, hc, hR⟩ := forall₂_mem_left hfa hc0
  have hRS : multiSigCmds S T.k lock seq = some c := by
    rw [← Props.C13.multisig_script_perm hperm]; exact hR
  have hinj : ∀ a ∈ combinations T.points T.k, ∀ a' ∈ combinations T.points T.k, ∀ b,
      multiSigCmds a T.k lock seq = some b → multiSigCmds a' T.k lock seq = some b → a = a' :=
    fun a ha a' ha' b h h' => Props.C13.multisig_leaf_injective hnd ha ha' h h'
  have hcsnd : cs.Nodup := forall₂_nodup hfa hinj (Props.C13.combinations_no_repeat _ _ hpn)
  have hmkinj : Function.Injective (fun c : List Cmd => ({ script := { cmds := c } } : Leaf)) := by
    intro a b h; simpa using h
  have hmem : ({ script := { cmds := c } } : Leaf) ∈ t.leaves := by
    rw [hleaves]; exact List.mem_map.mpr ⟨c, hc, rfl⟩
  refine ⟨c, hRS, hmem, ?_, ?_, ?_⟩
  · exact List.count_eq_one_of_mem (by rw [hleaves]; exact hcsnd.map hmkinj) hmem
  · intro S' hS' h'
    have := hinj S' hS' c0 hc0 c h' hR
    rw [this]; exact hperm
  · intro l hl
    rw [hleaves] at hl
    obtain ⟨c', _, rfl⟩ := List.mem_map.mp hl
    rfl

/-- **the leaf's script is the k-of-k MultiSigTapScript of `S`**: over the sorted x-only keys `x0 :: rest` of
    `S` it is `<x0> CHECKSIG` for a lone key and `<x0> CHECKSIG <x1> CHECKSIGADD … <k> EQUAL` otherwise; the
    keys are 32 bytes long, there are `k` of them, and the script asks for `k` valid signatures -/
theorem subset_leaf_script {S : List Pt} {k : Nat} {c : List Cmd} (h : multiSigCmds S k none none = some c)
    (hlen : S.length = k) :
    ∃ x0 rest, sortBytes (S.map xonly) = x0 :: rest ∧ (x0 :: rest).length = k ∧
      (∀ x ∈ x0 :: rest, x.length = 32) ∧ (rest ≠ [] → 1 ≤ k ∧ k ≤ 16) ∧
      c = leafScript x0 rest k ∧ leafThreshold rest k = (x0 :: rest).length := by
  have hk : 1 ≤ k := by
    cases S with
    | nil => simp [multiSigCmds, Taproot.timelockCmds, sortBytes] at h
    | cons p ps => simp at hlen; omega
  obtain ⟨x0, rest, hs, hl, h32, hk16, hc⟩ := multiSigCmds_shape h hk
  refine ⟨x0, rest, hs, by simp; omega, h32, fun hr => ⟨hk, hk16 hr⟩, hc, ?_⟩
  unfold leafThreshold
  split
  · rename_i hr; subst hr; simp
  · simp; omega


/-! ## spending the leaf of a k-subset -/

/-- **a spend of the subset's leaf signed by that subset verifies — and only then.**  Setting of
    `subset_owns_one_leaf` (no timelock), internal key `a·G ≠ ∞`, 32-byte tagged hashes, an environment with
    the real taproot oracles.  For the leaf of `S` (script `c`, sorted x-only keys `x0 :: rest`) and the control
    block `cb` that `multi_leaf_tree.control_block(a·G, leaf)` returns (depth ≤ 128): the output key `Q`,
    the script bytes `rawTap` and the block bytes exist; the taproot builder's commitment test accepts them
    for `xonly Q` (that is what the `tapCommit` oracle of the interpreter is instantiated with); and for the
    output `OP_1 <xonly Q>`

    * the witness `[sig of the last key, …, sig of x0, script, control block]` — every key of `S` signed, the
      signatures in reverse script order — makes `verifyInput` accept;
    * conversely every accepted input whose witness ends in this script and block has an empty scriptSig and, on
      top of the remaining items, one valid signature for each of the `k` keys of `S`. -/
theorem subset_spend (H : Hashes) (hL : ∀ m, (H.tapLeaf m).length = 32) (hB : ∀ m, (H.tapBranch m).length = 32)
    (env : Env) (horacle : TapOracles H env) {T : TapRootMultiSig} {t : Tree}
    (ht : multiLeafTree T none none = some t) (hnd : (T.points.map xonly).Nodup)
    {S : List Pt} (hS : S.Nodup) (hsub : ∀ p ∈ S, p ∈ T.points) (hlen : S.length = T.k)
    (a : Int) (ha : smul a G ≠ .inf) :
    ∃ c x0 rest, multiSigCmds S T.k none none = some c ∧ ({ script := { cmds := c } } : Leaf) ∈ t.leaves ∧
      sortBytes (S.map xonly) = x0 :: rest ∧ c = leafScript x0 rest T.k ∧
      ∀ cb, t.controlBlock H (smul a G) (some { script := { cmds := c } }) = some cb → cb.hashes.length ≤ 128 →
        ∃ Q rawTap cbBytes, t.externalPubkey H (smul a G) = some Q ∧ serCmds c = some rawTap ∧
          cb.serialize = some cbBytes ∧
          cbAccepts H cbBytes { cmds := c, raw := some rawTap } (xonly Q) = true ∧
          (∀ sigs fuel, AllSigned env (x0 :: rest) sigs → 3 * T.k + 4 ≤ fuel →
            verifyInput Cfg.repaired env [] (p2trSpk (xonly Q)) (sigs.reverse ++ [rawTap, cbBytes]) fuel = .accept) ∧
          (∀ ss w fuel, verifyInput Cfg.repaired env ss (p2trSpk (xonly Q)) (w ++ [rawTap, cbBytes]) fuel = .accept →
            ss = [] ∧ ∃ sigs r, w.reverse = sigs ++ r ∧ AllSigned env (x0 :: rest) sigs) := by
  obtain ⟨c, hc, hmem, _, _, hraw⟩ := subset_owns_one_leaf ht hnd hS hsub hlen
  obtain ⟨x0, rest, hsort, hkl, h32, hk, hcs, hthr⟩ := subset_leaf_script hc hlen
  refine ⟨c, x0, rest, hc, hmem, hsort, hcs, ?_⟩
  intro cb hcb hdepth
  subst hcs
  have hn : rest.length ≤ 2 ^ 32 := by
    by_cases hr : rest = []
    · subst hr; simp
    · have := (hk hr).2; simp at hkl; omega
  obtain ⟨Q, rawTap, cbBytes, hQ, hser, hcbs, hacc, hcomp, hsound⟩ :=
    tree_leaf_spend H hL hB env horacle hraw a ha x0 rest T.k h32 hk hn hcb hdepth
  refine ⟨Q, rawTap, cbBytes, hQ, hser, hcbs, hacc, ?_, ?_⟩
  · intro sigs fuel hall hf
    have hsl := allSigned_length hall
    exact hcomp sigs fuel (allSigned_checksOK hall) (by rw [allSigned_count hall, hthr])
      (by simp only [List.length_cons] at hkl hsl; omega)
  · intro ss w fuel hacc'
    obtain ⟨hss, sigs, r, hrev, hsl, hcnt⟩ := hsound ss w fuel hacc'
    exact ⟨hss, sigs, r, hrev, allSigned_of_count (by simpa using hsl) (by rw [hcnt, hthr])⟩

/-! ## the MuSig tree: one aggregate-key leaf per k-subset -/

/-- **each k-subset owns a leaf of `musig_tree`**: the MuSigTapScript of `S` exists, its script is the
    single-key leaf `<xonly aggregate key> CHECKSIG`, and that leaf is in the tree; every leaf of the tree is
    built from commands -/
theorem musig_subset_owns_leaf {H : Hashes} {T : TapRootMultiSig} {t : Tree}
    (ht : musigTree H T none none = some t) (hnd : T.points.Nodup)
    {S : List Pt} (hS : S.Nodup) (hsub : ∀ p ∈ S, p ∈ T.points) (hlen : S.length = T.k) :
    ∃ M, musigNew H S none none = some M ∧ M.cmds = leafScript (xonly M.point) [] 0 ∧
      ({ script := { cmds := M.cmds } } : Leaf) ∈ t.leaves ∧ ∀ l ∈ t.leaves, l.script.raw = none := by
  obtain ⟨Ms, hfa, hleaves, _⟩ := Props.C13.musig_tree_leaves ht
  obtain ⟨c0, hc0, hperm, _⟩ := Props.C13.combinations_bijection hnd hS hsub hlen
  obtain ⟨M, hM, hR⟩ := forall₂_mem_left hfa hc0
  have hRS : musigNew H S none none = some M := by
    rw [← Props.C13.aggregate_key_perm H hperm]; exact hR
  refine ⟨M, hRS, musigNew_shape hRS, ?_, ?_⟩
  · rw [hleaves]; exact List.mem_map.mpr ⟨M, hM, rfl⟩
  · intro l hl
    rw [hleaves] at hl
    obtain ⟨M', _, rfl⟩ := List.mem_map.mp hl
    rfl

/-- **a spend of the subset's MuSig leaf verifies exactly with a valid signature for the aggregate key.**
    As `subset_spend`, for `musig_tree`: the witness `[sig, script, control block]` is accepted when `sig`
    passes the Schnorr check for the x-only aggregate key of `S`; an accepted input whose witness ends in this
    script and block has such a signature on top of the remaining items. -/
theorem musig_subset_spend (H : Hashes) (hL : ∀ m, (H.tapLeaf m).length = 32) (hB : ∀ m, (H.tapBranch m).length = 32)
    (env : Env) (horacle : TapOracles H env) {T : TapRootMultiSig} {t : Tree}
    (ht : musigTree H T none none = some t) (hnd : T.points.Nodup)
    {S : List Pt} (hS : S.Nodup) (hsub : ∀ p ∈ S, p ∈ T.points) (hlen : S.length = T.k)
    (a : Int) (ha : smul a G ≠ .inf) :
    ∃ M, musigNew H S none none = some M ∧ ({ script := { cmds := M.cmds } } : Leaf) ∈ t.leaves ∧
      M.cmds = [.push (xonly M.point), .op 0xAC] ∧
      ∀ cb, t.controlBlock H (smul a G) (some { script := { cmds := M.cmds } }) = some cb → cb.hashes.length ≤ 128 →
        ∃ Q rawTap cbBytes, t.externalPubkey H (smul a G) = some Q ∧ serCmds M.cmds = some rawTap ∧
          cb.serialize = some cbBytes ∧
          cbAccepts H cbBytes { cmds := M.cmds, raw := some rawTap } (xonly Q) = true ∧
          (∀ sig fuel, schnorrCheck env (xonly M.point) sig = .ok (some true) → 7 ≤ fuel →
            verifyInput Cfg.repaired env [] (p2trSpk (xonly Q)) ([sig] ++ [rawTap, cbBytes]) fuel = .accept) ∧
          (∀ ss w fuel, verifyInput Cfg.repaired env ss (p2trSpk (xonly Q)) (w ++ [rawTap, cbBytes]) fuel = .accept →
            ss = [] ∧ ∃ sig r, w.reverse = sig :: r ∧ schnorrCheck env (xonly M.point) sig = .ok (some true)) := by
  obtain ⟨M, hM, hshape, hmem, hraw⟩ := musig_subset_owns_leaf ht hnd hS hsub hlen
  refine ⟨M, hM, hmem, by rw [hshape]; rfl, ?_⟩
  intro cb hcb hdepth
  rw [hshape] at hcb ⊢
  obtain ⟨Q, rawTap, cbBytes, hQ, hser, hcbs, hacc, hcomp, hsound⟩ :=
    tree_leaf_spend H hL hB env horacle hraw a ha (xonly M.point) [] 0
      (by intro x hx; simp at hx; subst hx; exact Taproot.xonly_length' _) (fun h => absurd rfl h) (by simp) hcb hdepth
  refine ⟨Q, rawTap, cbBytes, hQ, hser, hcbs, hacc, ?_, ?_⟩
  · intro sig fuel hsig hf
    have := hcomp [sig] fuel ⟨⟨_, hsig⟩, trivial⟩ (by simp [countValid, sigCount, hsig, leafThreshold])
      (by simp; omega)
    simpa using this
  · intro ss w fuel hacc'
    obtain ⟨hss, sigs, r, hrev, hsl, hcnt⟩ := hsound ss w fuel hacc'
    refine ⟨hss, ?_⟩
    match sigs, hsl with
    | [s], _ =>
      refine ⟨s, r, by simpa using hrev, ?_⟩
      have hc : sigCount env (xonly M.point) s = 1 := by simpa [countValid, leafThreshold] using hcnt
      unfold sigCount at hc
      split at hc
      · assumption
      · omega


/-- **end to end for the MuSig tree: a session of the subset's participants spends the subset's leaf.**
    Real oracles throughout (`realEnv (tapEnv H base) …`, tagged hashes over `base.sha256` with 32-byte
    digests, tag cache `c` valid).  Participants `(d, k₁, k₂)` whose keys `d·G` are a `k`-subset of the points
    of the tree run a session on the digest of hash type 0 (`msgOf 0`), signing for the leaf (no merkle root):
    by `C13.get_signature_bip340` the aggregated signature exists, serialises to 64 bytes and is a BIP340
    signature for the x-only aggregate key — and the witness `[signature, script, control block]` makes
    `verifyInput` accept the output of the tree. -/
theorem musig_session_spend (base : Env) (hsha : ∀ m, (base.sha256 m).length = 32)
    (zOf : Nat → Option Nat) (msgOf : Nat → Option Bytes) (c : Schnorr.Cache)
    (hc : Schnorr.CacheOK base.sha256 c) {T : TapRootMultiSig} {t : Tree}
    (ht : musigTree (Hashes.ofSha256 base.sha256) T none none = some t) (hnd : T.points.Nodup)
    (parts : List (ℕ × ℕ × ℕ)) (hd : ∀ p ∈ parts, 1 ≤ p.1 ∧ p.1 < N) (hne : parts ≠ [])
    (hS : (parts.map (fun p => g (p.1 : ℤ))).Nodup)
    (hsub : ∀ p ∈ parts.map (fun p => g (p.1 : ℤ)), p ∈ T.points) (hlen : parts.length = T.k)
    (sigHash : Bytes) (hmsg : msgOf 0 = some sigHash)
    {sums : Pt × Pt} (hs : nonceSums (parts.map (fun p => (generateNonces p.2.1 p.2.2).2)) = some sums)
    (a : Int) (ha : smul a G ≠ .inf) :
    ∃ M, musigNew (Hashes.ofSha256 base.sha256) (parts.map (fun p => g (p.1 : ℤ))) none none = some M ∧
      ({ script := { cmds := M.cmds } } : Leaf) ∈ t.leaves ∧
      ∀ R, computeR (Hashes.ofSha256 base.sha256) M sums sigHash = some R →
      ∀ ss, List.Forall₂ (fun (p : ℕ × ℕ × ℕ) (s : ℕ) =>
          ∃ k, computeK (Hashes.ofSha256 base.sha256) M (p.2.1, p.2.2) sums sigHash = some k ∧
            sign (Hashes.ofSha256 base.sha256) M p.1 k R sigHash [] = some s) parts ss →
      ∃ sig b, getSignature (Hashes.ofSha256 base.sha256) M (ss.map (fun (s : ℕ) => (s : ℤ))).sum R sigHash []
          = some sig ∧ sigSerialize sig = some b ∧
        Spec.BIP340.verify base.sha256 (xonly M.point) sigHash b = true ∧
        ∀ cb, t.controlBlock (Hashes.ofSha256 base.sha256) (smul a G) (some { script := { cmds := M.cmds } }) = some cb →
          cb.hashes.length ≤ 128 →
          ∃ Q rawTap cbBytes, t.externalPubkey (Hashes.ofSha256 base.sha256) (smul a G) = some Q ∧
            serCmds M.cmds = some rawTap ∧ cb.serialize = some cbBytes ∧
            ∀ fuel, 7 ≤ fuel →
              verifyInput Cfg.repaired (realEnv (tapEnv (Hashes.ofSha256 base.sha256) base) zOf msgOf c) []
                (p2trSpk (xonly Q)) ([b] ++ [rawTap, cbBytes]) fuel = .accept := by
  obtain ⟨hL, hB⟩ := ofSha256_lengths base.sha256 hsha
  obtain ⟨M, hM, hmem, _, hspend⟩ := musig_subset_spend (Hashes.ofSha256 base.sha256) hL hB
    (realEnv (tapEnv (Hashes.ofSha256 base.sha256) base) zOf msgOf c) (realEnv_oracles _ base zOf msgOf c)
    ht hnd hS hsub (by simpa using hlen) a ha
  refine ⟨M, hM, hmem, ?_⟩
  intro R hR ss hss
  obtain ⟨ext, sig, b, hext, hget, hser, hbl, hver⟩ :=
    Props.C13.get_signature_bip340 base.sha256 parts sigHash [] none none hd hne hM hs hR hss
  have hM' : musigNew (Hashes.ofSha256 base.sha256) ((parts.map (fun p => p.1)).map (fun (d : ℕ) => g (d : ℤ)))
      none none = some M := by rw [List.map_map]; exact hM
  obtain ⟨q, _, hq, _⟩ := Props.C13.aggregate_key_formula (Hashes.ofSha256 base.sha256) (parts.map (fun p => p.1))
    (by intro d hd'; obtain ⟨p, hp, rfl⟩ := List.mem_map.mp hd'; exact hd p hp) hM'
  have hx : xonly ext = xonly M.point := externalKey_nil_xonly hq hext
  rw [hx] at hver
  refine ⟨sig, b, hget, hser, hver, ?_⟩
  intro cb hcb hdepth
  obtain ⟨Q, rawTap, cbBytes, hQ, hraw, hcbs, _, hcomp, _⟩ := hspend cb hcb hdepth
  refine ⟨Q, rawTap, cbBytes, hQ, hraw, hcbs, ?_⟩
  intro fuel hf
  exact hcomp b fuel
    (schnorrCheck_of_bip340 (tapEnv (Hashes.ofSha256 base.sha256) base) zOf msgOf c hc (xonly M.point) sigHash b
      (Taproot.xonly_length' _) hbl hmsg hver) hf


/-! ## the single k-of-n leaf -/

/-- **`single_leaf`: the one-leaf tree with the k-of-n script verifies exactly with k valid signatures.**
    The witness carries one element per key (sorted x-only order, reversed on the wire; an empty element for a
    key that does not sign): it is accepted when every element can be checked and exactly `k` verify, and an
    accepted input has exactly `k` valid ones among the `n` on top. -/
theorem single_leaf_spend (H : Hashes) (hL : ∀ m, (H.tapLeaf m).length = 32) (hB : ∀ m, (H.tapBranch m).length = 32)
    (env : Env) (horacle : TapOracles H env) {T : TapRootMultiSig} {t : Tree}
    (ht : singleLeaf T none none = some t) (hk : 1 ≤ T.k) (hn : T.points.length ≤ 2 ^ 32)
    (a : Int) (ha : smul a G ≠ .inf) :
    ∃ c x0 rest, multiSigCmds T.points T.k none none = some c ∧ t = .leaf { script := { cmds := c } } ∧
      sortBytes (T.points.map xonly) = x0 :: rest ∧ c = leafScript x0 rest T.k ∧
      ∀ cb, t.controlBlock H (smul a G) (some { script := { cmds := c } }) = some cb →
        ∃ Q rawTap cbBytes, t.externalPubkey H (smul a G) = some Q ∧ serCmds c = some rawTap ∧
          cb.serialize = some cbBytes ∧
          cbAccepts H cbBytes { cmds := c, raw := some rawTap } (xonly Q) = true ∧
          (∀ sigs fuel, ChecksOK env (x0 :: rest) sigs →
            countValid env (x0 :: rest) sigs = leafThreshold rest T.k → sigs.length + 2 * rest.length + 6 ≤ fuel →
            verifyInput Cfg.repaired env [] (p2trSpk (xonly Q)) (sigs.reverse ++ [rawTap, cbBytes]) fuel = .accept) ∧
          (∀ ss w fuel, verifyInput Cfg.repaired env ss (p2trSpk (xonly Q)) (w ++ [rawTap, cbBytes]) fuel = .accept →
            ss = [] ∧ ∃ sigs r, w.reverse = sigs ++ r ∧ sigs.length = rest.length + 1 ∧
              countValid env (x0 :: rest) sigs = leafThreshold rest T.k) := by
  unfold singleLeaf at ht
  cases hc : multiSigCmds T.points T.k none none with
  | none => simp [hc] at ht
  | some c =>
    simp only [hc, Option.bind_eq_bind, Option.bind_some, Option.pure_def, Option.some.injEq, leafOfCmds] at ht
    obtain ⟨x0, rest, hsort, hl, h32, hk16, hcs⟩ := multiSigCmds_shape hc hk
    refine ⟨c, x0, rest, rfl, ht.symm, hsort, hcs, ?_⟩
    intro cb hcb
    subst hcs
    have hdepth : cb.hashes.length ≤ 128 := by
      obtain ⟨_, _, _, _, _, _, _, _, hpath⟩ := Taproot.controlBlock_some H hcb
      rw [← ht] at hpath
      simp only [Taproot.Tree.pathHashes, Option.some.injEq] at hpath
      rw [← hpath]; simp
    exact tree_leaf_spend H hL hB env horacle (t := t) (by rw [← ht]; intro l hl; simp [Taproot.Tree.leaves] at hl; subst hl; rfl)
      a ha x0 rest T.k h32 (fun hr => ⟨hk, hk16 hr⟩) (by omega) hcb hdepth


/-! ## the depth hypothesis -/

/-- **the depth hypothesis of the spend theorems holds whenever the tree has at most 2^128 leaves**:
    `TapBranch.combine` halves the list of the `C(n, k)` leaves, so `C(n, k) ≤ 2^128` bounds every control block
    of `multi_leaf_tree` / `musig_tree` by 128 sibling hashes -/
theorem control_block_depth_bound {H : Hashes} {T : TapRootMultiSig} {lock seq : Option Nat} {t : Tree}
    (h : multiLeafTree T lock seq = some t ∨ musigTree H T lock seq = some t)
    (hc : Nat.choose T.points.length T.k ≤ 2 ^ 128) {P : Pt} {x : Leaf} {cb : ControlBlock}
    (hcb : t.controlBlock H P (some x) = some cb) : cb.hashes.length ≤ 128 :=
  Nat.le_trans (controlBlock_depth H hcb) (generated_tree_depth h hc)

end Buidl.Props.C13Compose
