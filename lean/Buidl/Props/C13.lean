/-
  C13 — MuSig aggregation yields valid BIP340 signatures; k-of-n trees cover all subsets.
  Property theorems only (helper lemmas: Buidl.Proofs.MuSig, Combinations, TaprootRel, TaprootGroup).
  Model: Buidl.Model.MuSig (buidl/taproot.py MuSigTapScript / MultiSigTapScript / TapRootMultiSig,
  pecc.py verify_schnorr; constants from Buidl.Gen.Taproot).  The tagged hashes `H : Hashes` are arbitrary
  functions.  The algebra runs in the ZMod N-module ⟨G⟩; the group facts are those of C03, through `groupLaw`
  (the `…_relGroup`-style lemmas they instantiate are in Buidl.Proofs.MuSig, relative to `GroupLaw`).

  A participant is a triple (secret d, nonce k₁, nonce k₂); its public key is `d·G` (`g d`), its x-only
  key `xo d`.  `cz` is the cast to ZMod N: `cz a = cz b` says `a ≡ b (mod N)`.

  Finding F13a (repaired, work/C13/fix-F13a.diff): the original constructor gave coefficient 1 to list position 1
  and kept one coefficient per list *position* while `sign` looks the coefficient up by x-only *key*; for
  participants with equal x-only keys (the same key twice, or `d` and `N − d`) the two disagreed and
  get_signature raised.  The repaired constructor computes the coefficient as a function of the key (1 for the
  second distinct key), which is what the model describes; the session theorems below hold for every participant
  list, duplicates included.  `F13a_witness` documents the table semantics that made the old code fail.
-/
import Buidl.Proofs.TaprootGroup
import Buidl.Proofs.MuSig
import Buidl.Proofs.Combinations
import Buidl.Proofs.MuSigSpec
namespace Buidl.Props.C13
open Buidl Buidl.EC Buidl.Script Buidl.Taproot Buidl.MuSig

/-! ## the aggregate key does not depend on the order of the participants -/

/-- `sorted` returns a sorted permutation of its input … -/
theorem sort_sorted_perm (l : List Bytes) : (sortBytes l).Perm l ∧ (sortBytes l).Pairwise bytesLe :=
  ⟨sortBytes_perm l, sortBytes_sorted l⟩

/-- … hence permuted inputs sort to the same list -/
theorem sort_perm {l₁ l₂ : List Bytes} (h : l₁.Perm l₂) : sortBytes l₁ = sortBytes l₂ :=
  sortBytes_eq_of_perm h

/-- **MuSigTapScript(points) is invariant under permutation of the participant list**: aggregate point,
    coefficients, commitment and script (and failure) are the same -/
theorem aggregate_key_perm (H : Hashes) {p₁ p₂ : List Pt} (h : p₁.Perm p₂) (lock seq : Option ℕ) :
    musigNew H p₁ lock seq = musigNew H p₂ lock seq :=
  musigNew_perm H h lock seq

/-- the same for MultiSigTapScript(points, k) -/
theorem multisig_script_perm {p₁ p₂ : List Pt} (h : p₁.Perm p₂) (k : ℕ) (lock seq : Option ℕ) :
    multiSigCmds p₁ k lock seq = multiSigCmds p₂ k lock seq :=
  multiSigCmds_perm h k lock seq

/-- the aggregate key of participants with secrets `ds` (equal x-only keys allowed): `Q = q·G` with
    `q ≡ Σ_d F(x(d)) · ev(d) (mod N)`, where the coefficient `F` is a function of the x-only key — the very
    function `sign` reads from the coefficient table — and `ev d` is the even-y secret -/
theorem aggregate_key_formula (H : Hashes) (ds : List ℕ) (hd : ∀ d ∈ ds, 1 ≤ d ∧ d < N)
    {lock seq : Option ℕ} {M : MuSig}
    (hM : musigNew H (ds.map (fun (d : ℕ) => g (d : ℤ))) lock seq = some M) :
    ∃ (q : ℤ) (F : Bytes → ℕ), M.point = g q ∧
      cz q = (ds.map (fun d => (F (xo d) : ZMod N) * cz (ev (d : ℤ)))).sum ∧
      (∀ x c, coefLookup M.xonlys M.coefs x = some c → c = F x) ∧
      M.xonlys.Perm (ds.map xo) :=
  musigNew_point groupLaw H ds hd hM

/-- the coefficients of the repaired constructor: a function of the key — 1 for the second distinct key of
    the sorted list, the KeyAgg coefficient hash otherwise; equal keys get equal coefficients -/
theorem coefficients_by_key {H : Hashes} {points : List Pt} {lock seq : Option ℕ} {M : MuSig}
    (h : musigNew H points lock seq = some M) :
    ∃ x0, M.xonlys[0]? = some x0 ∧
      M.coefs = M.xonlys.map (fun b => if some b = M.xonlys.find? (fun y => y != x0) then 1
        else beToNat (H.keyAggCoef (M.commitment ++ b))) := by
  unfold musigNew at h
  cases hpre : timelockCmds lock seq with
  | none => simp [hpre] at h
  | some pre =>
    simp only [hpre, Option.bind_eq_bind, Option.bind_some] at h
    by_cases h0 : points.length = 0
    · simp [h0] at h
    · rw [if_neg h0] at h
      cases hpa : parseAll (sortBytes (points.map xonly)) with
      | none => simp [hpa] at h
      | some pts =>
        simp only [hpa, Option.bind_some] at h
        cases hx0 : (sortBytes (points.map xonly))[Gen.muSigFirstIndex]? with
        | none => simp [hx0] at h
        | some x0 =>
          simp only [hx0, Option.bind_some] at h
          cases hc : combinePts (scaleAll (List.map (coefOf H (H.keyAggList (sortBytes (points.map xonly)).flatten)
              (secondKey x0 (sortBytes (points.map xonly)))) (sortBytes (points.map xonly))) pts) with
          | none => simp [hc] at h
          | some pt =>
            simp only [hc, Option.bind_some, Option.pure_def, Option.some.injEq] at h
            subst h
            exact ⟨x0, hx0, rfl⟩

/-! ## BIP340 verification: for fixed R and e exactly one s verifies -/

/-- `verify_schnorr` for the key `x·G ≠ ∞` and a signature `(even(r·G), s)`, `r·G ≠ ∞`: True exactly when
    `s ≡ ev r + e · ev x (mod N)` — i.e. `s·G = R_even + e·P_even`, the BIP340 equation -/
theorem verify_schnorr_unique (H : Hashes) (x r : ℤ) (hx : g x ≠ .inf) (hr : g r ≠ .inf) (msg : Bytes) (s : ℕ) :
    verifySchnorr H (g x) msg (evenPoint (g r)) s =
      some (decide (cz (s : ℤ) = cz (ev r) + cz (challengeOf H (evenPoint (g r)) (evenPoint (g x)) msg : ℤ) * cz (ev x))) :=
  verifySchnorr_iff groupLaw H x r hx hr msg s

/-! ## the signing session -/

/-- **MuSig session (plain and tweaked, every parity combination).**  Participants `(d, k₁, k₂)` with valid
    secrets and pairwise different x-only keys — at least one; `MuSigTapScript` itself demands two — any
    nonces, any message, any merkle root (`[]` = untweaked), any timelock.  Whenever the library produces the
    partial signatures `ss` (nothing hits the point at infinity), `get_signature` applied to their sum returns
    a signature `(R_even, s)` that `verify_schnorr` accepts for the external key. -/
theorem get_signature_valid (H : Hashes) (parts : List (ℕ × ℕ × ℕ)) (sigHash root : Bytes) (lock seq : Option ℕ)
    (hd : ∀ p ∈ parts, 1 ≤ p.1 ∧ p.1 < N) (hne : parts ≠ [])
    {M : MuSig} (hM : musigNew H (parts.map (fun p => g (p.1 : ℤ))) lock seq = some M)
    {sums : Pt × Pt} (hs : nonceSums (parts.map (fun p => (generateNonces p.2.1 p.2.2).2)) = some sums)
    {R : Pt} (hR : computeR H M sums sigHash = some R)
    {ss : List ℕ} (hss : List.Forall₂ (fun (p : ℕ × ℕ × ℕ) (s : ℕ) =>
        ∃ k, computeK H M (p.2.1, p.2.2) sums sigHash = some k ∧ sign H M p.1 k R sigHash root = some s) parts ss) :
    ∃ ext s, externalKey H M root = some ext ∧
      getSignature H M (ss.map (fun (s : ℕ) => (s : ℤ))).sum R sigHash root = some (evenPoint R, s) ∧ s < N ∧
      verifySchnorr H ext sigHash (evenPoint R) s = some true := by
  obtain ⟨ext, hext, _, _, _, _, hall⟩ := session_signature groupLaw H parts sigHash root lock seq hd hne hM hs hR hss
  obtain ⟨s, h1, h2, h3⟩ := (hall _).1 rfl
  exact ⟨ext, s, hext, h1, h2, h3⟩

/-- **the aggregate signature is a BIP340 signature** (tagged hashes instantiated with SHA-256, any `sha256`):
    the 64 bytes `get_signature` returns satisfy `Spec.BIP340.verify` — the verification algorithm transcribed
    from the BIP — for the x-only external key (aggregate key, or its taproot tweak).  Uses C02's theorem that
    `verify_schnorr` is BIP340 verification. -/
theorem get_signature_bip340 (sha256 : Bytes → Bytes) (parts : List (ℕ × ℕ × ℕ)) (sigHash root : Bytes)
    (lock seq : Option ℕ)
    (hd : ∀ p ∈ parts, 1 ≤ p.1 ∧ p.1 < N) (hne : parts ≠ [])
    {M : MuSig} (hM : musigNew (Hashes.ofSha256 sha256) (parts.map (fun p => g (p.1 : ℤ))) lock seq = some M)
    {sums : Pt × Pt} (hs : nonceSums (parts.map (fun p => (generateNonces p.2.1 p.2.2).2)) = some sums)
    {R : Pt} (hR : computeR (Hashes.ofSha256 sha256) M sums sigHash = some R)
    {ss : List ℕ} (hss : List.Forall₂ (fun (p : ℕ × ℕ × ℕ) (s : ℕ) =>
        ∃ k, computeK (Hashes.ofSha256 sha256) M (p.2.1, p.2.2) sums sigHash = some k ∧
          sign (Hashes.ofSha256 sha256) M p.1 k R sigHash root = some s) parts ss) :
    ∃ ext sig b, externalKey (Hashes.ofSha256 sha256) M root = some ext ∧
      getSignature (Hashes.ofSha256 sha256) M (ss.map (fun (s : ℕ) => (s : ℤ))).sum R sigHash root = some sig ∧
      sigSerialize sig = some b ∧ b.length = 64 ∧
      Spec.BIP340.verify sha256 (xonly ext) sigHash b = true := by
  obtain ⟨ext, hext, hxe, hr, _, ⟨xe, r, rfl, rfl⟩, hall⟩ :=
    session_signature groupLaw (Hashes.ofSha256 sha256) parts sigHash root lock seq hd hne hM hs hR hss
  obtain ⟨s, h1, h2, h3⟩ := (hall _).1 rfl
  have hlt : s < 256 ^ 32 := Nat.lt_trans h2 N_lt_256_32
  refine ⟨g xe, (evenPoint (g r), s), xonly (g r) ++ natToBE' 32 s, hext, h1, ?_, ?_,
    verify_is_bip340 groupLaw sha256 xe r hxe hr sigHash s h2 h3⟩
  · simp only [sigSerialize, natToBE, hlt, if_true, Option.bind_eq_bind, Option.bind_some, Option.pure_def]
    rw [groupLaw.xonly_evenPoint_smul]
  · simp [xonly_length', natToBE', natToLE'_length]

/-- **… and only then**: `get_signature(s_sum)` succeeds exactly when `s_sum` is congruent modulo N to the
    sum of the partial signatures (uniqueness of `s` for fixed `R`, `e`); otherwise its self-verification
    fails and it raises. -/
theorem get_signature_iff (H : Hashes) (parts : List (ℕ × ℕ × ℕ)) (sigHash root : Bytes) (lock seq : Option ℕ)
    (hd : ∀ p ∈ parts, 1 ≤ p.1 ∧ p.1 < N) (hne : parts ≠ [])
    {M : MuSig} (hM : musigNew H (parts.map (fun p => g (p.1 : ℤ))) lock seq = some M)
    {sums : Pt × Pt} (hs : nonceSums (parts.map (fun p => (generateNonces p.2.1 p.2.2).2)) = some sums)
    {R : Pt} (hR : computeR H M sums sigHash = some R)
    {ss : List ℕ} (hss : List.Forall₂ (fun (p : ℕ × ℕ × ℕ) (s : ℕ) =>
        ∃ k, computeK H M (p.2.1, p.2.2) sums sigHash = some k ∧ sign H M p.1 k R sigHash root = some s) parts ss)
    (sSum : ℤ) :
    (getSignature H M sSum R sigHash root).isSome ↔
      sSum % (N : ℤ) = (ss.map (fun (s : ℕ) => (s : ℤ))).sum % (N : ℤ) := by
  obtain ⟨ext, hext, _, _, _, _, hall⟩ := session_signature groupLaw H parts sigHash root lock seq hd hne hM hs hR hss
  rw [emod_eq_iff]
  constructor
  · intro h
    by_contra hne'
    rw [(hall sSum).2 hne'] at h
    simp at h
  · intro h
    obtain ⟨s, h1, _, _⟩ := (hall sSum).1 h
    rw [h1]; rfl

/-- **altering a partial signature**: a sum changed by `δ ≢ 0 (mod N)` makes `get_signature` raise -/
theorem alter_partial_rejected (H : Hashes) (parts : List (ℕ × ℕ × ℕ)) (sigHash root : Bytes) (lock seq : Option ℕ)
    (hd : ∀ p ∈ parts, 1 ≤ p.1 ∧ p.1 < N) (hne : parts ≠ [])
    {M : MuSig} (hM : musigNew H (parts.map (fun p => g (p.1 : ℤ))) lock seq = some M)
    {sums : Pt × Pt} (hs : nonceSums (parts.map (fun p => (generateNonces p.2.1 p.2.2).2)) = some sums)
    {R : Pt} (hR : computeR H M sums sigHash = some R)
    {ss : List ℕ} (hss : List.Forall₂ (fun (p : ℕ × ℕ × ℕ) (s : ℕ) =>
        ∃ k, computeK H M (p.2.1, p.2.2) sums sigHash = some k ∧ sign H M p.1 k R sigHash root = some s) parts ss)
    (δ : ℤ) (hδ : δ % (N : ℤ) ≠ 0) :
    getSignature H M ((ss.map (fun (s : ℕ) => (s : ℤ))).sum + δ) R sigHash root = none := by
  obtain ⟨ext, hext, _, _, _, _, hall⟩ := session_signature groupLaw H parts sigHash root lock seq hd hne hM hs hR hss
  apply (hall _).2
  intro h
  apply hδ
  rw [emod_zero_iff]
  simp only [cz] at h ⊢
  push_cast at h
  linear_combination h

/-- **omitting a partial signature** `s_j ≢ 0 (mod N)` (it is a hash-derived residue; `s_j = 0` is a negligible
    event) makes `get_signature` raise -/
theorem omit_partial_rejected (H : Hashes) (parts : List (ℕ × ℕ × ℕ)) (sigHash root : Bytes) (lock seq : Option ℕ)
    (hd : ∀ p ∈ parts, 1 ≤ p.1 ∧ p.1 < N) (hne : parts ≠ [])
    {M : MuSig} (hM : musigNew H (parts.map (fun p => g (p.1 : ℤ))) lock seq = some M)
    {sums : Pt × Pt} (hs : nonceSums (parts.map (fun p => (generateNonces p.2.1 p.2.2).2)) = some sums)
    {R : Pt} (hR : computeR H M sums sigHash = some R)
    {ss : List ℕ} (hss : List.Forall₂ (fun (p : ℕ × ℕ × ℕ) (s : ℕ) =>
        ∃ k, computeK H M (p.2.1, p.2.2) sums sigHash = some k ∧ sign H M p.1 k R sigHash root = some s) parts ss)
    (a b : List ℕ) (sj : ℕ) (hsplit : ss = a ++ sj :: b) (hsj : sj % N ≠ 0) :
    getSignature H M ((a ++ b).map (fun (s : ℕ) => (s : ℤ))).sum R sigHash root = none := by
  have hδ : (-(sj : ℤ)) % (N : ℤ) ≠ 0 := by
    intro h
    have h1 := Int.dvd_of_emod_eq_zero h
    have h2 : (N : ℤ) ∣ (sj : ℤ) := Int.dvd_neg.mp h1
    have h3 : N ∣ sj := Int.natCast_dvd_natCast.mp h2
    exact hsj (Nat.mod_eq_zero_of_dvd h3)
  have := alter_partial_rejected H parts sigHash root lock seq hd hne hM hs hR hss (-(sj : ℤ)) hδ
  have hsum : (ss.map (fun (s : ℕ) => (s : ℤ))).sum + -(sj : ℤ) = ((a ++ b).map (fun (s : ℕ) => (s : ℤ))).sum := by
    rw [hsplit]; simp only [List.map_append, List.map_cons, List.sum_append, List.sum_cons]; ring
  rw [hsum] at this
  exact this

/-- F13a (old behaviour, documentation): the table `sign` consults is a dict keyed by x-only key, so with two
    equal keys it holds one coefficient — the last — for both participants.  The original constructor built the
    aggregate key with positional coefficients `[c₀, 1]`, which this table cannot reproduce; the repaired one makes
    the positional coefficients a function of the key (`coefficients_by_key`), and the table agrees with them
    (`aggregate_key_formula`). -/
theorem F13a_witness (x : Bytes) (c₀ c₁ : ℕ) : coefLookup [x, x] [c₀, c₁] x = some c₁ := by
  simp [coefLookup]

/-! ## k-of-n trees: one leaf per k-subset -/

/-- `itertools.combinations(l, k)` yields exactly the subsequences of length `k` -/
theorem combinations_mem {α : Type} (l : List α) (k : ℕ) (s : List α) :
    s ∈ combinations l k ↔ s.Sublist l ∧ s.length = k :=
  mem_combinations l k s

/-- without repetition (for pairwise different elements) -/
theorem combinations_no_repeat {α : Type} (l : List α) (k : ℕ) (h : l.Nodup) : (combinations l k).Nodup :=
  combinations_nodup l k h

/-- `C(n, k)` of them -/
theorem combinations_count {α : Type} (l : List α) (k : ℕ) : (combinations l k).length = Nat.choose l.length k :=
  combinations_length l k

/-- **bijection with the k-subsets**: every `k`-element subset of pairwise different elements (listed in any
    order, without repetition) is a permutation of exactly one combination -/
theorem combinations_bijection {α : Type} [DecidableEq α] {l : List α} (hl : l.Nodup) {k : ℕ} {s : List α}
    (hs : s.Nodup) (hsub : ∀ a ∈ s, a ∈ l) (hk : s.length = k) :
    ∃ c ∈ combinations l k, c.Perm s ∧ ∀ c' ∈ combinations l k, c'.Perm s → c' = c :=
  combinations_cover hl hs hsub hk

/-- `TapBranch.combine` keeps the leaves in order (and never fails on a non-empty list) -/
theorem combine_keeps_leaves (nodes : List Tree) (hne : nodes ≠ []) :
    ∃ t, combine nodes = some t ∧ t.leaves = (nodes.map Tree.leaves).flatten :=
  combine_leaves nodes hne

/-- **multi_leaf_tree**: the leaves are, position by position, the `MultiSigTapScript(subset, k)` leaves of the
    combinations of the points; there are `C(n, k)` of them -/
theorem multi_leaf_tree_leaves {T : TapRootMultiSig} {lock seq : Option ℕ} {t : Tree}
    (h : multiLeafTree T lock seq = some t) :
    ∃ cs : List (List Cmd),
      List.Forall₂ (fun pk c => multiSigCmds pk T.k lock seq = some c) (combinations T.points T.k) cs ∧
      t.leaves = cs.map (fun c => ({ script := { cmds := c } } : Leaf)) ∧
      t.leaves.length = Nat.choose T.points.length T.k := by
  obtain ⟨cs, h1, h2⟩ := multiLeafTree_leaves h
  refine ⟨cs, h1, h2, ?_⟩
  rw [h2, List.length_map, ← h1.length_eq, combinations_length]

/-- **musig_tree**: likewise with `MuSigTapScript(subset)` -/
theorem musig_tree_leaves {H : Hashes} {T : TapRootMultiSig} {lock seq : Option ℕ} {t : Tree}
    (h : musigTree H T lock seq = some t) :
    ∃ Ms : List MuSig,
      List.Forall₂ (fun pk M => musigNew H pk lock seq = some M) (combinations T.points T.k) Ms ∧
      t.leaves = Ms.map (fun M => ({ script := { cmds := M.cmds } } : Leaf)) ∧
      t.leaves.length = Nat.choose T.points.length T.k := by
  obtain ⟨Ms, h1, h2⟩ := musigTree_leaves h
  refine ⟨Ms, h1, h2, ?_⟩
  rw [h2, List.length_map, ← h1.length_eq, combinations_length]

/-- **different k-subsets own different leaves** (multi_leaf_tree; points with pairwise different x-only
    keys): two combinations with the same MultiSigTapScript commands are the same combination.  Together with
    `multi_leaf_tree_leaves` and `combinations_bijection`: every k-subset owns exactly one leaf. -/
theorem multisig_leaf_injective {pts : List Pt} (hnd : (pts.map xonly).Nodup) {k : ℕ} {lock seq : Option ℕ}
    {s₁ s₂ : List Pt} {c : List Cmd} (hs₁ : s₁ ∈ combinations pts k) (hs₂ : s₂ ∈ combinations pts k)
    (h₁ : multiSigCmds s₁ k lock seq = some c) (h₂ : multiSigCmds s₂ k lock seq = some c) : s₁ = s₂ :=
  multisig_leaf_inj hnd hs₁ hs₂ h₁ h₂

/-- the leaf of a subset does not depend on the order in which the subset is listed -/
theorem subset_leaf_order_independent (H : Hashes) {s₁ s₂ : List Pt} (h : s₁.Perm s₂) (k : ℕ) (lock seq : Option ℕ) :
    multiSigCmds s₁ k lock seq = multiSigCmds s₂ k lock seq ∧ musigNew H s₁ lock seq = musigNew H s₂ lock seq :=
  ⟨multiSigCmds_perm h k lock seq, musigNew_perm H h lock seq⟩

/-! ## timelocks: the generators are parametric in the requested timelock -/

/-- every MuSig leaf script is the requested timelock prefix followed by `<aggregate x-only key> OP_CHECKSIG` -/
theorem musig_leaf_timelock_prefix {H : Hashes} {pk : List Pt} {lock seq : Option ℕ} {M : MuSig}
    (h : musigNew H pk lock seq = some M) :
    ∃ pre, timelockCmds lock seq = some pre ∧ M.cmds = pre ++ [.push (xonly M.point), .op Gen.muSigOpChecksig] := by
  obtain ⟨pre, _, hpre, _, _, _, _, _, _, hc⟩ := musigNew_some h
  exact ⟨pre, hpre, hc⟩

/-- every MultiSig leaf script starts with the requested timelock prefix -/
theorem multisig_leaf_timelock_prefix {pk : List Pt} {k : ℕ} {lock seq : Option ℕ} {c : List Cmd}
    (h : multiSigCmds pk k lock seq = some c) :
    ∃ pre rest, timelockCmds lock seq = some pre ∧ c = pre ++ rest := by
  unfold multiSigCmds at h
  cases hpre : timelockCmds lock seq with
  | none => simp [hpre] at h
  | some pre =>
    simp only [hpre, Option.bind_eq_bind, Option.bind_some] at h
    cases hso : sortBytes (pk.map xonly) with
    | nil => simp [hso] at h
    | cons x₀ r =>
      simp only [hso] at h
      cases hp : parseAll (x₀ :: r) with
      | none => simp [hp] at h
      | some _ =>
        simp only [hp, Option.bind_some] at h
        split at h
        · cases hk : numberToOpCode k with
          | none => simp [hk] at h
          | some kop =>
            simp only [hk, Option.bind_some, Option.pure_def, Option.some.injEq] at h
            exact ⟨pre, _, rfl, by rw [← h, List.append_assoc, List.append_assoc]⟩
        · simp only [Option.pure_def, Option.some.injEq] at h
          exact ⟨pre, _, rfl, h.symm⟩

/-- **everything_tree / musig_and_single_leaf_tree pass the SAME timelock to every subtree**: their leaves are the
    leaves of `single_leaf`, `multi_leaf_tree` and `musig_tree` built with the requested `(locktime, sequence)` — so, by
    `multi_leaf_tree_leaves` / `musig_tree_leaves` with that timelock, every k-subset owns its MultiSig and its MuSig
    leaf carrying exactly the requested prefix -/
theorem everything_tree_leaves {H : Hashes} {T : TapRootMultiSig} {lock seq : Option ℕ} {t : Tree}
    (h : everythingTree H T lock seq = some t) :
    ∃ a b c, singleLeaf T lock seq = some a ∧ multiLeafTree T lock seq = some b ∧ musigTree H T lock seq = some c ∧
      t.leaves = a.leaves ++ (b.leaves ++ c.leaves) := by
  unfold everythingTree at h
  cases ha : singleLeaf T lock seq with
  | none => simp [ha] at h
  | some a =>
    cases hb : multiLeafTree T lock seq with
    | none => simp [ha, hb] at h
    | some b =>
      cases hc : musigTree H T lock seq with
      | none => simp [ha, hb, hc] at h
      | some c =>
        simp only [ha, hb, hc, Option.bind_eq_bind, Option.bind_some, Option.pure_def, Option.some.injEq] at h
        exact ⟨a, b, c, rfl, rfl, rfl, by rw [← h]; rfl⟩

theorem musig_and_single_leaf_tree_leaves {H : Hashes} {T : TapRootMultiSig} {lock seq : Option ℕ} {t : Tree}
    (h : musigAndSingleLeafTree H T lock seq = some t) :
    ∃ a c, singleLeaf T lock seq = some a ∧ musigTree H T lock seq = some c ∧ t.leaves = a.leaves ++ c.leaves := by
  unfold musigAndSingleLeafTree at h
  cases ha : singleLeaf T lock seq with
  | none => simp [ha] at h
  | some a =>
    cases hc : musigTree H T lock seq with
    | none => simp [ha, hc] at h
    | some c =>
      simp only [ha, hc, Option.bind_eq_bind, Option.bind_some, Option.pure_def, Option.some.injEq] at h
      exact ⟨a, c, rfl, rfl, by rw [← h]; rfl⟩

/-! ## non-vacuity -/

example : combinations [1, 2, 3, 4] 2 = [[1, 2], [1, 3], [1, 4], [2, 3], [2, 4], [3, 4]] := by decide

example : sortBytes [[3], [1, 2], [1]] = [[1], [1, 2], [3]] := by decide

/-- `combine` on five leaves: 2 + 3, then 1 + 1 and 1 + 2 -/
example : (combine ((List.range 5).map (fun i => leafOfCmds [.op i]))).map Tree.leaves
    = some ((List.range 5).map (fun i => ({ script := { cmds := [.op i] } } : Leaf))) := by decide

end Buidl.Props.C13
