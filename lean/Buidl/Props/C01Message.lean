/-
  C01 (extension) — message signing: PrivateKey.sign_message / S256Point.verify_message.
  Property theorems only; they are corollaries of the digest-level theorems of Props/C01.lean
  for the digest `big_endian_to_int(hash256(message))`, `hash256` an arbitrary function.
-/
import Buidl.Props.C01
import Buidl.Model.ECDSAMessage
namespace Buidl.Props.C01Message
open Buidl Buidl.EC Buidl.ECDSA

/-- `sign_message` is `sign` on the big-endian integer of `hash256(message)` and `verify_message`
    is `verify` on the same integer, for every hash function: whatever is proved about digests
    transfers to messages, and the two functions agree on the digest they use -/
theorem message_functions_use_one_digest (hash256 : Bytes → Bytes) (hmac : Bytes → Bytes → Bytes)
    (fuel d : Nat) (Q : Pt) (m : Bytes) (r s : Nat) :
    signMessage hash256 hmac fuel d m = sign hmac fuel d (beToNat (hash256 m)) ∧
    verifyMessage hash256 Q m r s = verify Q (beToNat (hash256 m)) r s := ⟨rfl, rfl⟩

/-- a message signature produced by the library verifies under the matching public key (same
    explicit negligible-event hypotheses as `verify_sign`), for every hash function and message -/
theorem verify_message_sign_message (hash256 : Bytes → Bytes) (hmac : Bytes → Bytes → Bytes)
    (fuel d : Nat) (m : Bytes) (r s : Nat)
    (h : signMessage hash256 hmac fuel d m = .ok (r, s)) (hr : r < N) (hs0 : s ≠ 0) :
    verifyMessage hash256 (smul (d : Int) G) m r s = some true :=
  C01.verify_sign hmac fuel d (messageDigest hash256 m) r s h hr hs0

/-- an accepted message signature is a valid ECDSA signature on the digest of exactly that
    message, with r and s in [1, n-1] (so a signature accepted for two messages is valid on
    both digests: nothing about a message is trusted beyond its hash256) -/
theorem verify_message_sound (hash256 : Bytes → Bytes) (Q : Pt) (m : Bytes) (r s : Nat)
    (h : verifyMessage hash256 Q m r s = some true) :
    Spec.ECDSA.Valid Q (beToNat (hash256 m)) r s ∧ 1 ≤ r ∧ r < N ∧ 1 ≤ s ∧ s < N :=
  ⟨C01.verify_sound Q _ r s h, C01.verify_true_in_range Q _ r s h⟩

/-- r or s equal to 0 or ≥ n is refused for every message -/
theorem verify_message_out_of_range (hash256 : Bytes → Bytes) (Q : Pt) (m : Bytes) (r s : Nat)
    (h : r = 0 ∨ s = 0 ∨ r ≥ N ∨ s ≥ N) : verifyMessage hash256 Q m r s = some false :=
  C01.out_of_range_rejected Q _ r s h

/-- message signatures are low-S like digest signatures -/
theorem sign_message_lowS (hash256 : Bytes → Bytes) (hmac : Bytes → Bytes → Bytes) (fuel d : Nat) (m : Bytes)
    (r s : Nat) (h : signMessage hash256 hmac fuel d m = .ok (r, s)) : s ≤ (N - 1) / 2 :=
  C01.sign_lowS hmac fuel d (messageDigest hash256 m) r s h

/-- non-vacuity: with the constant hash `fun _ => []` (digest 0) and nonce-independent data the
    hypotheses' shapes are inhabited: the digest of any message is `beToNat` of the hash -/
example : messageDigest (fun _ => [0x01, 0x00]) [0x61] = 256 := by decide

end Buidl.Props.C01Message
