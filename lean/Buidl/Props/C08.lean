/-
  C08 — BIP32 derivation (work in progress: first theorems)
-/
import Buidl.Model.HD
namespace Buidl.Props.C08
open Buidl Buidl.HD

/-- hardened derivation from a public key is refused -/
theorem pub_child_hardened_reject (hmac : Bytes → Bytes → Bytes) (h160 : Bytes → Bytes) (p : HDPub) (i : Nat)
    (hi : 2 ^ 31 ≤ i) : p.child hmac h160 i = none := by
  have h : cmpOp Gen.hdPubHardOp i Gen.hdPubHardT = true := by
    simp [cmpOp, Gen.hdPubHardOp]; omega
  simp [HDPub.child, h]

end Buidl.Props.C08
