/-
  C08 — BIP32 derivation: public/private consistency, composition, lossless extended keys, blinding.
  Property theorems only (helper lemmas: Buidl.Proofs.HDPath, Buidl.Proofs.HD).

  Model: Buidl.Model.HD (constants from Buidl.Gen.HD, re-extracted from /repo on every run);
  specification: Buidl.Spec.BIP32 (the BIP text).  `hmac` (HMAC-SHA512), `h160` (hash160) and
  `hash256` are arbitrary functions (`hash256` must return at least the four checksum bytes).
  The elliptic-curve facts come from C03 (Buidl.Proofs.Secp256k1 / SecpCodec): nothing here is
  relative to an unproved group-law hypothesis.

  Hypotheses standing for negligible events are explicit: `I_L < n` (`hIL`), a child key that is zero /
  a child point at infinity (`hK`, or the dedicated theorem `pub_priv_child_zero_key`).
-/
import Buidl.Proofs.HD
import Buidl.Proofs.HDLibPaths
import Buidl.Proofs.HDParse
namespace Buidl.Props.C08
open Buidl Buidl.EC Buidl.PyStr Buidl.HD

variable (hmac : Bytes → Bytes → Bytes) (h160 : Bytes → Bytes)

/-! ## deriving privately then taking the public key = deriving publicly (i < 2^31), in every field -/

/-- whenever HDPrivateKey.child(i) succeeds for a non-hardened index, HDPublicKey.child(i) of its public
    key succeeds and returns exactly the public key of the private child: point
    (`((I_L + k) mod n)·G = k·G + I_L·G`), chain code, depth, parent fingerprint, child number, network
    and version bytes -/
theorem pub_priv_child_consistent (k k' : HDPriv) (i : Nat) (hi : i < 2 ^ 31)
    (h : k.child hmac h160 i = some k') : k.pub.child hmac h160 i = some k'.pub :=
  child_pub_consistent_rel hmac h160 groupAdd k i hi k' h

/-- the only way the two can differ: the private side refuses (child key 0: `PrivateKey(0)` raises) while
    the public side returns a key whose point is the point at infinity (BIP32: "invalid key") -/
theorem pub_priv_child_zero_key (k : HDPriv) (i : Nat) (hi : i < 2 ^ 31) (q : HDPub)
    (hpriv : k.child hmac h160 i = none) (hpub : k.pub.child hmac h160 i = some q) : q.point = .inf :=
  child_pub_zero_key_rel hmac h160 groupAdd k i hi q hpriv hpub

/-- conversely: a public child with a finite point is the public key of the private child -/
theorem pub_priv_child_converse (k : HDPriv) (i : Nat) (hi : i < 2 ^ 31) (q : HDPub)
    (hpub : k.pub.child hmac h160 i = some q) (hfin : q.point ≠ .inf) :
    ∃ k', k.child hmac h160 i = some k' ∧ k'.pub = q := by
  cases hk : k.child hmac h160 i with
  | none => exact absurd (pub_priv_child_zero_key hmac h160 k i hi q hk hpub) hfin
  | some k' =>
    have := pub_priv_child_consistent hmac h160 k k' i hi hk
    rw [this] at hpub
    exact ⟨k', rfl, Option.some.inj hpub⟩

/-- along a whole path: whenever the private and the public traverse both succeed they agree -/
theorem priv_pub_traverse_consistent (path : Str) (k k' : HDPriv) (q : HDPub)
    (hk : k.traverse hmac h160 path = some k') (hq : k.pub.traverse hmac h160 path = some q) : q = k'.pub :=
  priv_pub_traverse_consistent_rel hmac h160 groupAdd path k k' q hk hq

/-! ## hardened derivation from a public key is refused -/

theorem pub_child_hardened_reject (p : HDPub) (i : Nat) (hi : 2 ^ 31 ≤ i) : p.child hmac h160 i = none :=
  pub_child_hardened hmac h160 p i hi

theorem pub_childI_hardened_reject (p : HDPub) (i : Int) (hi : 2 ^ 31 ≤ i) : p.childI hmac h160 i = none :=
  pub_childI_hardened hmac h160 p i hi

/-- a path with a component marked hardened (`'`, `h` or `H`, which normalisation turns into `'`) is refused -/
theorem pub_traverse_hardened_reject (p : HDPub) (path : Str)
    (h : ∃ c ∈ components (normPath path), endsWithChar '\'' c = true) : p.traverse hmac h160 path = none := by
  unfold HDPub.traverse
  simp only []
  split
  · rfl
  · exact pub_walk_hardened hmac h160 p _ h

/-- … and so is a path with a component whose number is ≥ 2^31 -/
theorem pub_traverse_hardened_index_reject (p : HDPub) (path : Str)
    (h : ∃ c ∈ components (normPath path), ∃ i : Int, pyInt c = some i ∧ 2 ^ 31 ≤ i) :
    p.traverse hmac h160 path = none := by
  unfold HDPub.traverse
  simp only []
  split
  · rfl
  · exact pub_walk_hardened_index hmac h160 p _ h

/-! ## deriving along a path = deriving its components one by one -/

theorem priv_walk_append (k : HDPriv) (cs ds : List Str) :
    k.walk hmac h160 (cs ++ ds) = (k.walk hmac h160 cs).bind (fun k' => k'.walk hmac h160 ds) :=
  HD.priv_walk_append hmac h160 k cs ds

theorem pub_walk_append (p : HDPub) (cs ds : List Str) :
    p.walk hmac h160 (cs ++ ds) = (p.walk hmac h160 cs).bind (fun p' => p'.walk hmac h160 ds) :=
  HD.pub_walk_append hmac h160 p cs ds

/-- `traverse(p + "/" + rest) = traverse("m/" + rest)` applied to `traverse(p)` — for every string `p`, `rest` -/
theorem priv_traverse_append (k : HDPriv) (p rest : Str) :
    k.traverse hmac h160 (p ++ '/' :: rest)
      = (k.traverse hmac h160 p).bind (fun k' => k'.traverse hmac h160 ('m' :: '/' :: rest)) :=
  HD.priv_traverse_append hmac h160 k p rest

theorem pub_traverse_append (p : HDPub) (path rest : Str) :
    p.traverse hmac h160 (path ++ '/' :: rest)
      = (p.traverse hmac h160 path).bind (fun p' => p'.traverse hmac h160 ('m' :: '/' :: rest)) :=
  HD.pub_traverse_append hmac h160 p path rest

/-- traverse is the (monadic) left fold of `child` over the components after the first `/` -/
theorem priv_traverse_is_fold (k : HDPriv) (path : Str) (hm : startsWith ['m'] (normPath path) = true) :
    k.traverse hmac h160 path
      = (components (normPath path)).foldlM (fun k c => (privIndex c).bind (k.childI hmac h160)) k := by
  rw [← priv_walk_eq_foldlM]
  simp [HDPriv.traverse, hm]

theorem pub_traverse_is_fold (p : HDPub) (path : Str) (hm : startsWith ['m'] (normPath path) = true) :
    p.traverse hmac h160 path
      = (components (normPath path)).foldlM (fun p c => (pubIndex c).bind (p.childI hmac h160)) p := by
  rw [← pub_walk_eq_foldlM]
  simp [HDPub.traverse, hm]

/-! ## the model against the BIP32 text (Buidl.Spec.BIP32) -/

/-- HDPrivateKey.child = CKDpriv, for every key with 1 ≤ k < n and every index below 2^32, under `I_L < n`:
    same success/failure, same child key and chain code -/
theorem priv_child_eq_spec (k : HDPriv) (i : Nat) (hs1 : 1 ≤ k.secret) (hs : k.secret < N) (hi : i < 2 ^ 32)
    (hIL : ∀ d, beToNat ((hmac k.chainCode d).take 32) < Spec.BIP32.n) :
    (k.child hmac h160 i).map (fun k' => (k'.secret, k'.chainCode))
      = (Spec.BIP32.CKDpriv hmac k.secret k.chainCode i).bind Spec.BIP32.Result.toOption :=
  priv_child_eq_spec_rel hmac h160 k i hs hi hIL (sec_smul_G_isSome hs1 hs)

/-- the remaining fields of a private child: depth + 1, child number = index, parent fingerprint =
    first four bytes of HASH160(serP(point(k_par))), network and versions inherited -/
theorem priv_child_fields_eq_spec (k k' : HDPriv) (i : Nat) (h : k.child hmac h160 i = some k') :
    k'.depth = k.depth + 1 ∧ k'.childNumber = i ∧
    some k'.parentFp = Spec.BIP32.fingerprint h160 (Spec.BIP32.point k.secret) ∧
    k'.network = k.network ∧ k'.privVersion = k.privVersion ∧ k'.pubVersion = k.pubVersion :=
  priv_child_fields hmac h160 k k' i h

/-- HDPublicKey.child = CKDpub for every curve point, under `I_L < n` and `K_i ≠ ∞` -/
theorem pub_child_eq_spec (p : HDPub) (i : Nat) (hp : Valid P A B p.point)
    (hIL : ∀ d, beToNat ((hmac p.chainCode d).take 32) < Spec.BIP32.n)
    (hK : ∀ d, saddInt p.point ((beToNat ((hmac p.chainCode d).take 32) : Nat) : Int) ≠ .inf) :
    (p.child hmac h160 i).map (fun q => (q.point, q.chainCode))
      = (Spec.BIP32.CKDpub hmac p.point p.chainCode i).bind Spec.BIP32.Result.toOption :=
  pub_child_eq_spec_rel hmac h160 p i hIL hK (fun a => sadd_comm_G a hp)

/-- HDPrivateKey.from_seed = master key generation (including the refusal of I_L = 0 and I_L ≥ n), whenever
    the version bytes are given or the network is one of the table -/
theorem from_seed_eq_spec (seed : Bytes) (net : String) (pv bv : Option Bytes)
    (hpv : (versionOr pv Gen.hdXprv net).isSome) (hbv : (versionOr bv Gen.hdXpub net).isSome) :
    (fromSeed hmac seed net pv bv).map (fun k => (k.secret, k.chainCode, k.depth, k.parentFp, k.childNumber))
      = (Spec.BIP32.master hmac seed).toOption.map (fun kc => (kc.1, kc.2, 0, [0, 0, 0, 0], 0)) :=
  HD.from_seed_eq_spec hmac seed net pv bv hpv hbv

theorem fingerprint_eq_spec (p : HDPub) : p.fingerprint h160 = Spec.BIP32.fingerprint h160 p.point :=
  HD.fingerprint_eq_spec h160 p

/-! ## extended keys survive serialise / parse, for all 20 version prefixes -/

/-- the serialisation is the 78-byte layout of the BIP -/
theorem priv_serialize_eq_spec (k : HDPriv) (v : Bytes) (wf : PrivSerWF k v) :
    k.rawSerialize v = some (Spec.BIP32.serializePriv v k.depth k.parentFp k.childNumber k.chainCode k.secret) := by
  rw [priv_rawSerialize_eq k v wf]
  simp [Spec.BIP32.serializePriv, Spec.BIP32.ser32, Spec.BIP32.ser256]

theorem pub_serialize_eq_spec (p : HDPub) (v : Bytes) (wf : PubSerWF p v) :
    p.serialize v = Spec.BIP32.serializePub v p.depth p.parentFp p.childNumber p.chainCode p.point := by
  cases hs : sec p.point true with
  | none =>
    have : Spec.BIP32.serP p.point = none := by rw [← sec_eq_serP]; exact hs
    simp [HDPub.serialize, hs, Spec.BIP32.serializePub, this]
  | some s =>
    have : Spec.BIP32.serP p.point = some s := by rw [← sec_eq_serP]; exact hs
    rw [pub_serialize_eq p v wf s hs]
    simp [Spec.BIP32.serializePub, this, Spec.BIP32.ser32]

/-- the version tables of hd.py are exactly the ten SLIP-0132 pairs (five mainnet, five testnet) -/
theorem version_tables_eq_slip132 :
    (∀ e ∈ Spec.BIP32.slip132.take 5, inSet Gen.hdAllMainnetXpubs e.2.1 = true ∧ inSet Gen.hdAllMainnetXprvs e.2.2 = true) ∧
    (∀ e ∈ Spec.BIP32.slip132.drop 5, inSet Gen.hdAllTestnetXpubs e.2.1 = true ∧ inSet Gen.hdAllTestnetXprvs e.2.2 = true) ∧
    Gen.hdAllMainnetXpubs.length = 5 ∧ Gen.hdAllMainnetXprvs.length = 5 ∧
    Gen.hdAllTestnetXpubs.length = 5 ∧ Gen.hdAllTestnetXprvs.length = 5 ∧
    dictGet Gen.hdXprv "mainnet" = some Spec.BIP32.versionMainPriv ∧ dictGet Gen.hdXpub "mainnet" = some Spec.BIP32.versionMainPub ∧
    dictGet Gen.hdXprv "testnet" = some Spec.BIP32.versionTestPriv ∧ dictGet Gen.hdXpub "testnet" = some Spec.BIP32.versionTestPub := by
  decide

/-- HDPrivateKey.parse(k.xprv(v)) returns the same key — secret, chain code, depth (0..255), parent
    fingerprint, child number (< 2^32), version bytes — for each of the ten private prefixes; the network is the
    one the version determines and `pub_version` its default (that is all `parse` can know).  Serialising the
    parsed key gives the same string again. -/
theorem priv_parse_xprv (hash256 : Bytes → Bytes) (hh : ∀ b, 4 ≤ (hash256 b).length) (k : HDPriv) (v : Bytes)
    (wf : PrivSerWF k v) (x : Str) (hx : k.xprv hash256 (some v) = some x) :
    HDPriv.parse hash256 x = some (parsedPriv k v) ∧ (parsedPriv k v).xprv hash256 none = some x := by
  refine ⟨priv_parse_xprv_rel hash256 (b58RoundTrip hash256 hh) k v wf x hx, ?_⟩
  have hv : (parsedPriv k v).privVersion = v := by unfold parsedPriv; split <;> rfl
  simp only [HDPriv.xprv, Option.getD_none, Option.getD_some, hv, parsedPriv_rawSerialize] at hx ⊢
  exact hx

/-- parse accepts only Base58Check strings whose payload has exactly 78 bytes: anything longer or shorter, however
    valid its checksum and version, is refused (contrapositive: `raw.length ≠ 78 → parse = none`) -/
theorem parse_rejects_wrong_length (hash256 : Bytes → Bytes) (x : Str) :
    (∀ k, HDPriv.parse hash256 x = some k →
      ∃ raw, Base58.rawDecodeBase58 hash256 x = some raw ∧ raw.length = 78 ∧ HDPriv.rawParse raw none = some k) ∧
    (∀ p, HDPub.parse hash256 x = some p →
      ∃ raw, Base58.rawDecodeBase58 hash256 x = some raw ∧ raw.length = 78 ∧ HDPub.rawParse raw none = some p) :=
  ⟨fun _ h => priv_parse_some h, fun _ h => pub_parse_some h⟩

/-- every well-formed private key does serialise -/
theorem priv_xprv_defined (hash256 : Bytes → Bytes) (k : HDPriv) (v : Bytes) (wf : PrivSerWF k v) :
    k.xprv hash256 (some v) = Base58.encodeBase58Checksum hash256
      (Spec.BIP32.serializePriv v k.depth k.parentFp k.childNumber k.chainCode k.secret) := by
  simp [HDPriv.xprv, priv_serialize_eq_spec k v wf]

/-- HDPublicKey.parse(p.xpub(v)) returns the same key for each of the ten public prefixes and every curve point -/
theorem pub_parse_xpub (hash256 : Bytes → Bytes) (hh : ∀ b, 4 ≤ (hash256 b).length) (p : HDPub) (v : Bytes)
    (wf : PubSerWF p v) (hp : Valid P A B p.point) (x : Str) (hx : p.xpub hash256 (some v) = some x) :
    HDPub.parse hash256 x = some (parsedPub p v) ∧ (parsedPub p v).xpub hash256 none = some x := by
  refine ⟨pub_parse_xpub_rel hash256 (b58RoundTrip hash256 hh) p v wf (fun s hs => sec_roundtrip hp s hs) x hx, ?_⟩
  have hv : (parsedPub p v).pubVersion = v := by unfold parsedPub; split <;> rfl
  simp only [HDPub.xpub, Option.getD_none, Option.getD_some, hv, parsedPub_serialize] at hx ⊢
  exact hx

/-- the public key of any private key with 1 ≤ k < n is a finite curve point, so the theorem above applies to it -/
theorem priv_pub_point_valid (k : HDPriv) (hs1 : 1 ≤ k.secret) (hs : k.secret < N) :
    Valid P A B k.pub.point ∧ k.pub.point ≠ .inf :=
  ⟨smul_G_valid _, smul_G_ne_inf hs1 hs⟩

/-! ## blinding -/

/-- blind_xpub(x, p, s): parses `x`, requires depth = number of `/` in `p`, returns the xpub of
    `traverse(s)` of the parsed key and `combine_bip32_paths(p, s)` -/
theorem blind_xpub_spec (hash256 : Bytes → Bytes) (x p s cx full : Str)
    (h : blindXpub hash256 hmac h160 x p s = some (cx, full)) :
    ∃ X c, HDPub.parse hash256 x = some X ∧ X.depth = count '/' p ∧ X.traverse hmac h160 s = some c ∧
      c.xpub hash256 none = some cx ∧ combinePaths p s = some full :=
  blindXpub_some hmac h160 hash256 h

/-- the combined path leads to the key at the second path below the key at the first path -/
theorem combine_paths_traverse_priv (k : HDPriv) (p s full : Str) (h : combinePaths p s = some full) :
    k.traverse hmac h160 full
      = (k.traverse hmac h160 (forgive p)).bind (fun k' => k'.traverse hmac h160 (forgive s)) :=
  combine_traverse_priv hmac h160 k p s full h

theorem combine_paths_traverse_pub (k : HDPub) (p s full : Str) (h : combinePaths p s = some full) :
    k.traverse hmac h160 full
      = (k.traverse hmac h160 (forgive p)).bind (fun k' => k'.traverse hmac h160 (forgive s)) :=
  combine_traverse_pub hmac h160 k p s full h

/-- blinding an xpub with a secret path returns exactly the key found at the combined path from the root:
    if `x` is (parses to) the public key of the key at `p` below `root`, then the key at the returned path
    below `root` has the returned xpub.  `p` and `s` are in the normal form that the library itself produces
    (lower case, `h` notation, no `//`, no surrounding blanks: `forgive p = p`). -/
theorem blind_xpub_is_key_at_combined_path (hash256 : Bytes → Bytes) (root kp kf : HDPriv)
    (x p s cx full : Str) (hp : forgive p = p) (hs : forgive s = s)
    (hkp : root.traverse hmac h160 p = some kp) (hx : HDPub.parse hash256 x = some kp.pub)
    (hb : blindXpub hash256 hmac h160 x p s = some (cx, full))
    (hkf : root.traverse hmac h160 full = some kf) :
    kf.pub.xpub hash256 none = some cx :=
  blind_is_key_at_combined_path_rel hmac h160 hash256 groupAdd root kp kf x p s cx full hp hs hkp hx hb hkf

/-! ## paths written by the library itself -/

/-- blinding.secure_secret_path(depth) with the values `rands` returned by `randbelow`: for 1 ≤ depth < 32 the path
    `m/r1/r2/…` is produced, and traversing it from a public key is deriving the children r1, r2, … in turn -/
theorem secure_secret_path_traverse (p : HDPub) (rands : List Nat) (h1 : 1 ≤ rands.length) (h2 : rands.length < 32) :
    ∃ path, secureSecretPath rands = some path ∧
      p.traverse hmac h160 path = rands.foldlM (fun q r => q.childI hmac h160 (r : Int)) p :=
  pub_traverse_secret_path hmac h160 p rands h1 h2

theorem secure_secret_path_traverse_priv (k : HDPriv) (rands : List Nat) (h1 : 1 ≤ rands.length)
    (h2 : rands.length < 32) :
    ∃ path, secureSecretPath rands = some path ∧
      k.traverse hmac h160 path = rands.foldlM (fun q r => q.childI hmac h160 (r : Int)) k :=
  priv_traverse_secret_path hmac h160 k rands h1 h2

/-- helper.child_to_path writes `/<n>` or `/<n - 2^31>'`; HDPrivateKey.traverse reads the component back as the
    same child number, for every n -/
theorem child_to_path_roundtrip (cn : Nat) :
    childToPath cn = '/' :: pathComponent cn ∧ privIndex (pathComponent cn) = some (cn : Int) :=
  ⟨childToPath_eq cn, privIndex_pathComponent cn⟩

/-- helper.parse_binary_path on the concatenated 4-byte little-endian child numbers (PSBT key origins) gives
    `m/c1/c2/…` in child_to_path notation … -/
theorem parse_binary_path_encode (is : List Nat) (h : ∀ i ∈ is, i < 2 ^ 32) :
    parseBinaryPath ((is.map (natToLE' 4)).flatten) = some (join '/' (['m'] :: is.map pathComponent)) :=
  parseBinaryPath_encode is h

/-- … and traversing that text derives exactly the encoded children, hardened ones included -/
theorem parse_binary_path_traverse (k : HDPriv) (is : List Nat) (h : ∀ i ∈ is, i < 2 ^ 32) :
    ∃ path, parseBinaryPath ((is.map (natToLE' 4)).flatten) = some path ∧
      k.traverse hmac h160 path = is.foldlM (fun q i => q.childI hmac h160 (i : Int)) k :=
  priv_traverse_binary_path hmac h160 k is h

/-! ## finding F08a -/

/-- the code before fix-F08a: a path written with an upper-case `M` is refused by the public traverse … -/
theorem F08a_witness (p : HDPub) (rest : Str) : p.traverseF08a hmac h160 ('M' :: rest) = none :=
  pub_traverseF08a_M hmac h160 p rest

/-- … the repaired code treats `M` as `m`, as the private traverse always did -/
theorem pub_traverse_upper_M (p : HDPub) (rest : Str) :
    p.traverse hmac h160 ('M' :: rest) = p.traverse hmac h160 ('m' :: rest) :=
  pub_traverse_M hmac h160 p rest

theorem priv_traverse_upper_M (k : HDPriv) (rest : Str) :
    k.traverse hmac h160 ('M' :: rest) = k.traverse hmac h160 ('m' :: rest) :=
  priv_traverse_M hmac h160 k rest

/-! ## the hypotheses are satisfiable -/

example : PrivSerWF (HDPriv.mk 1 (List.replicate 32 0) 255 [1, 2, 3, 4] (2 ^ 32 - 1) "mainnet" [4, 136, 173, 228]
    [4, 136, 178, 30]) [2, 170, 122, 153] :=
  ⟨by decide, by decide, rfl, rfl, by decide, by decide, Or.inr (by decide)⟩

example : PubSerWF (HDPub.mk G (List.replicate 32 0) 0 [0, 0, 0, 0] 0 "testnet" [4, 53, 135, 207]) [2, 87, 84, 131] :=
  ⟨by decide, by decide, rfl, rfl, Or.inl (by decide)⟩

example : ∀ d : Bytes, beToNat (((fun (_ _ : Bytes) => List.replicate 64 (1 : UInt8)) [] d).take 32) < Spec.BIP32.n := by
  intro d
  show beToNat ((List.replicate 64 (1 : UInt8)).take 32) < Spec.BIP32.n
  decide

example : forgive "m/48h/1h/0h/2h".toList = "m/48h/1h/0h/2h".toList := by decide

example : combinePaths "m/48h/1h".toList "m/7/9".toList = some "m/48h/1h/7/9".toList := by decide

end Buidl.Props.C08
