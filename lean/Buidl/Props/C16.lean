/-
  C16 — multisig descriptors (work in progress: first theorems)
-/
import Buidl.Model.Descriptor
namespace Buidl.Props.C16
open Buidl Buidl.Descriptor

/-- receive and change use different child indices of every cosigner -/
theorem change_index_ne_receive (kr : KeyRecord) : accountFor kr true ≠ accountFor kr false := by
  simp [accountFor]; omega

end Buidl.Props.C16
