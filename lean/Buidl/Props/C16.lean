/-
  C16 — multisig descriptors: checksum, error detection, address derivation.
  Property theorems only (helper lemmas: Buidl.Proofs.Descriptor, Buidl.Proofs.DescriptorPoly).

  Model: Buidl.Model.Descriptor (constants from Buidl.Gen.Descriptor, re-extracted from /repo on every run);
  specification of the checksum: Buidl.Spec.DescriptorChecksum (Bitcoin Core's `DescriptorChecksum`, with its
  own literal constants — a changed generator constant, charset, shift or mask in descriptor.py makes
  `checksum_eq_core` fail to compile).  `hash256`, `sha256`, `hmac`, `h160` are arbitrary functions.
-/
import Buidl.Proofs.Descriptor
namespace Buidl.Props.C16
open Buidl Buidl.PyStr Buidl.HD Buidl.Descriptor

/-! ## calc_core_checksum = Bitcoin Core's DescriptorChecksum -/

theorem charsets_eq_core :
    inputCharset = Spec.DescriptorChecksum.INPUT_CHARSET ∧ checksumCharset = Spec.DescriptorChecksum.CHECKSUM_CHARSET :=
  ⟨inputCharset_eq, checksumCharset_eq⟩

/-- calc_poly_mod (a fold over the extracted generator table) is Core's `PolyMod` -/
theorem polymod_eq_core (c val : Nat) : polyMod c val = Spec.DescriptorChecksum.polyMod c val :=
  polyMod_eq c val

/-- for every text: same refusal (a character outside the charset) and same eight characters.  Core's
    algorithm is written as the symbol / class-symbol stream followed by a fold; the code interleaves them in
    one loop with three state variables. -/
theorem checksum_eq_core (desc : Str) : calcCoreChecksum desc = Spec.DescriptorChecksum.descriptorChecksum desc :=
  calcCoreChecksum_eq desc

/-! ## error detection -/

/-- replacing any one character of the body by a different one changes the checksum — for every body, every
    position and every pair of characters (if the new character is outside the charset the text is refused
    altogether: `calcCoreChecksum = none`) -/
theorem checksum_detects_substitution (pre post : Str) (ch ch' : Char) (hne : ch ≠ ch') (cs cs' : Str)
    (h : calcCoreChecksum (pre ++ ch :: post) = some cs) (h' : calcCoreChecksum (pre ++ ch' :: post) = some cs') :
    cs ≠ cs' :=
  calcCoreChecksum_detects pre post ch ch' hne cs cs' h h'

/-- the underlying code property: two symbol streams that differ only inside a window of at most eight
    consecutive symbols (a burst of up to 40 bits) reach different 40-bit states, whatever precedes and follows -/
theorem polymod_detects_window (S G G' T : List Nat) (c0 : Nat) (hc0 : c0 < 2 ^ 40)
    (hS : ∀ x ∈ S, x < 32) (hG : ∀ x ∈ G, x < 32) (hG' : ∀ x ∈ G', x < 32)
    (hl : G.length = G'.length) (h8 : G.length ≤ 8) (hne : G ≠ G') :
    (S ++ G ++ T).foldl polyMod c0 ≠ (S ++ G' ++ T).foldl polyMod c0 := by
  have e : polyMod = Spec.DescriptorChecksum.polyMod := by funext c v; exact polyMod_eq c v
  rw [e]
  exact Spec.DescriptorChecksum.fold_detects_window S G G' T c0 hc0 hS hG hG' hl h8 hne

/-- the constructor keeps `checksum = calc_core_checksum(descriptor_text)` and accepts a supplied checksum only
    if it is that one -/
theorem construct_checksum_accept (hash256 : Bytes → Bytes) (m : Int) (krs : List KeyRecord) (cs : Str) (srt : Bool)
    (d : Desc) (h : construct hash256 m krs cs srt = some d) :
    calcCoreChecksum d.text = some d.checksum ∧ (cs ≠ [] → d.checksum = cs) :=
  construct_checksum hash256 m krs cs srt d h

/-- any alteration of the eight checksum characters (or of their number) is detected: if a descriptor was
    accepted with checksum `cs`, the same body with any other non-empty checksum is refused -/
theorem construct_checksum_mismatch_rejected (hash256 : Bytes → Bytes) (m : Int) (krs : List KeyRecord)
    (cs cs' : Str) (srt : Bool) (d : Desc) (h : construct hash256 m krs cs srt = some d)
    (hcs : cs ≠ []) (hcs' : cs' ≠ []) (hne : cs' ≠ cs) : construct hash256 m krs cs' srt = none :=
  construct_checksum_altered hash256 m krs cs cs' srt d h hcs hcs' hne

/-- what `str(d)` is made of -/
theorem descriptor_text_layout (hash256 : Bytes → Bytes) (m : Int) (krs : List KeyRecord) (cs : Str) (srt : Bool)
    (d : Desc) (h : construct hash256 m krs cs srt = some d) :
    d.repr = descriptorText d.m d.keyRecords ++ '#' :: d.checksum ∧ (1 : Int) ≤ m ∧ d.m = m.toNat := by
  unfold construct at h
  simp only [Option.bind_eq_some_iff] at h
  obtain ⟨d0, hd0, h⟩ := h
  split at h
  · cases h
  · have hd : d0 = d := Option.some.inj h
    subst hd
    obtain ⟨ht, hm, hm'⟩ := constructCore_text hash256 m krs srt d0 hd0
    exact ⟨by rw [Desc.repr, ht], hm, hm'⟩

/-! ## addresses -/

section
variable (hash256 sha256 : Bytes → Bytes) (hmac : Bytes → Bytes → Bytes) (h160 : Bytes → Bytes)

/-- sorted(child keys) does not depend on the order of the child keys -/
theorem sort_keys_perm {l l' : List Bytes} (h : l.Perm l') : sortKeys l = sortKeys l' := sortKeys_perm h

/-- get_address is invariant under any permutation of the key records (same m, same network) -/
theorem get_address_perm_invariant (d d' : Desc) (hm : d.m = d'.m) (hn : d.network = d'.network)
    (hp : d.keyRecords.Perm d'.keyRecords) (offset : Nat) (isChange : Bool) :
    getAddress hash256 sha256 hmac h160 d offset isChange = getAddress hash256 sha256 hmac h160 d' offset isChange :=
  getAddress_perm hash256 sha256 hmac h160 d d' hm hn hp offset isChange

/-- get_address(offset, is_change) is the P2WSH address — witness version 0, program sha256(script) — of
    `OP_m <33-byte child key>… OP_n OP_CHECKMULTISIG` over the cosigners' child keys in lexicographic order,
    each child key being `xpub / (account_index [+1 for change]) / offset` (`leafSec`) -/
theorem get_address_eq_p2wsh (hs : ∀ b, (sha256 b).length = 32) (d : Desc) (hm1 : 1 ≤ d.m)
    (hn1 : 1 ≤ d.keyRecords.length) (offset : Nat) (isChange : Bool) (addr : Str)
    (h : getAddress hash256 sha256 hmac h160 d offset isChange = some addr) :
    ∃ keys, d.keyRecords.mapM (fun kr => leafSec hash256 hmac h160 kr offset isChange) = some keys ∧
      keys.length = d.keyRecords.length ∧ d.m ≤ 16 ∧ keys.length ≤ 16 ∧
      Bech32.encodeBech32Checksum (0 :: 32 :: sha256 (multisigBytes d.m (sortKeys keys))) d.network.toList = some addr :=
  getAddress_eq_p2wsh hash256 sha256 hmac h160 hs d hm1 hn1 offset isChange addr h

/-- the script bytes, spelled out -/
theorem p2wsh_script_bytes (m : Nat) (keys : List Bytes) :
    multisigBytes m keys = [UInt8.ofNat (80 + m)] ++ (keys.map (fun k => (33 : UInt8) :: k)).flatten ++
      [UInt8.ofNat (80 + keys.length), 174] := rfl

/-- receive and change branches use different child indices of every cosigner: change = receive + 1 -/
theorem change_index_eq_succ (kr : KeyRecord) : accountFor kr true = accountFor kr false + 1 := by
  simp [accountFor]

theorem change_index_ne_receive (kr : KeyRecord) : accountFor kr true ≠ accountFor kr false := by
  simp [accountFor]; omega

end

/-! ## non-vacuity -/

example : calcCoreChecksum "wsh(sortedmulti(1,))".toList = Spec.DescriptorChecksum.descriptorChecksum "wsh(sortedmulti(1,))".toList :=
  checksum_eq_core _

example : (calcCoreChecksum "raw(deadbeef)".toList).isSome = true := by decide +kernel

example : calcCoreChecksum "raw(deadbeef)".toList ≠ calcCoreChecksum "raw(deadbeff)".toList := by decide +kernel

example : regexesAsModelled = true := by decide

end Buidl.Props.C16
