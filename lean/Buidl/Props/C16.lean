/-
  C16 — multisig descriptors: checksum, error detection, address derivation.
  Property theorems only (helper lemmas: Buidl.Proofs.Descriptor, Buidl.Proofs.DescriptorPoly).

  `parse (str d) = d` and the checksum link are theorems about the model of `parse` itself, in which the two
  regular expressions are the hand-written matchers `matchDescriptor` / `matchKeyRecord` (compared with Python's
  `re.match` on the source patterns on every run); they are stated for the text layout the constructor emits
  (`descriptor_text_layout`), not for general regular-expression semantics.

  Model: Buidl.Model.Descriptor (constants from Buidl.Gen.Descriptor, re-extracted from /repo on every run);
  specification of the checksum: Buidl.Spec.DescriptorChecksum (Bitcoin Core's `DescriptorChecksum`, with its
  own literal constants — a changed generator constant, charset, shift or mask in descriptor.py makes
  `checksum_eq_core` fail to compile).  `hash256`, `sha256`, `hmac`, `h160` are arbitrary functions.
-/
import Buidl.Proofs.Descriptor
import Buidl.Proofs.DescriptorParse
import Buidl.Proofs.HD
namespace Buidl.Props.C16
open Buidl Buidl.PyStr Buidl.HD Buidl.Descriptor

/-! ## calc_core_checksum = Bitcoin Core's DescriptorChecksum -/

theorem charsets_eq_core :
    inputCharset = Spec.DescriptorChecksum.INPUT_CHARSET ∧ checksumCharset = Spec.DescriptorChecksum.CHECKSUM_CHARSET :=
  ⟨inputCharset_eq, checksumCharset_eq⟩

/-- calc_poly_mod (a fold over the extracted generator table) is Core's `PolyMod` -/
theorem polymod_eq_core (c val : Nat) : polyMod c val = Spec.DescriptorChecksum.polyMod c val :=
  polyMod_eq c val

/-- for every text: same refusal (a character outside the charset) and same eight characters.  Core's
    algorithm is written as the symbol / class-symbol stream followed by a fold; the code interleaves them in
    one loop with three state variables. -/
theorem checksum_eq_core (desc : Str) : calcCoreChecksum desc = Spec.DescriptorChecksum.descriptorChecksum desc :=
  calcCoreChecksum_eq desc

/-! ## error detection -/

/-- replacing any one character of the body by a different one changes the checksum — for every body, every
    position and every pair of characters (if the new character is outside the charset the text is refused
    altogether: `calcCoreChecksum = none`) -/
theorem checksum_detects_substitution (pre post : Str) (ch ch' : Char) (hne : ch ≠ ch') (cs cs' : Str)
    (h : calcCoreChecksum (pre ++ ch :: post) = some cs) (h' : calcCoreChecksum (pre ++ ch' :: post) = some cs') :
    cs ≠ cs' :=
  calcCoreChecksum_detects pre post ch ch' hne cs cs' h h'

/-- the underlying code property: two symbol streams that differ only inside a window of at most eight
    consecutive symbols (a burst of up to 40 bits) reach different 40-bit states, whatever precedes and follows -/
theorem polymod_detects_window (S G G' T : List Nat) (c0 : Nat) (hc0 : c0 < 2 ^ 40)
    (hS : ∀ x ∈ S, x < 32) (hG : ∀ x ∈ G, x < 32) (hG' : ∀ x ∈ G', x < 32)
    (hl : G.length = G'.length) (h8 : G.length ≤ 8) (hne : G ≠ G') :
    (S ++ G ++ T).foldl polyMod c0 ≠ (S ++ G' ++ T).foldl polyMod c0 := by
  have e : polyMod = Spec.DescriptorChecksum.polyMod := by funext c v; exact polyMod_eq c v
  rw [e]
  exact Spec.DescriptorChecksum.fold_detects_window S G G' T c0 hc0 hS hG hG' hl h8 hne

/-- the constructor keeps `checksum = calc_core_checksum(descriptor_text)` and accepts a supplied checksum only
    if it is that one -/
theorem construct_checksum_accept (hash256 : Bytes → Bytes) (m : Int) (krs : List KeyRecord) (cs : Str) (srt : Bool)
    (d : Desc) (h : construct hash256 m krs cs srt = some d) :
    calcCoreChecksum d.text = some d.checksum ∧ (cs ≠ [] → d.checksum = cs) :=
  construct_checksum hash256 m krs cs srt d h

/-- any alteration of the eight checksum characters (or of their number) is detected: if a descriptor was
    accepted with checksum `cs`, the same body with any other non-empty checksum is refused -/
theorem construct_checksum_mismatch_rejected (hash256 : Bytes → Bytes) (m : Int) (krs : List KeyRecord)
    (cs cs' : Str) (srt : Bool) (d : Desc) (h : construct hash256 m krs cs srt = some d)
    (hcs : cs ≠ []) (hcs' : cs' ≠ []) (hne : cs' ≠ cs) : construct hash256 m krs cs' srt = none :=
  construct_checksum_altered hash256 m krs cs cs' srt d h hcs hcs' hne

/-- what `str(d)` is made of -/
theorem descriptor_text_layout (hash256 : Bytes → Bytes) (m : Int) (krs : List KeyRecord) (cs : Str) (srt : Bool)
    (d : Desc) (h : construct hash256 m krs cs srt = some d) :
    d.repr = descriptorText d.m d.keyRecords ++ '#' :: d.checksum ∧ (1 : Int) ≤ m ∧ d.m = m.toNat := by
  unfold construct at h
  simp only [Option.bind_eq_some_iff] at h
  obtain ⟨d0, hd0, h⟩ := h
  split at h
  · cases h
  · have hd : d0 = d := Option.some.inj h
    subst hd
    obtain ⟨ht, hm, hm'⟩ := constructCore_text hash256 m krs srt d0 hd0
    exact ⟨by rw [Desc.repr, ht], hm, hm'⟩

/-! ## parse (str d) = d, and the checksum inside `parse` -/

section
variable (hash256 : Bytes → Bytes) (hmac : Bytes → Bytes → Bytes) (h160 : Bytes → Bytes)

/-- `P2WSHSortedMulti.parse(str(d)) = d` for every descriptor the constructor returns — any m, any key records,
    sorted or not, xpubs in any of the ten prefixes (they are stored in the default one) — provided `d` satisfies
    `ReprWF`: the three things `parse` insists on and the constructor does not check, namely m ≤ n; fingerprints
    in lower-case hex and paths written `m/…` without `] , ( ) * \` / newline (the constructor also takes `ABCDEF12`
    or `M/…`, whose text `parse` then refuses or reads back as another path); and the account child of every xpub
    being derivable and serialisable (`full_key_record_child_check`: exactly what parse_full_key_record adds).
    The EC and Base58Check round trips are C03's / C09's theorems; `hash256` is any function returning ≥ 4 bytes. -/
theorem parse_str_roundtrip (hh : ∀ b, 4 ≤ (hash256 b).length) (m : Int) (krs : List KeyRecord) (cs : Str)
    (srt : Bool) (d : Desc) (hc : construct hash256 m krs cs srt = some d) (wf : ReprWF hash256 hmac h160 d) :
    parse hash256 hmac h160 d.repr = some d :=
  parse_repr_rel hash256 hmac h160 (b58RoundTrip hash256 hh) hh
    (fun _ _ hb s hs => sec_roundtrip (EC.parsePoint_valid hb) s hs) m krs cs srt d hc wf

/-- the keys in a descriptor carry only the plain BIP32 version bytes: whatever SLIP-132 prefix (ypub, zpub, Ypub,
    Zpub, upub, vpub, Upub, Vpub) a cosigner's key was supplied with, the xpub the constructor stores — the one the text
    shows, the records are ordered by and the checksum covers — parses to a key whose version is XPUB[network] -/
theorem descriptor_keys_plain_version (hh : ∀ b, 4 ≤ (hash256 b).length) (m : Int) (krs : List KeyRecord) (cs : Str)
    (srt : Bool) (d : Desc) (hc : construct hash256 m krs cs srt = some d) :
    ∀ kr ∈ d.keyRecords, ∃ pk, HDPub.parse hash256 kr.xpubParent = some pk ∧ pk.network = d.network ∧
      dictGet Gen.hdXpub pk.network = some pk.pubVersion :=
  construct_plain_versions hash256 (b58RoundTrip hash256 hh)
    (fun _ _ hb s hs => sec_roundtrip (EC.parsePoint_valid hb) s hs) m krs cs srt d hc

/-- the condition `ReprWF.child` is what parse_full_key_record itself establishes for every record it returns -/
theorem full_key_record_child_check (s : Str) (kr : KeyRecord)
    (h : parseFullKeyRecord hash256 hmac h160 s = some kr) :
    ∃ pk c x, HDPub.parse hash256 kr.xpubParent = some pk ∧ pk.childI hmac h160 kr.accountIndex = some c ∧
      c.xpub hash256 none = some x :=
  parseFullKeyRecord_child hash256 hmac h160 s kr h

/-- the regular expression of `parse` on generated text: threshold digits, key-record text, checksum group -/
theorem descriptor_regex_on_generated_text (m : Nat) (recs cs : Str)
    (hrec : ∀ c ∈ recs, c ≠ '(' ∧ c ≠ ')' ∧ c ≠ '\n') (hcs : ∀ c ∈ cs, isBech32Char c = true) (hlen : cs.length = 8) :
    matchDescriptor (wshLiteral ++ (natStr m ++ ',' :: recs ++ ')' :: ')' :: '#' :: cs)) = some (natStr m, recs, some cs) :=
  matchDescriptor_generated m recs cs hrec hcs hlen

/-- checksum differs ⇒ parse refuses: whatever text `parse` accepts, the descriptor it returns carries the
    recomputed checksum of its own (regenerated) text -/
theorem parse_checksum_checked (r : Str) (d : Desc) (h : parse hash256 hmac h160 r = some d) :
    calcCoreChecksum d.text = some d.checksum :=
  parse_checksum hash256 hmac h160 r d h

/-- single-character substitution in the body, as a theorem about `parse`: take any body with its checksum `cs`
    and replace one character; no input whatsoever makes `parse` return a descriptor whose text is the altered body
    with `cs`.  (With `parse_str_roundtrip`: the genuine text parses to itself, a substituted one never does.
    What remains outside is a parse that *normalises* the altered body into a different text — xpub version bytes,
    text before `wsh(` — which then must itself carry `cs`; the exhaustive substitution run on the real parse covers it.) -/
theorem parse_detects_body_substitution (pre post : Str) (ch ch' : Char) (hne : ch ≠ ch') (cs : Str)
    (horig : calcCoreChecksum (pre ++ ch :: post) = some cs) (r : Str) (d : Desc)
    (hp : parse hash256 hmac h160 r = some d) : d.repr ≠ (pre ++ ch' :: post) ++ '#' :: cs :=
  fun hrepr => parse_never_substituted_body hash256 hmac h160 pre post ch ch' hne cs horig r d hp hrepr

/-- … and any alteration of the eight checksum characters -/
theorem parse_detects_checksum_substitution (body cs cs' : Str) (hne : cs' ≠ cs) (hlen : cs'.length = 8)
    (horig : calcCoreChecksum body = some cs) (r : Str) (d : Desc)
    (hp : parse hash256 hmac h160 r = some d) : d.repr ≠ body ++ '#' :: cs' :=
  fun hrepr => parse_never_substituted_checksum hash256 hmac h160 body cs cs' hne hlen horig r d hp hrepr

end

/-! ## addresses -/

section
variable (hash256 sha256 : Bytes → Bytes) (hmac : Bytes → Bytes → Bytes) (h160 : Bytes → Bytes)

/-- sorted(child keys) does not depend on the order of the child keys -/
theorem sort_keys_perm {l l' : List Bytes} (h : l.Perm l') : sortKeys l = sortKeys l' := sortKeys_perm h

/-- get_address is invariant under any permutation of the key records (same m, same network) -/
theorem get_address_perm_invariant (d d' : Desc) (hm : d.m = d'.m) (hn : d.network = d'.network)
    (hp : d.keyRecords.Perm d'.keyRecords) (offset : Nat) (isChange : Bool) :
    getAddress hash256 sha256 hmac h160 d offset isChange = getAddress hash256 sha256 hmac h160 d' offset isChange :=
  getAddress_perm hash256 sha256 hmac h160 d d' hm hn hp offset isChange

/-- get_address(offset, is_change) is the P2WSH address — witness version 0, program sha256(script) — of
    `OP_m <33-byte child key>… OP_n OP_CHECKMULTISIG` over the cosigners' child keys in lexicographic order,
    each child key being `xpub / (account_index [+1 for change]) / offset` (`leafSec`) -/
theorem get_address_eq_p2wsh (hs : ∀ b, (sha256 b).length = 32) (d : Desc) (hm1 : 1 ≤ d.m)
    (hn1 : 1 ≤ d.keyRecords.length) (offset : Nat) (isChange : Bool) (addr : Str)
    (h : getAddress hash256 sha256 hmac h160 d offset isChange = some addr) :
    ∃ keys, d.keyRecords.mapM (fun kr => leafSec hash256 hmac h160 kr offset isChange) = some keys ∧
      keys.length = d.keyRecords.length ∧ d.m ≤ 16 ∧ keys.length ≤ 16 ∧
      Bech32.encodeBech32Checksum (0 :: 32 :: sha256 (multisigBytes d.m (sortKeys keys))) d.network.toList = some addr :=
  getAddress_eq_p2wsh hash256 sha256 hmac h160 hs d hm1 hn1 offset isChange addr h

/-- the script bytes, spelled out -/
theorem p2wsh_script_bytes (m : Nat) (keys : List Bytes) :
    multisigBytes m keys = [UInt8.ofNat (80 + m)] ++ (keys.map (fun k => (33 : UInt8) :: k)).flatten ++
      [UInt8.ofNat (80 + keys.length), 174] := rfl

/-- receive and change branches use different child indices of every cosigner: change = receive + 1 -/
theorem change_index_eq_succ (kr : KeyRecord) : accountFor kr true = accountFor kr false + 1 := by
  simp only [accountFor, Gen.changeOffset, if_true, Bool.false_eq_true, if_false]; omega

theorem change_index_ne_receive (kr : KeyRecord) : accountFor kr true ≠ accountFor kr false := by
  simp only [accountFor, Gen.changeOffset, if_true, Bool.false_eq_true, if_false]; omega

end

/-! ## non-vacuity -/

example : calcCoreChecksum "wsh(sortedmulti(1,))".toList = Spec.DescriptorChecksum.descriptorChecksum "wsh(sortedmulti(1,))".toList :=
  checksum_eq_core _

example : (calcCoreChecksum "raw(deadbeef)".toList).isSome = true := by decide +kernel

example : calcCoreChecksum "raw(deadbeef)".toList ≠ calcCoreChecksum "raw(deadbeff)".toList := by decide +kernel

example : regexesAsModelled = true := by decide

/-- the textual conditions of `ReprWF` hold for an ordinary key origin -/
example : (∀ c ∈ "/48h/1h/0h/2h".toList,
    c ≠ ']' ∧ c ≠ ',' ∧ c ≠ '(' ∧ c ≠ ')' ∧ c ≠ '\n' ∧ c ≠ '\\' ∧ c ≠ '*') ∧
    (∀ c ∈ "c7d0648a".toList, isHexLower c = true) ∧ "c7d0648a".toList.length = 8 := by decide

end Buidl.Props.C16
