/-
  C06 — input verification accepts properly signed spends and nothing unauthorised.
  Property theorems only (helper lemmas: Buidl.Proofs.Verify, which builds on Buidl.Proofs.Interp).

  Model: Buidl.Model.Interp `verifyInput` = the repaired `Tx.verify_input` (structural tests) followed by
  `Script.evaluate` on `script_sig + script_pubkey`, configuration `Cfg.repaired` = /repo with
  work/C06/fix-F06{a,c,d,e,f,g}.diff applied (F06b was repaired by F05f, commit a5beaa1; the bound
  `len(items) >= 2` is re-extracted as Gen.opAnnexMinItems and `sound_p2tr` depends on it).
  Signature verification, key / signature / control-block parsing and the signature hash are ORACLES of
  the environment (`Env.pkErr`, `sigPre`, `ecdsaOK`, `xonlyErr`, `schnorrPre`, `schnorrOK`, `cbErr`,
  `tapCommit`); hash160 / sha256 are arbitrary functions and soundness is stated with collision
  extraction: an accepted spend with another redeem / witness script exhibits two different byte
  strings with the same hash.

  Soundness theorems quantify over EVERY scriptSig (any opcodes, pushes, conditionals), EVERY witness and
  every fuel; completeness theorems are about the scriptSig / witness shapes `finalize_*` builds.
  `parseCommands bytes = some script` hypotheses tie the committed script bytes to their parsed form
  (C04 proves parse ∘ serialize = id).
-/
import Buidl.Proofs.Verify
namespace Buidl.Props.C06
open Buidl Buidl.Script Buidl.Interp

/-- P2PKH, soundness: whatever the scriptSig (any opcodes, any pushes, conditionals) and whatever the
    witness, an accepted spend of `DUP HASH160 <h> EQUALVERIFY CHECKSIG` carries a public key hashing to
    `h` and a signature that verifies for it -/
theorem sound_p2pkh (env : Env) (h : Bytes) (ss : List Cmd) (wit : List Bytes) (fuel : Nat)
    (ha : verifyInput Cfg.repaired env ss (p2pkhCommands h) wit fuel = .accept) :
    ∃ pk tmp, env.hash160 pk = h ∧ EcdsaAuth env pk tmp := by
  unfold verifyInput at ha
  split at ha
  · cases ha
  · rw [evaluate_eq] at ha
    obtain ⟨f, S, alt, ha'⟩ := run_prefix_accept env (p2pkhCommands h) (by simp [p2pkhCommands])
      (by intro c hc; simp [p2pkhCommands] at hc; rcases hc with rfl | rfl | rfl | rfl | rfl <;> simp)
      _ fuel ss [] [] ha
    obtain ⟨pk, tmp, r, der, ht, _, hh, hsp, hpk, hsg, hv⟩ := p2pkh_tail_sound env h S alt _ f ha'
    exact ⟨pk, tmp, hh, der, ht, hsp, hpk, hsg, hv⟩

/-- P2PKH, completeness: the scriptSig `<sig> <pubkey>` that `finalize_p2pkh` builds is accepted when the
    key hashes to `h` and the signature verifies -/
theorem complete_p2pkh (env : Env) (h pk tmp : Bytes) (wit : List Bytes) (hh : env.hash160 pk = h)
    (hauth : EcdsaAuth env pk tmp) (fuel : Nat) (hf : 7 ≤ fuel) :
    verifyInput Cfg.repaired env [.push tmp, .push pk] (p2pkhCommands h) wit fuel = .accept := by
  obtain ⟨der, ht, hsp, hpk, hsg, hv⟩ := hauth
  have hs : structuralReject Cfg.repaired [.push tmp, .push pk] (p2pkhCommands h) = false := by
    simp [structuralReject, p2pkhCommands, isP2sh, isWitnessScript, isP2wpkh, isP2wsh, isP2tr]
  simp only [verifyInput, hs, Bool.false_eq_true, if_false, evaluate_eq]
  obtain ⟨f, rfl⟩ : ∃ f, fuel = f + 2 := ⟨fuel - 2, by omega⟩
  have := run_pushes env (p2pkhCommands h) (by simp [p2pkhCommands]) (noP2shTail_p2pkh h) [tmp, pk] [] []
    (if wit.isEmpty then none else some wit) false f
  simp only [List.map_cons, List.map_nil, List.length_cons, List.length_nil, List.reverse_cons,
    List.reverse_nil, List.nil_append, List.cons_append, List.append_nil] at this
  rw [show [Cmd.push tmp, Cmd.push pk] ++ p2pkhCommands h = Cmd.push tmp :: Cmd.push pk :: p2pkhCommands h from rfl,
    this]
  exact p2pkh_tail_complete env h pk tmp der ht [] [] _ hh hsp hpk hsg hv f (by omega)


/-- native P2WPKH, soundness: for every scriptSig and witness -/
theorem sound_p2wpkh (env : Env) (h : Bytes) (hl : h.length = 20) (ss : List Cmd) (wit : List Bytes) (fuel : Nat)
    (ha : verifyInput Cfg.repaired env ss (p2wpkhSpk h) wit fuel = .accept) :
    ∃ pk tmp, pk ∈ wit ∧ tmp ∈ wit ∧ env.hash160 pk = h ∧ EcdsaAuth env pk tmp := by
  unfold verifyInput at ha
  split at ha
  · cases ha
  · rename_i hs
    have hss : ss = [] := structural_witness_empty (spk := p2wpkhSpk h)
      (by simp [isWitnessScript, isP2wpkh, p2wpkhSpk, hl]) (by simpa using hs)
    subst hss
    rw [evaluate_eq, List.nil_append] at ha
    obtain ⟨items, f, hw, ha1⟩ := run_p2wpkh_program_accept env h hl [] _ fuel ha
    obtain ⟨f2, ha2⟩ := run_pushes_accept env (p2pkhCommands h) (by simp [p2pkhCommands]) (noP2shTail_p2pkh h)
      items [] [] _ false f ha1
    obtain ⟨pk, tmp, r, der, ht, hS, hh, hsp, hpk, hsg, hv⟩ := p2pkh_tail_sound env h _ [] _ f2 ha2
    have hitems : items = wit := by
      split at hw
      · cases hw
      · simpa using hw.symm
    subst hitems
    simp only [List.append_nil] at hS
    have hpkm : pk ∈ items := by
      have : pk ∈ items.reverse := by rw [hS]; simp
      simpa using this
    have htm : tmp ∈ items := by
      have : tmp ∈ items.reverse := by rw [hS]; simp
      simpa using this
    exact ⟨pk, tmp, hpkm, htm, hh, der, ht, hsp, hpk, hsg, hv⟩

/-- native P2WPKH, completeness: empty scriptSig, witness `[sig, pubkey]` -/
theorem complete_p2wpkh (env : Env) (h pk tmp : Bytes) (hl : h.length = 20) (hh : env.hash160 pk = h)
    (hauth : EcdsaAuth env pk tmp) (fuel : Nat) (hf : 9 ≤ fuel) :
    verifyInput Cfg.repaired env [] (p2wpkhSpk h) [tmp, pk] fuel = .accept := by
  obtain ⟨der, ht, hsp, hpk, hsg, hv⟩ := hauth
  have hs : structuralReject Cfg.repaired [] (p2wpkhSpk h) = false := by
    simp [structuralReject, p2wpkhSpk, isP2sh]
  simp only [verifyInput, hs, Bool.false_eq_true, if_false, evaluate_eq, List.nil_append]
  obtain ⟨f, rfl⟩ : ∃ f, fuel = (f + 2) + 2 := ⟨fuel - 4, by omega⟩
  have hw : (if ([tmp, pk] : List Bytes).isEmpty then none else some [tmp, pk]) = some [tmp, pk] := rfl
  rw [hw, run_p2wpkh_program env h hl [] [tmp, pk] (f + 2)]
  have := run_pushes env (p2pkhCommands h) (by simp [p2pkhCommands]) (noP2shTail_p2pkh h) [tmp, pk] [] []
    (some [tmp, pk]) false f
  simp only [List.length_cons, List.length_nil] at this
  rw [this]
  exact p2pkh_tail_complete env h pk tmp der ht [] [] _ hh hsp hpk hsg hv f (by omega)



/-- P2SH m-of-n multisig, soundness: for every (push-only, as BIP16 demands) scriptSig an accepted spend
    either exhibits a second preimage of the script hash or carries m signatures that verify, in order,
    for m distinct keys of the redeem script -/
theorem sound_p2sh_multisig (env : Env) (rs : Bytes) (m : Nat) (pks : List Bytes) (hm : 1 ≤ m ∧ m ≤ 16)
    (hn : 1 ≤ pks.length ∧ pks.length ≤ 16) (hparse : parseCommands rs = some (multisigScript m pks))
    (hrs : 1 < rs.length) (hh : (env.hash160 rs).length = 20) (ss : List Cmd) (wit : List Bytes) (fuel : Nat)
    (ha : verifyInput Cfg.repaired env ss (p2shSpk (env.hash160 rs)) wit fuel = .accept) :
    (∃ x, x ≠ rs ∧ env.hash160 x = env.hash160 rs) ∨ MultisigAuth env m pks := by
  unfold verifyInput at ha
  split at ha
  · cases ha
  · rename_i hs
    obtain ⟨hpo, _⟩ := structural_p2sh hh (by simpa using hs)
    rw [evaluate_eq] at ha
    rcases p2sh_accept_cases env _ ss _ fuel hpo ha with ⟨pre, x, S, alt', f, st', _, _, hstep, harun⟩ | ⟨j, hj, hjl⟩
    · rw [step_push_p2sh env x _ hh] at hstep
      split at hstep
      · rename_i heq
        have heq' : env.hash160 rs = env.hash160 x := by simpa using heq
        by_cases hx : x = rs
        · subst hx
          right
          rw [hparse] at hstep
          have hne : (multisigScript m pks).isEmpty = false := by simp [multisigScript]
          simp only [hne, Bool.not_false, if_true, Except.ok.injEq] at hstep
          subst hstep
          obtain ⟨hlen, sigs, hsp, hmatch, hpk, hpre⟩ := multisig_script_sound env m pks hm hn S alt' _ f harun
          exact ⟨S.take m, sigs, by simp; omega, hsp, hmatch, hpk, hpre⟩
        · exact Or.inl ⟨x, hx, heq'.symm⟩
      · cases hstep
    · left
      refine ⟨encodeNum j, ?_, hj⟩
      intro e
      rw [e] at hjl
      omega


/-- P2SH-P2WPKH, soundness: for every scriptSig and witness -/
theorem sound_p2sh_p2wpkh (env : Env) (rs kh : Bytes) (hkh : kh.length = 20)
    (hparse : parseCommands rs = some (p2wpkhSpk kh)) (hrs : 1 < rs.length)
    (hh : (env.hash160 rs).length = 20) (ss : List Cmd) (wit : List Bytes) (fuel : Nat)
    (ha : verifyInput Cfg.repaired env ss (p2shSpk (env.hash160 rs)) wit fuel = .accept) :
    (∃ x, x ≠ rs ∧ env.hash160 x = env.hash160 rs) ∨
    (∃ pk tmp, pk ∈ wit ∧ tmp ∈ wit ∧ env.hash160 pk = kh ∧ EcdsaAuth env pk tmp) := by
  unfold verifyInput at ha
  split at ha
  · cases ha
  · rename_i hs
    obtain ⟨hpo, hnest⟩ := structural_p2sh hh (by simpa using hs)
    rw [evaluate_eq] at ha
    rcases p2sh_accept_cases env _ ss _ fuel hpo ha with ⟨pre, x, S, alt', f, st', hss, hpre, hstep, harun⟩ | ⟨j, hj, hjl⟩
    · rw [step_push_p2sh env x _ hh] at hstep
      split at hstep
      · rename_i heq
        have heq' : env.hash160 rs = env.hash160 x := by simpa using heq
        by_cases hx : x = rs
        · subst hx
          right
          rw [hparse] at hstep
          have hne : (p2wpkhSpk kh).isEmpty = false := by simp [p2wpkhSpk]
          simp only [hne, Bool.not_false, if_true, Except.ok.injEq] at hstep
          subst hstep
          rw [hss] at hnest
          have hpre0 : pre = [] := nested_alone hparse (by simp [isWitnessScript, isP2wpkh, p2wpkhSpk, hkh]) hnest
          obtain ⟨hS, halt⟩ := hpre hpre0
          subst hS halt
          obtain ⟨items, f1, hw, ha1⟩ := run_p2wpkh_program_accept env kh hkh [] _ f harun
          obtain ⟨f2, ha2⟩ := run_pushes_accept env (p2pkhCommands kh) (by simp [p2pkhCommands])
            (noP2shTail_p2pkh kh) items [] [] _ false f1 ha1
          obtain ⟨pk, tmp, r, der, ht, hS, hh', hsp, hpk, hsg, hv⟩ := p2pkh_tail_sound env kh _ [] _ f2 ha2
          have hitems : items = wit := by
            split at hw
            · cases hw
            · simpa using hw.symm
          subst hitems
          simp only [List.append_nil] at hS
          have hpkm : pk ∈ items := by
            have : pk ∈ items.reverse := by rw [hS]; simp
            simpa using this
          have htm : tmp ∈ items := by
            have : tmp ∈ items.reverse := by rw [hS]; simp
            simpa using this
          exact ⟨pk, tmp, hpkm, htm, hh', der, ht, hsp, hpk, hsg, hv⟩
        · exact Or.inl ⟨x, hx, heq'.symm⟩
      · cases hstep
    · left
      refine ⟨encodeNum j, ?_, hj⟩
      intro e
      rw [e] at hjl
      omega


/-- native P2WSH m-of-n multisig, soundness: for every scriptSig and witness -/
theorem sound_p2wsh_multisig (env : Env) (ws : Bytes) (m : Nat) (pks : List Bytes) (hm : 1 ≤ m ∧ m ≤ 16)
    (hn : 1 ≤ pks.length ∧ pks.length ≤ 16) (hparse : parseCommands ws = some (multisigScript m pks))
    (hh : (env.sha256 ws).length = 32) (ss : List Cmd) (wit : List Bytes) (fuel : Nat)
    (ha : verifyInput Cfg.repaired env ss (p2wshSpk (env.sha256 ws)) wit fuel = .accept) :
    (∃ x, x ≠ ws ∧ env.sha256 x = env.sha256 ws) ∨ MultisigAuth env m pks := by
  unfold verifyInput at ha
  split at ha
  · cases ha
  · rename_i hs
    have hss : ss = [] := by
      have hw : (isWitnessScript (p2wshSpk (env.sha256 ws)) || isP2tr (p2wshSpk (env.sha256 ws))) = true := by
        simp [isWitnessScript, isP2wsh, p2wshSpk, hh]
      have hs' : structuralReject Cfg.repaired ss (p2wshSpk (env.sha256 ws)) = false := by simpa using hs
      simp only [structuralReject, Cfg.repaired, Bool.true_and, hw, Bool.or_eq_false_iff, Bool.and_eq_false_imp] at hs'
      simpa using hs'.2
    subst hss
    rw [evaluate_eq, List.nil_append] at ha
    obtain ⟨items, w, initRev, cs, f, _, _, hsha, hp, ha1⟩ := run_p2wsh_program_accept env _ hh [] _ fuel ha
    by_cases hx : w = ws
    · subst hx
      right
      rw [hparse] at hp
      simp only [Option.some.injEq] at hp
      subst hp
      obtain ⟨f2, ha2⟩ := run_pushes_accept env (multisigScript m pks) (by simp [multisigScript])
        (noP2shTail_multisigScript m pks hn.1) initRev.reverse [] [] _ false f ha1
      obtain ⟨hlen, sigs, hsp, hmatch, hpk, hpre⟩ := multisig_script_sound env m pks hm hn _ [] _ f2 ha2
      simp only [List.reverse_reverse, List.append_nil] at hlen hsp
      exact ⟨_, sigs, by simp; omega, hsp, hmatch, hpk, hpre⟩
    · exact Or.inl ⟨w, hx, hsha.symm⟩

/-- P2SH-P2WSH m-of-n multisig, soundness: for every scriptSig and witness -/
theorem sound_p2sh_p2wsh_multisig (env : Env) (rs ws : Bytes) (m : Nat) (pks : List Bytes) (hm : 1 ≤ m ∧ m ≤ 16)
    (hn : 1 ≤ pks.length ∧ pks.length ≤ 16) (hparseW : parseCommands ws = some (multisigScript m pks))
    (hw32 : (env.sha256 ws).length = 32) (hparseR : parseCommands rs = some (p2wshSpk (env.sha256 ws)))
    (hrs : 1 < rs.length) (hh : (env.hash160 rs).length = 20) (ss : List Cmd) (wit : List Bytes) (fuel : Nat)
    (ha : verifyInput Cfg.repaired env ss (p2shSpk (env.hash160 rs)) wit fuel = .accept) :
    (∃ x, x ≠ rs ∧ env.hash160 x = env.hash160 rs) ∨ (∃ x, x ≠ ws ∧ env.sha256 x = env.sha256 ws) ∨
    MultisigAuth env m pks := by
  unfold verifyInput at ha
  split at ha
  · cases ha
  · rename_i hs
    obtain ⟨hpo, hnest⟩ := structural_p2sh hh (by simpa using hs)
    rw [evaluate_eq] at ha
    rcases p2sh_accept_cases env _ ss _ fuel hpo ha with ⟨pre, x, S, alt', f, st', hss, hpre, hstep, harun⟩ | ⟨j, hj, hjl⟩
    · rw [step_push_p2sh env x _ hh] at hstep
      split at hstep
      · rename_i heq
        have heq' : env.hash160 rs = env.hash160 x := by simpa using heq
        by_cases hx : x = rs
        · subst hx
          right
          rw [hparseR] at hstep
          have hne : (p2wshSpk (env.sha256 ws)).isEmpty = false := by simp [p2wshSpk]
          simp only [hne, Bool.not_false, if_true, Except.ok.injEq] at hstep
          subst hstep
          rw [hss] at hnest
          have hpre0 : pre = [] :=
            nested_alone hparseR (by simp [isWitnessScript, isP2wsh, p2wshSpk, hw32]) hnest
          obtain ⟨hS, halt⟩ := hpre hpre0
          subst hS halt
          obtain ⟨items, w, initRev, cs, f1, _, _, hsha, hp, ha1⟩ := run_p2wsh_program_accept env _ hw32 [] _ f harun
          by_cases hxw : w = ws
          · subst hxw
            right
            rw [hparseW] at hp
            simp only [Option.some.injEq] at hp
            subst hp
            obtain ⟨f2, ha2⟩ := run_pushes_accept env (multisigScript m pks) (by simp [multisigScript])
              (noP2shTail_multisigScript m pks hn.1) initRev.reverse [] [] _ false f1 ha1
            obtain ⟨hlen, sigs, hsp, hmatch, hpk, hpre'⟩ := multisig_script_sound env m pks hm hn _ [] _ f2 ha2
            simp only [List.reverse_reverse, List.append_nil] at hlen hsp
            exact ⟨_, sigs, by simp; omega, hsp, hmatch, hpk, hpre'⟩
          · exact Or.inl ⟨w, hxw, hsha.symm⟩
        · exact Or.inl ⟨x, hx, heq'.symm⟩
      · cases hstep
    · left
      refine ⟨encodeNum j, ?_, hj⟩
      intro e
      rw [e] at hjl
      omega

/-- P2TR, soundness: for every scriptSig and witness an accepted spend of `OP_1 <x>` is a key-path spend
    with a Schnorr signature that verifies for the output key `x`, or a script-path spend whose control
    block commits the executed script BYTES to `x` (`tapCommit` = taproot tweak of the leaf/branch hashes)
    and whose script (run with the tapscript table on the remaining witness items) accepts -/
theorem sound_p2tr (env : Env) (x : Bytes) (hl : x.length = 32) (ss : List Cmd) (wit : List Bytes) (fuel : Nat)
    (ha : verifyInput Cfg.repaired env ss (p2trSpk x) wit fuel = .accept) :
    ∃ items, (items = wit ∨ items = wit.dropLast) ∧
      ((∃ sig, items = [sig] ∧ schnorrCheck env x sig = .ok (some true)) ∨ ScriptPath env x [] items) := by
  unfold verifyInput at ha
  split at ha
  · cases ha
  · rename_i hs
    have hss : ss = [] := by
      have hw : (isWitnessScript (p2trSpk x) || isP2tr (p2trSpk x)) = true := by
        simp [isP2tr, p2trSpk, hl]
      have hs' : structuralReject Cfg.repaired ss (p2trSpk x) = false := by simpa using hs
      simp only [structuralReject, Cfg.repaired, Bool.true_and, hw, Bool.or_eq_false_iff, Bool.and_eq_false_imp] at hs'
      simpa using hs'.2
    subst hss
    rw [evaluate_eq, List.nil_append] at ha
    obtain ⟨items0, items, hw, hor, hcase⟩ := run_p2tr_accept env x hl [] _ fuel ha
    have h0 : items0 = wit := by
      split at hw
      · cases hw
      · simpa using hw.symm
    subst h0
    exact ⟨items, hor, hcase⟩

/-- a k-of-n MultiSigTapScript leaf (n ≥ 2) executed on the witness items of a script-path spend accepts
    only if exactly `k` of the signatures, one per key in script order, verify -/
theorem tapleaf_multisig_sound (env : Env) (x0 : Bytes) (xs : List Bytes) (k : Nat) (hk : 1 ≤ k ∧ k ≤ 16)
    (hxs : xs ≠ []) (items : List Bytes) (alt : Stack) (wit : Option (List Bytes)) (fuel : Nat)
    (ha : run Cfg.repaired env fuel ⟨items.map .push ++ tapMultisigScript x0 xs k, [], alt, wit, true⟩ = .accept) :
    ∃ sigs rest, items.reverse = sigs ++ rest ∧ sigs.length = xs.length + 1 ∧
      countValid env (x0 :: xs) sigs = k := by
  have hlen4 : 4 ≤ (tapMultisigScript x0 xs k).length := by
    cases xs with
    | nil => exact absurd rfl hxs
    | cons a r => simp [tapMultisigScript, addChain]
  obtain ⟨f1, ha1⟩ := run_pushes_accept env (tapMultisigScript x0 xs k) (by simp [tapMultisigScript])
    (noP2shTail_of_length hlen4) items [] alt wit true fuel ha
  simp only [List.append_nil] at ha1
  have e : tapMultisigScript x0 xs k = .push x0 :: .op 0xAC :: (addChain xs ++ [.op (80 + k), .op 0x87]) := by
    simp [tapMultisigScript]
  rw [e] at ha1
  obtain ⟨f2, st2, rfl, hs2, ha2⟩ := run_accept_cons (c := .push x0)
    (rest := .op 0xAC :: (addChain xs ++ [.op (80 + k), .op 0x87])) rfl ha1
  rw [step_push_first env _ x0 (.op 0xAC) _ rfl (by simp)] at hs2
  simp only [Except.ok.injEq] at hs2
  subst hs2
  obtain ⟨f3, st3, rfl, hs3, ha3⟩ := run_accept_cons (c := .op 0xAC)
    (rest := addChain xs ++ [.op (80 + k), .op 0x87]) rfl ha2
  rw [step_op _ _ _ true 0xAC .checksigSchnorr rfl (by decide) (by decide) (by decide)] at hs3
  obtain ⟨s3, e3, k3⟩ := toOut_ok hs3
  simp only [applyStackFn] at e3
  cases hrev : items.reverse with
  | nil => rw [hrev] at e3; simp [op_checksig_schnorr] at e3
  | cons sig S' =>
    rw [hrev] at e3
    simp only [op_checksig_schnorr] at e3
    have hs3' : s3 = encodeNum ((sigCount env x0 sig : Nat) : Int) :: S' := by
      unfold sigCount
      cases hc : schnorrCheck env x0 sig with
      | fail => rw [hc] at e3; cases e3
      | err e => rw [hc] at e3; cases e3
      | ok r =>
        rw [hc] at e3
        cases r with
        | none => simp only [Res.bind, Res.ok.injEq] at e3; subst e3; simp
        | some b =>
          simp only [Res.bind, Res.ok.injEq] at e3
          subst e3
          cases b <;> simp [boolNum]
    subst hs3'
    simp only [Except.ok.injEq] at k3
    subst k3
    obtain ⟨sigs, rest, hS, hlen, hcnt⟩ := addChain_sound env k hk alt wit xs (sigCount env x0 sig) S' f3 ha3
    exact ⟨sig :: sigs, rest, by simp [hS], by simp [hlen], by simp [countValid]; omega⟩




/-- P2SH-P2WPKH, completeness: scriptSig `[redeem script]`, witness `[sig, pubkey]` -/
theorem complete_p2sh_p2wpkh (env : Env) (rs kh pk tmp : Bytes) (hkh : kh.length = 20)
    (hparse : parseCommands rs = some (p2wpkhSpk kh)) (hh : (env.hash160 rs).length = 20)
    (hk : env.hash160 pk = kh) (hauth : EcdsaAuth env pk tmp) (fuel : Nat) (hf : 10 ≤ fuel) :
    verifyInput Cfg.repaired env [.push rs] (p2shSpk (env.hash160 rs)) [tmp, pk] fuel = .accept := by
  obtain ⟨der, ht, hsp, hpk, hsg, hv⟩ := hauth
  have hs : structuralReject Cfg.repaired [.push rs] (p2shSpk (env.hash160 rs)) = false := by
    simp [structuralReject, p2shSpk, isP2sh, hh, hasOpAbove16, nestedWitnessNotAlone, isWitnessScript, isP2wpkh,
      isP2wsh, isP2tr, Cfg.repaired]
  simp only [verifyInput, hs, Bool.false_eq_true, if_false, evaluate_eq]
  obtain ⟨f, rfl⟩ : ∃ f, fuel = ((f + 2) + 2) + 1 := ⟨fuel - 5, by omega⟩
  have hw : (if ([tmp, pk] : List Bytes).isEmpty then none else some [tmp, pk]) = some [tmp, pk] := rfl
  rw [hw, show [Cmd.push rs] ++ p2shSpk (env.hash160 rs) = Cmd.push rs :: p2shSpk (env.hash160 rs) from rfl,
    run_cons _ _ _ _ (.push rs) (p2shSpk (env.hash160 rs)) rfl, step_push_p2sh env rs _ hh]
  simp only [beq_self_eq_true, if_true, hparse]
  have hne : (p2wpkhSpk kh).isEmpty = false := by simp [p2wpkhSpk]
  simp only [hne, Bool.not_false, if_true]
  rw [run_p2wpkh_program env kh hkh [] [tmp, pk] (f + 2)]
  have := run_pushes env (p2pkhCommands kh) (by simp [p2pkhCommands]) (noP2shTail_p2pkh kh) [tmp, pk] [] []
    (some [tmp, pk]) false f
  simp only [List.length_cons, List.length_nil] at this
  rw [this]
  exact p2pkh_tail_complete env kh pk tmp der ht [] [] _ hk hsp hpk hsg hv f (by omega)

/-- P2SH m-of-n, completeness: scriptSig `OP_0 <sig_1> … <sig_m> <redeem script>` -/
theorem complete_p2sh_multisig (env : Env) (rs : Bytes) (pks raw : List Bytes) (hm : 1 ≤ raw.length ∧ raw.length ≤ 16)
    (hn : 1 ≤ pks.length ∧ pks.length ≤ 16) (hparse : parseCommands rs = some (multisigScript raw.length pks))
    (hh : (env.hash160 rs).length = 20) (hw : MultisigWitness env pks raw) (wit : List Bytes) (fuel : Nat)
    (hf : raw.length + pks.length + 6 ≤ fuel) :
    verifyInput Cfg.repaired env (.op 0 :: (raw.map .push ++ [.push rs])) (p2shSpk (env.hash160 rs)) wit fuel
      = .accept := by
  obtain ⟨sigs, hsp, hmatch, hpk, hpre⟩ := hw
  have hms : isWitnessScript (multisigScript raw.length pks) = false := by
    have : 4 ≤ (multisigScript raw.length pks).length := by simp [multisigScript]; omega
    cases hc : multisigScript raw.length pks with
    | nil => rw [hc] at this; simp at this
    | cons a r =>
      cases r with
      | nil => rw [hc] at this; simp at this
      | cons b r2 =>
        cases r2 with
        | nil => rw [hc] at this; simp at this
        | cons c r3 => simp [isWitnessScript, isP2wpkh, isP2wsh]
  have hs : structuralReject Cfg.repaired (.op 0 :: (raw.map .push ++ [.push rs])) (p2shSpk (env.hash160 rs)) = false := by
    have h1 : hasOpAbove16 (.op 0 :: (raw.map .push ++ [.push rs])) = false := by
      have := hasOpAbove16_pushes (raw ++ [rs])
      simpa [hasOpAbove16] using this
    have hlast : (Cmd.op 0 :: (raw.map .push ++ [Cmd.push rs])).getLast? = some (.push rs) := by
      have e0 : Cmd.op 0 :: (raw.map Cmd.push ++ [Cmd.push rs]) = (Cmd.op 0 :: raw.map Cmd.push) ++ [Cmd.push rs] := rfl
      rw [e0, List.getLast?_append]
      simp
    have h2 : nestedWitnessNotAlone (.op 0 :: (raw.map .push ++ [.push rs])) = false := by
      simp only [nestedWitnessNotAlone, hlast, hparse, hms, Bool.and_false]
    simp [structuralReject, h1, h2, p2shSpk, isWitnessScript, isP2wpkh, isP2wsh, isP2tr]
  simp only [verifyInput, hs, Bool.false_eq_true, if_false, evaluate_eq]
  obtain ⟨f, rfl⟩ : ∃ f, fuel = ((f + 1) + raw.length) + 1 := ⟨fuel - raw.length - 2, by omega⟩
  have e : Cmd.op 0 :: (raw.map .push ++ [Cmd.push rs]) ++ p2shSpk (env.hash160 rs)
      = Cmd.op 0 :: (raw.map .push ++ (Cmd.push rs :: p2shSpk (env.hash160 rs))) := by simp
  rw [e, run_cons _ _ _ _ (.op 0) _ rfl, step_op _ _ _ false 0 (.num 0) rfl (by decide) (by decide) (by decide)]
  simp only [applyStackFn, op_num, Res.toOut]
  rw [run_pushes env (.push rs :: p2shSpk (env.hash160 rs)) (by simp) (noP2shTail_pushP2sh _ _) raw _ [] _ false (f + 1)]
  rw [run_cons _ _ f _ (.push rs) (p2shSpk (env.hash160 rs)) rfl, step_push_p2sh env rs _ hh]
  simp only [beq_self_eq_true, if_true, hparse]
  have hne : (multisigScript raw.length pks).isEmpty = false := by simp [multisigScript]
  simp only [hne, Bool.not_false, if_true]
  refine multisig_script_complete env raw.length pks hm hn _ [] _ sigs (by simp) ?_ hmatch hpk hpre f (by omega)
  have : (raw.reverse ++ [encodeNum 0]).take raw.length = raw.reverse := take_append_len _ _ _ (by simp)
  rw [this]; exact hsp

/-- native P2WSH m-of-n, completeness: witness `<> <sig_1> … <sig_m> <witness script>` -/
theorem complete_p2wsh_multisig (env : Env) (ws : Bytes) (pks raw : List Bytes)
    (hm : 1 ≤ raw.length ∧ raw.length ≤ 16) (hn : 1 ≤ pks.length ∧ pks.length ≤ 16)
    (hparse : parseCommands ws = some (multisigScript raw.length pks)) (hh : (env.sha256 ws).length = 32)
    (hw : MultisigWitness env pks raw) (fuel : Nat) (hf : raw.length + pks.length + 7 ≤ fuel) :
    verifyInput Cfg.repaired env [] (p2wshSpk (env.sha256 ws)) ([] :: raw ++ [ws]) fuel = .accept := by
  obtain ⟨sigs, hsp, hmatch, hpk, hpre⟩ := hw
  have hs : structuralReject Cfg.repaired [] (p2wshSpk (env.sha256 ws)) = false := by
    simp [structuralReject, p2wshSpk, isP2sh]
  simp only [verifyInput, hs, Bool.false_eq_true, if_false, evaluate_eq, List.nil_append]
  obtain ⟨f, rfl⟩ : ∃ f, fuel = (f + (raw.length + 1)) + 2 := ⟨fuel - raw.length - 3, by omega⟩
  have hwit : (if (([] : Bytes) :: raw ++ [ws]).isEmpty then none else some (([] : Bytes) :: raw ++ [ws]))
      = some (([] : Bytes) :: raw ++ [ws]) := rfl
  have hr : (([] : Bytes) :: raw ++ [ws]).reverse = ws :: (raw.reverse ++ [[]]) := by simp
  rw [hwit, run_p2wsh_program env _ ws hh [] _ (raw.reverse ++ [[]]) _ hr rfl hparse]
  have hrr : (raw.reverse ++ [([] : Bytes)]).reverse = [] :: raw := by simp
  rw [hrr]
  have := run_pushes env (multisigScript raw.length pks) (by simp [multisigScript]) (noP2shTail_multisigScript _ pks hn.1)
    (([] : Bytes) :: raw) [] [] (some (([] : Bytes) :: raw ++ [ws])) false f
  simp only [List.length_cons] at this
  rw [this]
  refine multisig_script_complete env raw.length pks hm hn _ [] _ sigs (by simp) ?_ hmatch hpk hpre f (by omega)
  have : ((([] : Bytes) :: raw).reverse ++ []).take raw.length = raw.reverse := by
    simp only [List.reverse_cons, List.append_nil]
    exact take_append_len _ _ _ (by simp)
  rw [this]; exact hsp

/-- P2TR key path, completeness: witness `[sig]` with a signature the output key verifies -/
theorem complete_p2tr_keypath (env : Env) (x sig : Bytes) (hl : x.length = 32)
    (hv : schnorrCheck env x sig = .ok (some true)) (fuel : Nat) (hf : 2 ≤ fuel) :
    verifyInput Cfg.repaired env [] (p2trSpk x) [sig] fuel = .accept := by
  have hs : structuralReject Cfg.repaired [] (p2trSpk x) = false := by
    simp [structuralReject, p2trSpk, isP2sh]
  simp only [verifyInput, hs, Bool.false_eq_true, if_false, evaluate_eq, List.nil_append]
  obtain ⟨f, rfl⟩ : ∃ f, fuel = f + 2 := ⟨fuel - 2, by omega⟩
  have hwit : (if ([sig] : List Bytes).isEmpty then none else some [sig]) = some [sig] := rfl
  have h81 : (0x51 : Nat) = 80 + 1 := rfl
  rw [hwit, p2trSpk, run_cons _ _ (f + 1) _ (.op 0x51) [.push x] rfl, h81, step_num _ _ _ 1 (by omega) (by omega)]
  simp only
  rw [run_cons _ _ f _ (.push x) [] rfl, step_push_end _ _ _ rfl]
  have e1 : encodeNum ((1 : Nat) : Int) = [1] := rfl
  simp only [e1]
  have n20 : ¬ ((32 : Nat) = 20) := by decide
  have n1 : ¬ (([1] : Bytes) = []) := by simp
  have ha : hasAnnex [sig] = .ok false := by simp [hasAnnex, Gen.opAnnexMinItems]
  have hc : op_checksig_schnorr env [x, sig] = .ok [boolNum true] := by simp [op_checksig_schnorr, hv, Res.bind]
  simp only [witnessRules, hl, n20, n1, and_false, false_and, if_false, true_and, if_true, and_self,
    List.length_cons, List.length_nil, ha, Res.toOut, Bool.false_eq_true, hc]
  simp only [show ¬ ((0 : Nat) + 1 = 0) by omega, if_false, if_true]
  rw [run_nil _ _ _ _ rfl]
  simp [finalTest, Cfg.repaired, op_verify, decodeNum_boolNum]


/-- P2SH-P2WSH m-of-n, completeness: scriptSig `[redeem script]`, witness `<> <sig_1> … <sig_m> <witness script>` -/
theorem complete_p2sh_p2wsh_multisig (env : Env) (rs ws : Bytes) (pks raw : List Bytes)
    (hm : 1 ≤ raw.length ∧ raw.length ≤ 16) (hn : 1 ≤ pks.length ∧ pks.length ≤ 16)
    (hparseW : parseCommands ws = some (multisigScript raw.length pks)) (hw32 : (env.sha256 ws).length = 32)
    (hparseR : parseCommands rs = some (p2wshSpk (env.sha256 ws))) (hh : (env.hash160 rs).length = 20)
    (hw : MultisigWitness env pks raw) (fuel : Nat) (hf : raw.length + pks.length + 8 ≤ fuel) :
    verifyInput Cfg.repaired env [.push rs] (p2shSpk (env.hash160 rs)) ([] :: raw ++ [ws]) fuel = .accept := by
  obtain ⟨sigs, hsp, hmatch, hpk, hpre⟩ := hw
  have hs : structuralReject Cfg.repaired [.push rs] (p2shSpk (env.hash160 rs)) = false := by
    simp [structuralReject, p2shSpk, isP2sh, hh, hasOpAbove16, nestedWitnessNotAlone, isWitnessScript, isP2wpkh,
      isP2wsh, isP2tr, Cfg.repaired]
  simp only [verifyInput, hs, Bool.false_eq_true, if_false, evaluate_eq]
  obtain ⟨f, rfl⟩ : ∃ f, fuel = ((f + (raw.length + 1)) + 2) + 1 := ⟨fuel - raw.length - 4, by omega⟩
  have hwit : (if (([] : Bytes) :: raw ++ [ws]).isEmpty then none else some (([] : Bytes) :: raw ++ [ws]))
      = some (([] : Bytes) :: raw ++ [ws]) := rfl
  rw [hwit, show [Cmd.push rs] ++ p2shSpk (env.hash160 rs) = Cmd.push rs :: p2shSpk (env.hash160 rs) from rfl,
    run_cons _ _ _ _ (.push rs) (p2shSpk (env.hash160 rs)) rfl, step_push_p2sh env rs _ hh]
  simp only [beq_self_eq_true, if_true, hparseR]
  have hne : (p2wshSpk (env.sha256 ws)).isEmpty = false := by simp [p2wshSpk]
  simp only [hne, Bool.not_false, if_true]
  have hr : (([] : Bytes) :: raw ++ [ws]).reverse = ws :: (raw.reverse ++ [[]]) := by simp
  rw [run_p2wsh_program env _ ws hw32 [] _ (raw.reverse ++ [[]]) _ hr rfl hparseW]
  have hrr : (raw.reverse ++ [([] : Bytes)]).reverse = [] :: raw := by simp
  rw [hrr]
  have := run_pushes env (multisigScript raw.length pks) (by simp [multisigScript])
    (noP2shTail_multisigScript _ pks hn.1) (([] : Bytes) :: raw) [] [] (some (([] : Bytes) :: raw ++ [ws])) false f
  simp only [List.length_cons] at this
  rw [this]
  refine multisig_script_complete env raw.length pks hm hn _ [] _ sigs (by simp) ?_ hmatch hpk hpre f (by omega)
  have : ((([] : Bytes) :: raw).reverse ++ []).take raw.length = raw.reverse := by
    simp only [List.reverse_cons, List.append_nil]
    exact take_append_len _ _ _ (by simp)
  rw [this]; exact hsp

/-- a single-key tapscript leaf `<x> CHECKSIG` (P2PKTapScript, 1-of-1 MultiSigTapScript, MuSigTapScript)
    accepts only with a non-empty signature on top that verifies for `x` -/
theorem tapleaf_single_sound (env : Env) (x0 : Bytes) (items : List Bytes) (alt : Stack)
    (wit : Option (List Bytes)) (fuel : Nat)
    (ha : run Cfg.repaired env fuel ⟨items.map .push ++ [.push x0, .op 0xAC], [], alt, wit, true⟩ = .accept) :
    ∃ sig rest, items.reverse = sig :: rest ∧ schnorrCheck env x0 sig = .ok (some true) := by
  have hnp : NoP2shTail [Cmd.push x0, Cmd.op 0xAC] := by
    intro X h160 e
    have h3 : X.length = 1 := by have := congrArg List.length e; simp at this; omega
    match X, h3 with
    | [y], _ => simp at e
  obtain ⟨f1, ha1⟩ := run_pushes_accept env [.push x0, .op 0xAC] (by simp) hnp items [] alt wit true fuel ha
  simp only [List.append_nil] at ha1
  obtain ⟨f2, st2, rfl, hs2, ha2⟩ := run_accept_cons (c := .push x0) (rest := [.op 0xAC]) rfl ha1
  rw [step_push_first env _ x0 (.op 0xAC) _ rfl (by simp)] at hs2
  simp only [Except.ok.injEq] at hs2
  subst hs2
  obtain ⟨f3, st3, rfl, hs3, ha3⟩ := run_accept_cons (c := .op 0xAC) (rest := []) rfl ha2
  rw [step_op _ _ _ true 0xAC .checksigSchnorr rfl (by decide) (by decide) (by decide)] at hs3
  obtain ⟨s3, e3, k3⟩ := toOut_ok hs3
  simp only [applyStackFn] at e3
  cases hrev : items.reverse with
  | nil => rw [hrev] at e3; simp [op_checksig_schnorr] at e3
  | cons sig S' =>
    rw [hrev] at e3
    simp only [Except.ok.injEq] at k3
    subst k3
    have hfin := run_accept_nil rfl ha3
    simp only [op_checksig_schnorr] at e3
    cases hc : schnorrCheck env x0 sig with
    | fail => rw [hc] at e3; cases e3
    | err e => rw [hc] at e3; cases e3
    | ok r =>
      rw [hc] at e3
      cases r with
      | none =>
        simp only [Res.bind, Res.ok.injEq] at e3
        subst e3
        simp [finalTest, Cfg.repaired, op_verify, decodeNum_encodeNum] at hfin
      | some b =>
        simp only [Res.bind, Res.ok.injEq] at e3
        subst e3
        cases b with
        | true => exact ⟨sig, S', rfl, hc⟩
        | false => simp [finalTest, Cfg.repaired, op_verify, decodeNum_boolNum] at hfin

/-- P2TR script path with a k-of-n MultiSigTapScript leaf (n ≥ 2), completeness: witness
    `<sig_{n-1}|empty> … <sig_0|empty> <script> <control block>` where the control block commits the script
    bytes to the output key and exactly `k` of the signatures verify for their key -/
theorem complete_p2tr_scriptpath (env : Env) (x : Bytes) (hl : x.length = 32) (w : List Bytes)
    (rawTap cb v rest : Bytes) (tapScript : Script.Script) (b0 : UInt8) (r0 : Bytes) (hcb : cb = b0 :: r0)
    (hb0 : b0.toNat ≠ 80) (hcbe : env.cbErr cb = none) (hv : encodeVarstr rawTap = some v)
    (hparse : Script.parse v = some (tapScript, rest)) (hraw : rawTap ≠ [])
    (htc : env.tapCommit cb rawTap = .ok (x, true))
    (x0 : Bytes) (xs : List Bytes) (k : Nat) (hk : 1 ≤ k ∧ k ≤ 16) (hxs : xs ≠ [])
    (hscript : tapScript.cmds = tapMultisigScript x0 xs k)
    (hok : ChecksOK env (x0 :: xs) w.reverse) (hcnt : countValid env (x0 :: xs) w.reverse = k)
    (fuel : Nat) (hf : w.length + 2 * xs.length + 6 ≤ fuel) :
    verifyInput Cfg.repaired env [] (p2trSpk x) (w ++ [rawTap, cb]) fuel = .accept := by
  have hs : structuralReject Cfg.repaired [] (p2trSpk x) = false := by
    simp [structuralReject, p2trSpk, isP2sh]
  simp only [verifyInput, hs, Bool.false_eq_true, if_false, evaluate_eq, List.nil_append]
  have hwit : (if (w ++ [rawTap, cb]).isEmpty then none else some (w ++ [rawTap, cb])) = some (w ++ [rawTap, cb]) := by
    cases w <;> rfl
  obtain ⟨f, rfl⟩ : ∃ f, fuel = ((f + 2) + w.length) + 2 := ⟨fuel - w.length - 4, by omega⟩
  rw [hwit, run_p2tr_scriptpath env x hl [] w rawTap cb v rest tapScript b0 r0 hcb hb0 hcbe hv hparse hraw htc, hscript]
  have hlen4 : 4 ≤ (tapMultisigScript x0 xs k).length := by
    cases xs with
    | nil => exact absurd rfl hxs
    | cons a r => simp [tapMultisigScript, addChain]
  rw [run_pushes env (tapMultisigScript x0 xs k) (by simp [tapMultisigScript]) (noP2shTail_of_length hlen4) w [] [] _ true (f + 2)]
  simp only [List.append_nil]
  cases hrev : w.reverse with
  | nil => rw [hrev] at hok; simp [ChecksOK] at hok
  | cons sig S' =>
    rw [hrev] at hok hcnt
    obtain ⟨⟨r, hr⟩, hok'⟩ := hok
    have e : tapMultisigScript x0 xs k = .push x0 :: .op 0xAC :: (addChain xs ++ [.op (80 + k), .op 0x87]) := by
      simp [tapMultisigScript]
    rw [e, run_cons _ _ (f + 1) _ (.push x0) (.op 0xAC :: (addChain xs ++ [.op (80 + k), .op 0x87])) rfl,
      step_push_first env _ x0 (.op 0xAC) _ rfl (by simp)]
    simp only
    rw [run_cons _ _ f _ (.op 0xAC) (addChain xs ++ [.op (80 + k), .op 0x87]) rfl,
      step_op _ _ _ true 0xAC .checksigSchnorr rfl (by decide) (by decide) (by decide)]
    simp only [applyStackFn]
    rw [checksig_forward env x0 sig S' r hr]
    simp only [Res.toOut]
    have := addChain_complete env k hk [] (some (w ++ [rawTap, cb])) xs S' (sigCount env x0 sig) [] f hok'
      (by simp [countValid] at hcnt; omega) (by omega)
    simpa using this

/-! ## the repairs are needed: today's code (Cfg.preC06 = /repo at a5beaa1) on concrete inputs -/

/-- F06a: 1-of-1 CHECKMULTISIG with a signature that the key does not verify: today's loop falls through
    and pushes 1; repaired it fails -/
theorem F06a_witness :
    op_checkmultisig Cfg.preC06 wEnv [[1], victimPk, [1], [0x30, 1], []] = .ok [[1]] ∧
    op_checkmultisig Cfg.repaired wEnv [[1], victimPk, [1], [0x30, 1], []] = .fail := by decide

/-- F06c: a native P2WPKH output, scriptSig `<01>`, no witness: no rule fires, the 20-byte program is the
    (true) top of the stack -/
theorem F06c_witness :
    verifyInput Cfg.preC06 wEnv [.push [1]] (p2wpkhSpk (List.replicate 20 2)) [] 50 = .accept ∧
    verifyInput Cfg.repaired wEnv [.push [1]] (p2wpkhSpk (List.replicate 20 2)) [] 50 = .reject := by decide

/-- F06d: P2SH, scriptSig `<redeem> OP_NOP`: the BIP16 rule needs the redeem script to be the last
    command, so the redeem script is hashed and compared but never run -/
theorem F06d_witness :
    verifyInput Cfg.preC06 wEnv [.push (List.replicate 20 0x6a), .op 0x61] (p2shSpk (List.replicate 20 0x6a)) [] 50
      = .accept ∧
    verifyInput Cfg.repaired wEnv [.push (List.replicate 20 0x6a), .op 0x61] (p2shSpk (List.replicate 20 0x6a)) [] 50
      = .reject := by decide

/-- F06e: P2SH-P2WPKH, scriptSig `<01> <redeem>`, no witness: the junk element keeps the stack from having
    the two-element shape of a witness program, nothing is checked -/
theorem F06e_witness :
    verifyInput Cfg.preC06 wEnv [.push [1], .push ([0x00, 0x14] ++ List.replicate 20 2)]
      (p2shSpk (List.take 20 ([0x00, 0x14] ++ List.replicate 20 2))) [] 50 = .accept ∧
    verifyInput Cfg.repaired wEnv [.push [1], .push ([0x00, 0x14] ++ List.replicate 20 2)]
      (p2shSpk (List.take 20 ([0x00, 0x14] ++ List.replicate 20 2))) [] 50 = .reject := by decide

/-- F06f: P2PKH of the victim's key, scriptSig `OP_0 <h_att> <bad sig> <victim pk>` and the attacker's
    `[sig, pk]` as witness: the P2WPKH rule fires inside the scriptSig, the victim's CHECKSIG only pushes 0
    and the attacker's own P2PKH commands, appended last, decide -/
theorem F06f_witness :
    verifyInput Cfg.preC06 wEnv
      [.op 0, .push (List.replicate 20 3), .push [0x30, 1], .push victimPk] (p2pkhCommands (List.replicate 20 2))
      [[0x31, 1], attackerPk] 50 = .accept ∧
    verifyInput Cfg.repaired wEnv
      [.op 0, .push (List.replicate 20 3), .push [0x30, 1], .push victimPk] (p2pkhCommands (List.replicate 20 2))
      [[0x31, 1], attackerPk] 50 = .reject := by decide

/-- F06g: the output commits to the leaf script bytes `01 aa 75 51`; the witness carries `4c 01 aa 75 51`
    (same commands, non-minimal push): today the parsed script is re-serialised before hashing, so the
    commitment check passes -/
theorem F06g_witness :
    verifyInput Cfg.preC06 wEnv [] (p2trSpk (List.replicate 32 7)) [[0x4c, 0x01, 0xaa, 0x75, 0x51], 0xc0 :: List.replicate 32 9] 50
      = .accept ∧
    verifyInput Cfg.repaired wEnv [] (p2trSpk (List.replicate 32 7)) [[0x4c, 0x01, 0xaa, 0x75, 0x51], 0xc0 :: List.replicate 32 9] 50
      = .err .valueError ∧
    verifyInput Cfg.repaired wEnv [] (p2trSpk (List.replicate 32 7)) [[0x01, 0xaa, 0x75, 0x51], 0xc0 :: List.replicate 32 9] 50
      = .accept := by decide

/-- F06b (repaired by F05f, a5beaa1): a lone `50…` element is not an annex; it is taken as a key-path
    signature and fails -/
theorem F06b_fixed :
    hasAnnex [[0x50]] = .ok false ∧ hasAnnex [[1], [0x50, 1]] = .ok true ∧
    verifyInput Cfg.repaired wEnv [] (p2trSpk (List.replicate 32 7)) [[0x50]] 50 = .reject := by decide


end Buidl.Props.C06
