/-
  C10 — PSBT codec is lossless; the signing workflow is order-independent and exact.
  (property theorems; helper lemmas in Buidl.Proofs.Psbt*)
-/
import Buidl.Model.PsbtFlow
namespace Buidl.Props.C10
open Buidl Buidl.Psbt

/-- the global map written by the (repaired, F10a) serialiser starts with the unsigned transaction
    in non-witness (legacy) format under key type 0 -/
theorem global_map_carries_legacy_tx {Tx} (C : TxCodec Tx) (p : Psbt Tx) (es : List (Bytes × Bytes))
    (h : p.globalEntries C = some es) :
    ∃ tx rest, C.serializeLegacy p.tx = some tx ∧ es = ([UInt8.ofNat Gen.psbtGlobalUnsignedTx], tx) :: rest := by
  unfold Psbt.globalEntries at h
  cases hs : C.serializeLegacy p.tx with
  | none => simp [hs] at h
  | some tx =>
    simp only [hs, Option.pure_def, Option.bind_eq_bind, Option.bind_some, Option.some.injEq] at h
    exact ⟨tx, _, rfl, h.symm⟩

end Buidl.Props.C10
