/-
  C10 — PSBT codec is lossless; the signing workflow is order-independent and exact.

  Property theorems only (helper lemmas: Buidl.Proofs.PsbtDict, PsbtCodec, PsbtValidate, PsbtCombine,
  PsbtFinalize).  Models: Buidl.Model.PsbtCodec / PsbtFlow with the constants of Buidl.Gen.Psbt
  (re-extracted from /repo on every run).  The models describe buidl/psbt.py with the `fix:` patches
  of work/C10 applied (F10a unsigned transaction in non-witness format, F10d finalize's p2sh count,
  F10e / F10f p2sh-p2wpkh validation).

  Parameters of every theorem: the transaction codec `C : TxCodec Tx` (abstract; its laws appear as
  hypotheses where a transaction is re-parsed — they are property C04's subject), the hash functions
  `H`, the oracles `O` (point parsing, signature checks, input verification, BIP32 derivation).

  "At the map level": a PSBT value is its global / input / output maps with typed entries; the
  well-formedness predicates (`PsbtMapWF`, `InMapWF`, `OutMapWF`, `GlobalWF`) say that every embedded
  transaction / script is the parse of its own serialisation, keys have their BIP174 lengths, unknown
  keys do not collide with known types, and no signed key is repeated in a script — the invariant of
  values that came out of PSBT.parse or were built by create / update / sign / combine.
-/
import Buidl.Proofs.PsbtCodec
import Buidl.Proofs.PsbtValidate
import Buidl.Proofs.PsbtCombine
import Buidl.Proofs.PsbtFinalize
namespace Buidl.Props.C10
open Buidl Buidl.Psbt Buidl.Script

/-! ## the codec is lossless: re-serialisation is idempotent, parse succeeds on serialiser output -/

/-- **Idempotence.**  `p.serialize = some b` for a well-formed PSBT ⇒ parsing `b` (followed by any
    continuation, same explicit network) succeeds at the map level, leaves the continuation, and the
    parsed value serialises to exactly `b`: `serialize (parse (serialize p)) = serialize p`. -/
theorem reserialize_idempotent {Tx : Type} (H : Hashes) (C : TxCodec Tx) (O : Oracles) (n : Net) (p : Psbt Tx)
    (t' : Tx) (wf : PsbtMapWF H C O n p t') {b : Bytes} (hb : p.serialize C = some b) (rest : Bytes) :
    ∃ p', parseMaps H C O (some n) (b ++ rest) = some (p', rest) ∧ p'.serialize C = some b :=
  ⟨_, Buidl.Psbt.reserialize_idempotent H C O n p t' wf hb rest⟩

/-- the parsed value is the normal form: dicts in sorted order, only the written signatures, the
    re-parsed unsigned transaction -/
theorem reserialize_normal_form {Tx : Type} (H : Hashes) (C : TxCodec Tx) (O : Oracles) (n : Net) (p : Psbt Tx)
    (t' : Tx) (wf : PsbtMapWF H C O n p t') {b : Bytes} (hb : p.serialize C = some b) (rest : Bytes) :
    parseMaps H C O (some n) (b ++ rest) = some (normPsbt C n p t', rest) :=
  (Buidl.Psbt.reserialize_idempotent H C O n p t' wf hb rest).1

/-- input maps: parse ∘ serialize = normal form, and the normal form serialises to the same bytes -/
theorem in_map_roundtrip {Tx : Type} (C : TxCodec Tx) (O : Oracles) (net : Option Net) (idx : Nat) (p : PIn Tx)
    (wf : InMapWF C O net idx p) {b : Bytes} (hb : p.serialize C = some b) (rest : Bytes) :
    parseInMap C O net idx (b ++ rest) = some (normIn C idx p, rest) ∧ (normIn C idx p).serialize C = some b :=
  Buidl.Psbt.in_map_roundtrip C O net idx p wf hb rest

/-- output maps -/
theorem out_map_roundtrip (O : Oracles) (net : Option Net) (p : POut) (wf : OutMapWF O net p) {b : Bytes}
    (hb : p.serialize = some b) (rest : Bytes) :
    parseOutMap O net (b ++ rest) = some (normOut p, rest) ∧ (normOut p).serialize = some b :=
  Buidl.Psbt.out_map_roundtrip O net p wf hb rest

/-- the global map: unsigned transaction, xpubs, unknowns -/
theorem global_map_roundtrip {Tx : Type} (C : TxCodec Tx) (O : Oracles) (n : Net) (p : Psbt Tx) (t' : Tx)
    (wf : GlobalWF C O n p t') {es : List (Bytes × Bytes)} (he : p.globalEntries C = some es) {enc : Bytes}
    (henc : encodeEntries es = some enc) (rest : Bytes) :
    kvLoop (globalStep C O) ((enc ++ Gen.psbtDelimiter ++ rest).length + 1) (enc ++ Gen.psbtDelimiter ++ rest)
        { network := some n }
      = some ({ tx := some t', hdPubs := sortedItems p.hdPubs, extra := sortedItems p.extra, network := some n }, rest) :=
  kvLoop_roundtrip (global_entries_steps C O n p t' wf he) henc rest

/-! ## what the first serialisation drops -/

/-- a signature whose key is not a data element of the script that orders the signatures (the
    WitnessScript, or a RedeemScript that is not p2wpkh) is not written -/
theorem serialize_drops_foreign_sigs {Tx : Type} (C : TxCodec Tx) (idx : Nat) (p : PIn Tx) (sc : Script) (k : Bytes)
    (hsc : p.witnessScript = some sc ∨ (p.witnessScript = none ∧ p.redeem = some sc ∧ isP2wpkh sc = false))
    (hk : Cmd.push k ∉ sc.cmds) : dget (normIn C idx p).sigs k = none := by
  show dget (sigsWritten p) k = none
  unfold sigsWritten
  rw [dget_filterMap_keys]
  have hL : sigKeyOrder p = inScriptKeys p.sigs sc := by
    rw [sigKeyOrder_eq]
    rcases hsc with h | ⟨h1, h2, h3⟩
    · rw [h]
    · rw [h1, h2]; simp [h3]
  have : k ∉ sigKeyOrder p := by
    rw [hL]; intro hm; exact hk (mem_inScriptKeys.mp hm).1
  simp [this]

/-- a witness UTXO next to a non-witness UTXO is not written -/
theorem serialize_prefers_non_witness_utxo {Tx : Type} (C : TxCodec Tx) (idx : Nat) (p : PIn Tx) (t : Tx)
    (h : p.prevTx = some t) : (normIn C idx p).prevOut = none ∧ (normIn C idx p).prevTx = some t := by
  simp [normIn, h]

/-- every signature that is written is one of the input map's signatures, unchanged -/
theorem serialize_keeps_written_sigs {Tx : Type} (C : TxCodec Tx) (idx : Nat) (p : PIn Tx) (e : Bytes × Bytes)
    (h : e ∈ (normIn C idx p).sigs) : e ∈ p.sigs := mem_sigsWritten h

/-! ## the unsigned transaction -/

/-- the global map written by the (repaired, F10a) serialiser starts with the unsigned transaction
    in non-witness (legacy) format under key type 0 -/
theorem global_map_carries_legacy_tx {Tx : Type} (C : TxCodec Tx) (p : Psbt Tx) (es : List (Bytes × Bytes))
    (h : p.globalEntries C = some es) :
    ∃ tx rest, C.serializeLegacy p.tx = some tx ∧ es = ([UInt8.ofNat Gen.psbtGlobalUnsignedTx], tx) :: rest := by
  unfold Psbt.globalEntries at h
  cases hs : C.serializeLegacy p.tx with
  | none => simp [hs] at h
  | some tx =>
    simp only [hs, Option.pure_def, Option.bind_eq_bind, Option.bind_some, Option.some.injEq] at h
    exact ⟨tx, _, rfl, h.symm⟩

/-- PSBT.validate refuses a PSBT whose unsigned transaction has a non-empty scriptSig -/
theorem validate_rejects_scriptsig {Tx : Type} (H : Hashes) (C : TxCodec Tx) (O : Oracles) (p : Psbt Tx) (j : Nat)
    (txin : TxInV) (hj : (C.ins p.tx)[j]? = some txin) (hs : txin.scriptSigEmpty = false) :
    p.validate H C O = none := by
  cases hv : p.validate H C O with
  | none => rfl
  | some u =>
    exfalso
    obtain ⟨hl, hall⟩ := validateInsLoop_some H C O p.hdPubs 0 _ _ (validate_some_ins H C O p hv)
    have hjl : j < (C.ins p.tx).length := by
      rcases Nat.lt_or_ge j (C.ins p.tx).length with h | h
      · exact h
      · rw [List.getElem?_eq_none h] at hj; cases hj
    obtain ⟨q, hq⟩ : ∃ q, p.ins[j]? = some q := ⟨p.ins[j]'(hl ▸ hjl), List.getElem?_eq_getElem _⟩
    have := (hall j txin q hj hq).2.1
    rw [hs] at this
    cases this

/-- hence PSBT.parse refuses it as well -/
theorem parse_rejects_scriptsig {Tx : Type} (H : Hashes) (C : TxCodec Tx) (O : Oracles) (net : Option Net)
    (s : Bytes) (p : Psbt Tx) (rest : Bytes) (hm : parseMaps H C O net s = some (p, rest)) (j : Nat) (txin : TxInV)
    (hj : (C.ins p.tx)[j]? = some txin) (hs : txin.scriptSigEmpty = false) : Psbt.parse H C O net s = none := by
  simp [Psbt.parse, hm, validate_rejects_scriptsig H C O p j txin hj hs]

/-! ## partial signatures are checked on load -/

/-- a partial signature that `check_sig_segwit` / `check_sig_legacy` (the oracle `sigOK`) refuses makes
    PSBT.validate — hence PSBT.parse — refuse the PSBT, whenever the input carries a UTXO
    (observation O10b: without any UTXO nothing can be checked and the signature is kept) -/
theorem validate_rejects_bad_sig {Tx : Type} (H : Hashes) (C : TxCodec Tx) (O : Oracles) (p : Psbt Tx) (j : Nat)
    (q : PIn Tx) (hq : p.ins[j]? = some q) (e : Bytes × Bytes) (he : e ∈ q.sigs)
    (hutxo : q.prevOut.isSome = true ∨ q.prevTx.isSome = true)
    (hbad : ∀ seg, O.sigOK seg j e.1 e.2 = false) : p.validate H C O = none := by
  cases hv : p.validate H C O with
  | none => rfl
  | some u =>
    exfalso
    obtain ⟨hl, hall⟩ := validateInsLoop_some H C O p.hdPubs 0 _ _ (validate_some_ins H C O p hv)
    have hjl : j < p.ins.length := by
      rcases Nat.lt_or_ge j p.ins.length with h | h
      · exact h
      · rw [List.getElem?_eq_none h] at hq; cases hq
    obtain ⟨txin, htx⟩ : ∃ txin, (C.ins p.tx)[j]? = some txin :=
      ⟨(C.ins p.tx)[j]'(hl ▸ hjl), List.getElem?_eq_getElem _⟩
    have hs := (hall j txin q htx hq).2.2.2.1
    simp only [Nat.zero_add, sigsOK, List.all_eq_true] at hs
    have := hs e he
    rcases hutxo with h | h
    · simp [h, hbad] at this
    · by_cases h' : q.prevOut.isSome = true
      · simp [h', hbad] at this
      · simp [h', h, hbad] at this

/-! ## combine: order independence -/

/-- PSBT.combine is commutative up to serialisation for PSBTs of one transaction that agree on
    common keys -/
theorem combine_comm_ser {Tx : Type} (C : TxCodec Tx) {a b : Psbt Tx} {h : Bytes} (hc : PsbtCompat a b)
    (hh : C.hash a.tx = some h) :
    ∃ x y, combine C a b = some x ∧ combine C b a = some y ∧ x.serialize C = y.serialize C :=
  Buidl.Psbt.combine_comm_ser C hc hh

/-- associative up to serialisation -/
theorem combine_assoc_ser {Tx : Type} (C : TxCodec Tx) {a b c : Psbt Tx} {h : Bytes}
    (hab : PsbtCompat a b) (hac : PsbtCompat a c) (hbc : PsbtCompat b c) (hh : C.hash a.tx = some h) :
    ∃ ab bc x y, combine C a b = some ab ∧ combine C ab c = some x ∧
      combine C b c = some bc ∧ combine C a bc = some y ∧ x.serialize C = y.serialize C :=
  Buidl.Psbt.combine_assoc_ser C hab hac hbc hh

/-- idempotent up to serialisation -/
theorem combine_idem_ser {Tx : Type} (C : TxCodec Tx) {a : Psbt Tx} {h : Bytes} (hw : PsbtWF a)
    (hh : C.hash a.tx = some h) : ∃ x, combine C a a = some x ∧ x.serialize C = a.serialize C :=
  Buidl.Psbt.combine_idem_ser C hw hh

/-- **Histories.**  For any two combine trees (any shape, any order, leaves repeated or not) over the
    same set of pairwise compatible PSBTs — e.g. the copies of one PSBT signed by different signers —
    both evaluations succeed and the resulting bytes are equal. -/
theorem combine_tree_bytes_independent {Tx : Type} (C : TxCodec Tx) (t1 t2 : CTree (Psbt Tx))
    (hc : ∀ l, l ∈ t1.leaves → ∀ l', l' ∈ t1.leaves → PsbtCompat l l')
    (hh : ∀ l, l ∈ t1.leaves → (C.hash l.tx).isSome = true)
    (hs : ∀ l, l ∈ t1.leaves ↔ l ∈ t2.leaves) :
    ∃ x y, t1.evalP C = some x ∧ t2.evalP C = some y ∧ x.serialize C = y.serialize C :=
  Buidl.Psbt.combine_tree_bytes_independent C t1 t2 hc hh hs

/-- per input: the signatures of a combination history are exactly the signatures of the operands -/
theorem combine_tree_sigs {Tx : Type} (t : CTree (PIn Tx))
    (hc : ∀ l, l ∈ t.leaves → ∀ l', l' ∈ t.leaves → InCompat l l') (k v : Bytes) :
    dget t.foldIn.sigs k = some v ↔ ∃ l, l ∈ t.leaves ∧ dget l.sigs k = some v :=
  foldIn_sigs_iff t hc k v

/-! ## finalize: exact at the threshold, a function of the set of signatures -/

/-- p2wsh / p2sh-p2wsh: finalize raises iff fewer than m of the WitnessScript's keys have signatures -/
theorem finalize_multisig_iff {Tx : Type} {C : TxCodec Tx} {txin : TxInV} {p : PIn Tx} {spk ws : Script} {m : Int}
    {wraw : Bytes} (hb : WitnessBranch C txin p spk ws m wraw) (hk : (scriptKeys ws.cmds).Nodup) :
    finalizeIn true C txin p = none ↔ ((scriptSigs p.sigs ws.cmds).length : Nat) < m :=
  finalize_witness_raises_iff true hb hk

/-- … otherwise it emits `[b"", the first m signatures in script order, the WitnessScript]` -/
theorem finalize_emits_first_m {Tx : Type} {C : TxCodec Tx} {txin : TxInV} {p : PIn Tx} {spk ws : Script} {m : Int}
    {wraw : Bytes} (hb : WitnessBranch C txin p spk ws m wraw) (hk : (scriptKeys ws.cmds).Nodup) {q : PIn Tx}
    (hq : finalizeIn true C txin p = some q) :
    q.witness = some ([] :: (scriptSigs p.sigs ws.cmds).take m.toNat ++ [wraw]) ∧
    q.scriptSig = segwitScriptSig p.redeem ∧ q.sigs = [] ∧ q.redeem = none ∧ q.witnessScript = none ∧
    q.namedPubs = [] ∧ q.hashType = none := by
  have := finalize_witness_emits true hb hk hq
  exact ⟨this.1, this.2.1, this.2.2.1, this.2.2.2.1, this.2.2.2.2.1, this.2.2.2.2.2.1, this.2.2.2.2.2.2.1⟩

/-- bare p2sh multisig (repaired count, F10d): raises iff fewer than m of the RedeemScript's keys have
    signatures -/
theorem finalize_p2sh_iff {Tx : Type} {C : TxCodec Tx} {txin : TxInV} {p : PIn Tx} {spk r : Script} {m : Int}
    {rraw : Bytes} (hb : P2shBranch C txin p spk r m rraw) (hm : 1 ≤ m) (hk : (scriptKeys r.cmds).Nodup) :
    finalizeIn true C txin p = none ↔ ((scriptSigs p.sigs r.cmds).length : Nat) < m :=
  finalize_p2sh_raises_iff hb hm hk

/-- … otherwise the scriptSig is `OP_0, the first m signatures in script order, the RedeemScript` -/
theorem finalize_p2sh_emits_first_m {Tx : Type} {C : TxCodec Tx} {txin : TxInV} {p : PIn Tx} {spk r : Script}
    {m : Int} {rraw : Bytes} (hb : P2shBranch C txin p spk r m rraw) (hm : 1 ≤ m) (hk : (scriptKeys r.cmds).Nodup)
    {q : PIn Tx} (hq : finalizeIn true C txin p = some q) :
    q.scriptSig = some { cmds := .op 0 :: ((scriptSigs p.sigs r.cmds).take m.toNat).map .push ++ [.push rraw] } ∧
    q.witness = p.witness ∧ q.sigs = [] :=
  let h := finalize_p2sh_emits hb hm hk hq
  ⟨h.1, h.2.1, h.2.2.1⟩

/-- the single-key types (p2wpkh, p2sh-p2wpkh, p2pkh) finalise iff there is exactly one signature -/
theorem finalize_single_key_iff {Tx : Type} {C : TxCodec Tx} {txin : TxInV} {p : PIn Tx} {spk : Script}
    (hb : P2wpkhBranch C txin p spk ∨ P2pkhBranch C txin p spk) :
    (finalizeIn true C txin p).isSome ↔ p.sigs.length = 1 := by
  rcases hb with hb | hb
  · exact finalize_p2wpkh_iff true hb
  · exact finalize_p2pkh_iff true hb

/-- **A function of the set of signatures only**: two signature dicts with the same lookups (whatever
    their insertion order, i.e. whatever the order in which signers signed or PSBTs were combined)
    finalise identically — every script type. -/
theorem finalize_set_only {Tx : Type} (C : TxCodec Tx) (txin : TxInV) (p : PIn Tx) (s' : Dict Bytes)
    (hs : DNodup p.sigs) (hs' : DNodup s') (h : ∀ k, dget p.sigs k = dget s' k) :
    finalizeIn true C txin { p with sigs := s' } = finalizeIn true C txin p :=
  finalizeIn_sigs_ext true C txin p s' hs hs' h

/-- the number of script-key signatures never exceeds the number of signatures in the dict, so the
    code's first test `len(self.sigs) < num_sigs` is implied by the second -/
theorem script_sigs_le_sigs (sigs : Dict Bytes) {cmds : List Cmd} (hk : (scriptKeys cmds).Nodup) :
    (scriptSigs sigs cmds).length ≤ sigs.length := scriptSigs_length_le sigs hk

/-- today's count (finding F10d, fixed by work/C10/fix-F10d.diff): with m − 1 script-key signatures
    and at least m signatures in the dict, the unrepaired p2sh branch returns an under-signed
    scriptSig where the repaired one raises -/
theorem F10d_unrepaired_undersigns {Tx : Type} {C : TxCodec Tx} {txin : TxInV} {p : PIn Tx} {spk r : Script}
    {m : Int} {rraw : Bytes} (hb : P2shBranch C txin p spk r m rraw) (hm : 1 ≤ m)
    (hshort : (scriptSigs p.sigs r.cmds).length + 1 = m.toNat) (hlen : m ≤ (p.sigs.length : Nat)) :
    (finalizeIn false C txin p).isSome = true ∧ finalizeIn true C txin p = none := by
  have := F10d_general hb hm hshort hlen
  exact ⟨by rw [this.1]; rfl, this.2⟩

/-! ## the hypotheses are satisfiable -/

example : ScriptCanon { cmds := [.op 82, .push [2, 1], .push [3, 1], .op 82, .op 174] } :=
  ⟨[82, 2, 2, 1, 2, 3, 1, 82, 174], by decide, by decide, by decide⟩

example : unknownInKey [0xFC, 1, 2] ∧ unknownOutKey [0x0F] ∧ unknownGlobalKey [0x20, 7] := by
  simp [unknownInKey, unknownOutKey, unknownGlobalKey, Gen.psbtInNonWitnessUtxo, Gen.psbtInWitnessUtxo,
    Gen.psbtInPartialSig, Gen.psbtInSighashType, Gen.psbtInRedeemScript, Gen.psbtInWitnessScript,
    Gen.psbtInBip32Derivation, Gen.psbtInFinalScriptsig, Gen.psbtInFinalScriptwitness, Gen.psbtOutRedeemScript,
    Gen.psbtOutWitnessScript, Gen.psbtOutBip32Derivation, Gen.psbtGlobalUnsignedTx, Gen.psbtGlobalXpub]

/-- a toy transaction codec (a transaction is a byte string, serialised with a one-byte length) -/
def toyTxCodec : TxCodec Bytes where
  parseLegacy s := match s with
    | [] => none
    | n :: r => if r.length < n.toNat then none else some (r.take n.toNat, r.drop n.toNat)
  parse s := match s with
    | [] => none
    | n :: r => if r.length < n.toNat then none else some (r.take n.toNat, r.drop n.toNat)
  serialize t := if t.length < 256 then some (UInt8.ofNat t.length :: t) else none
  serializeLegacy t := if t.length < 256 then some (UInt8.ofNat t.length :: t) else none
  hash t := some t
  ins _ := [{ prevTx := [], prevIndex := 0, scriptSigEmpty := true }]
  outs _ := [{ amount := 0, spk := { cmds := [] } }]
  finalSerialize _ _ := none

def toyOracles : Oracles where
  secOK _ := true
  sigParseOK _ _ := true
  sigOK _ _ _ _ := true
  verifyOK _ _ _ := true
  derive _ _ := none

def toyHashes : Hashes := { hash160 := fun b => b.take 20, sha256 := fun b => b.take 32 }

/-- a PSBT with a partial signature and unknown key–value pairs in every map … -/
def toyPsbt : Psbt Bytes :=
  { tx := [1, 2, 3]
    ins := [{ sigs := [([2, 7], [9, 1])], extra := [([0xFC, 1], [5])] }]
    outs := [{ extra := [([0x0F], [])] }]
    extra := [([0x20], [7, 7])] }

/-- … satisfies the well-formedness hypothesis of `reserialize_idempotent` (non-vacuity) -/
example : PsbtMapWF toyHashes toyTxCodec toyOracles .testnet toyPsbt [1, 2, 3] := by
  have hunkIn : unknownInKey [0xFC, 1] := by
    simp [unknownInKey, Gen.psbtInNonWitnessUtxo, Gen.psbtInWitnessUtxo, Gen.psbtInPartialSig, Gen.psbtInSighashType,
      Gen.psbtInRedeemScript, Gen.psbtInWitnessScript, Gen.psbtInBip32Derivation, Gen.psbtInFinalScriptsig,
      Gen.psbtInFinalScriptwitness]
  have hunkOut : unknownOutKey [0x0F] := by
    simp [unknownOutKey, Gen.psbtOutRedeemScript, Gen.psbtOutWitnessScript, Gen.psbtOutBip32Derivation]
  have hunkG : unknownGlobalKey [0x20] := by simp [unknownGlobalKey, Gen.psbtGlobalUnsignedTx, Gen.psbtGlobalXpub]
  refine ⟨⟨⟨[3, 1, 2, 3], rfl, ?_, rfl⟩, by simp [DNodup, toyPsbt], by simp [toyPsbt], ⟨by simp [DNodup, toyPsbt], ?_⟩⟩,
    rfl, rfl, ?_, ?_⟩
  · intro rest; simp [toyTxCodec]
  · intro e he; simp [toyPsbt] at he; subst he; exact ⟨hunkG, by simp, by simp⟩
  · refine ⟨⟨?_, ?_, by simp [DNodup], ?_, ?_, ?_, ?_, ?_, ⟨by simp [DNodup], by simp, by simp⟩, ?_,
      ⟨by simp [DNodup], ?_⟩⟩, ?_, trivial⟩
    · intro t h; simp at h
    · intro o h; simp at h
    · have : sigKeyOrder ({ sigs := [([2, 7], [9, 1])], extra := [([0xFC, 1], [5])] } : PIn Bytes) = [[2, 7]] := by
        simp [sigKeyOrder, sortKeys, dkeys]
      rw [this]; simp
    · intro e he; simp at he; subst he; simp
    · intro r h; simp at h
    · intro r h; simp at h
    · intro r h; simp at h
    · intro w h; simp at h
    · intro e he; simp at he; subst he; exact ⟨hunkIn, by simp, by simp⟩
    · simp [validateIn, PIn.scriptPubkey, normIn]
  · refine ⟨⟨by intro r h; simp at h, by intro r h; simp at h, ⟨by simp [DNodup], by simp, by simp⟩,
      ⟨by simp [DNodup], ?_⟩⟩, ?_, trivial⟩
    · intro e he; simp at he; subst he; exact ⟨hunkOut, by simp, by simp⟩
    · simp [validateOut, normOut, isP2pkh, isP2wpkh, pat, Gen.psbtP2pkhPattern, Gen.psbtP2wpkhPattern]

end Buidl.Props.C10
