/-
  C07 — the script interpreter agrees with consensus semantics on its supported opcode set.
  Property theorems only (helper lemmas, including one `conf_*` lemma per `op_*` function:
  Buidl.Proofs.Interp; conditionals: Buidl.Proofs.InterpIf).

  Model: Buidl.Model.Interp (`encodeNum`, `decodeNum`, every `op_*`, `evaluate`; dispatch tables and
  timelock constants from Buidl.Gen.Op, re-extracted from /repo on every run), configuration
  `Cfg.repaired` = /repo with work/C07/fix-F07a.diff, fix-F07c.diff, fix-F07d.diff applied.
  Specification: Buidl.Spec.Consensus (transcription of Bitcoin Core's EvalScript for the subset).
  Hash functions are arbitrary (`Env` fields).

  Results are compared as consensus sees them: `liftS` / `Out.toSpec` map "returned False" and
  "raised" to failure.  `Consensus.Res.oversize` / `Out.oversize` mark a numeric operand longer
  than 4 bytes (5 for CLTV/CSV): the property covers operands of at most 4 bytes, so the
  theorems assume the consensus result is not `oversize` and say nothing else about operands.

  Known finding F07b (op_2rot copies instead of moving; pinned by test_op_2rot): the model
  reproduces it, `F07b_witness` exhibits it, the opcode theorems are `_partial` (every opcode but
  OP_2ROT; OP_2ROT itself on stacks of fewer than 6 items).

  N07e: "properly nested" is read as at most one ELSE per IF (`Bal`); with a repeated ELSE consensus
  and the implementation differ (`N07e_witness`), such programs are outside the theorems.
  N07f: a 5-byte CHECKSEQUENCEVERIFY operand ≥ 2^32 (outside the property's operand range) raises
  ValueError in the implementation (`N07f_witness`); the theorems assume that did not happen.
-/
import Buidl.Proofs.Interp
import Buidl.Proofs.InterpIf
namespace Buidl.Props.C07
open Buidl Buidl.Script Buidl.Interp Buidl.Spec

/-! ## script numbers -/

/-- decoding inverts encoding, for every integer -/
theorem encodeNum_roundtrip (n : Int) : decodeNum (encodeNum n) = n := decodeNum_encodeNum n

/-- the encoding is minimal: no redundant most-significant byte (Core's minimal-encoding test) -/
theorem encodeNum_minimal (n : Int) : Consensus.minimal (encodeNum n) = true := minimal_encodeNum n

/-- the encoder is `CScriptNum::serialize` -/
theorem encodeNum_eq_serialize (n : Int) : encodeNum n = Consensus.serialize n :=
  Interp.encodeNum_eq_serialize n

/-- `decode_num` is total and is `CScriptNum::set_vch` on byte strings of EVERY length -/
theorem decodeNum_eq_scriptNum (b : Bytes) : decodeNum b = Consensus.scriptNum b :=
  Interp.decodeNum_eq_scriptNum b

/-- on operands of at most 4 bytes it is the consensus operand value -/
theorem decodeNum_num4 (b : Bytes) (h : b.length ≤ 4) : Consensus.num4 b = some (decodeNum b) := by
  simp [Consensus.num4, Consensus.numMax, h, Interp.decodeNum_eq_scriptNum]

/-- the only values with two minimal-or-not encodings of the same number differ in padding: a
    consensus number operand is out of range exactly when longer than 4 bytes -/
theorem num4_none_iff (b : Bytes) : Consensus.num4 b = none ↔ 4 < b.length := by
  simp only [Consensus.num4, Consensus.numMax]
  split <;> simp <;> omega

/-- truth of a stack element: `decode_num(x) != 0` is `CastToBool` (negative zero and all-zero
    strings of any length are false) -/
theorem truth_is_castToBool (b : Bytes) : Consensus.castToBool b = true ↔ decodeNum b ≠ 0 :=
  castToBool_iff b

example : encodeNum 0 = [] ∧ encodeNum 127 = [0x7f] ∧ encodeNum 128 = [0x80, 0x00]
    ∧ encodeNum (-128) = [0x80, 0x80] ∧ encodeNum (-1) = [0x81] ∧ encodeNum 2147483647 = [0xff, 0xff, 0xff, 0x7f]
    ∧ decodeNum [0x80] = 0 ∧ decodeNum [0x00, 0x80] = 0 ∧ decodeNum [0x01, 0x00] = 1 := by decide

/-! ## single opcodes, every stack -/

/- op_conforms (the property at full strength) — FALSE on today's code because of F07b:
   for every opcode `c` of the subset, every state `st` with the legacy table,
   `execOp (ctxOf env) c st.stack st.alt ≠ .oversize →
    stepSpec (stepOp Cfg.repaired env st c) = execOp (ctxOf env) c st.stack st.alt`. -/

/-- Every opcode of the subset except OP_2ROT (and IF/NOTIF, below), dispatched through /repo's
    OP_CODE_FUNCTIONS exactly as `Script.evaluate` does, maps EVERY stack (no depth bound) to the
    stack or failure consensus specifies, whenever consensus does not reject a numeric operand as
    longer than 4 bytes.  `hve`: for CHECKSEQUENCEVERIFY the implementation did not raise
    ValueError (operand ≥ 2^32, outside the property's operand range: note N07f). -/
theorem op_conforms_partial (env : Env) (hlt : env.locktime ≤ 4294967295) (st : St) (htap : st.tap = false)
    (c : Nat) (fn : OpFn) (hp : (c, fn) ∈ opPairs)
    (hve : c = 178 → op_checksequenceverify Cfg.repaired env st.stack ≠ .err .valueError)
    (h : Consensus.execOp (ctxOf env) c st.stack st.alt ≠ .oversize) :
    stepSpec (stepOp Cfg.repaired env st c) = Consensus.execOp (ctxOf env) c st.stack st.alt := by
  obtain ⟨hr, hconv, _⟩ := table_pairs (c, fn) hp
  rw [← htap] at hr
  rw [stepOp_plain Cfg.repaired env st c fn hr hconv (table_pairs_plain (c, fn) hp),
    ← fn_conforms env c fn hp st.stack st.alt hlt hve h]
  cases applyStackFn Cfg.repaired env fn st.stack <;> rfl

/-- the subset covered by `op_conforms_partial`: 73 opcodes (constants, NOPs, VERIFY, RETURN, stack
    manipulation, SIZE, EQUAL(VERIFY), arithmetic and comparisons, hashes, CLTV, CSV) -/
theorem opPairs_codes : opPairs.map (·.1) =
    [0, 79, 81, 82, 83, 84, 85, 86, 87, 88, 89, 90, 91, 92, 93, 94, 95, 96, 97, 105, 106, 109, 110, 111,
     112, 114, 115, 116, 117, 118, 119, 120, 121, 122, 123, 124, 125, 130, 135, 136, 139, 140, 143, 144,
     145, 146, 147, 148, 154, 155, 156, 157, 158, 159, 160, 161, 162, 163, 164, 165, 166, 167, 168, 169,
     170, 176, 177, 178, 179, 180, 181, 182, 183, 184, 185] := by decide

/-- OP_TOALTSTACK / OP_FROMALTSTACK on every stack and alt-stack -/
theorem altstack_conforms (env : Env) (st : St) (htap : st.tap = false) :
    stepSpec (stepOp Cfg.repaired env st 107) = Consensus.execOp (ctxOf env) 107 st.stack st.alt ∧
    stepSpec (stepOp Cfg.repaired env st 108) = Consensus.execOp (ctxOf env) 108 st.stack st.alt := by
  obtain ⟨cmds, stack, alt, wit, tap⟩ := st
  simp only at htap; subst htap
  constructor
  · rw [← conf_toaltstack (ctxOf env) stack alt]
    show stepSpec ((op_toaltstack stack alt).toOut _) = _
    cases op_toaltstack stack alt <;> rfl
  · rw [← conf_fromaltstack (ctxOf env) stack alt]
    show stepSpec ((op_fromaltstack stack alt).toOut _) = _
    cases op_fromaltstack stack alt <;> rfl

/-- OP_2ROT agrees with consensus on every stack of fewer than six items (both fail) … -/
theorem op_2rot_conforms_short (env : Env) (s alt : Stack) (h : s.length < 6) :
    liftS (op_2rot s) alt = Consensus.execOp (ctxOf env) 113 s alt := conf_2rot_short _ s alt h

/-- … and on NO stack of six or more items: it copies the third pair to the top instead of
    moving it (known finding F07b; `test_op_2rot` pins the 8-item result) -/
theorem F07b_witness :
    op_2rot [[6], [5], [4], [3], [2], [1]] = .ok [[2], [1], [6], [5], [4], [3], [2], [1]] ∧
    ∀ ctx, Consensus.execOp ctx 113 [[6], [5], [4], [3], [2], [1]] [] = .ok ([[2], [1], [6], [5], [4], [3]], []) :=
  ⟨rfl, fun _ => rfl⟩

theorem F07b_everywhere (ctx : Consensus.Ctx) (f e d c b a : Bytes) (s alt : Stack) :
    liftS (op_2rot (f :: e :: d :: c :: b :: a :: s)) alt
      ≠ Consensus.execOp ctx 113 (f :: e :: d :: c :: b :: a :: s) alt := by
  intro h
  have : (b :: a :: f :: e :: d :: c :: b :: a :: s).length = (b :: a :: f :: e :: d :: c :: s).length := by
    have h' : Consensus.Res.ok (b :: a :: f :: e :: d :: c :: b :: a :: s, alt)
        = Consensus.Res.ok (b :: a :: f :: e :: d :: c :: s, alt) := h
    injection h' with h'
    injection h' with h1 _
    rw [h1]
  simp at this
  omega

/-! ## CHECKLOCKTIMEVERIFY / CHECKSEQUENCEVERIFY -/

/-- for every locktime, sequence and stack (operand of any sign and at most 5 bytes): the model's
    outcome is `CheckLockTime`'s, including the 500000000 boundary and the final-sequence rule -/
theorem cltv_conforms (env : Env) (s alt : Stack) (hlt : env.locktime ≤ 4294967295)
    (h : Consensus.execOp (ctxOf env) 177 s alt ≠ .oversize) :
    liftS (op_checklocktimeverify env s) alt = Consensus.execOp (ctxOf env) 177 s alt :=
  conf_cltv env s alt hlt h

/-- for every sequence, version and operand in [-2^39, 2^32 - 1]: the model's outcome is
    `CheckSequence`'s, including the disable flag (bit 31: NOP), the type flag (bit 22), the
    0x0000ffff mask and the version ≥ 2 rule -/
theorem csv_conforms (env : Env) (s alt : Stack)
    (hop : ∀ top rest, s = top :: rest → decodeNum top < 4294967296)
    (h : Consensus.execOp (ctxOf env) 178 s alt ≠ .oversize) :
    liftS (op_checksequenceverify Cfg.repaired env s) alt = Consensus.execOp (ctxOf env) 178 s alt :=
  conf_csv env s alt hop h

/-- the consensus constants are the ones timelock.py defines -/
theorem timelock_constants :
    Gen.blockLimit = Consensus.LOCKTIME_THRESHOLD ∧ Gen.opMaxSequence = Consensus.SEQUENCE_FINAL ∧
    Gen.seqDisableFlag = Consensus.SEQUENCE_LOCKTIME_DISABLE_FLAG ∧
    Gen.seqTimeFlag = Consensus.SEQUENCE_LOCKTIME_TYPE_FLAG ∧
    Gen.seqMask = Consensus.SEQUENCE_LOCKTIME_MASK ∧ Gen.opMaxLocktime = 4294967295 ∧ Gen.csvMinVersion = 2 := by
  decide

/-! ## final stack test -/

/-- after the loop `evaluate` accepts exactly when `CastToBool(stack.back())` (F07a repaired) -/
theorem finalTest_castToBool (stack : Stack) :
    finalTest Cfg.repaired stack = .accept ↔ ∃ top s, stack = top :: s ∧ Consensus.castToBool top = true := by
  rcases stack with _ | ⟨top, s⟩
  · simp [finalTest]
  · simp only [finalTest, Cfg.repaired, if_true, op_verify, castToBool_eq]
    by_cases h : decodeNum top = 0 <;> simp [h]

/-! ## straight-line programs -/

/- evaluate_straightline (full strength) additionally allows OP_2ROT — false today (F07b). -/

/-- For EVERY program (any length) made of data pushes and the opcodes of the subset other than
    IF/NOTIF and 2ROT — pushes of 20 or 32 bytes excluded, they are what `evaluate` by design treats
    as P2SH / witness programs — `Script.evaluate` with an empty witness accepts exactly when
    consensus (`EvalScript` + `CastToBool` of the top) accepts, given enough fuel (one unit per
    command), unless consensus rejected a numeric operand as oversized or the implementation
    raised ValueError (5-byte CSV operand ≥ 2^32, N07f). -/
theorem evaluate_straightline_partial (env : Env) (hlt : env.locktime ≤ 4294967295)
    (prog : List Cmd) (fuel : Nat) (hsl : prog.all slCmd = true) (hfuel : prog.length ≤ fuel)
    (hve : evaluate Cfg.repaired env prog [] fuel ≠ .err .valueError)
    (hov : Consensus.eval (ctxOf env) prog ≠ .oversize) :
    (evaluate Cfg.repaired env prog [] fuel).toSpec = some (Consensus.eval (ctxOf env) prog) :=
  run_straightline env hlt prog [] [] fuel hsl hfuel hve hov

/-- in particular: accepted by the implementation ⇔ accepted by consensus, and fuel never runs out -/
theorem evaluate_straightline_accept (env : Env) (hlt : env.locktime ≤ 4294967295)
    (prog : List Cmd) (fuel : Nat) (hsl : prog.all slCmd = true) (hfuel : prog.length ≤ fuel)
    (hve : evaluate Cfg.repaired env prog [] fuel ≠ .err .valueError)
    (hov : Consensus.eval (ctxOf env) prog ≠ .oversize) :
    (evaluate Cfg.repaired env prog [] fuel = .accept ↔ Consensus.eval (ctxOf env) prog = .accept) ∧
    evaluate Cfg.repaired env prog [] fuel ≠ .outOfFuel := by
  have h := evaluate_straightline_partial env hlt prog fuel hsl hfuel hve hov
  cases he : evaluate Cfg.repaired env prog [] fuel with
  | accept => rw [he] at h; simp only [Out.toSpec, Option.some.injEq] at h; simp [← h]
  | reject => rw [he] at h; simp only [Out.toSpec, Option.some.injEq] at h; simp [← h]
  | err e => rw [he] at h; simp only [Out.toSpec, Option.some.injEq] at h; simp [← h]
  | outOfFuel => rw [he] at h; simp [Out.toSpec] at h

/-! ## properly nested IF / NOTIF / ELSE / ENDIF -/

/- evaluate_nested (full strength) additionally allows OP_2ROT — false today (F07b). -/

/-- For EVERY properly nested program (`Bal`: base commands — plain pushes, the 73 opcodes of
    `opPairs`, TOALTSTACK, FROMALTSTACK — and IF/NOTIF … [ELSE …] ENDIF blocks nested to any depth with
    at most one ELSE per IF), of any length, the implementation's splicing of the command list
    (`op_if` / `op_notif`) accepts exactly when consensus' exec-stack evaluation accepts; same
    provisos as for straight-line programs. -/
theorem evaluate_nested_partial (env : Env) (hlt : env.locktime ≤ 4294967295)
    (prog : List Cmd) (fuel : Nat) (hb : Bal prog) (hfuel : prog.length ≤ fuel)
    (hve : evaluate Cfg.repaired env prog [] fuel ≠ .err .valueError)
    (hov : Consensus.eval (ctxOf env) prog ≠ .oversize) :
    (evaluate Cfg.repaired env prog [] fuel).toSpec = some (Consensus.eval (ctxOf env) prog) :=
  run_nested env hlt prog.length prog (Nat.le_refl _) hb [] [] fuel hfuel hve hov

/-- the scan of `op_if` / `op_notif` returns exactly the two branches and the continuation of a
    properly nested conditional -/
theorem op_if_splits (a b rest : List Cmd) (ha : Bal a) (hb : Bal b) :
    scanIf (a ++ ELSE :: (b ++ ENDIF :: rest)) 1 false [] [] = some (a, b, rest) ∧
    scanIf (a ++ ENDIF :: rest) 1 false [] [] = some (a, [], rest) :=
  ⟨scanIf_ifElse ha hb rest, scanIf_ifThen ha rest⟩

/-- `Bal` is inhabited by programs with nested conditionals -/
example : Bal [.op 81, .op 99, .op 82, .op 100, .op 83, .op 104, .op 103, .op 84, .op 104, .op 81] :=
  Bal.cmd _ _ (by decide)
    (Bal.ifElse false [.op 82, .op 100, .op 83, .op 104] [.op 84] [.op 81]
      (Bal.cmd _ _ (by decide) (Bal.ifThen true [.op 83] [] (Bal.cmd _ _ (by decide) Bal.nil) Bal.nil))
      (Bal.cmd _ _ (by decide) Bal.nil) (Bal.cmd _ _ (by decide) Bal.nil))

/-- N07e (outside "properly nested"): with a second ELSE consensus toggles execution again, the
    implementation keeps filling the false branch: `1 IF 0 ELSE 0 ELSE 1 ENDIF` is accepted by
    consensus and rejected by the implementation -/
theorem N07e_witness :
    evaluate Cfg.repaired (testEnv 0 0 1)
      [.op 81, .op 99, .op 0, .op 103, .op 0, .op 103, .op 81, .op 104] [] 100 = .reject ∧
    Consensus.eval (ctxOf (testEnv 0 0 1))
      [.op 81, .op 99, .op 0, .op 103, .op 0, .op 103, .op 81, .op 104] = .accept := by decide

/-- the hypotheses are satisfiable by a program that exercises pushes, arithmetic, a hash and a
    comparison; it is accepted -/
example : ([.op 82, .op 83, .op 147, .op 85, .op 156, .op 105, .push [1, 2, 3], .op 168, .op 130,
    .push [32], .op 135] : List Cmd).all slCmd = true := by decide

/-! ## the repairs are needed: today's code (Cfg.asIs) deviates on these inputs -/

/-- F07a: a final `b"\x00"` (and `b"\x80"`, negative zero) is accepted by today's final test -/
theorem F07a_witness :
    finalTest Cfg.asIs [[0x00]] = .accept ∧ finalTest Cfg.asIs [[0x80]] = .accept ∧
    Consensus.castToBool [0x00] = false ∧ Consensus.castToBool [0x80] = false ∧
    finalTest Cfg.repaired [[0x00]] = .reject ∧ finalTest Cfg.repaired [[0x80]] = .reject := by decide

/-- F07c: OP_PICK / OP_ROLL with index -1 pick from the bottom today; consensus fails -/
theorem F07c_witness :
    op_pick Cfg.asIs [[0x81], [2], [1]] = .ok [[1], [2], [1]] ∧
    op_roll Cfg.asIs [[0x81], [2], [1]] = .ok [[1], [2]] ∧
    op_pick Cfg.repaired [[0x81], [2], [1]] = .fail ∧ op_roll Cfg.repaired [[0x81], [2], [1]] = .fail ∧
    (∀ ctx, Consensus.execOp ctx 121 [[0x81], [2], [1]] [] = .fail ∧
            Consensus.execOp ctx 122 [[0x81], [2], [1]] [] = .fail) :=
  ⟨by decide, by decide, by decide, by decide, fun _ => ⟨rfl, rfl⟩⟩

/-- F07d: CSV with the disable flag (bit 31) in the operand must be a NOP (BIP112) whatever the
    transaction says; today's code returns False -/
theorem F07d_witness :
    op_checksequenceverify Cfg.asIs (testEnv 0 10 2) [[0, 0, 0, 0x80, 0]] = .fail ∧
    op_checksequenceverify Cfg.repaired (testEnv 0 10 2) [[0, 0, 0, 0x80, 0]] = .ok [[0, 0, 0, 0x80, 0]] ∧
    op_checksequenceverify Cfg.repaired (testEnv 0 0xffffffff 1) [[0, 0, 0, 0x80, 0]] = .ok [[0, 0, 0, 0x80, 0]] ∧
    Consensus.execOp (ctxOf (testEnv 0 0xffffffff 1)) 178 [[0, 0, 0, 0x80, 0]] []
      = .ok ([[0, 0, 0, 0x80, 0]], []) := by decide

/-- N07f (outside the property's operand range): a 5-byte CSV operand 2^32 + 5 is masked by
    consensus and raises ValueError in the implementation -/
theorem N07f_witness :
    op_checksequenceverify Cfg.repaired (testEnv 0 10 2) [[5, 0, 0, 0, 1]] = .err .valueError ∧
    Consensus.execOp (ctxOf (testEnv 0 10 2)) 178 [[5, 0, 0, 0, 1]] [] = .ok ([[5, 0, 0, 0, 1]], []) := by
  decide

/-! ## the source still has the thresholds the model was written against -/

/-- first `len(stack) < k` test of every `op_*` function -/
theorem gen_depth_checks : Gen.opDepthChecks =
    [("op_0notequal:Lt", 1), ("op_1add:Lt", 1), ("op_1sub:Lt", 1), ("op_2drop:Lt", 2), ("op_2dup:Lt", 2),
     ("op_2over:Lt", 4), ("op_2rot:Lt", 6), ("op_2swap:Lt", 4), ("op_3dup:Lt", 3), ("op_abs:Lt", 1),
     ("op_add:Lt", 2), ("op_booland:Lt", 2), ("op_boolor:Lt", 2), ("op_checklocktimeverify:Lt", 1),
     ("op_checkmultisig:Lt", 1), ("op_checksequenceverify:Lt", 1), ("op_checksig:Lt", 2),
     ("op_checksig_schnorr:Lt", 2), ("op_checksigadd_schnorr:Lt", 3), ("op_drop:Lt", 1), ("op_dup:Lt", 1),
     ("op_equal:Lt", 2), ("op_fromaltstack:Lt", 1), ("op_greaterthan:Lt", 2), ("op_greaterthanorequal:Lt", 2),
     ("op_hash160:Lt", 1), ("op_hash256:Lt", 1), ("op_if:Lt", 1), ("op_ifdup:Lt", 1), ("op_lessthan:Lt", 2),
     ("op_lessthanorequal:Lt", 2), ("op_max:Lt", 2), ("op_min:Lt", 2), ("op_negate:Lt", 1), ("op_nip:Lt", 2),
     ("op_not:Lt", 1), ("op_notif:Lt", 1), ("op_numequal:Lt", 2), ("op_numnotequal:Lt", 2), ("op_over:Lt", 2),
     ("op_pick:Lt", 1), ("op_ripemd160:Lt", 1), ("op_roll:Lt", 1), ("op_rot:Lt", 3), ("op_sha1:Lt", 1),
     ("op_sha256:Lt", 1), ("op_size:Lt", 1), ("op_sub:Lt", 2), ("op_swap:Lt", 2), ("op_toaltstack:Lt", 1),
     ("op_tuck:Lt", 2), ("op_verify:Lt", 1), ("op_within:Lt", 3)] := by decide

/-- comparison operators of the `op_*` functions, source order (op_pick / op_roll excluded: F07c) -/
theorem gen_compare_ops : Gen.opCompareOps =
    ["op_0notequal:Eq", "op_abs:Lt", "op_checklocktimeverify:Eq;Lt;Lt", "op_checksequenceverify:Lt;Lt;Lt",
     "op_equal:Eq", "op_greaterthan:Gt", "op_greaterthanorequal:GtE", "op_if:In;Eq;Eq;Eq;Eq;Eq",
     "op_ifdup:NotEq", "op_lessthan:Lt", "op_lessthanorequal:LtE", "op_max:Gt", "op_min:Lt", "op_not:Eq",
     "op_notif:In;Eq;Eq;Eq;Eq;Eq", "op_numequal:Eq", "op_numnotequal:Eq", "op_verify:Eq", "op_within:GtE;Lt"] := by
  decide

/-- integer literals of encode_num / decode_num (0xFF, 8, 0x80, 0x7F, …) -/
theorem gen_num_literals : Gen.encodeNumLiterals = [0, 0, 255, 8, 1, 128, 128, 0, 1, 128] ∧
    Gen.decodeNumLiterals = [0, 1, 0, 128, 0, 127, 0, 1, 8] := by decide

end Buidl.Props.C07
