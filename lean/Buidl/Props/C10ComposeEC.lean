/-
  C10 ∘ C06 ∘ C01/C03 — m-of-n multisig, end to end with REAL signatures: completeness of input
  verification for the ScriptSig / witness that `PSBTIn.finalize` builds from library-made partial
  signatures, and the PSBT workflow theorems of Props/C10Compose with their signature hypotheses
  (`SigsValid`, `env.pkErr k = none`) discharged.  Property theorems only (helpers: Buidl.Proofs.ComposeEC).

  Setting: `pks` are the script keys `sec(d_i·G)` (`LibKey`: SEC encoding, compressed or not, of the public key
  of a secret in [1, n−1]); `sigs` is the partial-signature map of the input (key ↦ element); `LibSigned zOf sigs`:
  every stored element is `PrivateKey(d).sign(z).der() ‖ hashtype` with `zOf hashtype = some z`, stored under
  `sec(d·G)`, with the hypotheses of C01's `verify_sign` (`r < n`, `s ≠ 0`) per signature.  Any subset of the keys
  may have signed; `(pks.filterMap (dget sigs))` are the signatures present, in script order, and the first `m`
  of them are what `finalize` emits.  The environment is `Compose.realEnv` (the interpreter's oracles are the
  real `S256Point.parse` / `Signature.parse` / `S256Point.verify`); `zOf` is the digest function (C05).
-/
import Buidl.Proofs.ComposeEC
namespace Buidl.Props.C10ComposeEC
open Buidl Buidl.EC Buidl.Script Buidl.Interp Buidl.Compose Buidl.ComposePsbt Buidl.ComposeEC
open Buidl.Psbt (Dict dget scriptSigs scriptKeys PIn TxInV TxCodec finalizeIn WitnessBranch P2shBranch)

attribute [local irreducible] pmul

variable (base : Env) (zOf : Nat → Option Nat) (msgOf : Nat → Option Bytes) (c : Schnorr.Cache)

/-! ## library-made signatures are valid partial signatures -/

/-- `sign` → stored element: for every signature `PrivateKey(d).sign(z)` returns (with `r < n`, `s ≠ 0`), every
    hash-type byte whose digest is `z`, and either SEC format: key and element exist, the key is a `LibKey`,
    the element a `LibSig` under it -/
theorem signed_is_libSig (hmac : Bytes → Bytes → Bytes) (fuel d z r sv : Nat)
    (hsign : ECDSA.sign hmac fuel d z = .ok (r, sv)) (hr : r < N) (hs0 : sv ≠ 0) (htb : UInt8)
    (hz : zOf htb.toNat = some z) (cmp : Bool) :
    ∃ k derb, sec (smul (d : Int) G) cmp = some k ∧ ECDSA.der r sv = some derb ∧ LibKey k ∧
      LibSig zOf k (derb ++ [htb]) :=
  libSig_of_sign zOf hmac fuel d z r sv hsign hr hs0 htb hz cmp

/-- **`SigsValid` discharged**: library-made partial signatures are valid in the interpreter's sense under the
    real oracles (C01 `verify_sign`, `der_roundtrip`; C03 `sec_roundtrip`), and library keys parse -/
theorem sigsValid_signed {sigs : Dict Bytes} (hs : LibSigned zOf sigs) (keys : List Bytes)
    (hk : ∀ k ∈ keys, LibKey k) :
    SigsValid (realEnv base zOf msgOf c) sigs keys ∧ ∀ k ∈ keys, (realEnv base zOf msgOf c).pkErr k = none :=
  ⟨sigsValid_of_libSigned base zOf msgOf c hs keys, fun k hkm => pkErr_of_libKey base zOf msgOf c (hk k hkm)⟩

/-- **the OP_CHECKMULTISIG witness from the signers**: the first `m` signatures present, in script order -/
theorem multisig_witness_signed {sigs : Dict Bytes} (hs : LibSigned zOf sigs) (pks : List Bytes)
    (hk : ∀ k ∈ pks, LibKey k) (m : Nat) (hm : m ≤ (pks.filterMap (dget sigs)).length) :
    MultisigWitness (realEnv base zOf msgOf c) pks ((pks.filterMap (dget sigs)).take m) ∧
      ((pks.filterMap (dget sigs)).take m).length = m :=
  multisigWitness_signed base zOf msgOf c hs pks hk m hm

/-! ## completeness of input verification, m-of-n -/

/-- **P2SH m-of-n, end to end**: script `m <sec(d_1 G)> … <sec(d_n G)> n CHECKMULTISIG` (serialised `rs`),
    at least `m` of the keys have signed: scriptSig `OP_0 <first m signatures in script order> <rs>` against
    `HASH160 <hash160(rs)> EQUAL` is accepted -/
theorem complete_p2sh_multisig_signed {sigs : Dict Bytes} (hs : LibSigned zOf sigs) (pks : List Bytes)
    (hk : ∀ k ∈ pks, LibKey k) (m : Nat) (hm : 1 ≤ m ∧ m ≤ 16) (hn : 1 ≤ pks.length ∧ pks.length ≤ 16)
    (hcount : m ≤ (pks.filterMap (dget sigs)).length) (rs : Bytes)
    (hparse : parseCommands rs = some (multisigScript m pks)) (hh : (base.hash160 rs).length = 20)
    (wit : List Bytes) (fuel : Nat) (hf : m + pks.length + 6 ≤ fuel) :
    verifyInput Cfg.repaired (realEnv base zOf msgOf c)
      (.op 0 :: (((pks.filterMap (dget sigs)).take m).map .push ++ [.push rs]))
      (p2shSpk (base.hash160 rs)) wit fuel = .accept := by
  obtain ⟨hw, hlen⟩ := multisigWitness_signed base zOf msgOf c hs pks hk m hcount
  exact Props.C06.complete_p2sh_multisig (realEnv base zOf msgOf c) rs pks _ (by rw [hlen]; exact hm) hn
    (by rw [hlen]; exact hparse) hh hw wit fuel (by rw [hlen]; exact hf)

/-- **native P2WSH m-of-n, end to end**: witness `<> <first m signatures in script order> <ws>` -/
theorem complete_p2wsh_multisig_signed {sigs : Dict Bytes} (hs : LibSigned zOf sigs) (pks : List Bytes)
    (hk : ∀ k ∈ pks, LibKey k) (m : Nat) (hm : 1 ≤ m ∧ m ≤ 16) (hn : 1 ≤ pks.length ∧ pks.length ≤ 16)
    (hcount : m ≤ (pks.filterMap (dget sigs)).length) (ws : Bytes)
    (hparse : parseCommands ws = some (multisigScript m pks)) (hh : (base.sha256 ws).length = 32)
    (fuel : Nat) (hf : m + pks.length + 7 ≤ fuel) :
    verifyInput Cfg.repaired (realEnv base zOf msgOf c) [] (p2wshSpk (base.sha256 ws))
      ([] :: (pks.filterMap (dget sigs)).take m ++ [ws]) fuel = .accept := by
  obtain ⟨hw, hlen⟩ := multisigWitness_signed base zOf msgOf c hs pks hk m hcount
  exact Props.C06.complete_p2wsh_multisig (realEnv base zOf msgOf c) ws pks _ (by rw [hlen]; exact hm) hn
    (by rw [hlen]; exact hparse) hh hw fuel (by rw [hlen]; exact hf)

/-- **P2SH-P2WSH m-of-n, end to end**: scriptSig `[redeem script]`, witness as for P2WSH -/
theorem complete_p2sh_p2wsh_multisig_signed {sigs : Dict Bytes} (hs : LibSigned zOf sigs) (pks : List Bytes)
    (hk : ∀ k ∈ pks, LibKey k) (m : Nat) (hm : 1 ≤ m ∧ m ≤ 16) (hn : 1 ≤ pks.length ∧ pks.length ≤ 16)
    (hcount : m ≤ (pks.filterMap (dget sigs)).length) (rs ws : Bytes)
    (hparseW : parseCommands ws = some (multisigScript m pks)) (hw32 : (base.sha256 ws).length = 32)
    (hparseR : parseCommands rs = some (p2wshSpk (base.sha256 ws))) (hh : (base.hash160 rs).length = 20)
    (fuel : Nat) (hf : m + pks.length + 8 ≤ fuel) :
    verifyInput Cfg.repaired (realEnv base zOf msgOf c) [.push rs] (p2shSpk (base.hash160 rs))
      ([] :: (pks.filterMap (dget sigs)).take m ++ [ws]) fuel = .accept := by
  obtain ⟨hw, hlen⟩ := multisigWitness_signed base zOf msgOf c hs pks hk m hcount
  exact Props.C06.complete_p2sh_p2wsh_multisig (realEnv base zOf msgOf c) rs ws pks _ (by rw [hlen]; exact hm) hn
    (by rw [hlen]; exact hparseW) hw32 hparseR hh hw fuel (by rw [hlen]; exact hf)

/-! ## the PSBT workflow with library-made signatures (C10Compose without signature hypotheses) -/

/-- **p2wsh multisig PSBT input**: glue hypotheses of `C10Compose.p2wsh_multisig_flow` (same script, same keys);
    the partial signatures are library-made: with at least `mm` signers `finalize` emits the witness and the
    real verification accepts it; with fewer `finalize` raises -/
theorem psbt_p2wsh_multisig_flow_signed {Tx : Type} {C : TxCodec Tx} {txin : TxInV} {p : PIn Tx} {spk ws : Script}
    {m : Int} {wraw : Bytes} (hb : WitnessBranch C txin p spk ws m wraw) (mm : Nat) (pks : List Bytes)
    (hmm : 1 ≤ mm ∧ mm ≤ 16) (hn : 1 ≤ pks.length ∧ pks.length ≤ 16) (hnd : pks.Nodup)
    (hws : ws.cmds = multisigScript mm pks) (hnative : p.redeem = none)
    (h32 : (base.sha256 wraw).length = 32) (hspk : spk.cmds = p2wshSpk (base.sha256 wraw))
    (hparse : parseCommands wraw = some ws.cmds) (hk : ∀ k ∈ pks, LibKey k) (hs : LibSigned zOf p.sigs) :
    (mm ≤ (pks.filterMap (dget p.sigs)).length →
      ∃ q, finalizeIn true C txin p = some q ∧ finalScriptSig q = [] ∧
        finalWitness q = [] :: (pks.filterMap (dget p.sigs)).take mm ++ [wraw] ∧
        ∀ fuel, mm + pks.length + 7 ≤ fuel →
          verifyInput Cfg.repaired (realEnv base zOf msgOf c) (finalScriptSig q) spk.cmds (finalWitness q) fuel
            = .accept) ∧
    ((pks.filterMap (dget p.sigs)).length < mm → finalizeIn true C txin p = none) :=
  Props.C10Compose.p2wsh_multisig_flow hb (realEnv base zOf msgOf c) mm pks hmm hn hnd hws hnative h32 hspk hparse
    (fun k hkm => pkErr_of_libKey base zOf msgOf c (hk k hkm)) (sigsValid_of_libSigned base zOf msgOf c hs pks)

/-- **p2sh-p2wsh multisig PSBT input** -/
theorem psbt_p2sh_p2wsh_multisig_flow_signed {Tx : Type} {C : TxCodec Tx} {txin : TxInV} {p : PIn Tx}
    {spk ws r : Script} {m : Int} {wraw : Bytes} (hb : WitnessBranch C txin p spk ws m wraw) (mm : Nat)
    (pks : List Bytes) (rs : Bytes)
    (hmm : 1 ≤ mm ∧ mm ≤ 16) (hn : 1 ≤ pks.length ∧ pks.length ≤ 16) (hnd : pks.Nodup)
    (hws : ws.cmds = multisigScript mm pks) (hredeem : p.redeem = some r)
    (h32 : (base.sha256 wraw).length = 32) (hr : r.cmds = p2wshSpk (base.sha256 wraw))
    (hraw : Psbt.rawOf r = some rs) (hparseR : parseCommands rs = some r.cmds)
    (hh : (base.hash160 rs).length = 20) (hspk : spk.cmds = p2shSpk (base.hash160 rs))
    (hparse : parseCommands wraw = some ws.cmds) (hk : ∀ k ∈ pks, LibKey k) (hs : LibSigned zOf p.sigs) :
    (mm ≤ (pks.filterMap (dget p.sigs)).length →
      ∃ q, finalizeIn true C txin p = some q ∧ finalScriptSig q = [.push rs] ∧
        finalWitness q = [] :: (pks.filterMap (dget p.sigs)).take mm ++ [wraw] ∧
        ∀ fuel, mm + pks.length + 8 ≤ fuel →
          verifyInput Cfg.repaired (realEnv base zOf msgOf c) (finalScriptSig q) spk.cmds (finalWitness q) fuel
            = .accept) ∧
    ((pks.filterMap (dget p.sigs)).length < mm → finalizeIn true C txin p = none) :=
  Props.C10Compose.p2sh_p2wsh_multisig_flow hb (realEnv base zOf msgOf c) mm pks rs hmm hn hnd hws hredeem h32 hr
    hraw hparseR hh hspk hparse (fun k hkm => pkErr_of_libKey base zOf msgOf c (hk k hkm))
    (sigsValid_of_libSigned base zOf msgOf c hs pks)

/-- **bare p2sh multisig PSBT input** (count repaired, F10d) -/
theorem psbt_p2sh_multisig_flow_signed {Tx : Type} {C : TxCodec Tx} {txin : TxInV} {p : PIn Tx} {spk r : Script}
    {m : Int} {rraw : Bytes} (hb : P2shBranch C txin p spk r m rraw) (mm : Nat) (pks : List Bytes)
    (hmm : 1 ≤ mm ∧ mm ≤ 16) (hn : 1 ≤ pks.length ∧ pks.length ≤ 16) (hnd : pks.Nodup)
    (hr : r.cmds = multisigScript mm pks)
    (hh : (base.hash160 rraw).length = 20) (hspk : spk.cmds = p2shSpk (base.hash160 rraw))
    (hparse : parseCommands rraw = some r.cmds) (hk : ∀ k ∈ pks, LibKey k) (hs : LibSigned zOf p.sigs) :
    (mm ≤ (pks.filterMap (dget p.sigs)).length →
      ∃ q, finalizeIn true C txin p = some q ∧
        finalScriptSig q = .op 0 :: (((pks.filterMap (dget p.sigs)).take mm).map .push ++ [.push rraw]) ∧
        q.witness = p.witness ∧
        ∀ fuel, mm + pks.length + 6 ≤ fuel →
          verifyInput Cfg.repaired (realEnv base zOf msgOf c) (finalScriptSig q) spk.cmds (finalWitness q) fuel
            = .accept) ∧
    ((pks.filterMap (dget p.sigs)).length < mm → finalizeIn true C txin p = none) :=
  Props.C10Compose.p2sh_multisig_flow hb (realEnv base zOf msgOf c) mm pks hmm hn hnd hr hh hspk hparse
    (fun k hkm => pkErr_of_libKey base zOf msgOf c (hk k hkm)) (sigsValid_of_libSigned base zOf msgOf c hs pks)

/-! ## the hypotheses are satisfiable -/

-- a library key and a library signature exist (secret 1, nonce 1 from an "HMAC" answering 00…01, digest 0)
example (zOf : Nat → Option Nat) (hz : zOf 1 = some 0) : ∃ k s, LibKey k ∧ LibSig zOf k s := by
  have hsign : ECDSA.sign (fun _ _ => List.replicate 31 0 ++ [1]) 1 1 0 = .ok (Gen.secpGx, Gen.secpGx) := by
    decide +kernel
  obtain ⟨k, derb, _, _, hk, hs⟩ := libSig_of_sign zOf _ 1 1 0 _ _ hsign (by decide) (by decide) (1 : UInt8) hz true
  exact ⟨k, _, hk, hs⟩

-- the empty signature map is library-signed (nobody signed yet)
example (zOf : Nat → Option Nat) : LibSigned zOf [] := by
  intro k s h; simp [dget] at h

end Buidl.Props.C10ComposeEC
