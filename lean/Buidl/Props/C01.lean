/-
  C01 — ECDSA: signing is complete, verification is sound, signatures canonical.
  Property theorems only (helper lemmas: Buidl.Proofs.ECDSA, Buidl.Proofs.ECDSAGroup).
  Models: Buidl.Model.ECDSA over Buidl.Model.EC (constants, comparison operators and thresholds
  from Buidl.Gen.Ecc / Buidl.Gen.Ecdsa, re-extracted from /repo on every run).
  Specifications: Buidl.Spec.RFC6979 (nonce generation, abstract HMAC), Buidl.Spec.ECDSA.Valid.
  `hmac` is an arbitrary function with 32-byte outputs.
-/
import Buidl.Proofs.ECDSAGroup
namespace Buidl.Props.C01
open Buidl Buidl.EC Buidl.ECDSA

/-! ## the nonce is the RFC 6979 nonce -/

/-- PrivateKey.deterministic_k computes RFC 6979 §3.2 (HMAC-SHA256, qlen = 256, bits2octets = z mod q)
    for every secret and digest below 2^256, every HMAC and every loop bound (F01c repaired: also for
    `z = N`). -/
theorem deterministicK_rfc6979 (hmac : Bytes → Bytes → Bytes) (hlen : ∀ k m, (hmac k m).length = 32)
    (fuel d z : Nat) (hd : d < 2 ^ 256) (hz : z < 2 ^ 256) :
    deterministicK hmac fuel d z =
      match Spec.RFC6979.rfc6979 hmac fuel d z with
      | some k => .ok k
      | none => .error .outOfFuel :=
  deterministicK_eq_spec hmac hlen fuel d z hd hz

/-- the loop bound is immaterial: an answer obtained with some fuel is the answer with any more -/
theorem deterministicK_fuel (hmac : Bytes → Bytes → Bytes) (fuel extra d z k : Nat)
    (h : deterministicK hmac fuel d z = .ok k) : deterministicK hmac (fuel + extra) d z = .ok k := by
  simp only [deterministicK] at h ⊢
  split
  · next hz hd => simp only [hz, hd] at h; exact detkLoop_mono hmac _ _ _ _ h extra
  · next hne =>
    split at h
    · next hz hd => exact absurd hd (hne _ _ hz)
    · cases h

/-- the nonce lies in [1, N-1] -/
theorem deterministicK_range (hmac : Bytes → Bytes → Bytes) (fuel d z k : Nat)
    (h : deterministicK hmac fuel d z = .ok k) : 1 ≤ k ∧ k < N :=
  ECDSA.deterministicK_range hmac fuel d z k h

/-- `z = N` and `z = 0` get the same nonce (the F01c witness, now agreeing with the RFC) -/
theorem deterministicK_N (hmac : Bytes → Bytes → Bytes) (fuel d : Nat) :
    deterministicK hmac fuel d N = deterministicK hmac fuel d 0 := by
  simp [deterministicK, detkReduce_eq]

/-! ## canonical signatures -/

/-- low S (F01b repaired: the threshold is the integer `N / 2`) -/
theorem signWith_lowS (k d z r s : Nat) (h : signWith k d z = some (r, s)) : s ≤ (N - 1) / 2 :=
  ECDSA.signWith_lowS k d z r s h

theorem sign_lowS (hmac : Bytes → Bytes → Bytes) (fuel d z r s : Nat)
    (h : sign hmac fuel d z = .ok (r, s)) : s ≤ (N - 1) / 2 := by
  simp only [sign] at h
  split at h
  · cases h
  · split at h
    · cases h
    · next k _ =>
      split at h
      · cases h
      · next rs hrs =>
        injection h with h; subst h
        exact ECDSA.signWith_lowS k d z r s hrs

/-- the low-S threshold read from the source is an integer and equals `N / 2` -/
theorem lowS_threshold : Gen.lowSIsInt = true ∧ Gen.lowSRhs = N / 2 ∧ Gen.lowSOp = "Gt" :=
  ⟨rfl, lowSRhs_eq, rfl⟩

/-! ## DER -/

/-- Signature.parse inverts Signature.der for all `1 ≤ r, s < 2^256` -/
theorem der_roundtrip (r s : Nat) (hr1 : 1 ≤ r) (hr2 : r < 2 ^ 256) (hs1 : 1 ≤ s) (hs2 : s < 2 ^ 256) :
    ∃ b, der r s = some b ∧ parseDer b = some (r, s) := by
  obtain ⟨R, S, mR, mS, lR, lS, hd⟩ := der_spec r s hr1 hr2 hs1 hs2
  refine ⟨_, hd, ?_⟩
  rw [parseDer_layout R S mR.ne_nil mS.ne_nil lR lS, mR.1, mS.1]

/-- the encoding is strict DER: `30 len 02 |R| R 02 |S| S` with minimal positive INTEGER contents
    (first octet < 0x80; a leading 00 only in front of an octet ≥ 0x80), at most 72 bytes -/
theorem der_minimal (r s : Nat) (hr1 : 1 ≤ r) (hr2 : r < 2 ^ 256) (hs1 : 1 ≤ s) (hs2 : s < 2 ^ 256) :
    ∃ R S, MinimalInt R r ∧ MinimalInt S s ∧ R.length ≤ 33 ∧ S.length ≤ 33 ∧
      der r s = some ([0x30, UInt8.ofNat (2 + R.length + (2 + S.length))] ++
        (([2, UInt8.ofNat R.length] ++ R) ++ ([2, UInt8.ofNat S.length] ++ S))) :=
  der_spec r s hr1 hr2 hs1 hs2

example : der 1 (2 ^ 255) = some [0x30, 0x26, 2, 1, 1, 2, 0x21, 0, 0x80, 0, 0, 0, 0, 0, 0, 0, 0, 0, 0, 0, 0, 0, 0,
    0, 0, 0, 0, 0, 0, 0, 0, 0, 0, 0, 0, 0, 0, 0, 0, 0] := by decide
example : MinimalInt [0, 0x80] 128 ∧ MinimalInt [0x7f] 127 := by
  refine ⟨⟨rfl, 0, [0x80], rfl, by decide, fun _ => ⟨0x80, [], rfl, by decide⟩⟩,
    ⟨rfl, 0x7f, [], rfl, by decide, fun h => absurd h (by decide)⟩⟩

/-! ## verification: range check -/

/-- r or s equal to 0 or ≥ n is reported invalid (F01a repaired) -/
theorem out_of_range_rejected (Q : Pt) (z r s : Nat) (h : r = 0 ∨ s = 0 ∨ r ≥ N ∨ s ≥ N) :
    verify Q z r s = some false :=
  verify_out_of_range Q z r s h

/-- in particular the F01a witness `(r, s + N)` is rejected -/
theorem F01a_fixed (Q : Pt) (z r s : Nat) : verify Q z r (s + N) = some false :=
  verify_out_of_range Q z r (s + N) (Or.inr (Or.inr (Or.inr (by omega))))

/-! ## verification is the ECDSA predicate (N prime: Fermat inverse; group law not needed) -/

/-- soundness: S256Point.verify answers true only for tuples with r, s ∈ [1, n-1] that satisfy the
    ECDSA equation `x(z s⁻¹ G + r s⁻¹ Q) ≡ r (mod n)` (F01a repaired) -/
theorem verify_sound (Q : Pt) (z r s : Nat) (h : verify Q z r s = some true) : Spec.ECDSA.Valid Q z r s :=
  verify_sound' Q z r s h

/-- completeness: a tuple satisfying the predicate is accepted.  Explicit hypothesis for the negligible
    event: the x coordinate of the point computed lies below n (the code compares `x == r` without
    reducing x modulo n; x ∈ [n, p) has probability ≈ 2⁻¹²⁸ and no instance is known). -/
theorem verify_complete (Q : Pt) (z r s : Nat) (h : Spec.ECDSA.Valid Q z r s)
    (hx : ∀ x y, sadd (smul ((z * powmod s (N - 2) N : Nat) : Int) G)
      (smul ((r * powmod s (N - 2) N : Nat) : Int) Q) = .aff x y → x < N) :
    verify Q z r s = some true :=
  verify_complete' Q z r s h hx

/-- hence: anything accepted has r, s in range — "never accepted" for every out-of-range tuple -/
theorem verify_true_in_range (Q : Pt) (z r s : Nat) (h : verify Q z r s = some true) :
    1 ≤ r ∧ r < N ∧ 1 ≤ s ∧ s < N :=
  verify_true_range Q z r s h

/-! ## sign → verify (group law of secp256k1, order of G, N prime) -/

/-- For every secret `d`, every nonce `k ∈ [1, n-1]` and every digest `z`: when the signing equation
    yields `(r, s)` with `s ≠ 0` and `r = x(kG) < n` (explicit hypotheses for the two negligible events),
    verification under the public key `dG` accepts — including after the low-S flip (`x(−R) = x(R)`). -/
theorem verify_signWith (k d z r s : Nat) (hk1 : 1 ≤ k) (hk2 : k < N)
    (h : signWith k d z = some (r, s)) (hr : r < N) (hs0 : s ≠ 0) :
    verify (smul (d : Int) G) z r s = some true :=
  ECDSA.verify_signWith k d z r s hk1 hk2 h hr hs0

/-- the same for PrivateKey.sign with its RFC 6979 nonce, for every HMAC and loop bound -/
theorem verify_sign (hmac : Bytes → Bytes → Bytes) (fuel d z r s : Nat)
    (h : sign hmac fuel d z = .ok (r, s)) (hr : r < N) (hs0 : s ≠ 0) :
    verify (smul (d : Int) G) z r s = some true := by
  simp only [sign] at h
  split at h
  · cases h
  · split at h
    · cases h
    · next k hk =>
      split at h
      · cases h
      · next rs hrs =>
        injection h with h; subst h
        obtain ⟨hk1, hk2⟩ := ECDSA.deterministicK_range hmac fuel d z k hk
        exact ECDSA.verify_signWith k d z r s hk1 hk2 hrs hr hs0

/-- the hypotheses of `verify_signWith` are satisfiable: k = d = 1, z = 0 -/
example : signWith 1 1 0 = some (55066263022277343669578718895168534326250603453777594175500187360389116729240, 55066263022277343669578718895168534326250603453777594175500187360389116729240) ∧ 55066263022277343669578718895168534326250603453777594175500187360389116729240 < N := by
  decide +kernel

end Buidl.Props.C01
