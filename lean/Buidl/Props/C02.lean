/-
  C02 — BIP340 Schnorr: signatures equal the specification and verify exactly per spec.
  Property theorems only (helper lemmas: Buidl.Proofs.Schnorr, Buidl.Proofs.SchnorrGroup).
  Models: Buidl.Model.Schnorr over Buidl.Model.EC (tags, comparison operators, read widths from
  Buidl.Gen.Schnorr, re-extracted from /repo on every run).  Specification: Buidl.Spec.BIP340.
  `sha256` is an arbitrary function.
-/
import Buidl.Proofs.SchnorrSign
namespace Buidl.Props.C02
open Buidl Buidl.EC Buidl.Schnorr

/-! ## tagged hashes: the cache is transparent -/

/-- For every history of `tagged_hash` calls starting from the empty TAG_HASH_CACHE, every result is
    `sha256(sha256(tag) ‖ sha256(tag) ‖ msg)` — whatever was cached in between. -/
theorem taggedHash_cache_transparent (sha256 : Bytes → Bytes) (calls : List (Bytes × Bytes)) :
    ∃ c, taggedHistory sha256 [] calls =
      some (calls.map (fun tm => Spec.BIP340.hashTag sha256 tm.1 tm.2), c) := by
  obtain ⟨c, h, _⟩ := taggedHistory_ok sha256 calls [] (cacheOK_nil sha256)
  exact ⟨c, h⟩

/-- The invariant behind it (every cached entry is `sha256 tag` doubled) is kept by every call, and
    under it a call never raises and returns the specification's tagged hash. -/
theorem taggedHash_invariant (sha256 : Bytes → Bytes) (c : Cache) (hc : CacheOK sha256 c) (tag msg : Bytes) :
    ∃ c', taggedHash sha256 c tag msg = some (Spec.BIP340.hashTag sha256 tag msg, c') ∧ CacheOK sha256 c' :=
  taggedHash_spec sha256 c hc tag msg

/-- the three tags are the BIP's -/
theorem tags : Gen.schnorrTagAux = Spec.BIP340.tagAux ∧ Gen.schnorrTagNonce = Spec.BIP340.tagNonce ∧
    Gen.schnorrTagChallenge = Spec.BIP340.tagChallenge := ⟨tagAux_eq, tagNonce_eq, tagChallenge_eq⟩

example : CacheOK (fun b => b) [([1], [1, 1])] := by
  intro tag v h
  simp only [cacheGet] at h
  split at h
  · next e => cases h; subst e; rfl
  · cases h

/-! ## the 64-byte codec -/

/-- what SchnorrSignature.parse accepts: at least 32 bytes, the first 32 an x-only encoding that lifts
    (or zero: the point at infinity, which verification then rejects), `s < n` -/
theorem parse_sound (b : Bytes) (R : Pt) (s : Nat) (h : parse b = some (R, s)) :
    32 ≤ b.length ∧ parseXonly (b.take 32) = some R ∧ s = beToNat ((b.drop 32).take 32) ∧ s < N :=
  parse_some b R s h

/-- parse then serialize reproduces the 64 bytes -/
theorem parse_serialize (b : Bytes) (hb : b.length = 64) (R : Pt) (s : Nat) (h : parse b = some (R, s)) :
    serialize R s = some b := by
  have := serialize_parse b (by omega) R s h
  rwa [List.take_of_length_le (by omega)] at this

/-- `s ≥ n` is rejected -/
theorem parse_rejects_s_ge_n (b : Bytes) (h : beToNat ((b.drop 32).take 32) ≥ N) : parse b = none :=
  parse_s_ge_N b h

/-- `r ≥ p` is rejected -/
theorem parse_rejects_r_ge_p (b : Bytes) (h : beToNat (b.take 32) ≥ P) : parse b = none :=
  parse_r_ge_P b h

/-- an `r` that is not the x coordinate of a curve point is rejected -/
theorem parse_rejects_non_x (b : Bytes) (h0 : beToNat (b.take 32) ≠ 0)
    (hn : ∀ y, y < P → y * y % P ≠ (beToNat (b.take 32) ^ 3 + 7) % P) : parse b = none :=
  parse_nonresidue b h0 hn

/-- the constructor check -/
theorem mkSig_rejects (R : Pt) (s : Nat) (h : s ≥ N) : mkSig R s = none := by
  rw [mkSig_eq, if_pos h]

/-- serialize then parse: every finite curve point with even y (every R a signature can carry) and
    every `s < n` -/
theorem serialize_parse (x y s : Nat) (hv : Valid P A B (.aff x y)) (hy : y % 2 = 0) (hs : s < N) :
    ∃ b, serialize (.aff x y) s = some b ∧ b.length = 64 ∧ parse b = some (.aff x y, s) :=
  ⟨_, serialize_aff x y s hs, by simp [Spec.BIP340.bytes32], parse_serialize_even x y s hv hy hs⟩

/-! ## lift_x (p ≡ 3 mod 4, Euler's criterion) -/

/-- `lift_x(x)` succeeds on every x coordinate of a curve point and returns the point with even y … -/
theorem liftX_complete (x y : Nat) (hv : Valid P A B (.aff x y)) :
    Spec.BIP340.liftX x = some (evenRep (.aff x y)) :=
  liftX_of_valid hv

/-- … and whatever it returns is a curve point with that x and even y (so it fails when `x³ + 7` is
    not a square, when `x ≥ p`, and at `x = 0`) -/
theorem liftX_sound (x : Nat) (Q : Pt) (h : Spec.BIP340.liftX x = some Q) :
    ∃ y, Q = .aff x y ∧ y % 2 = 0 ∧ Valid P A B (.aff x y) :=
  liftX_valid h

/-- the code's `parse_xonly` is `lift_x` on every non-zero 32-byte string (zero is read as infinity) -/
theorem parseXonly_is_liftX (b : Bytes) (h0 : beToNat b ≠ 0) : Spec.BIP340.liftX (beToNat b) = parseXonly b :=
  liftX_eq_parseXonly b h0

/-! ## verification is BIP340 verification (group law, square roots in F_p) -/

/-- For every 32-byte key, every message and every 64-byte signature, under every tag-cache state
    satisfying the invariant: `S256Point.parse(pk).verify_schnorr(msg, SchnorrSignature.parse(sig))`
    returns True exactly when the BIP340 verification algorithm succeeds; otherwise it returns False
    or raises.  (R = 0, R ≥ p, R not an x coordinate, s ≥ n, the key 0 or not on the curve, an odd or
    infinite `sG − eP` are all inside this statement.) -/
theorem verifySchnorr_eq_spec (sha256 : Bytes → Bytes) (c : Cache) (hc : CacheOK sha256 c)
    (pk m sig : Bytes) (hpk : pk.length = 32) (hsig : sig.length = 64) :
    (∃ c', verifyRaw sha256 c pk m sig = some (true, c')) ↔ Spec.BIP340.verify sha256 pk m sig = true :=
  verifyRaw_iff_spec sha256 c hc pk m sig hpk hsig

/-- The all-zero key.  The code's `parse_xonly` does not refuse 32 zero bytes — it returns the point at infinity
    (with which `s·G − e·P = s·G`, so `x(s·G) ‖ s` would "verify" for every message if the verification went on) —
    and is saved only by `verify_schnorr` raising on the point at infinity before anything else.  Proved: the model
    of exactly that behaviour never returns True for the zero key, for every message and every signature string,
    and BIP340 rejects it (`lift_x(0)` fails: 7 is not a square modulo p). -/
theorem verify_rejects_zero_key (sha256 : Bytes → Bytes) (c : Cache) (pk m sig : Bytes) (hpk : pk.length = 32)
    (h0 : beToNat pk = 0) :
    parsePoint pk = some .inf ∧ verifyRaw sha256 c pk m sig = none ∧ Spec.BIP340.verify sha256 pk m sig = false :=
  verifyRaw_zero_key sha256 c pk m sig hpk h0

/-- more generally `verify_schnorr` with the point at infinity as key raises for every R, s and message -/
theorem verify_raises_on_infinite_key (sha256 : Bytes → Bytes) (c : Cache) (m : Bytes) (R : Pt) (s : Nat) :
    verifySchnorr sha256 c .inf m R s = none :=
  verifySchnorr_inf_key sha256 c m R s

/-! ## signing is BIP340 signing -/

/-- `aux = None` means 32 zero bytes -/
theorem signSchnorr_aux_default (sha256 : Bytes → Bytes) (c : Cache) (d : Nat) (m : Bytes) :
    signSchnorr sha256 c d m none = signSchnorr sha256 c d m (some (List.replicate 32 0)) := rfl

/-- For every secret in [1, n-1], every 32-byte message and aux, every cache state satisfying the
    invariant: `sign_schnorr(...).serialize()` is exactly the output of the BIP340 signing algorithm
    (both fail only in the event `k' = 0`). -/
theorem signSchnorr_eq_spec (sha256 : Bytes → Bytes) (c : Cache) (hc : CacheOK sha256 c) (d : Nat) (m a : Bytes)
    (hd1 : 1 ≤ d) (hd2 : d < N) (hm : m.length = 32) (ha : a.length = 32) :
    (signSchnorr sha256 c d m (some a)).bind (fun x => serialize x.1.1 x.1.2) = Spec.BIP340.sign sha256 d m a := by
  obtain ⟨px, py, hPd, h0, h1⟩ := sign_main sha256 c hc d m a hd1 hd2 hm ha
  by_cases hk : nonceOf sha256 d px py m a = 0
  · obtain ⟨hs, hm'⟩ := h0 hk
    rw [hs, hm']; rfl
  · obtain ⟨rx, ry2, s, c', _, _, hslt, hs, hm', _, _⟩ := h1 hk
    rw [hs, hm']
    exact serialize_aff rx ry2 s hslt

/-- The self-verification inside sign_schnorr never raises, and the signature verifies under the x-only
    public key: whenever the BIP340 nonce `k'` is non-zero (explicit hypothesis for an event of
    probability ≈ 2⁻²⁵⁶), signing succeeds on both sides with the same 64 bytes, R has even y, and
    BIP340 verification of the result succeeds. -/
theorem sign_verifies (sha256 : Bytes → Bytes) (c : Cache) (hc : CacheOK sha256 c) (d : Nat) (m a : Bytes)
    (hd1 : 1 ≤ d) (hd2 : d < N) (hm : m.length = 32) (ha : a.length = 32)
    (hk : Spec.BIP340.nonce sha256 d m a ≠ some 0) :
    ∃ sig R s c', signSchnorr sha256 c d m (some a) = some ((R, s), c') ∧ CacheOK sha256 c' ∧
      serialize R s = some sig ∧ sig.length = 64 ∧ Spec.BIP340.sign sha256 d m a = some sig ∧
      Spec.BIP340.verify sha256 (xonly (smul (d : Int) G)) m sig = true := by
  obtain ⟨px, py, hPd, _, h1⟩ := sign_main sha256 c hc d m a hd1 hd2 hm ha
  have hk' : nonceOf sha256 d px py m a ≠ 0 := by
    intro h0
    rw [spec_nonce_eq sha256 d px py m a hd1 hd2 hPd, h0] at hk
    exact hk rfl
  obtain ⟨rx, ry2, s, c', _, _, hslt, hs, hm', hc', hv⟩ := h1 hk'
  refine ⟨_, _, s, c', hm', hc', serialize_aff rx ry2 s hslt, by simp [Spec.BIP340.bytes32], hs, ?_⟩
  rw [hPd]; exact hv

/-- the nonce hypothesis is satisfiable (a constant "hash" returning the byte 01: k' = 1) -/
example : Spec.BIP340.nonce (fun _ => [1]) 1 [] [] = some 1 := by
  unfold Spec.BIP340.nonce
  decide +kernel

end Buidl.Props.C02
