/-
  C02 — BIP340 Schnorr: signatures equal the specification and verify exactly per spec.
  Property theorems only (helper lemmas: Buidl.Proofs.Schnorr, Buidl.Proofs.SchnorrGroup).
  Models: Buidl.Model.Schnorr over Buidl.Model.EC (tags, comparison operators, read widths from
  Buidl.Gen.Schnorr, re-extracted from /repo on every run).  Specification: Buidl.Spec.BIP340.
  `sha256` is an arbitrary function.
-/
import Buidl.Proofs.Schnorr
namespace Buidl.Props.C02
open Buidl Buidl.EC Buidl.Schnorr

/-! ## tagged hashes: the cache is transparent -/

/-- For every history of `tagged_hash` calls starting from the empty TAG_HASH_CACHE, every result is
    `sha256(sha256(tag) ‖ sha256(tag) ‖ msg)` — whatever was cached in between. -/
theorem taggedHash_cache_transparent (sha256 : Bytes → Bytes) (calls : List (Bytes × Bytes)) :
    ∃ c, taggedHistory sha256 [] calls =
      some (calls.map (fun tm => Spec.BIP340.hashTag sha256 tm.1 tm.2), c) := by
  obtain ⟨c, h, _⟩ := taggedHistory_ok sha256 calls [] (cacheOK_nil sha256)
  exact ⟨c, h⟩

/-- The invariant behind it (every cached entry is `sha256 tag` doubled) is kept by every call, and
    under it a call never raises and returns the specification's tagged hash. -/
theorem taggedHash_invariant (sha256 : Bytes → Bytes) (c : Cache) (hc : CacheOK sha256 c) (tag msg : Bytes) :
    ∃ c', taggedHash sha256 c tag msg = some (Spec.BIP340.hashTag sha256 tag msg, c') ∧ CacheOK sha256 c' :=
  taggedHash_spec sha256 c hc tag msg

/-- the three tags are the BIP's -/
theorem tags : Gen.schnorrTagAux = Spec.BIP340.tagAux ∧ Gen.schnorrTagNonce = Spec.BIP340.tagNonce ∧
    Gen.schnorrTagChallenge = Spec.BIP340.tagChallenge := ⟨tagAux_eq, tagNonce_eq, tagChallenge_eq⟩

example : CacheOK (fun b => b) [([1], [1, 1])] := by
  intro tag v h
  simp only [cacheGet] at h
  split at h
  · next e => cases h; subst e; rfl
  · cases h

/-! ## the 64-byte codec -/

/-- what SchnorrSignature.parse accepts: at least 32 bytes, the first 32 an x-only encoding that lifts
    (or zero: the point at infinity, which verification then rejects), `s < n` -/
theorem parse_sound (b : Bytes) (R : Pt) (s : Nat) (h : parse b = some (R, s)) :
    32 ≤ b.length ∧ parseXonly (b.take 32) = some R ∧ s = beToNat ((b.drop 32).take 32) ∧ s < N :=
  parse_some b R s h

/-- parse then serialize reproduces the 64 bytes -/
theorem parse_serialize (b : Bytes) (hb : b.length = 64) (R : Pt) (s : Nat) (h : parse b = some (R, s)) :
    serialize R s = some b := by
  have := serialize_parse b (by omega) R s h
  rwa [List.take_of_length_le (by omega)] at this

/-- `s ≥ n` is rejected -/
theorem parse_rejects_s_ge_n (b : Bytes) (h : beToNat ((b.drop 32).take 32) ≥ N) : parse b = none :=
  parse_s_ge_N b h

/-- `r ≥ p` is rejected -/
theorem parse_rejects_r_ge_p (b : Bytes) (h : beToNat (b.take 32) ≥ P) : parse b = none :=
  parse_r_ge_P b h

/-- the constructor check -/
theorem mkSig_rejects (R : Pt) (s : Nat) (h : s ≥ N) : mkSig R s = none := by
  rw [mkSig_eq, if_pos h]

end Buidl.Props.C02
