/-
  C13 ∘ C12 ∘ C06 ∘ C02 — P2TR script path, end to end with REAL BIP340 signatures: the tapscript leaves
  of TapRootMultiSig (`multi_leaf_tree`: one k-of-k leaf per k-subset; `single_leaf`: one k-of-n leaf) are
  spendable with the signatures `PrivateKey.sign_schnorr` produces.  Property theorems only (helpers:
  Buidl.Proofs.ComposeTapEC).  Props/C13Compose states these spends with the interpreter's Schnorr oracle
  (`AllSigned env …`, `ChecksOK` / `countValid`); here the environment is
  `realEnv (tapEnv H base) zOf msgOf c` — real signature oracles AND real taproot oracles — and the oracle
  hypotheses are discharged from C02 (`sign_verifies`, `verifySchnorr_eq_spec`).

  `LibSchnorrSig sha256 msgOf x s`: `x = xonly(d·G)`, `s` = the BIP340 signature of the 32-byte digest `m` by `d`
  (64 bytes if `msgOf 0 = some m`, or with the hash-type byte of `m` appended), BIP340 nonce ≠ 0.
  `msgOf` is the digest function (`tx_obj.sig_hash(input_index, hash_type)` of the taproot sighash, C05).
-/
import Buidl.Proofs.ComposeTapEC
namespace Buidl.Props.C13ComposeEC
open Buidl Buidl.EC Buidl.Script Buidl.MuSig Buidl.Interp Buidl.Compose Buidl.ComposeTap Buidl.ComposeTapEC
open Buidl.Taproot (Hashes Leaf Tree ControlBlock cbAccepts)

attribute [local irreducible] pmul

variable (base : Env) (zOf : Nat → Option Nat) (msgOf : Nat → Option Bytes) (c : Schnorr.Cache)

/-- **`sign_schnorr` makes library signatures**: for every secret in [1, n−1], 32-byte digest and aux, under any
    tag-cache state satisfying the invariant (the signer's cache need not be the verifier's) -/
theorem sign_schnorr_is_lib (cs : Schnorr.Cache) (hcs : Schnorr.CacheOK base.sha256 cs) (d : Nat) (m a : Bytes)
    (hd1 : 1 ≤ d) (hd2 : d < N) (hm : m.length = 32) (ha : a.length = 32)
    (hk : Spec.BIP340.nonce base.sha256 d m a ≠ some 0) :
    ∃ sig R sv c', Schnorr.signSchnorr base.sha256 cs d m (some a) = some ((R, sv), c') ∧
      Schnorr.serialize R sv = some sig ∧
      (msgOf 0 = some m → LibSchnorrSig base.sha256 msgOf (xonly (smul (d : Int) G)) sig) ∧
      (∀ htb : UInt8, msgOf htb.toNat = some m →
        LibSchnorrSig base.sha256 msgOf (xonly (smul (d : Int) G)) (sig ++ [htb])) :=
  libSig_of_signSchnorr base msgOf cs hcs d m a hd1 hd2 hm ha hk

/-- **a library signature passes op_checksig_schnorr / op_checksigadd_schnorr** under the real oracles -/
theorem schnorr_check_signed (hc : Schnorr.CacheOK base.sha256 c) {x s : Bytes}
    (h : LibSchnorrSig base.sha256 msgOf x s) :
    schnorrCheck (realEnv base zOf msgOf c) x s = .ok (some true) :=
  schnorrCheck_of_libSig base zOf msgOf c hc h

/-- one library signature per key: `AllSigned`; signatures or empty elements: all checkable, the valid ones are
    the non-empty ones -/
theorem signers_checks (hc : Schnorr.CacheOK base.sha256 c) {keys sigs : List Bytes} :
    (List.Forall₂ (LibSchnorrSig base.sha256 msgOf) keys sigs → AllSigned (realEnv base zOf msgOf c) keys sigs) ∧
    (List.Forall₂ (SignedOrEmpty base.sha256 msgOf) keys sigs →
      ChecksOK (realEnv base zOf msgOf c) keys sigs ∧
      countValid (realEnv base zOf msgOf c) keys sigs = (sigs.filter (fun s => !s.isEmpty)).length) :=
  ⟨allSigned_of_lib base zOf msgOf c hc, checks_of_signedOrEmpty base zOf msgOf c hc⟩

/-- **`multi_leaf_tree`, end to end**: setting of `C13Compose.subset_spend` (no timelock, pairwise different
    x-only keys, internal key `a·G ≠ ∞`, 32-byte tagged hashes).  For every k-subset `S` of the participants:
    its leaf exists; with the control block the builder returns (depth ≤ 128), the output key `Q`, the script
    bytes and the block bytes exist, and the witness `[sig of the last key, …, sig of x0, script, control block]`
    in which every key of `S` (sorted x-only order `x0 :: rest`) carries the signature `sign_schnorr` made with
    its secret is accepted for the output `OP_1 <xonly Q>` under the real signature and taproot oracles -/
theorem subset_spend_signed (H : Hashes) (hL : ∀ m, (H.tapLeaf m).length = 32) (hB : ∀ m, (H.tapBranch m).length = 32)
    (hc : Schnorr.CacheOK base.sha256 c) {T : TapRootMultiSig} {t : Tree}
    (ht : multiLeafTree T none none = some t) (hnd : (T.points.map xonly).Nodup)
    {S : List Pt} (hS : S.Nodup) (hsub : ∀ p ∈ S, p ∈ T.points) (hlen : S.length = T.k)
    (a : Int) (ha : smul a G ≠ .inf) :
    ∃ cs x0 rest, multiSigCmds S T.k none none = some cs ∧ ({ script := { cmds := cs } } : Leaf) ∈ t.leaves ∧
      sortBytes (S.map xonly) = x0 :: rest ∧ cs = leafScript x0 rest T.k ∧
      ∀ cb, t.controlBlock H (smul a G) (some { script := { cmds := cs } }) = some cb → cb.hashes.length ≤ 128 →
        ∃ Q rawTap cbBytes, t.externalPubkey H (smul a G) = some Q ∧ serCmds cs = some rawTap ∧
          cb.serialize = some cbBytes ∧
          ∀ sigs fuel, List.Forall₂ (LibSchnorrSig base.sha256 msgOf) (x0 :: rest) sigs → 3 * T.k + 4 ≤ fuel →
            verifyInput Cfg.repaired (realEnv (tapEnv H base) zOf msgOf c) [] (p2trSpk (xonly Q))
              (sigs.reverse ++ [rawTap, cbBytes]) fuel = .accept := by
  obtain ⟨cs, x0, rest, h1, h2, h3, h4, hrest⟩ := Props.C13Compose.subset_spend H hL hB
    (realEnv (tapEnv H base) zOf msgOf c) (realEnv_oracles H base zOf msgOf c) ht hnd hS hsub hlen a ha
  refine ⟨cs, x0, rest, h1, h2, h3, h4, ?_⟩
  intro cb hcb hdepth
  obtain ⟨Q, rawTap, cbBytes, hQ, hser, hcbs, _, hcomp, _⟩ := hrest cb hcb hdepth
  refine ⟨Q, rawTap, cbBytes, hQ, hser, hcbs, ?_⟩
  intro sigs fuel hall hf
  exact hcomp sigs fuel (allSigned_of_lib (tapEnv H base) zOf msgOf c hc hall) hf

/-- **`single_leaf` (one k-of-n leaf), end to end**: one witness element per key in sorted x-only order
    (reversed on the wire): the library signature of the keys that sign, the empty element for the others
    (keys are well-formed x-only keys); when exactly the threshold many signed, the spend is accepted -/
theorem single_leaf_spend_signed (H : Hashes) (hL : ∀ m, (H.tapLeaf m).length = 32)
    (hB : ∀ m, (H.tapBranch m).length = 32) (hc : Schnorr.CacheOK base.sha256 c) {T : TapRootMultiSig} {t : Tree}
    (ht : singleLeaf T none none = some t) (hk : 1 ≤ T.k) (hn : T.points.length ≤ 2 ^ 32)
    (a : Int) (ha : smul a G ≠ .inf) :
    ∃ cs x0 rest, multiSigCmds T.points T.k none none = some cs ∧ t = .leaf { script := { cmds := cs } } ∧
      sortBytes (T.points.map xonly) = x0 :: rest ∧ cs = leafScript x0 rest T.k ∧
      ∀ cb, t.controlBlock H (smul a G) (some { script := { cmds := cs } }) = some cb →
        ∃ Q rawTap cbBytes, t.externalPubkey H (smul a G) = some Q ∧ serCmds cs = some rawTap ∧
          cb.serialize = some cbBytes ∧
          ∀ sigs fuel, List.Forall₂ (SignedOrEmpty base.sha256 msgOf) (x0 :: rest) sigs →
            (sigs.filter (fun s => !s.isEmpty)).length = leafThreshold rest T.k →
            sigs.length + 2 * rest.length + 6 ≤ fuel →
            verifyInput Cfg.repaired (realEnv (tapEnv H base) zOf msgOf c) [] (p2trSpk (xonly Q))
              (sigs.reverse ++ [rawTap, cbBytes]) fuel = .accept := by
  obtain ⟨cs, x0, rest, h1, h2, h3, h4, hrest⟩ := Props.C13Compose.single_leaf_spend H hL hB
    (realEnv (tapEnv H base) zOf msgOf c) (realEnv_oracles H base zOf msgOf c) ht hk hn a ha
  refine ⟨cs, x0, rest, h1, h2, h3, h4, ?_⟩
  intro cb hcb
  obtain ⟨Q, rawTap, cbBytes, hQ, hser, hcbs, _, hcomp, _⟩ := hrest cb hcb
  refine ⟨Q, rawTap, cbBytes, hQ, hser, hcbs, ?_⟩
  intro sigs fuel hall hcnt hf
  obtain ⟨hok, hcv⟩ := checks_of_signedOrEmpty (tapEnv H base) zOf msgOf c hc hall
  exact hcomp sigs fuel hok (by rw [hcv, hcnt]) hf

/-! ## the hypotheses are satisfiable -/

-- nobody signed: every element empty, every key a well-formed x-only key (here: the generator's)
example (sha256 : Bytes → Bytes) (msgOf : Nat → Option Bytes) :
    List.Forall₂ (SignedOrEmpty sha256 msgOf) [xonly G] [[]] :=
  List.Forall₂.cons (Or.inr ⟨rfl, _, parseXonly_xonly G_valid G_ne_inf⟩) List.Forall₂.nil

end Buidl.Props.C13ComposeEC
