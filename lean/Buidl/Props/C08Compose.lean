/-
  C08 ∘ C01 ∘ C03 ∘ C06 — an HD wallet end to end: the key a watch-only wallet derives PUBLICLY (BIP32 CKDpub
  along a non-hardened path) yields the P2WPKH program that the signer's PRIVATELY derived key can spend:
  the derived public key's SEC encoding is the signer's public key (C08 `priv_pub_traverse_consistent` /
  `pub_priv_child_consistent`), it parses back (C03 `sec_roundtrip`), the signature of the derived secret
  verifies under it (C01 `verify_sign`) and the witness `[sig, pubkey]` is accepted by input verification with
  the real signature checks (C06 ∘ `Compose.realEnv`).  Property theorems only.

  `hmac512` (HMAC-SHA512 of BIP32), `hmac` (HMAC-SHA256 of RFC 6979) and the hash functions of `base` are
  arbitrary; hash160 of the wallet is `base.hash160`.  `zOf` is the digest function (C05).
  Hypotheses for negligible events: those of `verify_sign` (`r < n`, `s ≠ 0`).
-/
import Buidl.Props.C08
import Buidl.Proofs.Compose
namespace Buidl.Props.C08Compose
open Buidl Buidl.EC Buidl.PyStr Buidl.HD Buidl.Script Buidl.Interp Buidl.Compose

attribute [local irreducible] pmul

variable (base : Env) (zOf : Nat → Option Nat) (msgOf : Nat → Option Bytes) (c : Schnorr.Cache)
variable (hmac512 : Bytes → Bytes → Bytes)

/-- **the signer's key is the watch-only wallet's key.**  `k'` = private traverse of `path` from `k`, `q` =
    public traverse of the same path from `k.pub`; a signature `sign(k'.secret, z)` exists.  Then `q.point` is
    `k'.secret·G`, a finite curve point; both SEC encodings exist and parse back to it; and the signature
    verifies under the publicly derived point -/
theorem hd_key_verifies (path : Str) (k k' : HDPriv) (q : HDPub)
    (hk : k.traverse hmac512 base.hash160 path = some k') (hq : k.pub.traverse hmac512 base.hash160 path = some q)
    (hmac : Bytes → Bytes → Bytes) (fuel0 z r s : Nat)
    (hsign : ECDSA.sign hmac fuel0 k'.secret z = .ok (r, s)) (hr : r < N) (hs0 : s ≠ 0) :
    q.point = smul (k'.secret : Int) G ∧ Valid P A B q.point ∧ q.point ≠ .inf ∧
    (∀ cmp, ∃ pkb, sec q.point cmp = some pkb ∧ parsePoint pkb = some q.point) ∧
    ECDSA.verify q.point z r s = some true := by
  have hqk : q = k'.pub := Props.C08.priv_pub_traverse_consistent hmac512 base.hash160 path k k' q hk hq
  have hpt : q.point = smul (k'.secret : Int) G := by rw [hqk]; rfl
  obtain ⟨hd1, hd2⟩ := sign_validSecret hsign
  refine ⟨hpt, ?_, ?_, ?_, ?_⟩
  · rw [hpt]; exact smul_valid G_valid _
  · rw [hpt]; exact smul_G_ne_inf_of_range hd1 hd2
  · intro cmp; rw [hpt]; exact pubkey_sec hd1 hd2 cmp
  · rw [hpt]; exact Props.C01.verify_sign hmac fuel0 _ z r s hsign hr hs0

/-- **HD wallet, P2WPKH, end to end.**  The watch-only wallet derives `q` publicly and pays to
    `OP_0 <hash160(sec(q.point))>`; the signer derives `k'` privately along the same path and signs the digest:
    the witness `[der(sign(k'.secret, z)) ‖ hashtype, sec(q.point)]` is accepted by input verification with the real
    ECDSA checks -/
theorem hd_p2wpkh_spend (path : Str) (k k' : HDPriv) (q : HDPub)
    (hk : k.traverse hmac512 base.hash160 path = some k') (hq : k.pub.traverse hmac512 base.hash160 path = some q)
    (hmac : Bytes → Bytes → Bytes) (fuel0 z r s : Nat)
    (hsign : ECDSA.sign hmac fuel0 k'.secret z = .ok (r, s)) (hr : r < N) (hs0 : s ≠ 0)
    (htb : UInt8) (hz : zOf htb.toNat = some z) (derb pkb : Bytes)
    (hder : ECDSA.der r s = some derb) (hsec : sec q.point true = some pkb)
    (h20 : (base.hash160 pkb).length = 20) (fuel : Nat) (hf : 9 ≤ fuel) :
    verifyInput Cfg.repaired (realEnv base zOf msgOf c) [] (p2wpkhSpk (base.hash160 pkb))
      [derb ++ [htb], pkb] fuel = .accept := by
  have hqk : q = k'.pub := Props.C08.priv_pub_traverse_consistent hmac512 base.hash160 path k k' q hk hq
  have hpt : q.point = smul (k'.secret : Int) G := by rw [hqk]; rfl
  rw [hpt] at hsec
  exact Props.C06.complete_p2wpkh (realEnv base zOf msgOf c) _ pkb _ h20 rfl
    (ecdsaAuth_of_sign base zOf msgOf c hmac fuel0 k'.secret z r s hsign hr hs0 htb hz true derb pkb hder hsec) fuel hf

/-- the same for P2PKH (`DUP HASH160 <hash160(sec(q.point))> EQUALVERIFY CHECKSIG`), either SEC format -/
theorem hd_p2pkh_spend (path : Str) (k k' : HDPriv) (q : HDPub)
    (hk : k.traverse hmac512 base.hash160 path = some k') (hq : k.pub.traverse hmac512 base.hash160 path = some q)
    (hmac : Bytes → Bytes → Bytes) (fuel0 z r s : Nat)
    (hsign : ECDSA.sign hmac fuel0 k'.secret z = .ok (r, s)) (hr : r < N) (hs0 : s ≠ 0)
    (htb : UInt8) (hz : zOf htb.toNat = some z) (cmp : Bool) (derb pkb : Bytes)
    (hder : ECDSA.der r s = some derb) (hsec : sec q.point cmp = some pkb)
    (wit : List Bytes) (fuel : Nat) (hf : 7 ≤ fuel) :
    verifyInput Cfg.repaired (realEnv base zOf msgOf c) [.push (derb ++ [htb]), .push pkb]
      (p2pkhCommands (base.hash160 pkb)) wit fuel = .accept := by
  have hqk : q = k'.pub := Props.C08.priv_pub_traverse_consistent hmac512 base.hash160 path k k' q hk hq
  have hpt : q.point = smul (k'.secret : Int) G := by rw [hqk]; rfl
  rw [hpt] at hsec
  exact Props.C06.complete_p2pkh (realEnv base zOf msgOf c) _ pkb _ wit rfl
    (ecdsaAuth_of_sign base zOf msgOf c hmac fuel0 k'.secret z r s hsign hr hs0 htb hz cmp derb pkb hder hsec) fuel hf

/-- one derivation step (`HDPrivateKey.child(i)`, `i < 2^31`): the public child exists, is the public key of the
    private child, and the private child's signature spends the P2WPKH output of the public child -/
theorem hd_child_p2wpkh_spend (k k' : HDPriv) (i : Nat) (hi : i < 2 ^ 31)
    (hchild : k.child hmac512 base.hash160 i = some k')
    (hmac : Bytes → Bytes → Bytes) (fuel0 z r s : Nat)
    (hsign : ECDSA.sign hmac fuel0 k'.secret z = .ok (r, s)) (hr : r < N) (hs0 : s ≠ 0)
    (htb : UInt8) (hz : zOf htb.toNat = some z) :
    ∃ q derb pkb, k.pub.child hmac512 base.hash160 i = some q ∧ q.point = smul (k'.secret : Int) G ∧
      ECDSA.der r s = some derb ∧ sec q.point true = some pkb ∧
      ECDSA.verify q.point z r s = some true ∧
      ((base.hash160 pkb).length = 20 → ∀ fuel, 9 ≤ fuel →
        verifyInput Cfg.repaired (realEnv base zOf msgOf c) [] (p2wpkhSpk (base.hash160 pkb))
          [derb ++ [htb], pkb] fuel = .accept) := by
  have hpub := Props.C08.pub_priv_child_consistent hmac512 base.hash160 k k' i hi hchild
  obtain ⟨derb, pkb, hder, hsec⟩ := sign_encodings hmac fuel0 k'.secret z r s hsign hr hs0 true
  refine ⟨k'.pub, derb, pkb, hpub, rfl, hder, hsec, Props.C01.verify_sign hmac fuel0 _ z r s hsign hr hs0, ?_⟩
  intro h20 fuel hf
  exact Props.C06.complete_p2wpkh (realEnv base zOf msgOf c) _ pkb _ h20 rfl
    (ecdsaAuth_of_sign base zOf msgOf c hmac fuel0 k'.secret z r s hsign hr hs0 htb hz true derb pkb hder hsec) fuel hf

end Buidl.Props.C08Compose
