/-
  C04 — the transaction wire codec is lossless and the txid is the witness-stripped hash.
  Property theorems only (helper lemmas: Buidl.Proofs.Script, Buidl.Proofs.Tx).  Models:
  Buidl.Model.Script (shared) and Buidl.Model.Tx; constants from Buidl.Gen.{Script,Helper,Tx},
  re-extracted from /repo on every run.  `hash256` is an arbitrary function.

  Notes.  N04c: the empty data element and OP_0 are the same byte; parsing yields OP_0, so round
  trips are stated up to `canon` (and exactly for scripts without an empty data element).
  N04d: a legacy serialisation with zero inputs is byte-identical to a segwit marker
  (`zero_input_legacy_ambiguous`); the legacy form is therefore covered for ≥ 1 input.
  F04b (fixed): the fetcher theorem is about the code that compares `tx.id()` with the request.
-/
import Buidl.Proofs.TxParse
namespace Buidl.Props.C04
open Buidl Buidl.Script Buidl.Tx

/-! ## scripts -/

/-- `Script.parse(raw=…)` inverts `raw_serialize` on every command list made of opcodes outside
    1..78 and data elements of 0..520 bytes: the serialiser accepts it, and the bytes parse back to
    the same commands with the empty data element read as OP_0 (N04c), consuming every byte. -/
theorem script_roundtrip (cs : List Cmd) (wf : ∀ c ∈ cs, CmdWF c) :
    ∃ b, rawSerialize { cmds := cs } = some b ∧ parseRaw b = { cmds := canon cs, raw := none } := by
  obtain ⟨b, hb⟩ := serCmds_isSome wf
  exact ⟨b, by simp [rawSerialize, hb], parseRaw_serCmds cs b wf hb⟩

/-- … and exactly the same commands when no data element is empty -/
theorem script_roundtrip_exact (cs : List Cmd) (wf : ∀ c ∈ cs, CmdWF c) (hne : Cmd.push [] ∉ cs) :
    ∃ b, rawSerialize { cmds := cs } = some b ∧ parseRaw b = { cmds := cs, raw := none } := by
  obtain ⟨b, h1, h2⟩ := script_roundtrip cs wf
  refine ⟨b, h1, ?_⟩
  rw [h2]
  have : canon cs = cs := by
    unfold canon
    conv => rhs; rw [← List.map_id cs]
    apply List.map_congr_left
    intro c hc
    cases c with
    | op n => rfl
    | push d =>
      cases d with
      | nil => exact absurd hc hne
      | cons _ _ => rfl
  rw [this]

/-- N04c stated: the canonical form has the same bytes -/
theorem script_canon_serialize (cs : List Cmd) :
    rawSerialize { cmds := canon cs } = rawSerialize { cmds := cs } := by
  simp [rawSerialize, serCmds_canon]

/-- direct pushes are used exactly up to 75 bytes, OP_PUSHDATA1 up to 255, OP_PUSHDATA2 up to 520
    (minimal encodings), and longer elements are refused -/
theorem push_encoding (d : Bytes) :
    serCmd (.push d) =
      if d.length ≤ 75 then some (UInt8.ofNat d.length :: d)
      else if d.length < 256 then some (76 :: UInt8.ofNat d.length :: d)
      else if d.length ≤ 520 then some (77 :: natToLE' 2 d.length ++ d)
      else none := by
  by_cases h0 : d.length ≤ 75
  · rw [if_pos h0, serCmd_push_small h0]
  · by_cases h1 : d.length < 256
    · rw [if_neg h0, if_pos h1, serCmd_push_mid (by omega) h1]
    · by_cases h2 : d.length ≤ 520
      · rw [if_neg h0, if_neg h1, if_pos h2, serCmd_push_big (by omega) h2]
      · rw [if_neg h0, if_neg h1, if_neg h2]
        have a : ¬ d.length < 256 := h1
        simp [serCmd, rawSerCmp0, rawSerCmp1, rawSerCmp2, rawSerCmp3, rawSerCmp4, h0, h2, a]

/-- a script on a stream (length-prefixed), followed by anything -/
theorem script_stream_roundtrip (s : Script) (rest : Bytes) (wf : ScriptWF s) :
    ∃ e, Script.serialize s = some e ∧ Script.parse (e ++ rest) = some (canonScript s, rest) := by
  obtain ⟨_, e, _, _, h3, _⟩ := serialize_wf wf
  exact ⟨e, h3, script_parse_serialize rest wf h3⟩

example : ScriptWF { cmds := [.op 0x76, .op 0xA9, .push (List.replicate 20 7), .op 0x88, .op 0xAC] } := by decide
example : ScriptWF { cmds := [.push (List.replicate 520 1), .push [], .op 0] } := by decide +kernel
example : ¬ ScriptWF { cmds := [.push (List.replicate 521 1)] } := by decide +kernel

/-! ## witness, input, output -/

theorem witness_roundtrip (w : Witness) (rest : Bytes) (wf : WitnessWF w) :
    ∃ e, w.serialize = some e ∧ Witness.parse (e ++ rest) = some (w, rest) := by
  obtain ⟨e, he⟩ := witness_serialize_isSome wf
  exact ⟨e, he, witness_parse_serialize rest wf he⟩

/-- an input: the wire carries outpoint, scriptSig and sequence (`stripIn`: canonical scriptSig, no
    witness, no spent-output annotation) -/
theorem txin_roundtrip (i : TxIn) (rest : Bytes) (wf : TxInWF i) :
    ∃ e, i.serialize = some e ∧ TxIn.parse (e ++ rest) = some (stripIn i, rest) := by
  obtain ⟨_, _, he⟩ := txin_serialize_wf wf
  exact ⟨_, he, txin_parse_serialize rest wf he⟩

theorem txout_roundtrip (o : TxOut) (rest : Bytes) (wf : TxOutWF o) :
    ∃ e, o.serialize = some e ∧ TxOut.parse (e ++ rest) = some (canonOut o, rest) := by
  obtain ⟨_, _, he⟩ := txout_serialize_wf wf
  exact ⟨_, he, txout_parse_serialize rest wf he⟩

/-! ## transactions -/

/-- legacy form -/
theorem tx_roundtrip_legacy (t : Tx) (rest : Bytes) (wf : TxWF t) (hl : t.segwit = false) :
    ∃ e, t.serialize = some e ∧ t.serializeLegacy = some e ∧ Tx.parse (e ++ rest) = some (canonTx t, rest) := by
  obtain ⟨_, _, _, _, _, _, _, _, he⟩ := serializeLegacy_wf wf
  have hser : t.serialize = t.serializeLegacy := by simp [Tx.serialize, hl]
  exact ⟨_, hser.trans he, he, parse_serialize rest wf (hser.trans he)⟩

/-- segwit form (any number of inputs, zero included) -/
theorem tx_roundtrip_segwit (t : Tx) (rest : Bytes) (wf : TxWF t) (hs : t.segwit = true) :
    ∃ e, t.serialize = some e ∧ t.serializeSegwit = some e ∧ Tx.parse (e ++ rest) = some (canonTx t, rest) := by
  obtain ⟨_, _, _, _, _, _, _, _, _, _, he⟩ := serializeSegwit_wf wf
  have hser : t.serialize = t.serializeSegwit := by simp [Tx.serialize, hs]
  exact ⟨_, hser.trans he, he, parse_serialize rest wf (hser.trans he)⟩

/-- Serialising then parsing any well-formed transaction reproduces every wire field and leaves
    exactly the continuation of the stream unread. -/
theorem tx_roundtrip (t : Tx) (rest : Bytes) (wf : TxWF t) :
    ∃ e, t.serialize = some e ∧ Tx.parse (e ++ rest) = some (canonTx t, rest) := by
  cases hs : t.segwit with
  | true => obtain ⟨e, h1, _, h3⟩ := tx_roundtrip_segwit t rest wf hs; exact ⟨e, h1, h3⟩
  | false => obtain ⟨e, h1, _, h3⟩ := tx_roundtrip_legacy t rest wf hs; exact ⟨e, h1, h3⟩

/-- when nothing is lost: canonical scripts, no annotations, and in the legacy form no witnesses -/
theorem canonTx_eq_self (t : Tx)
    (hi : ∀ i ∈ t.ins, canonScript i.scriptSig = i.scriptSig ∧ i.value = none ∧ i.scriptPubkey = none ∧
      (t.segwit = false → i.witness = {}))
    (ho : ∀ o ∈ t.outs, canonScript o.scriptPubkey = o.scriptPubkey) : canonTx t = t := by
  have e1 : ∀ i ∈ t.ins, canonIn i = i := by
    intro i h; obtain ⟨a, b, c, _⟩ := hi i h
    cases i; simp_all [canonIn]
  have e3 : t.outs.map canonOut = t.outs := by
    conv => rhs; rw [← List.map_id t.outs]
    apply List.map_congr_left
    intro o h; have := ho o h; cases o; simp_all [canonOut]
  cases hs : t.segwit with
  | true =>
    have e2 : t.ins.map canonIn = t.ins := by
      conv => rhs; rw [← List.map_id t.ins]
      exact List.map_congr_left (fun i h => by simpa using e1 i h)
    cases t; simp_all [canonTx]
  | false =>
    have e2 : t.ins.map stripIn = t.ins := by
      conv => rhs; rw [← List.map_id t.ins]
      apply List.map_congr_left
      intro i h
      have := e1 i h
      have w := (hi i h).2.2.2 hs
      simp only [stripIn, this, id]
      cases i; simp_all
    cases t; simp_all [canonTx]

/-- "Parsing and re-serialising any canonically encoded transaction reproduces the input bytes":
    for every byte string in the image of `serialize` on well-formed transactions -/
theorem tx_parse_serialize (t : Tx) (b : Bytes) (wf : TxWF t) (h : t.serialize = some b) :
    ∃ t', Tx.parse b = some (t', []) ∧ t'.serialize = some b := by
  refine ⟨canonTx t, ?_, ?_⟩
  · have := parse_serialize [] wf h
    rwa [List.append_nil] at this
  · rw [serialize_canonTx wf, h]

/-- a stream shorter than five bytes is refused -/
theorem tx_parse_short (s : Bytes) (h : s.length < 5) : Tx.parse s = none := by
  simp only [Tx.parse, sread, Gen.sniffSkip, Gen.sniffWidth, Gen.sniffSeekBack, List.length_drop]
  rw [if_pos (by omega)]

/-- N04d: the legacy serialisation of this zero-input transaction parses — as a *segwit*
    transaction with no outputs; the wire format itself cannot tell them apart -/
theorem zero_input_legacy_ambiguous :
    ∃ b t' rest, (⟨1, [], [⟨0, ⟨[], none⟩⟩], 0, false⟩ : Tx).serializeLegacy = some b ∧ Tx.parse b = some (t', rest) ∧
      t'.segwit = true ∧ t'.outs = [] ∧ t' ≠ canonTx (⟨1, [], [⟨0, ⟨[], none⟩⟩], 0, false⟩ : Tx) := by
  refine ⟨[1, 0, 0, 0, 0, 1, 0, 0, 0, 0, 0, 0, 0, 0, 0, 0, 0, 0, 0],
    ⟨1, [], [], 0, true⟩, [0, 0, 0, 0, 0, 0, 0], ?_, ?_, rfl, rfl, ?_⟩
  · decide
  · decide
  · decide

example : TxWF ⟨2, [⟨List.replicate 32 9, 1, ⟨[.push [1, 2, 3]], none⟩, 0xFFFFFFFE, ⟨[[], [1]]⟩, none, none⟩],
    [⟨2 ^ 64 - 1, ⟨[.op 0, .push (List.replicate 20 5)], none⟩⟩], 500000000, true⟩ := by
  decide

/-! ## transaction id -/

/-- the id is the byte-reversed double-SHA256 of the legacy (witness-stripped) serialisation, in hex -/
theorem txid_def (hash256 : Bytes → Bytes) (t : Tx) :
    t.hash hash256 = (t.serializeLegacy).map (fun b => (hash256 b).reverse) ∧
    t.id hash256 = (t.hash hash256).map toHex := ⟨rfl, rfl⟩

/-- the bytes that are hashed: version ‖ #inputs ‖ inputs (outpoint, scriptSig, sequence) ‖ #outputs ‖
    outputs ‖ locktime — no marker, no flag, no witness -/
theorem txid_legacy_bytes (hash256 : Bytes → Bytes) (t : Tx) (wf : TxWF t) :
    ∃ n i m o, encodeVarint t.ins.length = some n ∧ serIns t.ins = some i ∧ encodeVarint t.outs.length = some m ∧
      serOuts t.outs = some o ∧
      t.hash hash256 = some (hash256 (natToLE' 4 t.version ++ n ++ i ++ m ++ o ++ natToLE' 4 t.locktime)).reverse := by
  obtain ⟨n, i, m, o, en, ei, em, eo, hs⟩ := serializeLegacy_wf wf
  exact ⟨n, i, m, o, en, ei, em, eo, by simp [Tx.hash, hs]⟩

/-- the id is unchanged by any change to witness data (witness stacks, the segwit flag) and to the
    spent-output annotations: two transactions that agree on version, locktime, outputs and on the
    inputs with witnesses removed have the same id -/
theorem txid_witness_invariant (hash256 : Bytes → Bytes) (t t' : Tx)
    (hv : t.version = t'.version) (hl : t.locktime = t'.locktime) (ho : t.outs = t'.outs)
    (hi : t.ins.map noWit = t'.ins.map noWit) : t.hash hash256 = t'.hash hash256 := by
  have e : serIns t.ins = serIns t'.ins := by rw [← serIns_noWit t.ins, ← serIns_noWit t'.ins, hi]
  have len : t.ins.length = t'.ins.length := by simpa using congrArg List.length hi
  simp [Tx.hash, Tx.serializeLegacy, hv, hl, ho, e, len]

/-- the legacy serialisation determines every non-witness field -/
theorem serializeLegacy_injective (t₁ t₂ : Tx) (b : Bytes) (wf₁ : TxWF t₁) (wf₂ : TxWF t₂)
    (h₁ : t₁.serializeLegacy = some b) (h₂ : t₂.serializeLegacy = some b) : coreTx t₁ = coreTx t₂ := by
  have a := parseLegacy_serializeLegacy [] wf₁ h₁
  have c := parseLegacy_serializeLegacy [] wf₂ h₂
  rw [a] at c
  simpa using c

/-- "changed by any change to non-witness data", as collision extraction: if two well-formed
    transactions differ in a non-witness field and have the same id, their legacy serialisations
    are two different byte strings with the same `hash256` -/
theorem txid_collision_extraction (hash256 : Bytes → Bytes) (t₁ t₂ : Tx) (h : Bytes)
    (wf₁ : TxWF t₁) (wf₂ : TxWF t₂) (hne : coreTx t₁ ≠ coreTx t₂)
    (e₁ : t₁.hash hash256 = some h) (e₂ : t₂.hash hash256 = some h) :
    ∃ b₁ b₂, t₁.serializeLegacy = some b₁ ∧ t₂.serializeLegacy = some b₂ ∧ b₁ ≠ b₂ ∧ hash256 b₁ = hash256 b₂ := by
  simp only [Tx.hash, Option.map_eq_some_iff] at e₁ e₂
  obtain ⟨b₁, s₁, r₁⟩ := e₁
  obtain ⟨b₂, s₂, r₂⟩ := e₂
  refine ⟨b₁, b₂, s₁, s₂, ?_, ?_⟩
  · intro hb
    subst hb
    exact hne (serializeLegacy_injective t₁ t₂ b₁ wf₁ wf₂ s₁ s₂)
  · have := r₁.trans r₂.symm
    simpa using congrArg List.reverse this

/-! ## fetcher -/

/-- Whatever text the server returns: if `fetch` returns a transaction at all, that transaction's
    id is the requested one. -/
theorem fetch_sound (hash256 : Bytes → Bytes) (network txId response : String) (t : Tx)
    (h : fetch hash256 network txId response = some t) : t.id hash256 = some txId :=
  fetch_id h

/-- a non-hex response, an unknown network and a response that does not parse are refused -/
theorem fetch_refuses (hash256 : Bytes → Bytes) (network txId response : String)
    (h : ¬ Gen.fetchNetworks.contains network ∨ fromHex (pyStrip response.toList) = none) :
    fetch hash256 network txId response = none := by
  unfold fetch
  rcases h with h | h
  · rw [if_pos h]
  · split
    · rfl
    · rw [h]


/-! ## fetcher histories on the shared class-level cache -/

/-- the invariant of `TxFetcher.cache`: every cached transaction hashes to the id it is stored under.
    It holds for the empty cache and is preserved by every call, whatever the server answers. -/
theorem fetch_cache_invariant (hash256 : Bytes → Bytes) (c : FetchCache) (ok : CacheOK hash256 c) (calls : List FetchCall) :
    CacheOK hash256 [] ∧ CacheOK hash256 (fetchRun hash256 c calls).2 :=
  ⟨cacheOK_nil hash256, (fetchRun_sound calls ok).1⟩

/-- For every history of `fetch` calls on one cache — any ids (repeated or not), `fresh` or not, any
    networks, and any sequence of server responses (honest, lying, non-hex, with trailing bytes) —
    starting from the empty cache: whatever any call returns hashes to the id that call requested.
    In particular a response refused once is never served from the cache later. -/
theorem fetch_history_sound (hash256 : Bytes → Bytes) (calls : List FetchCall) (n : Nat) (call : FetchCall) (t : Tx)
    (hc : calls[n]? = some call) (ha : (fetchRun hash256 [] calls).1[n]? = some (some t)) :
    t.id hash256 = some call.txId :=
  (fetchRun_sound calls (cacheOK_nil hash256)).2 n call t hc ha

/-- the cache is written only after the id check: a call that raises leaves the cache as it was -/
theorem fetch_failure_leaves_cache (hash256 : Bytes → Bytes) (c : FetchCache) (call : FetchCall)
    (h : (fetchStep hash256 c call).1 = none) : (fetchStep hash256 c call).2 = c := by
  unfold fetchStep at h ⊢
  split
  · next hc =>
    rw [if_pos hc] at h
    cases hf : fetch hash256 call.network call.txId call.response with
    | none => rfl
    | some tx => rw [hf] at h; cases h
  · rfl


/-! ## arbitrary byte strings (malformed, truncated, non-minimally encoded streams) -/

/-- **The script parser never runs out of fuel**: `Script.parse(raw=…)` is modelled with fuel `len + 1`; any
    two fuels above the number of remaining bytes give the same result, so the fuel is no restriction -/
theorem script_parse_fuel_independent (f1 f2 : Nat) (s : Bytes) (acc : List Cmd) (h1 : s.length < f1) (h2 : s.length < f2) :
    parseLoop f1 s acc = parseLoop f2 s acc :=
  parseLoop_fuel f1 f2 s acc h1 h2

/-- whatever the bytes, an opcode the parser returns is 0 or 79..255 — never a push opcode -/
theorem script_parse_opcodes (raw : Bytes) : ∀ c ∈ (parseRaw raw).cmds, OpOK c :=
  parseRaw_ops raw

/-- `raw` is set only to the (non-empty) input itself, when a push ran past the end -/
theorem script_parse_raw (raw : Bytes) : (parseRaw raw).raw = none ∨ ((parseRaw raw).raw = some raw ∧ raw ≠ []) :=
  parseRaw_raw raw

/-- **Exactly which parsed scripts are fixed points of serialise ∘ parse.**  For the parse of ANY bytes
    (shorter than 2^63): it is a fixed point if it carries `raw`, or no data element is empty or longer than
    520 bytes — this covers every non-minimal push encoding (OP_PUSHDATA1/2/4 where a shorter form exists),
    which re-serialises minimally and parses to the same commands … -/
theorem parsed_script_fixpoint (raw : Bytes) (hl : raw.length < 2 ^ 63) (hr : Reencodable (parseRaw raw)) :
    ScriptFix (parseRaw raw) :=
  parsedScript_fix ⟨raw, hl, rfl⟩ hr

/-- … and it is not one otherwise: an empty data element (only reachable as `4c 00`, `4d 00 00`, …) reads
    back as OP_0 (N04c), a data element of more than 520 bytes is refused by the serialiser -/
theorem parsed_script_not_fixpoint (raw : Bytes) (hnone : (parseRaw raw).raw = none)
    (hbad : ∃ c ∈ (parseRaw raw).cmds, ¬ PushOK c) : ¬ ScriptFix (parseRaw raw) :=
  parsedScript_not_fix raw hnone hbad

/-- every parser leaves a suffix of its input unread (nothing is invented, nothing re-ordered) and refuses the
    empty stream -/
theorem parsers_leave_suffix :
    (∀ (s r : Bytes) (sc : Script), Script.parse s = some (sc, r) → r <:+ s ∧ s ≠ []) ∧
    (∀ (s r : Bytes) (w : Witness), Witness.parse s = some (w, r) → r <:+ s) ∧
    (∀ (s r : Bytes) (i : TxIn), TxIn.parse s = some (i, r) → r <:+ s) ∧
    (∀ (s r : Bytes) (o : TxOut), TxOut.parse s = some (o, r) → r <:+ s) ∧
    (∀ (s r : Bytes) (t : Tx), Tx.parse s = some (t, r) → r <:+ s) :=
  ⟨fun _ _ _ h => (script_parse_inv h).2, fun _ _ _ h => (witness_parse_inv h).2,
   fun _ _ _ h => (txin_parse_inv h).2.2, fun _ _ _ h => (txout_parse_inv h).2.2, fun _ _ _ h => (parse_inv h).2⟩

/-- every witness the parser returns — from any bytes — is a fixed point: it serialises, and the bytes parse
    back to exactly it -/
theorem witness_parse_sound (s r : Bytes) (w : Witness) (h : Witness.parse s = some (w, r)) :
    ∃ e, w.serialize = some e ∧ ∀ rest, Witness.parse (e ++ rest) = some (w, rest) := by
  obtain ⟨wf, _⟩ := witness_parse_inv h
  obtain ⟨e, he⟩ := witness_serialize_isSome wf
  exact ⟨e, he, fun rest => witness_parse_serialize rest wf he⟩

/-- **Parse soundness** (what a fetcher / PSBT consumer relies on).  For ANY byte string `b`: if
    `Tx.parse b = (t, rest)` then `b = consumed ++ rest`; every field of `t` is within its wire width
    (`ParsedTx`: 32-byte outpoint hashes, 4-byte indices / sequences / version / locktime, 8-byte amounts,
    counts and lengths the codec can write); and if `t` is `Reenc` — a decidable condition on `t` alone: no
    empty or > 520-byte data element in a script without `raw`, not the zero-input legacy form — then `t`
    serialises and its serialisation followed by anything parses back to exactly `t`.  Non-minimal varints,
    non-minimal pushes, short reads of a push (kept in `raw`), short reads of witness items and of the
    locktime are all inside this statement: they change `consumed`, not the fixed-point property. -/
theorem tx_parse_sound (b rest : Bytes) (t : Tx) (h : Tx.parse b = some (t, rest)) :
    (∃ consumed, b = consumed ++ rest) ∧ ParsedTx t ∧
    (Reenc t → ∃ e, t.serialize = some e ∧ ∀ r, Tx.parse (e ++ r) = some (t, r)) :=
  parse_sound h

/-- **Truncation.**  Python's `read(n)` returns fewer bytes silently, so a strict prefix `p` of a valid
    serialisation `e` CAN be accepted (`truncated_locktime_accepted`).  What holds: whatever `Tx.parse p`
    returns does not stand for `p` — it never re-serialises to `p` (for `Reenc` results, the only ones
    that re-parse to themselves) -/
theorem tx_truncation (t : Tx) (e p x : Bytes) (wf : TxWF t) (he : t.serialize = some e) (hpx : e = p ++ x) (hx : x ≠ [])
    (t' : Tx) (r : Bytes) (hp : Tx.parse p = some (t', r)) (hr : Reenc t') : t'.serialize ≠ some p :=
  truncation t e p x wf he hpx hx t' r hp hr

/-- serialisations of well-formed transactions are prefix-free: none is a strict prefix of another -/
theorem serialization_prefix_free (t₁ t₂ : Tx) (e₁ e₂ x : Bytes) (wf₁ : TxWF t₁) (wf₂ : TxWF t₂)
    (h₁ : t₁.serialize = some e₁) (h₂ : t₂.serialize = some e₂) (hx : e₂ = e₁ ++ x) : x = [] ∧ canonTx t₁ = canonTx t₂ := by
  have a := parse_serialize x wf₁ h₁
  have b := parse_serialize [] wf₂ h₂
  rw [List.append_nil, hx, a] at b
  simp only [Option.some.injEq, Prod.mk.injEq] at b
  exact ⟨b.2, b.1⟩

/-- the silent short read, concretely: this 1-input 1-output legacy transaction with its last two locktime
    bytes cut off still parses — to a transaction with another locktime, leaving nothing unread -/
theorem truncated_locktime_accepted :
    ∃ (e p : Bytes) (t t' : Tx), TxWF t ∧ t.serialize = some e ∧ p = e.take (e.length - 2) ∧
      Tx.parse p = some (t', []) ∧ t'.locktime ≠ t.locktime ∧ t'.serialize ≠ some p := by
  refine ⟨_, _, ⟨1, [⟨List.replicate 32 7, 0, ⟨[], none⟩, 0xFFFFFFFF, ⟨[]⟩, none, none⟩], [⟨5, ⟨[.op 0x51], none⟩⟩], 0x01020304, false⟩,
    ⟨1, [⟨List.replicate 32 7, 0, ⟨[], none⟩, 0xFFFFFFFF, ⟨[]⟩, none, none⟩], [⟨5, ⟨[.op 0x51], none⟩⟩], 0x0304, false⟩,
    by decide, rfl, rfl, ?_, by decide, ?_⟩ <;> decide +kernel

end Buidl.Props.C04
