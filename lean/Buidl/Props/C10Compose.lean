/-
  C10 (composition) — "create, update, sign, combine, finalise and extract produce a transaction that verifies
  exactly when at least the required number of signers signed."  Property theorems only; definitions and helper
  lemmas are in Buidl.Proofs.ComposePsbt.

  Two models meet here: the PSBT workflow (Buidl.Model.PsbtFlow with the `…Branch` closed forms of
  Buidl.Proofs.PsbtFinalize, C10: what ScriptSig / witness `PSBTIn.finalize` emits per script type) and the
  script interpreter with Tx.verify_input (Buidl.Model.Interp, C06: the `complete_*` theorems).  For each of
  the six wallet types — p2pkh, p2wpkh, p2sh-p2wpkh, p2sh multisig, p2wsh multisig, p2sh-p2wsh multisig — the
  `…_flow` theorem has two halves: with enough valid partial signatures `finalize` succeeds, the emitted
  ScriptSig / witness is literally the shape the matching `complete_*` theorem accepts, hence
  `verifyInput = .accept`; with too few `finalize` raises (for the whole PSBT: `finalize_raises_of_input`, so
  there is nothing to extract).  `finalize_all_inputs` lifts the first half to the PSBT, `extract_of_verifies`
  is `final_tx`.

  Glue hypotheses, explicit in every statement:
  * same script: the PSBT's ScriptPubKey / RedeemScript / WitnessScript command lists are the interpreter's
    templates (`p2pkhCommands`, `p2wpkhSpk`, `p2wshSpk`, `p2shSpk`, `multisigScript`), their serialisations read
    back as their commands (`parseCommands raw = some cmds`; `same_script_glue` discharges this for well-formed
    command lists) and hash to the program in the ScriptPubKey with the interpreter's hash functions;
  * same keys: the script's keys are pairwise different and parse (`env.pkErr`);
  * digest oracle: `EcdsaAuth env sec sig` / `SigsValid env p.sigs pks` — the stored partial signatures are
    valid for the digest of this input as the interpreter computes it (C05); `valid_partial_sigs` derives it
    from PSBT.validate's check under agreement of the two digest oracles.
  `finalizeIn true` is the repaired p2sh count (F10d); `Cfg.repaired` the code after the C06/C07 patches.
  `finalScriptSig q` / `finalWitness q` are the commands of the final ScriptSig and the witness items (an absent
  witness is empty) of the finalised input map `q`.
-/
import Buidl.Proofs.ComposePsbt

namespace Buidl.Props.C10Compose
open Buidl Buidl.Script Buidl.Interp Buidl.ComposePsbt
open Buidl.Psbt (Dict dget scriptSigs scriptKeys PIn TxInV TxCodec Oracles finalizeIn sigsOK finalized
  WitnessBranch P2shBranch P2wpkhBranch P2pkhBranch Psbt finalize finalTx)

/-! ## single-key wallets -/

/-- **p2pkh.**  Glue: the ScriptPubKey is the p2pkh template of `h`.  One partial signature, for a key that
    hashes to `h` and valid for the input's digest: `finalize` emits `<sig> <sec>` and `verifyInput` accepts;
    any other number of partial signatures: `finalize` raises. -/
theorem p2pkh_flow {Tx : Type} {C : TxCodec Tx} {txin : TxInV} {p : PIn Tx} {spk : Script}
    (hb : P2pkhBranch C txin p spk) (env : Env) (h : Bytes) (hspk : spk.cmds = p2pkhCommands h) :
    (∀ sec sig, p.sigs = [(sec, sig)] → env.hash160 sec = h → EcdsaAuth env sec sig →
      ∃ q, finalizeIn true C txin p = some q ∧ finalScriptSig q = [.push sig, .push sec] ∧
        ∀ fuel, 7 ≤ fuel →
          verifyInput Cfg.repaired env (finalScriptSig q) spk.cmds (finalWitness q) fuel = .accept) ∧
    (p.sigs.length ≠ 1 → finalizeIn true C txin p = none) := by
  constructor
  · intro sec sig hs hh hauth
    refine ⟨finalized p (some { cmds := [.push sig, .push sec] }) p.witness, ?_, rfl, ?_⟩
    · rw [Psbt.finalizeIn_p2pkh true hb, hs]
    · intro fuel hf
      rw [hspk]
      exact Props.C06.complete_p2pkh env h sec sig _ hh hauth fuel hf
  · intro hne
    cases hfin : finalizeIn true C txin p with
    | none => rfl
    | some q => exact absurd ((Psbt.finalize_p2pkh_iff true hb).mp (by simp [hfin])) hne

/-- **p2wpkh** (native).  Glue: no RedeemScript, the ScriptPubKey is `OP_0 <h>` with a 20-byte `h`. -/
theorem p2wpkh_flow {Tx : Type} {C : TxCodec Tx} {txin : TxInV} {p : PIn Tx} {spk : Script}
    (hb : P2wpkhBranch C txin p spk) (env : Env) (h : Bytes) (hl : h.length = 20)
    (hnative : p.redeem = none) (hspk : spk.cmds = p2wpkhSpk h) :
    (∀ sec sig, p.sigs = [(sec, sig)] → env.hash160 sec = h → EcdsaAuth env sec sig →
      ∃ q, finalizeIn true C txin p = some q ∧ finalScriptSig q = [] ∧ finalWitness q = [sig, sec] ∧
        ∀ fuel, 9 ≤ fuel →
          verifyInput Cfg.repaired env (finalScriptSig q) spk.cmds (finalWitness q) fuel = .accept) ∧
    (p.sigs.length ≠ 1 → finalizeIn true C txin p = none) := by
  constructor
  · intro sec sig hs hh hauth
    refine ⟨finalized p (Psbt.segwitScriptSig p.redeem) (some [sig, sec]), ?_, ?_, rfl, ?_⟩
    · rw [Psbt.finalizeIn_p2wpkh true hb, hs]
    · simp [finalScriptSig, finalized, hnative, Psbt.segwitScriptSig]
    · intro fuel hf
      have e1 : finalScriptSig (finalized p (Psbt.segwitScriptSig p.redeem) (some [sig, sec])) = [] := by
        simp [finalScriptSig, finalized, hnative, Psbt.segwitScriptSig]
      rw [e1, hspk]
      exact Props.C06.complete_p2wpkh env h sec sig hl hh hauth fuel hf
  · intro hne
    cases hfin : finalizeIn true C txin p with
    | none => rfl
    | some q => exact absurd ((Psbt.finalize_p2wpkh_iff true hb).mp (by simp [hfin])) hne

/-- **p2sh-p2wpkh.**  Glue: the RedeemScript `r` is `OP_0 <kh>` (20 bytes), serialises to `rs`, `rs` reads
    back as these commands, and the ScriptPubKey is the p2sh template of `hash160(rs)`. -/
theorem p2sh_p2wpkh_flow {Tx : Type} {C : TxCodec Tx} {txin : TxInV} {p : PIn Tx} {spk r : Script}
    (hb : P2wpkhBranch C txin p spk) (env : Env) (kh rs : Bytes) (hl : kh.length = 20)
    (hredeem : p.redeem = some r) (hr : r.cmds = p2wpkhSpk kh) (hraw : Psbt.rawOf r = some rs)
    (hparse : parseCommands rs = some r.cmds) (hh : (env.hash160 rs).length = 20)
    (hspk : spk.cmds = p2shSpk (env.hash160 rs)) :
    (∀ sec sig, p.sigs = [(sec, sig)] → env.hash160 sec = kh → EcdsaAuth env sec sig →
      ∃ q, finalizeIn true C txin p = some q ∧ finalScriptSig q = [.push rs] ∧ finalWitness q = [sig, sec] ∧
        ∀ fuel, 10 ≤ fuel →
          verifyInput Cfg.repaired env (finalScriptSig q) spk.cmds (finalWitness q) fuel = .accept) ∧
    (p.sigs.length ≠ 1 → finalizeIn true C txin p = none) := by
  have hss : Psbt.segwitScriptSig p.redeem = some { cmds := [.push rs] } := by
    rw [hredeem, Psbt.segwitScriptSig_some, Psbt.singlePush_of_raw hraw]
  constructor
  · intro sec sig hs hk hauth
    have e1 : finalScriptSig (finalized p (Psbt.segwitScriptSig p.redeem) (some [sig, sec])) = [.push rs] := by
      simp [finalScriptSig, finalized, hss]
    refine ⟨finalized p (Psbt.segwitScriptSig p.redeem) (some [sig, sec]), ?_, e1, rfl, ?_⟩
    · rw [Psbt.finalizeIn_p2wpkh true hb, hs]
    · intro fuel hf
      rw [e1, hspk]
      exact Props.C06.complete_p2sh_p2wpkh env rs kh sec sig hl (by rw [hparse, hr]) hh hk hauth fuel hf
  · intro hne
    cases hfin : finalizeIn true C txin p with
    | none => rfl
    | some q => exact absurd ((Psbt.finalize_p2wpkh_iff true hb).mp (by simp [hfin])) hne


/-! ## multisig wallets

  Common glue: the script (WitnessScript / RedeemScript) is the template `mm <key₁> … <keyₙ> n CHECKMULTISIG`
  over pairwise different keys `pks` that all parse (`env.pkErr`), `1 ≤ mm ≤ 16`, `1 ≤ n ≤ 16`; its
  serialisation reads back as its commands; `SigsValid env p.sigs pks`: every partial signature stored under a
  script key is valid for that key and the input's digest (what `PSBT.validate` checks —
  `sigsValid_of_validate`).  The number of script keys that carry a signature is
  `(pks.filterMap (dget p.sigs)).length`. -/

/-- **p2wsh multisig** (native).  At least `mm` script keys carry signatures: `finalize` emits the witness
    `[b"", first mm signatures in script order, WitnessScript]` with an empty ScriptSig and `verifyInput`
    accepts; fewer: `finalize` raises. -/
theorem p2wsh_multisig_flow {Tx : Type} {C : TxCodec Tx} {txin : TxInV} {p : PIn Tx} {spk ws : Script} {m : Int}
    {wraw : Bytes} (hb : WitnessBranch C txin p spk ws m wraw) (env : Env) (mm : Nat) (pks : List Bytes)
    (hmm : 1 ≤ mm ∧ mm ≤ 16) (hn : 1 ≤ pks.length ∧ pks.length ≤ 16) (hnd : pks.Nodup)
    (hws : ws.cmds = multisigScript mm pks) (hnative : p.redeem = none)
    (h32 : (env.sha256 wraw).length = 32) (hspk : spk.cmds = p2wshSpk (env.sha256 wraw))
    (hparse : parseCommands wraw = some ws.cmds) (hpk : ∀ k ∈ pks, env.pkErr k = none)
    (hv : SigsValid env p.sigs pks) :
    (mm ≤ (pks.filterMap (dget p.sigs)).length →
      ∃ q, finalizeIn true C txin p = some q ∧ finalScriptSig q = [] ∧
        finalWitness q = [] :: (pks.filterMap (dget p.sigs)).take mm ++ [wraw] ∧
        ∀ fuel, mm + pks.length + 7 ≤ fuel →
          verifyInput Cfg.repaired env (finalScriptSig q) spk.cmds (finalWitness q) fuel = .accept) ∧
    ((pks.filterMap (dget p.sigs)).length < mm → finalizeIn true C txin p = none) := by
  have hk : (scriptKeys ws.cmds).Nodup := by rw [hws, scriptKeys_multisig]; exact hnd
  have hm : m = (mm : Int) := by
    have := hb.quorum
    rw [hws, quorum_multisig mm pks hmm] at this
    exact (Option.some.inj this).symm
  have hsigs : scriptSigs p.sigs ws.cmds = pks.filterMap (dget p.sigs) := by rw [hws, scriptSigs_multisig]
  rw [Psbt.finalizeIn_witness true hb hk, hsigs, hm]
  constructor
  · intro hge
    rw [if_pos (by exact_mod_cast hge)]
    have e1 : finalScriptSig (finalized p (Psbt.segwitScriptSig p.redeem)
        (some ([] :: (pks.filterMap (dget p.sigs)).take (mm : Int).toNat ++ [wraw]))) = [] := by
      simp [finalScriptSig, finalized, hnative, Psbt.segwitScriptSig]
    refine ⟨_, rfl, e1, by simp [finalWitness, finalized], ?_⟩
    intro fuel hf
    obtain ⟨hw, hlen⟩ := multisigWitness_of_scriptSigs env p.sigs mm pks mm hpk hv
      (by rw [scriptSigs_multisig]; exact hge)
    rw [scriptSigs_multisig] at hw hlen
    rw [e1, hspk]
    have := Props.C06.complete_p2wsh_multisig env wraw pks ((pks.filterMap (dget p.sigs)).take mm)
      (by rw [hlen]; exact hmm) hn (by rw [hlen, hparse, hws]) h32 hw fuel (by rw [hlen]; exact hf)
    simpa [finalWitness, finalized] using this
  · intro hlt
    rw [if_neg (by intro h; have : mm ≤ (pks.filterMap (dget p.sigs)).length := by exact_mod_cast h
                   omega)]

/-- **p2sh-p2wsh multisig.**  Additional glue: the RedeemScript `r` is `OP_0 <sha256(WitnessScript bytes)>`,
    serialises to `rs`, reads back, and the ScriptPubKey is the p2sh template of `hash160(rs)`.  The ScriptSig
    is the single push of the RedeemScript. -/
theorem p2sh_p2wsh_multisig_flow {Tx : Type} {C : TxCodec Tx} {txin : TxInV} {p : PIn Tx} {spk ws r : Script}
    {m : Int} {wraw : Bytes} (hb : WitnessBranch C txin p spk ws m wraw) (env : Env) (mm : Nat)
    (pks : List Bytes) (rs : Bytes)
    (hmm : 1 ≤ mm ∧ mm ≤ 16) (hn : 1 ≤ pks.length ∧ pks.length ≤ 16) (hnd : pks.Nodup)
    (hws : ws.cmds = multisigScript mm pks) (hredeem : p.redeem = some r)
    (h32 : (env.sha256 wraw).length = 32) (hr : r.cmds = p2wshSpk (env.sha256 wraw))
    (hraw : Psbt.rawOf r = some rs) (hparseR : parseCommands rs = some r.cmds)
    (hh : (env.hash160 rs).length = 20) (hspk : spk.cmds = p2shSpk (env.hash160 rs))
    (hparse : parseCommands wraw = some ws.cmds) (hpk : ∀ k ∈ pks, env.pkErr k = none)
    (hv : SigsValid env p.sigs pks) :
    (mm ≤ (pks.filterMap (dget p.sigs)).length →
      ∃ q, finalizeIn true C txin p = some q ∧ finalScriptSig q = [.push rs] ∧
        finalWitness q = [] :: (pks.filterMap (dget p.sigs)).take mm ++ [wraw] ∧
        ∀ fuel, mm + pks.length + 8 ≤ fuel →
          verifyInput Cfg.repaired env (finalScriptSig q) spk.cmds (finalWitness q) fuel = .accept) ∧
    ((pks.filterMap (dget p.sigs)).length < mm → finalizeIn true C txin p = none) := by
  have hk : (scriptKeys ws.cmds).Nodup := by rw [hws, scriptKeys_multisig]; exact hnd
  have hm : m = (mm : Int) := by
    have := hb.quorum
    rw [hws, quorum_multisig mm pks hmm] at this
    exact (Option.some.inj this).symm
  have hsigs : scriptSigs p.sigs ws.cmds = pks.filterMap (dget p.sigs) := by rw [hws, scriptSigs_multisig]
  have hss : Psbt.segwitScriptSig p.redeem = some { cmds := [.push rs] } := by
    rw [hredeem, Psbt.segwitScriptSig_some, Psbt.singlePush_of_raw hraw]
  rw [Psbt.finalizeIn_witness true hb hk, hsigs, hm]
  constructor
  · intro hge
    rw [if_pos (by exact_mod_cast hge)]
    have e1 : finalScriptSig (finalized p (Psbt.segwitScriptSig p.redeem)
        (some ([] :: (pks.filterMap (dget p.sigs)).take (mm : Int).toNat ++ [wraw]))) = [.push rs] := by
      simp [finalScriptSig, finalized, hss]
    refine ⟨_, rfl, e1, by simp [finalWitness, finalized], ?_⟩
    intro fuel hf
    obtain ⟨hw, hlen⟩ := multisigWitness_of_scriptSigs env p.sigs mm pks mm hpk hv
      (by rw [scriptSigs_multisig]; exact hge)
    rw [scriptSigs_multisig] at hw hlen
    rw [e1, hspk]
    have := Props.C06.complete_p2sh_p2wsh_multisig env rs wraw pks ((pks.filterMap (dget p.sigs)).take mm)
      (by rw [hlen]; exact hmm) hn (by rw [hlen, hparse, hws]) h32 (by rw [hparseR, hr]) hh hw fuel
      (by rw [hlen]; exact hf)
    simpa [finalWitness, finalized] using this
  · intro hlt
    rw [if_neg (by intro h; have : mm ≤ (pks.filterMap (dget p.sigs)).length := by exact_mod_cast h
                   omega)]

/-- **bare p2sh multisig** (count repaired, F10d).  The ScriptSig is `OP_0, the first mm signatures in script
    order, the RedeemScript`; the witness stays as it was (none). -/
theorem p2sh_multisig_flow {Tx : Type} {C : TxCodec Tx} {txin : TxInV} {p : PIn Tx} {spk r : Script} {m : Int}
    {rraw : Bytes} (hb : P2shBranch C txin p spk r m rraw) (env : Env) (mm : Nat) (pks : List Bytes)
    (hmm : 1 ≤ mm ∧ mm ≤ 16) (hn : 1 ≤ pks.length ∧ pks.length ≤ 16) (hnd : pks.Nodup)
    (hr : r.cmds = multisigScript mm pks)
    (hh : (env.hash160 rraw).length = 20) (hspk : spk.cmds = p2shSpk (env.hash160 rraw))
    (hparse : parseCommands rraw = some r.cmds) (hpk : ∀ k ∈ pks, env.pkErr k = none)
    (hv : SigsValid env p.sigs pks) :
    (mm ≤ (pks.filterMap (dget p.sigs)).length →
      ∃ q, finalizeIn true C txin p = some q ∧
        finalScriptSig q = .op 0 :: (((pks.filterMap (dget p.sigs)).take mm).map .push ++ [.push rraw]) ∧
        q.witness = p.witness ∧
        ∀ fuel, mm + pks.length + 6 ≤ fuel →
          verifyInput Cfg.repaired env (finalScriptSig q) spk.cmds (finalWitness q) fuel = .accept) ∧
    ((pks.filterMap (dget p.sigs)).length < mm → finalizeIn true C txin p = none) := by
  have hk : (scriptKeys r.cmds).Nodup := by rw [hr, scriptKeys_multisig]; exact hnd
  have hm : m = (mm : Int) := by
    have := hb.quorum
    rw [hr, quorum_multisig mm pks hmm] at this
    exact (Option.some.inj this).symm
  have hm1 : 1 ≤ m := by rw [hm]; exact_mod_cast hmm.1
  have hsigs : scriptSigs p.sigs r.cmds = pks.filterMap (dget p.sigs) := by rw [hr, scriptSigs_multisig]
  rw [Psbt.finalizeIn_p2sh_fixed hb hm1 hk, hsigs, hm]
  constructor
  · intro hge
    rw [if_pos (by exact_mod_cast hge)]
    refine ⟨_, rfl, by simp [finalScriptSig, finalized], by simp [finalized], ?_⟩
    intro fuel hf
    obtain ⟨hw, hlen⟩ := multisigWitness_of_scriptSigs env p.sigs mm pks mm hpk hv
      (by rw [scriptSigs_multisig]; exact hge)
    rw [scriptSigs_multisig] at hw hlen
    rw [hspk]
    have := Props.C06.complete_p2sh_multisig env rraw pks ((pks.filterMap (dget p.sigs)).take mm)
      (by rw [hlen]; exact hmm) hn (by rw [hlen, hparse, hr]) hh hw (finalWitness (finalized p
        (some { cmds := .op 0 :: ((pks.filterMap (dget p.sigs)).take (mm : Int).toNat).map .push ++ [.push rraw] })
        p.witness)) fuel (by rw [hlen]; exact hf)
    simpa [finalScriptSig, finalized] using this
  · intro hlt
    rw [if_neg (by intro h; have : mm ≤ (pks.filterMap (dget p.sigs)).length := by exact_mod_cast h
                   omega)]


/-! ## the whole PSBT: finalise, extract -/

/-- **every input ready ⇒ `PSBT.finalize` succeeds and every finalised input has the promised property**
    (`Good j q`: for instance "`verifyInput` accepts input `j`", as delivered per wallet type by the `…_flow`
    theorems above) -/
theorem finalize_all_inputs {Tx : Type} (C : TxCodec Tx) (P : Psbt Tx) (Good : Nat → PIn Tx → Prop)
    (hlen : (C.ins P.tx).length = P.ins.length)
    (hready : ∀ j txin p, (C.ins P.tx)[j]? = some txin → P.ins[j]? = some p →
      ∃ q, finalizeIn true C txin p = some q ∧ Good j q) :
    ∃ Q, finalize true C P = some Q ∧ Q.tx = P.tx ∧ Q.ins.length = P.ins.length ∧
      ∀ j q, Q.ins[j]? = some q → Good j q := by
  obtain ⟨cs, hcs, hl, hall⟩ := zipWithM'_some (finalizeIn true C) Good (C.ins P.tx) P.ins 0 hlen
    (fun j a b ha hb => by simpa using hready j a b ha hb)
  refine ⟨{ P with ins := cs }, ?_, rfl, hl, fun j q hq => by simpa using hall j q hq⟩
  simp [finalize, Psbt.req, hlen, hcs]

/-- **one input short of its quorum ⇒ no finalised PSBT, hence no transaction**: `PSBT.finalize` raises as
    soon as `finalize` raises for one input -/
theorem finalize_raises_of_input {Tx : Type} (C : TxCodec Tx) (P : Psbt Tx) (j : Nat) (txin : TxInV) (p : PIn Tx)
    (htx : (C.ins P.tx)[j]? = some txin) (hp : P.ins[j]? = some p) (hnone : finalizeIn true C txin p = none) :
    finalize true C P = none := by
  unfold finalize
  cases hreq : Psbt.req ((C.ins P.tx).length == P.ins.length) with
  | none => rfl
  | some _ =>
    simp [zipWithM'_none (finalizeIn true C) _ _ j txin p htx hp hnone]

/-- **extract.**  `PSBT.final_tx` serialises the transaction with the finalised ScriptSigs and witnesses and
    returns it iff `tx_obj.verify()` (the oracle `verify` of the PSBT model) says yes.  Glue: `verify` answers
    yes for a serialisation all of whose inputs the interpreter accepts (`AllVerify`; the fee test is outside
    the models).  Then the extracted transaction exists. -/
theorem extract_of_verifies {Tx : Type} (C : TxCodec Tx) (verify : Bytes → Bool) (Q : Psbt Tx) (AllVerify : Prop)
    (b : Bytes) (hser : C.finalSerialize Q.tx (Q.ins.map fun i => (i.scriptSig, i.witness)) = some b)
    (hglue : AllVerify → verify b = true) (hall : AllVerify) : finalTx C verify Q = some b := by
  simp [finalTx, hser, Psbt.req, hglue hall]


/-! ## partial signatures: the link to PSBT.validate; the hypotheses are satisfiable -/

/-- **`SigsValid` is what PSBT.validate establishes**: an input with a UTXO whose partial signatures passed
    `validate` (oracle `O.sigOK seg i sec sig`: `point.verify(z, sig)` with the digest of input `i`) has valid
    partial signatures in the interpreter's sense — glue: the digest oracle of the PSBT model and the
    interpreter's signature oracles agree on input `i` -/
theorem valid_partial_sigs {Tx : Type} (env : Env) (O : Oracles) (i : Nat) (p : PIn Tx) (keys : List Bytes)
    (hutxo : p.prevOut.isSome = true ∨ p.prevTx.isSome = true) (hv : sigsOK O i p = true)
    (hglue : ∀ seg sec sig, O.sigOK seg i sec sig = true → EcdsaAuth env sec sig) :
    SigsValid env p.sigs keys :=
  sigsValid_of_validate env O i p keys hutxo hv hglue

/-- the glue hypothesis `parseCommands raw = some cmds` holds for every script of opcodes outside 1..78 and
    data pushes of 1..520 bytes built from commands -/
theorem same_script_glue {s : Script} {raw : Bytes} (hraw : s.raw = none) (h : Psbt.rawOf s = some raw)
    (wf : ∀ c ∈ s.cmds, CmdWF c) (hne : Cmd.push [] ∉ s.cmds) (hlen : s.cmds.length ≤ 2 ^ 40) :
    parseCommands raw = some s.cmds :=
  parseCommands_of_rawOf hraw h wf hne hlen

/-- non-vacuity: the toy 2-of-3 p2wsh input of Buidl.Proofs.PsbtFinalize (signatures of keys [3] and [1])
    satisfies every hypothesis of `p2wsh_multisig_flow`, and the finalised input is accepted -/
example : ∃ q, finalizeIn true Psbt.toyCodec Psbt.toyTxin Psbt.toyWitnessIn = some q ∧
    finalWitness q = [[], [0xA1], [0xA3], Psbt.toyMultisigRaw] ∧
    verifyInput Cfg.repaired toyEnv (finalScriptSig q) Psbt.toyP2wshSpk.cmds (finalWitness q) 12 = .accept := by
  have hb : WitnessBranch Psbt.toyCodec Psbt.toyTxin Psbt.toyWitnessIn Psbt.toyP2wshSpk Psbt.toyMultisig 2
      Psbt.toyMultisigRaw :=
    ⟨by decide, by decide, by decide, (by intro r h; cases h), Or.inl (by decide), rfl, by decide, by decide,
     (by intro r h; cases h)⟩
  have hv : SigsValid toyEnv Psbt.toyWitnessIn.sigs [[1], [2], [3]] := by
    intro k _ s hs
    have : s ≠ [] := by
      intro e; subst e
      have := mem_of_dget hs
      simp [Psbt.toyWitnessIn] at this
    obtain ⟨b, r, hr⟩ : ∃ b r, s.reverse = b :: r := by
      cases h : s.reverse with
      | nil => exact absurd (by simpa using h) this
      | cons b r => exact ⟨b, r, rfl⟩
    exact ⟨r.reverse, b.toNat, by simp [splitHashType, hr], rfl, rfl, rfl⟩
  obtain ⟨q, hq, hss, hw, hacc⟩ := (p2wsh_multisig_flow hb toyEnv 2 [[1], [2], [3]] (by decide) (by decide)
    (by decide) rfl rfl (by decide) rfl (by decide) (fun _ _ => rfl) hv).1 (by decide)
  refine ⟨q, hq, ?_, hacc 12 (by decide)⟩
  rw [hw]; decide


/-! ## sign and combine: who signed -/

/-- **the quorum count after any combine history**: `signers` are script keys (an order-preserving selection of
    the script's keys), each of which signed some copy of the input (a leaf of the combine tree of pairwise
    compatible copies); then at least `signers.length` script keys carry a signature in the combined input —
    the count that the `…_multisig_flow` theorems compare with the quorum.  (By `C10.combine_tree_sigs` the
    combined signatures are exactly those of the copies.) -/
theorem combined_signers_count {Tx : Type} (t : Psbt.CTree (PIn Tx))
    (hc : ∀ l, l ∈ t.leaves → ∀ l', l' ∈ t.leaves → Psbt.InCompat l l') (pks signers : List Bytes)
    (hsub : signers.Sublist pks) (hsigned : ∀ k ∈ signers, ∃ l, l ∈ t.leaves ∧ (dget l.sigs k).isSome) :
    signers.length ≤ (pks.filterMap (dget t.foldIn.sigs)).length := by
  have hall : ∀ k ∈ signers, (dget t.foldIn.sigs k).isSome := by
    intro k hk
    obtain ⟨l, hl, hs⟩ := hsigned k hk
    obtain ⟨v, hv⟩ := Option.isSome_iff_exists.mp hs
    have := (Props.C10.combine_tree_sigs t hc k v).mpr ⟨l, hl, hv⟩
    simp [this]
  have h1 : (signers.filterMap (dget t.foldIn.sigs)).length = signers.length := by
    clear hsub hsigned
    induction signers with
    | nil => rfl
    | cons k r ih =>
      obtain ⟨v, hv⟩ := Option.isSome_iff_exists.mp (hall k (by simp))
      simp [hv, ih (fun x hx => hall x (by simp [hx]))]
  rw [← h1]
  exact (hsub.filterMap _).length_le

end Buidl.Props.C10Compose
