/-
  C06 ∘ (C01, C02, C03, C12) — end-to-end: input verification with the REAL signature checks.
  Property theorems only (helper lemmas: Buidl.Proofs.Compose).

  Props/C06 proves soundness and completeness of `verifyInput` relative to oracles of the environment.
  Here the oracles are instantiated with the models of the real code (`Compose.realEnv`: `S256Point.parse`,
  `Signature.parse`, `S256Point.verify`, `S256Point.parse_xonly`, `SchnorrSignature.parse`,
  `S256Point.verify_schnorr`, consulted exactly as op_checksig / op_checksig_schnorr do) and the oracle
  hypotheses are discharged from C01 (`verify_sign`, `verify_sound`, `der_roundtrip`), C02
  (`sign_verifies`, `verifySchnorr_eq_spec`), C03 (`sec_roundtrip`, `parse_sound`, `parse_sec_canonical`,
  group law) and C12 (`priv_tweaked_key_point`).

  Parameters of every theorem: `base : Env` (hash functions — arbitrary —, locktime, control-block parsing,
  taproot commitment), `zOf : Nat → Option Nat` and `msgOf : Nat → Option Bytes` (hash type ↦ the digest
  `tx_obj.sig_hash(input_index, hash_type)`; C05 proves what they are), `c` (state of TAG_HASH_CACHE,
  any state satisfying the invariant of C02).

  Completeness: for every secret, digest, hash type: the scriptSig / witness the library builds from
  `PrivateKey.sign` / `sign_schnorr` is accepted.  Hypotheses standing for negligible events are those of
  C01 / C02 (`r < n`, `s ≠ 0`; BIP340 nonce `≠ 0`).
  Soundness: for EVERY scriptSig (any opcodes), witness and fuel: acceptance exhibits a curve point whose
  encoding hashes to the committed hash and a pair `(r, s)` satisfying the ECDSA predicate
  `Spec.ECDSA.Valid` for the digest of the signature's hash type; for P2TR a signature satisfying BIP340
  verification under the output key, or a script-path spend.

  Observation (not a finding of this file): `S256Point.parse` dispatches on the length, so op_checksig
  also accepts a 32-byte x-only key; soundness therefore says "SEC encoding or 32-byte x-only key".
-/
import Buidl.Proofs.Compose
namespace Buidl.Props.C06Compose
open Buidl Buidl.EC Buidl.Script Buidl.Interp Buidl.Compose

attribute [local irreducible] pmul

variable (base : Env) (zOf : Nat → Option Nat) (msgOf : Nat → Option Bytes) (c : Schnorr.Cache)

/-! ## the oracles of `realEnv` are the real checks -/

/-- op_checksig's three consultations succeed exactly when `S256Point.parse`, `Signature.parse` (on the
    element minus its last byte) and `sig_hash` (of that byte) succeed and `point.verify` returns True -/
theorem ecdsa_oracle_iff (pk tmp : Bytes) :
    EcdsaAuth (realEnv base zOf msgOf c) pk tmp ↔
      ∃ der ht Q r s z, splitHashType tmp = .ok (der, ht) ∧ parsePoint pk = some Q ∧
        ECDSA.parseDer der = some (r, s) ∧ zOf ht = some z ∧ ECDSA.verify Q z r s = some true :=
  ecdsaAuth_iff base zOf msgOf c pk tmp

/-- op_checksig_schnorr pushes 1 exactly when `parse_xonly`, `SchnorrSignature.parse` (65 bytes: minus the
    hash-type byte; other non-zero lengths: hash type 0) and `sig_hash` succeed and `verify_schnorr`
    returns True -/
theorem schnorr_oracle_iff (x sig : Bytes) :
    schnorrCheck (realEnv base zOf msgOf c) x sig = .ok (some true) ↔
      ∃ body ht m c', ((sig.length = 65 ∧ ∃ b : UInt8, sig = body ++ [b] ∧ ht = b.toNat) ∨
          (sig.length ≠ 65 ∧ sig.length ≠ 0 ∧ body = sig ∧ ht = 0)) ∧
        msgOf ht = some m ∧ verifyRawXonly base.sha256 c x m body = some (true, c') :=
  schnorrCheck_true_iff base zOf msgOf c x sig

/-- for a 32-byte key `parse_xonly` is `parse`: the Schnorr oracle is `Schnorr.verifyRaw` (C02) -/
theorem schnorr_oracle_is_verifyRaw (pk msg sig : Bytes) (h : pk.length = 32) :
    verifyRawXonly base.sha256 c pk msg sig = Schnorr.verifyRaw base.sha256 c pk msg sig :=
  verifyRawXonly_eq_verifyRaw c base.sha256 pk msg sig h

/-- the hash functions are untouched -/
theorem realEnv_hashes : (realEnv base zOf msgOf c).hash160 = base.hash160 ∧
    (realEnv base zOf msgOf c).sha256 = base.sha256 := ⟨rfl, rfl⟩

/-! ## completeness: what the library signs is accepted -/

/-- the DER signature and both SEC encodings exist for every signature `PrivateKey.sign` returns -/
theorem signed_encodings (hmac : Bytes → Bytes → Bytes) (fuel d z r s : Nat)
    (hsign : ECDSA.sign hmac fuel d z = .ok (r, s)) (hr : r < N) (hs0 : s ≠ 0) (cmp : Bool) :
    ∃ derb pkb, ECDSA.der r s = some derb ∧ sec (smul (d : Int) G) cmp = some pkb :=
  sign_encodings hmac fuel d z r s hsign hr hs0 cmp

/-- **P2PKH, end to end**: for every secret `d` (`sign` refuses those outside [1, n−1]), every digest `z`,
    every HMAC and loop bound, every hash-type byte whose digest is `z`, compressed or uncompressed key:
    scriptSig `<der(sign d z) ‖ hashtype> <sec(d·G)>` against `DUP HASH160 <hash160(sec(d·G))>
    EQUALVERIFY CHECKSIG` is accepted -/
theorem complete_p2pkh_signed (hmac : Bytes → Bytes → Bytes) (fuel0 d z r s : Nat)
    (hsign : ECDSA.sign hmac fuel0 d z = .ok (r, s)) (hr : r < N) (hs0 : s ≠ 0)
    (htb : UInt8) (hz : zOf htb.toNat = some z) (cmp : Bool) (derb pkb : Bytes)
    (hder : ECDSA.der r s = some derb) (hsec : sec (smul (d : Int) G) cmp = some pkb)
    (wit : List Bytes) (fuel : Nat) (hf : 7 ≤ fuel) :
    verifyInput Cfg.repaired (realEnv base zOf msgOf c) [.push (derb ++ [htb]), .push pkb]
      (p2pkhCommands (base.hash160 pkb)) wit fuel = .accept :=
  Props.C06.complete_p2pkh (realEnv base zOf msgOf c) _ pkb _ wit rfl
    (ecdsaAuth_of_sign base zOf msgOf c hmac fuel0 d z r s hsign hr hs0 htb hz cmp derb pkb hder hsec) fuel hf

/-- **native P2WPKH, end to end**: empty scriptSig, witness `[der(sign d z) ‖ hashtype, sec(d·G)]` against
    `OP_0 <hash160(sec(d·G))>` (hash160 yields 20 bytes) -/
theorem complete_p2wpkh_signed (hmac : Bytes → Bytes → Bytes) (fuel0 d z r s : Nat)
    (hsign : ECDSA.sign hmac fuel0 d z = .ok (r, s)) (hr : r < N) (hs0 : s ≠ 0)
    (htb : UInt8) (hz : zOf htb.toNat = some z) (cmp : Bool) (derb pkb : Bytes)
    (hder : ECDSA.der r s = some derb) (hsec : sec (smul (d : Int) G) cmp = some pkb)
    (h20 : (base.hash160 pkb).length = 20) (fuel : Nat) (hf : 9 ≤ fuel) :
    verifyInput Cfg.repaired (realEnv base zOf msgOf c) [] (p2wpkhSpk (base.hash160 pkb))
      [derb ++ [htb], pkb] fuel = .accept :=
  Props.C06.complete_p2wpkh (realEnv base zOf msgOf c) _ pkb _ h20 rfl
    (ecdsaAuth_of_sign base zOf msgOf c hmac fuel0 d z r s hsign hr hs0 htb hz cmp derb pkb hder hsec) fuel hf

/-- **P2SH-P2WPKH, end to end**: scriptSig `[redeem script]`, witness as above -/
theorem complete_p2sh_p2wpkh_signed (hmac : Bytes → Bytes → Bytes) (fuel0 d z r s : Nat)
    (hsign : ECDSA.sign hmac fuel0 d z = .ok (r, s)) (hr : r < N) (hs0 : s ≠ 0)
    (htb : UInt8) (hz : zOf htb.toNat = some z) (cmp : Bool) (derb pkb rs : Bytes)
    (hder : ECDSA.der r s = some derb) (hsec : sec (smul (d : Int) G) cmp = some pkb)
    (h20 : (base.hash160 pkb).length = 20) (hparse : parseCommands rs = some (p2wpkhSpk (base.hash160 pkb)))
    (hh : (base.hash160 rs).length = 20) (fuel : Nat) (hf : 10 ≤ fuel) :
    verifyInput Cfg.repaired (realEnv base zOf msgOf c) [.push rs] (p2shSpk (base.hash160 rs))
      [derb ++ [htb], pkb] fuel = .accept :=
  Props.C06.complete_p2sh_p2wpkh (realEnv base zOf msgOf c) rs _ pkb _ h20 hparse hh rfl
    (ecdsaAuth_of_sign base zOf msgOf c hmac fuel0 d z r s hsign hr hs0 htb hz cmp derb pkb hder hsec) fuel hf

/-- **P2TR key path, end to end**: for every secret `d`, merkle root and tagged hashes `H`: let
    `(d', Q) = PrivateKey(d).tweaked_key(root)`.  Then `Q` is the output key of
    `PrivateKey(d).point.p2tr_script(root)`, and the BIP340 signature of the 32-byte digest `m` by `d'`
    (`sign_schnorr`, which equals the BIP's signing algorithm) is accepted as the single witness element —
    as 64 bytes when `m` is the digest of the default hash type, or with the hash-type byte appended -/
theorem complete_p2tr_keypath_signed (hc : Schnorr.CacheOK base.sha256 c) (H : Taproot.Hashes)
    (d d' : Nat) (Q : Pt) (root m a : Bytes) (htw : Taproot.privTweakedKey H d root = some (d', Q))
    (hm : m.length = 32) (ha : a.length = 32) (hk : Spec.BIP340.nonce base.sha256 d' m a ≠ some 0)
    (fuel : Nat) (hf : 2 ≤ fuel) :
    ∃ pt script sig R s c', Taproot.privPoint d = some pt ∧ Taproot.p2trScript H pt root = some script ∧
      script.cmds = p2trSpk (xonly Q) ∧
      Schnorr.signSchnorr base.sha256 c d' m (some a) = some ((R, s), c') ∧
      Schnorr.serialize R s = some sig ∧ Spec.BIP340.sign base.sha256 d' m a = some sig ∧
      (msgOf 0 = some m →
        verifyInput Cfg.repaired (realEnv base zOf msgOf c) [] script.cmds [sig] fuel = .accept) ∧
      (∀ htb : UInt8, msgOf htb.toNat = some m →
        verifyInput Cfg.repaired (realEnv base zOf msgOf c) [] script.cmds [sig ++ [htb]] fuel = .accept) := by
  obtain ⟨pt, hpt, htk, hQ, hd1, hd2⟩ := Props.C12.priv_tweaked_key_point H htw
  obtain ⟨sig, R, s, c', hs, hser, _, hspec, h64, h65⟩ :=
    schnorrCheck_of_sign base zOf msgOf c hc d' m a hd1 hd2 hm ha hk
  have hscript : Taproot.p2trScript H pt root = some { cmds := Taproot.p2trCmds Q } := by
    simp [Taproot.p2trScript, htk]
  have hxl : (xonly Q).length = 32 := xonly_length Q
  rw [← hQ] at h64 h65
  refine ⟨pt, _, sig, R, s, c', hpt, hscript, rfl, hs, hser, hspec, ?_, ?_⟩
  · intro hmsg
    exact Props.C06.complete_p2tr_keypath _ (xonly Q) sig hxl (h64 hmsg) fuel hf
  · intro htb hmsg
    exact Props.C06.complete_p2tr_keypath _ (xonly Q) (sig ++ [htb]) hxl (h65 htb hmsg) fuel hf

/-! ## soundness: an accepted spend carries a valid signature of the committed key -/

/-- **P2PKH, end to end**: whatever the scriptSig (any opcodes, pushes, conditionals), witness and fuel,
    an accepted spend of `DUP HASH160 <h> EQUALVERIFY CHECKSIG` exhibits a key `pk` with
    `hash160(pk) = h` that is the SEC encoding of a curve point `Q` (or a 32-byte x-only key), and
    `(r, s)` with `r, s ∈ [1, n−1]` satisfying the ECDSA verification equation for `Q` and the digest of the
    hash type carried by the signature element -/
theorem sound_p2pkh_ecdsa (h : Bytes) (ss : List Cmd) (wit : List Bytes) (fuel : Nat)
    (ha : verifyInput Cfg.repaired (realEnv base zOf msgOf c) ss (p2pkhCommands h) wit fuel = .accept) :
    ∃ pk tmp, base.hash160 pk = h ∧ EcdsaWitness zOf pk tmp := by
  obtain ⟨pk, tmp, hh, hauth⟩ := Props.C06.sound_p2pkh _ h ss wit fuel ha
  exact ⟨pk, tmp, hh, ecdsaWitness_of_auth base zOf msgOf c hauth⟩

/-- what `EcdsaWitness` says -/
theorem ecdsaWitness_iff (pk tmp : Bytes) : EcdsaWitness zOf pk tmp ↔
    ∃ der ht Q r s z, splitHashType tmp = .ok (der, ht) ∧ parsePoint pk = some Q ∧ Valid P A B Q ∧
      ((∃ cmp, sec Q cmp = some pk) ∨ (pk.length = 32 ∧ parseXonly pk = some Q)) ∧
      ECDSA.parseDer der = some (r, s) ∧ zOf ht = some z ∧ Spec.ECDSA.Valid Q z r s :=
  ⟨fun h => h.ex, fun h => ⟨h⟩⟩

/-- **native P2WPKH, end to end**; key and signature are witness items -/
theorem sound_p2wpkh_ecdsa (h : Bytes) (hl : h.length = 20) (ss : List Cmd) (wit : List Bytes) (fuel : Nat)
    (ha : verifyInput Cfg.repaired (realEnv base zOf msgOf c) ss (p2wpkhSpk h) wit fuel = .accept) :
    ∃ pk tmp, pk ∈ wit ∧ tmp ∈ wit ∧ base.hash160 pk = h ∧ EcdsaWitness zOf pk tmp := by
  obtain ⟨pk, tmp, h1, h2, hh, hauth⟩ := Props.C06.sound_p2wpkh _ h hl ss wit fuel ha
  exact ⟨pk, tmp, h1, h2, hh, ecdsaWitness_of_auth base zOf msgOf c hauth⟩

/-- **P2SH-P2WPKH, end to end** (or a second preimage of the script hash is exhibited) -/
theorem sound_p2sh_p2wpkh_ecdsa (rs kh : Bytes) (hkh : kh.length = 20)
    (hparse : parseCommands rs = some (p2wpkhSpk kh)) (hrs : 1 < rs.length)
    (hh : (base.hash160 rs).length = 20) (ss : List Cmd) (wit : List Bytes) (fuel : Nat)
    (ha : verifyInput Cfg.repaired (realEnv base zOf msgOf c) ss (p2shSpk (base.hash160 rs)) wit fuel = .accept) :
    (∃ x, x ≠ rs ∧ base.hash160 x = base.hash160 rs) ∨
    (∃ pk tmp, pk ∈ wit ∧ tmp ∈ wit ∧ base.hash160 pk = kh ∧ EcdsaWitness zOf pk tmp) := by
  rcases Props.C06.sound_p2sh_p2wpkh (realEnv base zOf msgOf c) rs kh hkh hparse hrs hh ss wit fuel ha with
    h | ⟨pk, tmp, h1, h2, hk, hauth⟩
  · exact Or.inl h
  · exact Or.inr ⟨pk, tmp, h1, h2, hk, ecdsaWitness_of_auth base zOf msgOf c hauth⟩

/-- **P2TR, end to end**: an accepted spend of `OP_1 <x>` is a key-path spend whose single element carries
    a signature that `verify_schnorr` accepts under the output key `x` for the digest of its hash type —
    BIP340 verification whenever the signature proper has 64 bytes (always for a 65-byte element) — or it
    is a script-path spend (control block committing the script to `x`, C06 / C12) -/
theorem sound_p2tr_bip340 (hc : Schnorr.CacheOK base.sha256 c) (x : Bytes) (hl : x.length = 32)
    (ss : List Cmd) (wit : List Bytes) (fuel : Nat)
    (ha : verifyInput Cfg.repaired (realEnv base zOf msgOf c) ss (p2trSpk x) wit fuel = .accept) :
    ∃ items, (items = wit ∨ items = wit.dropLast) ∧
      ((∃ sig body ht m, items = [sig] ∧
          ((sig.length = 65 ∧ ∃ b : UInt8, sig = body ++ [b] ∧ ht = b.toNat) ∨
            (sig.length ≠ 65 ∧ sig.length ≠ 0 ∧ body = sig ∧ ht = 0)) ∧ msgOf ht = some m ∧
          (∃ c', Schnorr.verifyRaw base.sha256 c x m body = some (true, c')) ∧
          (body.length = 64 → Spec.BIP340.verify base.sha256 x m body = true)) ∨
        ScriptPath (realEnv base zOf msgOf c) x [] items) := by
  obtain ⟨items, hor, hcase⟩ := Props.C06.sound_p2tr _ x hl ss wit fuel ha
  refine ⟨items, hor, ?_⟩
  rcases hcase with ⟨sig, hi, hv⟩ | hsp
  · obtain ⟨body, ht, m, hc1, hm, hraw, hspec⟩ := bip340_of_schnorrCheck base zOf msgOf c hc x sig hl hv
    exact Or.inl ⟨sig, body, ht, m, hi, hc1, hm, hraw, hspec⟩
  · exact Or.inr hsp

/-! ## m-of-n multisig, soundness -/

/-- **P2SH m-of-n, end to end**: an accepted spend exhibits a second preimage of the script hash, or `m`
    signature elements that are, in order, valid ECDSA signatures (for the digests of their hash types) of
    `m` distinct keys of the redeem script -/
theorem sound_p2sh_multisig_ecdsa (rs : Bytes) (m : Nat) (pks : List Bytes) (hm : 1 ≤ m ∧ m ≤ 16)
    (hn : 1 ≤ pks.length ∧ pks.length ≤ 16) (hparse : parseCommands rs = some (multisigScript m pks))
    (hrs : 1 < rs.length) (hh : (base.hash160 rs).length = 20) (ss : List Cmd) (wit : List Bytes) (fuel : Nat)
    (ha : verifyInput Cfg.repaired (realEnv base zOf msgOf c) ss (p2shSpk (base.hash160 rs)) wit fuel = .accept) :
    (∃ x, x ≠ rs ∧ base.hash160 x = base.hash160 rs) ∨
    (∃ (raw : List Bytes) (sigs : List (Bytes × Nat)), raw.length = m ∧ splitSigs raw = .ok sigs ∧
      RealSigMatch zOf sigs pks.reverse) := by
  rcases Props.C06.sound_p2sh_multisig (realEnv base zOf msgOf c) rs m pks hm hn hparse hrs hh ss wit fuel ha with
    h | h
  · exact Or.inl h
  · exact Or.inr (multisig_real base zOf msgOf c h)

/-- **native P2WSH m-of-n, end to end** -/
theorem sound_p2wsh_multisig_ecdsa (ws : Bytes) (m : Nat) (pks : List Bytes) (hm : 1 ≤ m ∧ m ≤ 16)
    (hn : 1 ≤ pks.length ∧ pks.length ≤ 16) (hparse : parseCommands ws = some (multisigScript m pks))
    (hh : (base.sha256 ws).length = 32) (ss : List Cmd) (wit : List Bytes) (fuel : Nat)
    (ha : verifyInput Cfg.repaired (realEnv base zOf msgOf c) ss (p2wshSpk (base.sha256 ws)) wit fuel = .accept) :
    (∃ x, x ≠ ws ∧ base.sha256 x = base.sha256 ws) ∨
    (∃ (raw : List Bytes) (sigs : List (Bytes × Nat)), raw.length = m ∧ splitSigs raw = .ok sigs ∧
      RealSigMatch zOf sigs pks.reverse) := by
  rcases Props.C06.sound_p2wsh_multisig (realEnv base zOf msgOf c) ws m pks hm hn hparse hh ss wit fuel ha with
    h | h
  · exact Or.inl h
  · exact Or.inr (multisig_real base zOf msgOf c h)

/-- **P2SH-P2WSH m-of-n, end to end** -/
theorem sound_p2sh_p2wsh_multisig_ecdsa (rs ws : Bytes) (m : Nat) (pks : List Bytes) (hm : 1 ≤ m ∧ m ≤ 16)
    (hn : 1 ≤ pks.length ∧ pks.length ≤ 16) (hparseW : parseCommands ws = some (multisigScript m pks))
    (hw32 : (base.sha256 ws).length = 32) (hparseR : parseCommands rs = some (p2wshSpk (base.sha256 ws)))
    (hrs : 1 < rs.length) (hh : (base.hash160 rs).length = 20) (ss : List Cmd) (wit : List Bytes) (fuel : Nat)
    (ha : verifyInput Cfg.repaired (realEnv base zOf msgOf c) ss (p2shSpk (base.hash160 rs)) wit fuel = .accept) :
    (∃ x, x ≠ rs ∧ base.hash160 x = base.hash160 rs) ∨ (∃ x, x ≠ ws ∧ base.sha256 x = base.sha256 ws) ∨
    (∃ (raw : List Bytes) (sigs : List (Bytes × Nat)), raw.length = m ∧ splitSigs raw = .ok sigs ∧
      RealSigMatch zOf sigs pks.reverse) := by
  rcases Props.C06.sound_p2sh_p2wsh_multisig (realEnv base zOf msgOf c) rs ws m pks hm hn hparseW hw32 hparseR
    hrs hh ss wit fuel ha with h | h | h
  · exact Or.inl h
  · exact Or.inr (Or.inl h)
  · exact Or.inr (Or.inr (multisig_real base zOf msgOf c h))

/-- what `RealSigMatch` says for one signature: a key of the list parses to a curve point for which the
    signature satisfies the ECDSA predicate, and the remaining signatures match keys AFTER it -/
theorem realSigMatch_cons_iff (der : Bytes) (ht : Nat) (sigs : List (Bytes × Nat)) (keys : List Bytes) :
    RealSigMatch zOf ((der, ht) :: sigs) keys ↔
      ∃ pre p rest Q r s z, keys = pre ++ p :: rest ∧ parsePoint p = some Q ∧ Valid P A B Q ∧
        ECDSA.parseDer der = some (r, s) ∧ zOf ht = some z ∧ Spec.ECDSA.Valid Q z r s ∧
        RealSigMatch zOf sigs rest := by
  constructor
  · intro h
    cases h with
    | cons _ _ _ pre p rest Q r s z hQ hv hd hz hval hrest =>
      exact ⟨pre, p, rest, Q, r, s, z, rfl, hQ, hv, hd, hz, hval, hrest⟩
  · rintro ⟨pre, p, rest, Q, r, s, z, rfl, hQ, hv, hd, hz, hval, hrest⟩
    exact RealSigMatch.cons der ht sigs pre p rest Q r s z hQ hv hd hz hval hrest

/-! ## the hypotheses are satisfiable -/

-- a signature exists with `r < n`, `s ≠ 0` (an "HMAC" answering 00…01: nonce 1, secret 1, digest 0)
example : ECDSA.sign (fun _ _ => List.replicate 31 0 ++ [1]) 1 1 0 = .ok (Gen.secpGx, Gen.secpGx) ∧
    Gen.secpGx < N ∧ Gen.secpGx ≠ 0 := by decide +kernel

-- the cache invariant holds for the empty cache
example (sha256 : Bytes → Bytes) : Schnorr.CacheOK sha256 [] := Schnorr.cacheOK_nil sha256

-- the key-path templates agree
example (X : Pt) : Taproot.p2trCmds X = p2trSpk (xonly X) := rfl

end Buidl.Props.C06Compose
