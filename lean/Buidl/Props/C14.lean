/-
  C14 — BIP39 (placeholder while the proofs are being written; replaced by the real theorems).
-/
import Buidl.Model.Mnemonic
namespace Buidl.Props.C14
open Buidl Buidl.Mnemonic

theorem constants_fingerprint : Gen.pbkdf2Rounds = 2048 ∧ Gen.kdfIterations = 2048 ∧ Gen.kdfReadLen = 64 := by decide

end Buidl.Props.C14
