/-
  C14 — BIP39 mnemonics encode entropy + checksum exactly and seeds follow PBKDF2.
  Property theorems only (helpers: Buidl.Proofs.Mnemonic, Buidl.Proofs.PBKDF2, Buidl.Proofs.WordTable).

  Models: Buidl.Model.Mnemonic (buidl/mnemonic.py, buidl/pbkdf2.py, helper.hmac_sha512_kdf,
  HDPrivateKey.from_mnemonic up to the call of from_seed); specification: Buidl.Spec.PBKDF2 (RFC 2898).
  `sha256` and the PRF (HMAC-SHA512 in the code) are arbitrary functions; strings are lists of code
  points.  `wl` is the word list loaded from the generated table (`BIP39? = some wl`), which is
  re-extracted from /repo/buidl/bip39_words.txt on every run; the table facts are re-checked by the
  kernel (`Buidl.Mnemonic.bip39_check`) whenever it changes.
-/
import Buidl.Proofs.Mnemonic
namespace Buidl.Props.C14
open Buidl Buidl.Mnemonic

/-! ## the word table -/

/-- the BIP39 table loads, has 2^11 entries, every word is a non-empty string of `a`..`z` (so it survives
    `split()` and `lower()`), and no key — a word, or the first four letters of a word longer than four —
    is stored for two different indices -/
theorem bip39_table_facts :
    ∃ wl, BIP39? = some wl ∧ wl.words.length = 2048 ∧ KeysUnique wl.words ∧
      ∀ w ∈ wl.words, IsWord w ∧ asciiLower w = w ∧ ∀ c ∈ w, 97 ≤ c ∧ c ≤ 122 := by
  obtain ⟨wl, h, tok⟩ := bip39_table
  exact ⟨wl, h, tok.hlen, tok.huniq, fun w hw => lowerWord_isWord w (tok.hlower w hw)⟩

/-- the table is sorted: strictly increasing in the left-aligned base-2^21 numbering `encKey` of the words, which
    for these words (at most eight letters `a`..`z`) is the lexicographic order -/
theorem bip39_sorted (wl : WordList) (hwl : BIP39? = some wl) :
    wl.words.Pairwise (fun a b => encKey a < encKey b) := by
  obtain ⟨wl', h, tok⟩ := bip39_table
  rw [hwl] at h; cases h; exact tok.hsorted

theorem table_ok (wl : WordList) (hwl : BIP39? = some wl) : TableOK 2048 wl := by
  obtain ⟨wl', h, tok⟩ := bip39_table
  rw [hwl] at h; cases h; exact tok

/-- prefix lookup is well-defined: `BIP39[key]` succeeds exactly for full words and for the first four letters
    of words longer than four, and returns the index of that (unique) word -/
theorem lookup_well_defined (wl : WordList) (hwl : BIP39? = some wl) (key : PyStr) (i : Nat) :
    wl.lookup key = some i ↔
      i < 2048 ∧ (wl.words.getD i [] = key ∨ ((wl.words.getD i []).length > 4 ∧ (wl.words.getD i []).take 4 = key)) := by
  have tok := table_ok wl hwl
  rw [lookup_iff wl tok.huniq, matchesKey_eq, tok.hlen]

/-- every index has its word, and the word looks up to the index -/
theorem word_lookup (wl : WordList) (hwl : BIP39? = some wl) (i : Nat) (hi : i < 2048) :
    ∃ w, wl.word i = some w ∧ wl.lookup w = some i := by
  have tok := table_ok wl hwl
  have hi' : i < wl.words.length := by rw [tok.hlen]; exact hi
  refine ⟨wl.words.getD i [], ?_, lookup_of_match wl tok.huniq i _ hi' (matchesKey_self _)⟩
  show wl.words[i]? = _
  rw [List.getD_eq_getElem?_getD, List.getElem?_eq_getElem hi']; rfl

/-! ## entropy → mnemonic → entropy -/

/-- `mnemonic_to_bytes (bytes_to_mnemonic e) = e` for every entropy of 16/20/24/28/32 bytes and every
    hash function returning at least one byte -/
theorem roundtrip (sha256 : Bytes → Bytes) (hne : ∀ b, sha256 b ≠ []) (wl : WordList)
    (hwl : BIP39? = some wl) (e : Bytes)
    (hlen : e.length = 16 ∨ e.length = 20 ∨ e.length = 24 ∨ e.length = 28 ∨ e.length = 32) :
    ∃ m, bytesToMnemonic sha256 wl e (8 * e.length) = some m ∧ mnemonicToBytes sha256 wl m = some e := by
  obtain ⟨cs, nw, ok⟩ := sizeOK_of_length e.length hlen
  exact mnemonic_roundtrip sha256 wl (table_ok wl hwl) e cs nw ok (hne e)

/-- the words are the 11-bit groups of  entropy ‖ first |e|/4 bits of sha256(e):  with
    `N = int(e) · 2^cs + (sha256(e)[0] >> (8 - cs))`, `cs = |e| / 4` bits, there are `nw = (8|e| + cs) / 11`
    words and the `i`-th one is table entry number `(N >> 11 (nw - 1 - i)) mod 2^11` -/
theorem words_are_11bit_groups (sha256 : Bytes → Bytes) (wl : WordList) (hwl : BIP39? = some wl) (e : Bytes)
    (hlen : e.length = 16 ∨ e.length = 20 ∨ e.length = 24 ∨ e.length = 28 ∨ e.length = 32)
    (h0 : UInt8) (t : Bytes) (hs : sha256 e = h0 :: t) :
    ∃ ws, bytesToWords sha256 wl e (8 * e.length) = some ws ∧
      ws.length = (8 * e.length + e.length / 4) / 11 ∧
      ∀ i, i < ws.length →
        ws[i]? = wl.word
          ((beToNat e * 2 ^ (e.length / 4) + h0.toNat / 2 ^ (8 - e.length / 4))
            / 2048 ^ (ws.length - 1 - i) % 2048) := by
  have tok := table_ok wl hwl
  obtain ⟨cs, nw, ok, hcs, hnw⟩ : ∃ cs nw, SizeOK e.length cs nw ∧ cs = e.length / 4 ∧
      nw = (8 * e.length + e.length / 4) / 11 := by
    rcases hlen with h | h | h | h | h <;> rw [h]
    · exact ⟨_, _, sizeOK_16, by decide, by decide⟩
    · exact ⟨_, _, sizeOK_20, by decide, by decide⟩
    · exact ⟨_, _, sizeOK_24, by decide, by decide⟩
    · exact ⟨_, _, sizeOK_28, by decide, by decide⟩
    · exact ⟨_, _, sizeOK_32, by decide, by decide⟩
  refine ⟨_, bytesToWords_eq sha256 wl tok.hlen e cs nw ok h0 t hs, by simp [digitsBE_length, hnw], ?_⟩
  intro i hi
  simp only [List.length_map, digitsBE_length] at hi ⊢
  rw [List.getElem?_map, digitsBE_getElem _ _ _ hi, ← hcs]
  simp only [Option.map_some, allBitsOf]
  have hd : (beToNat e * 2 ^ cs + h0.toNat / 2 ^ (8 - cs)) / 2048 ^ (nw - 1 - i) % 2048 < wl.words.length := by
    rw [tok.hlen]; exact Nat.mod_lt _ (by decide)
  show _ = wl.words[_]?
  rw [List.getD_eq_getElem?_getD, List.getElem?_eq_getElem hd]; rfl

/-- `bytes_to_mnemonic` refuses every `num_bits` other than 128/160/192/224/256 -/
theorem bytesToMnemonic_rejects_size (sha256 : Bytes → Bytes) (wl : WordList) (b : Bytes) (numBits : Nat)
    (h : ¬ (numBits = 128 ∨ numBits = 160 ∨ numBits = 192 ∨ numBits = 224 ∨ numBits = 256)) :
    bytesToMnemonic sha256 wl b numBits = none := by
  have : Gen.b2mNumBits.contains numBits = false := by
    simp only [Gen.b2mNumBits, List.contains_eq_mem, List.mem_cons, List.not_mem_nil, or_false,
      decide_eq_false_iff_not]
    exact h
  unfold bytesToMnemonic bytesToWords
  rw [this]; rfl

/-! ## acceptance -/

/-- a word sequence is accepted — and decodes to `e` — exactly when its length is 12/15/18/21/24, every word
    is a stored key of the table (`lookupAll`; by `lookup_well_defined`: a full word or the first four letters
    of a longer word) and, with `N` the number whose base-2^11 digits are the indices and `cs = len / 3`:
    `e` is the big-endian `(11·len − cs)/8`-byte string of `N >> cs` and the low `cs` bits of `N` are the
    top `cs` bits of the first byte of `sha256 e` -/
theorem accept_iff (sha256 : Bytes → Bytes) (hne : ∀ b, sha256 b ≠ []) (wl : WordList)
    (hwl : BIP39? = some wl) (mnemonic : PyStr) (e : Bytes) :
    mnemonicToBytes sha256 wl mnemonic = some e ↔
      let ws := pySplit mnemonic
      (ws.length = 12 ∨ ws.length = 15 ∨ ws.length = 18 ∨ ws.length = 21 ∨ ws.length = 24) ∧
      ∃ idx, lookupAll wl ws = some idx ∧
        e = natToBE' ((11 * ws.length - ws.length / 3) / 8) (ofDigits 0 idx / 2 ^ (ws.length / 3)) ∧
        ∃ h0 t, sha256 e = h0 :: t ∧
          ofDigits 0 idx % 2 ^ (ws.length / 3) = h0.toNat / 2 ^ (8 - ws.length / 3) :=
  wordsToBytes_iff sha256 hne wl (table_ok wl hwl).hlen (pySplit mnemonic) e

/-- `[BIP39[w] for w in words]` succeeds exactly when every word is a stored key, and lists their indices -/
theorem lookupAll_spec (wl : WordList) (ws : List PyStr) (idx : List Nat) :
    lookupAll wl ws = some idx ↔ List.Forall₂ (fun w i => wl.lookup w = some i) ws idx :=
  lookupAll_iff wl ws idx

/-- a wrong length is refused whatever the words are -/
theorem wrong_length_rejected (sha256 : Bytes → Bytes) (wl : WordList) (mnemonic : PyStr)
    (h : ¬ ((pySplit mnemonic).length = 12 ∨ (pySplit mnemonic).length = 15 ∨ (pySplit mnemonic).length = 18 ∨
      (pySplit mnemonic).length = 21 ∨ (pySplit mnemonic).length = 24)) :
    mnemonicToBytes sha256 wl mnemonic = none := by
  have : Gen.m2bWordCounts.contains (pySplit mnemonic).length = false := by
    simp only [Gen.m2bWordCounts, List.contains_eq_mem, List.mem_cons, List.not_mem_nil, or_false,
      decide_eq_false_iff_not]
    exact h
  unfold mnemonicToBytes wordsToBytes
  rw [this]; rfl

/-- a word that is not a stored key is refused (KeyError) -/
theorem unknown_word_rejected (sha256 : Bytes → Bytes) (wl : WordList) (mnemonic : PyStr) (w : PyStr)
    (hw : w ∈ pySplit mnemonic) (hk : wl.lookup w = none) :
    mnemonicToBytes sha256 wl mnemonic = none := by
  cases h : mnemonicToBytes sha256 wl mnemonic with
  | none => rfl
  | some e =>
    exfalso
    obtain ⟨idx, hidx⟩ := wordsToBytes_lookupAll sha256 wl _ e h
    have hf := (lookupAll_iff wl _ idx).mp hidx
    have : ∀ (ws : List PyStr) (idx : List Nat), List.Forall₂ (fun w i => wl.lookup w = some i) ws idx →
        w ∈ ws → ∃ i, wl.lookup w = some i := by
      intro ws idx hf
      induction hf with
      | nil => intro h; simp at h
      | cons h1 _ ih =>
        intro hm
        simp only [List.mem_cons] at hm
        rcases hm with rfl | hm
        · exact ⟨_, h1⟩
        · exact ih hm
    obtain ⟨i, hi⟩ := this _ _ hf hw
    rw [hk] at hi; cases hi

/-! ## the vendored PBKDF2 is RFC 2898 -/

/-- `PBKDF2(P, S, c).read(dkLen)` (buidl/pbkdf2.py) equals RFC 2898 PBKDF2 for every PRF with a fixed
    non-zero output length, every password, salt, iteration count ≥ 1 and output length — including the
    refusal "derived key too long" beyond (2^32 − 1)·hLen -/
theorem pbkdf2_vendored_eq_rfc2898 (prf : Bytes → Bytes → Bytes) (hLen : Nat)
    (hh : ∀ k m, (prf k m).length = hLen) (h0 : 0 < hLen) (P S : Bytes) (c : Nat) (hc : 1 ≤ c) (dkLen : Nat) :
    pbkdf2Vendored prf P S c dkLen = Spec.pbkdf2 prf hLen P S c dkLen :=
  pbkdf2Vendored_eq prf hLen hh h0 P S c hc dkLen

/-- an iteration count of 0 is refused (`_setup`) -/
theorem pbkdf2_zero_iterations (prf : Bytes → Bytes → Bytes) (P S : Bytes) (n : Nat) :
    pbkdf2Vendored prf P S 0 n = none := by
  simp [pbkdf2Vendored, PBKDF2.new]

/-- buffering across reads: consecutive `read(n₁), read(n₂), …` on one object return the consecutive pieces
    of the RFC 2898 key stream of total length `n₁ + n₂ + …` -/
theorem pbkdf2_reads (prf : Bytes → Bytes → Bytes) (hLen : Nat)
    (hh : ∀ k m, (prf k m).length = hLen) (h0 : 0 < hLen) (P S : Bytes) (c : Nat) (hc : 1 ≤ c)
    (ns : List Nat) (hsum : ns.sum ≤ (2 ^ 32 - 1) * hLen) :
    ∃ st dk, PBKDF2.new P S c = some st ∧ Spec.pbkdf2 prf hLen P S c ns.sum = some dk ∧
      PBKDF2.reads prf st ns = some (chunks ns dk) := by
  obtain ⟨st, hnew, inv⟩ := new_inv prf hLen P S c hc
  have hmax : Gen.counterMax = 2 ^ 32 - 1 := by decide
  refine ⟨st, (Spec.blocks prf P S c 0 ((ns.sum + hLen - 1) / hLen)).take ns.sum, hnew, ?_, ?_⟩
  · unfold Spec.pbkdf2
    rw [if_neg (by omega)]
  · have h := reads_spec prf hLen hh h0 P S c ns st 0 inv (by rw [hmax]; omega)
      ((ns.sum + hLen - 1) / hLen) (by simpa using ceil_mul_ge ns.sum hLen h0)
    rw [h]
    simp only [List.drop_zero, Option.some.injEq]
    -- chunks only look at the first `ns.sum` bytes
    have hch : ∀ (ns : List Nat) (s : Bytes), chunks ns (s.take ns.sum) = chunks ns s := by
      intro ns
      induction ns with
      | nil => intro s; rfl
      | cons n r ih =>
        intro s
        simp only [chunks, List.sum_cons, List.take_take, List.drop_take]
        rw [Nat.min_eq_left (by omega), show n + r.sum - n = r.sum by omega, ih]
    exact (hch ns _).symm

/-! ## from_mnemonic -/

/-- the extracted parameters of `hmac_sha512_kdf` / `from_mnemonic`: 2048 rounds (`PBKDF2_ROUNDS`, used as
    `iterations=`), SHA-512, 64 bytes read, salt prefix `b"mnemonic"` -/
theorem kdf_parameters :
    Gen.pbkdf2Rounds = 2048 ∧ Gen.kdfIterations = Gen.pbkdf2Rounds ∧ Gen.kdfReadLen = 64 ∧
    Gen.seedSaltPrefix = [109, 110, 101, 109, 111, 110, 105, 99] ∧ Gen.kdfDigest = "sha512" := by
  refine ⟨rfl, rfl, rfl, rfl, by decide⟩

/-- for an accepted mnemonic, the seed handed to `from_seed` is
    `PBKDF2-PRF(password = the full table words of the indices joined by single spaces,
                salt = "mnemonic" ‖ passphrase, c = 2048, dkLen = 64)` of RFC 2898 —
    for every passphrase (any bytes), whatever whitespace or four-letter prefixes the input used -/
theorem from_mnemonic_seed (sha256 : Bytes → Bytes) (prf : Bytes → Bytes → Bytes) (hLen : Nat)
    (hh : ∀ k m, (prf k m).length = hLen) (h0 : 0 < hLen) (wl : WordList) (hwl : BIP39? = some wl)
    (mnemonic : PyStr) (passphrase e : Bytes) (hacc : mnemonicToBytes sha256 wl mnemonic = some e) :
    ∃ idx, lookupAll wl (pySplit mnemonic) = some idx ∧
      mnemonicToSeed sha256 prf wl mnemonic passphrase
        = Spec.pbkdf2 prf hLen (normalisedBytes wl idx)
            ([109, 110, 101, 109, 111, 110, 105, 99] ++ passphrase) 2048 64 :=
  mnemonicToSeed_eq sha256 prf hLen hh h0 wl (table_ok wl hwl) mnemonic passphrase e hacc

/-- a mnemonic that `mnemonic_to_bytes` refuses yields no key -/
theorem from_mnemonic_rejects (sha256 : Bytes → Bytes) (prf : Bytes → Bytes → Bytes) {K : Type}
    (fromSeed : Bytes → Option K) (wl : WordList) (mnemonic : PyStr) (passphrase : Bytes)
    (h : mnemonicToBytes sha256 wl mnemonic = none) :
    fromMnemonic sha256 prf fromSeed wl mnemonic passphrase = none := by
  simp [fromMnemonic, mnemonicToSeed_reject sha256 prf wl mnemonic passphrase h]

/-- the master key is `from_seed` (BIP32 master derivation, property C08) applied to that seed -/
theorem from_mnemonic_handoff (sha256 : Bytes → Bytes) (prf : Bytes → Bytes → Bytes) {K : Type}
    (fromSeed : Bytes → Option K) (wl : WordList) (mnemonic : PyStr) (passphrase : Bytes) :
    fromMnemonic sha256 prf fromSeed wl mnemonic passphrase
      = (mnemonicToSeed sha256 prf wl mnemonic passphrase).bind fromSeed := rfl

/-! ## the helpers: split / join, normalize, membership, hexread, histories on one object -/

/-- `" ".join(ws).split() == ws` for non-empty whitespace-free words, and `split()` only returns such words -/
theorem split_join (ws : List PyStr) (h : ∀ w ∈ ws, IsWord w) : pySplit (pyJoin ws) = ws :=
  pySplit_pyJoin ws h

theorem split_fields (s : PyStr) : ∀ w ∈ pySplit s, IsWord w := pySplit_isWord s

/-- `BIP39.normalize(w)` returns the full word of the (unique) index of `w`, for every accepted spelling -/
theorem normalize_spec (wl : WordList) (hwl : BIP39? = some wl) (w : PyStr) (i : Nat)
    (h : wl.lookup w = some i) : wl.normalize w = wl.word i := by
  have tok := table_ok wl hwl
  rw [normalize_eq wl tok w i h]
  have hi := (lookup_some wl i w h).1
  show _ = wl.words[i]?
  rw [List.getD_eq_getElem?_getD, List.getElem?_eq_getElem hi]; rfl

/-- a string that is no stored key is refused by lookup; `in` tests full words only -/
theorem lookup_unknown (wl : WordList) (key : PyStr) :
    wl.lookup key = none ↔ ∀ i, i < wl.words.length → matchesKey (wl.words.getD i []) key = false :=
  lookup_none_iff wl key

theorem contains_iff (wl : WordList) (key : PyStr) : wl.contains key = true ↔ key ∈ wl.words := by
  simp [WordList.contains]

/-- `hexread(n)` is `read(n)` in lower-case hex (2n characters) and advances the object exactly as `read` -/
theorem hexread_spec (prf : Bytes → Bytes → Bytes) (st : PBKDF2) (n : Nat) :
    st.hexread prf n = (st.read prf n).map (fun p => (hexOf p.1, p.2)) ∧
    ∀ b, (hexOf b).length = 2 * b.length :=
  ⟨by unfold PBKDF2.hexread; cases st.read prf n <;> rfl, hexOf_length⟩

/-- histories on ONE object: reads in any chunking return the consecutive pieces of the RFC 2898 stream
    (`pbkdf2_reads`); expressed for the call history interpreter, and after `close()` every read raises -/
theorem history_of_reads (prf : Bytes → Bytes → Bytes) (ns : List Nat) (st : PBKDF2) (outs : List Bytes)
    (h : PBKDF2.reads prf st ns = some outs) :
    PBKDF2.run prf (some st) (ns.map PbOp.read) = outs.map PbOut.bytes :=
  run_reads prf ns st outs h

theorem history_after_close (prf : Bytes → Bytes → Bytes) (ops : List PbOp) :
    PBKDF2.run prf none ops = ops.map fun op => if op = PbOp.close then PbOut.unit else PbOut.raised :=
  run_closed prf ops

/-- `str.encode("utf-8")` of an ASCII string is its code points -/
theorem utf8_ascii (s : PyStr) (h : ∀ c ∈ s, c < 128) : utf8Encode s = some (s.map UInt8.ofNat) :=
  utf8Encode_ascii s h

/-! ## non-vacuity -/

example : ∃ wl, BIP39? = some wl := by
  obtain ⟨wl, h, _⟩ := bip39_table_facts; exact ⟨wl, h⟩

example : SizeOK 16 4 12 ∧ SizeOK 32 8 24 := ⟨sizeOK_16, sizeOK_32⟩

/-! ## unique decodability (corollary of the round trip) -/

/-- two entropies (of any of the five sizes) never share a mnemonic -/
theorem mnemonic_injective (sha256 : Bytes → Bytes) (hne : ∀ b, sha256 b ≠ []) (wl : WordList)
    (hwl : BIP39? = some wl) (e₁ e₂ : Bytes)
    (h₁ : e₁.length = 16 ∨ e₁.length = 20 ∨ e₁.length = 24 ∨ e₁.length = 28 ∨ e₁.length = 32)
    (h₂ : e₂.length = 16 ∨ e₂.length = 20 ∨ e₂.length = 24 ∨ e₂.length = 28 ∨ e₂.length = 32)
    (m : PyStr) (a₁ : bytesToMnemonic sha256 wl e₁ (8 * e₁.length) = some m)
    (a₂ : bytesToMnemonic sha256 wl e₂ (8 * e₂.length) = some m) : e₁ = e₂ := by
  obtain ⟨m₁, x₁, d₁⟩ := roundtrip sha256 hne wl hwl e₁ h₁
  obtain ⟨m₂, x₂, d₂⟩ := roundtrip sha256 hne wl hwl e₂ h₂
  rw [a₁] at x₁; rw [a₂] at x₂; cases x₁; cases x₂
  rw [d₂] at d₁; exact (Option.some.inj d₁).symm
end Buidl.Props.C14
