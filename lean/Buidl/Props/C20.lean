import Buidl.Model.Bcur
namespace Buidl.Props.C20
open Buidl Buidl.Bech32

theorem stub_alphabet_length : alphabet.length = 32 := by decide

end Buidl.Props.C20
