/-
  C20 — BCUR / bc32 / CBOR air-gap transport reassembles exactly or fails loudly.
  Property theorems only (helper lemmas: Buidl.Proofs.Polymod, Regroup, Bech32, Bcur,
  BcurRoundtrip, BcurParse).  Models: Buidl.Model.Bech32 (cbor_*, convertbits, bc32*) and
  Buidl.Model.Bcur (constants from Buidl.Gen.*, re-extracted from /repo on every run).
  `sha256` is an arbitrary function returning 32 bytes where the length matters.
-/
import Buidl.Proofs.BcurCanon
namespace Buidl.Props.C20
open Buidl Buidl.Base58 Buidl.Bech32 Buidl.Bcur

/-! ## CBOR byte strings -/

/-- `cbor_encode` is defined exactly for lengths below 2^32 -/
theorem cbor_encode_domain (d : Bytes) : (cborEncode d).isSome ↔ d.length < 2 ^ 32 :=
  cborEncode_isSome_iff d

/-- the four layouts, switching exactly at 24, 256 and 65536 (N20a: the prefix byte for the
    4-byte length is 0x60 in this code, where CBOR has 0x5a) -/
theorem cbor_encode_layout (d : Bytes) (h : d.length < 2 ^ 32) :
    cborEncode d = some (
      if d.length ≤ 23 then UInt8.ofNat (0x40 + d.length) :: d
      else if d.length ≤ 255 then 0x58 :: UInt8.ofNat d.length :: d
      else if d.length ≤ 65535 then 0x59 :: (natToBE' 2 d.length ++ d)
      else 0x60 :: (natToBE' 4 d.length ++ d)) :=
  cborEncode_eq d h

/-- `cbor_decode (cbor_encode d) = d` for every length the encoder accepts, hence at every
    prefix boundary -/
theorem cbor_roundtrip (d e : Bytes) (h : cborEncode d = some e) : cborDecode e = some d :=
  cborDecode_cborEncode d e h

theorem cbor_encode_injective (d1 d2 e : Bytes) (h1 : cborEncode d1 = some e) (h2 : cborEncode d2 = some e) : d1 = d2 :=
  cborEncode_injective d1 d2 e h1 h2

example : cborEncode [1, 2, 3] = some [0x43, 1, 2, 3] ∧ cborDecode [0x43, 1, 2, 3] = some [1, 2, 3] ∧
    (cborEncode (List.replicate 24 7)).map (·.take 2) = some [0x58, 24] := by decide

/-! ## convertbits and bc32 -/

/-- the bc32 checksum constant (BCR-2020-004) on both sides, over the bech32 generator and character set -/
theorem spec_constants :
    Gen.bc32ChkXor = 0x3fffffff ∧ Gen.bc32DecConst = 0x3fffffff ∧
    Gen.bech32Gen = [0x3b6a57b2, 0x26508e6d, 0x1ea119fa, 0x3d4233dd, 0x2a1462b3] ∧
    Gen.bech32Alphabet = "qpzry9x8gf2tvdw0s3jn54khce6mua7l" := by decide

/-- 8 → 5 bits with padding, then 5 → 8 bits without padding, is the identity on byte strings -/
theorem convertbits_roundtrip (data : Bytes) :
    ∃ dd, convertbits (data.map (·.toNat)) 8 5 true = some dd ∧ (∀ d ∈ dd, d < 32) ∧
      convertbits dd 5 8 false = some (data.map (·.toNat)) :=
  Bech32.convertbits_roundtrip data

/-- `bc32encode` never fails on bytes -/
theorem bc32_encode_total (data : Bytes) : (bc32encode data).isSome := bc32encode_isSome data

/-- `bc32decode (bc32encode d) = d` -/
theorem bc32_roundtrip (data : Bytes) (s : Str) (h : bc32encode data = some s) : bc32decode s = some data :=
  bc32decode_bc32encode data s h

/-- a bc32 text in which one character is replaced by a character with a different lower-case
    form is refused, at every length (replacing a letter by its other case gives the same text
    after `lower()` or a mixed-case text, which is refused too) -/
theorem bc32_single_substitution (pre post : Str) (x y : Char) (hl : asciiLower x ≠ asciiLower y) (d : Bytes)
    (h : bc32decode (pre ++ x :: post) = some d) : bc32decode (pre ++ y :: post) = none :=
  bc32decode_single_subst pre post x y hl d h

/-- `bc32decode` accepts canonical texts only: `bc32encode (bc32decode s)` is `s` in lower case
    (for texts that have room for the six checksum characters) -/
theorem bc32_decode_canonical (s : Str) (d : Bytes) (h : bc32decode s = some d) (hlen : 6 ≤ s.length) :
    bc32encode d = some (s.map asciiLower) :=
  bc32encode_bc32decode s d h hlen

example : (bc32encode []).isSome ∧ bc32decode [] = none := by decide

/-! ## BCURMulti.encode: chunking -/

/-- integer ceiling arithmetic of the chunking: for a text of `L ≥ 1` characters and
    `max_size_per_chunk = m ≥ 1`, with `n = ⌈L/m⌉` parts of `cl = ⌈L/n⌉` characters:
    `1 ≤ cl ≤ m`, and `(n-1)·cl < L ≤ n·cl` (every part non-empty, the last possibly shorter) -/
theorem chunk_arithmetic (L m : Nat) (hL : 1 ≤ L) (hm : 1 ≤ m) :
    let n := (L + m - 1) / m
    let cl := (L + n - 1) / n
    1 ≤ n ∧ 1 ≤ cl ∧ cl ≤ m ∧ (n - 1) * cl < L ∧ L ≤ n * cl :=
  chunk_arith L m hL hm

/-- What BCURMulti(data).encode(m) returns, for every payload below 2^32 bytes and every chunk
    size m ≥ 1: `n = ⌈L/m⌉` parts `ur:bytes/{i+1}of{n}/{enc_hash}/{chunk_i}` whose chunks have
    `cl = ⌈L/n⌉ ≤ m` characters except the last, which has between 1 and `cl`; the chunks
    concatenate to the single-part text.  (The code computes the two ceilings with float
    division; that equals the integer ceiling because `L < 2^36 < 2^53`, see ASSUMPTIONS.) -/
theorem multi_encode_chunks (sha256 : Bytes → Bytes) (hh : ∀ b, (sha256 b).length = 32) (data : Bytes)
    (hd : data.length < 2 ^ 32) (m : Nat) (hm : 1 ≤ m) :
    ∃ enc encHash n cl, bcurEncode sha256 data = some (enc, encHash) ∧ enc.length < 2 ^ 53 ∧
      multiEncode sha256 data m true =
        some ((List.range n).map fun i => partStr (i + 1) n encHash ((enc.drop (i * cl)).take cl)) ∧
      n = (enc.length + m - 1) / m ∧ cl = (enc.length + n - 1) / n ∧ 1 ≤ n ∧ 1 ≤ cl ∧ cl ≤ m ∧
      ((List.range n).map fun i => (enc.drop (i * cl)).take cl).flatten = enc ∧
      (∀ i, i + 1 < n → ((enc.drop (i * cl)).take cl).length = cl) ∧
      (1 ≤ ((enc.drop ((n - 1) * cl)).take cl).length ∧ ((enc.drop ((n - 1) * cl)).take cl).length ≤ cl) := by
  obtain ⟨enc, encHash, n, cl, he, h1, h2, h3, h4, h5, h6, h7, h8, h9⟩ := multiEncode_chunks sha256 hh data hd m hm
  obtain ⟨_, enc', encHash', _, _, _, he', _, _, _, _, hlt⟩ := bcurEncode_facts sha256 hh data hd
  rw [he] at he'; cases he'
  exact ⟨enc, encHash, n, cl, he, by omega, h1, h2, h3, h4, h5, h6, h7, h8, h9⟩

/-! ## parse ∘ encode -/

/-- BCURSingle: `parse (encode x) = x`, with and without the checksum field -/
theorem single_roundtrip (sha256 : Bytes → Bytes) (hh : ∀ b, (sha256 b).length = 32) (data : Bytes)
    (hd : data.length < 2 ^ 32) (useChecksum : Bool) :
    ∃ s, singleEncode sha256 data useChecksum = some s ∧ singleParse sha256 s = some data :=
  singleParse_singleEncode sha256 hh data hd useChecksum

/-- BCURMulti: `parse (encode x, chunk size m) = x` for every m ≥ 1, animated or not; the parsed
    object carries the checksum of the encoder -/
theorem multi_roundtrip (sha256 : Bytes → Bytes) (hh : ∀ b, (sha256 b).length = 32) (data : Bytes)
    (hd : data.length < 2 ^ 32) (m : Nat) (hm : 1 ≤ m) (animate : Bool) :
    ∃ parts enc encHash, bcurEncode sha256 data = some (enc, encHash) ∧
      multiEncode sha256 data m animate = some parts ∧ multiParse sha256 parts = some (data, some encHash) :=
  multiParse_multiEncode sha256 hh data hd m hm animate

/-- BCURSingle.parse accepts canonical strings only: x = y = 1, the payload field is the text
    `bcur_encode` computes for the returned data, and a non-empty checksum field is its checksum -/
theorem single_parse_canonical (sha256 : Bytes → Bytes) (s : Str) (d : Bytes) (h : singleParse sha256 s = some d) :
    ∃ p enc encHash, parseBcurHelper s = some p ∧ p.x = 1 ∧ p.y = 1 ∧ bcurEncode sha256 d = some (enc, encHash) ∧
      (p.payload = [] ∨ p.payload = enc) ∧ (∀ cs, p.checksum = some cs → cs = [] ∨ cs = encHash) :=
  singleParse_canonical sha256 s d h

/-! ## rejection -/

/-- a part that is not at its own position (x ≠ index + 1) makes BCURMulti.parse fail:
    parts out of order, a missing earlier part, a duplicated part -/
theorem multi_out_of_order (sha256 : Bytes → Bytes) (parts : List Str) (j : Nat) (hj : j < parts.length) (p : Parsed)
    (hp : parseBcurHelper parts[j] = some p) (hx : p.x ≠ (j : Int) + 1) : multiParse sha256 parts = none := by
  unfold multiParse
  rw [multiLoop_out_of_order parts 0 (some []) 0 [] j hj p hp (by simpa using hx)]

/-- a later part whose checksum field differs from that of the first part makes it fail -/
theorem multi_checksum_mismatch (sha256 : Bytes → Bytes) (s0 : Str) (rest : List Str) (p0 : Parsed)
    (hp0 : parseBcurHelper s0 = some p0) (j : Nat) (hj : j < rest.length) (p : Parsed)
    (hp : parseBcurHelper rest[j] = some p) (hne : p.checksum ≠ p0.checksum) :
    multiParse sha256 (s0 :: rest) = none := by
  by_cases hx : p0.x = 1
  · unfold multiParse
    rw [multiLoop_first s0 rest p0 hp0 hx,
      multiLoop_checksum_mismatch rest 1 (Nat.le_refl _) p0.checksum p0.y [p0.payload] j hj p hp hne]
  · exact multi_out_of_order sha256 (s0 :: rest) 0 (by simp) p0 (by simpa using hp0) (by simpa using hx)

/-- a later part whose y (total number of parts) differs from that of the first part makes it fail -/
theorem multi_y_mismatch (sha256 : Bytes → Bytes) (s0 : Str) (rest : List Str) (p0 : Parsed)
    (hp0 : parseBcurHelper s0 = some p0) (j : Nat) (hj : j < rest.length) (p : Parsed)
    (hp : parseBcurHelper rest[j] = some p) (hne : p.y ≠ p0.y) :
    multiParse sha256 (s0 :: rest) = none := by
  by_cases hx : p0.x = 1
  · unfold multiParse
    rw [multiLoop_first s0 rest p0 hp0 hx,
      multiLoop_y_mismatch rest 1 (Nat.le_refl _) p0.checksum p0.y [p0.payload] j hj p hp hne]
  · exact multi_out_of_order sha256 (s0 :: rest) 0 (by simp) p0 (by simpa using hp0) (by simpa using hx)

/-- the hypotheses about parsed parts are satisfiable: the two parts of BCURMulti(b"hello").encode(8) -/
example :
    parseBcurHelper "ur:bytes/1of2/jtga66vjruluzz2pqv4a085078ymuujhffvmcs3r9lk0l0fmp5cq87zent/g45x2mrv".toList =
      some ⟨"g45x2mrv".toList, some "jtga66vjruluzz2pqv4a085078ymuujhffvmcs3r9lk0l0fmp5cq87zent".toList, 1, 2⟩ ∧
    (parseBcurHelper "UR:BYTES/2OF2/JTGA66VJRULUZZ2PQV4A085078YMUUJHFFVMCS3R9LK0L0FMP5CQ87ZENT/DUPCCGRQ ".toList).map (·.x) = some 2 ∧
    bc32decode "g45x2mrvdupccgrq".toList = some [0x45, 0x68, 0x65, 0x6c, 0x6c, 0x6f] ∧
    cborDecode [0x45, 0x68, 0x65, 0x6c, 0x6c, 0x6f] = some [0x68, 0x65, 0x6c, 0x6c, 0x6f] := by decide +kernel

/-! ## collision extraction -/

/-- If BCURMulti.parse accepts ANY sequence of parts (missing parts, parts of another payload,
    corrupted characters, …) under a non-empty checksum text `cs`, and `cs` is the checksum that
    `bcur_encode` computes for the payload `d0`, then the accepted data is `d0`, or two different
    byte strings with the same SHA-256 are exhibited. -/
theorem multi_collision_extraction (sha256 : Bytes → Bytes) (parts : List Str) (d : Bytes) (cs : Str) (hcs : cs ≠ [])
    (h : multiParse sha256 parts = some (d, some cs)) (d0 : Bytes) (enc0 : Str)
    (h0 : bcurEncode sha256 d0 = some (enc0, cs)) :
    d = d0 ∨ ∃ c c0 : Bytes, c ≠ c0 ∧ sha256 c = sha256 c0 := by
  have hd : ∃ cbor, cborEncode d = some cbor ∧ bc32encode (sha256 cbor) = some cs := by
    unfold multiParse at h
    cases hl : multiLoop parts 0 (some []) 0 [] with
    | none => simp [hl] at h
    | some r =>
      obtain ⟨gc, pls⟩ := r
      rw [hl] at h
      simp only at h
      cases hdec : bcurDecode sha256 pls.flatten gc with
      | none => simp [hdec] at h
      | some data =>
        rw [hdec] at h
        simp only at h
        cases hc : construct sha256 data none gc with
        | none => simp [hc] at h
        | some r2 =>
          simp only [hc, Option.map_some, Option.some.injEq, Prod.mk.injEq] at h
          obtain ⟨rfl, rfl⟩ := h
          exact construct_checksum sha256 data none cs hcs r2 hc
  have hd0 : ∃ cbor, cborEncode d0 = some cbor ∧ bc32encode (sha256 cbor) = some cs := by
    unfold bcurEncode at h0
    cases hc : cborEncode d0 with
    | none => simp [hc] at h0
    | some cbor =>
      cases h1 : bc32encode cbor with
      | none => simp [hc, h1] at h0
      | some e1 =>
        cases h2 : bc32encode (sha256 cbor) with
        | none => simp [hc, h1, h2] at h0
        | some e2 =>
          simp [hc, h1, h2] at h0
          exact ⟨cbor, rfl, by rw [h2, h0.2]⟩
  exact checksum_collision sha256 d d0 cs hd hd0

/-- the same for BCURSingle.parse of a string that carries a checksum field -/
theorem single_collision_extraction (sha256 : Bytes → Bytes) (s : Str) (d : Bytes) (p : Parsed) (cs : Str) (hcs : cs ≠ [])
    (hp : parseBcurHelper s = some p) (hpc : p.checksum = some cs) (h : singleParse sha256 s = some d)
    (d0 : Bytes) (enc0 : Str) (h0 : bcurEncode sha256 d0 = some (enc0, cs)) :
    d = d0 ∨ ∃ c c0 : Bytes, c ≠ c0 ∧ sha256 c = sha256 c0 := by
  have hd : ∃ cbor, cborEncode d = some cbor ∧ bc32encode (sha256 cbor) = some cs := by
    unfold singleParse at h
    rw [hp] at h
    simp only at h
    split at h
    · cases h
    · cases hdec : bcurDecode sha256 p.payload p.checksum with
      | none => simp [hdec] at h
      | some data =>
        rw [hdec] at h
        simp only at h
        cases hc : construct sha256 data (some p.payload) p.checksum with
        | none => simp [hc] at h
        | some r2 =>
          simp only [hc, Option.map_some, Option.some.injEq] at h
          subst h
          rw [hpc] at hc
          exact construct_checksum sha256 data (some p.payload) cs hcs r2 hc
  have hd0 : ∃ cbor, cborEncode d0 = some cbor ∧ bc32encode (sha256 cbor) = some cs := by
    unfold bcurEncode at h0
    cases hc : cborEncode d0 with
    | none => simp [hc] at h0
    | some cbor =>
      cases h1 : bc32encode cbor with
      | none => simp [hc, h1] at h0
      | some e1 =>
        cases h2 : bc32encode (sha256 cbor) with
        | none => simp [hc, h1, h2] at h0
        | some e2 =>
          simp [hc, h1, h2] at h0
          exact ⟨cbor, rfl, by rw [h2, h0.2]⟩
  exact checksum_collision sha256 d d0 cs hd hd0

/-! ## unique decodability (corollaries of the round trips) -/

/-- bc32 text encoding is injective: two payloads with the same bc32 text are equal -/
theorem bc32_encode_injective (d₁ d₂ : Bytes) (s : Str) (h₁ : bc32encode d₁ = some s) (h₂ : bc32encode d₂ = some s) :
    d₁ = d₂ := by
  have a := bc32_roundtrip d₁ s h₁
  rw [bc32_roundtrip d₂ s h₂] at a
  exact (Option.some.inj a).symm

/-- single-part UR text is injective in the payload (with or without the checksum field) -/
theorem single_encode_injective (sha256 : Bytes → Bytes) (hh : ∀ b, (sha256 b).length = 32) (d₁ d₂ : Bytes)
    (h₁ : d₁.length < 2 ^ 32) (h₂ : d₂.length < 2 ^ 32) (c : Bool) (s : Str)
    (e₁ : singleEncode sha256 d₁ c = some s) (e₂ : singleEncode sha256 d₂ c = some s) : d₁ = d₂ := by
  obtain ⟨t₁, a₁, p₁⟩ := single_roundtrip sha256 hh d₁ h₁ c
  obtain ⟨t₂, a₂, p₂⟩ := single_roundtrip sha256 hh d₂ h₂ c
  rw [e₁] at a₁; rw [e₂] at a₂; cases a₁; cases a₂
  rw [p₂] at p₁; exact (Option.some.inj p₁).symm

/-- multi-part UR: the list of parts determines the payload -/
theorem multi_encode_injective (sha256 : Bytes → Bytes) (hh : ∀ b, (sha256 b).length = 32) (d₁ d₂ : Bytes)
    (h₁ : d₁.length < 2 ^ 32) (h₂ : d₂.length < 2 ^ 32) (m₁ m₂ : Nat) (hm₁ : 1 ≤ m₁) (hm₂ : 1 ≤ m₂) (a₁ a₂ : Bool)
    (parts : List Str)
    (e₁ : multiEncode sha256 d₁ m₁ a₁ = some parts) (e₂ : multiEncode sha256 d₂ m₂ a₂ = some parts) : d₁ = d₂ := by
  obtain ⟨q₁, _, _, _, x₁, p₁⟩ := multi_roundtrip sha256 hh d₁ h₁ m₁ hm₁ a₁
  obtain ⟨q₂, _, _, _, x₂, p₂⟩ := multi_roundtrip sha256 hh d₂ h₂ m₂ hm₂ a₂
  rw [e₁] at x₁; rw [e₂] at x₂; cases x₁; cases x₂
  rw [p₂] at p₁
  exact (Prod.mk.inj (Option.some.inj p₁)).1.symm
end Buidl.Props.C20
