/-
  C09 — Address and key text encodings invert exactly and reject what the specs reject.
  Property theorems only (helper lemmas: Buidl.Proofs.Base58, Base58Check, Polymod, Regroup,
  Bech32, Bech32Addr, Address, AddressDispatch).  Models: Buidl.Model.Base58 / Bech32 / Address
  (constants from Buidl.Gen.*, re-extracted from /repo on every run).  `hash256` is an
  arbitrary function; where its output length matters the hypothesis says so (the real one
  returns 32 bytes).
-/
import Buidl.Proofs.AddressDispatch
import Buidl.Proofs.Bech32Switch
import Buidl.Proofs.Bech32Sound
import Buidl.Proofs.ToAddressSound
namespace Buidl.Props.C09
open Buidl Buidl.Base58 Buidl.Bech32 Buidl.Address

/-! ## the extracted tables are those of the specifications -/

/-- BIP173 generator and character set, the BIP173 / BIP350 checksum constants on both the
    creating and the verifying side, Bitcoin's Base58 alphabet, the address / WIF version bytes -/
theorem spec_constants :
    Gen.bech32Gen = [0x3b6a57b2, 0x26508e6d, 0x1ea119fa, 0x3d4233dd, 0x2a1462b3] ∧
    Gen.bech32Alphabet = "qpzry9x8gf2tvdw0s3jn54khce6mua7l" ∧
    Gen.b32VerifyConst = 1 ∧ Gen.b32ChkXor = 1 ∧ Gen.b32mVerifyConst = 0x2bc830a3 ∧ Gen.b32mChkXor = 0x2bc830a3 ∧
    Gen.base58Alphabet = "123456789ABCDEFGHJKLMNPQRSTUVWXYZabcdefghijkmnopqrstuvwxyz" ∧
    Gen.p2pkhVersionMain = 0x00 ∧ Gen.p2pkhVersionOther = 0x6f ∧ Gen.p2shVersionMain = 0x05 ∧ Gen.p2shVersionOther = 0xc4 ∧
    Gen.wifVersionMain = 0x80 ∧ Gen.wifVersionOther = 0xef := by decide

/-! ## Base58 -/

/-- the encoder is defined exactly on non-empty byte strings (`int("", 16)` raises) -/
theorem base58_encode_domain (b : Bytes) : (encodeBase58 b).isSome ↔ b ≠ [] := by
  constructor
  · intro h e; subst e; simp [encodeBase58] at h
  · intro h
    cases b with
    | nil => exact absurd rfl h
    | cons v t =>
      unfold encodeBase58
      rw [if_neg (by simp)]
      simp only [Gen.b58EncBase]
      rw [digitsBE_eq 58 (by omega) _ _ _ (Nat.le_refl _)]
      have hlt : ∀ d ∈ (Nat.digits 58 (beToNat (v :: t))).reverse ++ [], d < 58 := by
        intro d hd
        simp only [List.append_nil, List.mem_reverse] at hd
        exact Nat.digits_lt_base (by omega) hd
      rw [lookupAll_eq _ hlt]
      rfl

/-- decoding inverts encoding for every byte string, leading zero bytes included
    (`decodeCombined` is `raw_decode_base58` before its checksum test) -/
theorem base58_decode_encode (b : Bytes) (s : Str) (h : encodeBase58 b = some s) : decodeCombined s = some b :=
  decodeCombined_encodeBase58 b s h

/-- and encoding inverts decoding: a string is the text of exactly one byte string -/
theorem base58_encode_decode (s : Str) (c : Bytes) (h : decodeCombined s = some c) (hc : c ≠ []) :
    encodeBase58 c = some s :=
  encodeBase58_decodeCombined s c h hc

/-- Base58Check round trip -/
theorem base58check_roundtrip (hash256 : Bytes → Bytes) (hh : ∀ b, 4 ≤ (hash256 b).length) (p : Bytes) (s : Str)
    (h : encodeBase58Checksum hash256 p = some s) : rawDecodeBase58 hash256 s = some p :=
  rawDecodeBase58_encodeBase58Checksum hash256 hh p s h

/-- a Base58Check string is accepted, with payload `p`, exactly when it is the Base58 text of
    `p ‖ hash256(p)[:4]` -/
theorem base58check_accept_iff (hash256 : Bytes → Bytes) (hh : ∀ b, 4 ≤ (hash256 b).length) (s : Str) (p : Bytes) :
    rawDecodeBase58 hash256 s = some p ↔ encodeBase58Checksum hash256 p = some s :=
  rawDecodeBase58_eq_some_iff hash256 hh s p

/-- acceptance in terms of the decoded bytes: the last four bytes must be the first four bytes
    of hash256 of the rest; anything else (and any foreign character) is refused -/
theorem base58check_checksum (hash256 : Bytes → Bytes) (s : Str) :
    rawDecodeBase58 hash256 s =
      match decodeCombined s with
      | none => none
      | some c => if (hash256 (pyButLast 4 c)).take 4 = pyLast 4 c then some (pyButLast 4 c) else none := by
  unfold rawDecodeBase58
  cases decodeCombined s with
  | none => rfl
  | some c =>
    simp only [Gen.b58DecChecksumTail, Gen.b58DecHashedCut, Gen.b58DecHashWidth, Gen.b58DecReturnCut]
    by_cases h : (hash256 (pyButLast 4 c)).take 4 = pyLast 4 c <;> simp [h]

example : encodeBase58 [0, 0, 1, 2, 3] = some "11Ldp".toList ∧ decodeCombined "11Ldp".toList = some [0, 0, 1, 2, 3] := by
  decide

/-- a string that gets past the decoding loop consists of Base58 characters only -/
theorem base58_decode_chars (s : Str) (c : Bytes) (h : decodeCombined s = some c) : ∀ x ∈ s, x ∈ Base58.alphabet :=
  decodeCombined_chars h

/-! ## Bech32 / Bech32m -/

/-- the bech32 constant is 1, the bech32m constant 0x2bc830a3 -/
theorem bech32_constants : constOf 0 = 1 ∧ ∀ v, v ≠ 0 → constOf v = 0x2bc830a3 := by
  refine ⟨rfl, fun v hv => ?_⟩
  simp [constOf, hv, Gen.b32mVerifyConst]

/-- polymod is linear over XOR: for words of equal length the checksum of the XOR, started
    from the XOR of the start states, is the XOR of the checksums -/
theorem polymod_affine (vs ws : List Nat) (h : vs.length = ws.length) (a b : Nat) :
    polymodFrom (a ^^^ b) (List.zipWith (· ^^^ ·) vs ws) = polymodFrom a vs ^^^ polymodFrom b ws :=
  polymodFrom_xor vs ws h a b

/-- the per-step map of the checksum register is injective on the top five bits:
    the low five bits of the generator mix determine them -/
theorem polymod_step_injective : ∀ b < 32, ∀ b' < 32,
    (term b 0 ^^^ term b 1 ^^^ term b 2 ^^^ term b 3 ^^^ term b 4) % 32 =
    (term b' 0 ^^^ term b' 1 ^^^ term b' 2 ^^^ term b' 3 ^^^ term b' 4) % 32 → b = b' :=
  mix_low5_injective

/-- ANY single substituted symbol changes the checksum, whatever the length, prefix and suffix -/
theorem polymod_single_substitution (pre post : List Nat) (x y : Nat) (hx : x < 32) (hy : y < 32) (hxy : x ≠ y) :
    polymod (pre ++ x :: post) ≠ polymod (pre ++ y :: post) :=
  polymodFrom_single _ pre post x y (by omega) (by omega) hxy

/-- any two substituted symbols at distance ≤ 89 change the checksum -/
theorem polymod_double_substitution (pre mid post : List Nat) (x y x' y' : Nat)
    (hx : x < 32) (hy : y < 32) (hx' : x' < 32) (hy' : y' < 32) (hxy : x ≠ y) (hxy' : x' ≠ y') (hmid : mid.length < 89) :
    polymod (pre ++ x :: mid ++ x' :: post) ≠ polymod (pre ++ y :: mid ++ y' :: post) :=
  polymodFrom_double _ pre mid post x y x' y' hx hy hx' hy' hxy hxy' hmid

/-- `group_32`: ⌈8L/5⌉ five-bit groups, value = value of the bytes shifted by the padding -/
theorem group32_value (s : Bytes) (hs : s ≠ []) :
    ∃ pad, pad < 5 ∧ (group32 s).length * 5 = 8 * s.length + pad ∧
      valBE 32 (group32 s) = beToNat s * 2 ^ pad ∧ ∀ d ∈ group32 s, d < 32 :=
  group32_spec s hs

/-- Round trip: for every supported network, witness version 0..16 and program of 2..40 bytes,
    `encode_bech32_checksum` succeeds and `decode_bech32` returns the network (signet shares
    the testnet prefix), the version and the program. -/
theorem bech32_roundtrip (net : Str) (hnet : KnownNet net) (v : Nat) (hv : v ≤ 16) (prog : Bytes)
    (hlen : 2 ≤ prog.length ∧ prog.length ≤ 40) :
    ∃ s, encodeBech32Checksum (vbyte v :: UInt8.ofNat prog.length :: prog) net = some s ∧
      decodeBech32 s = some (netBack net, v, prog) := by
  obtain ⟨hx, hhx⟩ := hrpExpand_known net
  have hne : prog ≠ [] := by intro e; rw [e] at hlen; simp at hlen
  exact ⟨_, encode_segwit hnet hhx v hv prog hne (by omega), decode_segwit hnet hhx v (by omega) prog hlen⟩

/-- Constant selection on the encoding side: the address written for version `v` is
    `hrp ‖ "1" ‖ data` where the checksum of `hrp_expand(hrp) ‖ data` is the bech32 constant 1
    for version 0 and the bech32m constant for every other version. -/
theorem bech32_encode_constant (net : Str) (hnet : KnownNet net) (v : Nat) (hv : v ≤ 16) (prog : Bytes)
    (hne : prog ≠ []) (hlen : prog.length < 256) :
    ∃ hx data, hrpExpand (hrpOf net) = some hx ∧
      encodeBech32Checksum (vbyte v :: UInt8.ofNat prog.length :: prog) net = some (hrpOf net ++ '1' :: data.map b32char) ∧
      data.head? = some v ∧ polymod (hx ++ data) = constOf v := by
  obtain ⟨hx, hhx⟩ := hrpExpand_known net
  refine ⟨hx, addrData hx v prog, hhx, encode_segwit hnet hhx v hv prog hne hlen, rfl, ?_⟩
  obtain ⟨_, _, _, _, hg⟩ := group32_spec prog hne
  have hxlt : ∀ w ∈ hx ++ v :: group32 prog, w < 2 ^ 30 := by
    intro w hw
    rcases List.mem_append.mp hw with hw | hw
    · have := hrpExpand_lt hhx w hw; omega
    · rcases List.mem_cons.mp hw with rfl | hw
      · omega
      · have := hg w hw; omega
  have := polymod_create (hx ++ v :: group32 prog) hxlt (constOf v) (constOf_lt v)
  rw [← this]
  unfold addrData
  congr 1
  simp

/-- Constant selection on the decoding side: whatever `decode_bech32` accepts with version `v`
    has, over `hrp_expand(hrp) ‖ data`, the checksum constant of `v` (1 for version 0,
    0x2bc830a3 otherwise), `v` being the first data symbol. -/
theorem bech32_decode_constant (s : Str) (r : Str × Nat × Bytes) (h : decodeBech32 s = some r) :
    ∃ hrp raw hx res, splitHrp s = some (hrp, raw) ∧ hrpExpand hrp = some hx ∧
      raw.mapM (fun c => indexOf? c Bech32.alphabet) = some res ∧ res.head? = some r.2.1 ∧
      polymod (hx ++ res) = constOf r.2.1 := by
  unfold decodeBech32 at h
  cases hs : splitHrp s with
  | none => rw [hs] at h; cases h
  | some p =>
    obtain ⟨hrp, raw⟩ := p
    rw [hs] at h
    obtain ⟨hx, res, dtail, hhx, hm, hres, hpm⟩ := decodeBody_some h
    exact ⟨hrp, raw, hx, res, rfl, hhx, hm, by rw [hres]; rfl, hpm⟩

/-- One substituted character in the data part of a valid segwit address: refused, at every
    length.  If the substituted character is the first data character (the witness version) and
    the substitution switches between `q` (version 0) and another character, the checksum
    constant switches too; that case is covered for at most 89 characters after it. -/
theorem bech32_single_substitution (net : Str) (pre post : Str) (x y : Char) (hxy : x ≠ y) (r : Str × Nat × Bytes)
    (h : decodeBech32 (hrpOf net ++ '1' :: (pre ++ x :: post)) = some r)
    (hcase : pre ≠ [] ∨ (x = 'q' ↔ y = 'q') ∨ post.length ≤ 89) :
    decodeBech32 (hrpOf net ++ '1' :: (pre ++ y :: post)) = none := by
  have key : ∀ hrp : Str,
      (∀ chars, splitHrp (hrp ++ '1' :: chars) = some (hrp, chars) ∨ splitHrp (hrp ++ '1' :: chars) = none) →
      decodeBech32 (hrp ++ '1' :: (pre ++ x :: post)) = some r →
      decodeBech32 (hrp ++ '1' :: (pre ++ y :: post)) = none := by
    intro hrp hsplit h0
    unfold decodeBech32 at h0 ⊢
    rcases hsplit (pre ++ x :: post) with e | e
    · rw [e] at h0
      rcases hsplit (pre ++ y :: post) with e' | e'
      · rw [e']
        exact decodeBody_single_subst hrp pre post x y hxy r h0 hcase
      · rw [e']
    · rw [e] at h0; cases h0
  apply key (hrpOf net) _ h
  intro chars
  rcases hrpOf_cases net with e | e | e <;> rw [e]
  · rw [splitHrp_plain _ _ (by decide) (by simp [List.isPrefixOf])]
    by_cases h1 : '1' ∈ chars <;> simp [h1]
  · rw [splitHrp_plain _ _ (by decide) (by simp [List.isPrefixOf])]
    by_cases h1 : '1' ∈ chars <;> simp [h1]
  · exact Or.inl (splitHrp_regtest '1' chars)

/-- the same at the level of checksums when the target constant switches: two words differing
    in two symbols never have checksums that differ by `1 ⊕ 0x2bc830a3`, provided the first
    differing symbol is followed by at most 89 symbols (kernel table over the 2790 single-error
    syndromes, searched through a verified binary search tree) -/
theorem polymod_double_substitution_switch (pre mid post : List Nat) (x y x' y' : Nat)
    (hx : x < 32) (hy : y < 32) (hx' : x' < 32) (hy' : y' < 32) (hxy : x ≠ y) (hxy' : x' ≠ y')
    (hlen : mid.length + post.length + 1 ≤ 89) :
    polymod (pre ++ x :: mid ++ x' :: post) ^^^ polymod (pre ++ y :: mid ++ y' :: post) ≠ (1 ^^^ 0x2bc830a3) :=
  polymodFrom_double_switch _ pre mid post x y x' y' hx hy hx' hy' hxy hxy' hlen

/-- ANY two substituted characters in the data part of a valid segwit address are refused, when
    the first of them is followed by at most 89 characters — which covers every address of at
    most 90 characters.  This includes the case in which one of the two is the version
    character and the checksum constant switches between 1 and 0x2bc830a3. -/
theorem bech32_double_substitution (net : Str) (pre mid post : Str) (x y x' y' : Char) (hxy : x ≠ y) (hxy' : x' ≠ y')
    (r : Str × Nat × Bytes)
    (h : decodeBech32 (hrpOf net ++ '1' :: (pre ++ x :: mid ++ x' :: post)) = some r)
    (hlen : mid.length + post.length + 1 ≤ 89) :
    decodeBech32 (hrpOf net ++ '1' :: (pre ++ y :: mid ++ y' :: post)) = none := by
  have key : ∀ hrp : Str,
      (∀ chars, splitHrp (hrp ++ '1' :: chars) = some (hrp, chars) ∨ splitHrp (hrp ++ '1' :: chars) = none) →
      decodeBech32 (hrp ++ '1' :: (pre ++ x :: mid ++ x' :: post)) = some r →
      decodeBech32 (hrp ++ '1' :: (pre ++ y :: mid ++ y' :: post)) = none := by
    intro hrp hsplit h0
    unfold decodeBech32 at h0 ⊢
    rcases hsplit (pre ++ x :: mid ++ x' :: post) with e | e
    · rw [e] at h0
      rcases hsplit (pre ++ y :: mid ++ y' :: post) with e' | e'
      · rw [e']
        exact decodeBody_double_subst_any hrp pre mid post x y x' y' hxy hxy' r h0 hlen
      · rw [e']
    · rw [e] at h0; cases h0
  apply key (hrpOf net) _ h
  intro chars
  rcases hrpOf_cases net with e | e | e <;> rw [e]
  · rw [splitHrp_plain _ _ (by decide) (by simp [List.isPrefixOf])]
    by_cases h1 : '1' ∈ chars <;> simp [h1]
  · rw [splitHrp_plain _ _ (by decide) (by simp [List.isPrefixOf])]
    by_cases h1 : '1' ∈ chars <;> simp [h1]
  · exact Or.inl (splitHrp_regtest '1' chars)

/-- What `decode_bech32` accepts: every data character is in the (lower-case) bech32 alphabet,
    the version is below 32 (observation O09b: versions 17..31 are not refused) and the program
    has 2..40 bytes. -/
theorem bech32_decode_sound (s : Str) (r : Str × Nat × Bytes) (h : decodeBech32 s = some r) :
    ∃ hrp raw, splitHrp s = some (hrp, raw) ∧ (∀ c ∈ raw, c ∈ Bech32.alphabet) ∧
      r.2.1 < 32 ∧ 2 ≤ r.2.2.length ∧ r.2.2.length ≤ 40 := by
  unfold decodeBech32 at h
  cases hs : splitHrp s with
  | none => rw [hs] at h; cases h
  | some p =>
    obtain ⟨hrp, raw⟩ := p
    rw [hs] at h
    exact ⟨hrp, raw, rfl, decodeBody_chars h, decodeBody_bounds h⟩

/-- The decoder looks characters up in the lower-case alphabet without case folding: a data part
    containing an upper-case letter (or any other foreign character) is refused.  (BIP173 also
    allows the all-upper-case form; this code does not implement it — observation O09c.) -/
theorem bech32_uppercase_rejected (hrp raw : Str) (c : Char) (hc : c ∈ raw) (h1 : 'A' ≤ c) (h2 : c ≤ 'Z') :
    decodeBody hrp raw = none := by
  cases h : decodeBody hrp raw with
  | none => rfl
  | some r => exact absurd (decodeBody_chars h c hc) (upper_not_in_alphabet c h1 h2)


/-- the BIP173 test address is accepted, so the hypothesis of the substitution theorems
    (a valid address of the shape `hrp ‖ "1" ‖ data`) is satisfiable -/
example : hrpOf mainnet ++ '1' :: ("qw508d6qejxtdg4y5r3zarvary0c5xw7kv8f3t".toList ++ '4' :: []) =
      "bc1qw508d6qejxtdg4y5r3zarvary0c5xw7kv8f3t4".toList ∧
    (decodeBech32 "bc1qw508d6qejxtdg4y5r3zarvary0c5xw7kv8f3t4".toList).map (fun r => (r.1, r.2.1, r.2.2.length)) =
      some (mainnet, 0, 20) ∧
    decodeBech32 "bc1qw508d6qejxtdg4y5r3zarvary0c5xw7kv8f3t5".toList = none := by decide +kernel

/-- a hash function as the theorems about Base58Check assume it (32 bytes out) exists -/
example : ∃ h : Bytes → Bytes, ∀ b, (h b).length = 32 := ⟨fun _ => List.replicate 32 0, fun _ => by simp⟩

example : KnownNet mainnet ∧ KnownNet regtest ∧ hrpOf signet = ['t', 'b'] ∧ netBack signet = testnet :=
  ⟨Or.inl rfl, Or.inr (Or.inr (Or.inr rfl)), by decide, by decide⟩

/-! ## WIF -/

/-- WIF round trip: for every secret in 1..N-1, compressed or not, on any network name, the
    text parses back to the secret, the compression flag and the network class
    ("mainnet" for mainnet, "testnet" for everything else — the format has two version bytes) -/
theorem wif_roundtrip (hash256 : Bytes → Bytes) (hh : ∀ b, (hash256 b).length = 32) (secret : Nat)
    (hlo : 1 ≤ secret) (hhi : secret ≤ Gen.privMaxSecret) (net : Str) (compressed : Bool) :
    ∃ s, wif hash256 secret net compressed = some s ∧
      wifParse hash256 s = some (secret, if net = mainnet then mainnet else testnet, compressed) := by
  obtain ⟨s, hs⟩ := wif_isSome hash256 secret hlo hhi net compressed
  refine ⟨s, hs, ?_⟩
  have := wif_parse_roundtrip hash256 hh secret hlo hhi net compressed s hs
  rw [this]
  have e1 : Gen.wifMainnetName.toList = mainnet := by decide
  have e2 : Gen.wifParseMainName.toList = mainnet := by decide
  have e3 : Gen.wifParseTestName.toList = testnet := by decide
  rw [e1, e2, e3]

example : (1 : Nat) ≤ Gen.privMaxSecret := by decide

/-! ## scriptPubKey ↔ address, per template and network -/

/-- P2PKH: `address_to_script_pubkey (address spk net) = spk` for every 20-byte hash and network.
    The first-character dispatch is justified: version 0x00 always gives '1', version 0x6f
    always 'm' or 'n' (`base58_first_char`). -/
theorem address_roundtrip_p2pkh (hash256 : Bytes → Bytes) (hh : ∀ b, (hash256 b).length = 32) (net : Str) (h : Bytes)
    (hl : h.length = 20) :
    ∃ s, address hash256 (.p2pkh h) net = some s ∧ addressToScriptPubkey hash256 s = some (.p2pkh h) ∧
      toAddress segPrefixesRepaired hash256 s = some (.p2pkh h) ∧ toAddress segPrefixesAsIs hash256 s = some (.p2pkh h) := by
  have hmain : Gen.p2pkhMainnetName.toList = mainnet := by decide
  by_cases hn : net = mainnet
  · obtain ⟨s, hs⟩ := encodeBase58Checksum_isSome hash256 0x00 h
    have hfc := (base58_first_char hash256 hh 0x00 h hl s hs).1 rfl
    have hdec := decodeBase58_encode hash256 hh 0x00 h s hs
    refine ⟨s, by simp [address, hmain, hn, Gen.p2pkhVersionMain]; exact hs, ?_, ?_, ?_⟩
    · rw [a2s_base58 hash256 s '1' hfc, if_pos (by decide), hdec]; rfl
    · rw [toAddress_base58 _ hash256 s '1' hfc (no_segwit_prefix _ (Or.inr rfl) s '1' hfc (by decide)),
        if_neg (by decide), if_pos (by decide), hdec]
      simp [hl, Gen.toAddrP2pkhLen]
    · rw [toAddress_base58 _ hash256 s '1' hfc (no_segwit_prefix _ (Or.inl rfl) s '1' hfc (by decide)),
        if_neg (by decide), if_pos (by decide), hdec]
      simp [hl, Gen.toAddrP2pkhLen]
  · obtain ⟨s, hs⟩ := encodeBase58Checksum_isSome hash256 0x6f h
    have hdec := decodeBase58_encode hash256 hh 0x6f h s hs
    refine ⟨s, by simp [address, hmain, hn, Gen.p2pkhVersionOther]; exact hs, ?_⟩
    rcases (base58_first_char hash256 hh 0x6f h hl s hs).2.1 rfl with hfc | hfc
    · refine ⟨?_, ?_, ?_⟩
      · rw [a2s_base58 hash256 s 'm' hfc, if_pos (by decide), hdec]; rfl
      · rw [toAddress_base58 _ hash256 s 'm' hfc (no_segwit_prefix _ (Or.inr rfl) s 'm' hfc (by decide)),
          if_neg (by decide), if_pos (by decide), hdec]
        simp [hl, Gen.toAddrP2pkhLen]
      · rw [toAddress_base58 _ hash256 s 'm' hfc (no_segwit_prefix _ (Or.inl rfl) s 'm' hfc (by decide)),
          if_neg (by decide), if_pos (by decide), hdec]
        simp [hl, Gen.toAddrP2pkhLen]
    · refine ⟨?_, ?_, ?_⟩
      · rw [a2s_base58 hash256 s 'n' hfc, if_pos (by decide), hdec]; rfl
      · rw [toAddress_base58 _ hash256 s 'n' hfc (no_segwit_prefix _ (Or.inr rfl) s 'n' hfc (by decide)),
          if_neg (by decide), if_pos (by decide), hdec]
        simp [hl, Gen.toAddrP2pkhLen]
      · rw [toAddress_base58 _ hash256 s 'n' hfc (no_segwit_prefix _ (Or.inl rfl) s 'n' hfc (by decide)),
          if_neg (by decide), if_pos (by decide), hdec]
        simp [hl, Gen.toAddrP2pkhLen]

/-- P2SH: version 0x05 always gives '3', version 0xc4 always '2' -/
theorem address_roundtrip_p2sh (hash256 : Bytes → Bytes) (hh : ∀ b, (hash256 b).length = 32) (net : Str) (h : Bytes)
    (hl : h.length = 20) :
    ∃ s, address hash256 (.p2sh h) net = some s ∧ addressToScriptPubkey hash256 s = some (.p2sh h) ∧
      toAddress segPrefixesRepaired hash256 s = some (.p2sh h) ∧ toAddress segPrefixesAsIs hash256 s = some (.p2sh h) := by
  have hmain : Gen.p2shMainnetName.toList = mainnet := by decide
  by_cases hn : net = mainnet
  · obtain ⟨s, hs⟩ := encodeBase58Checksum_isSome hash256 0x05 h
    have hfc := (base58_first_char hash256 hh 0x05 h hl s hs).2.2.1 rfl
    have hdec := decodeBase58_encode hash256 hh 0x05 h s hs
    refine ⟨s, by simp [address, hmain, hn, Gen.p2shVersionMain]; exact hs, ?_, ?_, ?_⟩
    · rw [a2s_base58 hash256 s '3' hfc, if_neg (by decide), if_pos (by decide), hdec]; rfl
    · rw [toAddress_base58 _ hash256 s '3' hfc (no_segwit_prefix _ (Or.inr rfl) s '3' hfc (by decide)),
        if_pos (by decide), hdec]
      simp [hl, Gen.toAddrP2shLen]
    · rw [toAddress_base58 _ hash256 s '3' hfc (no_segwit_prefix _ (Or.inl rfl) s '3' hfc (by decide)),
        if_pos (by decide), hdec]
      simp [hl, Gen.toAddrP2shLen]
  · obtain ⟨s, hs⟩ := encodeBase58Checksum_isSome hash256 0xc4 h
    have hfc := (base58_first_char hash256 hh 0xc4 h hl s hs).2.2.2 rfl
    have hdec := decodeBase58_encode hash256 hh 0xc4 h s hs
    refine ⟨s, by simp [address, hmain, hn, Gen.p2shVersionOther]; exact hs, ?_, ?_, ?_⟩
    · rw [a2s_base58 hash256 s '2' hfc, if_neg (by decide), if_pos (by decide), hdec]; rfl
    · rw [toAddress_base58 _ hash256 s '2' hfc (no_segwit_prefix _ (Or.inr rfl) s '2' hfc (by decide)),
        if_pos (by decide), hdec]
      simp [hl, Gen.toAddrP2shLen]
    · rw [toAddress_base58 _ hash256 s '2' hfc (no_segwit_prefix _ (Or.inl rfl) s '2' hfc (by decide)),
        if_pos (by decide), hdec]
      simp [hl, Gen.toAddrP2shLen]

/-- the first character of the Base58Check text of `version ‖ 20 bytes` for the four address
    version bytes: 0x00 → '1', 0x6f → 'm' or 'n', 0x05 → '3', 0xc4 → '2' (from the two endpoints
    of each version byte's range of 25-byte numbers) -/
theorem base58_first_char_dispatch (hash256 : Bytes → Bytes) (hh : ∀ b, (hash256 b).length = 32) (v : UInt8) (h : Bytes)
    (hl : h.length = 20) (s : Str) (he : encodeBase58Checksum hash256 (v :: h) = some s) :
    (v = 0x00 → s.take 1 = ['1']) ∧ (v = 0x6f → s.take 1 = ['m'] ∨ s.take 1 = ['n']) ∧
    (v = 0x05 → s.take 1 = ['3']) ∧ (v = 0xc4 → s.take 1 = ['2']) :=
  base58_first_char hash256 hh v h hl s he

/-- the segwit address of a template with witness version `v` (0 or 1) and a program of `L`
    bytes, through both consumers -/
theorem segwit_template (hash256 : Bytes → Bytes) (net : Str) (hnet : KnownNet net) (spk : Spk) (v : Nat) (prog : Bytes)
    (hprog : spk.rawSerialize = some (vbyte v :: UInt8.ofNat prog.length :: prog))
    (hcase : (v = 0 ∧ prog.length = 20 ∧ spk = .p2wpkh prog) ∨ (v = 0 ∧ prog.length = 32 ∧ spk = .p2wsh prog) ∨
      (v = 1 ∧ prog.length = 32 ∧ spk = .p2tr prog)) :
    ∃ s, address hash256 spk net = some s ∧ addressToScriptPubkey hash256 s = some spk ∧
      toAddress segPrefixesRepaired hash256 s = some spk ∧
      (net ≠ regtest → toAddress segPrefixesAsIs hash256 s = some spk) ∧
      (net = regtest → toAddress segPrefixesAsIs hash256 s = none) := by
  obtain ⟨hx, hhx⟩ := hrpExpand_known net
  have hv16 : v ≤ 16 := by rcases hcase with h | h | h <;> omega
  have hlen : 2 ≤ prog.length ∧ prog.length ≤ 40 := by rcases hcase with h | h | h <;> omega
  have hne : prog ≠ [] := by intro e; rw [e] at hlen; simp at hlen
  have henc := encode_segwit hnet hhx v hv16 prog hne (by omega)
  have hdec := decode_segwit hnet hhx v (by omega) prog hlen
  obtain ⟨pad, hpad, hslen, hsge⟩ := segwitAddr_length net hx v prog hne
  obtain ⟨rest, hrest⟩ := segwitAddr_eq net hx v prog
  have haddr : address hash256 spk net = some (segwitAddr net hx v prog) := by
    rcases hcase with ⟨_, _, rfl⟩ | ⟨_, _, rfl⟩ | ⟨_, _, rfl⟩ <;> simp only [address, hprog, henc]
  refine ⟨segwitAddr net hx v prog, haddr, ?_, ?_, ?_, ?_⟩
  · -- address_to_script_pubkey
    rcases hcase with ⟨rfl, hL, rfl⟩ | ⟨rfl, hL, rfl⟩ | ⟨rfl, hL, rfl⟩
    · have hlen42 : (segwitAddr net hx 0 prog).length = (hrpOf net).length + 40 := by omega
      have hq : b32char 0 = 'q' := by decide
      rw [hq] at hrest
      have hc : Gen.a2sWpkhLens.contains (segwitAddr net hx 0 prog).length = true := by
        rw [hlen42]; rcases hrpOf_length net with e | e <;> rw [e] <;> decide
      rw [hrest] at hc hdec ⊢
      rw [a2s_v0, if_pos hc, hdec]; rfl
    · have hlen62 : (segwitAddr net hx 0 prog).length = (hrpOf net).length + 60 := by omega
      have hq : b32char 0 = 'q' := by decide
      rw [hq] at hrest
      have hc1 : Gen.a2sWpkhLens.contains (segwitAddr net hx 0 prog).length = false := by
        rw [hlen62]; rcases hrpOf_length net with e | e <;> rw [e] <;> decide
      have hc2 : Gen.a2sWshLens.contains (segwitAddr net hx 0 prog).length = true := by
        rw [hlen62]; rcases hrpOf_length net with e | e <;> rw [e] <;> decide
      rw [hrest] at hc1 hc2 hdec ⊢
      rw [a2s_v0, if_neg (by rw [hc1]; decide), if_pos hc2, hdec]; rfl
    · have hlen62 : (segwitAddr net hx 1 prog).length = (hrpOf net).length + 60 := by omega
      have hp : b32char 1 = 'p' := by decide
      rw [hp] at hrest
      have hc : Gen.a2sTrLens.contains (segwitAddr net hx 1 prog).length = true := by
        rw [hlen62]; rcases hrpOf_length net with e | e <;> rw [e] <;> decide
      rw [hrest] at hc hdec ⊢
      rw [a2s_v1, if_neg (by rw [hc]; decide), hdec]; rfl
  · -- TxOut.to_address, repaired prefix list
    unfold segwitAddr at hdec ⊢
    rw [toAddress_segwit_repaired, hdec]
    rcases hcase with ⟨rfl, hL, rfl⟩ | ⟨rfl, hL, rfl⟩ | ⟨rfl, hL, rfl⟩ <;>
      simp [hL, Gen.toAddrV0, Gen.toAddrV1, Gen.toAddrV0LenA, Gen.toAddrV0LenB, Gen.toAddrV1Len]
  · -- TxOut.to_address as it is, networks other than regtest
    intro hnr
    have hhrp : hrpOf net ≠ ['b', 'c', 'r', 't'] := by
      rcases hnet with rfl | rfl | rfl | rfl
      · decide
      · decide
      · decide
      · exact absurd rfl hnr
    unfold segwitAddr at hdec ⊢
    rw [toAddress_segwit_asis _ _ hhrp, hdec]
    rcases hcase with ⟨rfl, hL, rfl⟩ | ⟨rfl, hL, rfl⟩ | ⟨rfl, hL, rfl⟩ <;>
      simp [hL, Gen.toAddrV0, Gen.toAddrV1, Gen.toAddrV0LenA, Gen.toAddrV0LenB, Gen.toAddrV1Len]
  · -- F09a
    intro hr
    subst hr
    have : hrpOf regtest = ['b', 'c', 'r', 't'] := by decide
    unfold segwitAddr
    rw [this]
    exact toAddress_asis_regtest hash256 _

/-- P2WPKH ↔ bech32 address, every network; `TxOut.to_address` with the repaired prefix list -/
theorem address_roundtrip_p2wpkh (hash256 : Bytes → Bytes) (net : Str) (hnet : KnownNet net) (h : Bytes) (hl : h.length = 20) :
    ∃ s, address hash256 (.p2wpkh h) net = some s ∧ addressToScriptPubkey hash256 s = some (.p2wpkh h) ∧
      toAddress segPrefixesRepaired hash256 s = some (.p2wpkh h) := by
  obtain ⟨s, h1, h2, h3, _⟩ := segwit_template hash256 net hnet (.p2wpkh h) 0 h (p2wpkh_program h (by omega))
    (Or.inl ⟨rfl, hl, rfl⟩)
  exact ⟨s, h1, h2, h3⟩

/-- P2WSH ↔ bech32 address -/
theorem address_roundtrip_p2wsh (hash256 : Bytes → Bytes) (net : Str) (hnet : KnownNet net) (h : Bytes) (hl : h.length = 32) :
    ∃ s, address hash256 (.p2wsh h) net = some s ∧ addressToScriptPubkey hash256 s = some (.p2wsh h) ∧
      toAddress segPrefixesRepaired hash256 s = some (.p2wsh h) := by
  obtain ⟨s, h1, h2, h3, _⟩ := segwit_template hash256 net hnet (.p2wsh h) 0 h (p2wsh_program h (by omega))
    (Or.inr (Or.inl ⟨rfl, hl, rfl⟩))
  exact ⟨s, h1, h2, h3⟩

/-- P2TR ↔ bech32m address -/
theorem address_roundtrip_p2tr (hash256 : Bytes → Bytes) (net : Str) (hnet : KnownNet net) (h : Bytes) (hl : h.length = 32) :
    ∃ s, address hash256 (.p2tr h) net = some s ∧ addressToScriptPubkey hash256 s = some (.p2tr h) ∧
      toAddress segPrefixesRepaired hash256 s = some (.p2tr h) := by
  obtain ⟨s, h1, h2, h3, _⟩ := segwit_template hash256 net hnet (.p2tr h) 1 h (p2tr_program h (by omega))
    (Or.inr (Or.inr ⟨rfl, hl, rfl⟩))
  exact ⟨s, h1, h2, h3⟩

/-- `TxOut.to_address` on a segwit address is sound: whatever it accepts decodes (checksum kind
    included) to one of the three (version, length) pairs the library has a script type for, and
    the script is that of THAT version: v0/20 → P2WPKH, v0/32 → P2WSH, v1/32 → P2TR -/
theorem toAddress_segwit_sound (hash256 : Bytes → Bytes) (net : Str) (rest : Str) (spk : Spk)
    (h : toAddress segPrefixesRepaired hash256 (hrpOf net ++ '1' :: rest) = some spk) :
    ∃ n v prog, decodeBech32 (hrpOf net ++ '1' :: rest) = some (n, v, prog) ∧
      ((v = 0 ∧ prog.length = 20 ∧ spk = .p2wpkh prog) ∨ (v = 0 ∧ prog.length = 32 ∧ spk = .p2wsh prog) ∨
       (v = 1 ∧ prog.length = 32 ∧ spk = .p2tr prog)) :=
  Address.toAddress_segwit_sound hash256 net rest spk h

/-- witness versions 2..16 (any version other than 0 and 1) and every other program length are
    refused by `TxOut.to_address`: several addresses never collapse onto one script -/
theorem toAddress_segwit_refuses (hash256 : Bytes → Bytes) (net : Str) (rest : Str) (n : Str) (v : Nat) (prog : Bytes)
    (hd : decodeBech32 (hrpOf net ++ '1' :: rest) = some (n, v, prog))
    (hbad : ¬ ((v = 0 ∧ (prog.length = 20 ∨ prog.length = 32)) ∨ (v = 1 ∧ prog.length = 32))) :
    toAddress segPrefixesRepaired hash256 (hrpOf net ++ '1' :: rest) = none :=
  Address.toAddress_segwit_refuses hash256 net rest n v prog hd hbad

/-- `address_to_script_pubkey` only looks at data parts that start with `q` (version 0) or `p`
    (version 1): an address whose version character is any other character is refused -/
theorem addressToScriptPubkey_other_version (hash256 : Bytes → Bytes) (net : Str) (c : Char) (rest : Str)
    (hq : c ≠ 'q') (hp : c ≠ 'p') :
    addressToScriptPubkey hash256 (hrpOf net ++ '1' :: c :: rest) = none := by
  have hq' : ¬ 'q' = c := fun e => hq e.symm
  have hp' : ¬ 'p' = c := fun e => hp e.symm
  rcases hrpOf_cases net with e | e | e <;> rw [e]
  · have t1 : (['b', 'c'] ++ '1' :: c :: rest).take 1 = ['b'] := rfl
    have t4 : (['b', 'c'] ++ '1' :: c :: rest).take 4 = ['b', 'c', '1', c] := rfl
    have t6 : (['b', 'c'] ++ '1' :: c :: rest).take 6 = 'b' :: 'c' :: '1' :: c :: rest.take 2 := rfl
    simp [addressToScriptPubkey, Gen.a2sW0, Gen.a2sW1, Gen.a2sW2, Gen.a2sW3, Gen.a2sW4, Gen.a2sW5, t1, t4, t6, inStrs,
      Gen.a2sP2pkhFirst, Gen.a2sP2shFirst, Gen.a2sV0Prefixes, Gen.a2sV1Prefixes, Gen.a2sV0Regtest, Gen.a2sV1Regtest, hq, hp, hq', hp']
  · have t1 : (['t', 'b'] ++ '1' :: c :: rest).take 1 = ['t'] := rfl
    have t4 : (['t', 'b'] ++ '1' :: c :: rest).take 4 = ['t', 'b', '1', c] := rfl
    have t6 : (['t', 'b'] ++ '1' :: c :: rest).take 6 = 't' :: 'b' :: '1' :: c :: rest.take 2 := rfl
    simp [addressToScriptPubkey, Gen.a2sW0, Gen.a2sW1, Gen.a2sW2, Gen.a2sW3, Gen.a2sW4, Gen.a2sW5, t1, t4, t6, inStrs,
      Gen.a2sP2pkhFirst, Gen.a2sP2shFirst, Gen.a2sV0Prefixes, Gen.a2sV1Prefixes, Gen.a2sV0Regtest, Gen.a2sV1Regtest, hq, hp, hq', hp']
  · have t1 : (['b', 'c', 'r', 't'] ++ '1' :: c :: rest).take 1 = ['b'] := rfl
    have t4 : (['b', 'c', 'r', 't'] ++ '1' :: c :: rest).take 4 = ['b', 'c', 'r', 't'] := rfl
    have t6 : (['b', 'c', 'r', 't'] ++ '1' :: c :: rest).take 6 = ['b', 'c', 'r', 't', '1', c] := rfl
    simp [addressToScriptPubkey, Gen.a2sW0, Gen.a2sW1, Gen.a2sW2, Gen.a2sW3, Gen.a2sW4, Gen.a2sW5, t1, t4, t6, inStrs,
      Gen.a2sP2pkhFirst, Gen.a2sP2shFirst, Gen.a2sV0Prefixes, Gen.a2sV1Prefixes, Gen.a2sV0Regtest, Gen.a2sV1Regtest, hq, hp, hq', hp']

/-- F09a, what holds for the source as it is today: `TxOut.to_address` inverts `.address` for
    the three segwit templates on every network except regtest.
    Full statement (holds for the repaired prefix list, see the three theorems above):
    the same for every `KnownNet net`. -/
theorem toAddress_roundtrip_partial (hash256 : Bytes → Bytes) (net : Str) (hnet : KnownNet net) (hnr : net ≠ regtest)
    (h : Bytes) :
    (h.length = 20 → ∃ s, address hash256 (.p2wpkh h) net = some s ∧ toAddress segPrefixesAsIs hash256 s = some (.p2wpkh h)) ∧
    (h.length = 32 → ∃ s, address hash256 (.p2wsh h) net = some s ∧ toAddress segPrefixesAsIs hash256 s = some (.p2wsh h)) ∧
    (h.length = 32 → ∃ s, address hash256 (.p2tr h) net = some s ∧ toAddress segPrefixesAsIs hash256 s = some (.p2tr h)) := by
  refine ⟨fun hl => ?_, fun hl => ?_, fun hl => ?_⟩
  · obtain ⟨s, h1, _, _, h4, _⟩ := segwit_template hash256 net hnet (.p2wpkh h) 0 h (p2wpkh_program h (by omega))
      (Or.inl ⟨rfl, hl, rfl⟩)
    exact ⟨s, h1, h4 hnr⟩
  · obtain ⟨s, h1, _, _, h4, _⟩ := segwit_template hash256 net hnet (.p2wsh h) 0 h (p2wsh_program h (by omega))
      (Or.inr (Or.inl ⟨rfl, hl, rfl⟩))
    exact ⟨s, h1, h4 hnr⟩
  · obtain ⟨s, h1, _, _, h4, _⟩ := segwit_template hash256 net hnet (.p2tr h) 1 h (p2tr_program h (by omega))
      (Or.inr (Or.inr ⟨rfl, hl, rfl⟩))
    exact ⟨s, h1, h4 hnr⟩

/-- F09a: with the prefix list of today's source, the regtest address of every P2WPKH script is
    accepted by `address_to_script_pubkey` and refused by `TxOut.to_address` -/
theorem F09a_witness (hash256 : Bytes → Bytes) (h : Bytes) (hl : h.length = 20) :
    ∃ s, address hash256 (.p2wpkh h) regtest = some s ∧ addressToScriptPubkey hash256 s = some (.p2wpkh h) ∧
      toAddress segPrefixesAsIs hash256 s = none := by
  obtain ⟨s, h1, h2, _, _, h5⟩ := segwit_template hash256 regtest (by unfold KnownNet; simp) (.p2wpkh h) 0 h
    (p2wpkh_program h (by omega)) (Or.inl ⟨rfl, hl, rfl⟩)
  exact ⟨s, h1, h2, h5 rfl⟩

/-- the two prefix lists: today's source and the repaired one -/
theorem F09a_lists : segPrefixesAsIs = ["bc1", "tb1"] ∧ segPrefixesRepaired = ["bc1", "tb1", "bcrt1"] := ⟨rfl, rfl⟩

/-! ## unique decodability (corollaries of the round trips) -/

/-- Base58 is injective: one text, one byte string -/
theorem base58_encode_injective (b₁ b₂ : Bytes) (s : Str) (h₁ : encodeBase58 b₁ = some s) (h₂ : encodeBase58 b₂ = some s) :
    b₁ = b₂ := by
  have a := base58_decode_encode b₁ s h₁
  rw [base58_decode_encode b₂ s h₂] at a
  exact (Option.some.inj a).symm

/-- Base58Check is injective in the payload -/
theorem base58check_injective (hash256 : Bytes → Bytes) (hh : ∀ b, 4 ≤ (hash256 b).length) (p₁ p₂ : Bytes) (s : Str)
    (h₁ : encodeBase58Checksum hash256 p₁ = some s) (h₂ : encodeBase58Checksum hash256 p₂ = some s) : p₁ = p₂ := by
  have a := base58check_roundtrip hash256 hh p₁ s h₁
  rw [base58check_roundtrip hash256 hh p₂ s h₂] at a
  exact (Option.some.inj a).symm

/-- two different Base58Check texts never decode to the same payload (decoding is injective on
    accepted strings) -/
theorem base58check_decode_injective (hash256 : Bytes → Bytes) (hh : ∀ b, 4 ≤ (hash256 b).length) (s₁ s₂ : Str) (p : Bytes)
    (h₁ : rawDecodeBase58 hash256 s₁ = some p) (h₂ : rawDecodeBase58 hash256 s₂ = some p) : s₁ = s₂ := by
  have a := (base58check_accept_iff hash256 hh s₁ p).1 h₁
  rw [(base58check_accept_iff hash256 hh s₂ p).1 h₂] at a
  exact (Option.some.inj a).symm

/-- segwit addresses: the text determines version and program (on one network) -/
theorem bech32_encode_injective (net : Str) (hnet : KnownNet net) (v₁ v₂ : Nat) (hv₁ : v₁ ≤ 16) (hv₂ : v₂ ≤ 16)
    (p₁ p₂ : Bytes) (hl₁ : 2 ≤ p₁.length ∧ p₁.length ≤ 40) (hl₂ : 2 ≤ p₂.length ∧ p₂.length ≤ 40) (s : Str)
    (e₁ : encodeBech32Checksum (vbyte v₁ :: UInt8.ofNat p₁.length :: p₁) net = some s)
    (e₂ : encodeBech32Checksum (vbyte v₂ :: UInt8.ofNat p₂.length :: p₂) net = some s) : v₁ = v₂ ∧ p₁ = p₂ := by
  obtain ⟨t₁, a₁, d₁⟩ := bech32_roundtrip net hnet v₁ hv₁ p₁ hl₁
  obtain ⟨t₂, a₂, d₂⟩ := bech32_roundtrip net hnet v₂ hv₂ p₂ hl₂
  rw [e₁] at a₁; rw [e₂] at a₂; cases a₁; cases a₂
  rw [d₂] at d₁
  have := Option.some.inj d₁
  simp only [Prod.mk.injEq] at this
  exact ⟨this.2.1.symm, this.2.2.symm⟩
end Buidl.Props.C09
