import Buidl.Model.Address
namespace Buidl.Props.C09
open Buidl Buidl.Base58

theorem stub_alphabet_length : alphabet.length = 58 := by decide

end Buidl.Props.C09
