/-
  C17 — Merkle roots, SPV inclusion proofs and header proof-of-work follow consensus.
  Property theorems only (helper lemmas: Buidl.Proofs.Merkle, Buidl.Proofs.Pow).
  The models are Buidl.Model.Merkle / Buidl.Model.Wire (constants and the shape of the tree-depth
  expression come from Buidl.Gen.Merkle, re-extracted from /repo on every run); the specifications
  are Buidl.Spec.Merkle (Bitcoin Core's ComputeMerkleRoot / CPartialMerkleTree / arith_uint256 / pow.cpp).
  `H` (hash256) is an arbitrary function; no injectivity is assumed anywhere: soundness is stated as
  collision extraction — the colliding pair is exhibited inside two explicit finite lists computed from the
  inputs (`CollisionBetween`), never claimed to exist among all strings (which would hold vacuously).
-/
import Buidl.Proofs.Merkle
import Buidl.Proofs.Pow
import Buidl.Proofs.Wire
import Buidl.Spec.Wire
namespace Buidl.Props.C17
open Buidl Buidl.Merkle Buidl.Spec.Merkle Buidl.Wire

/-! ## Merkle root -/

/-- helper.merkle_root computes Bitcoin's Merkle root: it equals ComputeMerkleRoot (pairwise hashing,
    the last element of an odd level paired with itself) and the hash of the top node of the tree -/
theorem merkle_root_eq_spec (H : Bytes → Bytes) (ids : List Bytes) (hne : ids ≠ []) :
    levelRoot H ids = some (treeRoot H ids) ∧
    merkleRoot H ids = some (treeRoot H ids, if ids.length > 1 then dupLast ids else ids) := by
  have h := levelRoot_eq_treeRoot H ids hne
  exact ⟨h, by rw [merkleRoot_eq, h]; rfl⟩

/-- helper.merkle_parent_level: one level of ComputeMerkleRoot (RuntimeError on a single hash), leaving the
    duplicated last hash in the caller's list -/
theorem merkle_parent_level_eq (H : Bytes → Bytes) (l : List Bytes) :
    merkleParentLevel H l = if l.length = 1 then none else some (levelUp H l, dupLast l) := by
  by_cases h : l.length = 1
  · rw [if_pos h]; unfold merkleParentLevel; rw [if_pos h]
  · rw [if_neg h]; exact merkleParentLevel_eq H l h

/-- an empty list has no root (IndexError) -/
theorem merkle_root_empty (H : Bytes → Bytes) : merkleRoot H [] = none := by
  rw [merkleRoot_eq]; rw [levelRoot]; rfl

/-- the in-place duplication: the caller's list is left with its last hash appended when it has an odd
    length greater than one — and calling merkle_root again on that list gives the same root and changes
    nothing more -/
theorem merkle_root_twice (H : Bytes → Bytes) (ids ids' : List Bytes) (r : Bytes)
    (h : merkleRoot H ids = some (r, ids')) : merkleRoot H ids' = some (r, ids') :=
  merkleRoot_again H ids ids' r h

/-- Block.validate_merkle_root -/
theorem validate_merkle_root_eq (H : Bytes → Bytes) (txHashes : List Bytes) (root : Bytes) (hne : txHashes ≠ []) :
    validateMerkleRoot H txHashes root = some (decide ((treeRoot H (txHashes.map List.reverse)).reverse = root)) := by
  unfold validateMerkleRoot
  rw [(merkle_root_eq_spec H (txHashes.map List.reverse) (by simpa using hne)).2]
  rfl

/-! ## tree sizing (code after fix F17a) -/

/-- `max_depth` is the integer ⌈log₂ total⌉: `total ≤ 2^d`, and `d` is the least such exponent -/
theorem tree_depth_ceil_log2 (total : Nat) (hn : 0 < total) : IsCeilLog2 total (maxDepth total) := by
  have h : maxDepth total = bitLength (total - 1) := by
    unfold maxDepth
    rw [if_neg (by decide), if_neg (by omega)]
  rw [h]; exact bitLength_pred_isCeilLog2 total hn

theorem tree_depth_eq_spec (total : Nat) (hn : 0 < total) : maxDepth total = ceilLog2 total :=
  ((ceilLog2_spec total).unique (tree_depth_ceil_log2 total hn)).symm

/-- level `d` holds ⌈total / 2^(max_depth - d)⌉ nodes: index `i` exists iff its first leaf does -/
theorem level_sizes (total d i : Nat) :
    i < levelSize total (maxDepth total) d ↔ i * 2 ^ (maxDepth total - d) < total :=
  lt_levelSize_iff total (maxDepth total) d i

/-- F17a, the behaviour before the fix: `math.ceil(math.log(total, 2))` evaluates to 30 at 2^29 and to 32 at
    2^31, which is not ⌈log₂ total⌉ -/
theorem F17a_witness : ¬ IsCeilLog2 (2 ^ 29) (floatCeilLog2 (2 ^ 29)) ∧ ¬ IsCeilLog2 (2 ^ 31) (floatCeilLog2 (2 ^ 31)) := by
  have h29 : bitLength (2 ^ 29 - 1) = 29 :=
    (bitLength_pred_isCeilLog2 (2 ^ 29) (by decide)).unique ⟨by decide, Or.inr (by decide)⟩
  have h31 : bitLength (2 ^ 31 - 1) = 31 :=
    (bitLength_pred_isCeilLog2 (2 ^ 31) (by decide)).unique ⟨by decide, Or.inr (by decide)⟩
  constructor
  · intro h
    have : floatCeilLog2 (2 ^ 29) = 30 := by unfold floatCeilLog2; rw [h29]; decide
    rw [this] at h
    rcases h.2 with h0 | h0
    · cases h0
    · exact absurd h0 (by decide)
  · intro h
    have : floatCeilLog2 (2 ^ 31) = 32 := by unfold floatCeilLog2; rw [h31]; decide
    rw [this] at h
    rcases h.2 with h0 | h0
    · cases h0
    · exact absurd h0 (by decide)

/-! ## BIP37 partial Merkle trees -/

/-- MerkleTree(total).populate_tree(flag_bits, hashes) — the cursor machine with its error branches — is
    BIP37's recursive parsing of a partial Merkle tree, for every count, flag list and hash list -/
theorem populate_eq_spec (H : Bytes → Bytes) (total : Nat) (flagBits : List Bool) (hashes : List Bytes) :
    populate H total flagBits hashes =
      match extractProof H total flagBits hashes with
      | none => .error
      | some (r, m) => .done r (m.map List.reverse) :=
  populate_eq_extractProof H total (tree_depth_ceil_log2 total) flagBits hashes

/-- the loop never runs out of its fuel -/
theorem populate_never_out_of_fuel (H : Bytes → Bytes) (total : Nat) (flagBits : List Bool) (hashes : List Bytes) :
    populate H total flagBits hashes ≠ .outOfFuel := by
  rw [populate_eq_spec]
  cases extractProof H total flagBits hashes with
  | none => simp
  | some p => simp

/-- one MerkleTree object used again: on a fresh tree `populate_tree` is `populate` … -/
theorem tree_reuse_fresh (H : Bytes → Bytes) (total : Nat) (flagBits : List Bool) (hashes : List Bytes) :
    (populateOn H (newTree total) flagBits hashes).2 = populate H total flagBits hashes :=
  populateOn_newTree H total flagBits hashes (populate_never_out_of_fuel H total flagBits hashes)

/-- … and on a tree whose root is already known it runs no iteration: it raises unless it is given no hash and no
    set flag bit, and leaves the tree — root and `proved_txs` — as it was (no stale or doubled results) -/
theorem tree_reuse_finished (H : Bytes → Bytes) (t : TreeSt) (r : Bytes) (flagBits : List Bool) (hashes : List Bytes)
    (hroot : t.get 0 0 = some (some r)) :
    populateOn H t flagBits hashes = ({ t with flagBits := flagBits, hashes := hashes },
      if hashes.length ≠ 0 then .error else if flagBits.any id then .error else .done r t.proved) :=
  populateOn_finished H t r flagBits hashes hroot

/-- bytes_to_bit_field inverts bit_field_to_bytes (flag bits are stored least significant bit first) -/
theorem bit_field_roundtrip (bits : List Bool) (bs : Bytes) (h : bitFieldToBytes bits = some bs) :
    bytesToBitField bs = bits :=
  bytesToBitField_bitFieldToBytes bits bs h

/-- the `merkleblock` message: MerkleBlock.parse inverts the protocol encoding (80-byte header, 4-byte count,
    CompactSize + 32-byte hashes in wire order, var-bytes flags), with any continuation -/
theorem merkleblock_parse_encode (hdr : Bytes) (total : Nat) (hashes : List Bytes) (flags rest e : Bytes)
    (hhdr : hdr.length = 80) (hh : ∀ x ∈ hashes, x.length = 32)
    (he : Spec.Wire.encodeMerkleBlock hdr total hashes flags = some e) :
    merkleBlockParse (e ++ rest) = some (((Header.parse hdr).1, total, hashes, flags), rest) := by
  simp only [Spec.Wire.encodeMerkleBlock, Option.pure_def, Option.bind_eq_bind] at he
  cases ht : natToLE total 4 with
  | none => rw [ht] at he; cases he
  | some t =>
    cases hv : encodeVarint hashes.length with
    | none => rw [ht, hv] at he; cases he
    | some v =>
      cases hf : encodeVarstr flags with
      | none => rw [ht, hv, hf] at he; cases he
      | some f =>
        rw [ht, hv, hf] at he
        simp only [Option.bind_some, Option.some.injEq] at he
        subst he
        have htl : t.length = 4 := natToLE_length ht
        have htv : leToNat t = total := leToNat_of_natToLE ht
        unfold encodeVarstr at hf
        cases hfl : encodeVarint flags.length with
        | none => rw [hfl] at hf; cases hf
        | some fl =>
          rw [hfl] at hf
          simp only [Option.map_some, Option.some.injEq] at hf
          subst hf
          simp only [merkleBlockParse, List.append_assoc, Header.parse_append _ _ hhdr,
            take_append_len _ _ 4 htl, drop_append_len _ _ 4 htl, htv,
            readVarint_encodeVarint _ _ _ hv, readN32rev_flatten hashes _ hh,
            readVarint_encodeVarint _ _ _ hfl, Option.pure_def, Option.bind_eq_bind, Option.bind_some,
            take_append_len _ _ _ rfl, drop_append_len _ _ _ rfl]

/-- COMPLETENESS: for every non-empty block and every match set, the partial Merkle tree built per BIP37
    validates against the block's Merkle root and yields exactly the matched ids, in block order -/
theorem bip37_complete (H : Bytes → Bytes) (txids : List Bytes) (matched : List Bool) (hne : txids ≠ [])
    (hm : matched.length = txids.length) :
    ∃ flags, bitFieldToBytes (buildProof H (txids.map List.reverse) matched).2.2 = some flags ∧
      isValid H (treeRoot H (txids.map List.reverse)).reverse (buildProof H (txids.map List.reverse) matched).1
        ((buildProof H (txids.map List.reverse) matched).2.1.map List.reverse) flags
        = .ok (some (true, matchedIds txids matched)) :=
  isValid_buildProof H txids matched hne hm (tree_depth_ceil_log2 _ (List.length_pos_iff.mpr hne))

/-- the same at the level of populate_tree (leaves in internal byte order) -/
theorem bip37_complete_tree (H : Bytes → Bytes) (ids : List Bytes) (matched : List Bool) (hne : ids ≠ [])
    (hm : matched.length = ids.length) :
    populate H (buildProof H ids matched).1 (buildProof H ids matched).2.2 (buildProof H ids matched).2.1
      = .done (treeRoot H ids) ((matchedIds ids matched).map List.reverse) :=
  populate_buildProof H ids matched hne hm (tree_depth_ceil_log2 _ (List.length_pos_iff.mpr hne))

/-- SOUNDNESS with collision extraction: if ANY (flags, hashes) — honest or altered — validates against the
    Merkle root of `ids` with the true transaction count, then every id it yields is one of the block's ids, or a
    hash256 collision is EXHIBITED between a string hashed while parsing the proof and a string hashed when
    computing the block's root (two explicit finite lists, `extractPre` and `calcPre`).  Hashes are 32 bytes long. -/
theorem bip37_sound (H : Bytes → Bytes) (hH : ∀ b, (H b).length = 32) (ids : List Bytes) (hne : ids ≠ [])
    (hids : ∀ y ∈ ids, y.length = 32) (flagBits : List Bool) (hashes : List Bytes) (hhs : ∀ y ∈ hashes, y.length = 32)
    (r : Bytes) (proved : List Bytes) (h : populate H ids.length flagBits hashes = .done r proved)
    (hr : r = treeRoot H ids) :
    (∀ t ∈ proved, t.reverse ∈ ids) ∨
      CollisionBetween H (extractPre H (ceilLog2 ids.length) ids.length flagBits hashes) (calcPre H (ceilLog2 ids.length) ids) := by
  have h0 : 0 < ids.length := List.length_pos_iff.mpr hne
  have := populate_sound H hH ids hne (tree_depth_ceil_log2 _ h0) hids flagBits hashes hhs r proved h hr
  rwa [tree_depth_eq_spec _ h0] at this

/-- soundness at the level of MerkleBlock.is_valid / proved_txs (object byte order) -/
theorem bip37_sound_merkleblock (H : Bytes → Bytes) (hH : ∀ b, (H b).length = 32) (txids : List Bytes) (hne : txids ≠ [])
    (hids : ∀ y ∈ txids, y.length = 32) (hashes : List Bytes) (hhs : ∀ y ∈ hashes, y.length = 32) (flags : Bytes)
    (proved : List Bytes)
    (h : isValid H (treeRoot H (txids.map List.reverse)).reverse txids.length hashes flags = .ok (some (true, proved))) :
    (∀ t ∈ proved, t ∈ txids) ∨
      CollisionBetween H
        (extractPre H (ceilLog2 txids.length) txids.length (bytesToBitField flags) (hashes.map List.reverse))
        (calcPre H (ceilLog2 txids.length) (txids.map List.reverse)) := by
  unfold isValid at h
  cases hp : populate H txids.length (bytesToBitField flags) (hashes.map List.reverse) with
  | outOfFuel => rw [hp] at h; cases h
  | error => rw [hp] at h; cases h
  | done r pv =>
    rw [hp] at h
    simp only [Except.ok.injEq, Option.some.injEq, Prod.mk.injEq, decide_eq_true_eq] at h
    obtain ⟨hr, rfl⟩ := h
    have hr' : r = treeRoot H (txids.map List.reverse) := by
      have := congrArg List.reverse hr; simpa using this
    have hlen : (txids.map List.reverse).length = txids.length := by simp
    rw [← hlen] at hp
    have hs := bip37_sound H hH (txids.map List.reverse) (by simpa using hne) (by simpa using hids)
        (bytesToBitField flags) (hashes.map List.reverse) (by simpa using hhs) r pv hp hr'
    rw [hlen] at hs
    rcases hs with h1 | h2
    · left
      intro t ht
      have := h1 t ht
      obtain ⟨u, hu, hu2⟩ := List.mem_map.mp this
      have : u = t := by have := congrArg List.reverse hu2; simpa using this
      rw [← this]; exact hu
    · right; exact h2

/-- ALTERED HASHES: two proofs with the same count and flags that both validate against the same root carry the
    same hashes, or a hash256 collision is exhibited between the strings hashed while parsing the one and the
    other — altering any hash of a validating proof makes validation fail (up to exhibited collisions) -/
theorem bip37_altered_hash (H : Bytes → Bytes) (hH : ∀ b, (H b).length = 32) (total : Nat) (hn : 0 < total)
    (flagBits : List Bool) (hashes hashes' : List Bytes)
    (hl : ∀ y ∈ hashes, y.length = 32) (hl' : ∀ y ∈ hashes', y.length = 32) (r : Bytes) (p p' : List Bytes)
    (h : populate H total flagBits hashes = .done r p) (h' : populate H total flagBits hashes' = .done r p') :
    hashes = hashes' ∨
      CollisionBetween H (extractPre H (ceilLog2 total) total flagBits hashes) (extractPre H (ceilLog2 total) total flagBits hashes') := by
  have := populate_hashes_determined H hH total hn (tree_depth_ceil_log2 total hn) flagBits hashes hashes' hl hl' r p p' h h'
  rwa [tree_depth_eq_spec _ hn] at this

/-- ALTERED ROOT: the computed root does not depend on the header, so a proof validates against at most one root -/
theorem bip37_altered_root (H : Bytes → Bytes) (root root' : Bytes) (total : Nat) (hashes : List Bytes) (flags : Bytes)
    (p p' : List Bytes) (h : isValid H root total hashes flags = .ok (some (true, p)))
    (h' : isValid H root' total hashes flags = .ok (some (true, p'))) : root = root' := by
  unfold isValid at h h'
  cases hp : populate H total (bytesToBitField flags) (hashes.map List.reverse) with
  | outOfFuel => rw [hp] at h; cases h
  | error => rw [hp] at h; cases h
  | done r pv =>
    rw [hp] at h h'
    simp only [Except.ok.injEq, Option.some.injEq, Prod.mk.injEq, decide_eq_true_eq] at h h'
    rw [← h.1, ← h'.1]

/-- F17b (inherent to BIP37): with a forged transaction count the claim is false.  For a block of four
    transactions a, b, c, d the proof (total = 2, flags 1 1 1, hashes H(a‖b), H(c‖d)) validates against the
    block's Merkle root and "proves" the two inner nodes, for every hash function -/
theorem F17b_witness (H : Bytes → Bytes) (a b c d : Bytes) :
    populate H 2 [true, true, true] [H (a ++ b), H (c ++ d)]
      = .done (treeRoot H [a, b, c, d]) [(H (a ++ b)).reverse, (H (c ++ d)).reverse] := by
  have h2 : maxDepth 2 = 1 := (tree_depth_ceil_log2 2 (by decide)).unique ⟨by decide, Or.inr (by decide)⟩
  have h4 : ceilLog2 4 = 2 := (ceilLog2_spec 4).unique ⟨by decide, Or.inr (by decide)⟩
  rw [forged_total H a b c d h2]
  unfold treeRoot; rw [show [a, b, c, d].length = 4 from rfl, h4]

/-! ## compact bits, targets, retargeting, proof-of-work, header chains -/

/-- Block.hash: hash256 of the 80-byte serialisation, reversed (the codec is C19's subject) -/
theorem header_hash_eq (H : Bytes → Bytes) (h : Header) (s : Bytes) (hs : h.serialize = some s) :
    h.hash H = some (H s).reverse := by
  simp [Header.hash, hs]

/-- EVERY 80-byte header (the version field is any 4-byte value, bit 31 included: the model keeps it as a natural
    number below 2^32): parsing and serialising gives the same 80 bytes back, the hash is the reversed hash256 of those
    bytes — the consensus header hash — and check_pow is evaluated on that hash -/
theorem header_raw_roundtrip (H : Bytes → Bytes) (raw : Bytes) (h80 : raw.length = 80) :
    (Header.parse raw).1.serialize = some raw ∧ (Header.parse raw).1.hash H = some (H raw).reverse ∧
    (Header.parse raw).1.version < 2 ^ 32 := by
  have hs := header_parse_serialize80 raw (by omega)
  rw [List.take_of_length_le (by omega)] at hs
  refine ⟨hs, by simp [Header.hash, hs], ?_⟩
  have := leToNat_lt (raw.take 4)
  simp only [List.length_take] at this
  have h4 : min 4 raw.length = 4 := by omega
  rw [h4] at this
  simpa [Header.parse] using this

theorem header_raw_check_pow (H : Bytes → Bytes) (raw : Bytes) (h80 : raw.length = 80)
    (hexp : 3 ≤ leToNat (Header.parse raw).1.bits / 2 ^ 24) :
    checkPow H (Header.parse raw).1 = some (decide (leToNat (H raw) <
      (leToNat (Header.parse raw).1.bits % 2 ^ 24) * 256 ^ (leToNat (Header.parse raw).1.bits / 2 ^ 24 - 3))) := by
  have hb : (Header.parse raw).1.bits.length = 4 := by simp [Header.parse]; omega
  exact checkPow_eq H _ raw (header_raw_roundtrip H raw h80).1 hb hexp

/-- bits_to_target = SetCompact for 4-byte bits with exponent ≥ 3, clear sign bit, no overflow -/
theorem bits_to_target_eq_SetCompact (bits : Bytes) (h4 : bits.length = 4)
    (hexp : 3 ≤ leToNat bits / 2 ^ 24) (hsign : (leToNat bits / 2 ^ 23) % 2 = 0)
    (hov : (setCompact (leToNat bits)).overflow = false) :
    bitsToTarget bits = some (.int (setCompact (leToNat bits)).value) ∧ (setCompact (leToNat bits)).negative = false :=
  bitsToTarget_eq_setCompact bits h4 hexp hsign hov

/-- what the code computes for every exponent ≥ 3: the 24-bit mantissa including the sign bit, never truncated -/
theorem bits_to_target_general (bits : Bytes) (h4 : bits.length = 4) (hexp : 3 ≤ leToNat bits / 2 ^ 24) :
    bitsToTarget bits = some (.int ((leToNat bits % 2 ^ 24) * 256 ^ (leToNat bits / 2 ^ 24 - 3))) :=
  bitsToTarget_general bits h4 hexp

/-- F17c: exponent < 3 yields a float; a set sign bit is taken as magnitude -/
theorem F17c_witness :
    bitsToTarget [0x12, 0x34, 0x56, 0x02] = some (.frac 0x563412 1) ∧ (setCompact 0x02563412).value = 0x5634 ∧
    bitsToTarget [0x00, 0x00, 0x80, 0x03] = some (.int 0x800000) ∧
      (setCompact 0x03800000).negative = false ∧ (setCompact 0x03800000).value = 0 ∧
    bitsToTarget [0x01, 0x00, 0x80, 0x03] = some (.int 0x800001) ∧
      (setCompact 0x03800001).negative = true ∧ (setCompact 0x03800001).value = 1 :=
  Merkle.F17c_witness

/-- target_to_bits = GetCompact for 2^16 ≤ target < 2^256 -/
theorem target_to_bits_eq_GetCompact (t : Nat) (hlo : 2 ^ 16 ≤ t) (hhi : t < 2 ^ 256) :
    ∃ b, targetToBits t = some b ∧ b.length = 4 ∧ leToNat b = getCompact t :=
  targetToBits_eq_getCompact t hlo hhi

/-- F17d: a target below 2^16 gives fewer than four bytes; 0 raises -/
theorem F17d_witness :
    targetToBits 0x1234 = some [0x34, 0x12, 0x02] ∧ getCompact 0x1234 = 0x02123400 ∧ targetToBits 0 = none ∧ getCompact 0 = 0 :=
  Merkle.F17d_witness

/-- the retarget clamp: the time differential is confined to [two weeks / 4, two weeks · 4] -/
theorem retarget_clamp (bits : Bytes) (td : Int) :
    calculateNewBits bits td = calculateNewBits bits (max 302400 (min td 4838400)) :=
  Merkle.retarget_clamp bits td

/-- calculate_new_bits = CalculateNextWorkRequired -/
theorem calculate_new_bits_eq_spec (bits : Bytes) (td : Int) (h4 : bits.length = 4)
    (hexp : 3 ≤ leToNat bits / 2 ^ 24) (hsign : (leToNat bits / 2 ^ 23) % 2 = 0)
    (hov : (setCompact (leToNat bits)).overflow = false)
    (hprod : (setCompact (leToNat bits)).value * 4838400 < 2 ^ 256)
    (hbig : 2 ^ 16 * 1209600 ≤ (setCompact (leToNat bits)).value * 302400) :
    ∃ b, calculateNewBits bits td = some b ∧ b.length = 4 ∧
      leToNat b = nextWorkRequired (leToNat bits) td powLimitMainnet :=
  calculateNewBits_eq_spec bits td h4 hexp hsign hov hprod hbig

/-- buidl's MAX_TARGET (0xFFFF·2^208) and Core's mainnet powLimit (2^224 - 1) cap to the same compact value -/
theorem max_target_cap (t : Nat) : getCompact (min t (2 ^ 224 - 1)) = getCompact (min t powLimitMainnet) :=
  getCompact_cap t

/-- Block.check_pow tests `hash < target` -/
theorem check_pow_eq (H : Bytes → Bytes) (h : Header) (s : Bytes) (hs : h.serialize = some s) (h4 : h.bits.length = 4)
    (hexp : 3 ≤ leToNat h.bits / 2 ^ 24) :
    checkPow H h = some (decide (leToNat (H s) < (leToNat h.bits % 2 ^ 24) * 256 ^ (leToNat h.bits / 2 ^ 24 - 3))) :=
  checkPow_eq H h s hs h4 hexp

/-- … which is CheckProofOfWork on in-range bits, except when the hash equals the target -/
theorem check_pow_eq_consensus_of_ne (H : Bytes → Bytes) (h : Header) (s : Bytes) (hs : h.serialize = some s)
    (h4 : h.bits.length = 4) (hexp : 3 ≤ leToNat h.bits / 2 ^ 24) (hsign : (leToNat h.bits / 2 ^ 23) % 2 = 0)
    (hov : (setCompact (leToNat h.bits)).overflow = false) (hnz : (setCompact (leToNat h.bits)).value ≠ 0)
    (limit : Nat) (hlim : (setCompact (leToNat h.bits)).value ≤ limit)
    (hne : leToNat (H s) ≠ (setCompact (leToNat h.bits)).value) :
    checkPow H h = some (checkProofOfWork (leToNat (H s)) (leToNat h.bits) limit) :=
  checkPow_eq_spec_of_ne H h s hs h4 hexp hsign hov hnz limit hlim hne

/-- F17e: (a) a hash equal to the target is accepted by consensus and refused by check_pow; (b) bits whose
    target overflows 256 bits make check_pow accept every hash while consensus rejects them -/
theorem F17e_witness :
    (checkPow (fun _ => natToLE' 32 (0xffff * 256 ^ 26)) (f17eHeader [0xff, 0xff, 0x00, 0x1d]) = some false ∧
      leToNat [0xff, 0xff, 0x00, 0x1d] = 0x1d00ffff ∧
      checkProofOfWork (leToNat (natToLE' 32 (0xffff * 256 ^ 26))) 0x1d00ffff powLimitMainnet = true) ∧
    ((∀ hash256 : Bytes → Bytes, (∀ b, (hash256 b).length = 32) →
        checkPow hash256 (f17eHeader [0xff, 0xff, 0x7f, 0x22]) = some true) ∧
      leToNat [0xff, 0xff, 0x7f, 0x22] = 0x227fffff ∧
      (setCompact 0x227fffff).overflow = true ∧
      ∀ hash, checkProofOfWork hash 0x227fffff (2 ^ 256 - 1) = false) :=
  Merkle.F17e_witness

/-- HeadersMessage.is_valid is the fold it should be: true exactly when every header passes check_pow and every
    header's prev_block is the hash of its predecessor -/
theorem headers_valid_iff (H : Bytes → Bytes) (hne : ∀ b, H b ≠ []) (hs : List Header) :
    headersValid H hs = some true ↔
      (∀ h ∈ hs, checkPow H h = some true) ∧
      (∀ i, ∀ a b, hs[i]? = some a → hs[i+1]? = some b → some b.prevBlock = a.hash H) :=
  headersValid_iff H hne hs

/-! ## the hypotheses are satisfiable -/

example : ([0xff, 0xff, 0x00, 0x1d] : Bytes).length = 4 ∧ 3 ≤ leToNat [0xff, 0xff, 0x00, 0x1d] / 2 ^ 24 ∧
    (leToNat [0xff, 0xff, 0x00, 0x1d] / 2 ^ 23) % 2 = 0 := by decide
example : (setCompact 0x1d00ffff).overflow = false ∧ (setCompact 0x1d00ffff).value * 4838400 < 2 ^ 256 ∧
    2 ^ 16 * 1209600 ≤ (setCompact 0x1d00ffff).value * 302400 := by decide
example : IsCeilLog2 5 3 ∧ IsCeilLog2 1 0 := ⟨⟨by decide, Or.inr (by decide)⟩, ⟨by decide, Or.inl rfl⟩⟩
example : ∃ H : Bytes → Bytes, ∀ b, (H b).length = 32 := ⟨fun _ => List.replicate 32 0, fun _ => by simp⟩
example : ([[1], [2], [3]] : List Bytes) ≠ [] ∧ ([true, false, true] : List Bool).length = ([[1], [2], [3]] : List Bytes).length := by decide

end Buidl.Props.C17
