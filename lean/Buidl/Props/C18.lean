/-
  C18 — BIP158 compact filters and BIP37 bloom filters have no false negatives and match the
  specified encoding.  Property theorems only (helper lemmas: Buidl.Proofs.SipHash, Golomb, Murmur,
  Merkle [bit-field codec]).  The models are Buidl.Model.Filters (constants from Buidl.Gen.Filters,
  re-extracted from /repo on every run); the specifications are Buidl.Spec.Filters.
-/
import Buidl.Proofs.Golomb
import Buidl.Proofs.Murmur
import Buidl.Proofs.Merkle
namespace Buidl.Props.C18
open Buidl Buidl.Filters

/-! ## SipHash-2-4 -/

/-- siphash.py (Python integers with masks, unmasked intermediates) computes SipHash-2-4 on 64-bit
    words, for every 16-byte key and every message of every length -/
theorem siphash_eq_spec (key msg : Bytes) (hk : key.length = 16) :
    siphash key msg = some (Spec.Filters.sipHash24 key msg).toNat :=
  Filters.siphash_eq_spec key msg hk

/-- any other key length is refused -/
theorem siphash_key_length (key msg : Bytes) (hk : key.length ≠ 16) : siphash key msg = none :=
  Filters.siphash_none key msg hk

/-! ## Golomb-Rice coding and bit packing -/

/-- decoding inverts encoding for every value, every parameter, with any continuation -/
theorem golomb_roundtrip (x p : Nat) (r : List Bool) : decodeGolomb (encodeGolomb x p ++ r) p = some (x, r) :=
  decodeGolomb_encodeGolomb x p r

/-- running out of bits is an error, never a wrong value -/
theorem golomb_truncated (x p k : Nat) (hk : k < (encodeGolomb x p).length) :
    decodeGolomb ((encodeGolomb x p).take k) p = none :=
  decodeGolomb_prefix_none x p k hk

/-- the encoder is BIP158's golomb_encode (quotient in unary, a zero, the remainder most significant bit first) -/
theorem golomb_eq_bip158 (x p : Nat) : encodeGolomb x p = Spec.Filters.golombEncode x p :=
  encodeGolomb_eq_spec x p

/-- unpack ∘ pack is the identity up to zero padding to a whole byte -/
theorem unpack_pack (bits : List Bool) :
    unpackBits (packBits bits) = bits ++ List.replicate ((8 - bits.length % 8) % 8) false :=
  unpackBits_packBits bits

theorem pack_unpack (bs : Bytes) : packBits (unpackBits bs) = bs := packBits_unpackBits bs

/-- pack_bits (one big integer, `to_bytes`) writes the stream most significant bit first, zero padded -/
theorem pack_eq_bip158 (bits : List Bool) : packBits bits = Spec.Filters.bitsToBytes bits := packBits_eq_spec bits

/-! ## Golomb-coded sets -/

/-- decode_gcs inverts serialize_gcs on every non-decreasing list (duplicates included) -/
theorem gcs_roundtrip (xs : List Nat) (hs : xs.Pairwise (· ≤ ·)) (b : Bytes) (h : serializeGcs xs = some b) :
    decodeGcs b = some xs :=
  decodeGcs_serializeGcs xs hs b h

theorem gcs_domain (xs : List Nat) : (serializeGcs xs).isSome ↔ xs.length < 2 ^ 64 := serializeGcs_isSome xs

/-- encode_gcs is the BIP158 construction byte for byte: N = number of items, F = N·M with M = 784931,
    values `siphash(k, item)·F >> 64` sorted, deltas Golomb-Rice coded with P = 19, packed -/
theorem encode_gcs_eq_bip158 (key : Bytes) (items : List Bytes) (hk : key.length = 16) :
    encodeGcs key items = Spec.Filters.gcsFilter (Spec.Filters.sipHash24 key) items :=
  encodeGcs_eq_spec key items hk

/-- decoding a built filter gives the sorted hashed values -/
theorem decode_encode_gcs (key : Bytes) (items : List Bytes) (fb : Bytes) (h : encodeGcs key items = some fb) :
    ∃ hs, hashedItems key items = some hs ∧ decodeGcs fb = some hs :=
  decodeGcs_encodeGcs key items fb h

/-! ## compact filter: no false negatives (code after fix F18a) -/

/-- every element of the list a filter was built from is reported present, for every key and element list -/
theorem compact_no_false_negatives (key : Bytes) (items : List Bytes) (fb : Bytes) (h : encodeGcs key items = some fb)
    (x : Bytes) (hx : x ∈ items) :
    ∃ cf, CompactFilter.parse false key fb = some cf ∧ cf.f = items.length * 784931 ∧ cf.contains x = some true :=
  Filters.compact_no_false_negatives key items fb h x hx

/-- a parsed filter serialises to the bytes it was parsed from (hence the same filter hash and header) -/
theorem compact_parse_serialize (key : Bytes) (items : List Bytes) (fb : Bytes) (h : encodeGcs key items = some fb) :
    ∃ cf, CompactFilter.parse false key fb = some cf ∧ cf.serialize = some fb :=
  Filters.compact_parse_serialize key items fb h

/-- … hence CompactFilter.hash of a parsed filter is the hash256 of the received bytes (CFilterMessage.hash) -/
theorem compact_filter_hash (hash256 : Bytes → Bytes) (key : Bytes) (items : List Bytes) (fb : Bytes)
    (h : encodeGcs key items = some fb) :
    ∃ cf, CompactFilter.parse false key fb = some cf ∧ cf.hash hash256 = some (cfilterHash hash256 fb) := by
  obtain ⟨cf, h1, h2⟩ := Filters.compact_parse_serialize key items fb h
  exact ⟨cf, h1, by simp [CompactFilter.hash, h2, cfilterHash]⟩

/-- the same for any received filter that encodes a non-decreasing list: N is the transmitted count -/
theorem compact_parse_received (key : Bytes) (xs : List Nat) (hs : xs.Pairwise (· ≤ ·)) (fb : Bytes)
    (h : serializeGcs xs = some fb) :
    ∃ cf, CompactFilter.parse false key fb = some cf ∧ cf.hashes = xs ∧ cf.f = xs.length * 784931 ∧ cf.serialize = some fb :=
  compact_parse_serialize' key xs hs fb h

/-- F18a, the behaviour before the fix (`set(hashes)`): two inserted scripts with the same hashed value make
    N shrink, F = 1·M instead of 2·M, both inserted scripts are reported absent and the filter re-serialises
    to other bytes -/
theorem F18a_witness :
    let key : Bytes := List.replicate 16 0
    let a : Bytes := [0x02, 0x82, 0x03]
    let b : Bytes := [0x02, 0xb4, 0x05]
    encodeGcs key [a, b] = some [0x02, 0x98, 0xf0, 0x20, 0x00, 0x00, 0x00] ∧
    (∃ cf, CompactFilter.parse true key [0x02, 0x98, 0xf0, 0x20, 0x00, 0x00, 0x00] = some cf ∧
       cf.contains a = some false ∧ cf.contains b = some false ∧ cf.serialize ≠ some [0x02, 0x98, 0xf0, 0x20, 0x00, 0x00, 0x00]) :=
  Filters.F18a_witness

/-! ## filter headers -/

/-- CFHeadersMessage folds `header_i = hash256(filter_hash_i ‖ header_{i-1})` from the previous header -/
theorem filter_header_chain (hash256 : Bytes → Bytes) (prev : Bytes) (hashes : List Bytes) :
    Wire.cfheadersLast hash256 prev hashes
      = hashes.foldl (fun cur fh => Spec.Filters.filterHeader hash256 fh cur) prev := rfl

theorem filter_header_step (hash256 : Bytes → Bytes) (prev fh : Bytes) (hashes : List Bytes) :
    Wire.cfheadersLast hash256 prev (hashes ++ [fh]) = hash256 (fh ++ Wire.cfheadersLast hash256 prev hashes) := by
  simp [Wire.cfheadersLast, List.foldl_append]

/-! ## MurmurHash3 and the bloom filter -/

/-- helper.murmur3 (Python integers, never masked between steps) computes MurmurHash3_x86_32 of the message
    with the seed reduced modulo 2^32, for every message (every tail length) and every seed -/
theorem murmur3_eq_spec (data : Bytes) (seed : Nat) (hl : data.length < 2 ^ 32) :
    murmur3 data seed = some (Spec.Filters.murmur3_32 data (UInt32.ofNat seed)).toNat :=
  Filters.murmur3_eq_spec data seed hl

/-- bit positions: MurmurHash3(item, i·0xFBA4C795 + tweak mod 2^32) mod (8·size) -/
theorem bloom_position_eq_spec (size fc tweak i : Nat) (item : Bytes) (bits : List Bool) (hs : 0 < size)
    (hl : item.length < 2 ^ 32) :
    Bloom.position { size := size, bitField := bits, fc := fc, tweak := tweak } item i
      = some (Spec.Filters.bloomBit size tweak i item) :=
  Filters.bloom_position_eq_spec size fc tweak i item bits hs hl

/-- bits are only ever set -/
theorem bloom_add_mono (bf bf' : Bloom) (item : Bytes) (h : bf.add item = some bf') (k : Nat)
    (hk : bf.bitField[k]? = some true) : bf'.bitField[k]? = some true :=
  Filters.bloom_add_mono bf bf' item h k hk

theorem bloom_add_params (bf bf' : Bloom) (item : Bytes) (h : bf.add item = some bf') :
    bf'.bitField.length = bf.bitField.length ∧ bf'.size = bf.size ∧ bf'.fc = bf.fc ∧ bf'.tweak = bf.tweak :=
  bloom_add_length bf bf' item h

/-- adding never fails on a well-formed filter -/
theorem bloom_add_total (bf : Bloom) (item : Bytes) (hs : 0 < bf.size) (hb : bf.bitField.length = bf.size * 8)
    (hl : item.length < 2 ^ 32) : (bf.add item).isSome :=
  bloom_add_isSome bf item hs hb hl

/-- no false negatives, as an invariant over the whole history of `add` calls: afterwards every function position
    of every added element is set -/
theorem bloom_no_false_negatives (bf bf' : Bloom) (items : List Bytes)
    (h : items.foldlM (fun b it => b.add it) bf = some bf') (item : Bytes) (hm : item ∈ items) (i : Nat) (hi : i < bf.fc) :
    ∃ pos, bf.position item i = some pos ∧ bf'.bitField[pos]? = some true :=
  Filters.bloom_no_false_negatives bf bf' items h item hm i hi

/-- filter_bytes stores bit `p` of the field in byte `p / 8`, bit `p % 8` (reading the bytes back least
    significant bit first returns the field) -/
theorem bloom_filter_bytes (bf : Bloom) (fb : Bytes) (h : bf.filterBytes = some fb) :
    Merkle.bytesToBitField fb = bf.bitField :=
  Merkle.bytesToBitField_bitFieldToBytes bf.bitField fb h

/-- filterload payload: CompactSize(size) ‖ filter bytes ‖ nHashFuncs (4 LE) ‖ nTweak (4 LE) ‖ nFlags (1) -/
theorem bloom_filterload_layout (bf : Bloom) (flag : Nat) (sz fb : Bytes) (hsz : encodeVarint bf.size = some sz)
    (hfb : bf.filterBytes = some fb) (hfc : bf.fc < 2 ^ 32) (htw : bf.tweak < 2 ^ 32) (hfl : flag ≤ 255) :
    bf.filterload flag = some (sz ++ fb ++ natToLE' 4 bf.fc ++ natToLE' 4 bf.tweak ++ [UInt8.ofNat flag]) := by
  have h1 : bf.fc < 256 ^ 4 := by omega
  have h2 : bf.tweak < 256 ^ 4 := by omega
  simp only [Bloom.filterload, hsz, hfb, natToLE_some h1, natToLE_some h2, Option.bind_eq_bind, Option.bind_some,
    Option.pure_def, if_neg (show ¬ flag > 255 by omega)]

/-! ## the hypotheses are satisfiable -/

example : (List.replicate 16 (0 : UInt8)).length = 16 := by decide
example : ([3, 3, 7, 9] : List Nat).Pairwise (· ≤ ·) := by decide
example : 0 < (Bloom.new 10 5 99).size ∧ (Bloom.new 10 5 99).bitField.length = (Bloom.new 10 5 99).size * 8 := by decide

end Buidl.Props.C18
