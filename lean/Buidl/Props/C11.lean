/-
  C11 — the PSBT review summary (PSBT.describe_basic_multisig) is faithful: the arithmetic is that
  of the transaction, an output is labelled change only if the wallet can spend it, and mismatching
  metadata is refused instead of summarised.

  Model: Buidl.Model.PsbtDescribe / PsbtCodec (the code with the `fix:` patches of work/C10 and
  work/C11 applied; the two repairs of `describe` itself are flags of `DescribeCfg`).  Helper lemmas:
  Buidl.Proofs.PsbtDescribe.  `H` (hash160 / sha256), the transaction codec `C` and the oracles `O`
  (BIP32 derivation) are arbitrary throughout; no theorem assumes a hash to be injective.

  Notation: `hmapOf cm p` is the `hdpubkey_map` the summary works with (the caller's `cm`, or — when
  that is empty — the one built from the PSBT's global xpubs).

  A  summary_fee, summary_totals, summary_partition, summary_outputs, summary_spend_counts_outputs, summary_single_change
  B  change_commits_by_hash, change_is_plain_multisig, change_keys_perm, change_one_key_per_cosigner,
     change_is_wallet_multisig (the three together, repaired configuration)
  C  describe_refuses_invalid_output / _input (lifting), tamper_* (one per catalogue item; the two shapes of
     finding F11g — found while stating these theorems, repaired by work/C11/fix-F11g.diff — are
     tamper_witness_script_without_witness_utxo and tamper_redeem_on_non_p2sh),
     input_utxo_matches, input_script_commits, input_script_details, input_keys_derive
     (what a summarised input satisfied; input_script_commits is the input-side change_commits_by_hash)
  D  F11a_witness, F11e_witness (the defects with the repair flags off)
  E  input_value_is_utxo_amount (the amounts the arithmetic of A sums are those of the UTXO records
     PSBT.parse read and PSBTIn.validate tied to the transaction; Buidl.Proofs.PsbtValue)
-/
import Buidl.Proofs.PsbtDescribe
import Buidl.Proofs.PsbtValue
namespace Buidl.Props.C11
open Buidl Buidl.Psbt Buidl.Script

/-! ## A. the arithmetic of the summary -/

/-- the totals are those of the transaction's outputs and of the inputs' recorded values -/
theorem summary_totals {Tx} (cfg : DescribeCfg) (H : Hashes) (C : TxCodec Tx) (O : Oracles) (cm : Dict Bytes)
    (p : Psbt Tx) (s : Summary) (h : describe cfg H C O cm p = some s) :
    s.totalOut = ((C.outs p.tx).map (·.amount)).foldl (· + ·) 0 ∧
    ∃ vals, p.ins.mapM (·.value) = some vals ∧ s.totalIn = vals.foldl (· + ·) 0 := by
  obtain ⟨ins, outs, hins, houts, _, _, hti, hto, _, _, _, _, hlo, _⟩ := describe_facts h
  obtain ⟨_, htot, _, _⟩ := outsLoop_spec _ _ _ _ houts
  obtain ⟨_, ⟨vals, hvals, hvt⟩, _⟩ := insLoop_spec _ _ _ _ hins
  refine ⟨?_, vals, hvals, ?_⟩
  · rw [hto, htot, ← hlo, List.take_length]
    show 0 + _ = _
    omega
  · rw [hti, hvt]
    show 0 + _ = _
    omega

/-- the fee shown is the sum of the inputs minus the sum of the outputs -/
theorem summary_fee {Tx} (cfg : DescribeCfg) (H : Hashes) (C : TxCodec Tx) (O : Oracles) (cm : Dict Bytes)
    (p : Psbt Tx) (s : Summary) (h : describe cfg H C O cm p = some s) :
    s.fee = (s.totalIn : Int) - (s.totalOut : Int) := by
  obtain ⟨hto, vals, hvals, hti⟩ := summary_totals cfg H C O cm p s h
  obtain ⟨_, _, _, _, _, _, _, _, _, _, _, _, _, _, hfee, _⟩ := describe_facts h
  unfold txFee at hfee
  simp only [hvals, Option.bind_eq_bind, Option.bind_some, Option.pure_def, Option.some.injEq] at hfee
  rw [← hfee, hti, hto]

/-- spend + change = outputs, and spend + change + fee = inputs -/
theorem summary_partition {Tx} (cfg : DescribeCfg) (H : Hashes) (C : TxCodec Tx) (O : Oracles) (cm : Dict Bytes)
    (p : Psbt Tx) (s : Summary) (h : describe cfg H C O cm p = some s) :
    s.spend + s.change = s.totalOut ∧ (s.spend : Int) + (s.change : Int) + s.fee = (s.totalIn : Int) := by
  obtain ⟨outs, hinv, _, hc, hs, ht⟩ := describe_outInv h
  have h1 : s.spend + s.change = s.totalOut := by rw [hc, hs, ht]; exact hinv.part
  refine ⟨h1, ?_⟩
  rw [summary_fee cfg H C O cm p s h]
  omega

/-- one description per output, carrying that output's amount; labelled change iff it carries
    BIP32 derivations (which `describe` then had to verify, see part B) -/
theorem summary_outputs {Tx} (cfg : DescribeCfg) (H : Hashes) (C : TxCodec Tx) (O : Oracles) (cm : Dict Bytes)
    (p : Psbt Tx) (s : Summary) (h : describe cfg H C O cm p = some s) :
    (C.outs p.tx).length = p.outs.length ∧ (C.ins p.tx).length = p.ins.length ∧
    s.outputs.length = p.outs.length ∧
    ∀ (j : Nat) (o : TxOutV) (po : POut), (C.outs p.tx)[j]? = some o → p.outs[j]? = some po →
      s.outputs[j]? = some { sats := o.amount, isChange := decide (po.namedPubs ≠ []) } := by
  obtain ⟨ins, outs, _, houts, _, _, _, _, _, _, hout, _, hlo, hli, _⟩ := describe_facts h
  obtain ⟨_, _, hdescs, _⟩ := outsLoop_spec _ _ _ _ houts
  refine ⟨hlo, hli, ?_, ?_⟩
  · rw [hout, hdescs]
    simp [hlo]
  · intro j o po ho hp
    exact (describe_output_at h ho hp).2.2.1

/-- what is spent is counted per OUTPUT, not per payee: `spend` is the sum of all outputs not labelled change
    (several of them may pay one address) and the batch flag says that there is more than one such output -/
theorem summary_spend_counts_outputs {Tx} (cfg : DescribeCfg) (H : Hashes) (C : TxCodec Tx) (O : Oracles)
    (cm : Dict Bytes) (p : Psbt Tx) (s : Summary) (h : describe cfg H C O cm p = some s) :
    s.spend = ((s.outputs.filter (fun d => !d.isChange)).map (·.sats)).sum ∧
    s.isBatch = decide ((s.outputs.filter (fun d => !d.isChange)).length > 1) := by
  obtain ⟨outs, hinv, ho, hs, hb⟩ := describe_spendInv h
  rw [ho, hs, hb, hinv.spd, hinv.cnt]
  exact ⟨rfl, rfl⟩

/-- at most one output is labelled change, and `change` is its amount (0 if there is none) -/
theorem summary_single_change {Tx} (cfg : DescribeCfg) (H : Hashes) (C : TxCodec Tx) (O : Oracles) (cm : Dict Bytes)
    (p : Psbt Tx) (s : Summary) (h : describe cfg H C O cm p = some s) :
    (∀ (i j : Nat) (di dj : OutDesc), s.outputs[i]? = some di → s.outputs[j]? = some dj →
      di.isChange = true → dj.isChange = true → i = j) ∧
    (∀ (j : Nat) (d : OutDesc), s.outputs[j]? = some d → d.isChange = true → s.change = d.sats) ∧
    ((∀ d ∈ s.outputs, d.isChange = false) → s.change = 0) := by
  obtain ⟨outs, hinv, ho, hc, _, _⟩ := describe_outInv h
  have hchg := hinv.chg
  rw [← ho] at hchg
  have hlen : (s.outputs.filter (·.isChange)).length ≤ 1 := by
    have := congrArg List.length hchg
    rw [List.length_map] at this
    rw [this]
    split <;> simp
  refine ⟨?_, ?_, ?_⟩
  · intro i j di dj hi hj hdi hdj
    exact index_unique_of_filter_le_one (·.isChange) s.outputs hlen i j di dj hi hj hdi hdj
  · intro j d hj hd
    have hm : d.sats ∈ (s.outputs.filter (·.isChange)).map (·.sats) :=
      List.mem_map.mpr ⟨d, List.mem_filter.mpr ⟨List.mem_of_getElem? hj, hd⟩, rfl⟩
    rw [hchg] at hm
    rw [hc]
    split at hm
    · exact (List.mem_singleton.mp hm).symm
    · simp at hm
  · intro hall
    have hf : s.outputs.filter (·.isChange) = [] := by
      rw [List.filter_eq_nil_iff]
      intro d hd
      simp [hall d hd]
    rw [hf] at hchg
    rw [hc]
    cases hs : outs.changeSeen with
    | false => exact hinv.zero hs
    | true => simp [hs] at hchg

example : ∃ s, describe .repaired Toy.hashes Toy.codec Toy.oracles Toy.cmap Toy.psbt = some s ∧
    s.fee = 10 ∧ s.change = 60 ∧ s.spend = 30 ∧ s.m = 1 ∧ s.n = 2 ∧
    s.outputs = [{ sats := 60, isChange := true }, { sats := 30, isChange := false }] := by
  decide

/-! ## B. an output is labelled change only if the wallet can spend it -/

/-- B.1  A change output's scriptPubKey commits *by hash* to the script `describe` examined: P2WSH,
    P2SH-P2WSH or P2SH of that script's serialisation.  (`h160`: the only fact about the hashes used —
    hash160 values are 20 bytes long, so a 32-byte witness program is not one.) -/
theorem change_commits_by_hash {Tx} (cfg : DescribeCfg) (H : Hashes) (C : TxCodec Tx) (O : Oracles) (cm : Dict Bytes)
    (p : Psbt Tx) (s : Summary) (h160 : ∀ b, (H.hash160 b).length = 20)
    (h : describe cfg H C O cm p = some s)
    (j : Nat) (o : TxOutV) (po : POut) (d : OutDesc)
    (ho : (C.outs p.tx)[j]? = some o) (hp : p.outs[j]? = some po)
    (hd : s.outputs[j]? = some d) (hchange : d.isChange = true) :
    ∃ script raw, scriptQuorum po.witnessScript po.redeem = some (script, s.m, s.n) ∧ rawOf script = some raw ∧
      ((po.witnessScript = some script ∧ po.redeem = none ∧ o.spk.cmds = [.op 0, .push (H.sha256 raw)]) ∨
       (po.witnessScript = some script ∧ ∃ r rraw, po.redeem = some r ∧ rawOf r = some rraw ∧
          r.cmds = [.op 0, .push (H.sha256 raw)] ∧
          o.spk.cmds = [.op 0xA9, .push (H.hash160 rraw), .op 0x87]) ∨
       (po.witnessScript = none ∧ po.redeem = some script ∧
          o.spk.cmds = [.op 0xA9, .push (H.hash160 raw), .op 0x87])) := by
  obtain ⟨hv, _, hdesc, hc⟩ := describe_output_at h ho hp
  rw [hdesc] at hd
  have hne : po.namedPubs ≠ [] := by
    cases hd
    simpa [outDescOf] using hchange
  obtain ⟨script, xfps, hq, _⟩ := changeOK_some (hc hne)
  obtain ⟨raw, hraw, hshape⟩ := validateOut_commit h160 hv hq
  exact ⟨script, raw, hq, hraw, hshape⟩

/-- B.2  (F11e repaired) The script is literally `<m> <keys> <OP_n> OP_CHECKMULTISIG` with the inputs'
    quorum `(s.m, s.n)`, `m` read off the first command by the `get_quorum` of its class, and its keys
    are exactly the output's named pubkeys. -/
theorem change_is_plain_multisig {Tx} (cfg : DescribeCfg) (H : Hashes) (C : TxCodec Tx) (O : Oracles) (cm : Dict Bytes)
    (p : Psbt Tx) (s : Summary) (hpm : cfg.plainMultisig = true)
    (h : describe cfg H C O cm p = some s)
    (j : Nat) (o : TxOutV) (po : POut) (d : OutDesc)
    (ho : (C.outs p.tx)[j]? = some o) (hp : p.outs[j]? = some po)
    (hd : s.outputs[j]? = some d) (hchange : d.isChange = true) :
    ∃ (script : Script) (c0 : Cmd) (keys : List Bytes),
      scriptQuorum po.witnessScript po.redeem = some (script, s.m, s.n) ∧
      script.cmds = c0 :: keys.map Cmd.push ++ [.op (80 + keys.length), .op Gen.psbtCheckMultisig] ∧
      (opCodeToNumber (some c0) = some s.m ∨ opNameNumber (some c0) = some s.m) ∧
      (keys.length : Int) = s.n ∧ (po.namedPubs.length : Int) = s.n ∧
      (∀ k, k ∈ keys ↔ k ∈ dkeys po.namedPubs) := by
  obtain ⟨_, _, hdesc, hc⟩ := describe_output_at h ho hp
  rw [hdesc] at hd
  have hne : po.namedPubs ≠ [] := by
    cases hd
    simpa [outDescOf] using hchange
  obtain ⟨script, xfps, hq, hplain, hn, _⟩ := changeOK_some (hc hne)
  obtain ⟨c0, keys, hcmds, hkl, hkeys, hm⟩ := plainMultisig_shape hq (hplain hpm)
  exact ⟨script, c0, keys, hq, hcmds, hm, hkl, hn.symm, hkeys⟩

/-- B.2'  When the output's derivation map is a dict (distinct keys — which is what `PSBTOut.parse`
    builds), the script's keys are the named pubkeys up to order, each exactly once. -/
theorem change_keys_perm {Tx} (cfg : DescribeCfg) (H : Hashes) (C : TxCodec Tx) (O : Oracles) (cm : Dict Bytes)
    (p : Psbt Tx) (s : Summary) (hpm : cfg.plainMultisig = true)
    (h : describe cfg H C O cm p = some s)
    (j : Nat) (o : TxOutV) (po : POut) (d : OutDesc)
    (ho : (C.outs p.tx)[j]? = some o) (hp : p.outs[j]? = some po)
    (hd : s.outputs[j]? = some d) (hchange : d.isChange = true) (hdict : DNodup po.namedPubs) :
    ∃ (script : Script) (c0 : Cmd) (keys : List Bytes),
      scriptQuorum po.witnessScript po.redeem = some (script, s.m, s.n) ∧
      script.cmds = c0 :: keys.map Cmd.push ++ [.op (80 + keys.length), .op Gen.psbtCheckMultisig] ∧
      keys.Perm (dkeys po.namedPubs) ∧ keys.Nodup := by
  obtain ⟨script, c0, keys, hq, hcmds, _, hkl, hnl, hkeys⟩ :=
    change_is_plain_multisig cfg H C O cm p s hpm h j o po d ho hp hd hchange
  have hperm : keys.Perm (dkeys po.namedPubs) := by
    apply perm_of_nodup_subset_length _ _ hdict (fun k hk => (hkeys k).mpr hk)
    have : (dkeys po.namedPubs).length = po.namedPubs.length := by simp [dkeys]
    omega
  exact ⟨script, c0, keys, hq, hcmds, hperm, hperm.nodup_iff.mpr hdict⟩

example : DNodup Toy.changeMap.namedPubs := by unfold DNodup; decide

/-- B.3  (F11a repaired) Every named pubkey is the key its cosigner's xpub — looked up in the map by the
    path's fingerprint — derives at the stated path; there are `n` named pubkeys, `n` map entries, and the
    named pubkeys' fingerprints are pairwise distinct: one key per declared cosigner. -/
theorem change_one_key_per_cosigner {Tx} (cfg : DescribeCfg) (H : Hashes) (C : TxCodec Tx) (O : Oracles)
    (cm : Dict Bytes) (p : Psbt Tx) (s : Summary) (hdx : cfg.distinctXfps = true)
    (h : describe cfg H C O cm p = some s)
    (j : Nat) (o : TxOutV) (po : POut) (d : OutDesc)
    (ho : (C.outs p.tx)[j]? = some o) (hp : p.outs[j]? = some po)
    (hd : s.outputs[j]? = some d) (hchange : d.isChange = true) :
    (po.namedPubs.length : Int) = s.n ∧ ((hmapOf cm p).length : Int) = s.n ∧
    (∀ sec rawPath, (sec, rawPath) ∈ po.namedPubs →
      ∃ body, dget (hmapOf cm p) (rawPath.take Gen.psbtFingerprintWidth) = some body ∧
        deriveAt O body rawPath = some sec) ∧
    (po.namedPubs.map (fun e => e.2.take Gen.psbtFingerprintWidth)).Nodup := by
  obtain ⟨_, _, hdesc, hc⟩ := describe_output_at h ho hp
  rw [hdesc] at hd
  have hne : po.namedPubs ≠ [] := by
    cases hd
    simpa [outDescOf] using hchange
  obtain ⟨script, xfps, hq, _, hn, hnamed, hdist⟩ := changeOK_some (hc hne)
  obtain ⟨hx, hall⟩ := checkNamedPubs_some hnamed
  refine ⟨hn.symm, (describe_n h).symm, hall, ?_⟩
  rw [← hx]
  apply nodup_of_eraseDups_length
  have h1 := hdist hdx
  have h2 : xfps.length = po.namedPubs.length := by rw [hx]; simp
  omega

/-- B  With both repairs in place: an output is labelled change only if its scriptPubKey commits by
    hash to a plain m-of-n multisig script with the inputs' quorum whose keys are exactly one key
    derived from each declared cosigner xpub at the stated path. -/
theorem change_is_wallet_multisig {Tx} (H : Hashes) (C : TxCodec Tx) (O : Oracles) (cm : Dict Bytes)
    (p : Psbt Tx) (s : Summary) (h160 : ∀ b, (H.hash160 b).length = 20)
    (h : describe .repaired H C O cm p = some s)
    (j : Nat) (o : TxOutV) (po : POut) (d : OutDesc)
    (ho : (C.outs p.tx)[j]? = some o) (hp : p.outs[j]? = some po)
    (hd : s.outputs[j]? = some d) (hchange : d.isChange = true) :
    ∃ (script : Script) (raw : Bytes) (c0 : Cmd) (keys : List Bytes),
      -- the script examined, its quorum = the inputs' quorum
      scriptQuorum po.witnessScript po.redeem = some (script, s.m, s.n) ∧ rawOf script = some raw ∧
      -- 1. the scriptPubKey commits to it by hash
      ((po.witnessScript = some script ∧ po.redeem = none ∧ o.spk.cmds = [.op 0, .push (H.sha256 raw)]) ∨
       (po.witnessScript = some script ∧ ∃ r rraw, po.redeem = some r ∧ rawOf r = some rraw ∧
          r.cmds = [.op 0, .push (H.sha256 raw)] ∧
          o.spk.cmds = [.op 0xA9, .push (H.hash160 rraw), .op 0x87]) ∨
       (po.witnessScript = none ∧ po.redeem = some script ∧
          o.spk.cmds = [.op 0xA9, .push (H.hash160 raw), .op 0x87])) ∧
      -- 2. it is a plain m-of-n multisig
      script.cmds = c0 :: keys.map Cmd.push ++ [.op (80 + keys.length), .op Gen.psbtCheckMultisig] ∧
      (opCodeToNumber (some c0) = some s.m ∨ opNameNumber (some c0) = some s.m) ∧
      (keys.length : Int) = s.n ∧
      -- 3. of exactly the named pubkeys, one per declared cosigner
      (∀ k, k ∈ keys ↔ k ∈ dkeys po.namedPubs) ∧
      (po.namedPubs.length : Int) = s.n ∧ ((hmapOf cm p).length : Int) = s.n ∧
      (∀ sec rawPath, (sec, rawPath) ∈ po.namedPubs →
        ∃ body, dget (hmapOf cm p) (rawPath.take Gen.psbtFingerprintWidth) = some body ∧
          deriveAt O body rawPath = some sec) ∧
      (po.namedPubs.map (fun e => e.2.take Gen.psbtFingerprintWidth)).Nodup := by
  obtain ⟨script, raw, hq, hraw, hshape⟩ :=
    change_commits_by_hash .repaired H C O cm p s h160 h j o po d ho hp hd hchange
  obtain ⟨script', c0, keys, hq', hcmds, hm, hkl, _, hkeys⟩ :=
    change_is_plain_multisig .repaired H C O cm p s rfl h j o po d ho hp hd hchange
  obtain ⟨hn, hh, hall, hnd⟩ :=
    change_one_key_per_cosigner .repaired H C O cm p s rfl h j o po d ho hp hd hchange
  rw [hq] at hq'
  cases hq'
  exact ⟨script, raw, c0, keys, hq, hraw, hshape, hcmds, hm, hkl, hkeys, hn, hh, hall, hnd⟩

example : (∀ b, (Toy.hashes.hash160 b).length = 20) ∧
    ∃ s d, describe .repaired Toy.hashes Toy.codec Toy.oracles Toy.cmap Toy.psbt = some s ∧
      (Toy.codec.outs Toy.psbt.tx)[0]? = some Toy.changeOut ∧ Toy.psbt.outs[0]? = some Toy.changeMap ∧
      s.outputs[0]? = some d ∧ d.isChange = true := by
  refine ⟨fun b => by simp [Toy.hashes], ?_⟩
  exact ⟨{ fee := 10, totalIn := 100, totalOut := 90, spend := 30, change := 60, isBatch := false, m := 1, n := 2,
            inputs := [{ m := 1, n := 2, sats := 100 }],
            outputs := [{ sats := 60, isChange := true }, { sats := 30, isChange := false }],
            rootPaths := [([1, 1, 1, 1], [1, 1, 1, 1, 5, 0, 0, 0]), ([2, 2, 2, 2], [2, 2, 2, 2, 5, 0, 0, 0])] },
    { sats := 60, isChange := true }, by decide, by decide, by decide, by decide, by decide⟩

/-! ## C. mismatching metadata is refused, not summarised -/

/-- an output map that `PSBTOut.validate` refuses makes the whole summary fail -/
theorem describe_refuses_invalid_output {Tx} (cfg : DescribeCfg) (H : Hashes) (C : TxCodec Tx) (O : Oracles)
    (cm : Dict Bytes) (p : Psbt Tx) (j : Nat) (o : TxOutV) (po : POut)
    (ho : (C.outs p.tx)[j]? = some o) (hp : p.outs[j]? = some po)
    (hbad : validateOut H o.spk po = none) : describe cfg H C O cm p = none := by
  cases h : describe cfg H C O cm p with
  | none => rfl
  | some s =>
    have := (describe_output_at h ho hp).1
    rw [hbad] at this
    cases this

/-- an input map that `PSBTIn.validate` refuses makes the whole summary fail -/
theorem describe_refuses_invalid_input {Tx} (cfg : DescribeCfg) (H : Hashes) (C : TxCodec Tx) (O : Oracles)
    (cm : Dict Bytes) (p : Psbt Tx) (i : Nat) (txin : TxInV) (pin : PIn Tx)
    (ht : (C.ins p.tx)[i]? = some txin) (hp : p.ins[i]? = some pin)
    (hbad : validateIn H C txin pin = none) : describe cfg H C O cm p = none := by
  cases h : describe cfg H C O cm p with
  | none => rfl
  | some s =>
    have := (describe_input_at h ht hp).valid
    rw [hbad] at this
    cases this

/-- swapped output scriptPubKey keeping the change metadata (F11b): with only a RedeemScript attached, a
    scriptPubKey that is not the P2SH of that RedeemScript's hash160 is refused -/
theorem tamper_swapped_spk {Tx} (cfg : DescribeCfg) (H : Hashes) (C : TxCodec Tx) (O : Oracles)
    (cm : Dict Bytes) (p : Psbt Tx) (j : Nat) (o : TxOutV) (po : POut) (r : Script)
    (ho : (C.outs p.tx)[j]? = some o) (hp : p.outs[j]? = some po)
    (hw : po.witnessScript = none) (hr : po.redeem = some r)
    (hbad : ¬(isP2sh o.spk = true ∧ o.spk.cmds[1]? = scriptHash160 H r)) :
    describe cfg H C O cm p = none := by
  apply describe_refuses_invalid_output cfg H C O cm p j o po ho hp
  apply eq_none_of_not_some
  intro hv
  obtain ⟨h1, h2, _⟩ := validateOut_redeem_only hw hr hv
  exact hbad ⟨h1, h2⟩

/-- swapped output scriptPubKey, WitnessScript attached (F11c): the scriptPubKey must be P2WSH, or P2SH
    with a P2WSH RedeemScript attached -/
theorem tamper_witness_script_spk {Tx} (cfg : DescribeCfg) (H : Hashes) (C : TxCodec Tx) (O : Oracles)
    (cm : Dict Bytes) (p : Psbt Tx) (j : Nat) (o : TxOutV) (po : POut) (ws : Script)
    (ho : (C.outs p.tx)[j]? = some o) (hp : p.outs[j]? = some po)
    (hw : po.witnessScript = some ws)
    (hbad : ¬(isP2wsh o.spk = true ∨ (isP2sh o.spk = true ∧ ∃ r, po.redeem = some r ∧ isP2wsh r = true))) :
    describe cfg H C O cm p = none := by
  apply describe_refuses_invalid_output cfg H C O cm p j o po ho hp
  apply eq_none_of_not_some
  intro hv
  obtain ⟨h1, h2, _⟩ := validateOut_witness hw hv
  apply hbad
  cases hr : po.redeem with
  | none => exact Or.inl (h1 hr).1
  | some r =>
    have := (h2 r hr).1
    simp only [Bool.or_eq_true, Bool.and_eq_true] at this
    rcases this with h | ⟨h, h'⟩
    · exact Or.inl h
    · exact Or.inr ⟨h, r, rfl, h'⟩

/-- foreign output script (P2WSH): the WitnessScript's sha256 differs from the scriptPubKey's program -/
theorem tamper_foreign_output_witness_script {Tx} (cfg : DescribeCfg) (H : Hashes) (C : TxCodec Tx) (O : Oracles)
    (cm : Dict Bytes) (p : Psbt Tx) (j : Nat) (o : TxOutV) (po : POut) (ws : Script)
    (ho : (C.outs p.tx)[j]? = some o) (hp : p.outs[j]? = some po)
    (hw : po.witnessScript = some ws) (hr : po.redeem = none)
    (hbad : o.spk.cmds[1]? ≠ scriptSha256 H ws) :
    describe cfg H C O cm p = none := by
  apply describe_refuses_invalid_output cfg H C O cm p j o po ho hp
  apply eq_none_of_not_some
  intro hv
  exact hbad ((validateOut_witness hw hv).1 hr).2

/-- foreign output script (P2SH-P2WSH): the RedeemScript's hash160 differs from the scriptPubKey's hash,
    or the WitnessScript's sha256 from the RedeemScript's program -/
theorem tamper_foreign_output_script_p2sh_p2wsh {Tx} (cfg : DescribeCfg) (H : Hashes) (C : TxCodec Tx)
    (O : Oracles) (cm : Dict Bytes) (p : Psbt Tx) (j : Nat) (o : TxOutV) (po : POut) (ws r : Script)
    (ho : (C.outs p.tx)[j]? = some o) (hp : p.outs[j]? = some po)
    (hw : po.witnessScript = some ws) (hr : po.redeem = some r)
    (hbad : o.spk.cmds[1]? ≠ scriptHash160 H r ∨ r.cmds[1]? ≠ scriptSha256 H ws) :
    describe cfg H C O cm p = none := by
  apply describe_refuses_invalid_output cfg H C O cm p j o po ho hp
  apply eq_none_of_not_some
  intro hv
  obtain ⟨_, h1, _, h2⟩ := (validateOut_witness hw hv).2.1 r hr
  rcases hbad with hb | hb
  · exact hb h1
  · exact hb h2

/-- foreign RedeemScript on an input without witness UTXO: unless the scriptPubKey being spent is the
    P2SH of the RedeemScript's hash160, refused -/
theorem tamper_foreign_input_script {Tx} (cfg : DescribeCfg) (H : Hashes) (C : TxCodec Tx) (O : Oracles)
    (cm : Dict Bytes) (p : Psbt Tx) (i : Nat) (txin : TxInV) (pin : PIn Tx) (r : Script)
    (ht : (C.ins p.tx)[i]? = some txin) (hp : p.ins[i]? = some pin)
    (hpo : pin.prevOut = none) (hr : pin.redeem = some r)
    (hbad : ¬∃ spk, pin.scriptPubkey C txin = some (some spk) ∧ isP2sh spk = true ∧
      spk.cmds[1]? = scriptHash160 H r) :
    describe cfg H C O cm p = none := by
  apply describe_refuses_invalid_input cfg H C O cm p i txin pin ht hp
  apply eq_none_of_not_some
  intro hv
  obtain ⟨spk, h1, h2, _, h3, _⟩ := validateIn_legacy_redeem hpo hr hv
  exact hbad ⟨spk, h1, h2, h3⟩

/-- foreign WitnessScript on a P2WSH input (witness UTXO present): its sha256 differs from the program -/
theorem tamper_foreign_input_witness_script {Tx} (cfg : DescribeCfg) (H : Hashes) (C : TxCodec Tx) (O : Oracles)
    (cm : Dict Bytes) (p : Psbt Tx) (i : Nat) (txin : TxInV) (pin : PIn Tx) (utxo : TxOutV) (ws : Script)
    (ht : (C.ins p.tx)[i]? = some txin) (hp : p.ins[i]? = some pin)
    (hpo : pin.prevOut = some utxo) (hw : pin.witnessScript = some ws) (hr : pin.redeem = none)
    (hbad : utxo.spk.cmds[1]? ≠ scriptSha256 H ws) :
    describe cfg H C O cm p = none := by
  apply describe_refuses_invalid_input cfg H C O cm p i txin pin ht hp
  apply eq_none_of_not_some
  intro hv
  obtain ⟨spk, _, _, _, h4⟩ := validateIn_witness hpo hv
  exact hbad ((h4 ws hw).1 hr).2

/-- foreign scripts on a P2SH-P2WSH input (witness UTXO present): RedeemScript hash160 ≠ the hash in the
    scriptPubKey being spent, or WitnessScript sha256 ≠ the RedeemScript's program -/
theorem tamper_foreign_input_script_p2sh_p2wsh {Tx} (cfg : DescribeCfg) (H : Hashes) (C : TxCodec Tx)
    (O : Oracles) (cm : Dict Bytes) (p : Psbt Tx) (i : Nat) (txin : TxInV) (pin : PIn Tx) (utxo : TxOutV)
    (ws r : Script)
    (ht : (C.ins p.tx)[i]? = some txin) (hp : p.ins[i]? = some pin)
    (hpo : pin.prevOut = some utxo) (hw : pin.witnessScript = some ws) (hr : pin.redeem = some r)
    (hbad : (∀ spk, pin.scriptPubkey C txin = some (some spk) → spk.cmds[1]? ≠ scriptHash160 H r) ∨
      r.cmds[1]? ≠ scriptSha256 H ws) :
    describe cfg H C O cm p = none := by
  apply describe_refuses_invalid_input cfg H C O cm p i txin pin ht hp
  apply eq_none_of_not_some
  intro hv
  obtain ⟨spk, h1, _, _, h4⟩ := validateIn_witness hpo hv
  obtain ⟨_, h5, _, h6⟩ := (h4 ws hw).2.1 r hr
  rcases hbad with hb | hb
  · exact hb spk h1 h5
  · exact hb h6

/-- a witness UTXO on a bare-P2SH input (F11f): a RedeemScript that is not a witness program is refused
    (before the repair this sent validation down the witness branch, where it was not checked at all) -/
theorem tamper_witness_utxo_on_legacy {Tx} (cfg : DescribeCfg) (H : Hashes) (C : TxCodec Tx) (O : Oracles)
    (cm : Dict Bytes) (p : Psbt Tx) (i : Nat) (txin : TxInV) (pin : PIn Tx) (utxo : TxOutV) (spk r : Script)
    (ht : (C.ins p.tx)[i]? = some txin) (hp : p.ins[i]? = some pin)
    (hpo : pin.prevOut = some utxo) (hspk : pin.scriptPubkey C txin = some (some spk))
    (hsh : isP2sh spk = true) (hr : pin.redeem = some r) (hnw : isWitnessProgram r = false) :
    describe cfg H C O cm p = none := by
  apply describe_refuses_invalid_input cfg H C O cm p i txin pin ht hp
  apply eq_none_of_not_some
  intro hv
  obtain ⟨spk', h1, _, h3, _⟩ := validateIn_witness hpo hv
  rw [hspk] at h1
  cases h1
  have := (h3 r hr).1
  simp [hsh, hnw] at this

/-- altered previous transaction: the attached non-witness UTXO does not hash to the outpoint -/
theorem tamper_prev_tx {Tx} (cfg : DescribeCfg) (H : Hashes) (C : TxCodec Tx) (O : Oracles)
    (cm : Dict Bytes) (p : Psbt Tx) (i : Nat) (txin : TxInV) (pin : PIn Tx) (t : Tx)
    (ht : (C.ins p.tx)[i]? = some txin) (hp : p.ins[i]? = some pin)
    (hpt : pin.prevTx = some t) (hbad : C.hash t ≠ some txin.prevTx) :
    describe cfg H C O cm p = none := by
  apply describe_refuses_invalid_input cfg H C O cm p i txin pin ht hp
  apply eq_none_of_not_some
  intro hv
  exact hbad (validateIn_prevTx hpt hv).1

/-- altered UTXO amount (F11d): with both UTXO kinds attached, a witness UTXO whose amount or script
    differs from the previous transaction's output is refused -/
theorem tamper_utxo_amount {Tx} (cfg : DescribeCfg) (H : Hashes) (C : TxCodec Tx) (O : Oracles)
    (cm : Dict Bytes) (p : Psbt Tx) (i : Nat) (txin : TxInV) (pin : PIn Tx) (t : Tx) (wutxo : TxOutV)
    (ht : (C.ins p.tx)[i]? = some txin) (hp : p.ins[i]? = some pin)
    (hpt : pin.prevTx = some t) (hpo : pin.prevOut = some wutxo)
    (hbad : ∀ utxo, (C.outs t)[txin.prevIndex]? = some utxo →
      utxo.amount ≠ wutxo.amount ∨ utxo.spk.cmds ≠ wutxo.spk.cmds) :
    describe cfg H C O cm p = none := by
  apply describe_refuses_invalid_input cfg H C O cm p i txin pin ht hp
  apply eq_none_of_not_some
  intro hv
  obtain ⟨utxo, hu, ha, hs⟩ := validateIn_both_utxos hpt hpo hv
  rcases hbad utxo hu with hb | hb
  · exact hb ha
  · exact hb hs

/-- the amount an input contributes to the summary is the one of the UTXO record(s) validated above:
    a summary exists only if every input has a recorded value -/
theorem tamper_missing_utxo {Tx} (cfg : DescribeCfg) (H : Hashes) (C : TxCodec Tx) (O : Oracles)
    (cm : Dict Bytes) (p : Psbt Tx) (i : Nat) (txin : TxInV) (pin : PIn Tx)
    (ht : (C.ins p.tx)[i]? = some txin) (hp : p.ins[i]? = some pin) (hbad : pin.value = none) :
    describe cfg H C O cm p = none := by
  cases h : describe cfg H C O cm p with
  | none => rfl
  | some s =>
    obtain ⟨sats, hs⟩ := (describe_input_at h ht hp).value
    rw [hbad] at hs
    cases hs

/-- wrong path or foreign xpub on an input: a named pubkey that the cosigner's xpub does not derive at
    the stated path -/
theorem tamper_wrong_derivation_input {Tx} (cfg : DescribeCfg) (H : Hashes) (C : TxCodec Tx) (O : Oracles)
    (cm : Dict Bytes) (p : Psbt Tx) (i : Nat) (txin : TxInV) (pin : PIn Tx) (sec rawPath body : Bytes)
    (ht : (C.ins p.tx)[i]? = some txin) (hp : p.ins[i]? = some pin)
    (hmem : (sec, rawPath) ∈ pin.namedPubs)
    (hfp : dget (hmapOf cm p) (rawPath.take Gen.psbtFingerprintWidth) = some body)
    (hbad : deriveAt O body rawPath ≠ some sec) :
    describe cfg H C O cm p = none := by
  cases h : describe cfg H C O cm p with
  | none => rfl
  | some s =>
    obtain ⟨xfps, hx⟩ := (describe_input_at h ht hp).named
    obtain ⟨body', hb, hd⟩ := (checkNamedPubs_some hx).2 sec rawPath hmem
    rw [hfp] at hb
    cases hb
    exact (hbad hd).elim

/-- foreign fingerprint on an input: a named pubkey whose fingerprint is not in the map -/
theorem tamper_foreign_fingerprint_input {Tx} (cfg : DescribeCfg) (H : Hashes) (C : TxCodec Tx) (O : Oracles)
    (cm : Dict Bytes) (p : Psbt Tx) (i : Nat) (txin : TxInV) (pin : PIn Tx) (sec rawPath : Bytes)
    (ht : (C.ins p.tx)[i]? = some txin) (hp : p.ins[i]? = some pin)
    (hmem : (sec, rawPath) ∈ pin.namedPubs)
    (hbad : dget (hmapOf cm p) (rawPath.take Gen.psbtFingerprintWidth) = none) :
    describe cfg H C O cm p = none := by
  cases h : describe cfg H C O cm p with
  | none => rfl
  | some s =>
    obtain ⟨xfps, hx⟩ := (describe_input_at h ht hp).named
    obtain ⟨body', hb, _⟩ := (checkNamedPubs_some hx).2 sec rawPath hmem
    rw [hbad] at hb
    cases hb

/-- wrong path or foreign xpub on an output claiming to be change -/
theorem tamper_wrong_derivation_output {Tx} (cfg : DescribeCfg) (H : Hashes) (C : TxCodec Tx) (O : Oracles)
    (cm : Dict Bytes) (p : Psbt Tx) (j : Nat) (o : TxOutV) (po : POut) (sec rawPath body : Bytes)
    (ho : (C.outs p.tx)[j]? = some o) (hp : p.outs[j]? = some po)
    (hmem : (sec, rawPath) ∈ po.namedPubs)
    (hfp : dget (hmapOf cm p) (rawPath.take Gen.psbtFingerprintWidth) = some body)
    (hbad : deriveAt O body rawPath ≠ some sec) :
    describe cfg H C O cm p = none := by
  cases h : describe cfg H C O cm p with
  | none => rfl
  | some s =>
    have hne : po.namedPubs ≠ [] := List.ne_nil_of_mem hmem
    obtain ⟨_, xfps, _, _, _, hx, _⟩ := changeOK_some ((describe_output_at h ho hp).2.2.2 hne)
    obtain ⟨body', hb, hd⟩ := (checkNamedPubs_some hx).2 sec rawPath hmem
    rw [hfp] at hb
    cases hb
    exact (hbad hd).elim

/-- foreign fingerprint on an output claiming to be change -/
theorem tamper_foreign_fingerprint_output {Tx} (cfg : DescribeCfg) (H : Hashes) (C : TxCodec Tx) (O : Oracles)
    (cm : Dict Bytes) (p : Psbt Tx) (j : Nat) (o : TxOutV) (po : POut) (sec rawPath : Bytes)
    (ho : (C.outs p.tx)[j]? = some o) (hp : p.outs[j]? = some po)
    (hmem : (sec, rawPath) ∈ po.namedPubs)
    (hbad : dget (hmapOf cm p) (rawPath.take Gen.psbtFingerprintWidth) = none) :
    describe cfg H C O cm p = none := by
  cases h : describe cfg H C O cm p with
  | none => rfl
  | some s =>
    have hne : po.namedPubs ≠ [] := List.ne_nil_of_mem hmem
    obtain ⟨_, xfps, _, _, _, hx, _⟩ := changeOK_some ((describe_output_at h ho hp).2.2.2 hne)
    obtain ⟨body', hb, _⟩ := (checkNamedPubs_some hx).2 sec rawPath hmem
    rw [hbad] at hb
    cases hb

/-- change script whose keys come from one cosigner (F11a repaired): two named pubkeys of an output
    carrying the same fingerprint -/
theorem tamper_one_cosigner_change {Tx} (cfg : DescribeCfg) (H : Hashes) (C : TxCodec Tx) (O : Oracles)
    (cm : Dict Bytes) (p : Psbt Tx) (hdx : cfg.distinctXfps = true) (j : Nat) (o : TxOutV) (po : POut)
    (a b : Nat) (e1 e2 : Bytes × Bytes)
    (ho : (C.outs p.tx)[j]? = some o) (hp : p.outs[j]? = some po)
    (ha : po.namedPubs[a]? = some e1) (hb : po.namedPubs[b]? = some e2) (hab : a ≠ b)
    (hsame : e1.2.take Gen.psbtFingerprintWidth = e2.2.take Gen.psbtFingerprintWidth) :
    describe cfg H C O cm p = none := by
  cases h : describe cfg H C O cm p with
  | none => rfl
  | some s =>
    exfalso
    have hne : po.namedPubs ≠ [] := by
      intro hnil
      rw [hnil] at ha
      simp at ha
    have hd : s.outputs[j]? = some (outDescOf o po) := (describe_output_at h ho hp).2.2.1
    obtain ⟨_, _, _, hnd⟩ := change_one_key_per_cosigner cfg H C O cm p s hdx h j o po _ ho hp hd
      (by simp [outDescOf, hne])
    have ha' : (po.namedPubs.map (fun e => e.2.take Gen.psbtFingerprintWidth))[a]? =
        some (e1.2.take Gen.psbtFingerprintWidth) := by simp [ha]
    have hb' : (po.namedPubs.map (fun e => e.2.take Gen.psbtFingerprintWidth))[b]? =
        some (e1.2.take Gen.psbtFingerprintWidth) := by simp [hb, hsame]
    have hal : a < (po.namedPubs.map (fun e => e.2.take Gen.psbtFingerprintWidth)).length := by
      have := (List.getElem?_eq_some_iff.mp ha').1
      exact this
    exact hab ((List.getElem?_inj hal hnd).mp (ha'.trans hb'.symm))

/-- changed quorum: an output carrying derivations whose script has another quorum than an input's -/
theorem tamper_changed_quorum {Tx} (cfg : DescribeCfg) (H : Hashes) (C : TxCodec Tx) (O : Oracles)
    (cm : Dict Bytes) (p : Psbt Tx) (i : Nat) (txin : TxInV) (pin : PIn Tx) (si : Script) (m n : Int)
    (j : Nat) (o : TxOutV) (po : POut)
    (ht : (C.ins p.tx)[i]? = some txin) (hpi : p.ins[i]? = some pin)
    (hqi : scriptQuorum pin.witnessScript pin.redeem = some (si, m, n))
    (ho : (C.outs p.tx)[j]? = some o) (hp : p.outs[j]? = some po) (hne : po.namedPubs ≠ [])
    (hbad : ∀ so, scriptQuorum po.witnessScript po.redeem ≠ some (so, m, n)) :
    describe cfg H C O cm p = none := by
  cases h : describe cfg H C O cm p with
  | none => rfl
  | some s =>
    exfalso
    obtain ⟨script, m', n', _, hq, hm, hn, _⟩ := (describe_input_at h ht hpi).quorum
    rw [hqi] at hq
    cases hq
    cases hm
    cases hn
    obtain ⟨so, _, hqo, _⟩ := changeOK_some ((describe_output_at h ho hp).2.2.2 hne)
    exact hbad so hqo

/-- not a plain multisig (F11e repaired): an output carrying derivations whose script is not exactly
    `<m> <the named pubkeys> <n> OP_CHECKMULTISIG` -/
theorem tamper_not_plain_multisig {Tx} (cfg : DescribeCfg) (H : Hashes) (C : TxCodec Tx) (O : Oracles)
    (cm : Dict Bytes) (p : Psbt Tx) (hpm : cfg.plainMultisig = true) (j : Nat) (o : TxOutV) (po : POut)
    (ho : (C.outs p.tx)[j]? = some o) (hp : p.outs[j]? = some po) (hne : po.namedPubs ≠ [])
    (hbad : ∀ script m n, scriptQuorum po.witnessScript po.redeem = some (script, m, n) →
      plainMultisigOf script n po.namedPubs = false) :
    describe cfg H C O cm p = none := by
  cases h : describe cfg H C O cm p with
  | none => rfl
  | some s =>
    exfalso
    obtain ⟨so, _, hqo, hplain, _⟩ := changeOK_some ((describe_output_at h ho hp).2.2.2 hne)
    have := hbad so s.m s.n hqo
    rw [hplain hpm] at this
    cases this

/-- second change output: two different outputs carrying derivations -/
theorem tamper_second_change {Tx} (cfg : DescribeCfg) (H : Hashes) (C : TxCodec Tx) (O : Oracles)
    (cm : Dict Bytes) (p : Psbt Tx) (j1 j2 : Nat) (o1 o2 : TxOutV) (po1 po2 : POut)
    (ho1 : (C.outs p.tx)[j1]? = some o1) (hp1 : p.outs[j1]? = some po1) (hne1 : po1.namedPubs ≠ [])
    (ho2 : (C.outs p.tx)[j2]? = some o2) (hp2 : p.outs[j2]? = some po2) (hne2 : po2.namedPubs ≠ [])
    (hj : j1 ≠ j2) :
    describe cfg H C O cm p = none := by
  cases h : describe cfg H C O cm p with
  | none => rfl
  | some s =>
    exfalso
    have hd1 := (describe_output_at h ho1 hp1).2.2.1
    have hd2 := (describe_output_at h ho2 hp2).2.2.1
    exact hj ((summary_single_change cfg H C O cm p s h).1 j1 j2 _ _ hd1 hd2
      (by simp [outDescOf, hne1]) (by simp [outDescOf, hne2]))

/-- foreign WitnessScript next to a non-witness UTXO only (finding F11g, first shape; repaired): unless the
    scriptPubKey being spent is the P2WSH of the WitnessScript's sha256, refused.  Before the repair the
    non-witness branch of `PSBTIn.validate` never looked at the WitnessScript, and `describe` read the
    inputs' quorum off it. -/
theorem tamper_witness_script_without_witness_utxo {Tx} (cfg : DescribeCfg) (H : Hashes) (C : TxCodec Tx)
    (O : Oracles) (cm : Dict Bytes) (p : Psbt Tx) (i : Nat) (txin : TxInV) (pin : PIn Tx) (ws : Script)
    (ht : (C.ins p.tx)[i]? = some txin) (hp : p.ins[i]? = some pin)
    (hpo : pin.prevOut = none) (hw : pin.witnessScript = some ws)
    (hbad : ¬∃ spk, pin.scriptPubkey C txin = some (some spk) ∧ isP2wsh spk = true ∧
      spk.cmds[1]? = scriptSha256 H ws) :
    describe cfg H C O cm p = none := by
  apply describe_refuses_invalid_input cfg H C O cm p i txin pin ht hp
  apply eq_none_of_not_some
  intro hv
  obtain ⟨spk, h1, h2, h3, _⟩ := validateIn_legacy_witness hpo hw hv
  exact hbad ⟨spk, h1, h2, h3⟩

/-- a RedeemScript next to a witness UTXO whose scriptPubKey is not P2SH (finding F11g, second shape;
    repaired).  Before the repair the witness branch ignored such a RedeemScript, and `describe` read the
    inputs' quorum off it. -/
theorem tamper_redeem_on_non_p2sh {Tx} (cfg : DescribeCfg) (H : Hashes) (C : TxCodec Tx)
    (O : Oracles) (cm : Dict Bytes) (p : Psbt Tx) (i : Nat) (txin : TxInV) (pin : PIn Tx)
    (wutxo : TxOutV) (spk r : Script)
    (ht : (C.ins p.tx)[i]? = some txin) (hp : p.ins[i]? = some pin)
    (hpo : pin.prevOut = some wutxo) (hr : pin.redeem = some r)
    (hspk : pin.scriptPubkey C txin = some (some spk)) (hbad : isP2sh spk = false) :
    describe cfg H C O cm p = none := by
  apply describe_refuses_invalid_input cfg H C O cm p i txin pin ht hp
  apply eq_none_of_not_some
  intro hv
  obtain ⟨spk', h1, _, h3, _⟩ := validateIn_witness hpo hv
  rw [hspk] at h1
  cases h1
  have := (h3 r hr).2
  rw [hbad] at this
  cases this

/-! ### what every summarised input satisfied (the positive form of the input items above) -/

/-- the UTXO records of a summarised input match the transaction: the non-witness UTXO hashes to the
    outpoint and has the output spent; a witness UTXO given together with it is that very output; and the
    input has a recorded amount (the one `totalIn` adds up, see `summary_totals`) -/
theorem input_utxo_matches {Tx} (cfg : DescribeCfg) (H : Hashes) (C : TxCodec Tx) (O : Oracles) (cm : Dict Bytes)
    (p : Psbt Tx) (s : Summary) (h : describe cfg H C O cm p = some s)
    (i : Nat) (txin : TxInV) (pin : PIn Tx)
    (ht : (C.ins p.tx)[i]? = some txin) (hp : p.ins[i]? = some pin) :
    (∀ t, pin.prevTx = some t → C.hash t = some txin.prevTx ∧ txin.prevIndex < (C.outs t).length) ∧
    (∀ t wutxo, pin.prevTx = some t → pin.prevOut = some wutxo →
      ∃ utxo, (C.outs t)[txin.prevIndex]? = some utxo ∧ utxo.amount = wutxo.amount ∧
        utxo.spk.cmds = wutxo.spk.cmds) ∧
    ∃ sats, pin.value = some sats := by
  have hok := describe_input_at h ht hp
  exact ⟨fun t hpt => validateIn_prevTx hpt hok.valid,
    fun t wutxo hpt hpo => validateIn_both_utxos hpt hpo hok.valid, hok.value⟩

/-- the input-side analogue of `change_commits_by_hash` (F11f, F11g repaired): the script `describe` read
    the quorum from is committed to *by hash* by the scriptPubKey being spent (`PSBTIn.script_pubkey()`:
    the outpoint's output of the non-witness UTXO, whose hash is the outpoint's txid, or the witness UTXO) —
    a WitnessScript under P2WSH, a RedeemScript (non-witness UTXO only) under P2SH.  So an input whose
    redeem or witness script does not match the transaction is never summarised. -/
theorem input_script_commits {Tx} (cfg : DescribeCfg) (H : Hashes) (C : TxCodec Tx) (O : Oracles) (cm : Dict Bytes)
    (p : Psbt Tx) (s : Summary) (h : describe cfg H C O cm p = some s)
    (i : Nat) (txin : TxInV) (pin : PIn Tx)
    (ht : (C.ins p.tx)[i]? = some txin) (hp : p.ins[i]? = some pin) :
    ∃ script raw spk, scriptQuorum pin.witnessScript pin.redeem = some (script, s.m, s.n) ∧
      rawOf script = some raw ∧ pin.scriptPubkey C txin = some (some spk) ∧
      ((pin.witnessScript = some script ∧ pin.redeem = none ∧ spk.cmds = [.op 0, .push (H.sha256 raw)]) ∨
       (pin.witnessScript = none ∧ pin.redeem = some script ∧ pin.prevOut = none ∧
          spk.cmds = [.op 0xA9, .push (H.hash160 raw), .op 0x87])) := by
  have hok := describe_input_at h ht hp
  obtain ⟨script, m, n, raw, hq, hm, hn, hraw⟩ := hok.quorum
  cases hm
  cases hn
  obtain ⟨hwhich, hlast, _⟩ := scriptQuorum_some hq
  have hnb := hok.notBoth
  rcases hwhich with hw | ⟨hw, hr⟩
  · have hr : pin.redeem = none := by
      cases hr : pin.redeem with
      | none => rfl
      | some r => simp [hw, hr] at hnb
    have key : ∃ spk, pin.scriptPubkey C txin = some (some spk) ∧ isP2wsh spk = true ∧
        spk.cmds[1]? = scriptSha256 H script := by
      cases hpo : pin.prevOut with
      | none =>
        obtain ⟨spk, h1, h2, h3, _⟩ := validateIn_legacy_witness hpo hw hok.valid
        exact ⟨spk, h1, h2, h3⟩
      | some wutxo =>
        obtain ⟨spk, h1, _, _, h4⟩ := validateIn_witness hpo hok.valid
        obtain ⟨h5, _, _, _⟩ := h4 script hw
        obtain ⟨h6, h7⟩ := h5 hr
        rw [← scriptPubkey_cmds_of_prevOut hok.valid hpo h1] at h7
        exact ⟨spk, h1, h6, h7⟩
    obtain ⟨spk, h1, h2, h3⟩ := key
    obtain ⟨b, hcmds, _⟩ := (isP2wsh_iff spk).mp h2
    refine ⟨script, raw, spk, hq, hraw, h1, Or.inl ⟨hw, hr, ?_⟩⟩
    rw [hcmds] at h3 ⊢
    simp [scriptSha256, hraw] at h3
    rw [h3]
  · cases hpo : pin.prevOut with
    | none =>
      obtain ⟨spk, h1, h2, _, h3, _, _⟩ := validateIn_legacy_redeem hpo hr hok.valid
      obtain ⟨b, hcmds, _⟩ := (isP2sh_iff spk).mp h2
      refine ⟨script, raw, spk, hq, hraw, h1, Or.inr ⟨hw, hr, rfl, ?_⟩⟩
      rw [hcmds] at h3 ⊢
      simp [scriptHash160, hraw] at h3
      rw [h3]
    | some wutxo =>
      -- witness UTXO + RedeemScript: the scriptPubKey must be p2sh (F11g), then the RedeemScript a witness
      -- program (F11f) — which a script ending in OP_CHECKMULTISIG is not
      exfalso
      obtain ⟨spk, _, _, h3, _⟩ := validateIn_witness hpo hok.valid
      obtain ⟨h4, h5⟩ := h3 script hr
      have := not_witnessProgram_of_last_op hlast
      simp [h5, this] at h4

/-- further facts about the scripts of a summarised input: exactly one of WitnessScript / RedeemScript is
    attached (so a P2SH-P2WSH input is never summarised), and — in the RedeemScript case and in the
    WitnessScript-with-witness-UTXO case — the named pubkeys occur in the script.  (For a WitnessScript next
    to a non-witness UTXO only, `PSBTIn.validate` does not look the named pubkeys up in the script; their
    derivations are still verified, see `input_keys_derive`.) -/
theorem input_script_details {Tx} (cfg : DescribeCfg) (H : Hashes) (C : TxCodec Tx) (O : Oracles) (cm : Dict Bytes)
    (p : Psbt Tx) (s : Summary) (h : describe cfg H C O cm p = some s)
    (i : Nat) (txin : TxInV) (pin : PIn Tx)
    (ht : (C.ins p.tx)[i]? = some txin) (hp : p.ins[i]? = some pin) :
    (pin.witnessScript = none ∨ pin.redeem = none) ∧
    (pin.prevOut = none → ∀ r, pin.redeem = some r → namedInScript pin.namedPubs r = true) ∧
    (∀ wutxo, pin.prevOut = some wutxo → ∀ ws, pin.witnessScript = some ws →
      namedInScript pin.namedPubs ws = true) := by
  have hok := describe_input_at h ht hp
  have hnb : pin.witnessScript = none ∨ pin.redeem = none := by
    have := hok.notBoth
    cases hw : pin.witnessScript with
    | none => exact Or.inl rfl
    | some w =>
      cases hr : pin.redeem with
      | none => exact Or.inr rfl
      | some r => simp [hw, hr] at this
  refine ⟨hnb, ?_, ?_⟩
  · intro hpo r hr
    obtain ⟨spk, _, _, _, _, _, h5⟩ := validateIn_legacy_redeem hpo hr hok.valid
    exact h5
  · intro wutxo hpo ws hw
    obtain ⟨spk, _, _, _, h4⟩ := validateIn_witness hpo hok.valid
    exact (h4 ws hw).2.2.2

/-- the keys and quorum of a summarised input: as many named pubkeys as the map has cosigners, each the
    key its cosigner's xpub derives at the stated path; the script's quorum is the summary's `(m, n)`, its
    serialisation exists, and `n` is the number of cosigners -/
theorem input_keys_derive {Tx} (cfg : DescribeCfg) (H : Hashes) (C : TxCodec Tx) (O : Oracles) (cm : Dict Bytes)
    (p : Psbt Tx) (s : Summary) (h : describe cfg H C O cm p = some s)
    (i : Nat) (txin : TxInV) (pin : PIn Tx)
    (ht : (C.ins p.tx)[i]? = some txin) (hp : p.ins[i]? = some pin) :
    (hmapOf cm p).length = pin.namedPubs.length ∧ s.n = ((hmapOf cm p).length : Int) ∧
    (∃ script raw, scriptQuorum pin.witnessScript pin.redeem = some (script, s.m, s.n) ∧
      rawOf script = some raw) ∧
    (∀ sec rawPath, (sec, rawPath) ∈ pin.namedPubs →
      ∃ body, dget (hmapOf cm p) (rawPath.take Gen.psbtFingerprintWidth) = some body ∧
        deriveAt O body rawPath = some sec) := by
  have hok := describe_input_at h ht hp
  obtain ⟨script, m, n, raw, hq, hm, hn, hraw⟩ := hok.quorum
  cases hm
  cases hn
  obtain ⟨xfps, hx⟩ := hok.named
  exact ⟨hok.nNamed, describe_n h, ⟨script, raw, hq, hraw⟩, (checkNamedPubs_some hx).2⟩

/-- an input with both a WitnessScript and a RedeemScript (P2SH-P2WSH) is never summarised -/
theorem tamper_both_scripts_input {Tx} (cfg : DescribeCfg) (H : Hashes) (C : TxCodec Tx) (O : Oracles)
    (cm : Dict Bytes) (p : Psbt Tx) (i : Nat) (txin : TxInV) (pin : PIn Tx) (ws r : Script)
    (ht : (C.ins p.tx)[i]? = some txin) (hp : p.ins[i]? = some pin)
    (hw : pin.witnessScript = some ws) (hr : pin.redeem = some r) :
    describe cfg H C O cm p = none := by
  cases h : describe cfg H C O cm p with
  | none => rfl
  | some s =>
    have := (describe_input_at h ht hp).notBoth
    simp [hw, hr] at this

example : (Toy.codec.ins Toy.psbt.tx)[0]? = some Toy.txin ∧ Toy.psbt.ins[0]? = some Toy.pin :=
  ⟨by decide, rfl⟩

/-! ### the hypotheses of the `tamper_*` theorems are satisfiable

Each theorem's hypotheses are equations about fields of the PSBT plus one (in)equation describing the
tampering; below, most of them are instantiated on variants of the toy PSBT `Toy.psbt` (an honest 1-of-2
P2WSH spend, summarised above), by applying the theorem itself.  The remaining ones
(`tamper_foreign_input_script`, `tamper_foreign_output_witness_script`, `..._p2sh_p2wsh`,
`tamper_witness_utxo_on_legacy`, `tamper_prev_tx`, `tamper_missing_utxo`, `tamper_both_scripts_input`, `tamper_*_input`,
`tamper_foreign_fingerprint_*`) have hypotheses of the same shape. -/

example : describe .repaired Toy.hashes Toy.codec Toy.oracles Toy.cmap Toy.psbtSwapped = none :=
  tamper_swapped_spk _ _ _ _ _ _ 0 Toy.swappedOut Toy.swappedMap (Toy.walletScript 6)
    (by decide) (by decide) (by decide) (by decide) (by decide)

example : describe .repaired Toy.hashes Toy.codec Toy.oracles Toy.cmap Toy.psbtOp1 = none :=
  tamper_witness_script_spk _ _ _ _ _ _ 0 Toy.op1Out Toy.changeMap (Toy.walletScript 6)
    (by decide) (by decide) (by decide)
    (by
      rintro (h | ⟨h, _⟩)
      · revert h; decide
      · revert h; decide)

example : describe .repaired Toy.hashes Toy.codec Toy.oracles Toy.cmap Toy.psbtForeignWs = none :=
  tamper_foreign_input_witness_script _ _ _ _ _ _ 0 Toy.txin Toy.pinForeignWs
    { amount := 100, spk := Toy.p2wshOf (Toy.walletScript 5) } (Toy.walletScript 7)
    (by decide) rfl (by decide) (by decide) (by decide) (by decide)

example : describe .repaired Toy.hashes Toy.codec Toy.oracles Toy.cmap Toy.psbtAmount = none :=
  tamper_utxo_amount _ _ _ _ _ _ 0 Toy.txin Toy.pinBoth Toy.prevT
    { amount := 1000, spk := Toy.p2wshOf (Toy.walletScript 5) }
    (by decide) rfl (by decide) (by decide)
    (by
      intro utxo hu
      have : utxo = { amount := 100, spk := Toy.p2wshOf (Toy.walletScript 5) } := by
        have h0 : (Toy.codec.outs Toy.prevT)[Toy.txin.prevIndex]? =
            some { amount := 100, spk := Toy.p2wshOf (Toy.walletScript 5) } := by decide
        rw [h0] at hu
        exact (Option.some.inj hu).symm
      subst this
      left; decide)

example : describe .repaired Toy.hashes Toy.codec Toy.oracles Toy.cmap Toy.psbtOneCosigner = none :=
  tamper_one_cosigner_change _ _ _ _ _ _ rfl 0 Toy.oneCosigner.1 Toy.oneCosigner.2 0 1
    (Toy.body1 ++ [6], Toy.fp1 ++ [6, 0, 0, 0]) (Toy.body1 ++ [7], Toy.fp1 ++ [7, 0, 0, 0])
    (by decide) (by decide) (by decide) (by decide) (by decide) (by decide)

example : describe .repaired Toy.hashes Toy.codec Toy.oracles Toy.cmap Toy.psbtTwoChange = none :=
  tamper_second_change _ _ _ _ _ _ 0 1 Toy.changeOut Toy.change7.1 Toy.changeMap Toy.change7.2
    (by decide) (by decide) (by decide) (by decide) (by decide) (by decide) (by decide)

example : describe .repaired Toy.hashes Toy.codec Toy.oracles Toy.cmap Toy.psbtQuorum = none :=
  tamper_changed_quorum _ _ _ _ _ _ 0 Toy.txin Toy.pin (Toy.walletScript 5) 1 2 0 Toy.quorum22.1 Toy.quorum22.2
    (by decide) rfl (by decide) (by decide) (by decide) (by decide)
    (by
      intro so hq
      have h0 : scriptQuorum Toy.quorum22.2.witnessScript Toy.quorum22.2.redeem =
          some ({ cmds := [.op 82, .push (Toy.body1 ++ [6]), .push (Toy.body2 ++ [6]), .op 82, .op 174] }, 2, 2) := by
        decide
      rw [h0] at hq
      have := (Prod.mk.inj (Prod.mk.inj (Option.some.inj hq)).2).1
      revert this; decide)

example : describe .repaired Toy.hashes Toy.codec Toy.oracles Toy.cmap Toy.psbtNotPlain = none :=
  tamper_not_plain_multisig _ _ _ _ _ _ rfl 0 Toy.notPlain.1 Toy.notPlain.2
    (by decide) (by decide) (by decide)
    (by
      intro script m n hq
      have h0 : scriptQuorum Toy.notPlain.2.witnessScript Toy.notPlain.2.redeem = some (Toy.notPlainScript, 1, 2) := by
        decide
      rw [h0] at hq
      obtain ⟨rfl, rfl, rfl⟩ : Toy.notPlainScript = script ∧ (1 : Int) = m ∧ (2 : Int) = n := by
        have := Option.some.inj hq
        exact ⟨(Prod.mk.inj this).1, (Prod.mk.inj (Prod.mk.inj this).2).1, (Prod.mk.inj (Prod.mk.inj this).2).2⟩
      decide)

example : describe .repaired Toy.hashes Toy.codec Toy.oracles Toy.cmap Toy.psbtWrongPath = none :=
  tamper_wrong_derivation_output _ _ _ _ _ _ 0 Toy.wrongPath.1 Toy.wrongPath.2
    (Toy.body1 ++ [7]) (Toy.fp1 ++ [6, 0, 0, 0]) Toy.body1
    (by decide) (by decide) (by decide) (by decide) (by decide)

example : describe .repaired Toy.hashes Toy.codec Toy.oracles Toy.cmap Toy.psbtUnchecked = none :=
  tamper_witness_script_without_witness_utxo _ _ _ _ _ _ 0 Toy.txin Toy.pinUnchecked (Toy.walletScript 5)
    (by decide) rfl rfl rfl
    (by
      rintro ⟨spk, h1, _, h3⟩
      have h0 : Toy.pinUnchecked.scriptPubkey Toy.codec Toy.txin =
          some (some (Toy.p2wshOf { cmds := [.op 82, .push (Toy.body1 ++ [5]), .push (Toy.body2 ++ [5]), .op 82, .op 174] })) := by
        decide
      rw [h0] at h1
      cases h1
      revert h3; decide)

example : describe .repaired Toy.hashes Toy.codec Toy.oracles Toy.cmap Toy.psbtUnchecked2 = none :=
  tamper_redeem_on_non_p2sh _ _ _ _ _ _ 0 Toy.txin Toy.pinUnchecked2
    { amount := 100, spk := Toy.p2wshOf { cmds := [.op 82, .push (Toy.body1 ++ [5]), .push (Toy.body2 ++ [5]), .op 82, .op 174] } }
    (Toy.p2wshOf { cmds := [.op 82, .push (Toy.body1 ++ [5]), .push (Toy.body2 ++ [5]), .op 82, .op 174] })
    (Toy.walletScript 5)
    (by decide) rfl rfl rfl (by decide) (by decide)

/-! ## D. the defects, with the repair flags off -/

/-- F11a: without the fingerprint test, a change script made of two keys of ONE cosigner (each with that
    cosigner's fingerprint and a valid path) is labelled change — conclusion B.3 fails. -/
theorem F11a_witness :
    ∃ s d, describe { distinctXfps := false, plainMultisig := true } Toy.hashes Toy.codec Toy.oracles Toy.cmap
        Toy.psbtOneCosigner = some s ∧
      s.outputs[0]? = some d ∧ d.isChange = true ∧
      ¬(Toy.oneCosigner.2.namedPubs.map (fun e => e.2.take Gen.psbtFingerprintWidth)).Nodup := by
  refine ⟨{ fee := 10, totalIn := 100, totalOut := 90, spend := 30, change := 60, isBatch := false, m := 1, n := 2,
            inputs := [{ m := 1, n := 2, sats := 100 }],
            outputs := [{ sats := 60, isChange := true }, { sats := 30, isChange := false }],
            rootPaths := [([1, 1, 1, 1], [1, 1, 1, 1, 5, 0, 0, 0]), ([2, 2, 2, 2], [2, 2, 2, 2, 5, 0, 0, 0])] },
    { sats := 60, isChange := true }, by decide, by decide, by decide, by decide⟩

/-- F11e: without the plain-multisig test, `1 <k1> <k2> OP_2DROP 1 <a> <b> 2 OP_CHECKMULTISIG` — which
    `a` or `b` alone can spend — is labelled change because `get_quorum` reads 1-of-2 off its ends and the
    named keys occur in it — conclusion B.2 fails. -/
theorem F11e_witness :
    ∃ s d, describe { distinctXfps := true, plainMultisig := false } Toy.hashes Toy.codec Toy.oracles Toy.cmap
        Toy.psbtNotPlain = some s ∧
      s.outputs[0]? = some d ∧ d.isChange = true ∧
      scriptQuorum Toy.notPlain.2.witnessScript Toy.notPlain.2.redeem = some (Toy.notPlainScript, s.m, s.n) ∧
      plainMultisigOf Toy.notPlainScript s.n Toy.notPlain.2.namedPubs = false := by
  refine ⟨{ fee := 10, totalIn := 100, totalOut := 90, spend := 30, change := 60, isBatch := false, m := 1, n := 2,
            inputs := [{ m := 1, n := 2, sats := 100 }],
            outputs := [{ sats := 60, isChange := true }, { sats := 30, isChange := false }],
            rootPaths := [([1, 1, 1, 1], [1, 1, 1, 1, 5, 0, 0, 0]), ([2, 2, 2, 2], [2, 2, 2, 2, 5, 0, 0, 0])] },
    { sats := 60, isChange := true }, by decide, by decide, by decide, by decide, by decide⟩

/-! ## E. the amounts summed are the amounts of the outputs being spent -/

/-- For an input map produced by PSBTIn.parse from ANY bytes and accepted by PSBTIn.validate, the
    recorded value (what `summary_totals` sums, `tx_in._value` in the code) is: with a non-witness UTXO,
    the amount of the previous transaction's output the input spends (whose hash `input_utxo_matches`
    ties to the outpoint) — also when a witness UTXO is present as well (finding F11d, repaired: the two
    must agree); otherwise the amount of the witness UTXO (which segwit signatures commit to). -/
theorem input_value_is_utxo_amount {Tx : Type} (H : Hashes) (C : TxCodec Tx) (O : Oracles) (net : Option Net)
    (txin : TxInV) (s : Bytes) (p : PIn Tx) (rest : Bytes)
    (hp : parseInMap C O net txin.prevIndex s = some (p, rest)) (hv : validateIn H C txin p = some ()) :
    (∀ t, p.prevTx = some t → ∃ o, (C.outs t)[txin.prevIndex]? = some o ∧ p.value = some o.amount) ∧
    (∀ o, p.prevTx = none → p.prevOut = some o → p.value = some o.amount) :=
  value_is_spent_output_amount H C txin p (parseInMap_valueInv C O net txin.prevIndex s p rest hp) hv

end Buidl.Props.C11
