/-
  C11 — PSBT review summary is faithful: change is only what the wallet can spend.
  (property theorems; helper lemmas in Buidl.Proofs.Psbt*)
-/
import Buidl.Model.PsbtDescribe
namespace Buidl.Props.C11
open Buidl Buidl.Psbt

/-- placeholder replaced below by the full theorem list -/
theorem describe_validates_first {Tx} (cfg : DescribeCfg) (H : Hashes) (C : TxCodec Tx) (O : Oracles)
    (cm : Dict Bytes) (p : Psbt Tx) (h : p.validate H C O = none) : describe cfg H C O cm p = none := by
  simp [describe, h]

end Buidl.Props.C11
