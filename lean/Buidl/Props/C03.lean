/-
  C03 — group law and encodings (property theorems; helper lemmas in Buidl.Proofs.ECGroup / Secp256k1).
-/
import Buidl.Proofs.ECGroup
namespace Buidl.Props.C03
open Buidl Buidl.EC

theorem add_closed (p a b : ℕ) [Fact p.Prime] (hc : CurveOK p a b) {P Q : Pt}
    (hP : Valid p a b P) (hQ : Valid p a b Q) : Valid p a b (padd p a P Q) :=
  padd_valid hc hP hQ

end Buidl.Props.C03
