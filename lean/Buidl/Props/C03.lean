/-
  C03 — secp256k1 group law and public-key encodings are correct for all scalars / points.
  Property theorems only.  Helper lemmas: Buidl.Proofs.ECGroup (generic curves over every prime
  p > 3), Buidl.Proofs.SecpPrime (primality of P and N, N·G = ∞ by kernel computation),
  Buidl.Proofs.Secp256k1 (operators of S256Point), Buidl.Proofs.SecpCodec (square root, encodings).
  The model is Buidl.Model.EC (buidl/pecc.py FieldElement / Point / S256Field / S256Point); the
  constants P, N, A, B, G are Buidl.Gen.Ecc, re-extracted from /repo on every run.

  "The group law" is Mathlib's `AddCommGroup` on `WeierstrassCurve.Affine.Point` of the curve
  `SW p a b : y² = x³ + a x + b` over `ZMod p`; `toGroup` maps a model point (coordinates < p, on
  the curve: `Valid`) to it, injectively.

  Scope notes.
  * `p ∈ {2, 3}` are excluded (`CurveOK` demands `3 < p`): the short Weierstrass formulas are not a
    group law there.
  * Mathlib has no Hasse bound, hence it is not known here that every point of secp256k1 lies in
    ⟨G⟩.  Statements that need the order of a point are for `InG Q` (`Q = k·G` for some integer
    `k` — every point the library can produce from a scalar) or `Tors Q` (`Valid` and
    `Point.__rmul__(N, Q) = ∞`).  Everything else holds for every curve point.
  * O03c: `FieldElement(0, p) ** (k(p-1))` is 1 in the code (`field_pow` excludes it,
    `pow_zero_observation` records it).  O03d: 32 zero bytes parse as the point at infinity
    (`parse_xonly_zero`).
-/
import Buidl.Proofs.SecpCodec
namespace Buidl.Props.C03
open Buidl Buidl.EC

attribute [local irreducible] pmul

/-! ## FieldElement: the field operations of `ZMod p`, for every prime `p` -/

/-- Python's `pow(b, e, m)` -/
theorem powmod_spec (b e m : ℕ) (hm : 0 < m) : powmod b e m = b ^ e % m := powmod_eq b e m hm

/-- `+`, `-`, `*` are the ring operations of `ZMod p`, results are field elements again -/
theorem field_ops (p : ℕ) [Fact p.Prime] (a b : ℕ) :
    ((fadd p a b : ℕ) : ZMod p) = (a : ZMod p) + b ∧ ((fsub p a b : ℕ) : ZMod p) = (a : ZMod p) - b ∧
    ((fmul p a b : ℕ) : ZMod p) = (a : ZMod p) * b ∧
    fadd p a b < p ∧ fsub p a b < p ∧ fmul p a b < p :=
  ⟨fadd_cast p a b, fsub_cast p a b, fmul_cast p a b, fadd_lt p a b, fsub_lt p a b, fmul_lt p a b⟩

/-- `/` is division in the field (Fermat inverse), for every non-zero divisor -/
theorem field_div (p : ℕ) [Fact p.Prime] (a b : ℕ) (hb : (b : ZMod p) ≠ 0) :
    ((fdiv p a b : ℕ) : ZMod p) = (a : ZMod p) / (b : ZMod p) ∧ fdiv p a b < p :=
  ⟨fdiv_cast p a b hb, fdiv_lt p a b⟩

/-- `(a / b) * b = a` on canonical representatives -/
theorem field_div_mul (p : ℕ) [Fact p.Prime] (a b : ℕ) (ha : a < p) (hb : b < p) (hb0 : b ≠ 0) :
    fmul p (fdiv p a b) b = a := by
  have hbz := cast_ne_zero_of_lt p hb hb0
  apply cast_inj_of_lt p (fmul_lt p _ _) ha
  rw [fmul_cast, fdiv_cast p a b hbz, div_mul_cancel₀ _ hbz]

/-- `**` is exponentiation in the field (exponent reduced mod p − 1 by the code) -/
theorem field_pow (p : ℕ) [Fact p.Prime] (x n : ℕ) (h : (x : ZMod p) ≠ 0 ∨ n % (p - 1) ≠ 0 ∨ n = 0) :
    ((fpow p x n : ℕ) : ZMod p) = (x : ZMod p) ^ n ∧ fpow p x n < p :=
  ⟨fpow_cast p x n h, fpow_lt p x n⟩

/-- O03c (observation, not a finding): `0 ** (p − 1)` is 1 in the code -/
theorem pow_zero_observation (p : ℕ) (h2 : 2 ≤ p) : fpow p 0 (p - 1) = 1 :=
  fpow_zero_card_sub_one p h2

/-! ## Point: a commutative group law on every non-singular curve over every prime `p > 3` -/

section generic
variable {p a b : ℕ} [Fact p.Prime]

/-- closure: the sum of two curve points is a curve point — the constructor check inside
    `Point.__add__` never raises (for the order-two doubling this is the repair of F03b) -/
theorem add_closed (hc : CurveOK p a b) {Q R : Pt} (hQ : Valid p a b Q) (hR : Valid p a b R) :
    Valid p a b (padd p a Q R) := padd_valid hc hQ hR

theorem add_comm (hc : CurveOK p a b) {Q R : Pt} (hQ : Valid p a b Q) (hR : Valid p a b R) :
    padd p a Q R = padd p a R Q := padd_comm hc hQ hR

theorem add_assoc (hc : CurveOK p a b) {Q R S : Pt} (hQ : Valid p a b Q) (hR : Valid p a b R)
    (hS : Valid p a b S) : padd p a (padd p a Q R) S = padd p a Q (padd p a R S) :=
  padd_assoc hc hQ hR hS

/-- the point at infinity is the identity -/
theorem add_inf (Q : Pt) : padd p a .inf Q = Q ∧ padd p a Q .inf = Q :=
  ⟨padd_inf_left Q, padd_inf_right Q⟩

/-- inverses: `Q + (−Q) = ∞`, `−Q` is again on the curve, and it is the only such point -/
theorem add_neg (hc : CurveOK p a b) {Q : Pt} (hQ : Valid p a b Q) :
    Valid p a b (pneg p Q) ∧ padd p a Q (pneg p Q) = .inf ∧ padd p a (pneg p Q) Q = .inf ∧
    ∀ R, Valid p a b R → (padd p a Q R = .inf ↔ R = pneg p Q) :=
  ⟨pneg_valid hc hQ, padd_pneg hc hQ, pneg_padd hc hQ, fun _ hR => padd_eq_inf_iff hc hQ hR⟩

/-- doubling a point with `y = 0` gives infinity (F03b, repaired) — and only then -/
theorem add_double_y_zero (x y : ℕ) : padd p a (.aff x y) (.aff x y) = .inf ↔ y = 0 :=
  padd_self_eq_inf_iff x y

/-- **`Point.__add__` is the group law**: `toGroup` is an injective map from the valid model
    points into Mathlib's group of curve points, onto (`ofGroup`), and turns `padd` into `+` -/
theorem add_is_group_law (hc : CurveOK p a b) :
    (∀ Q R, Valid p a b Q → Valid p a b R →
      toGroup p a b (padd p a Q R) = toGroup p a b Q + toGroup p a b R) ∧
    (∀ Q R, Valid p a b Q → Valid p a b R → toGroup p a b Q = toGroup p a b R → Q = R) ∧
    (∀ g, Valid p a b (ofGroup p a b g) ∧ toGroup p a b (ofGroup p a b g) = g) ∧
    toGroup p a b .inf = 0 ∧ (∀ Q, Valid p a b Q → toGroup p a b (pneg p Q) = - toGroup p a b Q) :=
  ⟨fun _ _ hQ hR => toGroup_padd hc hQ hR, fun _ _ hQ hR h => toGroup_inj hc hQ hR h,
   fun g => ⟨ofGroup_valid hc g, toGroup_ofGroup hc g⟩, toGroup_inf, fun _ hQ => toGroup_pneg hc hQ⟩

/-- **`Point.__rmul__` is scalar multiplication** (double-and-add, all `k ≥ 0`), and stays on the curve -/
theorem mul_is_smul (hc : CurveOK p a b) (k : ℕ) {Q : Pt} (hQ : Valid p a b Q) :
    Valid p a b (pmul p a k Q) ∧ toGroup p a b (pmul p a k Q) = k • toGroup p a b Q :=
  ⟨pmul_valid hc k hQ, toGroup_pmul hc k hQ⟩

/-- `(j + k)Q = jQ + kQ`, `0·Q = ∞`, `1·Q = Q`, `(k+1)Q = kQ + Q` -/
theorem mul_add (hc : CurveOK p a b) (j k : ℕ) {Q : Pt} (hQ : Valid p a b Q) :
    pmul p a (j + k) Q = padd p a (pmul p a j Q) (pmul p a k Q) ∧ pmul p a 0 Q = .inf ∧
    pmul p a 1 Q = Q ∧ pmul p a (k + 1) Q = padd p a (pmul p a k Q) Q :=
  ⟨pmul_add hc j k hQ, pmul_zero Q, pmul_one hc hQ, pmul_succ hc k hQ⟩

/-- `(jk)Q = j(kQ)` and `k(Q + R) = kQ + kR` -/
theorem mul_mul (hc : CurveOK p a b) (j k : ℕ) {Q R : Pt} (hQ : Valid p a b Q) (hR : Valid p a b R) :
    pmul p a (j * k) Q = pmul p a j (pmul p a k Q) ∧
    pmul p a k (padd p a Q R) = padd p a (pmul p a k Q) (pmul p a k R) :=
  ⟨pmul_mul hc j k hQ, pmul_padd hc k hQ hR⟩

/-- `Q + Q = 2Q` -/
theorem double_eq_two_mul (hc : CurveOK p a b) {Q : Pt} (hQ : Valid p a b Q) :
    padd p a Q Q = pmul p a 2 Q := (pmul_two hc hQ).symm

/-- a scalar that annihilates the point acts modulo itself -/
theorem mul_mod_order (hc : CurveOK p a b) (n k : ℕ) {Q : Pt} (hQ : Valid p a b Q)
    (hn : pmul p a n Q = .inf) : pmul p a (k % n) Q = pmul p a k Q := pmul_mod hc n k hQ hn

/-- the constructor check is the curve equation -/
theorem on_curve_iff (hc : CurveOK p a b) (x y : ℕ) :
    Valid p a b (.aff x y) ↔ x < p ∧ y < p ∧ y ^ 2 % p = (x ^ 3 + a * x + b) % p :=
  valid_aff_iff hc x y

end generic

-- the hypotheses are satisfiable: small curves, incl. the F03b witness curve y² = x³ + x over F₅
example : CurveOK 5 1 0 ∧ CurveOK 11 0 7 ∧ CurveOK 61 0 7 ∧ ¬ CurveOK 7 0 7 := by decide
example : Valid 5 1 0 (.aff 2 0) ∧ padd 5 1 (.aff 2 0) (.aff 2 0) = .inf := by decide
example : Valid 11 0 7 (.aff 2 2) ∧ padd 11 0 (.aff 2 2) (.aff 3 1) = .aff 7 3 ∧
    pmul 11 0 12 (.aff 2 2) = .inf := by decide +kernel

/-! ## secp256k1 -/

/-- the field modulus and the group order of the code are prime (Pratt certificates), the curve
    is non-singular, `G` is on it and has order exactly `N` -/
theorem secp_setup : Nat.Prime P ∧ Nat.Prime N ∧ CurveOK P A B ∧ Valid P A B G ∧ G ≠ .inf ∧
    pmul P A N G = .inf ∧ addOrderOf (toGroup P A B G) = N :=
  ⟨prime_secpP, prime_secpN, curveOK_secp, G_valid, G_ne_inf, pmul_N_G, addOrderOf_G⟩

/-- closure, commutativity, associativity of `S256Point.__add__` on all curve points -/
theorem secp_add_group {Q R S : Pt} (hQ : Valid P A B Q) (hR : Valid P A B R) (hS : Valid P A B S) :
    Valid P A B (sadd Q R) ∧ sadd Q R = sadd R Q ∧ sadd (sadd Q R) S = sadd Q (sadd R S) ∧
    sadd .inf Q = Q ∧ sadd Q .inf = Q :=
  ⟨sadd_valid hQ hR, sadd_comm hQ hR, sadd_assoc hQ hR hS, sadd_inf_left Q, sadd_inf_right Q⟩

/-- `(a + b)G = aG + bG` for all integers (negative, ≥ N, > 2²⁵⁶: the code reduces mod N) -/
theorem secp_add_hom (a b : ℤ) : smul (a + b) G = sadd (smul a G) (smul b G) :=
  (smul_add G_tors a b).symm

/-- `a(bG) = (ab)G` for all integers -/
theorem secp_mul_assoc (a b : ℤ) : smul a (smul b G) = smul (a * b) G := smul_smul G_tors a b

/-- the same two laws for every point annihilated by N (every `Q ∈ ⟨G⟩`) -/
theorem secp_hom_tors {Q : Pt} (hQ : Tors Q) (a b : ℤ) :
    smul (a + b) Q = sadd (smul a Q) (smul b Q) ∧ smul a (smul b Q) = smul (a * b) Q ∧
    Tors (smul a Q) :=
  ⟨(smul_add hQ a b).symm, smul_smul hQ a b, smul_tors hQ a⟩

theorem inG_tors {Q : Pt} (h : InG Q) : Tors Q := h.tors

/-- `N·Q = ∞` for every `Q ∈ ⟨G⟩`, computed by `Point.__rmul__` without any reduction of the
    coefficient; `S256Point.__rmul__(N, Q)` is `∞` for every point (it multiplies by `N % N = 0`) -/
theorem secp_order {Q : Pt} (h : InG Q) : pmul P A N Q = .inf ∧ smul (N : ℤ) Q = .inf :=
  ⟨pmul_N_of_inG h, smul_N Q⟩

/-- `(k mod N)Q = kQ`: for the code's operator by construction, for true scalar multiplication
    (no reduction) on every `Q ∈ ⟨G⟩` -/
theorem secp_mod (k : ℤ) (Q : Pt) : smul (k % (N : ℤ)) Q = smul k Q := smul_emod k Q

theorem secp_mod_nat (k : ℕ) {Q : Pt} (h : InG Q) : pmul P A (k % N) Q = pmul P A k Q :=
  pmul_mod curveOK_secp N k h.valid h.tors.2

/-- `aG = bG` exactly when `a ≡ b (mod N)`: the order of `G` is exactly `N` -/
theorem secp_scalar_inj (a b : ℤ) : smul a G = smul b G ↔ a % (N : ℤ) = b % (N : ℤ) :=
  smul_G_eq_iff a b

/-- `Q + (−Q) = ∞` for every curve point; `−Q = (−1)·Q` on points annihilated by N -/
theorem secp_add_neg {Q : Pt} (hQ : Valid P A B Q) :
    sadd Q (pneg P Q) = .inf ∧ (Tors Q → smul (-1) Q = pneg P Q ∧ sadd Q (smul (-1) Q) = .inf) :=
  ⟨sadd_pneg hQ, fun h => ⟨smul_neg_one h, sadd_smul_neg_one h⟩⟩

/-- `Q + Q = 2Q` for every curve point -/
theorem secp_double {Q : Pt} (hQ : Valid P A B Q) : sadd Q Q = smul 2 Q := sadd_self hQ

/-- `S256Point + int` is `Q + int·G` -/
theorem secp_add_int (Q : Pt) (k : ℤ) : saddInt Q k = sadd Q (smul k G) := saddInt_eq Q k

/-- `x(−R) = x(R)` and the parity of y flips, for every curve point `R ≠ ∞` (no curve point has
    `y = 0`: −7 is not a cube mod P) -/
theorem secp_neg_xy {Q : Pt} (hQ : Valid P A B Q) (h : Q ≠ .inf) :
    xonly (pneg P Q) = xonly Q ∧ parity (pneg P Q) + parity Q = 1 :=
  ⟨xonly_pneg Q, parity_pneg hQ h⟩

theorem secp_no_two_torsion {x y : ℕ} (h : Valid P A B (.aff x y)) : y ≠ 0 ∧ x ≠ 0 :=
  ⟨valid_y_ne_zero h, valid_x_ne_zero h⟩

/-- `even_point` returns the representative with even y of `±Q` (points annihilated by N) -/
theorem secp_even_point {Q : Pt} (hQ : Tors Q) :
    evenPoint Q = evenRep Q ∧ parity (evenPoint Q) = 0 ∧ xonly (evenPoint Q) = xonly Q ∧
    (evenPoint Q = Q ∨ evenPoint Q = pneg P Q) := by
  refine ⟨evenPoint_eq_evenRep hQ, parity_evenPoint hQ, xonly_evenPoint hQ, ?_⟩
  rw [evenPoint_eq_evenRep hQ, evenRep_eq_ite hQ.1]
  split
  · right; rfl
  · left; rfl

example : InG G := ⟨1, (smul_one G_valid).symm⟩
example : Tors G ∧ Tors (smul (-5) G) ∧ Tors (sadd G (smul 7 G)) :=
  ⟨G_tors, smul_tors G_tors _, sadd_tors G_tors (smul_tors G_tors _)⟩

/-! ## encodings -/

/-- `S256Field.sqrt`: what it returns is a root; it finds a root of every square (P ≡ 3 mod 4);
    it raises on non-squares -/
theorem sqrt_correct :
    (∀ c s, fsqrt c = some s → s < P ∧ s * s % P = c) ∧
    (∀ y, y < P → ∃ s, fsqrt (y * y % P) = some s ∧ (s = y ∨ (y ≠ 0 ∧ s = P - y))) ∧
    (∀ c, (∀ y, y < P → y * y % P ≠ c) → fsqrt c = none) :=
  ⟨fun _ _ h => fsqrt_some h, fun _ hy => fsqrt_sq hy, fun _ h => fsqrt_none_of_nonsquare h⟩

/-- **SEC round trip**: `parse(sec(Q, c)) = Q` for every curve point and both formats; lengths 33 / 65 -/
theorem sec_roundtrip {Q : Pt} (hQ : Valid P A B Q) (c : Bool) {s : Bytes} (h : sec Q c = some s) :
    parseSec s = some Q ∧ parsePoint s = some Q ∧ s.length = (if c then 33 else 65) :=
  ⟨parseSec_sec hQ c h, parsePoint_sec hQ c h, sec_length h⟩

/-- `sec` is defined on every affine point -/
theorem sec_defined (x y : ℕ) (c : Bool) : ∃ s, sec (.aff x y) c = some s := by
  cases c
  · exact ⟨_, sec_uncompressed x y⟩
  · exact ⟨_, sec_compressed x y⟩

/-- **x-only round trip**: `parse(xonly(Q))` is the even-y representative of `±Q` for every curve
    point `Q ≠ ∞`; it is `even_point(Q)` for `Q ∈ ⟨G⟩` -/
theorem xonly_roundtrip {Q : Pt} (hQ : Valid P A B Q) (h0 : Q ≠ .inf) :
    parseXonly (xonly Q) = some (evenRep Q) ∧ parsePoint (xonly Q) = some (evenRep Q) ∧
    (xonly Q).length = 32 ∧ (Tors Q → parseXonly (xonly Q) = some (evenPoint Q)) :=
  ⟨parseXonly_xonly hQ h0, parsePoint_xonly hQ h0, xonly_length Q,
   fun h => parseXonly_xonly_tors h h0⟩

/-- an x-only key determines the point up to sign -/
theorem xonly_determines {Q R : Pt} (hQ : Valid P A B Q) (hR : Valid P A B R) (hQ0 : Q ≠ .inf)
    (hR0 : R ≠ .inf) (h : xonly Q = xonly R) : Q = R ∨ Q = pneg P R := xonly_inj hQ hR hQ0 hR0 h

/-- **soundness of the parsers**: whatever `parse` / `parse_sec` / `parse_xonly` accept is a curve
    point with coordinates `< P` (or, for 32 zero bytes, the point at infinity) -/
theorem parse_sound {b : Bytes} {Q : Pt} :
    (parsePoint b = some Q → Valid P A B Q) ∧ (parseSec b = some Q → Valid P A B Q) ∧
    (parseXonly b = some Q → Valid P A B Q) :=
  ⟨parsePoint_valid, parseSec_valid, parseXonly_valid⟩

theorem parse_sound_coords {b : Bytes} {x y : ℕ} (h : parsePoint b = some (.aff x y)) :
    x < P ∧ y < P ∧ y ^ 2 % P = (x ^ 3 + 7) % P := valid_aff_iff_mod.mp (parsePoint_valid h)

/-- canonicity: a string accepted by `parse_sec` is exactly the SEC encoding of the result, so a
    byte string that is not the encoding of a curve point is rejected -/
theorem parse_sec_canonical {b : Bytes} {Q : Pt} (h : parseSec b = some Q) :
    Valid P A B Q ∧ ∃ c, sec Q c = some b := ⟨parseSec_valid h, sec_of_parseSec h⟩

/-- `parse_xonly` returns the point with the given x and even y -/
theorem parse_xonly_canonical {b : Bytes} {x y : ℕ} (h : parseXonly b = some (.aff x y)) :
    x = beToNat b ∧ y % 2 = 0 ∧ Valid P A B (.aff x y) :=
  ⟨(parseXonly_spec h).1, (parseXonly_spec h).2, parseXonly_valid h⟩

/-- O03d: an all-zero x-only key parses as the point at infinity -/
theorem parse_xonly_zero (b : Bytes) (h : beToNat b = 0) : parseXonly b = some .inf :=
  parseXonly_zero b h

/-- a compressed or x-only key whose x is `≥ P` is rejected -/
theorem parse_rejects_x_ge_p (pre : UInt8) (rest : Bytes) (hx : P ≤ beToNat rest) :
    (pre ≠ 4 → parseSec (pre :: rest) = none) ∧ parseXonly rest = none ∧
    (rest.length = 32 → parsePoint (pre :: rest) = none ∧ parsePoint rest = none) := by
  refine ⟨fun h4 => parseSec_x_ge_p pre rest h4 hx, parseXonly_x_ge_p rest hx, fun hl => ⟨?_, ?_⟩⟩
  · unfold parsePoint
    rw [if_neg (by simp; omega), if_pos (Or.inl (by simp; omega))]
    by_cases h4 : pre = 4
    · exact parseSec_bad_length pre rest (Or.inl ⟨h4, by omega⟩)
    · exact parseSec_x_ge_p pre rest h4 hx
  · unfold parsePoint
    rw [if_pos hl]; exact parseXonly_x_ge_p rest hx

/-- a 33-byte or 32-byte string whose `x³ + 7` is not a square modulo P is rejected -/
theorem parse_rejects_nonresidue (pre : UInt8) (rest : Bytes) (hl : rest.length = 32)
    (hn : ∀ y, y < P → y * y % P ≠ (beToNat rest ^ 3 + 7) % P) :
    parsePoint (pre :: rest) = none ∧ parseSec (pre :: rest) = none ∧
    (beToNat rest ≠ 0 → parsePoint rest = none) := by
  have hs : parseSec (pre :: rest) = none := by
    by_cases h4 : pre = 4
    · exact parseSec_bad_length pre rest (Or.inl ⟨h4, by omega⟩)
    · exact parseSec_nonresidue pre rest h4 hn
  refine ⟨?_, hs, fun h0 => ?_⟩
  · unfold parsePoint
    rw [if_neg (by simp; omega), if_pos (Or.inl (by simp; omega))]; exact hs
  · unfold parsePoint
    rw [if_pos hl]; exact parseXonly_nonresidue rest h0 hn

/-- Euler's criterion makes the hypothesis of `parse_rejects_nonresidue` a computation -/
theorem nonresidue_test {c : ℕ} (h : powmod c ((P - 1) / 2) P = P - 1) :
    ∀ y, y < P → y * y % P ≠ c % P := nonsquare_of_euler h

/-- **prefix / length discipline** (F03a, repaired): only 02/03 with 33 bytes and 04 with 65 bytes
    reach the curve check; `parse` accepts only lengths 32, 33, 65; the empty string is refused -/
theorem parse_prefix_length (pre : UInt8) (rest b : Bytes) :
    (pre ≠ 2 → pre ≠ 3 → pre ≠ 4 → parseSec (pre :: rest) = none) ∧
    (pre = 4 → rest.length ≠ 64 → parseSec (pre :: rest) = none) ∧
    (pre ≠ 4 → rest.length ≠ 32 → parseSec (pre :: rest) = none) ∧
    parseSec [] = none ∧
    (b.length ≠ 32 → b.length ≠ 33 → b.length ≠ 65 → parsePoint b = none) :=
  ⟨parseSec_bad_prefix pre rest, fun h4 hl => parseSec_bad_length pre rest (Or.inl ⟨h4, hl⟩),
   fun h4 hl => parseSec_bad_length pre rest (Or.inr ⟨h4, hl⟩), parseSec_nil,
   fun h1 h2 h3 => parsePoint_bad_length b ⟨h1, h2, h3⟩⟩

/-- the constructor `S256Point(x, y)` accepts exactly the curve points with coordinates `< P` -/
theorem constructor_check (x y : ℕ) :
    (Valid P A B (.aff x y) → mkPoint x y = some (.aff x y)) ∧
    (¬ Valid P A B (.aff x y) → mkPoint x y = none) :=
  ⟨mkPoint_of_valid, mkPoint_none⟩

-- non-vacuity: G round-trips, the F03a witnesses are refused, x = 5 is a non-residue abscissa
example : ∃ s, sec G true = some s ∧ parsePoint s = some G :=
  ⟨_, rfl, parsePoint_sec G_valid true rfl⟩
example : parseXonly (xonly G) = some (evenPoint G) := parseXonly_xonly_tors G_tors G_ne_inf
example (rest : Bytes) : parseSec (5 :: rest) = none :=
  parseSec_bad_prefix 5 rest (by decide) (by decide) (by decide)
example : parseSec (2 :: (natToBE' 32 Gen.secpGx ++ natToBE' 32 Gen.secpGy)) = none :=
  parseSec_bad_length 2 _ (Or.inr ⟨by decide, by simp⟩)
example : ∀ y, y < P → y * y % P ≠ (5 ^ 3 + 7) % P := nonsquare_of_euler (by decide +kernel)

end Buidl.Props.C03
