/-
  C15 — SLIP39 (placeholder while the proofs are being written; replaced by the real theorems).
-/
import Buidl.Model.Shamir
namespace Buidl.Props.C15
open Buidl Buidl.Shamir

theorem constants_fingerprint : Gen.gfReduce = 0x11B ∧ Gen.recSecretX = 255 ∧ Gen.recDigestX = 254 := by decide

end Buidl.Props.C15
