/-
  C15 — SLIP39 shares: any k recover, fewer never do, corruption is detected.
  Property theorems only (helpers: Buidl.Proofs.GF256Table, GF256, ShamirLagrange, ShamirSplit, RS1024,
  ShareCodec, Shamir, ShamirEndToEnd, WordTable).

  Model: Buidl.Model.Shamir (buidl/shamir.py).  HMAC-SHA256 (`hmac256`), PBKDF2-HMAC-SHA256 (`kdf`) and
  SHA-256 are arbitrary functions; the code's randomness is the explicit argument `ρ` (and `id`).
  `GF256` is the 256-element type on which the tables computed as `ShareSet._load` does define a Mathlib
  `Field` (`Buidl.Shamir.GF256.instField`): addition is XOR, multiplication `exp[(log a + log b) % 255]`.

  What the code supports (and the model mirrors): `generate_shares` makes a single-level split — each share
  is its own group with a 1-of-1 member.  Observation O15a: for k = 1 `split_secret` returns the single
  share (0, secret) whatever n (theorem `split_k1`).
-/
import Buidl.Proofs.ShamirEndToEnd
import Buidl.Proofs.RS1024Two
import Buidl.Proofs.RS1024Three
namespace Buidl.Props.C15
open Buidl Buidl.Mnemonic Buidl.Shamir Polynomial

/-! ## the GF(256) tables define a field -/

/-- the tables computed as `_load` does: 255 / 256 entries, `exp` and `log2` mutually inverse on the non-zero
    bytes, `exp[i+1]` is `exp[i]` times the generator, `log2[0] = 0` (the "cheat" `interpolate` relies on) -/
theorem gf256_tables :
    tables.exp.length = 255 ∧ tables.log.length = 256 ∧ logN 0 = 0 ∧ expN 0 = 1 ∧
    (∀ i, i < 255 → 0 < expN i ∧ expN i < 256 ∧ logN (expN i) = i ∧ expN ((i + 1) % 255) = gfNext (expN i)) ∧
    (∀ a, a < 256 → a ≠ 0 → logN a < 255 ∧ expN (logN a) = a) :=
  tables_facts

/-- the field structure is the code's arithmetic: `+` is XOR, `*` is the log/exp product, `⁻¹` the log/exp
    inverse (the `Field GF256` instance itself is `Buidl.Shamir.GF256.instField`) -/
theorem gf256_field_ops (a b : GF256) :
    (a + b).val = a.val ^^^ b.val ∧
    (a * b).val = (if a.val = 0 ∨ b.val = 0 then 0 else expN ((logN a.val + logN b.val) % 255)) ∧
    (a⁻¹).val = (if a.val = 0 then 0 else expN ((255 - logN a.val) % 255)) ∧
    (a - b = a + b) ∧ (a ≠ 0 → a * a⁻¹ = 1) :=
  ⟨rfl, rfl, rfl, GF256.sub_eq_add' a b, fun h => mul_inv_cancel₀ h⟩

/-! ## interpolation -/

/-- `ShareSet.interpolate x shares` is Lagrange interpolation over GF256: for byte coordinates, pairwise
    distinct share indices and `x` outside them, every byte `j` of the result is the Mathlib Lagrange
    interpolant through the points `(index, byte j of the share)` evaluated at `x` -/
theorem interpolate_is_lagrange (x : Nat) (sd : ShareData) (wf : WF x sd) (hne : sd ≠ []) (L : Nat)
    (hL : ∀ sh ∈ sd, sh.2.length = L) :
    ∃ out, interpolate x sd = some out ∧ out.length = L ∧
      ∀ j, j < L → toF (col j out)
        = eval (natF x) (Lagrange.interpolate (nodesF sd).toFinset id (valF sd j)) :=
  interpolate_eq_lagrange wf hne L hL

/-! ## split / recover -/

/-- **any m ≥ k distinct shares of `split_secret s k n ρ` recover `s`** (and pass the digest check), for
    every 2 ≤ k ≤ n ≤ 16, every randomness ρ, both secret lengths, every order of the shares -/
theorem any_k_shares_recover (hmac256 : Bytes → Bytes → Bytes) (hh : ∀ k m, 4 ≤ (hmac256 k m).length)
    (secret : Bytes) (k n : Nat) (ρ : List Nat) (shares : ShareData) (rest : List Nat) (hk : 2 ≤ k)
    (h : splitSecret hmac256 secret k n ρ = .ok shares rest)
    (sub : ShareData) (hsub : ∀ p ∈ sub, p ∈ shares) (hnd : (sub.map (·.1)).Nodup) (hlen : k ≤ sub.length) :
    recoverSecret hmac256 sub = some secret :=
  recoverSecret_of_split hmac256 hh secret k n ρ shares rest hk h sub hsub hnd hlen

/-- **end to end**: the share mnemonics of `generate_shares(mnemonic, k, n, passphrase, exponent)` — for every
    accepted 12- or 24-word mnemonic, 1 ≤ k ≤ n ≤ 16, passphrase, id < 2^15 (`randbits(15)`), exponent < 32,
    randomness ρ — are such that ANY k or more distinct ones, in any order, make
    `recover_mnemonic(·, passphrase)` return the canonical BIP39 mnemonic of the same secret
    (`bytes_to_mnemonic(mnemonic_to_bytes(mnemonic))`; by C14 `roundtrip` this decodes to the original entropy) -/
theorem generate_then_recover (sha256 : Bytes → Bytes) (hmac256 : Bytes → Bytes → Bytes)
    (kdf : Bytes → Bytes → Nat → Nat → Bytes) (hh : ∀ k m, 4 ≤ (hmac256 k m).length)
    (hkdf : ∀ p s c n, (kdf p s c n).length = n) (bip39 slip39 : WordList) (hwl : SLIP39? = some slip39)
    (mnemonic : PyStr) (k n : Nat) (pass : Bytes) (e id : Nat) (ρ : List Nat) (ms : List PyStr)
    (hid : id < 2 ^ 15) (he : e < 32)
    (hgen : generateShares sha256 hmac256 kdf bip39 slip39 mnemonic k n pass e id ρ = .ok ms)
    (sub : List PyStr) (hsub : ∀ m ∈ sub, m ∈ ms) (hnd : sub.Nodup) (hlen : k ≤ sub.length) :
    ∃ secret, mnemonicToBytes sha256 bip39 mnemonic = some secret ∧
      recoverMnemonic sha256 hmac256 kdf bip39 slip39 sub pass
        = bytesToMnemonic sha256 bip39 secret (secret.length * 8) := by
  obtain ⟨wl, h, tok⟩ := slip39_table
  rw [hwl] at h; cases h
  exact generate_recover sha256 hmac256 kdf hh hkdf bip39 slip39 tok mnemonic k n pass e id ρ ms hid he hgen
    sub hsub hnd hlen

/-- the shape of a split for k ≥ 2: `n` shares with indices 0 … n−1 (in this order), k ≤ n ≤ 16,
    secret of 16 or 32 bytes -/
theorem split_shape (hmac256 : Bytes → Bytes → Bytes) (secret : Bytes) (k n : Nat) (ρ : List Nat)
    (shares : ShareData) (rest : List Nat) (hk : 2 ≤ k)
    (h : splitSecret hmac256 secret k n ρ = .ok shares rest) :
    k ≤ n ∧ n ≤ 16 ∧ (secret.length = 16 ∨ secret.length = 32) ∧ shares.map (·.1) = List.range n := by
  obtain ⟨h1, h2, h3, _, sd, more, _, hs, _, hm, _, hsh⟩ := splitSecret_unpack hmac256 secret k n ρ shares rest hk h
  refine ⟨h1, h2, h3, ?_⟩
  rw [hsh, List.map_append]
  have e1 : sd.map (·.1) = List.range' 0 (k - 2) := hs
  have e2 : more.map (·.1) = (List.range n).drop (k - 2) := hm
  rw [e1, e2, List.range_eq_range', List.drop_range']
  simp only [Nat.mul_one]
  rw [List.range'_append_1]
  congr 1; omega

/-- Observation O15a: with k = 1 the code returns ONE share, `(0, secret)`, whatever `n` is; no randomness is
    used.  (`recover` then decrypts that share's value directly.) -/
theorem split_k1 (hmac256 : Bytes → Bytes → Bytes) (secret : Bytes) (n : Nat) (ρ : List Nat)
    (hn : 1 ≤ n ∧ n ≤ 16) (hl : secret.length = 16 ∨ secret.length = 32) :
    splitSecret hmac256 secret 1 n ρ = .ok [(0, secret)] ρ := by
  have hc : Gen.splitLens.contains secret.length = true := by
    rcases hl with h | h <;> rw [h] <;> decide
  unfold splitSecret
  rw [if_neg (by omega), if_neg (by show ¬ n > 16; omega), if_neg (by omega), if_neg (by omega)]
  simp only [hc, Bool.not_true, Bool.false_eq_true, if_false]
  rfl

/-- parameters outside 1 ≤ k ≤ n ≤ 16 or a secret of another length are refused -/
theorem split_rejects (hmac256 : Bytes → Bytes → Bytes) (secret : Bytes) (k n : Nat) (ρ : List Nat)
    (h : n < 1 ∨ n > 16 ∨ k < 1 ∨ k > n ∨ ¬ (secret.length = 16 ∨ secret.length = 32)) :
    splitSecret hmac256 secret k n ρ = .reject := by
  unfold splitSecret
  by_cases h1 : n < 1
  · rw [if_pos h1]
  by_cases h2 : n > Gen.splitMaxN
  · rw [if_neg h1, if_pos h2]
  by_cases h3 : k < 1
  · rw [if_neg h1, if_neg h2, if_pos h3]
  by_cases h4 : k > n
  · rw [if_neg h1, if_neg h2, if_neg h3, if_pos h4]
  rw [if_neg h1, if_neg h2, if_neg h3, if_neg h4]
  have h5 : ¬ (secret.length = 16 ∨ secret.length = 32) := by
    rcases h with h | h | h | h | h
    · exact absurd h h1
    · exact absurd h h2
    · exact absurd h h3
    · exact absurd h h4
    · exact h
  have hc : Gen.splitLens.contains secret.length = false := by
    simp only [Gen.splitLens, List.contains_eq_mem, List.mem_cons, List.not_mem_nil, or_false,
      decide_eq_false_iff_not]
    exact h5
  simp only [hc, Bool.not_false, if_true]

/-! ## too few shares, mixed shares -/

/-- fewer shares than the group threshold k ≥ 2 they carry: `ShareSet.recover` raises -/
theorem fewer_than_k_rejected (hmac256 : Bytes → Bytes → Bytes) (kdf : Bytes → Bytes → Nat → Nat → Bytes)
    (s0 : Share) (r : List Share) (pass : Bytes) (hk : s0.groupThreshold ≠ 1)
    (hlen : (s0 :: r).length < s0.groupThreshold) :
    ShareSet.recover hmac256 kdf (s0 :: r) pass = none :=
  recover_too_few hmac256 kdf s0 r pass hk hlen

/-- the same for `recover_mnemonic` on share mnemonics -/
theorem fewer_than_k_mnemonics_rejected (sha256 : Bytes → Bytes) (hmac256 : Bytes → Bytes → Bytes)
    (kdf : Bytes → Bytes → Nat → Nat → Bytes) (bip39 slip39 : WordList) (ms : List PyStr) (pass : Bytes)
    (s0 : Share) (r : List Share) (hp : mapM? (Share.parse slip39) ms = some (s0 :: r))
    (hk : s0.groupThreshold ≠ 1) (hlen : ms.length < s0.groupThreshold) :
    recoverMnemonic sha256 hmac256 kdf bip39 slip39 ms pass = none :=
  recoverMnemonic_too_few sha256 hmac256 kdf bip39 slip39 ms pass s0 r hp hk hlen

/-- no shares at all: REJECT -/
theorem no_shares_rejected (sha256 : Bytes → Bytes) (hmac256 : Bytes → Bytes → Bytes)
    (kdf : Bytes → Bytes → Nat → Nat → Bytes) (bip39 slip39 : WordList) (pass : Bytes) :
    recoverMnemonic sha256 hmac256 kdf bip39 slip39 [] pass = none := rfl

/-- shares that differ in id, exponent, threshold, count or length, or repeat a (group, member) index, are
    refused by `ShareSet.__init__`: anything accepted is consistent -/
theorem accepted_sets_consistent (shares ss : List Share) (h : ShareSet.new shares = some ss) :
    ss = shares ∧ shares ≠ [] ∧ (1 < shares.length → Consistent shares) :=
  new_some shares ss h

theorem mismatching_id_rejected (shares : List Share) (s t : Share) (hs : s ∈ shares) (ht : t ∈ shares)
    (hne : s.id ≠ t.id) : ShareSet.new shares = none := by
  cases h : ShareSet.new shares with
  | none => rfl
  | some ss =>
    exfalso
    obtain ⟨_, _, hc⟩ := new_some _ _ h
    have hl : 1 < shares.length := by
      cases shares with
      | nil => simp at hs
      | cons a r =>
        cases r with
        | nil =>
          simp only [List.mem_singleton] at hs ht
          exact absurd (hs.trans ht.symm ▸ rfl) hne
        | cons b r' => simp
    exact hne ((hc hl).id s hs t ht)

theorem mismatching_exponent_rejected (shares : List Share) (s t : Share) (hs : s ∈ shares) (ht : t ∈ shares)
    (hne : s.exponent ≠ t.exponent) : ShareSet.new shares = none := by
  cases h : ShareSet.new shares with
  | none => rfl
  | some ss =>
    exfalso
    obtain ⟨_, _, hc⟩ := new_some _ _ h
    have hl : 1 < shares.length := by
      cases shares with
      | nil => simp at hs
      | cons a r =>
        cases r with
        | nil =>
          simp only [List.mem_singleton] at hs ht
          exact absurd (hs.trans ht.symm ▸ rfl) hne
        | cons b r' => simp
    exact hne ((hc hl).exponent s hs t ht)

theorem mismatching_threshold_rejected (shares : List Share) (s t : Share) (hs : s ∈ shares) (ht : t ∈ shares)
    (hne : s.groupThreshold ≠ t.groupThreshold ∨ s.groupCount ≠ t.groupCount) : ShareSet.new shares = none := by
  cases h : ShareSet.new shares with
  | none => rfl
  | some ss =>
    exfalso
    obtain ⟨_, _, hc⟩ := new_some _ _ h
    have hl : 1 < shares.length := by
      cases shares with
      | nil => simp at hs
      | cons a r =>
        cases r with
        | nil =>
          simp only [List.mem_singleton] at hs ht
          subst hs; subst ht
          rcases hne with h | h <;> exact absurd rfl h
        | cons b r' => simp
    rcases hne with h1 | h1
    · exact h1 ((hc hl).threshold s hs t ht)
    · exact h1 ((hc hl).count s hs t ht)

theorem mismatching_length_rejected (shares : List Share) (s t : Share) (hs : s ∈ shares) (ht : t ∈ shares)
    (hne : s.shareBitLength ≠ t.shareBitLength) : ShareSet.new shares = none := by
  cases h : ShareSet.new shares with
  | none => rfl
  | some ss =>
    exfalso
    obtain ⟨_, _, hc⟩ := new_some _ _ h
    have hl : 1 < shares.length := by
      cases shares with
      | nil => simp at hs
      | cons a r =>
        cases r with
        | nil =>
          simp only [List.mem_singleton] at hs ht
          exact absurd (hs.trans ht.symm ▸ rfl) hne
        | cons b r' => simp
    exact hne ((hc hl).length s hs t ht)

/-- the same at the level of `recover_mnemonic` -/
theorem recover_mnemonic_accepts_only_consistent (sha256 : Bytes → Bytes) (hmac256 : Bytes → Bytes → Bytes)
    (kdf : Bytes → Bytes → Nat → Nat → Bytes) (bip39 slip39 : WordList) (ms : List PyStr) (pass : Bytes)
    (m : PyStr) (h : recoverMnemonic sha256 hmac256 kdf bip39 slip39 ms pass = some m) :
    ∃ shares, mapM? (Share.parse slip39) ms = some shares ∧ shares ≠ [] ∧
      (1 < shares.length → Consistent shares) :=
  recoverMnemonic_consistent sha256 hmac256 kdf bip39 slip39 ms pass m h

/-! ## encryption -/

/-- `decrypt (encrypt x) = x` for every round function of the requested output length (Feistel structure),
    every payload, id, exponent and passphrase on which `encrypt` succeeds -/
theorem decrypt_encrypt (kdf : Bytes → Bytes → Nat → Nat → Bytes) (hk : ∀ p s c n, (kdf p s c n).length = n)
    (payload : Bytes) (id exponent : Nat) (pass c : Bytes)
    (h : encrypt kdf payload id exponent pass = some c) :
    decrypt kdf c id exponent pass = some payload ∧ c.length = payload.length :=
  Shamir.decrypt_encrypt kdf hk payload id exponent pass c h

/-- `encrypt` succeeds exactly on non-empty even-length payloads with `id < 2^16` and an iteration count
    `2500 << e` that fits a C int -/
theorem encrypt_domain (kdf : Bytes → Bytes → Nat → Nat → Bytes) (payload : Bytes) (id exponent : Nat)
    (pass : Bytes) :
    (encrypt kdf payload id exponent pass).isSome ↔
      payload.length % 2 = 0 ∧ 2 ≤ payload.length ∧ 2500 <<< exponent ≤ 2147483647 ∧ id < 2 ^ 16 := by
  unfold encrypt crypt
  by_cases heven : payload.length % 2 = 0
  · by_cases hbad : payload.length / 2 < 1 ∨ Gen.baseIterations <<< exponent > 2147483647
    · simp only [heven, bne_self_eq_false, Bool.false_eq_true, if_false, hbad, if_true, Option.isSome_none,
        Bool.false_eq_true, false_iff]
      rcases hbad with h | h
      · omega
      · intro hh; have : Gen.baseIterations <<< exponent = 2500 <<< exponent := rfl; omega
    · have hb2 : 2 ≤ payload.length ∧ 2500 <<< exponent ≤ 2147483647 := by
        have : Gen.baseIterations <<< exponent = 2500 <<< exponent := rfl
        omega
      by_cases hid : id < 256 ^ Gen.saltIdWidth
      · simp only [heven, bne_self_eq_false, Bool.false_eq_true, if_false, hbad, natToBE, hid, if_true,
          Option.isSome_some, true_iff]
        exact ⟨trivial, hb2.1, hb2.2, hid⟩
      · simp only [heven, bne_self_eq_false, Bool.false_eq_true, if_false, hbad, natToBE, hid,
          Option.isSome_none, Bool.false_eq_true, false_iff]
        intro hh; exact hid hh.2.2.2
  · simp [heven]

/-! ## share mnemonics -/

/-- `Share.parse (share.mnemonic()) = share` for every share whose fields are in range
    (id < 2^15, exponent < 32, indices < 16, 1 ≤ thresholds ≤ counts ≤ 16, length a multiple of 16 and
    ≥ 128, value < 2^length) -/
theorem parse_mnemonic_roundtrip (slip39 : WordList) (hwl : SLIP39? = some slip39) (s : Share)
    (ok : ShareOK s) : ∃ m, Share.mnemonic slip39 s = some m ∧ Share.parse slip39 m = some s := by
  obtain ⟨wl, h, tok⟩ := slip39_table
  rw [hwl] at h; cases h
  exact parse_mnemonic slip39 tok s ok

/-- `Share(...)` accepts exactly in-range arguments and stores them with the big-endian value bytes -/
theorem share_init_iff (sbl id e gi gt gc mi mt v : Nat) (sh : Share) :
    Share.new sbl id e gi gt gc mi mt v = some sh ↔
      (gi ≤ 15 ∧ 1 ≤ gt ∧ gt ≤ gc ∧ gc ≤ 16 ∧ mi ≤ 15 ∧ 1 ≤ mt ∧ mt ≤ 16 ∧ v < 256 ^ (sbl / 8) ∧
        sh = ⟨sbl, id, e, gi, gt, gc, mi, mt, v, natToBE' (sbl / 8) v⟩) :=
  share_new_some sbl id e gi gt gc mi mt v sh

/-- soundness of `Share.parse`: whatever it returns has in-range fields, re-encodes (`mnemonic()`), and the
    re-encoding parses to the same share — also for the non-canonical word counts `parse` tolerates -/
theorem parse_sound (slip39 : WordList) (hwl : SLIP39? = some slip39) (m : PyStr) (sh : Share)
    (h : Share.parse slip39 m = some sh) :
    ShareOK sh ∧ ∃ m', Share.mnemonic slip39 sh = some m' ∧ Share.parse slip39 m' = some sh := by
  obtain ⟨wl, h', tok⟩ := slip39_table
  rw [hwl] at h'; cases h'
  exact parse_then_mnemonic slip39 tok m sh h

/-- histories on ONE `ShareSet` object: `recover` does not change the object — asking again (after any other
    `recover`, whatever its passphrase or outcome) gives the same answer; only assignments to `.shares` matter,
    and the id / exponent / threshold / count used are those fixed at construction -/
theorem shareset_recover_repeatable (hmac256 : Bytes → Bytes → Bytes) (kdf : Bytes → Bytes → Nat → Nat → Bytes)
    (o : ShareSetObj) (p q : Bytes) :
    ∃ a b, o.run hmac256 kdf [.recover p, .recover q, .recover p] = [a, b, a] :=
  ⟨_, _, rfl⟩

theorem shareset_history_step (hmac256 : Bytes → Bytes → Bytes) (kdf : Bytes → Bytes → Nat → Nat → Bytes)
    (o : ShareSetObj) (p : Bytes) (l : List Share) (ops : List SsOp) :
    o.run hmac256 kdf (.recover p :: ops)
      = recoverWith hmac256 kdf o.id o.exponent o.groupThreshold o.groupCount o.shares p :: o.run hmac256 kdf ops ∧
    o.run hmac256 kdf (.setShares l :: ops) = ({ o with shares := l } : ShareSetObj).run hmac256 kdf ops :=
  ⟨rfl, rfl⟩

/-- a freshly constructed object answers as `ShareSet.recover` on its share list -/
theorem shareset_fresh (hmac256 : Bytes → Bytes → Bytes) (kdf : Bytes → Bytes → Nat → Nat → Bytes)
    (shares : List Share) (o : ShareSetObj) (h : ShareSetObj.new shares = some o) (p : Bytes) :
    o.run hmac256 kdf [.recover p] = [ShareSet.recover hmac256 kdf shares p] := by
  unfold ShareSetObj.new at h
  cases hn : ShareSet.new shares with
  | none => rw [hn] at h; cases h
  | some ss =>
    obtain ⟨hss, _, _⟩ := new_some _ _ hn
    subst hss
    rw [hn] at h
    cases ss with
    | nil => cases h
    | cons s0 r =>
      simp only [Option.some.injEq] at h
      subst h
      rfl

/-- the SLIP39 table: 1024 lower-case words, every stored key (word, four-letter prefix) unique -/
theorem slip39_table_facts :
    ∃ wl, SLIP39? = some wl ∧ wl.words.length = 1024 ∧ KeysUnique wl.words ∧
      ∀ w ∈ wl.words, IsWord w := by
  obtain ⟨wl, h, tok⟩ := slip39_table
  exact ⟨wl, h, tok.hlen, tok.huniq, fun w hw => (lowerWord_isWord w (tok.hlower w hw)).1⟩

/-! ## RS1024 -/

/-- the checksum words of `rs1024_create_checksum` verify -/
theorem rs1024_create_verifies (cs : Bytes) (data : List Nat) (hd : ∀ v ∈ data, v < 1024) :
    rs1024Verify cs (data ++ rs1024Create cs data) = true :=
  verify_create cs data (fun v hv => by have := hd v hv; omega)

/-- any single-word error is detected, at every length and position: if a sequence of word indices verifies,
    no sequence differing from it in exactly one position does -/
theorem rs1024_single_error (cs : Bytes) (pre post : List Nat) (a a' : Nat) (ha : a < 1024) (ha' : a' < 1024)
    (hne : a ≠ a') (hok : rs1024Verify cs (pre ++ a :: post) = true) :
    rs1024Verify cs (pre ++ a' :: post) = false :=
  verify_single_error cs pre post a a' (by omega) (by omega) hne hok

/-- at the level of `Share.parse`: replacing one word of a share mnemonic that parses by a word with another
    table index, or by an unknown word, gives REJECT -/
theorem share_single_word_error (slip39 : WordList) (hwl : SLIP39? = some slip39) (pre post : List PyStr)
    (w w' : PyStr) (sh : Share)
    (h : (lookupAll slip39 (pre ++ w :: post)).bind Share.ofIndices = some sh)
    (hne : slip39.lookup w' ≠ slip39.lookup w) :
    (lookupAll slip39 (pre ++ w' :: post)).bind Share.ofIndices = none := by
  obtain ⟨wl, h', tok⟩ := slip39_table
  rw [hwl] at h'; cases h'
  exact parse_single_word_error slip39 (by rw [tok.hlen]; decide) pre post w w' sh h hne

/-- two wrong words are detected whenever they are at most 63 positions apart — hence at every pair of
    positions of a 20- or 33-word share (26 / 39 values with the customization string).  Kernel computation
    `two_check`: for 1 ≤ g ≤ 63 no non-zero XOR combination of `L^g(2^j)`, j < 10, is below 1024. -/
theorem rs1024_two_errors_partial (cs : Bytes) (pre mid post : List Nat) (a a' b b' : Nat) (ha : a < 1024)
    (ha' : a' < 1024) (hb : b < 1024) (hb' : b' < 1024) (hna : a ≠ a') (hmid : mid.length + 1 ≤ 63)
    (hok : rs1024Verify cs (pre ++ a :: (mid ++ b :: post)) = true) :
    rs1024Verify cs (pre ++ a' :: (mid ++ b' :: post)) = false :=
  verify_two_errors cs pre mid post a a' b b' ha ha' hb hb' hna hmid hok

/-- **up to three wrong words** — the first and the last at most 32 positions apart, i.e. every choice of
    positions in a 20- or 33-word share — are never accepted (`b = b'` / `c = c'` allowed: one and two wrong
    words are included).  Kernel certificate `three_check`: for all 1 ≤ g < s ≤ 32 the 20 high parts of
    `L^s(2^j)`, `L^g(2^j)` (j < 10) are linearly independent over GF(2) (an inverse matrix is computed by an
    unverified Gauss–Jordan and then checked). -/
theorem rs1024_three_errors_partial (cs : Bytes) (pre mid1 mid2 post : List Nat) (a a' b b' c c' : Nat)
    (ha : a < 1024) (ha' : a' < 1024) (hb : b < 1024) (hb' : b' < 1024) (hc : c < 1024) (hc' : c' < 1024)
    (hna : a ≠ a') (hspan : mid1.length + 1 + (mid2.length + 1) ≤ 32)
    (hok : rs1024Verify cs (pre ++ a :: (mid1 ++ b :: (mid2 ++ c :: post))) = true) :
    rs1024Verify cs (pre ++ a' :: (mid1 ++ b' :: (mid2 ++ c' :: post))) = false :=
  verify_three_errors cs pre mid1 mid2 post a a' b b' c c' ha ha' hb hb' hc hc' hna hspan hok

-- UNPROVED: two- and three-word errors in sequences LONGER than shares can be (three errors spanning more
--   than 33 positions, two errors more than 63 apart): the general minimum-distance-4 statement of the
--   Reed–Solomon code over GF(1024) for all lengths up to 1023.  Not needed for any share the code can
--   produce or parse as 20 / 33 words; the finite certificates above cover those completely.

/-! ## extracted constants the model's literals stand for -/

/-- the RS1024 generator and customization string are those of SLIP-0039 -/
theorem rs1024_is_slip39 :
    Gen.rs1024Gen = [0xE0E040, 0x1C1C080, 0x3838100, 0x7070200, 0xE0E0009, 0x1C0C2412, 0x38086C24, 0x3090FC48,
      0x21B1F890, 0x3F3F120] ∧ Gen.rsGenCount = 10 ∧ Gen.rsTopShift = 20 ∧ Gen.rsLowMask = 0xFFFFF ∧
    Gen.rsWordBits = 10 ∧ Gen.parseCustomization = [115, 104, 97, 109, 105, 114] := by
  decide

theorem layout_constants :
    Gen.shareParseInts = [0, 5, 1, 5, 1, 31, 2, 6, 2, 2, 15, 1, 2, 3, 2, 3, 8, 1, 3, 4, 15, 3, 15, 1, 0, 4, 3,
      10, 7, 10, 16, 16, 0, 128] ∧
    Gen.shareMnemonicInts = [5, 4, 4, 1, 4, 1, 4, 4, 1, 10, 10, 4, 10, 10, 1, 1023] ∧
    Gen.shareInitCmp = [("Lt", 0), ("Gt", 15), ("Lt", 1), ("Lt", 1), ("Gt", 16), ("Lt", 0), ("Gt", 15),
      ("Lt", 1), ("Gt", 16)] ∧
    Gen.rsCreateInts = [0, 0, 0, 1, 10, 2, 1023, 3] ∧ Gen.rsInit = 1 ∧ Gen.rsVerifyConst = 1 ∧
    Gen.setInitCmp = [("Gt", 1), ("NotEq", 1), ("NotEq", 1), ("NotEq", 1), ("NotEq", 1), ("NotEq", 1)] ∧
    Gen.recoverCmp = [("Eq", 0), ("NotEq", 1), ("Eq", 1), ("Eq", 1)] ∧
    Gen.splitCmp = [("Lt", 1), ("Gt", 16), ("Lt", 1), ("Eq", 1)] ∧
    Gen.splitInts = [1, 16, 1, 16, 32, 1, 0, 8, 4, 8, 2, 254, 255, 2] ∧
    Gen.interpolateInts = [0, 1, 255, 255, 0, 0] ∧ Gen.cryptInts = [2, 2, 2, 2500] ∧
    Gen.genSharesInts = [0, 8, 128, 256, 15, 0, 1] ∧ Gen.kdfHash = "sha256" ∧
    Gen.encryptRounds = [0, 1, 2, 3] ∧ Gen.decryptRounds = [3, 2, 1, 0] ∧
    Gen.recSecretX = Gen.splitSecretX ∧ Gen.recDigestX = Gen.splitDigestX ∧
    Gen.parseCustomization = Gen.mnemonicCustomization ∧ Gen.gfReduce = 0x11B ∧ rsGenOK = true := by
  decide

/-! ## non-vacuity -/

example : ∃ wl, SLIP39? = some wl := by
  obtain ⟨wl, h, _⟩ := slip39_table_facts; exact ⟨wl, h⟩

example : WF 255 [(0, [1, 2]), (1, [3, 4])] := ⟨by decide, by decide, by decide, by decide⟩

end Buidl.Props.C15
