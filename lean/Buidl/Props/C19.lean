/-
  C19 — P2P framing and primitive wire codecs are exact inverses and reject corruption.
  Property theorems only (helper lemmas: Buidl.Proofs.Bytes, Buidl.Proofs.Wire).
  The models are Buidl.Model.Bytes / Buidl.Model.Wire (constants from Buidl.Gen.*,
  re-extracted from /repo on every run).  `hash256` is an arbitrary function.
-/
import Buidl.Proofs.Wire
import Buidl.Spec.Wire
namespace Buidl.Props.C19
open Buidl Buidl.Wire

/-! ## compact-size integers and variable-length strings -/

/-- every integer below 2^64 is encodable, nothing else is -/
theorem varint_domain (n : Nat) : (encodeVarint n).isSome ↔ n < 2 ^ 64 :=
  encodeVarint_isSome_iff n

/-- decoding inverts encoding, on a stream with any continuation -/
theorem varint_roundtrip (n : Nat) (e rest : Bytes) (h : encodeVarint n = some e) :
    readVarint (e ++ rest) = some (n, rest) :=
  readVarint_encodeVarint n rest e h

/-- protocol layout: 1 / 3 / 5 / 9 bytes, switching exactly at 0xfd, 0x10000, 0x100000000 -/
theorem varint_layout (n : Nat) (e : Bytes) (h : encodeVarint n = some e) :
    e.length = if n < 0xFD then 1 else if n < 0x10000 then 3 else if n < 0x100000000 then 5 else 9 :=
  encodeVarint_length n e h

/-- first byte is the protocol's marker and the tail is the little-endian value -/
theorem varint_bytes (n : Nat) (h : n < 2 ^ 64) :
    encodeVarint n = some (
      if n < 0xFD then [UInt8.ofNat n]
      else if n < 0x10000 then 0xFD :: natToLE' 2 n
      else if n < 0x100000000 then 0xFE :: natToLE' 4 n
      else 0xFF :: natToLE' 8 n) := by
  by_cases h0 : n < 0xFD
  · rw [encodeVarint_c0 h0, if_pos h0]
  · by_cases h1 : n < 0x10000
    · rw [encodeVarint_c1 h0 h1, if_neg h0, if_pos h1]
    · by_cases h2 : n < 0x100000000
      · rw [encodeVarint_c2 h1 h2, if_neg h0, if_neg h1, if_pos h2]
      · rw [encodeVarint_c3 h2 (by omega), if_neg h0, if_neg h1, if_neg h2]

/-- (a byte string of 2^63 bytes or more cannot exist in memory; `BytesIO.read` refuses such a length) -/
theorem varstr_roundtrip (b e rest : Bytes) (hb : b.length < 2 ^ 63) (h : encodeVarstr b = some e) :
    readVarstr (e ++ rest) = some (b, rest) :=
  readVarstr_encodeVarstr b rest e hb h

example : encodeVarint 0xFC = some [0xFC] ∧ encodeVarint 0xFD = some [0xFD, 0xFD, 0]
    ∧ encodeVarint 0x10000 = some [0xFE, 0, 0, 1, 0] := by decide

/-! ## fixed-width integers -/

theorem le_roundtrip (n w : Nat) (b : Bytes) (h : natToLE n w = some b) :
    b.length = w ∧ leToNat b = n :=
  ⟨natToLE_length h, leToNat_of_natToLE h⟩

theorem le_domain (n w : Nat) : (natToLE n w).isSome ↔ n < 256 ^ w := by
  unfold natToLE; split <;> simp [*]

theorem le_decode_encode (b : Bytes) : natToLE (leToNat b) b.length = some b := by
  rw [natToLE_some (leToNat_lt b), natToLE'_leToNat]

theorem be_roundtrip (n w : Nat) (b : Bytes) (h : natToBE n w = some b) :
    b.length = w ∧ beToNat b = n := by
  unfold natToBE at h
  split at h
  · next hlt => cases h; exact ⟨natToBE'_length w n, beToNat_natToBE' hlt⟩
  · cases h

theorem be_decode_encode (b : Bytes) : natToBE (beToNat b) b.length = some b := by
  have hlt : beToNat b < 256 ^ b.length := by
    have := leToNat_lt b.reverse
    rwa [← beToNat_reverse, List.reverse_reverse, List.length_reverse] at this
  simp only [natToBE, hlt, if_true]
  rw [natToBE'_beToNat]

/-! ## network envelope -/

/-- Round trip: an envelope with a well-formed command and a payload shorter than 2^32 bytes
    serialises, and parsing the bytes (followed by anything) returns the same envelope and
    leaves exactly the continuation unread.  `hash256` is arbitrary but must return at least
    4 bytes (the real one returns 32). -/
theorem envelope_serialize (hash256 : Bytes → Bytes) (e : Envelope) (hp : e.payload.length < 2 ^ 32) :
    e.serialize hash256 = some (e.magic ++ e.command ++ List.replicate (12 - e.command.length) 0
      ++ natToLE' 4 e.payload.length ++ (hash256 e.payload).take 4 ++ e.payload) := by
  have hlw : e.payload.length < 256 ^ 4 := by omega
  simp only [Envelope.serialize, Gen.envSerLenWidth, natToLE_some hlw]
  rfl

theorem envelope_roundtrip (hash256 : Bytes → Bytes) (hh : ∀ b, 4 ≤ (hash256 b).length)
    (net : String) (e : Envelope) (rest : Bytes)
    (hm : magicOf net = some e.magic) (hc : CmdWF e.command) (hp : e.payload.length < 2 ^ 32) :
    ∃ s, e.serialize hash256 = some s ∧ Envelope.parse hash256 net (s ++ rest) = some (e, rest) := by
  obtain ⟨hc1, hc2, hc3⟩ := hc
  have hml := magicOf_length hm
  have hlw : e.payload.length < 256 ^ 4 := by omega
  refine ⟨_, envelope_serialize hash256 e hp, ?_⟩
  simp only [Envelope.parse, Gen.envParMagicWidth,
    Gen.envParCommandWidth, Gen.envParLenWidth, Gen.envParChecksumWidth, Gen.envParHashWidth,
    Option.pure_def, Option.bind_eq_bind, List.append_assoc]
  have hck : ((hash256 e.payload).take 4).length = 4 := by
    have := hh e.payload; simp; omega
  have hcmd : (e.command ++ List.replicate (12 - e.command.length) (0 : UInt8)).length = 12 := by
    simp; omega
  rw [take_append_len _ _ 4 hml, drop_append_len _ _ 4 hml]
  have hne : e.magic ≠ [] := by intro h; rw [h] at hml; simp at hml
  rw [if_neg hne, hm]
  simp only [Option.bind_some, ne_eq, not_true_eq_false, if_false]
  rw [← List.append_assoc e.command, take_append_len _ _ 12 hcmd, drop_append_len _ _ 12 hcmd,
    stripZeros_pad _ _ hc2 hc3,
    take_append_len _ _ 4 (natToLE'_length 4 _), drop_append_len _ _ 4 (natToLE'_length 4 _),
    leToNat_natToLE'_of_lt hlw,
    take_append_len _ _ 4 hck, drop_append_len _ _ 4 hck,
    take_append_len _ _ _ rfl, drop_append_len _ _ _ rfl]
  simp

/-- Soundness of parsing ("accepted exactly when"): whatever bytes are parsed successfully are,
    byte for byte, magic ‖ 12-byte command field ‖ 4-byte LE length ‖ first four bytes of
    hash256(payload) ‖ payload ‖ unread rest.  Hence a wrong magic, a wrong checksum or a payload
    shorter than declared is never accepted. -/
theorem envelope_parse_sound (hash256 : Bytes → Bytes) (hh : ∀ b, 4 ≤ (hash256 b).length)
    (net : String) (s : Bytes) (e : Envelope) (rest : Bytes)
    (h : Envelope.parse hash256 net s = some (e, rest)) :
    magicOf net = some e.magic ∧
    ∃ cmdField len : Bytes, cmdField.length = 12 ∧ stripZeros cmdField = e.command ∧
      len.length = 4 ∧ leToNat len = e.payload.length ∧
      s = e.magic ++ cmdField ++ len ++ (hash256 e.payload).take 4 ++ e.payload ++ rest := by
  simp only [Envelope.parse, Gen.envParMagicWidth, Gen.envParCommandWidth, Gen.envParLenWidth,
    Gen.envParChecksumWidth, Gen.envParHashWidth, Option.pure_def, Option.bind_eq_bind] at h
  split at h
  · cases h
  · cases hm : magicOf net with
    | none => rw [hm] at h; cases h
    | some magic =>
      rw [hm] at h
      simp only [Option.bind_some] at h
      split at h
      · cases h
      · next hmag =>
        split at h
        · cases h
        · next hlen =>
          split at h
          · cases h
          · next hck =>
            simp only [ne_eq, Decidable.not_not] at hmag hlen hck
            simp only [Option.some.injEq, Prod.mk.injEq] at h
            obtain ⟨he, hrest⟩ := h
            subst he
            have hcl : ((((s.drop 4).drop 12).drop 4).take 4).length = 4 := by
              rw [← hck, List.length_take]; exact Nat.min_eq_left (hh _)
            simp only [List.length_take, List.length_drop] at hcl
            refine ⟨rfl, (s.drop 4).take 12, ((s.drop 4).drop 12).take 4, ?_, rfl, ?_, ?_, ?_⟩
            · simp only [List.length_take, List.length_drop]; omega
            · simp only [List.length_take, List.length_drop]; omega
            · simp only; rw [hlen]
            · simp only
              rw [hck, ← hmag, ← hrest]
              simp only [List.append_assoc, List.take_append_drop]

/-- a stream that does not start with the network's magic is rejected -/
theorem envelope_wrong_magic (hash256 : Bytes → Bytes) (net : String) (s : Bytes) (m : Bytes)
    (hm : magicOf net = some m) (hne : s.take 4 ≠ m) : Envelope.parse hash256 net s = none := by
  simp only [Envelope.parse, Gen.envParMagicWidth, Option.pure_def, Option.bind_eq_bind, hm, Option.bind_some]
  split <;> simp [hne]

example : CmdWF [0x76, 0x65, 0x72, 0x61, 0x63, 0x6b] ∧ magicOf "mainnet" = some [0xf9, 0xbe, 0xb4, 0xd9] := by
  decide

/-! ## block header -/

/-- a header whose fields have their protocol widths -/
def HeaderWF (h : Header) : Prop :=
  h.version < 2 ^ 32 ∧ h.timestamp < 2 ^ 32 ∧ h.prevBlock.length = 32 ∧ h.merkleRoot.length = 32 ∧
  h.bits.length = 4 ∧ h.nonce.length = 4

theorem header_serialize (h : Header) (hv : h.version < 2 ^ 32) (ht : h.timestamp < 2 ^ 32) :
    h.serialize = some (natToLE' 4 h.version ++ h.prevBlock.reverse ++ h.merkleRoot.reverse
      ++ natToLE' 4 h.timestamp ++ h.bits ++ h.nonce) := by
  have hv' : h.version < 256 ^ 4 := by omega
  have ht' : h.timestamp < 256 ^ 4 := by omega
  simp only [Header.serialize, natToLE_some hv', natToLE_some ht']; rfl

theorem header_roundtrip (h : Header) (rest : Bytes) (wf : HeaderWF h) :
    ∃ s, h.serialize = some s ∧ s.length = 80 ∧ Header.parse (s ++ rest) = (h, rest) := by
  obtain ⟨hv, ht, hp, hr, hb, hn⟩ := wf
  have hv' : h.version < 256 ^ 4 := by omega
  have ht' : h.timestamp < 256 ^ 4 := by omega
  refine ⟨_, header_serialize h hv ht, ?_, ?_⟩
  · simp [hp, hr, hb, hn]
  · simp only [Header.parse, List.append_assoc]
    have l1 := natToLE'_length 4 h.version
    have l2 : h.prevBlock.reverse.length = 32 := by simp [hp]
    have l3 : h.merkleRoot.reverse.length = 32 := by simp [hr]
    have l4 := natToLE'_length 4 h.timestamp
    simp only [take_append_len _ _ 4 l1, drop_append_len _ _ 4 l1, take_append_len _ _ 32 l2,
      drop_append_len _ _ 32 l2, take_append_len _ _ 32 l3, drop_append_len _ _ 32 l3,
      take_append_len _ _ 4 l4, drop_append_len _ _ 4 l4, take_append_len _ _ 4 hb, drop_append_len _ _ 4 hb,
      take_append_len _ _ 4 hn, drop_append_len _ _ 4 hn,
      leToNat_natToLE'_of_lt hv', leToNat_natToLE'_of_lt ht', List.reverse_reverse]

/-- parsing any 80 bytes and re-serialising reproduces them -/
theorem header_parse_serialize (s : Bytes) (hs : 80 ≤ s.length) :
    (Header.parse s).1.serialize = some (s.take 80) := by
  simp only [Header.parse, Header.serialize]
  have b1 : leToNat (s.take 4) < 256 ^ 4 := by
    have := leToNat_lt (s.take 4); simp only [List.length_take] at this
    rwa [Nat.min_eq_left (by omega)] at this
  have b2 : leToNat ((s.drop 4 |>.drop 32 |>.drop 32).take 4) < 256 ^ 4 := by
    have := leToNat_lt ((s.drop 4 |>.drop 32 |>.drop 32).take 4)
    simp only [List.length_take, List.length_drop] at this
    rwa [Nat.min_eq_left (by omega)] at this
  rw [natToLE_some b1, natToLE_some b2]
  simp only [Option.pure_def, Option.bind_eq_bind, Option.bind_some, List.reverse_reverse, Option.some.injEq]
  have e1 : natToLE' 4 (leToNat (s.take 4)) = s.take 4 := by
    have := natToLE'_leToNat (s.take 4); simp only [List.length_take] at this
    rwa [Nat.min_eq_left (by omega)] at this
  have e2 : natToLE' 4 (leToNat ((s.drop 4 |>.drop 32 |>.drop 32).take 4)) = (s.drop 4 |>.drop 32 |>.drop 32).take 4 := by
    have := natToLE'_leToNat ((s.drop 4 |>.drop 32 |>.drop 32).take 4)
    simp only [List.length_take, List.length_drop] at this
    rwa [Nat.min_eq_left (by omega)] at this
  rw [e1, e2]
  have t : s.take 80 = s.take 4 ++ (s.drop 4).take 32 ++ ((s.drop 4).drop 32).take 32
      ++ (((s.drop 4).drop 32).drop 32).take 4 ++ ((((s.drop 4).drop 32).drop 32).drop 4).take 4
      ++ (((((s.drop 4).drop 32).drop 32).drop 4).drop 4).take 4 := by
    rw [show (80 : Nat) = 4 + (32 + (32 + (4 + (4 + 4)))) from rfl]
    simp only [List.take_add, List.append_assoc]
  rw [t]

example : HeaderWF ⟨1, List.replicate 32 0, List.replicate 32 7, 1231006505, [0xff, 0xff, 0, 0x1d], [1, 2, 3, 4]⟩ := by
  unfold HeaderWF; simp

/-! ## fixed-layout messages

Three kinds of class (DESIGN §7 C19): both directions in the library (ping/pong): `parse ∘ serialize`;
parse-only classes: `parse (Spec.encode m) = m`; serialise-only classes: `Spec.decode (serialize m) = m`.
`Buidl.Spec.Wire` is written from the protocol documentation, independently of the model. -/
open Buidl.Spec.Wire

/-- ping / pong: the nonce round-trips (serialize is the identity on the nonce) -/
theorem pingpong_roundtrip (nonce rest : Bytes) (h : nonce.length = 8) :
    pingParse (nonce ++ rest) = (nonce, rest) := by
  simp [pingParse, take_append_len _ _ 8 h, drop_append_len _ _ 8 h]

/-- `headers`: parsing the protocol encoding of any list of 80-byte headers returns exactly them -/
theorem headers_parse_encode (raw : List Bytes) (rest e : Bytes) (h : ∀ x ∈ raw, x.length = 80)
    (he : encodeHeaders raw = some e) :
    headersParse (e ++ rest) = some (raw.map (fun b => (Header.parse b).1), rest) := by
  simp only [encodeHeaders, Option.pure_def, Option.bind_eq_bind] at he
  cases hv : encodeVarint raw.length with
  | none => rw [hv] at he; cases he
  | some v =>
    rw [hv] at he; simp only [Option.bind_some, Option.some.injEq] at he; subst he
    simp only [headersParse, List.append_assoc, readVarint_encodeVarint _ _ _ hv, Option.pure_def,
      Option.bind_eq_bind, Option.bind_some]
    exact headersParseLoop_encode raw rest h

/-- `headers`: an entry followed by a non-zero transaction count is refused -/
theorem headers_rejects_txcount (b rest : Bytes) (c : UInt8) (k : Nat) (hb : b.length = 80)
    (hc : c ≠ 0) (hc' : c.toNat < 0xFD) :
    headersParseLoop (k + 1) (b ++ c :: rest) = none := by
  have hv : readVarint (c :: rest) = some (c.toNat, rest) := by
    have : c.toNat ≠ 253 ∧ c.toNat ≠ 254 ∧ c.toNat ≠ 255 := by omega
    simp [readVarint, Gen.varintDecM0, Gen.varintDecM1, Gen.varintDecM2, this.1, this.2.1, this.2.2]
  have hne : c.toNat ≠ 0 := by
    intro h; apply hc; exact UInt8.toNat_inj.mp (by simpa using h)
  simp [headersParseLoop, Header.parse_append _ _ hb, hv, hne]

/-- `cfcheckpt` -/
theorem cfcheckpt_parse_encode (ft : UInt8) (stop : Bytes) (hs : List Bytes) (rest e : Bytes)
    (hstop : stop.length = 32) (hh : ∀ x ∈ hs, x.length = 32)
    (he : encodeCfcheckpt ft stop hs = some e) :
    cfcheckptParse (e ++ rest) = some ((ft.toNat, stop, hs), rest) := by
  simp only [encodeCfcheckpt, Option.pure_def, Option.bind_eq_bind] at he
  cases hv : encodeVarint hs.length with
  | none => rw [hv] at he; cases he
  | some v =>
    rw [hv] at he; simp only [Option.bind_some, Option.some.injEq] at he; subst he
    have l : stop.reverse.length = 32 := by simp [hstop]
    simp only [cfcheckptParse, List.cons_append, List.append_assoc, take_append_len _ _ 32 l,
      drop_append_len _ _ 32 l, readVarint_encodeVarint _ _ _ hv, readN32_flatten hs rest hh,
      Option.pure_def, Option.bind_eq_bind, Option.bind_some, List.reverse_reverse]

/-- `cfheaders` -/
theorem cfheaders_parse_encode (ft : UInt8) (stop prev : Bytes) (hs : List Bytes) (rest e : Bytes)
    (hstop : stop.length = 32) (hprev : prev.length = 32) (hh : ∀ x ∈ hs, x.length = 32)
    (he : encodeCfheaders ft stop prev hs = some e) :
    cfheadersParse (e ++ rest) = some ((ft.toNat, stop, prev, hs), rest) := by
  simp only [encodeCfheaders, Option.pure_def, Option.bind_eq_bind] at he
  cases hv : encodeVarint hs.length with
  | none => rw [hv] at he; cases he
  | some v =>
    rw [hv] at he; simp only [Option.bind_some, Option.some.injEq] at he; subst he
    have l : stop.reverse.length = 32 := by simp [hstop]
    simp only [cfheadersParse, List.cons_append, List.append_assoc, take_append_len _ _ 32 l,
      drop_append_len _ _ 32 l, take_append_len _ _ 32 hprev, drop_append_len _ _ 32 hprev,
      readVarint_encodeVarint _ _ _ hv, readN32_flatten hs rest hh,
      Option.pure_def, Option.bind_eq_bind, Option.bind_some, List.reverse_reverse]

/-- `cfilter` (field level) -/
theorem cfilter_parse_encode (ft : UInt8) (bh filter : Bytes) (rest e : Bytes)
    (hbh : bh.length = 32) (hf : filter.length < 2 ^ 63) (he : encodeCfilter ft bh filter = some e) :
    cfilterParse (e ++ rest) = some ((ft.toNat, bh, filter), rest) := by
  simp only [encodeCfilter, Option.pure_def, Option.bind_eq_bind] at he
  cases hv : encodeVarstr filter with
  | none => rw [hv] at he; cases he
  | some v =>
    rw [hv] at he; simp only [Option.bind_some, Option.some.injEq] at he; subst he
    have l : bh.reverse.length = 32 := by simp [hbh]
    simp only [cfilterParse, List.cons_append, List.append_assoc, take_append_len _ _ 32 l,
      drop_append_len _ _ 32 l, readVarstr_encodeVarstr _ _ _ hf hv,
      Option.pure_def, Option.bind_eq_bind, Option.bind_some, List.reverse_reverse]

/-- `getcfilters` / `getcfheaders`: the documented decoder recovers every field -/
theorem getcfilters_decode_serialize (ft sh : Nat) (stop e : Bytes) (hstop : stop.length = 32)
    (he : getCFiltersSerialize ft sh stop = some e) :
    decodeGetCFilters e = some (ft, sh, stop) := by
  simp only [getCFiltersSerialize, Option.pure_def, Option.bind_eq_bind] at he
  cases h1 : natToBE ft 1 with
  | none => rw [h1] at he; cases he
  | some a =>
    cases h2 : natToLE sh 4 with
    | none => rw [h1, h2] at he; cases he
    | some b =>
      rw [h1, h2] at he; simp only [Option.bind_some, Option.some.injEq] at he; subst he
      obtain ⟨la, va⟩ := be_roundtrip _ _ _ h1
      obtain ⟨lb, vb⟩ := le_roundtrip _ _ _ h2
      match a, la with
      | [x], _ =>
        have hx : x.toNat = ft := by simpa [beToNat, beToNatAux] using va
        simp [decodeGetCFilters, lb, hstop, take_append_len _ _ 4 lb, drop_append_len _ _ 4 lb, vb, hx]

/-- `getcfcheckpt` -/
theorem getcfcheckpt_decode_serialize (ft : Nat) (stop e : Bytes) (hstop : stop.length = 32)
    (he : getCFCheckptSerialize ft stop = some e) :
    decodeGetCFCheckpt e = some (ft, stop) := by
  simp only [getCFCheckptSerialize, Option.pure_def, Option.bind_eq_bind] at he
  cases h1 : natToBE ft 1 with
  | none => rw [h1] at he; cases he
  | some a =>
    rw [h1] at he; simp only [Option.bind_some, Option.some.injEq] at he; subst he
    obtain ⟨la, va⟩ := be_roundtrip _ _ _ h1
    match a, la with
    | [x], _ =>
      have hx : x.toNat = ft := by simpa [beToNat, beToNatAux] using va
      simp [decodeGetCFCheckpt, hstop, hx]

/-- `getheaders` with one locator hash -/
theorem getheaders_decode_serialize (v n : Nat) (start stop e : Bytes)
    (hs : start.length = 32) (he' : stop.length = 32)
    (he : getHeadersSerialize v n start stop = some e) :
    decodeGetHeaders1 e = some (v, n, start, stop) := by
  simp only [getHeadersSerialize, Option.pure_def, Option.bind_eq_bind] at he
  cases h1 : natToLE v 4 with
  | none => rw [h1] at he; cases he
  | some a =>
    cases h2 : encodeVarint n with
    | none => rw [h1, h2] at he; cases he
    | some b =>
      rw [h1, h2] at he; simp only [Option.bind_some, Option.some.injEq] at he; subst he
      obtain ⟨la, va⟩ := le_roundtrip _ _ _ h1
      have ls : start.reverse.length = 32 := by simp [hs]
      simp only [decodeGetHeaders1, List.append_assoc, take_append_len _ _ 4 la, drop_append_len _ _ 4 la, va,
        readVarint_encodeVarint _ _ _ h2, Option.pure_def, Option.bind_eq_bind, Option.bind_some]
      simp [hs, he', take_append_len _ _ 32 ls, drop_append_len _ _ 32 ls]

theorem decodeInvItems_invBody (items : List (Nat × Bytes)) (rest : Bytes)
    (h : ∀ it ∈ items, it.1 < 2 ^ 32 ∧ it.2.length = 32) :
    decodeInvItems items.length (invBody items ++ rest) = some (items, rest) := by
  induction items with
  | nil => rfl
  | cons x xs ih =>
    obtain ⟨t, i⟩ := x
    have hx := h (t, i) (by simp)
    have hxs : ∀ it ∈ xs, it.1 < 2 ^ 32 ∧ it.2.length = 32 := fun it hit => h it (by simp [hit])
    have ht : t < 256 ^ 4 := by have := hx.1; omega
    have l4 := natToLE'_length 4 t
    have li : i.reverse.length = 32 := by simp [hx.2]
    have hlen : ¬ (natToLE' 4 t ++ (i.reverse ++ (invBody xs ++ rest))).length < 36 := by
      simp [hx.2]; omega
    have hdrop : (natToLE' 4 t ++ (i.reverse ++ (invBody xs ++ rest))).drop 36 = invBody xs ++ rest := by
      rw [show (36 : Nat) = 4 + 32 from rfl, ← List.drop_drop, drop_append_len _ _ 4 l4, drop_append_len _ _ 32 li]
    simp only [List.length_cons, invBody, List.append_assoc, decodeInvItems, hlen, if_false, hdrop, ih hxs,
      take_append_len _ _ 4 l4, drop_append_len _ _ 4 l4, take_append_len _ _ 32 li,
      leToNat_natToLE'_of_lt ht, List.reverse_reverse]

/-- `getdata`: the documented decoder recovers every (type, identifier) pair -/
theorem getdata_decode_serialize (items : List (Nat × Bytes)) (e rest : Bytes)
    (h : ∀ it ∈ items, it.1 < 2 ^ 32 ∧ it.2.length = 32)
    (he : getDataSerialize items = some e) :
    decodeGetData (e ++ rest) = some (items, rest) := by
  obtain ⟨v, hv, rfl⟩ := getDataSerialize_eq items e (fun it hit => (h it hit).1) he
  simp only [decodeGetData, List.append_assoc, readVarint_encodeVarint _ _ _ hv, Option.pure_def,
    Option.bind_eq_bind, Option.bind_some]
  exact decodeInvItems_invBody items rest h

/-- a version message whose fields have their protocol widths -/
def VersionWF (m : Version) : Prop :=
  m.version < 2 ^ 32 ∧ m.services < 2 ^ 64 ∧ m.timestamp < 2 ^ 64 ∧ m.receiverServices < 2 ^ 64 ∧
  m.receiverIp.length = 4 ∧ m.receiverPort < 2 ^ 16 ∧ m.senderServices < 2 ^ 64 ∧ m.senderIp.length = 4 ∧
  m.senderPort < 2 ^ 16 ∧ m.nonce.length = 8 ∧ m.userAgent.length < 2 ^ 63 ∧ m.latestBlock < 2 ^ 32

theorem version_serialize_eq (m : Version) (wf : VersionWF m) :
    ∃ ua, encodeVarstr m.userAgent = some ua ∧
    m.serialize = some (natToLE' 4 m.version ++ natToLE' 8 m.services ++ natToLE' 8 m.timestamp
      ++ natToLE' 8 m.receiverServices ++ ipv4Prefix ++ m.receiverIp ++ natToLE' 2 m.receiverPort
      ++ natToLE' 8 m.senderServices ++ ipv4Prefix ++ m.senderIp ++ natToLE' 2 m.senderPort ++ m.nonce
      ++ ua ++ natToLE' 4 m.latestBlock ++ [if m.relay then 1 else 0]) := by
  obtain ⟨h1, h2, h3, h4, _, h6, h7, _, h9, _, h11, h12⟩ := wf
  have e : (encodeVarint m.userAgent.length).isSome := (encodeVarint_isSome_iff _).mpr (by omega)
  obtain ⟨v, hv⟩ := Option.isSome_iff_exists.mp e
  refine ⟨v ++ m.userAgent, by simp [encodeVarstr, hv], ?_⟩
  simp only [Version.serialize, natToLE_some (show m.version < 256 ^ 4 by omega),
    natToLE_some (show m.services < 256 ^ 8 by omega), natToLE_some (show m.timestamp < 256 ^ 8 by omega),
    natToLE_some (show m.receiverServices < 256 ^ 8 by omega), natToLE_some (show m.receiverPort < 256 ^ 2 by omega),
    natToLE_some (show m.senderServices < 256 ^ 8 by omega), natToLE_some (show m.senderPort < 256 ^ 2 by omega),
    natToLE_some (show m.latestBlock < 256 ^ 4 by omega), hv, Option.pure_def, Option.bind_eq_bind, Option.bind_some,
    List.append_assoc]

/-- `version`: the documented decoder recovers every field of a well-formed message -/
theorem version_decode_serialize (m : Version) (e : Bytes) (wf : VersionWF m) (he : m.serialize = some e) :
    decodeVersion e = some m := by
  obtain ⟨ua, hua, hs⟩ := version_serialize_eq m wf
  obtain ⟨h1, h2, h3, h4, h5, h6, h7, h8, h9, h10, h11, h12⟩ := wf
  rw [hs] at he; cases he
  have lua : 1 ≤ ua.length := by
    unfold encodeVarstr at hua
    obtain ⟨v, hv, rfl⟩ := Option.map_eq_some_iff.mp hua
    have := encodeVarint_length _ _ hv
    simp only [List.length_append]
    split at this <;> omega
  have lpre : ipv4Prefix.length = 12 := by decide
  have hlen : ¬ (natToLE' 4 m.version ++ natToLE' 8 m.services ++ natToLE' 8 m.timestamp
      ++ natToLE' 8 m.receiverServices ++ ipv4Prefix ++ m.receiverIp ++ natToLE' 2 m.receiverPort
      ++ natToLE' 8 m.senderServices ++ ipv4Prefix ++ m.senderIp ++ natToLE' 2 m.senderPort ++ m.nonce
      ++ ua ++ natToLE' 4 m.latestBlock ++ [if m.relay then 1 else 0]).length < 85 := by
    simp [lpre, h5, h8, h10]; omega
  unfold decodeVersion
  rw [if_neg hlen]
  simp only [List.append_assoc]
  rw [take_append_len _ _ 4 (natToLE'_length 4 _), drop_append_len _ _ 4 (natToLE'_length 4 _),
    take_append_len _ _ 8 (natToLE'_length 8 _), drop_append_len _ _ 8 (natToLE'_length 8 _),
    take_append_len _ _ 8 (natToLE'_length 8 _), drop_append_len _ _ 8 (natToLE'_length 8 _),
    take_append_len _ _ 8 (natToLE'_length 8 _), drop_append_len _ _ 8 (natToLE'_length 8 _),
    take_append_len _ _ 12 lpre, drop_append_len _ _ 12 lpre]
  simp only [ne_eq, not_true_eq_false, if_false]
  rw [take_append_len _ _ 4 h5, drop_append_len _ _ 4 h5,
    take_append_len _ _ 2 (natToLE'_length 2 _), drop_append_len _ _ 2 (natToLE'_length 2 _),
    take_append_len _ _ 8 (natToLE'_length 8 _), drop_append_len _ _ 8 (natToLE'_length 8 _),
    take_append_len _ _ 12 lpre, drop_append_len _ _ 12 lpre]
  simp only [ne_eq, not_true_eq_false, if_false]
  rw [take_append_len _ _ 4 h8, drop_append_len _ _ 4 h8,
    take_append_len _ _ 2 (natToLE'_length 2 _), drop_append_len _ _ 2 (natToLE'_length 2 _),
    take_append_len _ _ 8 h10, drop_append_len _ _ 8 h10,
    readVarstr_encodeVarstr _ _ _ h11 hua]
  simp only [Option.pure_def, Option.bind_eq_bind, Option.bind_some]
  have l5 : ¬ (natToLE' 4 m.latestBlock ++ [if m.relay then (1 : UInt8) else 0]).length ≠ 5 := by simp
  rw [if_neg l5, take_append_len _ _ 4 (natToLE'_length 4 _), drop_append_len _ _ 4 (natToLE'_length 4 _)]
  rw [leToNat_natToLE'_of_lt (show m.version < 256 ^ 4 by omega),
    leToNat_natToLE'_of_lt (show m.services < 256 ^ 8 by omega),
    leToNat_natToLE'_of_lt (show m.timestamp < 256 ^ 8 by omega),
    leToNat_natToLE'_of_lt (show m.receiverServices < 256 ^ 8 by omega),
    leToNat_natToLE'_of_lt (show m.receiverPort < 256 ^ 2 by omega),
    leToNat_natToLE'_of_lt (show m.senderServices < 256 ^ 8 by omega),
    leToNat_natToLE'_of_lt (show m.senderPort < 256 ^ 2 by omega),
    leToNat_natToLE'_of_lt (show m.latestBlock < 256 ^ 4 by omega)]
  cases hr : m.relay <;> simp [hr] <;> (cases m; simp_all)

example : VersionWF ⟨70015, 0, 1700000000, 0, [127, 0, 0, 1], 8333, 0, [10, 0, 0, 2], 18333,
    [1, 2, 3, 4, 5, 6, 7, 8], [0x2f, 0x62, 0x2f], 800000, true⟩ := by
  unfold VersionWF; simp

/-! ## unique decodability (corollaries of the round trips) -/

/-- compact-size encoding is prefix-free / uniquely decodable -/
theorem varint_prefix_free (n m : Nat) (e₁ e₂ r₁ r₂ : Bytes)
    (h₁ : encodeVarint n = some e₁) (h₂ : encodeVarint m = some e₂) (h : e₁ ++ r₁ = e₂ ++ r₂) :
    n = m ∧ e₁ = e₂ ∧ r₁ = r₂ := by
  have a := varint_roundtrip n e₁ r₁ h₁
  have b := varint_roundtrip m e₂ r₂ h₂
  rw [h, b] at a
  simp only [Option.some.injEq, Prod.mk.injEq] at a
  obtain ⟨hn, hr⟩ := a
  subst hn; subst hr
  refine ⟨rfl, ?_, rfl⟩
  rw [h₁] at h₂; exact Option.some.inj h₂

theorem varint_injective (n m : Nat) (e : Bytes)
    (h₁ : encodeVarint n = some e) (h₂ : encodeVarint m = some e) : n = m :=
  (varint_prefix_free n m e e [] [] h₁ h₂ rfl).1

theorem varstr_prefix_free (a b e₁ e₂ r₁ r₂ : Bytes) (ha : a.length < 2 ^ 63) (hb : b.length < 2 ^ 63)
    (h₁ : encodeVarstr a = some e₁) (h₂ : encodeVarstr b = some e₂) (h : e₁ ++ r₁ = e₂ ++ r₂) :
    a = b ∧ r₁ = r₂ := by
  have x := varstr_roundtrip a e₁ r₁ ha h₁
  have y := varstr_roundtrip b e₂ r₂ hb h₂
  rw [h, y] at x
  simp only [Option.some.injEq, Prod.mk.injEq] at x
  exact ⟨x.1.symm, x.2.symm⟩

theorem le_injective (n m w : Nat) (b : Bytes) (h₁ : natToLE n w = some b) (h₂ : natToLE m w = some b) :
    n = m := by
  rw [← (le_roundtrip n w b h₁).2, ← (le_roundtrip m w b h₂).2]

theorem be_injective (n m w : Nat) (b : Bytes) (h₁ : natToBE n w = some b) (h₂ : natToBE m w = some b) :
    n = m := by
  rw [← (be_roundtrip n w b h₁).2, ← (be_roundtrip m w b h₂).2]

/-- two well-formed envelopes with the same wire bytes (followed by anything) are the same envelope -/
theorem envelope_prefix_free (hash256 : Bytes → Bytes) (hh : ∀ b, 4 ≤ (hash256 b).length)
    (net : String) (e₁ e₂ : Envelope) (s₁ s₂ r₁ r₂ : Bytes)
    (hm₁ : magicOf net = some e₁.magic) (hc₁ : CmdWF e₁.command) (hp₁ : e₁.payload.length < 2 ^ 32)
    (hm₂ : magicOf net = some e₂.magic) (hc₂ : CmdWF e₂.command) (hp₂ : e₂.payload.length < 2 ^ 32)
    (h₁ : e₁.serialize hash256 = some s₁) (h₂ : e₂.serialize hash256 = some s₂)
    (h : s₁ ++ r₁ = s₂ ++ r₂) : e₁ = e₂ ∧ r₁ = r₂ := by
  obtain ⟨t₁, ht₁, p₁⟩ := envelope_roundtrip hash256 hh net e₁ r₁ hm₁ hc₁ hp₁
  obtain ⟨t₂, ht₂, p₂⟩ := envelope_roundtrip hash256 hh net e₂ r₂ hm₂ hc₂ hp₂
  rw [h₁] at ht₁; rw [h₂] at ht₂
  cases ht₁; cases ht₂
  rw [h, p₂] at p₁
  simp only [Option.some.injEq, Prod.mk.injEq] at p₁
  exact ⟨p₁.1.symm, p₁.2.symm⟩

/-- block headers: serialisation is injective on well-formed headers -/
theorem header_injective (h₁ h₂ : Header) (s : Bytes) (w₁ : HeaderWF h₁) (w₂ : HeaderWF h₂)
    (e₁ : h₁.serialize = some s) (e₂ : h₂.serialize = some s) : h₁ = h₂ := by
  obtain ⟨t₁, ht₁, _, p₁⟩ := header_roundtrip h₁ [] w₁
  obtain ⟨t₂, ht₂, _, p₂⟩ := header_roundtrip h₂ [] w₂
  rw [e₁] at ht₁; rw [e₂] at ht₂
  cases ht₁; cases ht₂
  rw [p₂] at p₁
  exact (Prod.mk.inj p₁).1.symm

end Buidl.Props.C19
