/-
  Native driver for C13 (MuSig aggregation, k-of-n trees): line protocol over Buidl.Model.MuSig.
  Hashes: Buidl.Hash.sha256 through `Hashes.ofSha256`; EC: Buidl.Model.EC.
-/
import Buidl.Drv.TaprootTok
import Buidl.Model.Hash.SHA256
open Buidl Buidl.Proto Buidl.EC Buidl.Script Buidl.Taproot Buidl.MuSig Buidl.TaprootTok

def HH : Hashes := Hashes.ofSha256 Hash.sha256

def fmtNats (l : List Nat) : String := String.intercalate " " (toString l.length :: l.map toString)

def fmtMuSig (M : MuSig) : String :=
  s!"{fmtBytesList M.xonlys} {fmtBytes M.commitment} {fmtNats M.coefs} {fmtPt M.point} {fmtCmds M.cmds}"

def pTriple : P (Nat × Nat × Nat)
  | a :: b :: c :: r => do pure ((← parseNat a, ← parseNat b, ← parseNat c), r)
  | _ => none

inductive Tamper where
  | none
  | omit (j : Nat)
  | alter (j : Nat) (delta : Int)
  | extra (delta : Int)

def pTamper : P Tamper
  | "none" :: r => some (.none, r)
  | "omit" :: j :: r => do pure (.omit (← parseNat j), r)
  | "alter" :: j :: d :: r => do pure (.alter (← parseNat j) (← parseInt d), r)
  | "extra" :: d :: r => do pure (.extra (← parseInt d), r)
  | _ => Option.none

def applyTamper (t : Tamper) (parts : List Nat) : Int :=
  let ps : List Int := parts.map (fun (n : Nat) => (n : Int))
  match t with
  | .none => ps.foldl (· + ·) 0
  | .omit j => (ps.eraseIdx j).foldl (· + ·) 0
  | .alter j d => (ps.set j ((ps.getD j 0) + d)).foldl (· + ·) 0
  | .extra d => ps.foldl (· + ·) 0 + d

/-- the whole signing session as test_musig.py drives it; every stage printed, `REJECT` from the first
    stage that raises -/
def session (parts : List (Nat × Nat × Nat)) (sigHash root : Bytes) (lock seq : Option Nat) (tam : Tamper) : String :=
  let rej (done : List String) (n : Nat) : String :=
    String.intercalate " " (done ++ List.replicate n REJECT)
  match mapM' (fun (p : Nat × Nat × Nat) => privPoint p.1) parts with
  | none => rej [] 7
  | some pts =>
  match musigNew HH pts lock seq with
  | none => rej [] 7
  | some M =>
  let f1 := [fmtPt M.point]
  let noncePairs := parts.map (fun p => (generateNonces p.2.1 p.2.2).2)
  match nonceSums noncePairs with
  | none => rej f1 6
  | some sums =>
  let f2 := f1 ++ [fmtPt sums.1, fmtPt sums.2]
  match computeCoefficient HH M sums sigHash, computeR HH M sums sigHash with
  | some h, some R =>
    let f3 := f2 ++ [toString h, fmtPt R]
    match mapM' (fun (p : Nat × Nat × Nat) => computeK HH M (p.2.1, p.2.2) sums sigHash) parts with
    | none => rej f3 2
    | some ks =>
      match mapM' (fun (pk : (Nat × Nat × Nat) × Nat) => sign HH M pk.1.1 pk.2 R sigHash root) (parts.zip ks) with
      | none => rej f3 2
      | some ss =>
        let f4 := f3 ++ [fmtNats ss]
        let sSum := applyTamper tam ss
        match getSignature HH M sSum R sigHash root with
        | none => rej f4 1
        | some sig => String.intercalate " " (f4 ++ [((sigSerialize sig).map fmtBytes).getD REJECT])
  | _, _ => rej f2 4

def fmtTreeHash (t : Tree) : String :=
  s!"{fmtTree t} {((t.hash HH).map fmtBytes).getD REJECT}"

def handle : List String → String
  | "sort" :: ts => optS do
      let l ← done (parseCounted oneBytes ts)
      pure (fmtBytesList (sortBytes l))
  | ["combinations", n, k] => optS do
      let n ← parseNat n
      let k ← parseNat k
      let cs := combinations (List.range n) k
      pure (String.intercalate " " (toString cs.length :: cs.map fmtNats))
  | "multisig_cmds" :: ts => optS do
      let (pts, ts) ← parseCounted pPoint ts
      let (k, ts) ← pNat ts
      let (l, ts) ← pOptNat ts
      let s ← done (pOptNat ts)
      pure (orReject ((multiSigCmds pts k l s).map fmtCmds))
  | "musig_new" :: ts => optS do
      let (pts, ts) ← parseCounted pPoint ts
      let (l, ts) ← pOptNat ts
      let s ← done (pOptNat ts)
      pure (orReject ((musigNew HH pts l s).map fmtMuSig))
  | "session" :: ts => optS do
      let (parts, ts) ← parseCounted pTriple ts
      let (sigHash, ts) ← pBytes ts
      let (root, ts) ← pBytes ts
      let (l, ts) ← pOptNat ts
      let (s, ts) ← pOptNat ts
      let tam ← done (pTamper ts)
      pure (session parts sigHash root l s tam)
  | "get_signature" :: ts => optS do
      -- get_signature on explicit arguments: points, s_sum, R, sig_hash, merkle_root
      let (pts, ts) ← parseCounted pPoint ts
      let (sSum, ts) ← pInt ts
      let (R, ts) ← pPoint ts
      let (sigHash, ts) ← pBytes ts
      let root ← done (pBytes ts)
      pure <| orReject do
        let M ← musigNew HH pts none none
        let sig ← getSignature HH M sSum R sigHash root
        (sigSerialize sig).map fmtBytes
  | "verify_schnorr" :: ts => optS do
      let (X, ts) ← pPoint ts
      let (msg, ts) ← pBytes ts
      let sig ← done (pBytes ts)
      pure <| orReject do
        let (R, s) ← parseSig sig
        let ok ← verifySchnorr HH X msg R s
        if ok then pure "1" else none
  | "trms" :: which :: ts => optS do
      let (pts, ts) ← parseCounted pPoint ts
      let (k, ts) ← pNat ts
      let (l, ts) ← pOptNat ts
      let s ← done (pOptNat ts)
      if which ∉ ["internal", "single", "multi", "musig", "msl", "everything"] then none else
      pure <| orReject do
        let T ← trmsNew HH pts k
        if which = "internal" then pure (fmtPt T.defaultInternal)
        else if which = "single" then (singleLeaf T l s).map fmtTreeHash
        else if which = "multi" then (multiLeafTree T l s).map fmtTreeHash
        else if which = "musig" then (musigTree HH T l s).map fmtTreeHash
        else if which = "msl" then (musigAndSingleLeafTree HH T l s).map fmtTreeHash
        else (everythingTree HH T l s).map fmtTreeHash
  | "combine" :: ts => optS do
      -- TapBranch.combine on leaves `L leaf` …
      let (ls, ts) ← parseCounted pTree ts
      if ts ≠ [] then none else
      pure (orReject ((combine ls).map fmtTree))
  | _ => BADOP

def main : IO Unit := runDriver handle
