/-
  Native driver for C14 (BIP39, vendored PBKDF2, seed hand-off): line protocol over Buidl.Model.Mnemonic.

    split <str>                         -> k str…                 (str.split())
    lookup <bip39|slip39> <str>         -> index | REJECT         (WordList[str])
    word <bip39|slip39> <nat>           -> str | REJECT           (WordList[int])
    normalize <str>                     -> str | REJECT           (BIP39.normalize)
    m2b <str>                           -> bytes | REJECT         (mnemonic_to_bytes)
    b2m <bytes> <numBits>               -> str | REJECT           (bytes_to_mnemonic)
    seed <str> <password-bytes>         -> bytes | REJECT         (from_mnemonic: the seed handed to from_seed)
    master <str> <password-bytes>       -> bytes | REJECT         (hmac_sha512(b"Bitcoin seed", seed): what from_seed starts from)
    pbkdf2v <sha512|sha256|sha1> <pass> <salt> <iterations> k n…  -> k bytes… | REJECT  (vendored PBKDF2, consecutive reads)
    rfc2898 <sha512|sha256|sha1> <pass> <salt> <iterations> <dkLen> -> bytes     (Buidl.Hash.pbkdf2, the RFC text)
    utf8 <str>                          -> bytes | REJECT
    contains <bip39|slip39> <str>       -> 1 | 0                  (`str in WordList`)
    pbkdf2ops <sha…> <pass> <salt> <iterations> k op…  -> k answers | REJECT   (ONE object; op = `r<n>` read(n),
                                           `h<n>` hexread(n), `c` close(); answers: bytes, string, `ok`, `RAISED`)
-/
import Buidl.Drv.Proto
import Buidl.Model.Mnemonic
import Buidl.Model.Shamir
import Buidl.Model.Hash.Basic
import Buidl.Model.Hash.HMAC
import Buidl.Model.Hash.PBKDF2
open Buidl Buidl.Proto Buidl.Mnemonic

def optS (o : Option String) : String := o.getD BADOP
def orReject (o : Option String) : String := o.getD REJECT

def toPy (s : String) : PyStr := s.toList.map Char.toNat

/-- code points → `s` token (hex of UTF-8); code points that are not scalar values cannot be printed -/
def fmtPy (p : PyStr) : String :=
  match utf8Encode p with
  | some b => "s" ++ toHex b
  | none => BADOP

def parsePy (t : String) : Option PyStr := (parseStr t).map toPy

def wlOf (name : String) : Option WordList :=
  if name = "bip39" then BIP39? else if name = "slip39" then Buidl.Shamir.SLIP39? else none

def prfOf (name : String) : Option (Bytes → Bytes → Bytes × Nat) :=
  if name = "sha512" then some (fun k m => (Hash.hmacSha512 k m, 64))
  else if name = "sha256" then some (fun k m => (Hash.hmacSha256 k m, 32))
  else if name = "sha1" then some (fun k m => (Hash.hmac Hash.sha1 64 k m, 20))
  else none

def bip39 : WordList := BIP39?.getD ⟨[]⟩

def handle : List String → String
  | ["split", s] => optS do
      let s ← parsePy s
      let ws := pySplit s
      pure (String.intercalate " " (toString ws.length :: ws.map fmtPy))
  | ["lookup", wl, s] => optS do
      let wl ← wlOf wl
      let s ← parsePy s
      pure (orReject ((wl.lookup s).map toString))
  | ["word", wl, i] => optS do
      let wl ← wlOf wl
      let i ← parseNat i
      pure (orReject ((wl.word i).map fmtPy))
  | ["normalize", s] => optS do
      let wl ← BIP39?
      let s ← parsePy s
      pure (orReject ((wl.normalize s).map fmtPy))
  | ["m2b", s] => optS do
      let wl ← BIP39?
      let s ← parsePy s
      pure (orReject ((mnemonicToBytes Hash.sha256 wl s).map fmtBytes))
  | ["b2m", b, n] => optS do
      let wl ← BIP39?
      let b ← parseBytes b
      let n ← parseNat n
      pure (orReject ((bytesToMnemonic Hash.sha256 wl b n).map fmtPy))
  | ["seed", s, pw] => optS do
      let wl ← BIP39?
      let s ← parsePy s
      let pw ← parseBytes pw
      pure (orReject ((mnemonicToSeed Hash.sha256 Hash.hmacSha512 wl s pw).map fmtBytes))
  | ["master", s, pw] => optS do
      let wl ← BIP39?
      let s ← parsePy s
      let pw ← parseBytes pw
      pure (orReject ((fromMnemonic Hash.sha256 Hash.hmacSha512
        (fun seed => some (Hash.hmacSha512 "Bitcoin seed".toUTF8.toList seed)) wl s pw).map fmtBytes))
  | "pbkdf2v" :: h :: p :: s :: c :: rest => optS do
      let prf ← prfOf h
      let p ← parseBytes p
      let s ← parseBytes s
      let c ← parseNat c
      let (ns, tl) ← parseCounted oneNat rest
      if tl ≠ [] then none else
      pure <| orReject do
        let st ← PBKDF2.new p s c
        let outs ← st.reads (fun k m => (prf k m).1) ns
        pure (fmtBytesList outs)
  | ["rfc2898", h, p, s, c, n] => optS do
      let prf ← prfOf h
      let p ← parseBytes p
      let s ← parseBytes s
      let c ← parseNat c
      let n ← parseNat n
      if c = 0 then none else
      pure (fmtBytes (Hash.pbkdf2 (fun k m => (prf k m).1) (prf [] []).2 p s c n))
  | ["contains", wl, s] => optS do
      let wl ← wlOf wl
      let s ← parsePy s
      pure (fmtBool (wl.contains s))
  | "pbkdf2ops" :: h :: p :: s :: c :: k :: ops => optS do
      let prf ← prfOf h
      let p ← parseBytes p
      let s ← parseBytes s
      let c ← parseNat c
      let k ← parseNat k
      if ops.length ≠ k then none else
      let ops ← ops.mapM fun t =>
        match t.toList with
        | ['c'] => some PbOp.close
        | 'r' :: n => (parseNat (String.ofList n)).map PbOp.read
        | 'h' :: n => (parseNat (String.ofList n)).map PbOp.hexread
        | _ => none
      pure <| orReject do
        let st ← PBKDF2.new p s c
        let outs := PBKDF2.run (fun k m => (prf k m).1) (some st) ops
        pure (String.intercalate " " (toString outs.length :: outs.map fun o =>
          match o with
          | .bytes b => fmtBytes b
          | .hex h => fmtPy h
          | .unit => "ok"
          | .raised => "RAISED"))
  | ["utf8", s] => optS do
      let s ← parsePy s
      pure (orReject ((utf8Encode s).map fmtBytes))
  | _ => BADOP

def main : IO Unit := runDriver handle
