/-
  Native driver for C07 (script interpreter vs consensus): line protocol over
  Buidl.Model.Interp (the model of buidl/op.py + Script.evaluate) and Buidl.Spec.Consensus.

  Tokens: bytes `x<hex>`, ints decimal with optional `-`, command `o<decimal opcode>` or `x<hex>`
  (a data push), counted lists `k item…`.  Stacks are transmitted in Python order (bottom first).

    encnum <int>                      model encode_num            -> bytes
    decnum <bytes>                    model decode_num            -> int
    spec_ser <int>                    CScriptNum::serialize       -> bytes
    spec_num <bytes>                  CScriptNum(vch) any length  -> int
    spec_minimal <bytes>              minimal-encoding test       -> 0|1
    spec_bool <bytes>                 CastToBool                  -> 0|1
    op <cfg> <tap> <code> <locktime> <sequence> <version> <stack> <alt> [<items>]
         one opcode through the dispatch table with evaluate's calling convention
         -> `OK <stack> <alt> <items>` | `REJECT` (returned False or raised) | `REJECT-VALUEERROR`
            (raised ValueError: Locktime()/Sequence() refused the operand, see N07f)
    spec_op <code> <locktime> <sequence> <version> <stack> <alt>
         -> `OK <stack> <alt>` | `REJECT` | `OVERSIZE` | `UNSUPPORTED`
    eval <cfg> <locktime> <sequence> <version> <cmds>
         Script(cmds).evaluate(tx, 0) with an empty witness
         -> `ACCEPT|REJECT|FUEL trig=<0|1> ve=<0|1>`  (trig: a P2SH / witness-program rule fired;
            ve: the run ended with ValueError)
    spec_eval <locktime> <sequence> <version> <cmds>
         -> `ACCEPT|REJECT|OVERSIZE|UNSUPPORTED`
    tl_loc <int>      Locktime(n): `REJECT` | `<ser> h=<block_height|NONE> m=<mtp|NONE>`
    tl_seq <int>      Sequence(n): `REJECT` | `<ser> rbf=<0|1> max=<0|1> rel=<0|1> relt=<0|1> relb=<0|1>
                                              blocks=<n|NONE> time=<n|NONE>`
    tl_lpair <a> <b>  two Locktime objects: `cmp=<0|1> lt=<0|1|RAISE>`
    tl_spair <a> <b>  two Sequence objects: `cmp=<0|1> lt=<0|1|RAISE>`
    tl_frt <int>      Sequence.from_relative_time   -> value | REJECT
    tl_frb <int>      Sequence.from_relative_blocks -> value | REJECT
    tl_lparse <bytes> Locktime.parse on a stream    -> `<value> <rest>` | REJECT
    tl_sparse <bytes> Sequence.parse on a stream    -> `<value> <rest>` | REJECT
  <cfg> is `r` (repaired: every C07 and C06 patch applied), `p` (C07 patches only: /repo at a5beaa1)
  or `a` (before the C07 patches).
-/
import Buidl.Drv.Proto
import Buidl.Model.Interp
import Buidl.Model.Timelock
import Buidl.Spec.Consensus
import Buidl.Model.Hash.Basic
open Buidl Buidl.Proto Buidl.Script

namespace Buidl.DrvC07

def optS (o : Option String) : String := o.getD BADOP

def parseCfg (s : String) : Option Interp.Cfg :=
  if s = "r" then some Interp.Cfg.repaired else if s = "a" then some Interp.Cfg.asIs
  else if s = "p" then some Interp.Cfg.preC06 else none

def oneCmd : List String → Option (Cmd × List String)
  | t :: r =>
    match t.toList with
    | 'o' :: d => (parseNat (String.ofList d)).map (fun n => (Cmd.op n, r))
    | 'x' :: _ => (parseBytes t).map (fun b => (Cmd.push b, r))
    | _ => none
  | [] => none

def fmtCmd : Cmd → String
  | .op n => s!"o{n}"
  | .push b => fmtBytes b

def fmtCmds (l : List Cmd) : String := String.intercalate " " (toString l.length :: l.map fmtCmd)

def fmtInt (i : Int) : String := if i < 0 then s!"-{i.natAbs}" else s!"{i.natAbs}"

def mkEnv (lt seq ver : Nat) : Interp.Env :=
  { locktime := lt, sequence := seq, version := ver,
    sha1 := Hash.sha1, ripemd160 := Hash.ripemd160, sha256 := Hash.sha256,
    hash160 := Hash.hash160, hash256 := Hash.hash256 }

def mkCtx (lt seq ver : Nat) : Spec.Consensus.Ctx :=
  { locktime := lt, sequence := seq, version := ver,
    sha1 := Hash.sha1, ripemd160 := Hash.ripemd160, sha256 := Hash.sha256,
    hash160 := Hash.hash160, hash256 := Hash.hash256 }

/-- stacks travel bottom first -/
def fmtStack (s : List Bytes) : String := fmtBytesList s.reverse

def fuelFor (cmds : List Cmd) : Nat := 100000 + 64 * cmds.length

def fmtON : Option Nat → String
  | some n => toString n
  | none => "NONE"

def fmtLt : Option Bool → String
  | some b => fmtBool b
  | none => "RAISE"

def handle : List String → String
  | ["tl_loc", n] => optS do
      match Timelock.locktimeNew (← parseInt n) with
      | none => pure REJECT
      | some v =>
        let ser ← Timelock.locktimeSerialize v
        pure s!"{fmtBytes ser} h={fmtON (Timelock.blockHeight v)} m={fmtON (Timelock.mtp v)}"
  | ["tl_seq", n] => optS do
      match Timelock.sequenceNew (← parseInt n) with
      | none => pure REJECT
      | some v =>
        let ser ← Timelock.sequenceSerialize v
        pure (s!"{fmtBytes ser} rbf={fmtBool (Timelock.isRbfAble v)} max={fmtBool (Timelock.isMax v)} " ++
          s!"rel={fmtBool (Timelock.isRelative v)} relt={fmtBool (Timelock.isRelativeTime v)} " ++
          s!"relb={fmtBool (Timelock.isRelativeBlock v)} blocks={fmtON (Timelock.relativeBlocks v)} " ++
          s!"time={fmtON (Timelock.relativeTime v)}")
  | ["tl_lpair", a, b] => optS do
      let a ← Timelock.locktimeNew (← parseInt a)
      let b ← Timelock.locktimeNew (← parseInt b)
      pure s!"cmp={fmtBool (Timelock.locktimeComparable a b)} lt={fmtLt (Timelock.locktimeLt a b)}"
  | ["tl_spair", a, b] => optS do
      let a ← Timelock.sequenceNew (← parseInt a)
      let b ← Timelock.sequenceNew (← parseInt b)
      pure s!"cmp={fmtBool (Timelock.sequenceComparable a b)} lt={fmtLt (Timelock.sequenceLt a b)}"
  | ["tl_frt", n] => optS do
      match Timelock.fromRelativeTime (← parseInt n) with
      | some v => pure (toString v)
      | none => pure REJECT
  | ["tl_frb", n] => optS do
      match Timelock.fromRelativeBlocks (← parseInt n) with
      | some v => pure (toString v)
      | none => pure REJECT
  | ["tl_lparse", b] => optS do
      match Timelock.locktimeParse (← parseBytes b) with
      | some (v, rest) => pure s!"{v} {fmtBytes rest}"
      | none => pure REJECT
  | ["tl_sparse", b] => optS do
      match Timelock.sequenceParse (← parseBytes b) with
      | some (v, rest) => pure s!"{v} {fmtBytes rest}"
      | none => pure REJECT
  | ["encnum", n] => optS do pure (fmtBytes (Interp.encodeNum (← parseInt n)))
  | ["decnum", b] => optS do pure (fmtInt (Interp.decodeNum (← parseBytes b)))
  | ["spec_ser", n] => optS do pure (fmtBytes (Spec.Consensus.serialize (← parseInt n)))
  | ["spec_num", b] => optS do pure (fmtInt (Spec.Consensus.scriptNum (← parseBytes b)))
  | ["spec_minimal", b] => optS do pure (fmtBool (Spec.Consensus.minimal (← parseBytes b)))
  | ["spec_bool", b] => optS do pure (fmtBool (Spec.Consensus.castToBool (← parseBytes b)))
  | "op" :: cfg :: tap :: code :: lt :: seq :: ver :: toks => optS do
      let cfg ← parseCfg cfg
      let tap ← parseBool tap
      let code ← parseNat code
      let env := mkEnv (← parseNat lt) (← parseNat seq) (← parseNat ver)
      let (stack, toks) ← parseCounted oneBytes toks
      let (alt, toks) ← parseCounted oneBytes toks
      let (items, toks) ← if toks.isEmpty then some ([], []) else parseCounted oneCmd toks
      if toks ≠ [] then none else
      let st : Interp.St := { cmds := items, stack := stack.reverse, alt := alt.reverse, wit := none, tap := tap }
      match Interp.stepOp cfg env st code with
      | .ok st' => pure s!"OK {fmtStack st'.stack} {fmtStack st'.alt} {fmtCmds st'.cmds}"
      | .error (.err .unmodelled) => none
      | .error (.err .valueError) => pure "REJECT-VALUEERROR"
      | .error _ => pure REJECT
  | "spec_op" :: code :: lt :: seq :: ver :: toks => optS do
      let code ← parseNat code
      let ctx := mkCtx (← parseNat lt) (← parseNat seq) (← parseNat ver)
      let (stack, toks) ← parseCounted oneBytes toks
      let (alt, toks) ← parseCounted oneBytes toks
      if toks ≠ [] then none else
      if Spec.Consensus.unsupportedOp code then pure "UNSUPPORTED" else
      match Spec.Consensus.execOp ctx code stack.reverse alt.reverse with
      | .ok (s, a) => pure s!"OK {fmtStack s} {fmtStack a}"
      | .fail => pure REJECT
      | .oversize => pure "OVERSIZE"
      | .unsupported => pure "UNSUPPORTED"
  | "eval" :: cfg :: lt :: seq :: ver :: toks => optS do
      let cfg ← parseCfg cfg
      let env := mkEnv (← parseNat lt) (← parseNat seq) (← parseNat ver)
      let (cmds, toks) ← parseCounted oneCmd toks
      if toks ≠ [] then none else
      let st : Interp.St := { cmds := cmds, stack := [], alt := [], wit := none, tap := false }
      let (out, trig) := Interp.runTrig cfg env (fuelFor cmds) st false
      let t := fmtBool trig
      match out with
      | .accept => pure s!"ACCEPT trig={t} ve=0"
      | .reject => pure s!"REJECT trig={t} ve=0"
      | .err .unmodelled => none
      | .err .valueError => pure s!"REJECT trig={t} ve=1"
      | .err _ => pure s!"REJECT trig={t} ve=0"
      | .outOfFuel => pure s!"FUEL trig={t} ve=0"
  | "spec_eval" :: lt :: seq :: ver :: toks => optS do
      let ctx := mkCtx (← parseNat lt) (← parseNat seq) (← parseNat ver)
      let (cmds, toks) ← parseCounted oneCmd toks
      if toks ≠ [] then none else
      match Spec.Consensus.eval ctx cmds with
      | .accept => pure "ACCEPT"
      | .reject => pure REJECT
      | .oversize => pure "OVERSIZE"
      | .unsupported => pure "UNSUPPORTED"
  | _ => BADOP

end Buidl.DrvC07

def main : IO Unit := Buidl.Proto.runDriver Buidl.DrvC07.handle
