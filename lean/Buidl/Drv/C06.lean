/-
  Native driver for C06 (input verification): `Tx.verify_input` of Buidl.Model.Interp with the
  signature / key / control-block oracles answered from tables recorded by the harness while the
  real implementation ran (so the correspondence isolates the interpreter logic from EC cost).

    verify <cfg> <locktime> <sequence> <version> <scriptSig> <scriptPubKey> <witness> <PK> <DER> <SH> <EC> <XO> <SS> <SC> <CB> <TC>
      <cfg>            r | p | a            (Cfg.repaired / preC06 / asIs)
      <scriptSig>, <scriptPubKey>           counted command lists, items `o<opcode>` | `x<hex>`
      <witness>                             counted list of bytes
      <PK>  k × (x<sec> <code>)             S256Point.parse(sec)            code 0 = no exception
      <DER> k × (x<der> <code>)             Signature.parse(der)
      <SH>  k × (<hash_type> <code>)        tx.sig_hash(i, hash_type)
      <EC>  k × (x<sec> <ht> x<der> <0|1>)  point.verify(z, sig)
      <XO>  k × (x<xonly> <code>)           S256Point.parse_xonly(b)
      <SS>  k × (x<sig> <code>)             SchnorrSignature.parse(sig)
      <SC>  k × (x<xonly> <ht> x<sig> <0|1>) point.verify_schnorr(msg, sig)
      <CB>  k × (x<cb> <code>)              ControlBlock.parse(cb)
      <TC>  k × (x<cb> x<leaf script bytes> <code> x<xonly> <0|1>)   control_block.external_pubkey(tap_script)
    exception codes: 1 ValueError/SyntaxError, 2 RuntimeError/other, 3 TypeError, 4 IndexError, 5 AttributeError
    -> ACCEPT | REJECT | FUEL | MISS   (MISS: the model asked an oracle question that was never recorded)
-/
import Buidl.Drv.Proto
import Buidl.Model.Interp
import Buidl.Model.Hash.Basic
open Buidl Buidl.Proto Buidl.Script

namespace Buidl.DrvC06
open Buidl.Interp

def optS (o : Option String) : String := o.getD BADOP

def parseCfg (s : String) : Option Cfg :=
  if s = "r" then some Cfg.repaired else if s = "a" then some Cfg.asIs
  else if s = "p" then some Cfg.preC06 else none

def oneCmd : List String → Option (Cmd × List String)
  | t :: r =>
    match t.toList with
    | 'o' :: d => (parseNat (String.ofList d)).map (fun n => (Cmd.op n, r))
    | 'x' :: _ => (parseBytes t).map (fun b => (Cmd.push b, r))
    | _ => none
  | [] => none

def errOf (code : Nat) : Option (Option Err) :=
  if code = 0 then some none
  else if code = 1 then some (some .valueError)
  else if code = 2 then some (some .runtimeError)
  else if code = 3 then some (some .typeError)
  else if code = 4 then some (some .indexError)
  else if code = 5 then some (some .attributeError)
  else none

/-- `x<bytes> <code>` -/
def bytesCode : List String → Option ((Bytes × Option Err) × List String)
  | b :: c :: r => do pure ((← parseBytes b, ← errOf (← parseNat c)), r)
  | _ => none

def natCode : List String → Option ((Nat × Option Err) × List String)
  | n :: c :: r => do pure ((← parseNat n, ← errOf (← parseNat c)), r)
  | _ => none

def verifyRow : List String → Option ((Bytes × Nat × Bytes × Bool) × List String)
  | a :: h :: s :: v :: r => do pure ((← parseBytes a, ← parseNat h, ← parseBytes s, ← parseBool v), r)
  | _ => none

def tcRow : List String → Option ((Bytes × Bytes × Option Err × Bytes × Bool) × List String)
  | cb :: leaf :: c :: x :: p :: r => do
    pure ((← parseBytes cb, ← parseBytes leaf, ← errOf (← parseNat c), ← parseBytes x, ← parseBool p), r)
  | _ => none

def lookupB {β} (tbl : List (Bytes × β)) (k : Bytes) : Option β :=
  (tbl.find? (fun p => p.1 == k)).map (·.2)

/-- a table of recorded exceptions; a question that was never asked of the implementation is `unmodelled` -/
def errTable (tbl : List (Bytes × Option Err)) (k : Bytes) : Option Err :=
  match lookupB tbl k with
  | some e => e
  | none => some .unmodelled

def handle : List String → String
  | "verify" :: cfg :: lt :: seq :: ver :: toks => optS do
      let cfg ← parseCfg cfg
      let lt ← parseNat lt
      let seq ← parseNat seq
      let ver ← parseNat ver
      let (scriptSig, toks) ← parseCounted oneCmd toks
      let (spk, toks) ← parseCounted oneCmd toks
      let (wit, toks) ← parseCounted oneBytes toks
      let (pk, toks) ← parseCounted bytesCode toks
      let (der, toks) ← parseCounted bytesCode toks
      let (sh, toks) ← parseCounted natCode toks
      let (ec, toks) ← parseCounted verifyRow toks
      let (xo, toks) ← parseCounted bytesCode toks
      let (ss, toks) ← parseCounted bytesCode toks
      let (sc, toks) ← parseCounted verifyRow toks
      let (cb, toks) ← parseCounted bytesCode toks
      let (tc, toks) ← parseCounted tcRow toks
      if toks ≠ [] then none else
      let shErr (ht : Nat) : Option Err :=
        match sh.find? (fun p => p.1 == ht) with
        | some p => p.2
        | none => some .unmodelled
      let pre (tbl : List (Bytes × Option Err)) (sig : Bytes) (ht : Nat) : Option Err :=
        match errTable tbl sig with
        | some e => some e
        | none => shErr ht
      let ok (tbl : List (Bytes × Nat × Bytes × Bool)) (k : Bytes) (ht : Nat) (sig : Bytes) : Option Bool :=
        (tbl.find? (fun r => r.1 == k && r.2.1 == ht && r.2.2.1 == sig)).map (·.2.2.2)
      -- a verification that was never recorded is reported through the `pre` oracle of the same
      -- signature, which the model always asks first; here it can only default
      let env : Env :=
        { locktime := lt, sequence := seq, version := ver,
          sha1 := Hash.sha1, ripemd160 := Hash.ripemd160, sha256 := Hash.sha256,
          hash160 := Hash.hash160, hash256 := Hash.hash256,
          pkErr := errTable pk,
          sigPre := pre der,
          ecdsaOK := fun k ht sig => (ok ec k ht sig).getD false,
          xonlyErr := errTable xo,
          schnorrPre := pre ss,
          schnorrOK := fun k ht sig => (ok sc k ht sig).getD false,
          cbErr := errTable cb,
          tapCommit := fun c leaf =>
            match tc.find? (fun r => r.1 == c && r.2.1 == leaf) with
            | some (_, _, some e, _, _) => .error e
            | some (_, _, none, x, p) => .ok (x, p)
            | none => .error .unmodelled }
      match verifyInput cfg env scriptSig spk wit (100000 + 64 * (scriptSig.length + spk.length)) with
      | .accept => pure "ACCEPT"
      | .reject => pure REJECT
      | .err .unmodelled => pure "MISS"
      | .err _ => pure REJECT
      | .outOfFuel => pure "FUEL"
  | _ => BADOP

end Buidl.DrvC06

def main : IO Unit := Buidl.Proto.runDriver Buidl.DrvC06.handle
