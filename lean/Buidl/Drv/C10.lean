/-
  Native driver for C10 (PSBT codec and signing workflow): line protocol over
  Buidl.Model.PsbtCodec / PsbtFlow with Buidl.Model.Tx as the transaction codec.

  Every request is `op <net> <tables> <args…>`; PSBTs travel as their serialised bytes (the model
  parses them — PSBT.parse including PSBT.validate — applies the operation and serialises).
    parse_ser   psbt                                   → bytes | REJECT
    parse_ser_f10a psbt                                → serialisation with today's PSBT.serialize (F10a)
    create      txbytes                                → bytes
    update      psbt lookups                           → bytes | REJECT
    sign_keys   psbt keys made                         → bytes | REJECT
    sign_hd     psbt fingerprint keyAt made            → bytes | REJECT
    combine     psbtA psbtB                            → bytes | REJECT
    finalize    fixed psbt                             → bytes | REJECT
    final_tx    psbt verify                            → tx bytes | REJECT
    sig_order   psbt                                   → per input the partial-sig keys in emission order
-/
import Buidl.Drv.PsbtCommon
open Buidl Buidl.Proto Buidl.Psbt Buidl.PsbtDrv Buidl.Script

def rdPsbt (net : Option Net) (T : Tables) : Rd (Option (Psbt Tx.Tx)) := do
  let b ← rdBytes
  pure ((parse hashes txCodec (oracles T) net b).map (·.1))

def rdLookups : Rd (Lookups Tx.Tx) := do
  let txs ← rdList do
    let h ← rdBytes; let b ← rdBytes
    match Tx.Tx.parse b with
    | some (t, _) => pure (h, t)
    | none => failure
  let pubs ← rdList do
    let k ← rdBytes; let sec ← rdBytes; let rp ← rdBytes
    pure (k, (sec, rp))
  let reds ← rdList do
    let k ← rdBytes; let s ← rdScriptRaw
    pure (k, s)
  let wits ← rdList do
    let k ← rdBytes; let s ← rdScriptRaw
    pure (k, s)
  pure { tx := txs, pubkey := pubs, redeem := reds, witness := wits }

/-- signatures the real signer produced: (input, sec) ↦ signature -/
def rdMade : Rd SigOf := do
  let l ← rdList do
    let i ← rdNat; let sec ← rdBytes; let sig ← rdBytes
    pure ((i, sec), sig)
  pure fun _ i sec => (l.find? (fun e => e.1 == (i, sec))).map (·.2)

def out (o : Option Bytes) : String := (o.map fmtBytes).getD REJECT

def run (op : String) : Rd String := do
  let net ← rdNet
  let T ← rdTables
  match op with
  | "parse_ser" => do
    let p ← rdPsbt net T; rdEnd
    pure (out (p.bind (·.serialize txCodec)))
  | "parse_ser_f10a" => do
    let p ← rdPsbt net T; rdEnd
    pure (out (p.bind (·.serializeF10a txCodec)))
  | "create" => do
    let b ← rdBytes; rdEnd
    pure (out do
      let (t, _) ← Tx.Tx.parse b
      let p := create txCodec t net
      p.validate hashes txCodec (oracles T)
      p.serialize txCodec)
  | "create_f10a" => do
    let b ← rdBytes; rdEnd
    pure (out do
      let (t, _) ← Tx.Tx.parse b
      let p := create txCodec t net
      p.validate hashes txCodec (oracles T)
      p.serializeF10a txCodec)
  | "update" => do
    let p ← rdPsbt net T
    let L ← rdLookups; rdEnd
    pure (out do
      let p ← p
      let q ← update txCodec L p
      q.serialize txCodec)
  | "sign_keys" => do
    let p ← rdPsbt net T
    let keys ← rdList rdBytes
    let made ← rdMade; rdEnd
    pure (out do
      let p ← p
      let q ← signWithKeys txCodec made p keys
      q.serialize txCodec)
  | "sign_hd" => do
    let p ← rdPsbt net T
    let fp ← rdBytes
    let ka ← rdList do
      let rp ← rdBytes; let sec ← rdBytes
      pure (rp, sec)
    let made ← rdMade; rdEnd
    pure (out do
      let p ← p
      let q ← signHd txCodec made fp (fun rp => dget ka rp) p
      q.serialize txCodec)
  | "combine" => do
    let a ← rdPsbt net T
    let b ← rdPsbt net T; rdEnd
    pure (out do
      let a ← a
      let b ← b
      let c ← combine txCodec a b
      c.serialize txCodec)
  | "finalize" => do
    let fixed ← rdNat
    let p ← rdPsbt net T; rdEnd
    pure (out do
      let p ← p
      let q ← finalize (fixed == 1) txCodec p
      q.serialize txCodec)
  | "final_tx" => do
    let p ← rdPsbt net T
    let v ← rdNat; rdEnd
    pure (out do
      let p ← p
      finalTx txCodec (fun _ => v == 1) p)
  | "sig_order" => do
    let p ← rdPsbt net T; rdEnd
    match p with
    | none => pure REJECT
    | some p => pure (String.intercalate " " (toString p.ins.length :: p.ins.map fun i => fmtBytesList (sigKeyOrder i)))
  | _ => failure

def handle : List String → String
  | op :: toks =>
    match (run op).run toks with
    | some (s, _) => s
    | none => BADOP
  | [] => BADOP

def main : IO Unit := runDriver handle
