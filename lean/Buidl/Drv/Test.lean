import Buidl.Drv.Proto
open Buidl Buidl.Proto
def handle : List String → String
  | ["le", b] => match parseBytes b with | some x => toString (leToNat x) | none => BADOP
  | ["vi", n] => match parseNat n with | some x => (match encodeVarint x with | some b => fmtBytes b | none => REJECT) | none => BADOP
  | _ => BADOP
def main : IO Unit := runDriver handle
