/-
  Native driver for C15 (SLIP39): line protocol over Buidl.Model.Shamir.

    tables                                   -> 255 exp… 256 log…
    polymod k v…                             -> nat
    rs_create <cs-bytes> k v…                -> 3 a b c
    rs_verify <cs-bytes> k v…                -> 1 | 0
    interp <x> k (<xi> <bytes>)…             -> bytes | REJECT
    recover_secret k (<xi> <bytes>)…         -> bytes | REJECT
    split <secret> <k> <n> m ρ…              -> cnt (<i> <bytes>)… <unused ρ count> | REJECT
    share_parse <str>                        -> sbl id e gi gt gc mi mt value bytes | REJECT
    share_mnemonic sbl id e gi gt gc mi mt value -> str | REJECT
    encrypt|decrypt <payload> <id> <e> <pass> -> bytes | REJECT
    generate <mnemonic> <k> <n> <pass> <e> <id> m ρ…  -> cnt str… | REJECT
    recover_mnemonic <pass> cnt str…         -> str | REJECT
    share_reser <str>                        -> str str | REJECT      (s = Share.parse(m); s.mnemonic(); s.mnemonic())
    ss_history n str… k op…                  -> k' answers | REJECT   (ONE ShareSet object built from the n share
                                                mnemonics; op = `R <pass>` recover(pass) -> bytes | RAISED, or
                                                `S n str…` obj.shares = [Share.parse(m) …] (no answer); REJECT when
                                                the constructor or a parse raises)
  Insufficient randomness answers bad-op (a harness error).
-/
import Buidl.Drv.Proto
import Buidl.Model.Shamir
import Buidl.Model.Hash.HMAC
import Buidl.Model.Hash.PBKDF2
open Buidl Buidl.Proto Buidl.Mnemonic Buidl.Shamir

def optS (o : Option String) : String := o.getD BADOP
def orReject (o : Option String) : String := o.getD REJECT
def toPy (s : String) : PyStr := s.toList.map Char.toNat
def fmtPy (p : PyStr) : String :=
  match utf8Encode p with
  | some b => "s" ++ toHex b
  | none => BADOP
def parsePy (t : String) : Option PyStr := (parseStr t).map toPy
def fmtNats (l : List Nat) : String := String.intercalate " " (toString l.length :: l.map toString)

def onePoint : List String → Option ((Nat × Bytes) × List String)
  | x :: b :: r => do pure ((← parseNat x, ← parseBytes b), r)
  | _ => none

def onePy : List String → Option (PyStr × List String)
  | t :: r => (parsePy t).map (·, r)
  | [] => none

def fmtPoints (l : ShareData) : String :=
  String.intercalate " " (toString l.length :: l.map fun (i, b) => s!"{i} {fmtBytes b}")

/-- parse `k op…` of ss_history -/
def parseSsOps (wl : WordList) : Nat → List String → Option (Option (List SsOp) × List String)
  | 0, ts => some (some [], ts)
  | k + 1, "R" :: pw :: ts => do
    let pw ← parseBytes pw
    let (r, ts) ← parseSsOps wl k ts
    pure (r.map (SsOp.recover pw :: ·), ts)
  | k + 1, "S" :: ts => do
    let (ms, ts) ← parseCounted onePy ts
    let (r, ts) ← parseSsOps wl k ts
    match mapM? (Share.parse wl) ms with
    | none => pure (none, ts)            -- a parse raises: the whole history is REJECT
    | some shares => pure (r.map (SsOp.setShares shares :: ·), ts)
  | _, _ => none

def kdf := Hash.pbkdf2HmacSha256
def hm := Hash.hmacSha256

def handle : List String → String
  | ["tables"] => s!"{fmtNats tables.exp} {fmtNats tables.log}"
  | "polymod" :: rest => optS do
      let (vs, tl) ← parseCounted oneNat rest
      if tl ≠ [] then none else pure (toString (rs1024Polymod vs))
  | "rs_create" :: cs :: rest => optS do
      let cs ← parseBytes cs
      let (vs, tl) ← parseCounted oneNat rest
      if tl ≠ [] then none else pure (fmtNats (rs1024Create cs vs))
  | "rs_verify" :: cs :: rest => optS do
      let cs ← parseBytes cs
      let (vs, tl) ← parseCounted oneNat rest
      if tl ≠ [] then none else pure (fmtBool (rs1024Verify cs vs))
  | "interp" :: x :: rest => optS do
      let x ← parseNat x
      let (pts, tl) ← parseCounted onePoint rest
      if tl ≠ [] then none else pure (orReject ((interpolate x pts).map fmtBytes))
  | "recover_secret" :: rest => optS do
      let (pts, tl) ← parseCounted onePoint rest
      if tl ≠ [] then none else pure (orReject ((recoverSecret hm pts).map fmtBytes))
  | "split" :: s :: k :: n :: rest => optS do
      let s ← parseBytes s
      let k ← parseNat k
      let n ← parseNat n
      let (ρ, tl) ← parseCounted oneNat rest
      if tl ≠ [] then none else
      match splitSecret hm s k n ρ with
      | .ok shares r => pure s!"{fmtPoints shares} {r.length}"
      | .reject => pure REJECT
      | .noRandomness => none
  | ["share_parse", m] => optS do
      let wl ← SLIP39?
      let m ← parsePy m
      pure <| orReject do
        let s ← Share.parse wl m
        pure s!"{s.shareBitLength} {s.id} {s.exponent} {s.groupIndex} {s.groupThreshold} {s.groupCount} {s.memberIndex} {s.memberThreshold} {s.value} {fmtBytes s.bytes}"
  | ["share_mnemonic", sbl, id, e, gi, gt, gc, mi, mt, v] => optS do
      let wl ← SLIP39?
      let sbl ← parseNat sbl
      let id ← parseNat id
      let e ← parseNat e
      let gi ← parseNat gi
      let gt ← parseNat gt
      let gc ← parseNat gc
      let mi ← parseNat mi
      let mt ← parseNat mt
      let v ← parseNat v
      pure <| orReject do
        let s ← Share.new sbl id e gi gt gc mi mt v
        let m ← s.mnemonic wl
        pure (fmtPy m)
  | ["encrypt", p, id, e, pw] => optS do
      pure (orReject ((encrypt kdf (← parseBytes p) (← parseNat id) (← parseNat e) (← parseBytes pw)).map fmtBytes))
  | ["decrypt", p, id, e, pw] => optS do
      pure (orReject ((decrypt kdf (← parseBytes p) (← parseNat id) (← parseNat e) (← parseBytes pw)).map fmtBytes))
  | "generate" :: m :: k :: n :: pw :: e :: id :: rest => optS do
      let b39 ← BIP39?
      let s39 ← SLIP39?
      let m ← parsePy m
      let k ← parseNat k
      let n ← parseNat n
      let pw ← parseBytes pw
      let e ← parseNat e
      let id ← parseNat id
      let (ρ, tl) ← parseCounted oneNat rest
      if tl ≠ [] then none else
      match generateShares Hash.sha256 hm kdf b39 s39 m k n pw e id ρ with
      | .ok ms => pure (String.intercalate " " (toString ms.length :: ms.map fmtPy))
      | .reject => pure REJECT
      | .noRandomness => none
  | "recover_mnemonic" :: pw :: rest => optS do
      let b39 ← BIP39?
      let s39 ← SLIP39?
      let pw ← parseBytes pw
      let (ms, tl) ← parseCounted onePy rest
      if tl ≠ [] then none else
      pure (orReject ((recoverMnemonic Hash.sha256 hm kdf b39 s39 ms pw).map fmtPy))
  | ["share_reser", m] => optS do
      let wl ← SLIP39?
      let m ← parsePy m
      pure <| orReject do
        let s ← Share.parse wl m
        let m1 ← s.mnemonic wl
        let m2 ← s.mnemonic wl
        pure s!"{fmtPy m1} {fmtPy m2}"
  | "ss_history" :: rest => optS do
      let wl ← SLIP39?
      let (ms, rest) ← parseCounted onePy rest
      match rest with
      | [] => none
      | k :: rest =>
        let k ← parseNat k
        let (ops, tl) ← parseSsOps wl k rest
        if tl ≠ [] then none else
        pure <| orReject do
          let ops ← ops
          let shares ← mapM? (Share.parse wl) ms
          let o ← ShareSetObj.new shares
          let outs := o.run hm kdf ops
          pure (String.intercalate " " (toString outs.length :: outs.map fun a =>
            match a with
            | some b => fmtBytes b
            | none => "RAISED"))
  | _ => BADOP

def main : IO Unit := runDriver handle
