/-
  Buidl.Drv.Hash — native driver for the executable hash functions (import-free).

  Requests (tokens separated by single spaces, bytes tokens are `x` ++ hex):
    sha256 <bytes> | sha512 <bytes> | sha1 <bytes> | ripemd160 <bytes>
    hash160 <bytes> | hash256 <bytes>
    hmac256 <key> <msg> | hmac512 <key> <msg>
    pbkdf2_512 <password> <salt> <iterations:nat> <dklen:nat> | pbkdf2_256 …
    tagged <tag> <msg>
  Every answer is a bytes token. Anything else — including `iterations = 0` or `dklen = 0`,
  which RFC 2898 / `hashlib.pbkdf2_hmac` do not define — answers `bad-op`.
-/
import Buidl.Drv.Proto
import Buidl.Model.Hash.Basic
import Buidl.Model.Hash.HMAC
import Buidl.Model.Hash.PBKDF2
import Buidl.Model.Hash.Tagged
open Buidl Buidl.Proto Buidl.Hash

def unary (f : Bytes → Bytes) (b : String) : String :=
  match parseBytes b with
  | some x => fmtBytes (f x)
  | none => BADOP

def binary (f : Bytes → Bytes → Bytes) (a b : String) : String :=
  match parseBytes a, parseBytes b with
  | some x, some y => fmtBytes (f x y)
  | _, _ => BADOP

def kdf (f : Bytes → Bytes → Nat → Nat → Bytes) (p s c n : String) : String :=
  match parseBytes p, parseBytes s, parseNat c, parseNat n with
  | some pw, some salt, some iters, some dkLen =>
    if iters = 0 ∨ dkLen = 0 then BADOP else fmtBytes (f pw salt iters dkLen)
  | _, _, _, _ => BADOP

def handle : List String → String
  | ["sha256", b] => unary sha256 b
  | ["sha512", b] => unary sha512 b
  | ["sha1", b] => unary sha1 b
  | ["ripemd160", b] => unary ripemd160 b
  | ["hash160", b] => unary hash160 b
  | ["hash256", b] => unary hash256 b
  | ["hmac256", k, m] => binary hmacSha256 k m
  | ["hmac512", k, m] => binary hmacSha512 k m
  | ["pbkdf2_512", p, s, c, n] => kdf pbkdf2HmacSha512 p s c n
  | ["pbkdf2_256", p, s, c, n] => kdf pbkdf2HmacSha256 p s c n
  | ["tagged", t, m] => binary taggedHash t m
  | _ => BADOP

def main : IO Unit := runDriver handle
